//go:build verif

package main

// C16 driver, part 2: instrumented client, running the real APIEstablisher and
// the real revision.Reconciler, direct monitors, generators.
//
// One WORLD per scenario (c16World): one simstore, one manager client, ONE APIEstablisher and
// ONE revision.Reconciler, as revision.Setup builds them once per process; every step of the
// scenario goes through these same objects, so state carried from one call to the next shows
// up against the per-call model. The world also contains a third party that writes at chosen
// instants (c16Act.At: before/inside the validate phase, between the phases, before each real
// write, inside ReleaseObjects), an informer cache that lags or misses (c16Stale,
// c16StaleRefs) and an API server that answers failing calls with a chosen error class.

import (
	"bytes"
	"context"
	"encoding/json"
	"fmt"
	"io"
	"reflect"
	"sort"
	"strings"
	"sync"

	kerrors "k8s.io/apimachinery/pkg/api/errors"
	metav1 "k8s.io/apimachinery/pkg/apis/meta/v1"
	"k8s.io/apimachinery/pkg/apis/meta/v1/unstructured"
	"k8s.io/apimachinery/pkg/runtime"
	"k8s.io/apimachinery/pkg/runtime/schema"
	"k8s.io/apimachinery/pkg/types"
	"sigs.k8s.io/controller-runtime/pkg/client"
	"sigs.k8s.io/controller-runtime/pkg/client/apiutil"
	"sigs.k8s.io/controller-runtime/pkg/manager"
	"sigs.k8s.io/controller-runtime/pkg/reconcile"

	xpv1 "github.com/crossplane/crossplane-runtime/apis/common/v1"
	"github.com/crossplane/crossplane-runtime/pkg/feature"
	"github.com/crossplane/crossplane-runtime/pkg/parser"

	xv1 "github.com/crossplane/crossplane/apis/apiextensions/v1"
	pkgmetav1 "github.com/crossplane/crossplane/apis/pkg/meta/v1"
	pkgv1 "github.com/crossplane/crossplane/apis/pkg/v1"
	"github.com/crossplane/crossplane/internal/controller/pkg/revision"
	"github.com/crossplane/crossplane/internal/xpkg"
)

// ---------------------------------------------------------------- instrumented client

type c16Call struct {
	Verb  string
	Key   string
	Dry   bool
	Body  int
	Idx   int    // object / ref index the call belongs to (-1 unknown)
	Phase string // get | dry | real
	Mode  string // est | rel | "" (not a package object)
}

// c16Write is one non-dry-run write of the revision to a package object as the API server saw
// it: the stored object immediately before the call (after whatever the third party did up to
// that instant) and immediately after it.
type c16Write struct {
	Verb string
	Key  string
	Mode string // est | rel
	Pre  *c16Obj
	Post *c16Obj
}

// c16View is what the Get of a validate goroutine returned (nil Obj = NotFound).
type c16View struct {
	Obj *c16Obj
}

// c16Client serialises calls into simstore and lets the fault plan see the
// submitted object (body) so that a deterministic "the API server rejects this
// object" predicate can be injected for dry-run and real calls alike. It treats
// TypeMeta exactly as controller-runtime's client does: a cached Get sets it,
// Update/Status().Update preserve it, Create leaves it cleared. It is built ONCE per
// scenario (like the manager's client) and told which step is running.
type c16Client struct {
	*Store
	mu      sync.Mutex
	pending int // body of the object being submitted
	calls   []c16Call
	step    *c16Step
	mode    string   // "est" | "rel": which of Establish / ReleaseObjects issues package-object calls
	refKeys []string // release candidates
	seen    map[string]int
	fired   map[int]bool // third-party writes of the step already performed (index into step.TP)
	applied []c16Act     // ... in the order they were performed
	// per call, set by plan()
	curIdx   int
	curPhase string
	curClass string  // error class an injected failure of this call is answered with
	preWrite *c16Obj // stored object right before this (real) write
	preKey   string
	writes   []c16Write
	views    map[int]c16View // validate phase: what the Get of object idx returned
	revGets  int             // Gets of the revision object in this step
}

func (c *c16Client) begin(s *c16Step) {
	c.mu.Lock()
	defer c.mu.Unlock()
	c.step = s
	c.mode = "est"
	c.pending = -1
	c.calls = nil
	c.refKeys = nil
	c.seen = map[string]int{}
	c.fired = map[int]bool{}
	c.applied = nil
	c.writes = nil
	c.views = map[int]c16View{}
	c.revGets = 0
}

// thirdParty performs the step's third-party writes scheduled at (at, idx). It runs inside
// simstore's Before-the-call window (the plan callback: after the call is counted, before it is
// evaluated against the store), with c.mu held, so it is atomic with respect to the
// establisher's goroutines.
func (c *c16Client) thirdParty(at string, idx int) {
	for k, a := range c.step.TP {
		if a.At == "pre" {
			a.At = ""
		}
		if a.At != at || a.I != idx || c.fired[k] {
			continue
		}
		c.fired[k] = true
		t := c16Build(a.Key, a.Body)
		_, name := c16SplitKey(a.Key)
		c.Store.Remove(t.GetObjectKind().GroupVersionKind().GroupKind(), "", name)
		if a.Act == "put" {
			t.SetOwnerReferences(c16MkRefs(a.Owners))
			c.Store.Seed(t)
		}
		c.applied = append(c.applied, a)
	}
}

// c16ApplyActs is the store view `objs` after the third-party writes `acts`.
func c16ApplyActs(objs []c16Obj, acts []c16Act) []c16Obj {
	out := append([]c16Obj{}, objs...)
	for _, a := range acts {
		kept := out[:0:0]
		for _, o := range out {
			if o.Key != a.Key {
				kept = append(kept, o)
			}
		}
		out = kept
		if a.Act == "put" {
			ow := []c16Ref{}
			for _, r := range a.Owners {
				ow = append(ow, c16Ref{UID: r.UID, Ctrl: r.Ctrl, Block: r.Block}) // names are not part of the view
			}
			out = append(out, c16Obj{Key: a.Key, Body: a.Body, Owners: ow})
		}
	}
	sort.Slice(out, func(i, j int) bool { return out[i].Key < out[j].Key })
	return out
}

func c16IsPkgKey(key string) bool {
	return strings.HasPrefix(key, "Composition/") || strings.HasPrefix(key, "XRD/") || strings.HasPrefix(key, "CRD/")
}

var c16KindGVK = map[string]schema.GroupVersionKind{
	"Composition": xv1.CompositionGroupVersionKind,
	"XRD":         xv1.CompositeResourceDefinitionGroupVersionKind,
	"CRD":         {Group: "apiextensions.k8s.io", Version: "v1", Kind: "CustomResourceDefinition"},
}

// c16PeekKey is the stored package object with this key in canonical form (nil = absent).
func c16PeekKey(st *Store, key string) *c16Obj {
	kind, name := c16SplitKey(key)
	gvk, ok := c16KindGVK[kind]
	if !ok {
		return nil
	}
	u := st.Peek(gvk.GroupKind(), "", name)
	if u == nil {
		return nil
	}
	return c16ObjOfMeta(key, u)
}

func c16ObjOfMeta(key string, u metav1.Object) *c16Obj {
	o := &c16Obj{Key: key, Body: c16BodyOf(u), Owners: []c16Ref{}}
	for _, r := range u.GetOwnerReferences() {
		o.Owners = append(o.Owners, c16Ref{UID: c16UIDNum(r.UID), Ctrl: c16TriStr(r.Controller), Block: c16TriStr(r.BlockOwnerDeletion)})
	}
	return o
}

// c16ClassErr is the API error of the given class.
func c16ClassErr(class, key string) error {
	_, name := c16SplitKey(key)
	gr := schema.GroupResource{Group: "example.org", Resource: "things"}
	switch class {
	case "notFound":
		return kerrors.NewNotFound(gr, name)
	case "alreadyExists":
		return kerrors.NewAlreadyExists(gr, name)
	case "invalid":
		return kerrors.NewInvalid(schema.GroupKind{Group: "example.org", Kind: "Thing"}, name, nil)
	case "forbidden":
		return kerrors.NewForbidden(gr, name, fmt.Errorf("injected"))
	case "timeout":
		return kerrors.NewServerTimeout(gr, "update", 1)
	case "tooMany":
		return kerrors.NewTooManyRequests("injected", 1)
	case "unavailable":
		return kerrors.NewServiceUnavailable("injected")
	case "deadline":
		return context.DeadlineExceeded
	}
	return nil
}

// classify replaces an injected plain failure by the error class the scenario asks for.
func (c *c16Client) classify(err error, key string) error {
	if err == nil || c.curClass == "" || err == ErrCrashed {
		return err
	}
	if e := c16ClassErr(c.curClass, key); e != nil {
		return e
	}
	return err
}

// staleFor returns the scenario's cache staleness for the validate-phase Get of object idx.
func (c *c16Client) staleFor(idx int) *c16Stale {
	if c.mode != "est" || idx < 0 {
		return nil
	}
	for k := range c.step.Stale {
		if c.step.Stale[k].I == idx {
			return &c.step.Stale[k]
		}
	}
	return nil
}

// olderVersion finds, in simstore's history of the object, the version `back` writes before the
// stored one (versions carrying the stored resourceVersion do not count).
func (c *c16Client) olderVersion(gk schema.GroupKind, name string, back int) map[string]any {
	cur := c.Store.Peek(gk, "", name)
	curRV := ""
	if cur != nil {
		curRV = cur.GetResourceVersion()
	}
	h := c.Store.History[objKey{gk, "", name}]
	n := 0
	for i := len(h) - 1; i >= 0; i-- {
		rv, _, _ := unstructured.NestedString(h[i], "metadata", "resourceVersion")
		if rv == curRV {
			continue
		}
		n++
		if n == back {
			return h[i]
		}
	}
	return nil
}

func (c *c16Client) Get(ctx context.Context, key client.ObjectKey, obj client.Object, opts ...client.GetOption) error {
	c.mu.Lock()
	defer c.mu.Unlock()
	c.pending = -1
	c.curIdx, c.curPhase, c.curClass = -1, "", ""
	err := c.Store.Get(ctx, key, obj, opts...)
	_, isU := obj.(runtime.Unstructured)
	gvk, gerr := apiutil.GVKForObject(obj, c.Store.Scheme())
	if err == ErrCrashed {
		return err
	}
	if c.curClass != "" && err != nil {
		err = c.classify(err, key.Name)
	}
	// the informer cache behind a typed Get of the validate phase
	if st := c.staleFor(c.curIdx); st != nil && !isU && c.curPhase == "get" && gerr == nil && (err == nil || kerrors.IsNotFound(err)) {
		switch {
		case st.Miss:
			err = kerrors.NewNotFound(schema.GroupResource{Group: gvk.Group, Resource: strings.ToLower(gvk.Kind)}, key.Name)
		case st.Back > 0:
			if m := c.olderVersion(gvk.GroupKind(), key.Name, st.Back); m != nil {
				_ = c.Store.fromMap(m, obj)
				err = nil
				v := c16ObjOfMeta(c.step.Objs[c.curIdx].Key, obj)
				st.Body, st.Owners = v.Body, v.Owners
			} else {
				st.I = -1 - st.I // no older version: the cache is up to date (entry dropped after the run)
			}
		default:
			t := c16Build(c.step.Objs[c.curIdx].Key, st.Body)
			t.SetOwnerReferences(c16MkRefs(st.Owners))
			t.SetResourceVersion("0")
			t.SetUID(types.UID("uid-stale"))
			reflect.ValueOf(obj).Elem().Set(reflect.ValueOf(t).Elem())
			err = nil
		}
	}
	// the informer cache behind the reconciler's Get of the revision itself
	if err == nil && !isU && gerr == nil && gvk.GroupKind() == c16RevGK && c.step != nil && c.step.Op == "reconcile" {
		c.revGets++
		if sr := c.step.StaleRefs; sr != nil && c.revGets == 1 {
			if pr, ok := obj.(pkgv1.PackageRevision); ok {
				pr.SetObjects(c16TypedRefs(sr.Refs))
				pr.SetResourceVersion("0")
			}
		}
	}
	if err == nil && !isU && gerr == nil {
		obj.GetObjectKind().SetGroupVersionKind(gvk) // CacheReader.Get
	}
	if c.mode == "est" && c.curPhase == "get" && c.curIdx >= 0 && (err == nil || kerrors.IsNotFound(err)) {
		v := c16View{}
		if err == nil {
			v.Obj = c16ObjOfMeta(c.step.Objs[c.curIdx].Key, obj)
		}
		c.views[c.curIdx] = v
	}
	return err
}

func (c *c16Client) noteWrite(verb string) {
	if c.curPhase != "real" || c.preKey == "" {
		return
	}
	c.writes = append(c.writes, c16Write{Verb: verb, Key: c.preKey, Mode: c.mode, Pre: c.preWrite, Post: c16PeekKey(c.Store, c.preKey)})
}

func (c *c16Client) Create(ctx context.Context, obj client.Object, opts ...client.CreateOption) error {
	c.mu.Lock()
	defer c.mu.Unlock()
	c.pending = c16BodyOf(obj)
	c.curIdx, c.curPhase, c.curClass, c.preKey, c.preWrite = -1, "", "", "", nil
	err := c.Store.Create(ctx, obj, opts...)
	c.noteWrite("create")
	return c.classify(err, obj.GetName())
}

func (c *c16Client) Update(ctx context.Context, obj client.Object, opts ...client.UpdateOption) error {
	c.mu.Lock()
	defer c.mu.Unlock()
	c.pending = c16BodyOf(obj)
	c.curIdx, c.curPhase, c.curClass, c.preKey, c.preWrite = -1, "", "", "", nil
	gvk := obj.GetObjectKind().GroupVersionKind()
	err := c.Store.Update(ctx, obj, opts...)
	if !gvk.Empty() {
		obj.GetObjectKind().SetGroupVersionKind(gvk) // client.resetGroupVersionKind
	}
	c.noteWrite("update")
	return c.classify(err, obj.GetName())
}

type c16Status struct {
	c *c16Client
	client.SubResourceWriter
}

func (w c16Status) Update(ctx context.Context, obj client.Object, opts ...client.SubResourceUpdateOption) error {
	w.c.mu.Lock()
	defer w.c.mu.Unlock()
	w.c.pending = -1
	w.c.curIdx, w.c.curPhase, w.c.curClass, w.c.preKey, w.c.preWrite = -1, "", "", "", nil
	gvk := obj.GetObjectKind().GroupVersionKind()
	err := w.SubResourceWriter.Update(ctx, obj, opts...)
	if !gvk.Empty() {
		obj.GetObjectKind().SetGroupVersionKind(gvk)
	}
	return err
}

func (c *c16Client) Status() client.SubResourceWriter {
	return c16Status{c: c, SubResourceWriter: c.Store.Status()}
}

func c16Outcome(s string) Outcome {
	switch s {
	case "fail":
		return Fail
	case "conflict":
		return Conflict
	case "crashBefore":
		return CrashBefore
	case "crashAfter":
		return CrashAfter
	}
	return OK
}

// plan is installed as st.Plan for one step. Called with c.mu held.
func (c *c16Client) plan(ci CallInfo) Outcome {
	s := c.step
	key := c16KeyOf(ci.GK, ci.Name)
	if ci.GK == "Secret" && ci.Verb == "get" {
		// getWebhookTLSCert
		c.calls = append(c.calls, c16Call{Verb: ci.Verb, Key: key, Idx: 0, Phase: "tls"})
		for _, f := range s.Faults {
			if f.Phase == "tls" {
				if f.Out == "fail" {
					c.curClass = f.Class
				}
				return c16Outcome(f.Out)
			}
		}
		return OK
	}
	if !c16IsPkgKey(key) || ci.Sub != "" {
		c.calls = append(c.calls, c16Call{Verb: ci.Verb, Key: key, Idx: -1})
		return OK
	}
	phase := "real"
	if ci.Verb == "get" {
		phase = "get"
	} else if ci.DryRun {
		phase = "dry"
	}
	// which object / ref index does this call belong to?
	var cands []int
	if c.mode == "rel" {
		for i, k := range c.refKeys {
			if k == key {
				cands = append(cands, i)
			}
		}
	} else {
		for i, d := range s.Objs {
			if d.Key == key {
				cands = append(cands, i)
			}
		}
	}
	// With duplicates of a key (sequential runs only) the goroutines run in list
	// order: the k-th Get of the key belongs to the k-th duplicate, a dry-run write
	// follows the Get of its own goroutine, and in the establish phase every
	// duplicate issues its real write (they share key, state and role) in order.
	idx := -1
	if len(cands) > 0 {
		if phase == "dry" || (phase == "real" && c.mode == "rel") {
			if v, ok := c.seen[key+"|cur"]; ok {
				idx = v
			} else {
				idx = cands[0]
			}
		} else {
			n := c.seen[key+"|"+phase]
			c.seen[key+"|"+phase] = n + 1
			if n < len(cands) {
				idx = cands[n]
			} else {
				idx = cands[len(cands)-1]
			}
			if phase == "get" {
				c.seen[key+"|cur"] = idx
			}
		}
	}
	c.calls = append(c.calls, c16Call{Verb: ci.Verb, Key: key, Dry: ci.DryRun, Body: c.pending, Idx: idx, Phase: phase, Mode: c.mode})
	c.curIdx, c.curPhase = idx, phase
	// the third party, right before this call is evaluated
	switch {
	case c.mode == "est" && phase == "real":
		c.thirdParty("", -1) // "between the phases": before the first real write
		if idx >= 0 {
			c.thirdParty("", idx)
		}
	case c.mode == "est" && phase == "get" && idx >= 0:
		c.thirdParty("vget", idx)
	case c.mode == "est" && phase == "dry" && idx >= 0:
		c.thirdParty("vdry", idx)
	case c.mode == "rel" && phase == "get" && idx >= 0:
		c.thirdParty("rget", idx)
	case c.mode == "rel" && phase == "real" && idx >= 0:
		c.thirdParty("rupd", idx)
	}
	if phase == "real" {
		c.preKey = key
		c.preWrite = c16PeekKey(c.Store, key)
	}
	if ci.IsWrite() {
		for _, b := range s.RejBodies {
			if b == c.pending {
				return Fail
			}
		}
		for _, k := range s.RejKeys {
			if k == key {
				return Fail
			}
		}
	}
	for _, f := range s.Faults {
		if f.I == idx && f.Phase == phase {
			if f.Out == "fail" {
				c.curClass = f.Class
			}
			return c16Outcome(f.Out)
		}
	}
	return OK
}

// ---------------------------------------------------------------- the revision objects (reconcile steps)

var c16RevGK = schema.GroupKind{Group: "pkg.crossplane.io", Kind: "ConfigurationRevision"}

func c16RevName(uid int) string {
	_, _, n := c16OwnerIdent(uid)
	return n
}

func c16TypedRefs(refs []c16XRef) []xpv1.TypedReference {
	out := []xpv1.TypedReference{}
	for _, r := range refs {
		kind, name := c16SplitKey(r.Key)
		tr := xpv1.TypedReference{Name: name}
		if r.Kinded {
			gvk := xv1.CompositionGroupVersionKind
			if kind == "XRD" {
				gvk = xv1.CompositeResourceDefinitionGroupVersionKind
			}
			if kind == "CRD" {
				gvk = schema.GroupVersionKind{Group: "apiextensions.k8s.io", Version: "v1", Kind: "CustomResourceDefinition"}
			}
			tr.APIVersion, tr.Kind = gvk.ToAPIVersionAndKind()
		}
		out = append(out, tr)
	}
	return out
}

func c16SeedRevs(st *Store, revs []c16RevState) {
	for _, rv := range revs {
		pr := &pkgv1.ConfigurationRevision{}
		pr.SetGroupVersionKind(pkgv1.ConfigurationRevisionGroupVersionKind)
		pr.SetName(c16RevName(rv.UID))
		pr.SetUID(c16UID(rv.UID))
		pr.SetFinalizers([]string{"revision.pkg.crossplane.io"})
		pr.Spec.DesiredState = pkgv1.PackageRevisionInactive
		pr.Spec.Package = fmt.Sprintf("example.org/pkg-%d:v%d", rv.UID/10, rv.UID%10)
		pr.Spec.Revision = int64(rv.UID % 10)
		pr.Status.ObjectRefs = c16TypedRefs(rv.Refs)
		st.Seed(pr)
	}
}

// c16StatusRefs reads status.objectRefs of a stored revision in stored order.
// The key of an un-kinded reference is "?/<name>".
func c16StatusRefs(st *Store, uid int) []c16XRef {
	out := []c16XRef{}
	u := st.Peek(c16RevGK, "", c16RevName(uid))
	if u == nil {
		return out
	}
	return c16RefsOfMap(u.Object)
}

func c16RefsOfMap(m map[string]any) []c16XRef {
	out := []c16XRef{}
	refs, _, _ := unstructured.NestedSlice(m, "status", "objectRefs")
	for _, r := range refs {
		m, _ := r.(map[string]any)
		kind, _ := m["kind"].(string)
		name, _ := m["name"].(string)
		switch kind {
		case "":
			out = append(out, c16XRef{Key: "?/" + name, Kinded: false})
		case "CompositeResourceDefinition":
			out = append(out, c16XRef{Key: "XRD/" + name, Kinded: true})
		case "CustomResourceDefinition":
			out = append(out, c16XRef{Key: "CRD/" + name, Kinded: true})
		default:
			out = append(out, c16XRef{Key: kind + "/" + name, Kinded: true})
		}
	}
	return out
}

type c16Mgr struct {
	manager.Manager
	c client.Client
}

func (m c16Mgr) GetClient() client.Client { return m.c }

// c16Cache is the package cache of the (long-lived) reconciler: the image of every revision
// by revision name.
type c16Cache struct{ content map[string][]byte }

func (c *c16Cache) Has(string) bool { return true }
func (c *c16Cache) Get(id string) (io.ReadCloser, error) {
	return io.NopCloser(bytes.NewReader(c.content[id])), nil
}
func (c *c16Cache) Store(string, io.ReadCloser) error { return nil }
func (c *c16Cache) Delete(string) error               { return nil }

type c16Lock struct{}

func (c16Lock) Resolve(context.Context, pkgmetav1.Pkg, pkgv1.PackageRevision) (int, int, int, error) {
	return 0, 0, 0, nil
}
func (c16Lock) RemoveSelf(context.Context, pkgv1.PackageRevision) error { return nil }

type c16Cfg struct{ xpkg.ConfigStore }

func (c16Cfg) PullSecretFor(context.Context, string) (string, string, error) { return "", "", nil }

// c16PackageStream renders the package (one Configuration meta object and the
// objects) as the YAML/JSON stream the real parser reads from the cache.
func c16PackageStream(objs []c16Des) []byte {
	var b bytes.Buffer
	m := &pkgmetav1.Configuration{}
	m.SetGroupVersionKind(pkgmetav1.ConfigurationGroupVersionKind)
	m.SetName("cfg")
	mb, _ := json.Marshal(m)
	b.Write(mb)
	for _, d := range objs {
		b.WriteString("\n---\n")
		ob, _ := json.Marshal(c16BuildConv(d.Key, d.Body, d.Conv))
		b.Write(ob)
	}
	b.WriteString("\n")
	return b.Bytes()
}

var (
	c16MetaScheme, _ = xpkg.BuildMetaScheme()
	c16ObjScheme, _  = xpkg.BuildObjectScheme()
)

// ---------------------------------------------------------------- running one step

func c16Seed(st *Store, objs []c16Obj) {
	for _, o := range objs {
		t := c16Build(o.Key, o.Body)
		t.SetOwnerReferences(c16MkRefs(o.Owners))
		st.Seed(t)
	}
}

// c16FirstOrder lists the indices in order of first appearance in calls of the
// given mode and phase, then the remaining indices ascending.
func c16FirstOrder(calls []c16Call, mode, phase string, n int) []int {
	out := []int{}
	seen := map[int]bool{}
	for _, c := range calls {
		if c.Mode == mode && c.Phase == phase && c.Idx >= 0 && c.Idx < n && !seen[c.Idx] {
			seen[c.Idx] = true
			out = append(out, c.Idx)
		}
	}
	for i := 0; i < n; i++ {
		if !seen[i] {
			out = append(out, i)
		}
	}
	return out
}

// c16World is what lives as long as the package manager's process: the API server, the manager's
// client, ONE APIEstablisher and ONE revision.Reconciler (see revision.Setup*), driven through
// all the steps of a scenario.
type c16World struct {
	st    *Store
	cl    *c16Client
	est   *revision.APIEstablisher
	rec   *revision.Reconciler
	cache *c16Cache
	spy   *c16EstSpy
}

// c16EstSpy hands the reconciler the real APIEstablisher and notes whether its last Establish
// call reported success (a reconcile can still end in an error afterwards).
type c16EstSpy struct {
	*revision.APIEstablisher
	calls  int
	lastOK bool
}

func (e *c16EstSpy) Establish(ctx context.Context, objs []runtime.Object, parent pkgv1.PackageRevision, control bool) ([]xpv1.TypedReference, error) {
	refs, err := e.APIEstablisher.Establish(ctx, objs, parent, control)
	e.calls++
	e.lastOK = err == nil
	return refs, err
}

func c16NewWorld(scn *c16Scn) *c16World {
	st := NewStore(c16Scheme)
	st.KeepHistory = true
	c16Seed(st, scn.Store)
	c16SeedRevs(st, scn.Revs)
	w := &c16World{st: st, cache: &c16Cache{content: map[string][]byte{}}}
	w.cl = &c16Client{Store: st}
	w.est = revision.NewAPIEstablisher(w.cl, "crossplane-system", 1)
	w.spy = &c16EstSpy{APIEstablisher: w.est}
	return w
}

func (w *c16World) reconciler() *revision.Reconciler {
	if w.rec == nil {
		w.rec = revision.NewReconciler(c16Mgr{c: w.cl},
			revision.WithNewPackageRevisionFn(func() pkgv1.PackageRevision { return &pkgv1.ConfigurationRevision{} }),
			revision.WithCache(w.cache),
			revision.WithParser(parser.New(c16MetaScheme, c16ObjScheme)),
			revision.WithLinter(xpkg.NewConfigurationLinter()),
			revision.WithDependencyManager(c16Lock{}),
			revision.WithConfigStore(c16Cfg{}),
			revision.WithEstablisher(w.spy),
			revision.WithFeatureFlags(&feature.Flags{}),
		)
	}
	return w.rec
}

// c16DesiredState is spec.desiredState of the revision at a reconcile step.
func c16DesiredState(s *c16Step) string {
	if s.DS != nil {
		return *s.DS
	}
	if s.Control {
		return string(pkgv1.PackageRevisionActive)
	}
	return string(pkgv1.PackageRevisionInactive)
}

// c16Deactivating: the reconciler is expected to deactivate the revision at this step
// (ReleaseObjects, shortcut): its desired state is exactly Inactive.
func c16Deactivating(s *c16Step) bool {
	return s.Op == "reconcile" && c16DesiredState(s) == string(pkgv1.PackageRevisionInactive)
}

// c16Trace is what the instrumented client saw during one step.
type c16Trace struct {
	calls   []c16Call
	applied []c16Act
	writes  []c16Write
	views   map[int]c16View
	listed  []c16XRef // status.objectRefs as the reconciler read it (stale or not)
	// the first call of the validate phase (a Get of a package object, a dry-run write) that the
	// API server answered with an error, and the non-dry-run writes issued in the same step
	refused    string
	realWrites []string
}

// c16ResolveStaleRefs turns a "Back" request into the list the revision had that many status
// writes ago (nil = no older list: the staleness is dropped).
func c16ResolveStaleRefs(st *Store, s *c16Step) {
	sr := s.StaleRefs
	if sr == nil || s.Op != "reconcile" {
		s.StaleRefs = nil
		return
	}
	if sr.Refs == nil {
		sr.Refs = []c16XRef{}
	}
	if sr.Back <= 0 {
		return
	}
	cur := mustJSON(c16StatusRefs(st, s.Parent.UID))
	h := st.History[objKey{c16RevGK, "", c16RevName(s.Parent.UID)}]
	n, last := 0, cur
	for i := len(h) - 1; i >= 0; i-- {
		l := c16RefsOfMap(h[i])
		if j := mustJSON(l); j != last {
			n++
			last = j
			if n == sr.Back {
				sr.Refs = l
				return
			}
		}
	}
	s.StaleRefs = nil
}

func (w *c16World) runStep(s *c16Step) (c16StepObs, c16Trace) {
	st, cl, e := w.st, w.cl, w.est
	cl.begin(s)
	st.Revive()
	st.Log = nil
	conc := s.Conc
	if conc < 1 {
		conc = 1
	}
	e.MaxConcurrentPackageEstablishers = conc
	obs := c16StepObs{Refs: []c16RefObs{}, Log: []c16Log{}}
	var err error
	var panicked string
	requeue := false
	tr := c16Trace{}
	switch s.Op {
	case "release":
		cl.mode = "rel"
		for _, r := range s.Refs {
			if r.Kinded {
				cl.refKeys = append(cl.refKeys, r.Key)
			} else {
				cl.refKeys = append(cl.refKeys, "?/"+r.Key)
			}
		}
		parent := c16ParentObj(s.Parent)
		parent.SetObjects(c16TypedRefs(s.Refs))
		st.Plan = cl.plan
		panicked = Guard(func() { err = e.ReleaseObjects(context.Background(), parent) })
	case "reconcile":
		name := c16RevName(s.Parent.UID)
		c16ResolveStaleRefs(st, s)
		tr.listed = c16StatusRefs(st, s.Parent.UID)
		if s.StaleRefs != nil {
			tr.listed = s.StaleRefs.Refs
		}
		for _, r := range tr.listed {
			cl.refKeys = append(cl.refKeys, r.Key)
		}
		if s.DS != nil {
			s.Control = *s.DS == string(pkgv1.PackageRevisionActive) // what "active" means: exactly that string
		}
		if c16Deactivating(s) && len(tr.listed) > 0 {
			cl.mode = "rel"
		}
		// environment: the package manager sets labels, owner references and the desired state
		st.Mutate(c16RevGK, "", name, func(u *unstructured.Unstructured) {
			p := c16ParentObj(s.Parent)
			u.SetLabels(p.GetLabels())
			u.SetOwnerReferences(p.GetOwnerReferences())
			_ = unstructured.SetNestedField(u.Object, c16DesiredState(s), "spec", "desiredState")
		})
		st.Log = nil
		w.cache.content[name] = c16PackageStream(s.Objs)
		r := w.reconciler()
		w.spy.calls = 0
		st.Plan = cl.plan
		panicked = Guard(func() {
			var res reconcile.Result
			res, err = r.Reconcile(context.Background(), reconcile.Request{NamespacedName: types.NamespacedName{Name: name}})
			requeue = res.Requeue
		})
	default:
		parent := c16ParentObj(s.Parent)
		c16SetTLS(st, s.Parent.TLS)
		var objs []runtime.Object
		for _, d := range s.Objs {
			objs = append(objs, c16BuildConv(d.Key, d.Body, d.Conv))
		}
		var refs []xpv1.TypedReference
		st.Plan = cl.plan
		panicked = Guard(func() { refs, err = e.Establish(context.Background(), objs, parent, s.Control) })
		if err == nil {
			for _, r := range refs {
				obs.Refs = append(obs.Refs, c16RefObs{Name: r.Name, Kinded: r.Kind != ""})
			}
			sort.Slice(obs.Refs, func(i, j int) bool {
				a, b := obs.Refs[i], obs.Refs[j]
				if a.Name != b.Name {
					return a.Name < b.Name
				}
				return !a.Kinded && b.Kinded
			})
		}
	}
	st.Plan = nil
	realSeen := false
	for _, c := range cl.calls {
		if c.Mode == "est" && c.Phase == "real" {
			realSeen = true
		}
	}
	// Establish succeeded (the reconcile may still have failed afterwards: a refused status
	// update) without issuing a single real write (nothing to do for an inactive revision whose
	// objects are absent; an empty package): the validate phase was passed, so the third
	// party's "between the phases" writes still happen
	establishOK := err == nil && !requeue
	if s.Op == "reconcile" {
		establishOK = w.spy.calls > 0 && w.spy.lastOK
	}
	if cl.mode == "est" && s.Op != "release" && panicked == "" && !st.Crashed() && establishOK && !realSeen {
		cl.thirdParty("", -1)
	}
	switch {
	case panicked != "":
		obs.Result = "panic: " + panicked
	case st.Crashed():
		obs.Result = "crash"
		obs.Refs = []c16RefObs{}
	case err != nil || requeue:
		obs.Result = "err"
	default:
		obs.Result = "ok"
	}
	for _, c := range st.Log {
		key := c16KeyOf(c.GK, c.Name)
		if !c16IsPkgKey(key) || c.Sub != "" {
			continue
		}
		if cl.mode == "est" && tr.refused == "" {
			if (c.IsWrite() && c.DryRun && c.Err != "") || (c.Verb == "get" && c.Err != "" && c.Err != "notFound") {
				tr.refused = fmt.Sprintf("%s %s (dry run: %v) was answered with %q", c.Verb, key, c.DryRun, c.Err)
			}
		}
		if !c.IsWrite() || c.DryRun {
			continue
		}
		tr.realWrites = append(tr.realWrites, c.Verb+" "+key)
		obs.Log = append(obs.Log, c16Log{Verb: c.Verb, Key: key, Err: c.Err, Changed: c.Changed})
	}
	if conc > 1 {
		sort.SliceStable(obs.Log, func(i, j int) bool {
			a, b := obs.Log[i], obs.Log[j]
			if a.Key != b.Key {
				return a.Key < b.Key
			}
			return a.Verb < b.Verb
		})
	}
	st.Revive()
	obs.Store = c16Snapshot(st)
	if s.Op == "reconcile" {
		obs.Refs = []c16RefObs{}
		for _, r := range c16StatusRefs(st, s.Parent.UID) {
			_, name := c16SplitKey(r.Key)
			obs.Refs = append(obs.Refs, c16RefObs{Name: name, Kinded: r.Kinded})
		}
	}
	// what the model must be told
	s.Ran = make([]bool, len(cl.refKeys))
	for _, c := range cl.calls {
		if c.Mode == "rel" && c.Phase == "get" && c.Idx >= 0 && c.Idx < len(s.Ran) {
			s.Ran[c.Idx] = true
		}
	}
	s.VOrder = c16FirstOrder(cl.calls, "est", "get", len(s.Objs))
	s.EOrder = c16FirstOrder(cl.calls, "est", "real", len(s.Objs))
	if s.Op == "release" {
		s.VOrder, s.EOrder = []int{}, []int{}
	}
	// cache entries that turned out not to be stale (no older version) are dropped
	kept := s.Stale[:0:0]
	for _, x := range s.Stale {
		if x.I >= 0 {
			if x.Owners == nil {
				x.Owners = []c16Ref{}
			}
			kept = append(kept, x)
		}
	}
	s.Stale = kept
	tr.calls, tr.applied, tr.writes, tr.views = cl.calls, cl.applied, cl.writes, cl.views
	return obs, tr
}

// c16Events names what the world made happen in the last c16Run (appended to the scenario class,
// so that the evidence shows that the interesting interleavings do occur).
var c16Events map[string]bool

func c16NoteEvents(s *c16Step, so c16StepObs, tr c16Trace) {
	for _, w := range tr.writes {
		if w.Pre == nil || w.Post == nil || c16Same(*w.Pre, *w.Post) {
			continue
		}
		for _, a := range tr.applied {
			if a.Act == "put" && a.Key == w.Key && len(c16ApplyActs(nil, []c16Act{a})) == 1 && c16Same(c16ApplyActs(nil, []c16Act{a})[0], *w.Pre) {
				c16Events["rewrote-3rd-party-put"] = true
			}
		}
	}
	real := false
	for _, c := range tr.calls {
		if c.Phase == "real" {
			real = true
		}
	}
	for _, a := range tr.applied {
		switch a.At {
		case "vget", "vdry":
			if !real && so.Result == "err" {
				c16Events["validation-refused-under-interference"] = true
			}
		case "rget", "rupd":
			for _, l := range so.Log {
				if l.Key == a.Key && (l.Err == "conflict" || l.Err == "notFound") {
					c16Events["release-refused-under-interference"] = true
				}
			}
		}
	}
	if len(s.Stale) > 0 && len(tr.views) > 0 {
		if !real && so.Result == "err" {
			c16Events["validation-refused-on-stale-read"] = true
		} else {
			c16Events["stale-read"] = true
		}
	}
	if s.StaleRefs != nil {
		c16Events["stale-revision"] = true
	}
}

func c16EventSuffix() string {
	var ks []string
	for k := range c16Events {
		ks = append(ks, k)
	}
	sort.Strings(ks)
	if len(ks) == 0 {
		return ""
	}
	return " !" + strings.Join(ks, ",")
}

func c16Run(scn *c16Scn) (c16Obs, []Mon) {
	w := c16NewWorld(scn)
	st := w.st
	c16Events = map[string]bool{}
	obs := c16Obs{Steps: []c16StepObs{}}
	var mons []Mon
	established := map[string]bool{} // keys established by a revision whose package owner reference resolves
	// released[u]: revision u was last reconciled as INACTIVE and that reconcile succeeded; the
	// value is what it could legitimately have controlled: the objects of its package and
	// whatever its status.objectRefs listed. Until u is reconciled as active again it must be
	// the controller of none of these ("deactivation gives up control").
	released := map[int]map[string]bool{}
	reported := map[string]bool{}
	for i := range scn.Steps {
		s := &scn.Steps[i]
		before := c16Snapshot(st)
		refsBefore := c16StatusRefs(st, s.Parent.UID)
		so, tr := w.runStep(s)
		applied := tr.applied
		obs.Steps = append(obs.Steps, so)
		listed := refsBefore
		if s.Op == "reconcile" {
			listed = tr.listed
		}
		mons = append(mons, c16Monitor(s, before, listed, so, tr)...)
		c16NoteEvents(s, so, tr)
		releasing := s.Op == "release" || (c16Deactivating(s) && len(listed) > 0)
		// an object the third party deleted or replaced is the third party's from now on
		for _, a := range applied {
			delete(established, a.Key)
		}
		before = c16ApplyActs(before, applied)
		if s.Op == "reconcile" {
			u := s.Parent.UID
			refsAfter := c16StatusRefs(st, u)
			// status.objectRefs is only ever replaced by a successful Establish: a reconcile that
			// ends in an error (or a crash) must not lose an entry - ReleaseObjects and the
			// inactive shortcut of the reconciler trust that list to be complete
			if so.Result != "ok" {
				for _, rb := range refsBefore {
					found := false
					for _, ra := range refsAfter {
						if ra == rb {
							found = true
						}
					}
					if !found {
						mons = append(mons, Mon{Sig: "C16:object-refs-shrunk-on-error", Why: fmt.Sprintf("step %d: reconcile of revision %d ended with %q but status.objectRefs lost %s (before %s, after %s)", i, u, so.Result, rb.Key, mustJSON(refsBefore), mustJSON(refsAfter))})
						break
					}
				}
			}
			// a reconcile that read the revision out of a lagging cache must not get its view of
			// status.objectRefs into the API server, nor report success on the strength of it
			if s.StaleRefs != nil && !strings.HasPrefix(so.Result, "panic") {
				if mustJSON(refsAfter) != mustJSON(refsBefore) {
					mons = append(mons, Mon{Sig: "C16:object-refs-written-from-stale-read", Why: fmt.Sprintf("step %d: revision %d was read out of a lagging cache (status.objectRefs %s) and the reconcile changed the stored list from %s to %s", i, u, mustJSON(s.StaleRefs.Refs), mustJSON(refsBefore), mustJSON(refsAfter))})
				}
				if so.Result == "ok" {
					mons = append(mons, Mon{Sig: "C16:success-on-stale-read", Why: fmt.Sprintf("step %d: revision %d was read out of a lagging cache (status.objectRefs %s, stored %s) and the reconcile reported success without the API server having accepted a status update", i, u, mustJSON(s.StaleRefs.Refs), mustJSON(refsBefore))})
				}
			}
			switch {
			case s.Control:
				delete(released, u)
			case !c16Deactivating(s):
				// neither activated nor deactivated (desired state "" / garbage): nothing is released
				// beyond what Establish(control=false) touches; the bookkeeping stays as it is
			case so.Result == "ok":
				keys := map[string]bool{}
				hidden := map[int]bool{}
				for _, x := range s.Stale {
					hidden[x.I] = true
				}
				for k, d := range s.Objs {
					// (an object the cache hid from the Establish call of this reconcile is released by
					// the next one, through the list this one recorded - theorem hypothesis `Listed`)
					if !hidden[k] || len(listed) > 0 {
						keys[d.Key] = true
					}
				}
				for _, rb := range refsBefore {
					if rb.Kinded {
						keys[rb.Key] = true
					}
				}
				released[u] = keys
			}
		}
		for _, a := range applied {
			// a third party that writes a controller reference naming a released revision: not the revision's doing
			if a.Act == "put" {
				for _, r := range a.Owners {
					if r.Ctrl == "true" && released[r.UID] != nil {
						delete(released[r.UID], a.Key)
					}
				}
			}
		}
		// state-based, at the end of every step: a revision that was released successfully controls nothing
		for _, rv := range scn.Revs {
			u, keys := rv.UID, released[rv.UID]
			for _, o := range so.Store {
				if !keys[o.Key] {
					continue
				}
				if r := c16HasUID(&o, u); r != nil && r.Ctrl == "true" {
					if sig := fmt.Sprintf("%d/%s", u, o.Key); !reported[sig] {
						reported[sig] = true
						mons = append(mons, Mon{Sig: "C16:inactive-still-controls", Why: fmt.Sprintf("after step %d: revision %d is inactive and its last reconcile (ReleaseObjects) succeeded, but it is still the controller of %s; its status.objectRefs: %s", i, u, o.Key, mustJSON(c16StatusRefs(st, u)))})
					}
				}
			}
		}
		if pkg, ok := c16PkgRef(s.Parent); ok && pkg.UID != s.Parent.UID && !releasing {
			for _, a := range so.Store {
				b := c16Find(before, a.Key)
				if b == nil || !c16Same(*b, a) {
					established[a.Key] = true
				}
			}
		}
	}
	// Kubernetes GC at the end of the history: even if every revision is deleted,
	// no object a revision ever established may lose all of its owners.
	if len(obs.Steps) > 0 {
		final := obs.Steps[len(obs.Steps)-1].Store
		for k := range established {
			a := c16Find(final, k)
			if a == nil {
				mons = append(mons, Mon{Sig: "C16:object-deleted", Why: k + " disappeared"})
				continue
			}
			live := false
			for _, r := range a.Owners {
				if r.UID < 10 || r.UID >= 90 { // packages and foreign owners outlive the revisions
					live = true
				}
			}
			if !live {
				mons = append(mons, Mon{Sig: "C16:collectable-after-upgrade", Why: k + " is owned by revisions only: deleting them lets Kubernetes GC collect it"})
			}
		}
	}
	return obs, mons
}

// ---------------------------------------------------------------- direct monitors

func c16Find(objs []c16Obj, key string) *c16Obj {
	for i := range objs {
		if objs[i].Key == key {
			return &objs[i]
		}
	}
	return nil
}

func c16PkgRef(p c16Parent) (c16PRef, bool) {
	for _, r := range p.Owners {
		if r.Name == p.Label {
			return r, true
		}
	}
	return c16PRef{}, false
}

func c16Same(a, b c16Obj) bool { return mustJSON(a) == mustJSON(b) }

func c16HasUID(o *c16Obj, uid int) *c16Ref {
	for i := range o.Owners {
		if o.Owners[i].UID == uid {
			return &o.Owners[i]
		}
	}
	return nil
}

func c16InInts(xs []int, x int) bool {
	for _, y := range xs {
		if x == y {
			return true
		}
	}
	return false
}

func c16InStrs(xs []string, x string) bool {
	for _, y := range xs {
		if x == y {
			return true
		}
	}
	return false
}

// c16IsForeignCtrl: r is a controller reference of somebody who is neither the parent nor its package.
func c16IsForeignCtrl(r c16Ref, s *c16Step) bool {
	pkg, hasPkg := c16PkgRef(s.Parent)
	return r.Ctrl == "true" && r.UID != s.Parent.UID && !(hasPkg && r.UID == pkg.UID)
}

// c16WriteMonitor evaluates the role laws on every single non-dry-run write of the revision, as
// the API server saw it: the stored object right before the call (whatever the third party did
// until then) against the stored object right after it. Independent of the model and of any
// bookkeeping about the third party.
func c16WriteMonitor(s *c16Step, listed []c16XRef, writes []c16Write, add func(sig, why string)) {
	allowed := map[string]bool{}
	for _, d := range s.Objs {
		allowed["est "+d.Key] = true
	}
	for _, x := range s.Refs {
		allowed["rel "+x.Key] = true
	}
	for _, x := range listed {
		allowed["rel "+x.Key] = true
	}
	pkg, hasPkg := c16PkgRef(s.Parent)
	me := s.Parent.UID
	for _, w := range writes {
		// Establish writes objects of the package only, ReleaseObjects objects named by status.objectRefs only
		if !allowed[w.Mode+" "+w.Key] {
			add("C16:wrote-outside-package", fmt.Sprintf("%s %s (%s phase) is neither an object of the revision's package nor named by its status.objectRefs", w.Verb, w.Key, w.Mode))
		}
		if w.Post == nil {
			if w.Pre != nil {
				add("C16:object-deleted", fmt.Sprintf("the %s of %s by the revision removed it", w.Verb, w.Key))
			}
			continue
		}
		if w.Pre != nil && c16Same(*w.Pre, *w.Post) {
			continue // refused, or a no-op
		}
		what := fmt.Sprintf("%s %s (%s phase): before %s, after %s", w.Verb, w.Key, w.Mode, mustJSON(w.Pre), mustJSON(w.Post))
		active := s.Control && w.Mode == "est"
		if w.Pre == nil {
			if !active {
				add("C16:inactive-created", "a revision that is not active created "+what)
			}
		} else {
			for _, r := range w.Pre.Owners {
				if c16HasUID(w.Post, r.UID) == nil {
					add("C16:owner-entry-dropped", fmt.Sprintf("the write dropped the owner entry of uid %d: %s", r.UID, what))
				}
				if q := c16HasUID(w.Post, r.UID); q != nil && r.UID != me && !(hasPkg && r.UID == pkg.UID) && (q.Ctrl != r.Ctrl || q.Block != r.Block) {
					if first := c16HasUID(w.Pre, r.UID); first != nil && *first == r {
						add("C16:foreign-owner-entry-changed", fmt.Sprintf("the write changed the owner entry of uid %d, which is neither the revision nor its package: %s", r.UID, what))
					}
				}
				if active && c16IsForeignCtrl(r, s) {
					add("C16:wrote-over-foreign-controller", fmt.Sprintf("the object was controlled by uid %d when the active revision's write reached the API server, and the write went through: %s", r.UID, what))
				}
			}
			if !active && w.Pre.Body != w.Post.Body {
				sig := "C16:inactive-modified-content"
				if w.Mode == "rel" {
					sig = "C16:release-modified-content"
				}
				add(sig, what)
			}
		}
		for _, r := range w.Post.Owners {
			if r.Ctrl != "true" {
				continue
			}
			was := false
			if w.Pre != nil {
				for _, q := range w.Pre.Owners {
					if q.UID == r.UID && q.Ctrl == "true" {
						was = true
					}
				}
			}
			switch {
			case was && !(w.Mode == "rel" && r.UID == me):
			case r.UID == me && active:
			case r.UID == me && w.Mode == "rel":
				if f := c16HasUID(w.Post, me); f != nil && f.Ctrl == "true" {
					add("C16:release-kept-control", "ReleaseObjects wrote the object and the revision is still its controller: "+what)
				}
			case r.UID == me:
				add("C16:inactive-controls", "an inactive revision made itself controller: "+what)
			default:
				add("C16:controller-added", fmt.Sprintf("the write made uid %d a controller: %s", r.UID, what))
			}
		}
		mine := c16HasUID(w.Post, me)
		if mine == nil {
			add("C16:written-without-owner-entry", "the revision wrote the object without being one of its owners: "+what)
		} else if active && mine.Ctrl != "true" {
			add("C16:active-not-controller", "an active revision wrote the object without becoming its controller: "+what)
		}
		if w.Mode == "est" && hasPkg && pkg.UID != me {
			if pr := c16HasUID(w.Post, pkg.UID); pr == nil || pr.Ctrl == "true" {
				add("C16:package-owner-missing", "written without the package as non-controlling owner: "+what)
			}
		}
	}
}

// c16Monitor evaluates the property itself on the real run of one step. `applied`
// are the third-party writes that happened during the step, in order: what the
// REVISION did is the difference between `after` and the pre-state with those
// writes applied (the revision's update carries the resourceVersion it read, so it can
// only rewrite a third-party put it has read - and then the role laws apply to that rewrite
// relative to what the third party put; a third-party write it has not read is final unless
// the revision creates the object anew after a deletion).
func c16Monitor(s *c16Step, before0 []c16Obj, refsBefore []c16XRef, so c16StepObs, tr c16Trace) []Mon {
	calls, applied := tr.calls, tr.applied
	var mons []Mon
	add := func(sig, why string) { mons = append(mons, Mon{Sig: sig, Why: why}) }
	if strings.HasPrefix(so.Result, "panic") {
		add("C16:panic", so.Result)
		return mons
	}
	before := c16ApplyActs(before0, applied)
	touched := map[string]bool{}
	for _, a := range applied {
		touched[a.Key] = true
	}
	tpNote := ""
	if len(applied) > 0 {
		tpNote = " (third-party writes during the step: " + mustJSON(applied) + ")"
	}
	if len(s.Stale) > 0 {
		tpNote += " (stale cached reads: " + mustJSON(s.Stale) + ")"
	}
	after := so.Store
	pkg, hasPkg := c16PkgRef(s.Parent)
	changed := func(o c16Obj) bool {
		b := c16Find(before, o.Key)
		return b == nil || !c16Same(*b, o)
	}
	// every single write, as the API server saw it
	c16WriteMonitor(s, refsBefore, tr.writes, func(sig, why string) { add(sig, why+tpNote) })
	// nothing is ever deleted and no owner entry is ever dropped
	for _, b := range before {
		a := c16Find(after, b.Key)
		if a == nil {
			add("C16:object-deleted", b.Key+" disappeared")
			continue
		}
		for _, r := range b.Owners {
			if c16HasUID(a, r.UID) == nil {
				add("C16:owner-entry-dropped", fmt.Sprintf("%s lost its owner entry for uid %d (op %s)%s", b.Key, r.UID, s.Op, tpNote))
			}
		}
	}
	// which of ReleaseObjects / Establish is expected to touch package objects?
	releasing := s.Op == "release" || (c16Deactivating(s) && len(refsBefore) > 0)
	if !s.Control && s.Op != "release" {
		// an inactive revision never issues a (non-dry-run) create, whoever interferes
		for _, c := range calls {
			if c.Verb == "create" && !c.Dry && c.Mode != "" {
				add("C16:inactive-created", "an inactive revision issued a create of "+c.Key+tpNote)
			}
		}
	}
	if s.Op == "release" || releasing {
		// ReleaseObjects issues updates only
		for _, c := range calls {
			if c.Verb == "create" && c.Mode == "rel" {
				add("C16:inactive-created", "ReleaseObjects issued a create of "+c.Key+tpNote)
			}
		}
	}
	if s.Op == "reconcile" && !s.Control {
		// an inactive revision, whatever path the reconciler takes
		for _, a := range after {
			b := c16Find(before, a.Key)
			if b == nil {
				add("C16:inactive-created", a.Key+" was created while reconciling an inactive revision"+tpNote)
				continue
			}
			if me := c16HasUID(&a, s.Parent.UID); me != nil && me.Ctrl == "true" {
				if mb := c16HasUID(b, s.Parent.UID); mb == nil || mb.Ctrl != "true" {
					add("C16:inactive-controls", a.Key+": an inactive revision became its controller"+tpNote)
				}
			}
			if b.Body != a.Body {
				add("C16:inactive-modified-content", a.Key+" content changed while reconciling an inactive revision")
			}
		}
	}
	if releasing {
		var keys []string
		if s.Op == "release" {
			for _, r := range s.Refs {
				if r.Kinded {
					keys = append(keys, r.Key)
				}
			}
		} else {
			for _, r := range refsBefore {
				if r.Kinded {
					keys = append(keys, r.Key)
				}
			}
		}
		for _, a := range after {
			if !changed(a) {
				continue
			}
			if r := c16HasUID(&a, s.Parent.UID); r == nil || r.Ctrl == "true" {
				add("C16:release-kept-control", a.Key+" written by ReleaseObjects but the revision is still controller or not an owner"+tpNote)
			}
			if b := c16Find(before, a.Key); b != nil && b.Body != a.Body {
				add("C16:release-modified-content", a.Key)
			}
		}
		if so.Result == "ok" {
			for _, k := range keys {
				if touched[k] {
					continue // the third party's object now
				}
				a := c16Find(after, k)
				if a == nil {
					continue
				}
				if r := c16HasUID(a, s.Parent.UID); r == nil || r.Ctrl == "true" {
					add("C16:release-kept-control", k+" after a successful release: revision is still controller or not an owner")
				}
			}
		}
		return mons
	}
	// establish ---------------------------------------------------------
	// (1) all-or-nothing. Whether an object is blocked is decided from what the Get of ITS
	// goroutine returned (the stored object at that instant, or what the cache served): a foreign
	// controller is refused locally on that very object, and the API server's rejection does
	// not depend on the store - so whatever the third party does before or afterwards, the
	// validate phase must fail and the revision must not write.
	blocked := ""
	for i, d := range s.Objs {
		if s.Control && d.Conv && s.Parent.TLS != "present" {
			blocked = d.Key + " needs a CA bundle the parent does not have"
		}
		v, ok := tr.views[i]
		if !ok {
			continue
		}
		cur := v.Obj
		if s.Control && cur != nil {
			for _, r := range cur.Owners {
				if r.Ctrl == "true" && r.UID != s.Parent.UID && !(hasPkg && r.UID == pkg.UID) {
					blocked = fmt.Sprintf("%s is controlled by uid %d", d.Key, r.UID)
				}
			}
		}
		submits := cur != nil || s.Control
		if submits && c16InStrs(s.RejKeys, d.Key) {
			blocked = d.Key + " is rejected by the API server (key)"
		}
		body := d.Body
		if !s.Control && cur != nil {
			body = cur.Body
		}
		if submits && c16InInts(s.RejBodies, body) {
			blocked = fmt.Sprintf("%s is rejected by the API server (body %d)", d.Key, body)
		}
	}
	if s.Op == "establish" && s.Control && (s.Parent.TLS == "missing" || s.Parent.TLS == "empty") {
		blocked = "the webhook TLS secret is " + s.Parent.TLS
	}
	if blocked != "" {
		if so.Result == "ok" {
			add("C16:established-despite-blocked", blocked+" but Establish reported success"+tpNote)
		}
		if len(so.Log) > 0 || mustJSON(before) != mustJSON(after) {
			add("C16:partial-establish", blocked+" but objects were created or modified: "+mustJSON(so.Log)+tpNote)
		}
	}
	// ... and quite generally: once the API server has refused any call of the validate phase
	// (whatever the error class, whoever caused it), this Establish issues no real write
	if tr.refused != "" && len(tr.realWrites) > 0 {
		add("C16:real-write-after-refused-dry-run", tr.refused+", yet the same Establish went on to "+strings.Join(tr.realWrites, ", ")+tpNote)
	}
	// (2) sequentially, no dry-run call follows a real write
	realSeen := false
	for _, c := range calls {
		if c.Mode != "est" {
			continue
		}
		if c.Phase == "real" {
			realSeen = true
		}
		if c.Phase == "dry" && realSeen && s.Conc == 1 {
			add("C16:dry-run-after-real", "a dry-run call was issued after a real write")
		}
	}
	// every real write was rehearsed: same verb and key seen as a dry run before
	dry := map[string]int{}
	for _, c := range calls {
		if c.Mode != "est" {
			continue
		}
		if c.Phase == "dry" {
			dry[c.Verb+" "+c.Key]++
		}
		if c.Phase == "real" {
			if dry[c.Verb+" "+c.Key] == 0 {
				add("C16:real-write-without-dry-run", c.Verb+" "+c.Key+" was not validated by a dry run first"+tpNote)
			}
		}
	}
	// (3) role laws on every object the step wrote
	for _, a := range after {
		b := c16Find(before, a.Key)
		if b == nil {
			if !s.Control {
				add("C16:inactive-created", a.Key+" was created by an inactive revision"+tpNote)
			}
		}
		if !changed(a) {
			continue
		}
		me := c16HasUID(&a, s.Parent.UID)
		if s.Control {
			if me == nil || me.Ctrl != "true" {
				add("C16:active-not-controller", a.Key+" written by an active revision which is not its controller")
			}
		} else {
			if me == nil {
				add("C16:inactive-not-owner", a.Key+" written by an inactive revision which is not an owner")
			} else if me.Ctrl == "true" {
				add("C16:inactive-controls", a.Key+" written by an inactive revision which is its controller"+tpNote)
			}
			if b != nil && b.Body != a.Body {
				add("C16:inactive-modified-content", a.Key+" content changed by an inactive revision")
			}
		}
		if hasPkg && pkg.UID != s.Parent.UID {
			if pr := c16HasUID(&a, pkg.UID); pr == nil || pr.Ctrl == "true" {
				add("C16:package-owner-missing", a.Key+" was written without the package as non-controlling owner")
			}
		}
		n := 0
		for _, r := range a.Owners {
			if r.Ctrl == "true" {
				n++
			}
		}
		if n > 1 {
			add("C16:two-controllers", a.Key)
		}
	}
	// (4) a successful establish covers every object of the package
	if so.Result == "ok" {
		staleIdx := map[int]bool{}
		for _, x := range s.Stale {
			staleIdx[x.I] = true
		}
		for i, d := range s.Objs {
			if touched[d.Key] {
				continue // success does not cover an object a third party deleted or replaced meanwhile
			}
			if staleIdx[i] {
				continue // ... nor an object the cache hid from the revision (a miss: "nothing to do")
			}
			a := c16Find(after, d.Key)
			if s.Control {
				if a == nil {
					add("C16:active-not-controller", d.Key+" missing after a successful establish"+tpNote)
				} else if me := c16HasUID(a, s.Parent.UID); me == nil || me.Ctrl != "true" {
					add("C16:active-not-controller", d.Key+" not controlled after a successful establish"+tpNote)
				}
			} else if a != nil {
				if me := c16HasUID(a, s.Parent.UID); me == nil || me.Ctrl == "true" {
					add("C16:inactive-not-owner", d.Key+" not plainly owned after a successful inactive establish"+tpNote)
				}
			}
		}
	}
	return mons
}

// ---------------------------------------------------------------- generator

var (
	// same name under three kinds (a), a name that is a string prefix of another (a / ab)
	c16Keys = []string{"Composition/a", "Composition/b", "Composition/c", "XRD/a", "XRD/d", "Composition/e", "CRD/x", "CRD/y", "Composition/ab", "CRD/a"}
	// reconcile histories: distinct names (status.objectRefs are sorted by an id that ignores a cleared kind)
	c16HKeys = []string{"Composition/b", "Composition/c", "XRD/a", "XRD/d", "Composition/e"}
)

func c16NewStep(op string, p c16Parent) c16Step {
	return c16Step{Op: op, Parent: p, Objs: []c16Des{}, Refs: []c16XRef{}, Faults: []c16Fault{}, RejBodies: []int{}, RejKeys: []string{}, Conc: 1, TP: []c16Act{}, VOrder: []int{}, EOrder: []int{}, Ran: []bool{}}
}

func c16GenParent(r *Rng, uid int) c16Parent {
	pkgUID := uid / 10
	_, _, pkgName := c16OwnerIdent(pkgUID)
	p := c16Parent{UID: uid, Label: pkgName, Owners: []c16PRef{}}
	switch r.Intn(12) {
	case 0: // no owner reference to the package at all
	case 1: // label does not match
		p.Owners = append(p.Owners, c16PRef{Name: pkgName, UID: pkgUID, Ctrl: "true", Block: "true"})
		p.Label = ""
	case 3: // two owner references carry the package's name: the first one counts
		p.Owners = append(p.Owners, c16PRef{Name: pkgName, UID: pkgUID, Ctrl: "true", Block: "true"}, c16PRef{Name: pkgName, UID: 95, Ctrl: "nil", Block: "nil"})
	case 4: // an owner whose name merely STARTS with the package's name comes first
		p.Owners = append(p.Owners, c16PRef{Name: pkgName + "-old", UID: 95, Ctrl: "nil", Block: "nil"}, c16PRef{Name: pkgName, UID: pkgUID, Ctrl: "true", Block: "true"})
	case 5: // ... or the package's name starts with that owner's name
		p.Owners = append(p.Owners, c16PRef{Name: pkgName[:len(pkgName)-1], UID: 95, Ctrl: "nil", Block: "nil"}, c16PRef{Name: pkgName, UID: pkgUID, Ctrl: "true", Block: "true"})
	case 2: // an unrelated owner first
		p.Owners = append(p.Owners, c16PRef{Name: "someone", UID: 95, Ctrl: "nil", Block: "nil"}, c16PRef{Name: pkgName, UID: pkgUID, Ctrl: "true", Block: "true"})
	default:
		p.Owners = append(p.Owners, c16PRef{Name: pkgName, UID: pkgUID, Ctrl: "true", Block: "true"})
	}
	return p
}

// c16GenOwners draws a pre-existing owner state for an object, relative to the
// revision `me` (uid) of package me/10.
func c16GenOwners(r *Rng, me int) ([]c16Ref, string) {
	pkg := me / 10
	prev := pkg*10 + (me%10+1)%3
	otherPkg := pkg%3 + 1
	otherRev := otherPkg*10 + r.Intn(2)
	out := []c16Ref{}
	cls := ""
	switch r.Intn(9) {
	case 0:
		cls = "uncontrolled"
	case 1:
		cls = "uncontrolled+pkg"
		out = append(out, c16Ref{UID: pkg, Ctrl: "false", Block: "true"})
	case 2:
		cls = "prevrev"
		out = append(out, c16Ref{UID: prev, Ctrl: "true", Block: "true"}, c16Ref{UID: pkg, Ctrl: "false", Block: "true"})
	case 3:
		cls = "prevrev-released"
		out = append(out, c16Ref{UID: prev, Ctrl: "false", Block: "true"}, c16Ref{UID: pkg, Ctrl: "false", Block: "true"})
	case 4:
		cls = "otherpkg"
		out = append(out, c16Ref{UID: otherRev, Ctrl: "true", Block: "true"}, c16Ref{UID: otherPkg, Ctrl: "false", Block: "true"})
	case 5:
		cls = "self"
		out = append(out, c16Ref{UID: me, Ctrl: "true", Block: "true"}, c16Ref{UID: pkg, Ctrl: "false", Block: "true"})
	case 6:
		cls = "self-plain"
		out = append(out, c16Ref{UID: pkg, Ctrl: "false", Block: "true"}, c16Ref{UID: me, Ctrl: Pick(r, []string{"nil", "false"}), Block: Pick(r, []string{"nil", "true"})})
	case 7:
		cls = "foreign"
		out = append(out, c16Ref{UID: 90, Ctrl: "true", Block: Pick(r, []string{"nil", "true"})})
	case 8:
		cls = "pkg-controls"
		out = append(out, c16Ref{UID: pkg, Ctrl: "true", Block: "true"})
	}
	if r.Chance(1, 6) {
		out = append(out, c16Ref{UID: 91, Ctrl: "nil", Block: "nil"})
	}
	if r.Chance(1, 8) {
		// an owner entry with the revision's own kind and NAME but another UID (an earlier
		// incarnation of the revision, deleted and re-created): a different object
		_, _, myName := c16OwnerIdent(me)
		ctrl := Pick(r, []string{"nil", "false", "false", "true"})
		for _, x := range out {
			if x.Ctrl == "true" {
				ctrl = "false"
			}
		}
		ns := c16Ref{UID: 80 + me%10, Ctrl: ctrl, Block: "true", Name: myName}
		if r.Bool() {
			out = append([]c16Ref{ns}, out...)
		} else {
			out = append(out, ns)
		}
		if ctrl == "true" {
			cls = "foreign"
		}
	}
	return out, cls
}

func c16GenFaults(r *Rng, n int, phases []string, crash bool) []c16Fault {
	fs := []c16Fault{}
	if n == 0 {
		return fs
	}
	outs := []string{"fail", "fail", "conflict"}
	if crash {
		outs = append(outs, "crashBefore", "crashAfter")
	}
	for k, m := 0, r.Range(1, 2); k < m; k++ {
		f := c16Fault{I: r.Intn(n), Phase: Pick(r, phases), Out: Pick(r, outs)}
		if f.Out == "fail" && r.Chance(2, 3) {
			f.Class = c16GenClass(r, f.Phase)
		}
		fs = append(fs, f)
	}
	return fs
}

// c16GenClass draws the API error class a failing call is answered with. A NotFound answer to
// a Get is not an error class of the call but a statement about the object (the cache-miss
// dimension, c16Stale.Miss).
func c16GenClass(r *Rng, phase string) string {
	cs := []string{"alreadyExists", "invalid", "forbidden", "timeout", "tooMany", "unavailable", "deadline", "notFound"}
	if phase == "get" || phase == "tls" {
		cs = cs[:len(cs)-1]
	}
	return Pick(r, cs)
}

// c16GenActs draws 1-2 third-party writes placed at one of `places`, against the key of a drawn
// index (3/4) or of another index (1/4); keys[i] is the key of object / reference i.
func c16GenActs(r *Rng, keys []string, me int, places []string) []c16Act {
	acts := []c16Act{}
	if len(keys) == 0 {
		return acts
	}
	for k, m := 0, r.Range(1, 2); k < m; k++ {
		i := r.Intn(len(keys))
		key := keys[i]
		if r.Chance(1, 4) {
			key = keys[r.Intn(len(keys))]
		}
		a := c16Act{I: i, At: Pick(r, places), Act: "del", Key: key, Owners: []c16Ref{}}
		if r.Bool() {
			a.Act = "put"
			a.Body = r.Range(1, 4)
			a.Owners, _ = c16GenOwners(r, me)
		}
		acts = append(acts, a)
	}
	return acts
}

// c16GenStale draws cache staleness for 1-2 validate-phase Gets: a miss, or an older version
// with drawn owner references and content.
func c16GenStale(r *Rng, n int, me int) []c16Stale {
	out := []c16Stale{}
	seen := map[int]bool{}
	for k, m := 0, r.Range(1, 2); k < m && n > 0; k++ {
		i := r.Intn(n)
		if seen[i] {
			continue
		}
		seen[i] = true
		x := c16Stale{I: i, Owners: []c16Ref{}}
		if r.Chance(1, 3) {
			x.Miss = true
		} else {
			ow, _ := c16GenOwners(r, me)
			for _, o := range ow {
				x.Owners = append(x.Owners, c16Ref{UID: o.UID, Ctrl: o.Ctrl, Block: o.Block})
			}
			x.Body = r.Range(1, 4)
		}
		out = append(out, x)
	}
	return out
}

// c16GenTP draws third-party writes for the establish phase of a step: mostly
// against package objects that exist (validated, then gone / re-created / re-owned
// right before their real write), sometimes against another object of the package
// while object i is being written (interference between the individual writes).
func c16GenTP(r *Rng, s *c16Step, store []c16Obj, me int) []c16Act {
	n := len(s.Objs)
	acts := []c16Act{}
	if n == 0 {
		return acts
	}
	for k, m := 0, r.Range(1, 2); k < m; k++ {
		i := r.Intn(n)
		for try := 0; try < 3 && store != nil && c16Find(store, s.Objs[i].Key) == nil; try++ {
			i = r.Intn(n) // prefer an object that exists: its goroutine issues an update
		}
		key := s.Objs[i].Key
		if r.Chance(1, 4) {
			key = s.Objs[r.Intn(n)].Key
		}
		a := c16Act{I: i, Act: "del", Key: key, Owners: []c16Ref{}}
		if r.Chance(1, 6) {
			a.I = -1 // between the validate phase and the establish phase, whichever object is written first
		}
		if r.Chance(2, 5) {
			a.Act = "put"
			a.Body = r.Range(1, 4)
			a.Owners, _ = c16GenOwners(r, me)
		}
		acts = append(acts, a)
	}
	return acts
}

func c16Str(s string) *string { return &s }

func c16StateNames(m map[string]bool) string {
	var ks []string
	for k := range m {
		ks = append(ks, k)
	}
	sort.Strings(ks)
	return strings.Join(ks, "+")
}

func c16GenEstablish(r *Rng, store *[]c16Obj, provider bool) (c16Step, string) {
	me := Pick(r, []int{10, 11, 12, 20, 21})
	tls := "noRuntime"
	if r.Chance(1, 4) || (provider && r.Chance(2, 3)) {
		// a ProviderRevision parent (package 3): the webhook TLS server secret matters
		me = Pick(r, []int{30, 31, 32})
		tls = Pick(r, []string{"present", "present", "noName", "missing", "empty"})
	}
	s := c16NewStep("establish", c16GenParent(r, me))
	s.Parent.TLS = tls
	s.Control = r.Chance(3, 5)
	s.Conc = Pick(r, []int{1, 1, 2, 4})
	n := r.Range(1, 5)
	if r.Chance(1, 40) {
		n = 0
	}
	perm := r.Perm(len(c16Keys))
	for i := 0; i < n; i++ {
		d := c16Des{Key: c16Keys[perm[i]], Body: r.Range(1, 4)}
		if strings.HasPrefix(d.Key, "CRD/") && r.Chance(1, 3) {
			d.Conv = true
		}
		s.Objs = append(s.Objs, d)
	}
	dup := false
	if n > 0 && s.Conc == 1 && r.Chance(1, 12) {
		// a poorly formed package: the same object twice
		d := s.Objs[r.Intn(n)]
		if r.Bool() {
			d.Body = r.Range(1, 4)
		}
		s.Objs = append(s.Objs, d)
		dup = true
	}
	states := map[string]bool{}
	for _, d := range s.Objs {
		if c16Find(*store, d.Key) != nil {
			continue
		}
		if r.Chance(2, 5) || d.Conv {
			states["absent"] = true
			continue
		}
		ow, c := c16GenOwners(r, me)
		states[c] = true
		body := d.Body
		if r.Bool() {
			body = r.Range(1, 4)
		}
		*store = append(*store, c16Obj{Key: d.Key, Body: body, Owners: ow})
	}
	fk := "none"
	switch r.Intn(8) {
	case 0:
		s.RejBodies = append(s.RejBodies, r.Range(1, 4))
		fk = "rejBody"
	case 1:
		if len(s.Objs) > 0 {
			s.RejKeys = append(s.RejKeys, s.Objs[r.Intn(len(s.Objs))].Key)
			fk = "rejKey"
		}
	case 2, 3:
		// transient faults: keyed by (object, phase); crashes only sequentially
		s.Faults = c16GenFaults(r, len(s.Objs), []string{"get", "dry", "real", "real"}, s.Conc == 1)
		if len(s.Faults) > 0 {
			fk = "fault-" + s.Faults[0].Phase + "-" + s.Faults[0].Out
		}
	case 4:
		if tls != "noRuntime" && tls != "noName" && s.Conc == 1 {
			s.Faults = append(s.Faults, c16Fault{I: 0, Phase: "tls", Out: Pick(r, []string{"fail", "conflict", "crashBefore", "crashAfter"})})
			fk = "fault-tls"
		}
	}
	// third-party interference with the establish phase; more often for an inactive
	// revision whose objects exist (it must neither create nor take control, whatever happens)
	exists := false
	for _, d := range s.Objs {
		if c16Find(*store, d.Key) != nil {
			exists = true
		}
	}
	tp := ""
	if (!s.Control && exists && r.Chance(1, 2)) || r.Chance(1, 4) {
		s.TP = c16GenTP(r, &s, *store, me)
		if len(s.TP) > 0 {
			tp = "+tp"
		}
	}
	if !dup && len(s.Objs) > 0 {
		keys := []string{}
		for _, d := range s.Objs {
			keys = append(keys, d.Key)
		}
		// the third party writes DURING the validate phase (goroutines run one after the other)
		if r.Chance(1, 5) {
			s.Conc = 1
			s.TP = append(s.TP, c16GenActs(r, keys, me, []string{"vget", "vget", "vdry"})...)
			tp += "+vtp"
		}
		// the informer cache behind the validate-phase Gets lags or misses
		if r.Chance(1, 8) {
			s.Stale = c16GenStale(r, len(s.Objs), me)
			tp += "+stale"
		}
	}
	if tls == "missing" || tls == "empty" {
		fk = "tls-" + tls
	}
	for _, d := range s.Objs {
		if d.Conv && s.Control && tls != "present" {
			fk = "crd-needs-ca"
		}
	}
	if len(s.Objs) == 0 {
		return s, "trivial/empty"
	}
	role := "inactive"
	if s.Control {
		role = "active"
	}
	f := "clean"
	if fk != "none" {
		f = "faulty"
	}
	if dup {
		return s, fmt.Sprintf("est/%s/duplicate-object%s", role, tp)
	}
	return s, fmt.Sprintf("est/%s/pre=%s/%s%s", role, c16Focus(states), f, tp)
}

// c16Focus names the scenario after the most telling pre-existing state it contains
// (the four states of the property's quantifier first).
func c16Focus(states map[string]bool) string {
	for _, k := range []string{"otherpkg", "prevrev", "foreign", "prevrev-released", "pkg-controls", "self", "self-plain", "uncontrolled", "uncontrolled+pkg", "absent"} {
		if states[k] {
			switch k {
			case "foreign", "pkg-controls":
				return "other-controller"
			case "self", "self-plain":
				return "self"
			case "uncontrolled+pkg":
				return "uncontrolled"
			}
			return k
		}
	}
	return "preexisting"
}

func c16GenRelease(r *Rng, store *[]c16Obj) (c16Step, string) {
	me := Pick(r, []int{10, 11, 12, 20, 21})
	s := c16NewStep("release", c16GenParent(r, me))
	n := r.Range(1, 5)
	if r.Chance(1, 40) {
		n = 0
	}
	perm := r.Perm(len(c16Keys))
	unk := false
	for i := 0; i < n; i++ {
		k := r.Chance(9, 10)
		unk = unk || !k
		s.Refs = append(s.Refs, c16XRef{Key: c16Keys[perm[i]], Kinded: k})
	}
	states := map[string]bool{}
	for _, x := range s.Refs {
		if c16Find(*store, x.Key) != nil {
			continue
		}
		if r.Chance(1, 5) {
			states["absent"] = true
			continue
		}
		ow, c := c16GenOwners(r, me)
		states[c] = true
		*store = append(*store, c16Obj{Key: x.Key, Body: r.Range(1, 4), Owners: ow})
	}
	fk := "none"
	s.Conc = Pick(r, []int{1, 2, 4})
	if unk {
		s.Conc = 1
		fk = "unkinded"
	}
	switch r.Intn(6) {
	case 0:
		if n > 0 {
			s.RejKeys = append(s.RejKeys, s.Refs[r.Intn(n)].Key)
			fk = "rejKey"
			s.Conc = 1
		}
	case 1, 2:
		s.Faults = c16GenFaults(r, n, []string{"get", "real"}, true)
		if len(s.Faults) > 0 {
			fk = "fault-" + s.Faults[0].Phase + "-" + s.Faults[0].Out
			s.Conc = 1
		}
	}
	if n == 0 {
		return s, "trivial/empty"
	}
	f := "clean"
	if fk != "none" {
		f = "faulty"
	}
	if r.Chance(1, 12) {
		// the same reference twice
		s.Refs = append(s.Refs, s.Refs[r.Intn(n)])
		s.Conc = 1
		f += "+dup"
	}
	if !unk && r.Chance(1, 4) {
		// the third party writes INSIDE ReleaseObjects (goroutines run one after the other)
		keys := []string{}
		for _, x := range s.Refs {
			keys = append(keys, x.Key)
		}
		s.Conc = 1
		s.TP = c16GenActs(r, keys, me, []string{"rget", "rupd", "rupd"})
		f += "+rtp"
	}
	return s, fmt.Sprintf("rel/%s", f)
}

// c16GenHistory: upgrade / rollback sequences of the revisions of a package (and
// a revision of another package competing for an object), reconciled in any
// order by the REAL revision.Reconciler.
func c16GenHistory(r *Rng) (c16Scn, string) {
	scn := c16Scn{Store: []c16Obj{}, Revs: []c16RevState{}, Steps: []c16Step{}}
	revs := []int{10, 11, 12}
	other := r.Chance(1, 3)
	if other {
		revs = append(revs, 20)
	}
	objsOf := map[int][]c16Des{}
	parentOf := map[int]c16Parent{}
	for _, u := range revs {
		n := r.Range(1, 4)
		perm := r.Perm(len(c16HKeys))
		var ds []c16Des
		for i := 0; i < n; i++ {
			ds = append(ds, c16Des{Key: c16HKeys[perm[i]], Body: r.Range(1, 3)})
		}
		objsOf[u] = ds
		pkgUID := u / 10
		_, _, pkgName := c16OwnerIdent(pkgUID)
		p := c16Parent{UID: u, Label: pkgName, Owners: []c16PRef{{Name: pkgName, UID: pkgUID, Ctrl: "true", Block: "true"}}}
		if r.Chance(1, 15) {
			p.Owners = []c16PRef{}
		}
		parentOf[u] = p
		scn.Revs = append(scn.Revs, c16RevState{UID: u, Refs: []c16XRef{}})
	}
	// some pre-existing objects
	if r.Chance(1, 3) {
		k := Pick(r, c16HKeys)
		ow, _ := c16GenOwners(r, 10)
		scn.Store = append(scn.Store, c16Obj{Key: k, Body: r.Range(1, 3), Owners: ow})
	}
	desired := map[int]bool{}
	active := 10
	desired[10] = true
	if other {
		desired[20] = true
	}
	n := r.Range(3, 9)
	faulty, racing, rollback, interf, lag, states := false, false, false, false, false, false
	manual := r.Chance(1, 3) // revisionActivationPolicy: Manual
	activated := map[int]bool{10: true, 20: true}
	for len(scn.Steps) < n {
		switch r.Intn(5) {
		case 0: // upgrade or rollback: the package manager flips the desired states
			next := Pick(r, []int{10, 11, 12})
			if next < active {
				rollback = true
			}
			if r.Chance(1, 8) {
				racing = true // manual activation: two revisions active for a while
			} else {
				desired[active] = false
			}
			desired[next] = true
			active = next
			continue
		}
		u := Pick(r, revs)
		s := c16NewStep("reconcile", parentOf[u])
		s.Control = desired[u]
		if desired[u] {
			activated[u] = true
		}
		// spec.desiredState is a free-form string: a revision that was never activated under the
		// Manual activation policy has NONE; a user may have typed anything
		switch {
		case !desired[u] && manual && !activated[u]:
			s.DS = c16Str("")
			states = true
		case r.Chance(1, 12):
			s.DS = c16Str(Pick(r, []string{"", "active", "ACTIVE", "inactive", "Inactive ", " Active", "Activ", "Paused", "true"}))
			s.Control = false
			states = true
		}
		s.Objs = append(s.Objs, objsOf[u]...)
		s.Conc = Pick(r, []int{1, 1, 2})
		if r.Chance(1, 6) {
			s.Conc = 1
			s.Faults = c16GenFaults(r, 4, []string{"get", "dry", "real", "real"}, true)
			faulty = true
		} else if r.Chance(1, 12) {
			s.Conc = 1
			s.RejKeys = append(s.RejKeys, Pick(r, c16HKeys))
			faulty = true
		}
		if r.Chance(1, 4) {
			// a third party deletes / re-creates / re-owns objects while this revision establishes
			s.TP = c16GenTP(r, &s, nil, u)
			interf = true
		}
		if r.Chance(1, 6) {
			// ... during its validate phase / inside its ReleaseObjects call (index = object of the
			// package / entry of status.objectRefs)
			s.Conc = 1
			s.TP = append(s.TP, c16GenActs(r, c16HKeys[:4], u, []string{"vget", "vdry", "rget", "rupd"})...)
			for k := range s.TP {
				if a := &s.TP[k]; a.At == "vget" || a.At == "vdry" {
					a.I = a.I % len(s.Objs)
				}
			}
			interf = true
		}
		if r.Chance(1, 8) {
			// the cache lags behind the writes of the previous reconciles
			for k, m := 0, r.Range(1, 2); k < m; k++ {
				x := c16Stale{I: r.Intn(len(s.Objs)), Owners: []c16Ref{}, Back: r.Range(1, 2)}
				if r.Chance(1, 4) {
					x.Miss, x.Back = true, 0
				}
				if k == 0 || s.Stale[0].I != x.I {
					s.Stale = append(s.Stale, x)
				}
			}
			lag = true
		}
		if r.Chance(1, 8) {
			s.StaleRefs = &c16StaleRefs{Refs: []c16XRef{}, Back: r.Range(1, 2)}
			lag = true
		}
		scn.Steps = append(scn.Steps, s)
	}
	kind := "upgrade"
	if rollback {
		kind = "rollback"
	}
	if racing {
		kind = "two-active"
	}
	f := "clean"
	if faulty {
		f = "faulty"
	}
	cls := fmt.Sprintf("hist/%s/%s", kind, f)
	if kind != "upgrade" {
		cls = "hist/" + kind
	}
	if interf {
		cls += "+tp"
	}
	if lag {
		cls += "+lag"
	}
	if states {
		cls += "+states"
	}
	_ = other
	return scn, cls
}

// c16GenDeactivate: the upgrade of a HEALTHY revision that has trouble on the way. Revision 10
// is active and healthy (status.objectRefs lists its whole package, kinded: either seeded that
// way or reached by two clean reconciles), then one or two reconciles of it pass validation and
// hit an API error at one REAL write (or, less often, some other fault); then the package manager
// deactivates it and activates revision 11 of the same package (same objects, new content); the
// two are reconciled in either order, the new one once more at the end. status.objectRefs must
// survive the failed reconciles, or ReleaseObjects does not release what it no longer lists.
func c16GenDeactivate(r *Rng) (c16Scn, string) {
	scn := c16Scn{Store: []c16Obj{}, Revs: []c16RevState{}, Steps: []c16Step{}}
	_, _, pkgName := c16OwnerIdent(1)
	par := func(u int) c16Parent {
		return c16Parent{UID: u, Label: pkgName, Owners: []c16PRef{{Name: pkgName, UID: 1, Ctrl: "true", Block: "true"}}}
	}
	n := r.Range(2, 4)
	perm := r.Perm(len(c16HKeys))
	var old, nw []c16Des
	for i := 0; i < n; i++ {
		old = append(old, c16Des{Key: c16HKeys[perm[i]], Body: r.Range(1, 3)})
		nw = append(nw, c16Des{Key: c16HKeys[perm[i]], Body: r.Range(1, 3)})
	}
	if r.Chance(1, 4) {
		nw = append(nw, c16Des{Key: c16HKeys[perm[n]], Body: r.Range(1, 3)}) // the new revision adds an object
	}
	step := func(u int, active bool) c16Step {
		s := c16NewStep("reconcile", par(u))
		s.Control = active
		if u == 10 {
			s.Objs = append(s.Objs, old...)
		} else {
			s.Objs = append(s.Objs, nw...)
		}
		s.Conc = Pick(r, []int{1, 1, 1, 2})
		return s
	}
	rev10 := c16RevState{UID: 10, Refs: []c16XRef{}}
	start := "seeded"
	if r.Bool() {
		for _, d := range old {
			scn.Store = append(scn.Store, c16Obj{Key: d.Key, Body: d.Body, Owners: []c16Ref{{UID: 10, Ctrl: "true", Block: "true"}, {UID: 1, Ctrl: "false", Block: "true"}}})
			rev10.Refs = append(rev10.Refs, c16XRef{Key: d.Key, Kinded: true})
		}
		sort.Slice(scn.Store, func(i, j int) bool { return scn.Store[i].Key < scn.Store[j].Key })
	} else {
		start = "installed"
		// the first reconcile creates (references without a kind), the second one updates (kinded)
		scn.Steps = append(scn.Steps, step(10, true), step(10, true))
	}
	scn.Revs = append(scn.Revs, rev10, c16RevState{UID: 11, Refs: []c16XRef{}})
	trouble := "real-fail"
	for k, m := 0, r.Range(1, 2); k < m; k++ {
		s := step(10, true)
		s.Conc = 1
		switch r.Intn(8) {
		case 0:
			s.Faults = c16GenFaults(r, n, []string{"get", "dry", "real"}, true)
			trouble = "other-fault"
		case 1:
			s.Faults = []c16Fault{{I: r.Intn(n), Phase: "real", Out: Pick(r, []string{"conflict", "crashBefore", "crashAfter"})}}
			trouble = "other-fault"
		default:
			// validation passes, one real write is answered with a plain API error
			s.Faults = []c16Fault{{I: r.Intn(n), Phase: "real", Out: "fail"}}
		}
		scn.Steps = append(scn.Steps, s)
	}
	healed := false
	if r.Chance(1, 5) {
		scn.Steps = append(scn.Steps, step(10, true)) // a clean retry before the upgrade
		healed = true
	}
	manual := ""
	if r.Chance(1, 3) {
		// Manual activation policy: revision 11 exists but was never activated (no desired state)
		// and is reconciled while revision 10 is still the active one
		nv := step(11, false)
		nv.DS = c16Str(Pick(r, []string{"", "", "", "active", "Inactive "}))
		scn.Steps = append(scn.Steps, nv)
		manual = "/manual"
	}
	// the package manager flips the desired states; the reconciles arrive in either order
	if r.Bool() {
		scn.Steps = append(scn.Steps, step(11, true))
	}
	deact := step(10, false)
	world := ""
	if r.Chance(1, 4) {
		// the third party (e.g. the new active revision's replica, an administrator) writes inside
		// the ReleaseObjects call of the deactivation
		deact.Conc = 1
		deact.TP = c16GenActs(r, c16HKeys[:n], 10, []string{"rget", "rupd"})
		world = "/rtp"
	}
	if r.Chance(1, 5) {
		// the reconciler reads the revision out of a lagging cache: an earlier list of its history,
		// or (the model quantifies over every list) a list that names only some of its objects
		deact.StaleRefs = &c16StaleRefs{Refs: []c16XRef{}, Back: r.Range(1, 2)}
		if r.Bool() {
			deact.StaleRefs.Back = 0
			for _, d := range old[:r.Range(1, n-1)] {
				deact.StaleRefs.Refs = append(deact.StaleRefs.Refs, c16XRef{Key: d.Key, Kinded: true})
			}
		}
		world += "/lag"
	}
	scn.Steps = append(scn.Steps, deact)
	if r.Chance(1, 3) || world != "" {
		scn.Steps = append(scn.Steps, step(10, false))
	}
	scn.Steps = append(scn.Steps, step(11, true))
	if r.Chance(1, 3) {
		scn.Steps = append(scn.Steps, step(10, false), step(11, true))
	}
	cls := fmt.Sprintf("hist/deactivate-after-trouble/%s/%s", start, trouble)
	if healed {
		cls += "/healed"
	}
	return scn, cls + world + manual
}

func c16Gen(r *Rng) (c16Scn, string) {
	if r.Chance(1, 3) {
		if r.Chance(1, 4) {
			return c16GenDeactivate(r)
		}
		return c16GenHistory(r)
	}
	// (est) / (rel): ONE establisher serves a sequence of 1-3 calls for different parents and
	// object sets (it is built once per process); nothing may carry over from one call to the next
	scn := c16Scn{Store: []c16Obj{}, Revs: []c16RevState{}, Steps: []c16Step{}}
	n := 1
	switch r.Intn(10) {
	case 0, 1, 2:
		n = 2
	case 3:
		n = 3
	}
	// every 20th: the revisions of a provider package one after the other, the first one active
	// with its webhook TLS secret in place, the others in whatever state theirs is
	provSeq := r.Chance(1, 20)
	if provSeq {
		n = r.Range(2, 3)
	}
	cls := ""
	provider := false
	for k := 0; k < n; k++ {
		var s c16Step
		var c string
		if !provSeq && r.Chance(1, 3) {
			s, c = c16GenRelease(r, &scn.Store)
		} else {
			s, c = c16GenEstablish(r, &scn.Store, provider || provSeq)
			if provSeq && k == 0 && s.Parent.TLS != "noRuntime" {
				s.Control, s.Parent.TLS = true, "present"
				for j := range s.Faults {
					if s.Faults[j].Phase == "tls" {
						s.Faults[j].Phase = "get"
					}
				}
			}
			provider = s.Parent.TLS != "noRuntime"
		}
		scn.Steps = append(scn.Steps, s)
		if k == 0 || strings.HasPrefix(cls, "trivial") {
			cls = c
		}
	}
	if n > 1 && !strings.HasPrefix(cls, "trivial") {
		cls += fmt.Sprintf("+seq%d", n)
	}
	// of enrichControlledResource only the CA-bundle refusal is modelled, not the rewriting of the
	// conversion webhook: a CRD with webhook conversion is established at most once per scenario
	// and does not exist beforehand
	uses := map[string]int{}
	for _, o := range scn.Store {
		uses[o.Key]++
	}
	for _, st := range scn.Steps {
		for _, d := range st.Objs {
			uses[d.Key]++
		}
		for _, a := range st.TP {
			uses[a.Key]++
		}
	}
	for k := range scn.Steps {
		for j := range scn.Steps[k].Objs {
			if d := &scn.Steps[k].Objs[j]; d.Conv && uses[d.Key] > 1 {
				d.Conv = false
			}
		}
	}
	sort.Slice(scn.Store, func(i, j int) bool { return scn.Store[i].Key < scn.Store[j].Key })
	return scn, cls
}

func init() {
	Register("C16", func(c *Ctx) {
		for _, raw := range c.Corpus {
			var ew c16EnrichWrap
			if err := jsonUnmarshalStrict(raw, &ew); err == nil && ew.Enrich.Obj.Kind != "" {
				obs, mons := c16RunEnrich(&ew.Enrich)
				c.Emit(ew, obs, mons, "corpus/enrich")
				continue
			}
			var s c16Scn
			if err := jsonUnmarshalStrict(raw, &s); err == nil && len(s.Steps) > 0 {
				obs, mons := c16Run(&s)
				c.Emit(s, obs, mons, "corpus")
			}
		}
		every := 40
		if c.Tier == "thorough" {
			every = 15
		}
		for i := 0; i < c.N; i++ {
			// content dimension (c16_enrich.go): every 8th scenario is one package object put through
			// addLabels / enrichControlledResource of the real Establish
			if i%8 == 7 {
				es, ecls := c16GenEnrich(c.Rng)
				eobs, emons := c16RunEnrich(&es)
				c.Emit(c16EnrichWrap{Enrich: es}, eobs, emons, ecls)
				continue
			}
			s, cls := c16Gen(c.Rng)
			base := mustJSON(s)
			obs, mons := c16Run(&s)
			c.Emit(s, obs, mons, cls+c16EventSuffix())
			// exhaustive small scope: every single fault (object x phase x outcome) on the
			// last step of this scenario, when that step runs sequentially
			if i%every != 0 {
				continue
			}
			last := s.Steps[len(s.Steps)-1]
			n := len(last.Objs)
			if last.Op == "release" {
				n = len(last.Refs)
			} else if last.Op == "reconcile" && n < 4 {
				n = 4 // the step may release up to four recorded references instead
			}
			for fi := 0; fi < n; fi++ {
				for _, ph := range []string{"get", "dry", "real"} {
					if ph == "dry" && last.Op == "release" {
						continue
					}
					for _, out := range []string{"fail", "conflict", "crashBefore", "crashAfter"} {
						var v c16Scn
						if err := jsonUnmarshalStrict([]byte(base), &v); err != nil {
							continue
						}
						ls := &v.Steps[len(v.Steps)-1]
						ls.Conc = 1
						ls.Faults = []c16Fault{{I: fi, Phase: ph, Out: out}}
						o2, m2 := c16Run(&v)
						c.Emit(v, o2, m2, "exh/"+last.Op+c16EventSuffix())
					}
				}
			}
		}
	})
}

var _ = metav1.Now

//go:build verif

package main

// C16 driver, part 2: instrumented client, running the real APIEstablisher and
// the real revision.Reconciler, direct monitors, generators.

import (
	"bytes"
	"context"
	"encoding/json"
	"fmt"
	"io"
	"sort"
	"strings"
	"sync"

	metav1 "k8s.io/apimachinery/pkg/apis/meta/v1"
	"k8s.io/apimachinery/pkg/apis/meta/v1/unstructured"
	"k8s.io/apimachinery/pkg/runtime"
	"k8s.io/apimachinery/pkg/runtime/schema"
	"k8s.io/apimachinery/pkg/types"
	"sigs.k8s.io/controller-runtime/pkg/client"
	"sigs.k8s.io/controller-runtime/pkg/client/apiutil"
	"sigs.k8s.io/controller-runtime/pkg/manager"
	"sigs.k8s.io/controller-runtime/pkg/reconcile"

	xpv1 "github.com/crossplane/crossplane-runtime/apis/common/v1"
	"github.com/crossplane/crossplane-runtime/pkg/feature"
	"github.com/crossplane/crossplane-runtime/pkg/parser"

	xv1 "github.com/crossplane/crossplane/apis/apiextensions/v1"
	pkgmetav1 "github.com/crossplane/crossplane/apis/pkg/meta/v1"
	pkgv1 "github.com/crossplane/crossplane/apis/pkg/v1"
	"github.com/crossplane/crossplane/internal/controller/pkg/revision"
	"github.com/crossplane/crossplane/internal/xpkg"
)

// ---------------------------------------------------------------- instrumented client

type c16Call struct {
	Verb  string
	Key   string
	Dry   bool
	Body  int
	Idx   int    // object / ref index the call belongs to (-1 unknown)
	Phase string // get | dry | real
	Mode  string // est | rel | "" (not a package object)
}

// c16Client serialises calls into simstore and lets the fault plan see the
// submitted object (body) so that a deterministic "the API server rejects this
// object" predicate can be injected for dry-run and real calls alike. It treats
// TypeMeta exactly as controller-runtime's client does: a cached Get sets it,
// Update/Status().Update preserve it, Create leaves it cleared.
type c16Client struct {
	*Store
	mu      sync.Mutex
	pending int // body of the object being submitted
	calls   []c16Call
	step    *c16Step
	mode    string   // "est" | "rel": which of Establish / ReleaseObjects issues package-object calls
	refKeys []string // release candidates
	seen    map[string]int
	fired   map[int]bool // third-party writes of the step already performed (index into step.TP)
	applied []c16Act     // ... in the order they were performed
}

// thirdParty performs the step's third-party writes scheduled right before the real
// write of object idx. It runs inside simstore's Before-the-call window (the plan
// callback: after the call is counted, before it is evaluated against the store),
// with c.mu held, so it is atomic with respect to the establisher's goroutines.
func (c *c16Client) thirdParty(idx int) {
	for k, a := range c.step.TP {
		if a.I != idx || c.fired[k] {
			continue
		}
		c.fired[k] = true
		t := c16Build(a.Key, a.Body)
		_, name := c16SplitKey(a.Key)
		c.Store.Remove(t.GetObjectKind().GroupVersionKind().GroupKind(), "", name)
		if a.Act == "put" {
			t.SetOwnerReferences(c16MkRefs(a.Owners))
			c.Store.Seed(t)
		}
		c.applied = append(c.applied, a)
	}
}

// c16ApplyActs is the store view `objs` after the third-party writes `acts`.
func c16ApplyActs(objs []c16Obj, acts []c16Act) []c16Obj {
	out := append([]c16Obj{}, objs...)
	for _, a := range acts {
		kept := out[:0:0]
		for _, o := range out {
			if o.Key != a.Key {
				kept = append(kept, o)
			}
		}
		out = kept
		if a.Act == "put" {
			ow := a.Owners
			if ow == nil {
				ow = []c16Ref{}
			}
			out = append(out, c16Obj{Key: a.Key, Body: a.Body, Owners: ow})
		}
	}
	sort.Slice(out, func(i, j int) bool { return out[i].Key < out[j].Key })
	return out
}

func c16IsPkgKey(key string) bool {
	return strings.HasPrefix(key, "Composition/") || strings.HasPrefix(key, "XRD/") || strings.HasPrefix(key, "CRD/")
}

func (c *c16Client) Get(ctx context.Context, key client.ObjectKey, obj client.Object, opts ...client.GetOption) error {
	c.mu.Lock()
	defer c.mu.Unlock()
	c.pending = -1
	err := c.Store.Get(ctx, key, obj, opts...)
	if _, isU := obj.(runtime.Unstructured); err == nil && !isU {
		if gvk, e := apiutil.GVKForObject(obj, c.Store.Scheme()); e == nil {
			obj.GetObjectKind().SetGroupVersionKind(gvk) // CacheReader.Get
		}
	}
	return err
}

func (c *c16Client) Create(ctx context.Context, obj client.Object, opts ...client.CreateOption) error {
	c.mu.Lock()
	defer c.mu.Unlock()
	c.pending = c16BodyOf(obj)
	return c.Store.Create(ctx, obj, opts...)
}

func (c *c16Client) Update(ctx context.Context, obj client.Object, opts ...client.UpdateOption) error {
	c.mu.Lock()
	defer c.mu.Unlock()
	c.pending = c16BodyOf(obj)
	gvk := obj.GetObjectKind().GroupVersionKind()
	err := c.Store.Update(ctx, obj, opts...)
	if !gvk.Empty() {
		obj.GetObjectKind().SetGroupVersionKind(gvk) // client.resetGroupVersionKind
	}
	return err
}

type c16Status struct {
	c *c16Client
	client.SubResourceWriter
}

func (w c16Status) Update(ctx context.Context, obj client.Object, opts ...client.SubResourceUpdateOption) error {
	w.c.mu.Lock()
	defer w.c.mu.Unlock()
	w.c.pending = -1
	gvk := obj.GetObjectKind().GroupVersionKind()
	err := w.SubResourceWriter.Update(ctx, obj, opts...)
	if !gvk.Empty() {
		obj.GetObjectKind().SetGroupVersionKind(gvk)
	}
	return err
}

func (c *c16Client) Status() client.SubResourceWriter {
	return c16Status{c: c, SubResourceWriter: c.Store.Status()}
}

func c16Outcome(s string) Outcome {
	switch s {
	case "fail":
		return Fail
	case "conflict":
		return Conflict
	case "crashBefore":
		return CrashBefore
	case "crashAfter":
		return CrashAfter
	}
	return OK
}

// plan is installed as st.Plan for one step. Called with c.mu held.
func (c *c16Client) plan(ci CallInfo) Outcome {
	s := c.step
	key := c16KeyOf(ci.GK, ci.Name)
	if ci.GK == "Secret" && ci.Verb == "get" {
		// getWebhookTLSCert
		c.calls = append(c.calls, c16Call{Verb: ci.Verb, Key: key, Idx: 0, Phase: "tls"})
		for _, f := range s.Faults {
			if f.Phase == "tls" {
				return c16Outcome(f.Out)
			}
		}
		return OK
	}
	if !c16IsPkgKey(key) || ci.Sub != "" {
		c.calls = append(c.calls, c16Call{Verb: ci.Verb, Key: key, Idx: -1})
		return OK
	}
	phase := "real"
	if ci.Verb == "get" {
		phase = "get"
	} else if ci.DryRun {
		phase = "dry"
	}
	// which object / ref index does this call belong to?
	var cands []int
	if c.mode == "rel" {
		for i, k := range c.refKeys {
			if k == key {
				cands = append(cands, i)
			}
		}
	} else {
		for i, d := range s.Objs {
			if d.Key == key {
				cands = append(cands, i)
			}
		}
	}
	// With duplicates of a key (sequential runs only) the goroutines run in list
	// order: the k-th Get of the key belongs to the k-th duplicate, a dry-run write
	// follows the Get of its own goroutine, and in the establish phase every
	// duplicate issues its real write (they share key, state and role) in order.
	idx := -1
	if len(cands) > 0 {
		if phase == "dry" || (phase == "real" && c.mode == "rel") {
			if v, ok := c.seen[key+"|cur"]; ok {
				idx = v
			} else {
				idx = cands[0]
			}
		} else {
			n := c.seen[key+"|"+phase]
			c.seen[key+"|"+phase] = n + 1
			if n < len(cands) {
				idx = cands[n]
			} else {
				idx = cands[len(cands)-1]
			}
			if phase == "get" {
				c.seen[key+"|cur"] = idx
			}
		}
	}
	c.calls = append(c.calls, c16Call{Verb: ci.Verb, Key: key, Dry: ci.DryRun, Body: c.pending, Idx: idx, Phase: phase, Mode: c.mode})
	if phase == "real" && c.mode == "est" {
		c.thirdParty(-1) // "between the phases": before the first real write
		if idx >= 0 {
			c.thirdParty(idx)
		}
	}
	if ci.IsWrite() {
		for _, b := range s.RejBodies {
			if b == c.pending {
				return Fail
			}
		}
		for _, k := range s.RejKeys {
			if k == key {
				return Fail
			}
		}
	}
	for _, f := range s.Faults {
		if f.I == idx && f.Phase == phase {
			return c16Outcome(f.Out)
		}
	}
	return OK
}

// ---------------------------------------------------------------- the revision objects (reconcile steps)

var c16RevGK = schema.GroupKind{Group: "pkg.crossplane.io", Kind: "ConfigurationRevision"}

func c16RevName(uid int) string {
	_, _, n := c16OwnerIdent(uid)
	return n
}

func c16TypedRefs(refs []c16XRef) []xpv1.TypedReference {
	out := []xpv1.TypedReference{}
	for _, r := range refs {
		kind, name := c16SplitKey(r.Key)
		tr := xpv1.TypedReference{Name: name}
		if r.Kinded {
			gvk := xv1.CompositionGroupVersionKind
			if kind == "XRD" {
				gvk = xv1.CompositeResourceDefinitionGroupVersionKind
			}
			if kind == "CRD" {
				gvk = schema.GroupVersionKind{Group: "apiextensions.k8s.io", Version: "v1", Kind: "CustomResourceDefinition"}
			}
			tr.APIVersion, tr.Kind = gvk.ToAPIVersionAndKind()
		}
		out = append(out, tr)
	}
	return out
}

func c16SeedRevs(st *Store, revs []c16RevState) {
	for _, rv := range revs {
		pr := &pkgv1.ConfigurationRevision{}
		pr.SetGroupVersionKind(pkgv1.ConfigurationRevisionGroupVersionKind)
		pr.SetName(c16RevName(rv.UID))
		pr.SetUID(c16UID(rv.UID))
		pr.SetFinalizers([]string{"revision.pkg.crossplane.io"})
		pr.Spec.DesiredState = pkgv1.PackageRevisionInactive
		pr.Spec.Package = "example.org/pkg:v1"
		pr.Spec.Revision = int64(rv.UID % 10)
		pr.Status.ObjectRefs = c16TypedRefs(rv.Refs)
		st.Seed(pr)
	}
}

// c16StatusRefs reads status.objectRefs of a stored revision in stored order.
// The key of an un-kinded reference is "?/<name>".
func c16StatusRefs(st *Store, uid int) []c16XRef {
	out := []c16XRef{}
	u := st.Peek(c16RevGK, "", c16RevName(uid))
	if u == nil {
		return out
	}
	refs, _, _ := unstructured.NestedSlice(u.Object, "status", "objectRefs")
	for _, r := range refs {
		m, _ := r.(map[string]any)
		kind, _ := m["kind"].(string)
		name, _ := m["name"].(string)
		switch kind {
		case "":
			out = append(out, c16XRef{Key: "?/" + name, Kinded: false})
		case "CompositeResourceDefinition":
			out = append(out, c16XRef{Key: "XRD/" + name, Kinded: true})
		case "CustomResourceDefinition":
			out = append(out, c16XRef{Key: "CRD/" + name, Kinded: true})
		default:
			out = append(out, c16XRef{Key: kind + "/" + name, Kinded: true})
		}
	}
	return out
}

type c16Mgr struct {
	manager.Manager
	c client.Client
}

func (m c16Mgr) GetClient() client.Client { return m.c }

type c16Cache struct{ content []byte }

func (c c16Cache) Has(string) bool                      { return true }
func (c c16Cache) Get(string) (io.ReadCloser, error)    { return io.NopCloser(bytes.NewReader(c.content)), nil }
func (c c16Cache) Store(string, io.ReadCloser) error    { return nil }
func (c c16Cache) Delete(string) error                  { return nil }

type c16Lock struct{}

func (c16Lock) Resolve(context.Context, pkgmetav1.Pkg, pkgv1.PackageRevision) (int, int, int, error) {
	return 0, 0, 0, nil
}
func (c16Lock) RemoveSelf(context.Context, pkgv1.PackageRevision) error { return nil }

type c16Cfg struct{ xpkg.ConfigStore }

func (c16Cfg) PullSecretFor(context.Context, string) (string, string, error) { return "", "", nil }

// c16PackageStream renders the package (one Configuration meta object and the
// objects) as the YAML/JSON stream the real parser reads from the cache.
func c16PackageStream(objs []c16Des) []byte {
	var b bytes.Buffer
	m := &pkgmetav1.Configuration{}
	m.SetGroupVersionKind(pkgmetav1.ConfigurationGroupVersionKind)
	m.SetName("cfg")
	mb, _ := json.Marshal(m)
	b.Write(mb)
	for _, d := range objs {
		b.WriteString("\n---\n")
		ob, _ := json.Marshal(c16BuildConv(d.Key, d.Body, d.Conv))
		b.Write(ob)
	}
	b.WriteString("\n")
	return b.Bytes()
}

var (
	c16MetaScheme, _ = xpkg.BuildMetaScheme()
	c16ObjScheme, _  = xpkg.BuildObjectScheme()
)

// ---------------------------------------------------------------- running one step

func c16Seed(st *Store, objs []c16Obj) {
	for _, o := range objs {
		t := c16Build(o.Key, o.Body)
		t.SetOwnerReferences(c16MkRefs(o.Owners))
		st.Seed(t)
	}
}

// c16FirstOrder lists the indices in order of first appearance in calls of the
// given mode and phase, then the remaining indices ascending.
func c16FirstOrder(calls []c16Call, mode, phase string, n int) []int {
	out := []int{}
	seen := map[int]bool{}
	for _, c := range calls {
		if c.Mode == mode && c.Phase == phase && c.Idx >= 0 && c.Idx < n && !seen[c.Idx] {
			seen[c.Idx] = true
			out = append(out, c.Idx)
		}
	}
	for i := 0; i < n; i++ {
		if !seen[i] {
			out = append(out, i)
		}
	}
	return out
}

func c16RunStep(st *Store, s *c16Step) (c16StepObs, []c16Call, []c16Act) {
	cl := &c16Client{Store: st, step: s, seen: map[string]int{}, fired: map[int]bool{}, pending: -1, mode: "est"}
	st.Revive()
	st.Log = nil
	conc := s.Conc
	if conc < 1 {
		conc = 1
	}
	e := revision.NewAPIEstablisher(cl, "crossplane-system", conc)
	obs := c16StepObs{Refs: []c16RefObs{}, Log: []c16Log{}}
	var err error
	var panicked string
	requeue := false
	switch s.Op {
	case "release":
		cl.mode = "rel"
		for _, r := range s.Refs {
			if r.Kinded {
				cl.refKeys = append(cl.refKeys, r.Key)
			} else {
				cl.refKeys = append(cl.refKeys, "?/"+r.Key)
			}
		}
		parent := c16ParentObj(s.Parent)
		parent.SetObjects(c16TypedRefs(s.Refs))
		st.Plan = cl.plan
		panicked = Guard(func() { err = e.ReleaseObjects(context.Background(), parent) })
	case "reconcile":
		name := c16RevName(s.Parent.UID)
		before := c16StatusRefs(st, s.Parent.UID)
		for _, r := range before {
			cl.refKeys = append(cl.refKeys, r.Key)
		}
		if !s.Control && len(before) > 0 {
			cl.mode = "rel"
		}
		// environment: the package manager sets labels, owner references and the desired state
		st.Mutate(c16RevGK, "", name, func(u *unstructured.Unstructured) {
			p := c16ParentObj(s.Parent)
			u.SetLabels(p.GetLabels())
			u.SetOwnerReferences(p.GetOwnerReferences())
			ds := string(pkgv1.PackageRevisionInactive)
			if s.Control {
				ds = string(pkgv1.PackageRevisionActive)
			}
			_ = unstructured.SetNestedField(u.Object, ds, "spec", "desiredState")
		})
		st.Log = nil
		r := revision.NewReconciler(c16Mgr{c: cl},
			revision.WithNewPackageRevisionFn(func() pkgv1.PackageRevision { return &pkgv1.ConfigurationRevision{} }),
			revision.WithCache(c16Cache{content: c16PackageStream(s.Objs)}),
			revision.WithParser(parser.New(c16MetaScheme, c16ObjScheme)),
			revision.WithLinter(xpkg.NewConfigurationLinter()),
			revision.WithDependencyManager(c16Lock{}),
			revision.WithConfigStore(c16Cfg{}),
			revision.WithEstablisher(e),
			revision.WithFeatureFlags(&feature.Flags{}),
		)
		st.Plan = cl.plan
		panicked = Guard(func() {
			var res reconcile.Result
			res, err = r.Reconcile(context.Background(), reconcile.Request{NamespacedName: types.NamespacedName{Name: name}})
			requeue = res.Requeue
		})
	default:
		parent := c16ParentObj(s.Parent)
		c16SetTLS(st, s.Parent.TLS)
		var objs []runtime.Object
		for _, d := range s.Objs {
			objs = append(objs, c16BuildConv(d.Key, d.Body, d.Conv))
		}
		var refs []xpv1.TypedReference
		st.Plan = cl.plan
		panicked = Guard(func() { refs, err = e.Establish(context.Background(), objs, parent, s.Control) })
		if err == nil {
			for _, r := range refs {
				obs.Refs = append(obs.Refs, c16RefObs{Name: r.Name, Kinded: r.Kind != ""})
			}
			sort.Slice(obs.Refs, func(i, j int) bool {
				a, b := obs.Refs[i], obs.Refs[j]
				if a.Name != b.Name {
					return a.Name < b.Name
				}
				return !a.Kinded && b.Kinded
			})
		}
	}
	st.Plan = nil
	if cl.mode == "est" && s.Op != "release" && panicked == "" && !st.Crashed() && err == nil && !requeue {
		// Establish succeeded without issuing a single real write (nothing to do for an
		// inactive revision whose objects are absent; an empty package): the validate phase
		// was passed, so the third party's "between the phases" writes still happen
		cl.thirdParty(-1)
	}
	switch {
	case panicked != "":
		obs.Result = "panic: " + panicked
	case st.Crashed():
		obs.Result = "crash"
		obs.Refs = []c16RefObs{}
	case err != nil || requeue:
		obs.Result = "err"
	default:
		obs.Result = "ok"
	}
	for _, c := range st.Log {
		if !c.IsWrite() || c.DryRun {
			continue
		}
		if key := c16KeyOf(c.GK, c.Name); c16IsPkgKey(key) {
			obs.Log = append(obs.Log, c16Log{Verb: c.Verb, Key: key, Err: c.Err, Changed: c.Changed})
		}
	}
	if conc > 1 {
		sort.SliceStable(obs.Log, func(i, j int) bool {
			a, b := obs.Log[i], obs.Log[j]
			if a.Key != b.Key {
				return a.Key < b.Key
			}
			return a.Verb < b.Verb
		})
	}
	st.Revive()
	obs.Store = c16Snapshot(st)
	if s.Op == "reconcile" {
		obs.Refs = []c16RefObs{}
		for _, r := range c16StatusRefs(st, s.Parent.UID) {
			_, name := c16SplitKey(r.Key)
			obs.Refs = append(obs.Refs, c16RefObs{Name: name, Kinded: r.Kinded})
		}
	}
	// what the model must be told
	s.Ran = make([]bool, len(cl.refKeys))
	for _, c := range cl.calls {
		if c.Mode == "rel" && c.Phase == "get" && c.Idx >= 0 && c.Idx < len(s.Ran) {
			s.Ran[c.Idx] = true
		}
	}
	s.VOrder = c16FirstOrder(cl.calls, "est", "get", len(s.Objs))
	s.EOrder = c16FirstOrder(cl.calls, "est", "real", len(s.Objs))
	if s.Op == "release" {
		s.VOrder, s.EOrder = []int{}, []int{}
	}
	return obs, cl.calls, cl.applied
}

func c16Run(scn *c16Scn) (c16Obs, []Mon) {
	st := NewStore(c16Scheme)
	c16Seed(st, scn.Store)
	c16SeedRevs(st, scn.Revs)
	obs := c16Obs{Steps: []c16StepObs{}}
	var mons []Mon
	established := map[string]bool{} // keys established by a revision whose package owner reference resolves
	// released[u]: revision u was last reconciled as INACTIVE and that reconcile succeeded; the
	// value is what it could legitimately have controlled: the objects of its package and
	// whatever its status.objectRefs listed. Until u is reconciled as active again it must be
	// the controller of none of these ("deactivation gives up control").
	released := map[int]map[string]bool{}
	reported := map[string]bool{}
	for i := range scn.Steps {
		s := &scn.Steps[i]
		before := c16Snapshot(st)
		refsBefore := c16StatusRefs(st, s.Parent.UID)
		so, calls, applied := c16RunStep(st, s)
		obs.Steps = append(obs.Steps, so)
		mons = append(mons, c16Monitor(s, before, refsBefore, so, calls, applied)...)
		releasing := s.Op == "release" || (s.Op == "reconcile" && !s.Control && len(refsBefore) > 0)
		// an object the third party deleted or replaced is the third party's from now on
		for _, a := range applied {
			delete(established, a.Key)
		}
		before = c16ApplyActs(before, applied)
		if s.Op == "reconcile" {
			u := s.Parent.UID
			// status.objectRefs is only ever replaced by a successful Establish: a reconcile that
			// ends in an error (or a crash) must not lose an entry - ReleaseObjects and the
			// inactive shortcut of the reconciler trust that list to be complete
			if so.Result != "ok" {
				refsAfter := c16StatusRefs(st, u)
				for _, rb := range refsBefore {
					found := false
					for _, ra := range refsAfter {
						if ra == rb {
							found = true
						}
					}
					if !found {
						mons = append(mons, Mon{Sig: "C16:object-refs-shrunk-on-error", Why: fmt.Sprintf("step %d: reconcile of revision %d ended with %q but status.objectRefs lost %s (before %s, after %s)", i, u, so.Result, rb.Key, mustJSON(refsBefore), mustJSON(refsAfter))})
						break
					}
				}
			}
			switch {
			case s.Control:
				delete(released, u)
			case so.Result == "ok":
				keys := map[string]bool{}
				for _, d := range s.Objs {
					keys[d.Key] = true
				}
				for _, rb := range refsBefore {
					if rb.Kinded {
						keys[rb.Key] = true
					}
				}
				released[u] = keys
			}
		}
		for _, a := range applied {
			// a third party that writes a controller reference naming a released revision: not the revision's doing
			if a.Act == "put" {
				for _, r := range a.Owners {
					if r.Ctrl == "true" && released[r.UID] != nil {
						delete(released[r.UID], a.Key)
					}
				}
			}
		}
		// state-based, at the end of every step: a revision that was released successfully controls nothing
		for _, rv := range scn.Revs {
			u, keys := rv.UID, released[rv.UID]
			for _, o := range so.Store {
				if !keys[o.Key] {
					continue
				}
				if r := c16HasUID(&o, u); r != nil && r.Ctrl == "true" {
					if sig := fmt.Sprintf("%d/%s", u, o.Key); !reported[sig] {
						reported[sig] = true
						mons = append(mons, Mon{Sig: "C16:inactive-still-controls", Why: fmt.Sprintf("after step %d: revision %d is inactive and its last reconcile (ReleaseObjects) succeeded, but it is still the controller of %s; its status.objectRefs: %s", i, u, o.Key, mustJSON(c16StatusRefs(st, u)))})
					}
				}
			}
		}
		if pkg, ok := c16PkgRef(s.Parent); ok && pkg.UID != s.Parent.UID && !releasing {
			for _, a := range so.Store {
				b := c16Find(before, a.Key)
				if b == nil || !c16Same(*b, a) {
					established[a.Key] = true
				}
			}
		}
	}
	// Kubernetes GC at the end of the history: even if every revision is deleted,
	// no object a revision ever established may lose all of its owners.
	if len(obs.Steps) > 0 {
		final := obs.Steps[len(obs.Steps)-1].Store
		for k := range established {
			a := c16Find(final, k)
			if a == nil {
				mons = append(mons, Mon{Sig: "C16:object-deleted", Why: k + " disappeared"})
				continue
			}
			live := false
			for _, r := range a.Owners {
				if r.UID < 10 || r.UID >= 90 { // packages and foreign owners outlive the revisions
					live = true
				}
			}
			if !live {
				mons = append(mons, Mon{Sig: "C16:collectable-after-upgrade", Why: k + " is owned by revisions only: deleting them lets Kubernetes GC collect it"})
			}
		}
	}
	return obs, mons
}

// ---------------------------------------------------------------- direct monitors

func c16Find(objs []c16Obj, key string) *c16Obj {
	for i := range objs {
		if objs[i].Key == key {
			return &objs[i]
		}
	}
	return nil
}

func c16PkgRef(p c16Parent) (c16PRef, bool) {
	for _, r := range p.Owners {
		if r.Name == p.Label {
			return r, true
		}
	}
	return c16PRef{}, false
}

func c16Same(a, b c16Obj) bool { return mustJSON(a) == mustJSON(b) }

func c16HasUID(o *c16Obj, uid int) *c16Ref {
	for i := range o.Owners {
		if o.Owners[i].UID == uid {
			return &o.Owners[i]
		}
	}
	return nil
}

func c16InInts(xs []int, x int) bool {
	for _, y := range xs {
		if x == y {
			return true
		}
	}
	return false
}

func c16InStrs(xs []string, x string) bool {
	for _, y := range xs {
		if x == y {
			return true
		}
	}
	return false
}

// c16Monitor evaluates the property itself on the real run of one step. `applied`
// are the third-party writes that happened during the step, in order: what the
// REVISION did is the difference between `after` and the pre-state with those
// writes applied (a revision can never write over a third-party put - its update
// carries the resourceVersion it validated - so the third party's last write to a
// key is final unless the revision creates the object anew after a deletion).
func c16Monitor(s *c16Step, before0 []c16Obj, refsBefore []c16XRef, so c16StepObs, calls []c16Call, applied []c16Act) []Mon {
	var mons []Mon
	add := func(sig, why string) { mons = append(mons, Mon{Sig: sig, Why: why}) }
	if strings.HasPrefix(so.Result, "panic") {
		add("C16:panic", so.Result)
		return mons
	}
	before := c16ApplyActs(before0, applied)
	touched := map[string]bool{}
	for _, a := range applied {
		touched[a.Key] = true
	}
	tpNote := ""
	if len(applied) > 0 {
		tpNote = " (third-party writes during the step: " + mustJSON(applied) + ")"
	}
	after := so.Store
	pkg, hasPkg := c16PkgRef(s.Parent)
	changed := func(o c16Obj) bool {
		b := c16Find(before, o.Key)
		return b == nil || !c16Same(*b, o)
	}
	// nothing is ever deleted and no owner entry is ever dropped
	for _, b := range before {
		a := c16Find(after, b.Key)
		if a == nil {
			add("C16:object-deleted", b.Key+" disappeared")
			continue
		}
		for _, r := range b.Owners {
			if c16HasUID(a, r.UID) == nil {
				add("C16:owner-entry-dropped", fmt.Sprintf("%s lost its owner entry for uid %d (op %s)", b.Key, r.UID, s.Op))
			}
		}
	}
	// which of ReleaseObjects / Establish is expected to touch package objects?
	releasing := s.Op == "release" || (s.Op == "reconcile" && !s.Control && len(refsBefore) > 0)
	if !s.Control && s.Op != "release" {
		// an inactive revision never issues a (non-dry-run) create, whoever interferes
		for _, c := range calls {
			if c.Verb == "create" && !c.Dry && c.Mode != "" {
				add("C16:inactive-created", "an inactive revision issued a create of "+c.Key+tpNote)
			}
		}
	}
	if s.Op == "reconcile" && !s.Control {
		// an inactive revision, whatever path the reconciler takes
		for _, a := range after {
			b := c16Find(before, a.Key)
			if b == nil {
				add("C16:inactive-created", a.Key+" was created while reconciling an inactive revision"+tpNote)
				continue
			}
			if me := c16HasUID(&a, s.Parent.UID); me != nil && me.Ctrl == "true" {
				if mb := c16HasUID(b, s.Parent.UID); mb == nil || mb.Ctrl != "true" {
					add("C16:inactive-controls", a.Key+": an inactive revision became its controller"+tpNote)
				}
			}
			if b.Body != a.Body {
				add("C16:inactive-modified-content", a.Key+" content changed while reconciling an inactive revision")
			}
		}
	}
	if releasing {
		var keys []string
		if s.Op == "release" {
			for _, r := range s.Refs {
				if r.Kinded {
					keys = append(keys, r.Key)
				}
			}
		} else {
			for _, r := range refsBefore {
				if r.Kinded {
					keys = append(keys, r.Key)
				}
			}
		}
		for _, a := range after {
			if !changed(a) {
				continue
			}
			if r := c16HasUID(&a, s.Parent.UID); r == nil || r.Ctrl == "true" {
				add("C16:release-kept-control", a.Key+" written by ReleaseObjects but the revision is still controller or not an owner")
			}
			if b := c16Find(before, a.Key); b != nil && b.Body != a.Body {
				add("C16:release-modified-content", a.Key)
			}
		}
		if so.Result == "ok" {
			for _, k := range keys {
				a := c16Find(after, k)
				if a == nil {
					continue
				}
				if r := c16HasUID(a, s.Parent.UID); r == nil || r.Ctrl == "true" {
					add("C16:release-kept-control", k+" after a successful release: revision is still controller or not an owner")
				}
			}
		}
		return mons
	}
	// establish ---------------------------------------------------------
	// (1) all-or-nothing, decided from the pre-state only
	blocked := ""
	for _, d := range s.Objs {
		cur := c16Find(before0, d.Key)
		if s.Control && cur != nil {
			for _, r := range cur.Owners {
				if r.Ctrl == "true" && r.UID != s.Parent.UID && !(hasPkg && r.UID == pkg.UID) {
					blocked = fmt.Sprintf("%s is controlled by uid %d", d.Key, r.UID)
				}
			}
		}
		if s.Control && d.Conv && s.Parent.TLS != "present" {
			blocked = d.Key + " needs a CA bundle the parent does not have"
		}
		submits := cur != nil || s.Control
		if submits && c16InStrs(s.RejKeys, d.Key) {
			blocked = d.Key + " is rejected by the API server (key)"
		}
		body := d.Body
		if !s.Control && cur != nil {
			body = cur.Body
		}
		if submits && c16InInts(s.RejBodies, body) {
			blocked = fmt.Sprintf("%s is rejected by the API server (body %d)", d.Key, body)
		}
	}
	if s.Op == "establish" && s.Control && (s.Parent.TLS == "missing" || s.Parent.TLS == "empty") {
		blocked = "the webhook TLS secret is " + s.Parent.TLS
	}
	if blocked != "" {
		if so.Result == "ok" {
			add("C16:established-despite-blocked", blocked+" but Establish reported success")
		}
		if len(so.Log) > 0 || mustJSON(before0) != mustJSON(after) {
			add("C16:partial-establish", blocked+" but objects were created or modified: "+mustJSON(so.Log))
		}
	}
	// (2) sequentially, no dry-run call follows a real write
	realSeen := false
	for _, c := range calls {
		if c.Mode != "est" {
			continue
		}
		if c.Phase == "real" {
			realSeen = true
		}
		if c.Phase == "dry" && realSeen && s.Conc == 1 {
			add("C16:dry-run-after-real", "a dry-run call was issued after a real write")
		}
	}
	// every real write was rehearsed: same verb and key seen as a dry run before
	dry := map[string]int{}
	for _, c := range calls {
		if c.Mode != "est" {
			continue
		}
		if c.Phase == "dry" {
			dry[c.Verb+" "+c.Key]++
		}
		if c.Phase == "real" {
			if dry[c.Verb+" "+c.Key] == 0 {
				add("C16:real-write-without-dry-run", c.Verb+" "+c.Key+" was not validated by a dry run first")
			}
		}
	}
	// (3) role laws on every object the step wrote
	for _, a := range after {
		b := c16Find(before, a.Key)
		if b == nil {
			if !s.Control {
				add("C16:inactive-created", a.Key+" was created by an inactive revision"+tpNote)
			}
		}
		if !changed(a) {
			continue
		}
		me := c16HasUID(&a, s.Parent.UID)
		if s.Control {
			if me == nil || me.Ctrl != "true" {
				add("C16:active-not-controller", a.Key+" written by an active revision which is not its controller")
			}
		} else {
			if me == nil {
				add("C16:inactive-not-owner", a.Key+" written by an inactive revision which is not an owner")
			} else if me.Ctrl == "true" {
				add("C16:inactive-controls", a.Key+" written by an inactive revision which is its controller"+tpNote)
			}
			if b != nil && b.Body != a.Body {
				add("C16:inactive-modified-content", a.Key+" content changed by an inactive revision")
			}
		}
		if hasPkg && pkg.UID != s.Parent.UID {
			if pr := c16HasUID(&a, pkg.UID); pr == nil || pr.Ctrl == "true" {
				add("C16:package-owner-missing", a.Key+" was written without the package as non-controlling owner")
			}
		}
		n := 0
		for _, r := range a.Owners {
			if r.Ctrl == "true" {
				n++
			}
		}
		if n > 1 {
			add("C16:two-controllers", a.Key)
		}
	}
	// (4) a successful establish covers every object of the package
	if so.Result == "ok" {
		for _, d := range s.Objs {
			if touched[d.Key] {
				continue // success does not cover an object a third party deleted or replaced meanwhile
			}
			a := c16Find(after, d.Key)
			if s.Control {
				if a == nil {
					add("C16:active-not-controller", d.Key+" missing after a successful establish")
				} else if me := c16HasUID(a, s.Parent.UID); me == nil || me.Ctrl != "true" {
					add("C16:active-not-controller", d.Key+" not controlled after a successful establish")
				}
			} else if a != nil {
				if me := c16HasUID(a, s.Parent.UID); me == nil || me.Ctrl == "true" {
					add("C16:inactive-not-owner", d.Key+" not plainly owned after a successful inactive establish")
				}
			}
		}
	}
	return mons
}

// ---------------------------------------------------------------- generator

var (
	c16Keys = []string{"Composition/a", "Composition/b", "Composition/c", "XRD/a", "XRD/d", "Composition/e", "CRD/x", "CRD/y"}
	// reconcile histories: distinct names (status.objectRefs are sorted by an id that ignores a cleared kind)
	c16HKeys = []string{"Composition/b", "Composition/c", "XRD/a", "XRD/d", "Composition/e"}
)

func c16NewStep(op string, p c16Parent) c16Step {
	return c16Step{Op: op, Parent: p, Objs: []c16Des{}, Refs: []c16XRef{}, Faults: []c16Fault{}, RejBodies: []int{}, RejKeys: []string{}, Conc: 1, TP: []c16Act{}, VOrder: []int{}, EOrder: []int{}, Ran: []bool{}}
}

func c16GenParent(r *Rng, uid int) c16Parent {
	pkgUID := uid / 10
	_, _, pkgName := c16OwnerIdent(pkgUID)
	p := c16Parent{UID: uid, Label: pkgName, Owners: []c16PRef{}}
	switch r.Intn(12) {
	case 0: // no owner reference to the package at all
	case 1: // label does not match
		p.Owners = append(p.Owners, c16PRef{Name: pkgName, UID: pkgUID, Ctrl: "true", Block: "true"})
		p.Label = ""
	case 3: // two owner references carry the package's name: the first one counts
		p.Owners = append(p.Owners, c16PRef{Name: pkgName, UID: pkgUID, Ctrl: "true", Block: "true"}, c16PRef{Name: pkgName, UID: 95, Ctrl: "nil", Block: "nil"})
	case 2: // an unrelated owner first
		p.Owners = append(p.Owners, c16PRef{Name: "someone", UID: 95, Ctrl: "nil", Block: "nil"}, c16PRef{Name: pkgName, UID: pkgUID, Ctrl: "true", Block: "true"})
	default:
		p.Owners = append(p.Owners, c16PRef{Name: pkgName, UID: pkgUID, Ctrl: "true", Block: "true"})
	}
	return p
}

// c16GenOwners draws a pre-existing owner state for an object, relative to the
// revision `me` (uid) of package me/10.
func c16GenOwners(r *Rng, me int) ([]c16Ref, string) {
	pkg := me / 10
	prev := pkg*10 + (me%10+1)%3
	otherPkg := pkg%3 + 1
	otherRev := otherPkg*10 + r.Intn(2)
	out := []c16Ref{}
	cls := ""
	switch r.Intn(9) {
	case 0:
		cls = "uncontrolled"
	case 1:
		cls = "uncontrolled+pkg"
		out = append(out, c16Ref{pkg, "false", "true"})
	case 2:
		cls = "prevrev"
		out = append(out, c16Ref{prev, "true", "true"}, c16Ref{pkg, "false", "true"})
	case 3:
		cls = "prevrev-released"
		out = append(out, c16Ref{prev, "false", "true"}, c16Ref{pkg, "false", "true"})
	case 4:
		cls = "otherpkg"
		out = append(out, c16Ref{otherRev, "true", "true"}, c16Ref{otherPkg, "false", "true"})
	case 5:
		cls = "self"
		out = append(out, c16Ref{me, "true", "true"}, c16Ref{pkg, "false", "true"})
	case 6:
		cls = "self-plain"
		out = append(out, c16Ref{pkg, "false", "true"}, c16Ref{me, Pick(r, []string{"nil", "false"}), Pick(r, []string{"nil", "true"})})
	case 7:
		cls = "foreign"
		out = append(out, c16Ref{90, "true", Pick(r, []string{"nil", "true"})})
	case 8:
		cls = "pkg-controls"
		out = append(out, c16Ref{pkg, "true", "true"})
	}
	if r.Chance(1, 6) {
		out = append(out, c16Ref{91, "nil", "nil"})
	}
	return out, cls
}

func c16GenFaults(r *Rng, n int, phases []string, crash bool) []c16Fault {
	fs := []c16Fault{}
	if n == 0 {
		return fs
	}
	outs := []string{"fail", "fail", "conflict"}
	if crash {
		outs = append(outs, "crashBefore", "crashAfter")
	}
	for k, m := 0, r.Range(1, 2); k < m; k++ {
		fs = append(fs, c16Fault{I: r.Intn(n), Phase: Pick(r, phases), Out: Pick(r, outs)})
	}
	return fs
}

// c16GenTP draws third-party writes for the establish phase of a step: mostly
// against package objects that exist (validated, then gone / re-created / re-owned
// right before their real write), sometimes against another object of the package
// while object i is being written (interference between the individual writes).
func c16GenTP(r *Rng, s *c16Step, store []c16Obj, me int) []c16Act {
	n := len(s.Objs)
	acts := []c16Act{}
	if n == 0 {
		return acts
	}
	for k, m := 0, r.Range(1, 2); k < m; k++ {
		i := r.Intn(n)
		for try := 0; try < 3 && store != nil && c16Find(store, s.Objs[i].Key) == nil; try++ {
			i = r.Intn(n) // prefer an object that exists: its goroutine issues an update
		}
		key := s.Objs[i].Key
		if r.Chance(1, 4) {
			key = s.Objs[r.Intn(n)].Key
		}
		a := c16Act{I: i, Act: "del", Key: key, Owners: []c16Ref{}}
		if r.Chance(1, 6) {
			a.I = -1 // between the validate phase and the establish phase, whichever object is written first
		}
		if r.Chance(2, 5) {
			a.Act = "put"
			a.Body = r.Range(1, 4)
			a.Owners, _ = c16GenOwners(r, me)
		}
		acts = append(acts, a)
	}
	return acts
}

func c16StateNames(m map[string]bool) string {
	var ks []string
	for k := range m {
		ks = append(ks, k)
	}
	sort.Strings(ks)
	return strings.Join(ks, "+")
}

func c16GenEstablish(r *Rng, store *[]c16Obj) (c16Step, string) {
	me := Pick(r, []int{10, 11, 12, 20, 21})
	tls := "noRuntime"
	if r.Chance(1, 4) {
		// a ProviderRevision parent (package 3): the webhook TLS server secret matters
		me = Pick(r, []int{30, 31, 32})
		tls = Pick(r, []string{"present", "present", "noName", "missing", "empty"})
	}
	s := c16NewStep("establish", c16GenParent(r, me))
	s.Parent.TLS = tls
	s.Control = r.Chance(3, 5)
	s.Conc = Pick(r, []int{1, 1, 2, 4})
	n := r.Range(1, 5)
	if r.Chance(1, 40) {
		n = 0
	}
	perm := r.Perm(len(c16Keys))
	for i := 0; i < n; i++ {
		d := c16Des{Key: c16Keys[perm[i]], Body: r.Range(1, 4)}
		if strings.HasPrefix(d.Key, "CRD/") && r.Chance(1, 3) {
			d.Conv = true
		}
		s.Objs = append(s.Objs, d)
	}
	dup := false
	if n > 0 && s.Conc == 1 && r.Chance(1, 12) {
		// a poorly formed package: the same object twice
		d := s.Objs[r.Intn(n)]
		if r.Bool() {
			d.Body = r.Range(1, 4)
		}
		s.Objs = append(s.Objs, d)
		dup = true
	}
	states := map[string]bool{}
	for _, d := range s.Objs {
		if c16Find(*store, d.Key) != nil {
			continue
		}
		if r.Chance(2, 5) || d.Conv {
			states["absent"] = true
			continue
		}
		ow, c := c16GenOwners(r, me)
		states[c] = true
		body := d.Body
		if r.Bool() {
			body = r.Range(1, 4)
		}
		*store = append(*store, c16Obj{Key: d.Key, Body: body, Owners: ow})
	}
	fk := "none"
	switch r.Intn(8) {
	case 0:
		s.RejBodies = append(s.RejBodies, r.Range(1, 4))
		fk = "rejBody"
	case 1:
		if len(s.Objs) > 0 {
			s.RejKeys = append(s.RejKeys, s.Objs[r.Intn(len(s.Objs))].Key)
			fk = "rejKey"
		}
	case 2, 3:
		// transient faults: keyed by (object, phase); crashes only sequentially
		s.Faults = c16GenFaults(r, len(s.Objs), []string{"get", "dry", "real", "real"}, s.Conc == 1)
		if len(s.Faults) > 0 {
			fk = "fault-" + s.Faults[0].Phase + "-" + s.Faults[0].Out
		}
	case 4:
		if tls != "noRuntime" && tls != "noName" && s.Conc == 1 {
			s.Faults = append(s.Faults, c16Fault{I: 0, Phase: "tls", Out: Pick(r, []string{"fail", "conflict", "crashBefore", "crashAfter"})})
			fk = "fault-tls"
		}
	}
	// third-party interference with the establish phase; more often for an inactive
	// revision whose objects exist (it must neither create nor take control, whatever happens)
	exists := false
	for _, d := range s.Objs {
		if c16Find(*store, d.Key) != nil {
			exists = true
		}
	}
	tp := ""
	if (!s.Control && exists && r.Chance(1, 2)) || r.Chance(1, 4) {
		s.TP = c16GenTP(r, &s, *store, me)
		if len(s.TP) > 0 {
			tp = "+tp"
		}
	}
	if tls == "missing" || tls == "empty" {
		fk = "tls-" + tls
	}
	for _, d := range s.Objs {
		if d.Conv && s.Control && tls != "present" {
			fk = "crd-needs-ca"
		}
	}
	if len(s.Objs) == 0 {
		return s, "trivial/empty"
	}
	role := "inactive"
	if s.Control {
		role = "active"
	}
	f := "clean"
	if fk != "none" {
		f = "faulty"
	}
	if dup {
		return s, fmt.Sprintf("est/%s/duplicate-object%s", role, tp)
	}
	return s, fmt.Sprintf("est/%s/pre=%s/%s%s", role, c16Focus(states), f, tp)
}

// c16Focus names the scenario after the most telling pre-existing state it contains
// (the four states of the property's quantifier first).
func c16Focus(states map[string]bool) string {
	for _, k := range []string{"otherpkg", "prevrev", "foreign", "prevrev-released", "pkg-controls", "self", "self-plain", "uncontrolled", "uncontrolled+pkg", "absent"} {
		if states[k] {
			switch k {
			case "foreign", "pkg-controls":
				return "other-controller"
			case "self", "self-plain":
				return "self"
			case "uncontrolled+pkg":
				return "uncontrolled"
			}
			return k
		}
	}
	return "preexisting"
}

func c16GenRelease(r *Rng, store *[]c16Obj) (c16Step, string) {
	me := Pick(r, []int{10, 11, 12, 20, 21})
	s := c16NewStep("release", c16GenParent(r, me))
	n := r.Range(1, 5)
	if r.Chance(1, 40) {
		n = 0
	}
	perm := r.Perm(len(c16Keys))
	unk := false
	for i := 0; i < n; i++ {
		k := r.Chance(9, 10)
		unk = unk || !k
		s.Refs = append(s.Refs, c16XRef{Key: c16Keys[perm[i]], Kinded: k})
	}
	states := map[string]bool{}
	for _, x := range s.Refs {
		if c16Find(*store, x.Key) != nil {
			continue
		}
		if r.Chance(1, 5) {
			states["absent"] = true
			continue
		}
		ow, c := c16GenOwners(r, me)
		states[c] = true
		*store = append(*store, c16Obj{Key: x.Key, Body: r.Range(1, 4), Owners: ow})
	}
	fk := "none"
	s.Conc = Pick(r, []int{1, 2, 4})
	if unk {
		s.Conc = 1
		fk = "unkinded"
	}
	switch r.Intn(6) {
	case 0:
		if n > 0 {
			s.RejKeys = append(s.RejKeys, s.Refs[r.Intn(n)].Key)
			fk = "rejKey"
			s.Conc = 1
		}
	case 1, 2:
		s.Faults = c16GenFaults(r, n, []string{"get", "real"}, true)
		if len(s.Faults) > 0 {
			fk = "fault-" + s.Faults[0].Phase + "-" + s.Faults[0].Out
			s.Conc = 1
		}
	}
	if n == 0 {
		return s, "trivial/empty"
	}
	f := "clean"
	if fk != "none" {
		f = "faulty"
	}
	return s, fmt.Sprintf("rel/%s", f)
}

// c16GenHistory: upgrade / rollback sequences of the revisions of a package (and
// a revision of another package competing for an object), reconciled in any
// order by the REAL revision.Reconciler.
func c16GenHistory(r *Rng) (c16Scn, string) {
	scn := c16Scn{Store: []c16Obj{}, Revs: []c16RevState{}, Steps: []c16Step{}}
	revs := []int{10, 11, 12}
	other := r.Chance(1, 3)
	if other {
		revs = append(revs, 20)
	}
	objsOf := map[int][]c16Des{}
	parentOf := map[int]c16Parent{}
	for _, u := range revs {
		n := r.Range(1, 4)
		perm := r.Perm(len(c16HKeys))
		var ds []c16Des
		for i := 0; i < n; i++ {
			ds = append(ds, c16Des{Key: c16HKeys[perm[i]], Body: r.Range(1, 3)})
		}
		objsOf[u] = ds
		pkgUID := u / 10
		_, _, pkgName := c16OwnerIdent(pkgUID)
		p := c16Parent{UID: u, Label: pkgName, Owners: []c16PRef{{Name: pkgName, UID: pkgUID, Ctrl: "true", Block: "true"}}}
		if r.Chance(1, 15) {
			p.Owners = []c16PRef{}
		}
		parentOf[u] = p
		scn.Revs = append(scn.Revs, c16RevState{UID: u, Refs: []c16XRef{}})
	}
	// some pre-existing objects
	if r.Chance(1, 3) {
		k := Pick(r, c16HKeys)
		ow, _ := c16GenOwners(r, 10)
		scn.Store = append(scn.Store, c16Obj{Key: k, Body: r.Range(1, 3), Owners: ow})
	}
	desired := map[int]bool{}
	active := 10
	desired[10] = true
	if other {
		desired[20] = true
	}
	n := r.Range(3, 9)
	faulty, racing, rollback, interf := false, false, false, false
	for len(scn.Steps) < n {
		switch r.Intn(5) {
		case 0: // upgrade or rollback: the package manager flips the desired states
			next := Pick(r, []int{10, 11, 12})
			if next < active {
				rollback = true
			}
			if r.Chance(1, 8) {
				racing = true // manual activation: two revisions active for a while
			} else {
				desired[active] = false
			}
			desired[next] = true
			active = next
			continue
		}
		u := Pick(r, revs)
		s := c16NewStep("reconcile", parentOf[u])
		s.Control = desired[u]
		s.Objs = append(s.Objs, objsOf[u]...)
		s.Conc = Pick(r, []int{1, 1, 2})
		if r.Chance(1, 6) {
			s.Conc = 1
			s.Faults = c16GenFaults(r, 4, []string{"get", "dry", "real", "real"}, true)
			faulty = true
		} else if r.Chance(1, 12) {
			s.Conc = 1
			s.RejKeys = append(s.RejKeys, Pick(r, c16HKeys))
			faulty = true
		}
		if r.Chance(1, 4) {
			// a third party deletes / re-creates / re-owns objects while this revision establishes
			s.TP = c16GenTP(r, &s, nil, u)
			interf = true
		}
		scn.Steps = append(scn.Steps, s)
	}
	kind := "upgrade"
	if rollback {
		kind = "rollback"
	}
	if racing {
		kind = "two-active"
	}
	f := "clean"
	if faulty {
		f = "faulty"
	}
	cls := fmt.Sprintf("hist/%s/%s", kind, f)
	if kind != "upgrade" {
		cls = "hist/" + kind
	}
	if interf {
		cls += "+tp"
	}
	_ = other
	return scn, cls
}

// c16GenDeactivate: the upgrade of a HEALTHY revision that has trouble on the way. Revision 10
// is active and healthy (status.objectRefs lists its whole package, kinded: either seeded that
// way or reached by two clean reconciles), then one or two reconciles of it pass validation and
// hit an API error at one REAL write (or, less often, some other fault); then the package manager
// deactivates it and activates revision 11 of the same package (same objects, new content); the
// two are reconciled in either order, the new one once more at the end. status.objectRefs must
// survive the failed reconciles, or ReleaseObjects does not release what it no longer lists.
func c16GenDeactivate(r *Rng) (c16Scn, string) {
	scn := c16Scn{Store: []c16Obj{}, Revs: []c16RevState{}, Steps: []c16Step{}}
	_, _, pkgName := c16OwnerIdent(1)
	par := func(u int) c16Parent {
		return c16Parent{UID: u, Label: pkgName, Owners: []c16PRef{{Name: pkgName, UID: 1, Ctrl: "true", Block: "true"}}}
	}
	n := r.Range(2, 4)
	perm := r.Perm(len(c16HKeys))
	var old, nw []c16Des
	for i := 0; i < n; i++ {
		old = append(old, c16Des{Key: c16HKeys[perm[i]], Body: r.Range(1, 3)})
		nw = append(nw, c16Des{Key: c16HKeys[perm[i]], Body: r.Range(1, 3)})
	}
	if r.Chance(1, 4) {
		nw = append(nw, c16Des{Key: c16HKeys[perm[n]], Body: r.Range(1, 3)}) // the new revision adds an object
	}
	step := func(u int, active bool) c16Step {
		s := c16NewStep("reconcile", par(u))
		s.Control = active
		if u == 10 {
			s.Objs = append(s.Objs, old...)
		} else {
			s.Objs = append(s.Objs, nw...)
		}
		s.Conc = Pick(r, []int{1, 1, 1, 2})
		return s
	}
	rev10 := c16RevState{UID: 10, Refs: []c16XRef{}}
	start := "seeded"
	if r.Bool() {
		for _, d := range old {
			scn.Store = append(scn.Store, c16Obj{Key: d.Key, Body: d.Body, Owners: []c16Ref{{10, "true", "true"}, {1, "false", "true"}}})
			rev10.Refs = append(rev10.Refs, c16XRef{Key: d.Key, Kinded: true})
		}
		sort.Slice(scn.Store, func(i, j int) bool { return scn.Store[i].Key < scn.Store[j].Key })
	} else {
		start = "installed"
		// the first reconcile creates (references without a kind), the second one updates (kinded)
		scn.Steps = append(scn.Steps, step(10, true), step(10, true))
	}
	scn.Revs = append(scn.Revs, rev10, c16RevState{UID: 11, Refs: []c16XRef{}})
	trouble := "real-fail"
	for k, m := 0, r.Range(1, 2); k < m; k++ {
		s := step(10, true)
		s.Conc = 1
		switch r.Intn(8) {
		case 0:
			s.Faults = c16GenFaults(r, n, []string{"get", "dry", "real"}, true)
			trouble = "other-fault"
		case 1:
			s.Faults = []c16Fault{{I: r.Intn(n), Phase: "real", Out: Pick(r, []string{"conflict", "crashBefore", "crashAfter"})}}
			trouble = "other-fault"
		default:
			// validation passes, one real write is answered with a plain API error
			s.Faults = []c16Fault{{I: r.Intn(n), Phase: "real", Out: "fail"}}
		}
		scn.Steps = append(scn.Steps, s)
	}
	healed := false
	if r.Chance(1, 5) {
		scn.Steps = append(scn.Steps, step(10, true)) // a clean retry before the upgrade
		healed = true
	}
	// the package manager flips the desired states; the reconciles arrive in either order
	if r.Bool() {
		scn.Steps = append(scn.Steps, step(11, true))
	}
	scn.Steps = append(scn.Steps, step(10, false))
	if r.Chance(1, 3) {
		scn.Steps = append(scn.Steps, step(10, false))
	}
	scn.Steps = append(scn.Steps, step(11, true))
	if r.Chance(1, 3) {
		scn.Steps = append(scn.Steps, step(10, false), step(11, true))
	}
	cls := fmt.Sprintf("hist/deactivate-after-trouble/%s/%s", start, trouble)
	if healed {
		cls += "/healed"
	}
	return scn, cls
}

func c16Gen(r *Rng) (c16Scn, string) {
	if r.Chance(1, 3) {
		if r.Chance(1, 4) {
			return c16GenDeactivate(r)
		}
		return c16GenHistory(r)
	}
	scn := c16Scn{Store: []c16Obj{}, Revs: []c16RevState{}, Steps: []c16Step{}}
	var s c16Step
	var cls string
	if r.Chance(1, 3) {
		s, cls = c16GenRelease(r, &scn.Store)
	} else {
		s, cls = c16GenEstablish(r, &scn.Store)
	}
	scn.Steps = append(scn.Steps, s)
	sort.Slice(scn.Store, func(i, j int) bool { return scn.Store[i].Key < scn.Store[j].Key })
	return scn, cls
}

func init() {
	Register("C16", func(c *Ctx) {
		for _, raw := range c.Corpus {
			var s c16Scn
			if err := jsonUnmarshalStrict(raw, &s); err == nil && len(s.Steps) > 0 {
				obs, mons := c16Run(&s)
				c.Emit(s, obs, mons, "corpus")
			}
		}
		every := 40
		if c.Tier == "thorough" {
			every = 15
		}
		for i := 0; i < c.N; i++ {
			s, cls := c16Gen(c.Rng)
			base := mustJSON(s)
			obs, mons := c16Run(&s)
			c.Emit(s, obs, mons, cls)
			// exhaustive small scope: every single fault (object x phase x outcome) on the
			// last step of this scenario, when that step runs sequentially
			if i%every != 0 {
				continue
			}
			last := s.Steps[len(s.Steps)-1]
			n := len(last.Objs)
			if last.Op == "release" {
				n = len(last.Refs)
			} else if last.Op == "reconcile" && n < 4 {
				n = 4 // the step may release up to four recorded references instead
			}
			for fi := 0; fi < n; fi++ {
				for _, ph := range []string{"get", "dry", "real"} {
					if ph == "dry" && last.Op == "release" {
						continue
					}
					for _, out := range []string{"fail", "conflict", "crashBefore", "crashAfter"} {
						var v c16Scn
						if err := jsonUnmarshalStrict([]byte(base), &v); err != nil {
							continue
						}
						ls := &v.Steps[len(v.Steps)-1]
						ls.Conc = 1
						ls.Faults = []c16Fault{{I: fi, Phase: ph, Out: out}}
						o2, m2 := c16Run(&v)
						c.Emit(v, o2, m2, "exh/"+last.Op)
					}
				}
			}
		}
	})
}

var _ = metav1.Now

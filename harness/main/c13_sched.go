//go:build verif

package main

// C13: deterministic scheduling of real goroutines that call into the real
// engine.ControllerEngine / engine.InformerTrackingCache / watch.GarbageCollector.
//
// Every call that leaves the engine goes through a fake that parks the calling
// goroutine until the scheduler releases it (DESIGN.md 4.4):
//
//	NC  NewControllerFn            (Start, under e.mx)
//	AI  TrackingInformers.ActiveInformers
//	GI  TrackingInformers.GetInformer   (StoppableSource.Start / Stop)
//	AH  Informer.AddEventHandler
//	RH  Informer.RemoveEventHandler
//	RI  TrackingInformers.RemoveInformer
//	LS  client.List of the XRs (watch.GarbageCollector)
//
// The scheduler releases exactly one parked (or not yet started) goroutine per
// round and then waits until every goroutine is parked, finished, or blocked on
// one of the engine's mutexes (the latter is read off runtime.Stack; no sleeps,
// no timing assumptions: the wait is a spin on a condition that becomes stable).
// The informer tracking cache under test is the real one (cache.go); only the
// controller-runtime cache below it is fake.

import (
	"bytes"
	"context"
	"errors"
	"fmt"
	"net"
	"runtime"
	"sort"
	"strconv"
	"strings"
	"sync"
	"time"

	corev1 "k8s.io/api/core/v1"
	kerrors "k8s.io/apimachinery/pkg/api/errors"
	kmeta "k8s.io/apimachinery/pkg/api/meta"
	metav1 "k8s.io/apimachinery/pkg/apis/meta/v1"
	"k8s.io/apimachinery/pkg/apis/meta/v1/unstructured"
	kruntime "k8s.io/apimachinery/pkg/runtime"
	"k8s.io/apimachinery/pkg/runtime/schema"
	toolscache "k8s.io/client-go/tools/cache"
	"k8s.io/client-go/util/workqueue"
	"sigs.k8s.io/controller-runtime/pkg/cache"
	"sigs.k8s.io/controller-runtime/pkg/client"
	kcontroller "sigs.k8s.io/controller-runtime/pkg/controller"
	"sigs.k8s.io/controller-runtime/pkg/event"
	"sigs.k8s.io/controller-runtime/pkg/handler"
	"sigs.k8s.io/controller-runtime/pkg/manager"
	"sigs.k8s.io/controller-runtime/pkg/reconcile"
	"sigs.k8s.io/controller-runtime/pkg/source"

	xpv1 "github.com/crossplane/crossplane-runtime/apis/common/v1"
	"github.com/crossplane/crossplane-runtime/pkg/resource"
	ucomposite "github.com/crossplane/crossplane-runtime/pkg/resource/unstructured/composite"

	"github.com/crossplane/crossplane/internal/controller/apiextensions/composite/watch"
	"github.com/crossplane/crossplane/internal/engine"
)

const c13Group = "c13.example.org"

// c13Group2 is a second API group serving kinds with the same Kind names; the first group's name
// is a string prefix of it.
const c13Group2 = "c13.example.org.eu"

// Kinds are numbered g = 1000*variant + base. Every number is a different GVK, hence a different
// watch, a different informer and a different thing for an XR to reference:
//
//	variant 0   c13.example.org/v1       K<base>
//	variant 1   c13.example.org/v2       K<base>           another version of the same kind
//	variant 2   c13.example.org.eu/v1    K<base>           the same Kind in another API group
//	variant 3   c13.example.org/v1       K<base>x          a Kind the first one is a string prefix of
//	variant 4   c13.example.org/v1       k<base>           the same Kind up to case
//	variant 5   c13.example.org/v1       K<base>List       a Kind whose NAME ends in "List" (ec2's ManagedPrefixList, AccessList, ...)
//	variant 6   k<base>.c13.example.org/v1  List           a Kind that IS "List"
//	variant 7   c13.example.org/v1       K<base>list       ... ends in "list", lower case
//	variant 8   c13.example.org/v1       K<base>ListEntry  "List" in the middle
//	variant 9   c13.example.org/v1       K<base>s          plural-looking names a string-level
//	variant 10  c13.example.org/v1       K<base>Policies   helper (singularise, trim a suffix) could
//	variant 11  c13.example.org/v1       K<base>Status     mangle
//
// (K1 is also a prefix of K100, K101, ..., the kinds of the XRs themselves; variant 5 minus its
// suffix IS variant 0.)
func c13GVK(g int) schema.GroupVersionKind {
	b := strconv.Itoa(g % 1000)
	gvk := schema.GroupVersionKind{Group: c13Group, Version: "v1", Kind: "K" + b}
	switch g / 1000 {
	case 1:
		gvk.Version = "v2"
	case 2:
		gvk.Group = c13Group2
	case 3:
		gvk.Kind += "x"
	case 4:
		gvk.Kind = "k" + b
	case 5:
		gvk.Kind += "List"
	case 6:
		gvk.Group, gvk.Kind = "k"+b+"."+c13Group, "List"
	case 7:
		gvk.Kind += "list"
	case 8:
		gvk.Kind += "ListEntry"
	case 9:
		gvk.Kind += "s"
	case 10:
		gvk.Kind += "Policies"
	case 11:
		gvk.Kind += "Status"
	}
	return gvk
}

const c13Variants = 12

var c13KindIndex = func() map[schema.GroupVersionKind]int {
	m := map[schema.GroupVersionKind]int{}
	for v := 0; v < c13Variants; v++ {
		for b := 0; b < 200; b++ {
			m[c13GVK(1000*v+b)] = 1000*v + b
		}
	}
	return m
}()

// c13KindOf is the number of a GVK, -1 for a GVK that is none of the scenario's kinds (e.g. one
// the code under test made up by cutting a name).
func c13KindOf(gvk schema.GroupVersionKind) int {
	if g, ok := c13KindIndex[gvk]; ok {
		return g
	}
	return -1
}

// c13Referenced is the set of kinds the XRs listed for a collector call reference: every well
// formed reference of every XR that exists, whatever state the XR is in.
func c13Referenced(xrs []c13XR) map[int]bool {
	out := map[int]bool{}
	for _, x := range xrs {
		for _, ref := range x.Refs {
			if ref.Bad == "" {
				out[ref.G] = true
			}
		}
	}
	return out
}

func c13Obj(g int) *unstructured.Unstructured {
	u := &unstructured.Unstructured{}
	u.SetGroupVersionKind(c13GVK(g))
	return u
}

// Controller names as the definition / offered reconcilers build them: 0 and 1 share everything
// after the slash, 0 is a string prefix of 2.
var c13Names = []string{"composite/xa.c13.example.org", "claim/xa.c13.example.org", "composite/xa.c13.example.org.eu"}

func c13Name(n int) string {
	if n >= 0 && n < len(c13Names) {
		return c13Names[n]
	}
	return "ctl-" + strconv.Itoa(n)
}

func c13NameOf(name string) int {
	for i, s := range c13Names {
		if s == name {
			return i
		}
	}
	n, err := strconv.Atoi(strings.TrimPrefix(name, "ctl-"))
	if err != nil {
		return -1
	}
	return n
}

// c13XRKind is the kind of the XRs controller n reconciles (what its collector lists): served
// as v1 for controller 0, as v2 for controller 1, in the second API group for controller 2.
func c13XRKind(n int) int { return 1000*(n%3) + 100 + n }

var c13WT = map[string]engine.WatchType{
	"claim":    engine.WatchTypeClaim,
	"xr":       engine.WatchTypeCompositeResource,
	"composed": engine.WatchTypeComposedResource,
	"rev":      engine.WatchTypeCompositionRevision,
}

func c13WTName(t engine.WatchType) string {
	for k, v := range c13WT {
		if v == t {
			return k
		}
	}
	return "?" + string(t)
}

// ---------------------------------------------------------------- goroutine introspection

func c13Goid() uint64 {
	var buf [64]byte
	n := runtime.Stack(buf[:], false)
	// "goroutine 123 [running]:"
	b := buf[:n]
	b = b[len("goroutine "):]
	i := bytes.IndexByte(b, ' ')
	id, _ := strconv.ParseUint(string(b[:i]), 10, 64)
	return id
}

// c13EngineBlocked returns the ids of goroutines that wait for a sync mutex
// acquired directly by code of package internal/engine.
func c13EngineBlocked(buf []byte) map[uint64]bool {
	out := map[uint64]bool{}
	for _, blk := range bytes.Split(buf, []byte("\n\n")) {
		lines := bytes.Split(blk, []byte("\n"))
		if len(lines) < 2 || !bytes.HasPrefix(lines[0], []byte("goroutine ")) {
			continue
		}
		h := lines[0][len("goroutine "):]
		sp := bytes.IndexByte(h, ' ')
		if sp < 0 {
			continue
		}
		id, err := strconv.ParseUint(string(h[:sp]), 10, 64)
		if err != nil {
			continue
		}
		st := h[sp+1:]
		// only the wait reasons of sync.Mutex / sync.RWMutex ("semacquire" is also the
		// runtime's own reason, e.g. an allocating goroutine waiting for a GC phase)
		if !bytes.HasPrefix(st, []byte("[sync.Mutex.Lock")) && !bytes.HasPrefix(st, []byte("[sync.RWMutex.")) {
			continue
		}
		if !bytes.HasPrefix(lines[1], []byte("sync.")) {
			continue
		}
		// frames: function line, then "\t file:line" line
		for k := 1; k < len(lines); k += 2 {
			fn := string(lines[k])
			if strings.HasPrefix(fn, "sync.") || strings.HasPrefix(fn, "runtime.") || strings.HasPrefix(fn, "internal/") {
				continue
			}
			if strings.HasPrefix(fn, "github.com/crossplane/crossplane/internal/engine.") {
				out[id] = true
			}
			break
		}
	}
	return out
}

// ---------------------------------------------------------------- run state

const (
	c13NotStarted = iota
	c13Running
	c13Parked
	c13Done
)

type c13Thread struct {
	idx     int
	op      c13Op
	goid    uint64
	state   int
	blocked bool // observed at the last quiescence
	hook    string
	release chan int // 0: proceed; k > 0: the call fails with an error of class k-1
	res     string
	curCid  int   // set by the fake controller's Watch
	fault   error // pending fault for the underlying fake cache (GetInformer)
	faults  int   // number of faults injected into this thread
	asked   []c13WidJ // what the collector asked StopWatches to stop, in its order
	listErr error // the collector's List of the XRs failed with this error (reset by the next List)
	listGVK string // what the collector's last List asked for, if it was not the XRs of its controller
	before  []string
	seen    bool // afterDone ran
	lastAI  map[int]bool // kinds ActiveInformers reported to this thread the last time it asked
}

type c13Reg struct {
	id  int
	g   int
	gen int
	cid int
	wt  string
	by  int // thread that registered it
}

func (*c13Reg) HasSynced() bool { return true }

type c13Informer struct {
	r       *c13Run
	g, gen  int
	by      int // thread whose GetInformer created it (-1: none of the scenario's)
	stopped bool
	regs    map[int]*c13Reg
}

type c13Ctl struct {
	kcontroller.Controller
	r       *c13Run
	cid, n  int
	started chan struct{}
	ctx     context.Context
}

type c13Run struct {
	mu      sync.Mutex
	th      []*c13Thread
	byGoid  map[uint64]*c13Thread
	infs    map[int]*c13Informer // the fake underlying cache: existing informers
	genN    int
	regN    int
	ctls    []*c13Ctl
	curOf   map[int]int // controller name -> cid created last
	mons    []Mon
	monSeen map[string]bool

	eng    *engine.ControllerEngine
	gcs    map[int]*watch.GarbageCollector // the long-lived collector of each controller name
	ghost  map[int]int                     // last acknowledged Start/Stop per name: 0 not running, 1 running, 2 unknown
	tinfs  *c13Infs
	events []c13Event
	branch []int // number of eligible threads at each round (for exhaustive enumeration)
	stack  []byte
	lastBlocked string
	free   bool // free-running mode (race-detector runs): parking points do not park
}

func (r *c13Run) mon(sig, why string) {
	// callers hold r.mu or run on the scheduler goroutine at quiescence
	if r.monSeen[sig] {
		return
	}
	r.monSeen[sig] = true
	r.mons = append(r.mons, Mon{Sig: sig, Why: why})
}

func (r *c13Run) self() *c13Thread {
	id := c13Goid()
	r.mu.Lock()
	defer r.mu.Unlock()
	return r.byGoid[id]
}

// park blocks the calling scenario thread until the scheduler releases it and
// returns the error the release injects (nil: none). Calls from any other goroutine (the
// scheduler's own observation calls) return immediately.
func (r *c13Run) park(kind string, arg int) error {
	if r.free {
		runtime.Gosched()
		return nil
	}
	t := r.self()
	if t == nil {
		return nil
	}
	r.mu.Lock()
	t.state = c13Parked
	t.hook = "p:" + kind + ":" + strconv.Itoa(arg)
	r.mu.Unlock()
	f := <-t.release
	if f > 0 {
		t.faults++
		return c13Err(f-1, kind)
	}
	return nil
}

var errC13 = errors.New("injected")

// c13TransportErr is a transport-level error: a net.Error that is Temporary() and a timeout.
type c13TransportErr struct{}

func (c13TransportErr) Error() string   { return "injected: connection reset by peer" }
func (c13TransportErr) Timeout() bool   { return true }
func (c13TransportErr) Temporary() bool { return true }

var _ net.Error = c13TransportErr{}

// The classes of error a call that leaves the engine can fail with. The engine, the sources and
// the collector treat them all alike (they return the error); every fault of a scenario names
// its class so that code that starts to branch on the class is exercised on each.
var c13ErrClasses = []string{"generic", "notfound", "conflict", "exists", "invalid", "forbidden", "nomatch", "transport", "deadline", "cancelled", "toomany"}

func c13Err(class int, where string) error {
	gr := schema.GroupResource{Group: c13Group, Resource: "things"}
	switch c13ErrClasses[class%len(c13ErrClasses)] {
	case "notfound":
		return kerrors.NewNotFound(gr, where)
	case "conflict":
		return kerrors.NewConflict(gr, where, errC13)
	case "exists":
		return kerrors.NewAlreadyExists(gr, where)
	case "invalid":
		return kerrors.NewInvalid(schema.GroupKind{Group: c13Group, Kind: "Thing"}, where, nil)
	case "forbidden":
		return kerrors.NewForbidden(gr, where, errC13)
	case "nomatch":
		return &kmeta.NoKindMatchError{GroupKind: schema.GroupKind{Group: c13Group, Kind: "Thing"}, SearchedVersions: []string{"v1"}}
	case "transport":
		return &net.OpError{Op: "read", Net: "tcp", Err: c13TransportErr{}}
	case "deadline":
		return context.DeadlineExceeded
	case "cancelled":
		return context.Canceled
	case "toomany":
		return kerrors.NewTooManyRequests("injected", 1)
	}
	return errC13
}

// ---------------------------------------------------------------- fakes

type c13Manager struct {
	manager.Manager
	elected chan struct{}
	scheme  *kruntime.Scheme
}

func (m *c13Manager) Elected() <-chan struct{}     { return m.elected }
func (m *c13Manager) GetScheme() *kruntime.Scheme { return m.scheme }

// the controller-runtime cache below engine.InformerTrackingCache
type c13Cache struct {
	cache.Cache
	r *c13Run
}

// informer returns the informer of a GVK, creating it if there is none: what every read entry
// point of a controller-runtime informer cache does (GetInformer, GetInformerForKind, Get, List).
func (c *c13Cache) informer(gvk schema.GroupVersionKind) (*c13Informer, error) {
	g := c13KindOf(gvk)
	t := c.r.self()
	c.r.mu.Lock()
	defer c.r.mu.Unlock()
	if t != nil && t.fault != nil {
		err := t.fault
		t.fault = nil
		return nil, err
	}
	if i, ok := c.r.infs[g]; ok {
		return i, nil
	}
	i := &c13Informer{r: c.r, g: g, gen: c.r.genN, by: -1, regs: map[int]*c13Reg{}}
	if t != nil {
		i.by = t.idx
	}
	c.r.genN++
	c.r.infs[g] = i
	return i, nil
}

func (c *c13Cache) GetInformer(_ context.Context, obj client.Object, _ ...cache.InformerGetOption) (cache.Informer, error) {
	i, err := c.informer(obj.GetObjectKind().GroupVersionKind())
	if err != nil {
		return nil, err
	}
	return i, nil
}

func (c *c13Cache) GetInformerForKind(_ context.Context, gvk schema.GroupVersionKind, _ ...cache.InformerGetOption) (cache.Informer, error) {
	i, err := c.informer(gvk)
	if err != nil {
		return nil, err
	}
	return i, nil
}

// Get starts the informer of the object's kind and finds nothing (the scenario's kinds have no objects).
func (c *c13Cache) Get(_ context.Context, key client.ObjectKey, obj client.Object, _ ...client.GetOption) error {
	if _, err := c.informer(obj.GetObjectKind().GroupVersionKind()); err != nil {
		return err
	}
	return nil
}

// List starts the informer of the ITEMS' kind: the list's kind minus one "List" suffix.
func (c *c13Cache) List(_ context.Context, l client.ObjectList, _ ...client.ListOption) error {
	gvk := l.GetObjectKind().GroupVersionKind()
	gvk.Kind = strings.TrimSuffix(gvk.Kind, "List")
	if _, err := c.informer(gvk); err != nil {
		return err
	}
	return nil
}

func (c *c13Cache) RemoveInformer(_ context.Context, obj client.Object) error {
	g := c13KindOf(obj.GetObjectKind().GroupVersionKind())
	c.r.mu.Lock()
	defer c.r.mu.Unlock()
	if i, ok := c.r.infs[g]; ok {
		i.stopped = true
		delete(c.r.infs, g)
	}
	return nil
}

// c13Infs is what the engine sees: the real tracking cache, each call preceded by a parking point.
type c13Infs struct {
	*engine.InformerTrackingCache
	r *c13Run
}

func (i *c13Infs) ActiveInformers() []schema.GroupVersionKind {
	i.r.park("AI", 0)
	out := i.InformerTrackingCache.ActiveInformers()
	if t := i.r.self(); t != nil {
		m := map[int]bool{}
		for _, gvk := range out {
			m[c13KindOf(gvk)] = true
		}
		i.r.mu.Lock()
		t.lastAI = m
		i.r.mu.Unlock()
	}
	return out
}

func (i *c13Infs) GetInformer(ctx context.Context, obj client.Object, opts ...cache.InformerGetOption) (cache.Informer, error) {
	g := c13KindOf(obj.GetObjectKind().GroupVersionKind())
	if err := i.r.park("GI", g); err != nil {
		// the real tracking cache runs (and marks the kind active); the cache below it fails
		if t := i.r.self(); t != nil {
			i.r.mu.Lock()
			t.fault = err
			i.r.mu.Unlock()
		}
	}
	return i.InformerTrackingCache.GetInformer(ctx, obj, opts...)
}

func (i *c13Infs) RemoveInformer(ctx context.Context, obj client.Object) error {
	i.r.park("RI", c13KindOf(obj.GetObjectKind().GroupVersionKind()))
	return i.InformerTrackingCache.RemoveInformer(ctx, obj)
}

// The three other entry points of the tracking cache that mark an informer active (op cacheRead).
func (i *c13Infs) parkRead(gvk schema.GroupVersionKind) {
	if err := i.r.park("CR", c13KindOf(gvk)); err != nil {
		// the real tracking cache runs (and marks the kind active); the cache below it fails
		if t := i.r.self(); t != nil {
			i.r.mu.Lock()
			t.fault = err
			i.r.mu.Unlock()
		}
	}
}

func (i *c13Infs) Get(ctx context.Context, key client.ObjectKey, obj client.Object, opts ...client.GetOption) error {
	i.parkRead(obj.GetObjectKind().GroupVersionKind())
	return i.InformerTrackingCache.Get(ctx, key, obj, opts...)
}

func (i *c13Infs) List(ctx context.Context, l client.ObjectList, opts ...client.ListOption) error {
	gvk := l.GetObjectKind().GroupVersionKind()
	gvk.Kind = strings.TrimSuffix(gvk.Kind, "List")
	i.parkRead(gvk)
	return i.InformerTrackingCache.List(ctx, l, opts...)
}

func (i *c13Infs) GetInformerForKind(ctx context.Context, gvk schema.GroupVersionKind, opts ...cache.InformerGetOption) (cache.Informer, error) {
	i.parkRead(gvk)
	return i.InformerTrackingCache.GetInformerForKind(ctx, gvk, opts...)
}

func (i *c13Informer) AddEventHandler(h toolscache.ResourceEventHandler) (toolscache.ResourceEventHandlerRegistration, error) {
	if err := i.r.park("AH", i.g); err != nil {
		return nil, err
	}
	// ask the handler who it is: deliver one synthetic add event
	probe := c13Obj(i.g)
	h.OnAdd(probe, false)
	wt := probe.GetAnnotations()["c13/wt"]
	t := i.r.self()
	i.r.mu.Lock()
	defer i.r.mu.Unlock()
	if i.stopped {
		// client-go: "handler ... was not added to shared informer because it has stopped already"
		return nil, errors.New("informer has stopped already")
	}
	reg := &c13Reg{id: i.r.regN, g: i.g, gen: i.gen, cid: -1, wt: wt, by: -1}
	if t != nil {
		reg.cid = t.curCid
		reg.by = t.idx
	}
	i.r.regN++
	i.regs[reg.id] = reg
	return reg, nil
}

func (i *c13Informer) AddEventHandlerWithResyncPeriod(h toolscache.ResourceEventHandler, _ time.Duration) (toolscache.ResourceEventHandlerRegistration, error) {
	return i.AddEventHandler(h)
}

func (i *c13Informer) RemoveEventHandler(handle toolscache.ResourceEventHandlerRegistration) error {
	reg, ok := handle.(*c13Reg)
	if !ok {
		return errors.New("invalid registration handle")
	}
	if err := i.r.park("RH", reg.id); err != nil {
		return err
	}
	i.r.mu.Lock()
	defer i.r.mu.Unlock()
	delete(i.regs, reg.id) // unknown handle: no-op, as client-go
	return nil
}

func (i *c13Informer) AddIndexers(toolscache.Indexers) error { return nil }
func (i *c13Informer) HasSynced() bool                       { return true }
func (i *c13Informer) IsStopped() bool {
	i.r.mu.Lock()
	defer i.r.mu.Unlock()
	return i.stopped
}

func (c *c13Ctl) Start(ctx context.Context) error {
	c.ctx = ctx
	close(c.started)
	<-ctx.Done()
	return nil
}

func (c *c13Ctl) Watch(src source.Source) error {
	if t := c.r.self(); t != nil {
		c.r.mu.Lock()
		t.curCid = c.cid
		c.r.mu.Unlock()
	}
	var q workqueue.TypedRateLimitingInterface[reconcile.Request]
	return src.Start(context.Background(), q)
}

func (r *c13Run) newController(name string, _ manager.Manager, _ kcontroller.Options) (kcontroller.Controller, error) {
	n := c13NameOf(name)
	if err := r.park("NC", n); err != nil {
		return nil, err
	}
	r.mu.Lock()
	defer r.mu.Unlock()
	c := &c13Ctl{r: r, cid: len(r.ctls), n: n, started: make(chan struct{})}
	r.ctls = append(r.ctls, c)
	r.curOf[n] = c.cid
	return c, nil
}

// the client the collector lists XRs with
type c13Client struct {
	client.Client
	r *c13Run
}

func (c *c13Client) List(_ context.Context, l client.ObjectList, opts ...client.ListOption) error {
	t := c.r.self()
	err := c.r.park("LS", 0)
	if t != nil {
		c.r.mu.Lock()
		t.listErr = err
		t.listGVK = ""
		c.r.mu.Unlock()
	}
	if err != nil {
		return err
	}
	ul, ok := l.(*unstructured.UnstructuredList)
	if !ok || t == nil {
		return nil
	}
	// The API server serves what was asked for: the XRs of the collector's controller under
	// <apiVersion of the XR kind>/<Kind>List; under any other group, version or kind the XRs of
	// some other composite kind (op.Oxrs); and only those a namespace or selector option admits
	// (XRs are cluster scoped and the scenario's carry no labels).
	xrs := t.op.Xrs
	want := c13GVK(c13XRKind(t.op.N))
	got := ul.GroupVersionKind()
	got.Kind = strings.TrimSuffix(got.Kind, "List") // clients accept the list kind with and without the suffix
	if got != want {
		xrs = t.op.Oxrs
		c.r.mu.Lock()
		t.listGVK = got.String()
		c.r.mon("C13:gc-listed-wrong-kind", fmt.Sprintf("the collector of controller %d (XR kind %s) listed %s", t.op.N, want, got))
		c.r.mu.Unlock()
	}
	lo := &client.ListOptions{}
	lo.ApplyOptions(opts)
	if lo.Namespace != "" || (lo.LabelSelector != nil && !lo.LabelSelector.Empty()) || (lo.FieldSelector != nil && !lo.FieldSelector.Empty()) {
		xrs = nil
	}
	for i, x := range xrs {
		xr := ucomposite.New()
		item := ul.GroupVersionKind()
		item.Kind = strings.TrimSuffix(item.Kind, "List")
		xr.SetGroupVersionKind(item)
		xr.SetName("xr-" + strconv.Itoa(i))
		refs := []corev1.ObjectReference{}
		for j, ref := range x.Refs {
			gvk := c13GVK(ref.G)
			av, kind := gvk.GroupVersion().String(), gvk.Kind
			switch ref.Bad {
			case "nokind":
				kind = ""
			case "noapi":
				av = ""
			}
			refs = append(refs, corev1.ObjectReference{APIVersion: av, Kind: kind, Name: "r-" + strconv.Itoa(j)})
		}
		xr.SetResourceReferences(refs)
		if x.Del {
			// deleted, still there: a finalizer is pending (foreground deletion, slow composed resources, a Usage)
			ts := metav1.NewTime(time.Unix(1700000000, 0))
			xr.SetDeletionTimestamp(&ts)
			xr.SetFinalizers([]string{"composite.apiextensions.crossplane.io"})
		}
		if x.Paused {
			xr.SetAnnotations(map[string]string{"crossplane.io/paused": "true"})
		}
		if !x.NoComp {
			xr.SetCompositionReference(&corev1.ObjectReference{Name: "comp"})
		}
		if x.Rev > 0 {
			xr.SetCompositionRevisionReference(&corev1.LocalObjectReference{Name: "rev-" + strconv.Itoa(x.Rev)})
		}
		if x.NotReady {
			xr.SetConditions(xpv1.Creating())
		} else {
			xr.SetConditions(xpv1.Available())
		}
		if x.Unsynced {
			xr.SetConditions(xpv1.ReconcileError(errC13))
		} else {
			xr.SetConditions(xpv1.ReconcileSuccess())
		}
		ul.Items = append(ul.Items, xr.Unstructured)
	}
	return nil
}

// what the collector talks to: the real engine, observed. One per collector, i.e. long-lived:
// the thread that runs the collector is looked up per call.
type c13GCEngine struct {
	*engine.ControllerEngine
	r *c13Run
}

func (g *c13GCEngine) StopWatches(ctx context.Context, name string, ws ...engine.WatchID) (int, error) {
	if t := g.r.self(); t != nil && t.op.Op == "gc" {
		g.r.mu.Lock()
		if t.listErr != nil {
			g.r.mon("C13:gc-stopped-after-failed-list", fmt.Sprintf("the List of the XRs failed (%v) and GarbageCollectWatchesNow still asked StopWatches(%s) to stop %v: it has not seen which kinds the XRs reference", t.listErr, name, c13WatchesStr(ws)))
		}
		refd := c13Referenced(t.op.Xrs)
		t.asked = nil
		for _, w := range ws {
			k := c13KindOf(w.GVK)
			t.asked = append(t.asked, c13WidJ{T: c13WTName(w.Type), G: k})
			if w.Type != engine.WatchTypeComposedResource {
				g.r.mon("C13:gc-stopped-non-composed-watch", fmt.Sprintf("GarbageCollectWatchesNow asked StopWatches(%s) to stop the %s watch on kind %d", name, w.Type, k))
			} else if refd[k] {
				g.r.mon("C13:gc-stopped-referenced-watch", fmt.Sprintf("GarbageCollectWatchesNow asked to stop the composed-resource watch on kind %d (%s) which an XR (one of %s) still references", k, w.GVK, mustJSON(t.op.Xrs)))
			}
		}
		if name != c13Name(t.op.N) {
			g.r.mon("C13:gc-stopped-other-controllers-watch", fmt.Sprintf("the collector of controller %q asked to stop watches of controller %q", c13Name(t.op.N), name))
		}
		g.r.mu.Unlock()
	}
	return g.ControllerEngine.StopWatches(ctx, name, ws...)
}

// collector returns the watch garbage collector of controller n: built once per run, as the
// definition reconciler builds one per started controller, and used for every collection.
func (r *c13Run) collector(n int) *watch.GarbageCollector {
	r.mu.Lock()
	defer r.mu.Unlock()
	if gc, ok := r.gcs[n]; ok {
		return gc
	}
	gc := watch.NewGarbageCollector(c13Name(n), resource.CompositeKind(c13GVK(c13XRKind(n))), &c13GCEngine{ControllerEngine: r.eng, r: r})
	r.gcs[n] = gc
	return gc
}

// ---------------------------------------------------------------- executing one op on the real code

func c13WidStr(t string, g int) string { return t + "/" + strconv.Itoa(g) }

func c13WatchesStr(ws []engine.WatchID) []string {
	out := []string{}
	for _, w := range ws {
		out = append(out, c13WidStr(c13WTName(w.Type), c13KindOf(w.GVK)))
	}
	sort.Strings(out)
	return out
}

func c13ErrStr(err error) string {
	if err == nil {
		return "ok"
	}
	if strings.Contains(err.Error(), "is not running") {
		return "notRunning"
	}
	return "err"
}

func (r *c13Run) exec(t *c13Thread) string {
	ctx := context.Background()
	op := t.op
	switch op.Op {
	case "start":
		return c13ErrStr(r.eng.Start(c13Name(op.N), engine.WithNewControllerFn(r.newController)))
	case "stop":
		return c13ErrStr(r.eng.Stop(ctx, c13Name(op.N)))
	case "isRunning":
		return strconv.FormatBool(r.eng.IsRunning(c13Name(op.N)))
	case "startWatches":
		ws := []engine.Watch{}
		for _, w := range op.Ws {
			wt := w.T
			h := handler.Funcs{CreateFunc: func(_ context.Context, e event.CreateEvent, _ workqueue.TypedRateLimitingInterface[reconcile.Request]) {
				e.Object.SetAnnotations(map[string]string{"c13/wt": wt})
			}}
			ws = append(ws, engine.WatchFor(c13Obj(w.G), c13WT[w.T], h))
		}
		return c13ErrStr(r.eng.StartWatches(c13Name(op.N), ws...))
	case "stopWatches":
		ws := []engine.WatchID{}
		for _, w := range op.Ws {
			ws = append(ws, engine.WatchID{Type: c13WT[w.T], GVK: c13GVK(w.G)})
		}
		k, err := r.eng.StopWatches(ctx, c13Name(op.N), ws...)
		if s := c13ErrStr(err); s == "notRunning" {
			return s
		} else {
			return strconv.Itoa(k) + ":" + s
		}
	case "getWatches":
		ws, err := r.eng.GetWatches(c13Name(op.N))
		if err != nil {
			return c13ErrStr(err)
		}
		return "w:" + strings.Join(c13WatchesStr(ws), ",")
	case "gc":
		if err := r.collector(op.N).GarbageCollectWatchesNow(ctx); err != nil {
			return "err"
		}
		return "ok"
	case "removeInformer":
		if err := r.tinfs.RemoveInformer(ctx, c13Obj(op.G)); err != nil {
			return "err"
		}
		return "ok"
	case "cacheRead":
		// some reader goes through the tracking cache: Get of an object, List (under the kind of the
		// LIST type, "<Kind>List"), or GetInformerForKind; each marks the informer of the kind active
		var err error
		switch op.Via {
		case "list":
			ul := &unstructured.UnstructuredList{}
			gvk := c13GVK(op.G)
			gvk.Kind += "List"
			ul.SetGroupVersionKind(gvk)
			err = r.tinfs.List(ctx, ul)
		case "forkind":
			_, err = r.tinfs.GetInformerForKind(ctx, c13GVK(op.G))
		default:
			err = r.tinfs.Get(ctx, client.ObjectKey{Name: "x"}, c13Obj(op.G))
		}
		if err != nil {
			return "err"
		}
		return "ok"
	}
	return "badop"
}

// ---------------------------------------------------------------- scheduler

func c13NewRun(ops []c13Op) *c13Run {
	r := &c13Run{byGoid: map[uint64]*c13Thread{}, infs: map[int]*c13Informer{}, curOf: map[int]int{}, monSeen: map[string]bool{},
		gcs: map[int]*watch.GarbageCollector{}, ghost: map[int]int{}}
	for i, op := range ops {
		r.th = append(r.th, &c13Thread{idx: i, op: op, release: make(chan int), curCid: -1})
	}
	scheme := kruntime.NewScheme()
	el := make(chan struct{})
	close(el)
	mgr := &c13Manager{elected: el, scheme: scheme}
	r.tinfs = &c13Infs{InformerTrackingCache: engine.TrackInformers(&c13Cache{r: r}, scheme), r: r}
	cl := &c13Client{r: r}
	r.eng = engine.New(mgr, r.tinfs, cl, cl)
	r.stack = make([]byte, 1<<18)
	return r
}

func (r *c13Run) status() []string {
	out := make([]string, len(r.th))
	for i, t := range r.th {
		switch t.state {
		case c13NotStarted:
			out[i] = "n"
		case c13Parked:
			out[i] = t.hook
		case c13Done:
			out[i] = "d"
		default:
			out[i] = "b"
		}
	}
	return out
}

// settle waits until every thread is not started, parked, done, or blocked on an engine mutex.
func (r *c13Run) settle() {
	for spin := 0; ; spin++ {
		r.mu.Lock()
		var run []*c13Thread
		for _, t := range r.th {
			if t.state == c13Running {
				run = append(run, t)
			}
		}
		r.mu.Unlock()
		if len(run) == 0 {
			return
		}
		if spin%32 == 31 {
			// `run` was read before the dump: a thread that finished or parked in between is
			// simply not reported as blocked, and we go round again
			for {
				n := runtime.Stack(r.stack, true)
				if n < len(r.stack) {
					blocked := c13EngineBlocked(r.stack[:n])
					all := true
					r.mu.Lock()
					for _, t := range run {
						if !(t.goid != 0 && blocked[t.goid]) {
							all = false
						}
					}
					r.mu.Unlock()
					if all {
						r.lastBlocked = string(r.stack[:n])
						return
					}
					break
				}
				r.stack = make([]byte, 2*len(r.stack))
			}
		}
		runtime.Gosched()
	}
}

func (r *c13Run) eligible() []int {
	minPhase := -1
	for _, t := range r.th {
		if t.state != c13Done && (minPhase < 0 || t.op.Phase < minPhase) {
			minPhase = t.op.Phase
		}
	}
	var out []int
	for _, t := range r.th {
		if t.state == c13Parked || (t.state == c13NotStarted && t.op.Phase == minPhase) {
			out = append(out, t.idx)
		}
	}
	return out
}

func (r *c13Run) allDone() bool {
	for _, t := range r.th {
		if t.state != c13Done {
			return false
		}
	}
	return true
}

// alone reports whether thread t is the only thread of its phase.
func (r *c13Run) alone(t *c13Thread) bool {
	for _, u := range r.th {
		if u != t && u.op.Phase == t.op.Phase {
			return false
		}
	}
	return true
}

// liveRegs returns the registrations on existing informers (caller holds r.mu or is at quiescence).
func (r *c13Run) liveRegs() []*c13Reg {
	var out []*c13Reg
	for _, i := range r.infs {
		for _, reg := range i.regs {
			out = append(out, reg)
		}
	}
	sort.Slice(out, func(a, b int) bool { return out[a].id < out[b].id })
	return out
}

// run executes the scenario under the scheduling script. script[k] selects the thread of
// round k among the eligible ones (value mod 1000, mod count); a value >= 1000 also makes the
// call the thread is parked at fail, with an error of class (value/1000 - 1) of c13ErrClasses.
func (r *c13Run) run(script []int, maxRounds int) (deadlock bool) {
	ghostRunning := r.ghost
	for round := 0; ; round++ {
		if r.allDone() {
			return false
		}
		el := r.eligible()
		if len(el) == 0 || round >= maxRounds {
			n := runtime.Stack(r.stack, true)
			why := fmt.Sprintf("no thread can be released after %d rounds; states %v", round, r.status())
			for _, blk := range strings.Split(string(r.stack[:n]), "\n\n") {
				for _, t := range r.th {
					if t.state == c13Running && strings.HasPrefix(blk, "goroutine "+strconv.FormatUint(t.goid, 10)+" ") {
						why += "\n" + blk
					}
				}
			}
			why += "\n--- dump at the last blocked verdict\n" + r.lastBlocked
			r.mon("C13:deadlock", why)
			return true
		}
		v := 0
		if round < len(script) {
			v = script[round]
		}
		fault := v >= 1000
		fcls := 0
		if fault {
			fcls = (v/1000 - 1) % len(c13ErrClasses)
		}
		t := r.th[el[(v%1000)%len(el)]]
		r.branch = append(r.branch, len(el))
		r.mu.Lock()
		wasNew := t.state == c13NotStarted
		t.state = c13Running
		r.mu.Unlock()
		if wasNew {
			fault, fcls = false, 0
			if r.alone(t) && (t.op.Op == "gc") {
				ws, _ := r.eng.GetWatches(c13Name(t.op.N))
				t.before = c13WatchesStr(ws)
			}
			go func() {
				id := c13Goid()
				r.mu.Lock()
				t.goid = id
				r.byGoid[id] = t
				r.mu.Unlock()
				var res string
				if p := Guard(func() { res = r.exec(t) }); p != "" {
					res = "panic"
					r.mu.Lock()
					r.mon("C13:panic", p)
					r.mu.Unlock()
				}
				r.mu.Lock()
				t.res = res
				delete(r.byGoid, id)
				t.state = c13Done
				r.mu.Unlock()
			}()
		} else if fault {
			t.release <- fcls + 1
		} else {
			t.release <- 0
		}
		r.settle()
		r.mu.Lock()
		st := r.status()
		r.events = append(r.events, c13Event{T: t.idx, F: fault, Fc: fcls, St: st})
		// ---- monitors evaluated at every quiescent point
		type key struct {
			cid, g int
			wt     string
		}
		seen := map[key]int{}
		for _, reg := range r.liveRegs() {
			k := key{reg.cid, reg.g, reg.wt}
			seen[k]++
			if seen[k] == 2 {
				r.mon("C13:duplicate-registration", fmt.Sprintf("controller object %d has two live %s handler registrations on the informer of kind %d", reg.cid, reg.wt, reg.g))
			}
			// Stop cancels the controller after it removed the last handler, under both locks: from
			// the moment the context is cancelled on, no live handler belongs to that controller object
			if reg.cid >= 0 && reg.cid < len(r.ctls) && r.ctls[reg.cid].isCancelled() {
				r.mon("C13:registration-after-stop", fmt.Sprintf("controller object %d (name %d) was stopped and cancelled but has a live %s handler on the informer of kind %d (round %d)", reg.cid, r.ctls[reg.cid].n, reg.wt, reg.g, round))
			}
		}
		idle := true
		for _, u := range r.th {
			if u.state == c13Parked || u.state == c13Running {
				idle = false
			}
		}
		r.mu.Unlock()
		// Start/Stop calls on one name that finished in the same round: their order is not
		// observable, so the ghost flag of that name is unknown until the next acknowledged call
		fin := map[int]int{}
		for _, u := range r.th {
			if u.state == c13Done && !u.seen && (u.op.Op == "start" || u.op.Op == "stop") {
				fin[u.op.N]++
			}
		}
		for _, u := range r.th {
			if u.state == c13Done && !u.seen {
				u.seen = true
				r.afterDone(u, ghostRunning)
			}
		}
		for n, k := range fin {
			if k > 1 {
				ghostRunning[n] = 2
			}
		}
		if idle {
			// no call is in flight (a phase boundary): the engine's locks are free, ask it
			r.checkAtRest(fmt.Sprintf("after round %d", round))
		}
	}
}

func (c *c13Ctl) isCancelled() bool {
	select {
	case <-c.started:
		return c.ctx.Err() != nil
	default:
		return false
	}
}

// checkAtRest evaluates, while no engine call is in flight, the clauses that relate what the
// engine reports (IsRunning, GetWatches) to the ground truth the fakes hold (contexts, handler
// registrations) and to the acknowledged Start/Stop calls.
func (r *c13Run) checkAtRest(when string) {
	names := map[int]bool{}
	for _, t := range r.th {
		if t.op.Op != "removeInformer" && t.op.Op != "cacheRead" {
			names[t.op.N] = true
		}
	}
	running := map[int]bool{}
	watches := map[int]map[string]bool{}
	for n := range names {
		running[n] = r.eng.IsRunning(c13Name(n))
		if g := r.ghost[n]; g != 2 && running[n] != (g == 1) {
			r.mon("C13:isrunning-mismatch", fmt.Sprintf("%s: IsRunning(%d) = %v but the last acknowledged Start/Stop says %v", when, n, running[n], g == 1))
		}
		if running[n] {
			if ws, err := r.eng.GetWatches(c13Name(n)); err == nil {
				watches[n] = map[string]bool{}
				for _, x := range c13WatchesStr(ws) {
					watches[n][x] = true
				}
			}
		}
	}
	r.mu.Lock()
	defer r.mu.Unlock()
	liveOf := map[int]int{} // name -> number of controller objects not cancelled
	for _, c := range r.ctls {
		select {
		case <-c.started:
		default:
			continue // the engine's goroutine has not called Start yet
		}
		if c.ctx.Err() == nil {
			liveOf[c.n]++
			if !running[c.n] {
				r.mon("C13:not-cancelled-after-stop", fmt.Sprintf("%s: controller %d (object %d) is not running but was never cancelled", when, c.n, c.cid))
			}
		}
	}
	for n, k := range liveOf {
		if k > 1 {
			r.mon("C13:controller-leaked", fmt.Sprintf("%s: %d controller objects of name %d are not cancelled", when, k, n))
		}
	}
	for _, reg := range r.liveRegs() {
		if reg.cid < 0 || reg.cid >= len(r.ctls) {
			continue
		}
		c := r.ctls[reg.cid]
		if !c.isCancelled() && running[c.n] && watches[c.n] != nil && !watches[c.n][c13WidStr(reg.wt, reg.g)] {
			r.mon("C13:orphan-registration", fmt.Sprintf("%s: controller %d has a live %s handler on kind %d that GetWatches does not list", when, c.n, reg.wt, reg.g))
		}
	}
}

// afterDone evaluates the sequential clauses for a thread that ran alone in its phase, and
// keeps the ghost "running" flag (last acknowledged Start/Stop).
func (r *c13Run) afterDone(t *c13Thread, ghost map[int]int) {
	op := t.op
	switch op.Op {
	case "start":
		if t.res == "ok" {
			ghost[op.N] = 1
		}
	case "stop":
		if t.res == "ok" {
			ghost[op.N] = 0
		}
	}
	if !r.alone(t) {
		return
	}
	switch op.Op {
	case "isRunning":
		if ghost[op.N] != 2 && t.res != strconv.FormatBool(ghost[op.N] == 1) {
			r.mon("C13:isrunning-mismatch", fmt.Sprintf("IsRunning(%d) = %s but the last acknowledged Start/Stop says %v", op.N, t.res, ghost[op.N] == 1))
		}
	case "startWatches":
		if t.res != "ok" {
			return
		}
		cid, ok := r.curOf[op.N]
		if !ok {
			return
		}
		for _, w := range op.Ws {
			found := false
			for _, reg := range r.liveRegs() {
				if reg.cid == cid && reg.g == w.G && reg.wt == w.T {
					found = true
				}
			}
			if !found {
				// did this very call re-create the informer for an EARLIER entry of ws and then skip w,
				// although the kind was not active when it asked? (otherwise the skip is D13's: the
				// kind was reported active while the source's handler was dead)
				earlier := false
				if inf, ok := r.infs[w.G]; ok && inf.by == t.idx && !t.lastAI[w.G] {
					for _, w0 := range op.Ws {
						if w0 == w {
							break
						}
						for _, reg := range inf.regs {
							if reg.by == t.idx && reg.wt == w0.T && reg.g == w0.G {
								earlier = true
							}
						}
					}
				}
				switch {
				case earlier:
					// this very call re-created the informer (for another watch on the same kind) and then skipped this watch
					r.mon("C13:watch-skipped-by-restarting-call", fmt.Sprintf("StartWatches(%d, ...) restarted the informer of kind %d for one watch and returned nil without a handler for %s/%d", op.N, w.G, w.T, w.G))
				case !t.lastAI[w.G]:
					// the tracking cache told this call that the informer of exactly this GVK is not active
					// (or the call never asked) and the call still did not start the watch
					r.mon("C13:watch-not-started", fmt.Sprintf("StartWatches(%d, %s/%d = %s) returned nil, the informer of that kind was not reported active (reported: %v) and the controller has no handler for the watch", op.N, w.T, w.G, c13GVK(w.G), t.lastAI))
				default:
					r.mon("C13:lost-watch-not-restarted", fmt.Sprintf("StartWatches(%d, %s/%d) returned nil but the controller has no handler on the existing informer of kind %d", op.N, w.T, w.G, w.G))
				}
			}
		}
	case "removeInformer", "cacheRead":
		// The tracking cache's `active` set is what StartWatches decides on: a kind that stays
		// active after its informer was removed is never restarted (and would show under the
		// known signature of D13); a kind that is not active after a read through the cache is
		// restarted although its informer and handlers are alive (a second handler). The call
		// ran alone: nothing else touched the cache since.
		active := false
		for _, gvk := range r.tinfs.InformerTrackingCache.ActiveInformers() {
			if c13KindOf(gvk) == op.G {
				active = true
			}
		}
		r.mu.Lock()
		_, live := r.infs[op.G]
		r.mu.Unlock()
		if op.Op == "removeInformer" && t.res == "ok" {
			if active {
				r.mon("C13:removed-informer-still-active", fmt.Sprintf("RemoveInformer(kind %d = %s) returned nil and ActiveInformers still lists the kind: the next StartWatches will not restart its watches", op.G, c13GVK(op.G)))
			}
			if live {
				r.mon("C13:removed-informer-still-live", fmt.Sprintf("RemoveInformer(kind %d = %s) returned nil and the informer still exists in the wrapped cache", op.G, c13GVK(op.G)))
			}
		}
		if op.Op == "cacheRead" && !active {
			// (also after a failing read: cache.go marks the kind before it calls the wrapped cache)
			r.mon("C13:read-informer-not-active", fmt.Sprintf("%s of kind %d = %s through the tracking cache (result %s) and ActiveInformers does not list the kind", op.Via, op.G, c13GVK(op.G), t.res))
		}
	case "gc":
		if t.res != "ok" || t.faults > 0 {
			return
		}
		ws, err := r.eng.GetWatches(c13Name(op.N))
		if err != nil {
			return
		}
		after := map[string]bool{}
		for _, s := range c13WatchesStr(ws) {
			after[s] = true
		}
		refd := c13Referenced(op.Xrs)
		for _, s := range t.before {
			parts := strings.Split(s, "/")
			g, _ := strconv.Atoi(parts[1])
			should := parts[0] == "composed" && !refd[g]
			if should && after[s] {
				r.mon("C13:gc-kept-unreferenced-watch", "after GarbageCollectWatchesNow the composed-resource watch "+s+" that no XR references still runs")
			}
			if !should && !after[s] {
				r.mon("C13:gc-wrong-set", "GarbageCollectWatchesNow stopped watch "+s+" (XRs "+mustJSON(op.Xrs)+")")
			}
		}
	}
}

// runFree runs the phases one after the other, the calls of a phase as free-running
// goroutines (supporting evidence under the race detector only; nothing is compared).
func (r *c13Run) runFree() {
	r.free = true
	phases := map[int][]*c13Thread{}
	var order []int
	for _, t := range r.th {
		if _, ok := phases[t.op.Phase]; !ok {
			order = append(order, t.op.Phase)
		}
		phases[t.op.Phase] = append(phases[t.op.Phase], t)
	}
	sort.Ints(order)
	for _, p := range order {
		var wg sync.WaitGroup
		for _, t := range phases[p] {
			wg.Add(1)
			t := t
			go func() {
				defer wg.Done()
				id := c13Goid()
				r.mu.Lock()
				t.goid = id
				r.byGoid[id] = t
				r.mu.Unlock()
				_ = Guard(func() { t.res = r.exec(t) })
				r.mu.Lock()
				delete(r.byGoid, id)
				t.state = c13Done
				r.mu.Unlock()
			}()
		}
		wg.Wait()
	}
}

// observe builds the canonical observation at quiescence (all threads done) and runs the
// end-of-run monitors.
func (r *c13Run) observe(names int, deadlock bool) c13Obs {
	o := c13Obs{Res: []string{}, Running: []int{}, Watches: []c13NW{}, Regs: []string{}, Tracked: []int{}, Live: []int{}, Cancelled: []int{}, Deadlock: deadlock}
	for _, t := range r.th {
		o.Res = append(o.Res, t.res)
	}
	if deadlock {
		return o
	}
	watches := map[int]map[string]bool{}
	for n := 0; n < names; n++ {
		if r.eng.IsRunning(c13Name(n)) {
			o.Running = append(o.Running, n)
			ws, err := r.eng.GetWatches(c13Name(n))
			if err == nil {
				s := c13WatchesStr(ws)
				o.Watches = append(o.Watches, c13NW{N: n, W: s})
				watches[n] = map[string]bool{}
				for _, x := range s {
					watches[n][x] = true
				}
			}
		}
	}
	for _, gvk := range r.tinfs.InformerTrackingCache.ActiveInformers() {
		o.Tracked = append(o.Tracked, c13KindOf(gvk))
	}
	sort.Ints(o.Tracked)
	r.mu.Lock()
	for g := range r.infs {
		o.Live = append(o.Live, g)
	}
	regs := r.liveRegs()
	r.mu.Unlock()
	sort.Ints(o.Live)
	for _, reg := range regs {
		o.Regs = append(o.Regs, fmt.Sprintf("k%d/c%d/%s", reg.g, reg.cid, reg.wt))
	}
	sort.Strings(o.Regs)
	cancelled := map[int]bool{}
	for _, c := range r.ctls {
		select {
		case <-c.started:
		case <-time.After(10 * time.Second): // guard only: the engine's goroutine calls Start as soon as it is scheduled
			r.mon("C13:controller-never-started", fmt.Sprintf("controller object %d was never started", c.cid))
			continue
		}
		if c.ctx.Err() != nil {
			cancelled[c.cid] = true
			o.Cancelled = append(o.Cancelled, c.cid)
		}
	}
	// ---- end-of-run monitors
	running := map[int]bool{}
	for _, n := range o.Running {
		running[n] = true
	}
	liveOf := map[int]int{} // name -> number of controller objects not cancelled
	for _, c := range r.ctls {
		if !cancelled[c.cid] {
			liveOf[c.n]++
			if !running[c.n] {
				r.mon("C13:not-cancelled-after-stop", fmt.Sprintf("controller %d (object %d) is not running but was never cancelled", c.n, c.cid))
			}
		}
	}
	for n, k := range liveOf {
		if k > 1 {
			r.mon("C13:controller-leaked", fmt.Sprintf("%d controller objects of name %d are not cancelled", k, n))
		}
	}
	for n := range running {
		if liveOf[n] == 0 {
			r.mon("C13:cancelled-while-running", fmt.Sprintf("controller %d is reported running but its context is cancelled", n))
		}
	}
	for _, reg := range regs {
		if reg.cid < 0 || reg.cid >= len(r.ctls) {
			continue
		}
		c := r.ctls[reg.cid]
		if cancelled[reg.cid] {
			r.mon("C13:registration-after-stop", fmt.Sprintf("controller object %d (name %d) was stopped and cancelled but still has a %s handler on the informer of kind %d", reg.cid, c.n, reg.wt, reg.g))
		} else if running[c.n] && !watches[c.n][c13WidStr(reg.wt, reg.g)] {
			r.mon("C13:orphan-registration", fmt.Sprintf("controller %d has a live %s handler on kind %d that GetWatches does not list", c.n, reg.wt, reg.g))
		}
	}
	return o
}

// cleanup stops what still runs so that the engine's goroutines end.
func (r *c13Run) cleanup(names int) {
	for n := 0; n < names; n++ {
		_ = r.eng.Stop(context.Background(), c13Name(n))
	}
	for _, c := range r.ctls {
		_ = c
	}
}

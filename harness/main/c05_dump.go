//go:build verif

package main

// C05 regenerated facts (tie "a"): the ordered call skeletons of every Go function the C05
// models mirror, extracted with go/ast (skel.go) from the CURRENT source tree on every check
// run into lean/Xp/Gen/C05Skel.lean. lean/Xp/Props/C05.lean states that the skeleton declared
// next to the model definitions equals the regenerated one (`skeleton_*`, by decide), so
// inserting, removing or reordering a condition-relevant call in one of these functions breaks
// an obligation before any scenario is run.

import "strings"

const (
	c05DirComposite = "internal/controller/apiextensions/composite/"
	c05DirClaim     = "internal/controller/apiextensions/claim/"
)

// the calls that compute, read or store conditions
var c05CondVerbs = []string{"SetConditions", "ReconcileError", "ReconcileSuccess", "ReconcilePaused", "Deleting",
	"Available", "Creating", "GetCondition", "GetConditions", "IsSystemConditionType", "IsConditionTrue",
	"SetClaimConditionTypes", "GetClaimConditionTypes"}

func c05Verbs(extra ...string) map[string]bool {
	return SkelVerbs(append(append([]string{}, c05CondVerbs...), extra...)...)
}

func c05Idents(names ...string) map[string]bool {
	m := map[string]bool{}
	for _, n := range names {
		m[n] = true
	}
	return m
}

func init() {
	RegisterDump("C05Skel", func() string {
		var sb strings.Builder
		rec := c05DirComposite + "reconciler.go"
		fnc := c05DirComposite + "composition_functions.go"
		ptc := c05DirComposite + "composition_pt.go"
		rdy := c05DirComposite + "ready.go"
		clm := c05DirClaim + "reconciler.go"

		// composite Reconciler.Reconcile: every phase call, every error-class test, every condition
		// written and every status update
		sb.WriteString(SkelDef("c05SkelReconcile", rec, "Reconciler", "Reconcile", SkelOpts{
			Verbs: c05Verbs("IsPaused", "WasDeleted", "UnpublishConnection", "RemoveFinalizer", "AddFinalizer",
				"SelectComposition", "Fetch", "Validate", "Configure", "Compose", "StartWatches", "PublishConnection",
				"handleCommonCompositionResult", "IsConflict", "IsInvalid"),
			DropRecv: true, Idents: c05Idents("updateXRConditions")}))
		sb.WriteString(SkelDef("c05SkelUpdateXRConditions", rec, "", "updateXRConditions", SkelOpts{Verbs: c05Verbs()}))
		sb.WriteString(SkelDef("c05SkelHandleCommon", rec, "Reconciler", "handleCommonCompositionResult", SkelOpts{
			Verbs: c05Verbs(), DropRecv: true, Idents: c05Idents("getClaimFromXR")}))

		// FunctionComposer.Compose: every call that can fail, the response fields it reads, the applies
		sb.WriteString(SkelDef("c05SkelFnCompose", fnc, "FunctionComposer", "Compose", SkelOpts{
			Verbs: c05Verbs("ObserveComposedResources", "FetchConnection", "RunFunction", "GetResults", "GetSeverity",
				"GetStatus", "GetDesired", "GetReady", "GetResources", "GetComposite", "GenerateName",
				"GarbageCollectComposedResources", "Upgrade", "IsInvalid"),
			DropRecv: true,
			Idents:   c05Idents("removeSystemConditions", "AsState", "FromStruct", "UpdateResourceRefs", "RenderComposedResourceMetadata", "convertTarget")}))
		sb.WriteString(SkelDef("c05SkelRemoveSystemConditions", fnc, "", "removeSystemConditions", SkelOpts{
			Verbs: c05Verbs(), Idents: c05Idents("delete")}))

		// PTComposer.Compose
		sb.WriteString(SkelDef("c05SkelPTCompose", ptc, "PTComposer", "Compose", SkelOpts{
			Verbs:    SkelVerbs("AssociateTemplates", "GenerateName", "SetResourceReferences", "IsInvalid", "FetchConnection", "ExtractConnection", "IsReady"),
			DropRecv: true,
			Idents: c05Idents("ComposedTemplates", "RenderFromJSON", "RenderFromCompositePatches", "RenderComposedResourceMetadata",
				"RenderToCompositePatches", "ReadinessChecksFromComposedTemplate", "toXRPatchesFromTAs")}))

		// ready.go
		sb.WriteString(SkelDef("c05SkelIsReady", rdy, "", "IsReady", SkelOpts{
			Verbs: SkelVerbs("IsConditionTrue", "GetCondition", "PaveObject", "IsReady"), Returns: true}))
		sb.WriteString(SkelDef("c05SkelCheckIsReady", rdy, "ReadinessCheck", "IsReady", SkelOpts{
			Verbs: SkelVerbs("Validate", "GetValue", "GetString", "GetInteger", "GetBool", "GetCondition", "Ignore"), DropRecv: true, Returns: true}))
		sb.WriteString(SkelDef("c05SkelCheckValidate", rdy, "ReadinessCheck", "Validate", SkelOpts{
			Verbs: SkelVerbs("Errorf"), Returns: true}))
		sb.WriteString(SkelDef("c05SkelCheckFromV1", rdy, "", "ReadinessCheckFromV1", SkelOpts{
			Verbs: SkelVerbs("To"), Returns: true}))
		sb.WriteString(SkelDef("c05SkelChecksFromTemplate", rdy, "", "ReadinessChecksFromComposedTemplate", SkelOpts{
			Verbs: SkelVerbs(), Idents: c05Idents("ReadinessCheckFromV1")}))

		// claim Reconciler.Reconcile, condition-centred (C06 ties its API calls)
		sb.WriteString(SkelDef("c05SkelClaimReconcile", clm, "Reconciler", "Reconcile", SkelOpts{
			Verbs: c05Verbs("IsPaused", "WasDeleted", "WasCreated", "Sync", "PropagateConnection", "UnpublishConnection", "AddFinalizer", "RemoveFinalizer",
				"Upgrade", "IsConflict", "IgnoreNotFound", "Equal"),
			DropRecv: true, Idents: c05Idents("Waiting")}))
		return sb.String()
	})
}

//go:build verif

package main

// C12: composition revisions form a faithful, monotonic history.
//
// Drives the real composition.Reconciler.Reconcile (revision controller), the real
// composite.APIRevisionFetcher.Fetch (XR side) and the real
// definition.EnqueueForCompositionRevision handler over simstore on histories of
// Composition edits, owner-reference stripping (backup/restore), faulty
// reconciles (a fault plan over every API call index: crash points, conflicts and
// every error class the API can answer) and XR revision selection under each
// update policy, using the revisions the real controller produced.
//
// The controller objects (Reconciler, APIRevisionFetcher, event recorder) are built
// once per process as Setup does and live across the events of a history (rebuilt
// only after a crash); they talk to the API through c12Client, the CACHED client:
//   - reads can be served by a lagging informer cache (`lag`: the revisions /
//     Compositions / XRs as they were some events ago), writes go to the API server
//     (resourceVersion conflicts, AlreadyExists arise for real);
//   - other clients (a user, a backup/restore tool, another controller) act on the
//     store right before API call k of a reconcile / fetch (`env`);
//   - an injected fault can carry an error class (NotFound, AlreadyExists, Invalid,
//     Forbidden, server timeout, Temporary() transport error, context deadline).

import (
	"context"
	"encoding/json"
	"errors"
	"fmt"
	"go/ast"
	"go/parser"
	"go/token"
	"reflect"
	"runtime"
	"sort"
	"strings"

	corev1 "k8s.io/api/core/v1"
	kerrors "k8s.io/apimachinery/pkg/api/errors"
	kmeta "k8s.io/apimachinery/pkg/api/meta"
	metav1 "k8s.io/apimachinery/pkg/apis/meta/v1"
	"k8s.io/apimachinery/pkg/apis/meta/v1/unstructured"
	kruntime "k8s.io/apimachinery/pkg/runtime"
	"k8s.io/apimachinery/pkg/runtime/schema"
	"k8s.io/apimachinery/pkg/labels"
	"k8s.io/apimachinery/pkg/types"
	"k8s.io/client-go/util/workqueue"
	"sigs.k8s.io/controller-runtime/pkg/client"
	"sigs.k8s.io/controller-runtime/pkg/client/apiutil"
	kevent "sigs.k8s.io/controller-runtime/pkg/event"
	"sigs.k8s.io/controller-runtime/pkg/reconcile"
	"sigs.k8s.io/yaml"

	xpv1 "github.com/crossplane/crossplane-runtime/apis/common/v1"
	"github.com/crossplane/crossplane-runtime/pkg/event"
	"github.com/crossplane/crossplane-runtime/pkg/logging"
	"github.com/crossplane/crossplane-runtime/pkg/resource"
	"github.com/crossplane/crossplane-runtime/pkg/resource/fake"
	ucomposite "github.com/crossplane/crossplane-runtime/pkg/resource/unstructured/composite"

	v1 "github.com/crossplane/crossplane/apis/apiextensions/v1"
	"github.com/crossplane/crossplane/internal/controller/apiextensions/composite"
	"github.com/crossplane/crossplane/internal/controller/apiextensions/composition"
	"github.com/crossplane/crossplane/internal/controller/apiextensions/definition"
)

// ---- scenario -----------------------------------------------------------------

type c12Content struct {
	Labels map[string]string `json:"labels"`
	// Annos > 0: the annotation example.org/note=v<Annos> (scenarios of earlier rounds);
	// c12Prepare folds it into Anno
	Annos int               `json:"annos"`
	Anno  map[string]string `json:"anno"` // metadata.annotations
	Spec  int               `json:"spec"` // index into Specs
}

// c12Tab: what the real code computes for (comp, content). Hash and Name are used by the
// monitors only. The model is handed (Input -> Full): the sha256 digest as a table keyed by
// the hash INPUT, which the model renders itself from the content (labels, annotations, spec);
// label (first 63 digits) and revision name (<comp>-<first 7 digits>) are computed by the model.
type c12Tab struct {
	Comp  string `json:"comp"`
	CI    int    `json:"ci"`
	Hash  string `json:"hash"`  // value of the composition-hash label
	Name  string `json:"name"`  // name of the revision
	Full  string `json:"full"`  // Composition.Hash()
	Input string `json:"input"` // the bytes it hashes (rebuilt, verified against Full)

	inputOK bool // sha256(Input) == Full
}

type c12Fault struct {
	K int `json:"k"`
	// fail conflict crashBefore crashAfter, or an error class answered without applying the
	// call: notFound alreadyExists invalid forbidden timeout temporary deadline
	O string `json:"o"`
}

// c12EnvAt: what other clients do to the store right before API call `before` of a
// reconcile / fetch (the acts use the vocabulary of the top-level environment events).
type c12EnvAt struct {
	Before int     `json:"before"`
	Acts   []c12Ev `json:"acts"`
}

// c12Lag: the informer cache behind the controllers' client. d = 0: fresh; d >= 1: reads of
// that kind are served from the state at the beginning of the event d-1 events back (d = 1:
// the beginning of this event, so neither this event's own writes nor the interference
// during it are visible).
type c12Lag struct {
	Revs  int `json:"revs,omitempty"`
	Comps int `json:"comps,omitempty"`
	XRs   int `json:"xrs,omitempty"`
	// the cache catches up during the event: reads issued as API call `until` or later are
	// fresh (0 = it stays behind for the whole event)
	Until int `json:"until,omitempty"`
}

type c12CompInit struct {
	Name string `json:"name"`
	UID  int    `json:"uid"`
	CI   int    `json:"ci"`
}

type c12XRInit struct {
	Name string `json:"name"`
	Comp string `json:"comp"`
}

type c12Ev struct {
	Op     string             `json:"op"` // edit rec strip foreign restore deleting setxr fetch
	Comp   string             `json:"comp,omitempty"`
	CI     int                `json:"ci"`
	UID    int                `json:"uid,omitempty"`
	Names  []string           `json:"names,omitempty"`
	XR     string             `json:"xr,omitempty"`
	Policy string             `json:"policy,omitempty"` // "" Manual Automatic
	Sel    *map[string]string `json:"sel,omitempty"`
	Pin    string             `json:"pin,omitempty"` // "" keep, "-" clear, else revision name
	Plan   []c12Fault         `json:"plan,omitempty"`
	Keep   bool               `json:"keep,omitempty"` // restore: the revisions keep their (now dangling) owner references
	Env    []c12EnvAt         `json:"env,omitempty"`  // rec / fetch: interference between its API calls
	Lag    *c12Lag            `json:"lag,omitempty"`  // rec / fetch: informer-cache lag
}

type c12Scn struct {
	// Variant names the ordering found in the tree under test (go/ast walk):
	// "fixed" = adoption loop, then LatestRevision (fixes/D4.diff), "unfixed" =
	// LatestRevision before the single loop (defect D4). The model runs the
	// matching mirror; its theorems hold for "fixed" only.
	Variant  string        `json:"variant"`
	Comps    []c12CompInit `json:"comps"`
	Contents []c12Content  `json:"contents"`
	Specs    []c12SpecDef  `json:"specs"`
	XRs      []c12XRInit   `json:"xrs"`
	Tab      []c12Tab      `json:"tab"`
	Events   []c12Ev       `json:"events"`

	specKeyCache map[int]string
	prepared     bool // c12Prepare ran on this value (copies made for sweeps share its result)
}

// ---- observation --------------------------------------------------------------

type c12ORev struct {
	Name   string            `json:"name"`
	Comp   string            `json:"comp"`
	Hash   string            `json:"hash"`
	Num    int64             `json:"num"`
	Ctrl   string            `json:"ctrl"` // "none" or "uid-N"
	Labels map[string]string `json:"labels"`
	Spec   c12SpecDef        `json:"spec"` // the modelled fields of spec, decoded from the stored revision
}

type c12OStep struct {
	Res   string    `json:"res"`
	Revs  []c12ORev `json:"revs"`
	XRefs []string  `json:"xrefs"`
	Enq   []string  `json:"enq"` // XRs the revision-created handler enqueued (a reconcile that created a revision)
}

type c12Obs struct {
	// per content: the bytes Composition.Hash() hashes (verified against the real Hash())
	Inputs []string   `json:"inputs"`
	Steps  []c12OStep `json:"steps"`
}

// ---- real objects -------------------------------------------------------------

var (
	c12XRGVK  = schema.GroupVersionKind{Group: "example.org", Version: "v1", Kind: "XThing"}
	c12RevGK  = schema.GroupKind{Group: v1.Group, Kind: v1.CompositionRevisionKind}
	c12CompGK = schema.GroupKind{Group: v1.Group, Kind: v1.CompositionKind}
)

const c12ForeignUID = 999

func (s *c12Scn) spec(i int) v1.CompositionSpec {
	if i < 0 || i >= len(s.Specs) {
		return c12SpecOf(c12PipelineSpec(0))
	}
	return c12SpecOf(s.Specs[i])
}

func (s *c12Scn) comp(name string, uid int, c c12Content) *v1.Composition {
	comp := &v1.Composition{ObjectMeta: metav1.ObjectMeta{Name: name, UID: types.UID(fmt.Sprintf("uid-%d", uid))}, Spec: s.spec(c.Spec)}
	if len(c.Labels) > 0 {
		comp.Labels = map[string]string{}
		for k, v := range c.Labels {
			comp.Labels[k] = v
		}
	}
	if len(c.Anno) > 0 || c.Annos > 0 {
		comp.Annotations = map[string]string{}
		for k, v := range c.Anno {
			comp.Annotations[k] = v
		}
		if c.Annos > 0 {
			comp.Annotations["example.org/note"] = fmt.Sprintf("v%d", c.Annos)
		}
	}
	return comp
}

// frozen part of a revision: everything of the spec except the revision number.
func c12SpecJSON(spec map[string]any) string {
	cp := map[string]any{}
	for k, v := range spec {
		if k != "revision" {
			cp[k] = v
		}
	}
	b, _ := json.Marshal(cp)
	return string(b)
}

func (s *c12Scn) specKey(i int) string {
	if k, ok := s.specKeyCache[i]; ok {
		return k
	}
	if s.specKeyCache == nil {
		s.specKeyCache = map[int]string{}
	}
	k := s.specKeyRaw(i)
	s.specKeyCache[i] = k
	return k
}

func (s *c12Scn) specKeyRaw(i int) string {
	rs := composition.NewCompositionRevisionSpec(s.spec(i), 0)
	m, err := kruntime.DefaultUnstructuredConverter.ToUnstructured(&rs)
	if err != nil {
		panic(err)
	}
	return c12SpecJSON(normalizeLoose(m))
}

// c12Prepare (re)computes the oracle table with the code of the current tree.
var c12VariantCache string

func c12Variant() string {
	if c12VariantCache == "" {
		c12VariantCache = "fixed"
		for _, t := range c12Skeleton() {
			if t == "loop{" {
				break
			}
			if t == "LatestRevision" {
				c12VariantCache = "unfixed"
			}
		}
	}
	return c12VariantCache
}

func c12Prepare(s *c12Scn) {
	if s.prepared {
		return
	}
	s.prepared = true
	s.Variant = c12Variant()
	if len(s.Specs) == 0 {
		s.Specs = c12DefaultSpecs()
	}
	for i := range s.Specs {
		s.Specs[i] = c12NormSpec(s.Specs[i])
		y, _ := yaml.Marshal(c12SpecOf(s.Specs[i]))
		s.Specs[i].Yaml = string(y)
	}
	for i := range s.Contents {
		c := &s.Contents[i]
		if c.Labels == nil {
			c.Labels = map[string]string{}
		}
		if c.Anno == nil {
			c.Anno = map[string]string{}
		}
		if c.Annos > 0 {
			c.Anno["example.org/note"] = fmt.Sprintf("v%d", c.Annos)
			c.Annos = 0
		}
	}
	names := map[string]bool{}
	for _, c := range s.Comps {
		names[c.Name] = true
	}
	var ns []string
	for n := range names {
		ns = append(ns, n)
	}
	sort.Strings(ns)
	s.Tab = nil
	type hin struct {
		in, full string
		ok       bool
	}
	ins := make([]hin, len(s.Contents)) // the hash does not depend on the Composition's name
	for ci, c := range s.Contents {
		comp := s.comp("any", 1, c)
		ins[ci].in, ins[ci].ok = c12HashInput(comp)
		ins[ci].full = comp.Hash()
	}
	for _, n := range ns {
		for ci, c := range s.Contents {
			comp := s.comp(n, 1, c)
			rev := composition.NewCompositionRevision(comp, 1)
			s.Tab = append(s.Tab, c12Tab{Comp: n, CI: ci, Hash: rev.GetLabels()[v1.LabelCompositionHash], Name: rev.GetName(), Full: ins[ci].full, Input: ins[ci].in, inputOK: ins[ci].ok})
		}
	}
}

type c12Recorder struct{ created bool }

func (r *c12Recorder) Event(_ kruntime.Object, e event.Event) {
	if e.Type == event.TypeNormal {
		r.created = true
	}
}
func (r *c12Recorder) WithAnnotations(...string) event.Recorder { return r }

// ---- the cached client ----------------------------------------------------------

// c12Classes: the error classes a fault can carry. The call is issued to simstore
// under outcome `fail` (counted, logged, not applied); only the error is replaced.
var c12Classes = []string{"notFound", "alreadyExists", "invalid", "forbidden", "timeout", "temporary", "deadline"}

type c12NetErr struct{}

func (c12NetErr) Error() string   { return "simulated transport error: connection reset by peer" }
func (c12NetErr) Temporary() bool { return true }
func (c12NetErr) Timeout() bool   { return false }

func c12ClassErr(class string, gk schema.GroupKind, name string) error {
	gr := schema.GroupResource{Group: gk.Group, Resource: strings.ToLower(gk.Kind)}
	switch class {
	case "notFound":
		return kerrors.NewNotFound(gr, name)
	case "alreadyExists":
		return kerrors.NewAlreadyExists(gr, name)
	case "invalid":
		return kerrors.NewInvalid(gk, name, nil)
	case "forbidden":
		return kerrors.NewForbidden(gr, name, errors.New("simulated RBAC denial"))
	case "timeout":
		return kerrors.NewServerTimeout(gr, "call", 1)
	case "temporary":
		return c12NetErr{}
	case "deadline":
		return context.DeadlineExceeded
	}
	return nil
}

// c12Client is the client the controllers are built with (mgr.GetClient() /
// engine.GetCached()): simstore, except that (1) a read can be answered from a lagging
// informer cache and (2) an injected failure can carry an error class. Every call is still
// issued to simstore, so it is counted, logged and subject to the fault plan.
type c12Client struct {
	*Store
	r *c12Runner
}

// last returns the log entry of the call just issued (nil: the process is dead, no call happened).
func (c *c12Client) last(n0 int) *CallInfo {
	if len(c.Store.Log) == n0 {
		return nil
	}
	return &c.Store.Log[len(c.Store.Log)-1]
}

// classify replaces the injected server error by the error class of the fault, if it has one.
func (c *c12Client) classify(last *CallInfo, gk schema.GroupKind, name string, err error) error {
	if last == nil || last.Outcome != "fail" {
		return err
	}
	for _, f := range c.r.curPlan {
		if f.K == last.Index {
			if ce := c12ClassErr(f.O, gk, name); ce != nil {
				last.Err = errClass(ce)
				return ce
			}
			return err
		}
	}
	return err
}

func (c *c12Client) Get(ctx context.Context, key client.ObjectKey, obj client.Object, opts ...client.GetOption) error {
	gvk, gerr := apiutil.GVKForObject(obj, c.Store.Scheme())
	n0 := len(c.Store.Log)
	err := c.Store.Get(ctx, key, obj, opts...)
	last := c.last(n0)
	if gerr != nil || last == nil {
		return err
	}
	gk := gvk.GroupKind()
	if last.Outcome != "ok" {
		return c.classify(last, gk, key.Name, err)
	}
	if view := c.r.view(gk, last.Index); view != nil {
		var m map[string]any
		for _, o := range view {
			if strOf(mdOf(o), "name") == key.Name {
				m = o
			}
		}
		if m == nil {
			if v := reflect.ValueOf(obj); v.Kind() == reflect.Ptr && !v.IsNil() {
				if _, isU := obj.(kruntime.Unstructured); !isU {
					v.Elem().Set(reflect.Zero(v.Elem().Type()))
				}
			}
			err = kerrors.NewNotFound(schema.GroupResource{Group: gk.Group, Resource: strings.ToLower(gk.Kind)}, key.Name)
			last.Err = "notFound"
		} else {
			m = deepCopyMap(m)
			m["apiVersion"] = gvk.GroupVersion().String()
			err = c.Store.fromMap(m, obj)
			last.Err = ""
		}
	}
	if err == nil {
		c.r.served(gk, obj)
	}
	return err
}

func (c *c12Client) List(ctx context.Context, list client.ObjectList, opts ...client.ListOption) error {
	gvk, gerr := apiutil.GVKForObject(list, c.Store.Scheme())
	n0 := len(c.Store.Log)
	err := c.Store.List(ctx, list, opts...)
	last := c.last(n0)
	if gerr != nil || last == nil {
		return err
	}
	gvk.Kind = strings.TrimSuffix(gvk.Kind, "List")
	gk := gvk.GroupKind()
	if last.Outcome != "ok" {
		return c.classify(last, gk, "", err)
	}
	if err != nil {
		return err
	}
	view := c.r.view(gk, last.Index)
	if gk == c12RevGK {
		// what the cache holds at this moment (the whole kind): the monitors judge the
		// selection against it
		c.r.servedRevs = nil
		if view != nil {
			for _, m := range view {
				c.r.servedRevs = append(c.r.servedRevs, &unstructured.Unstructured{Object: deepCopyMap(m)})
			}
		} else {
			c.r.servedRevs = c.Store.OfKind(c12RevGK)
		}
		c.r.listedRevs = true
	}
	if view == nil {
		return nil
	}
	lo := &client.ListOptions{}
	lo.ApplyOptions(opts)
	if gk == c12RevGK {
		// does the cached list differ from the live revisions it selects?
		sel := func(u *unstructured.Unstructured) bool {
			return lo.LabelSelector == nil || lo.LabelSelector.Matches(labels.Set(u.GetLabels()))
		}
		var a, b []string
		for _, m := range view {
			if u := (&unstructured.Unstructured{Object: m}); sel(u) {
				a = append(a, c12RevKey(u))
			}
		}
		for _, u := range c.Store.OfKind(c12RevGK) {
			if sel(u) {
				b = append(b, c12RevKey(u))
			}
		}
		sort.Strings(a)
		sort.Strings(b)
		if strings.Join(a, ",") != strings.Join(b, ",") {
			c.r.lagging = true
		}
	}
	var items []map[string]any
	for _, m := range view {
		u := &unstructured.Unstructured{Object: m}
		if lo.LabelSelector != nil && !lo.LabelSelector.Matches(labels.Set(u.GetLabels())) {
			continue
		}
		cp := deepCopyMap(m)
		cp["apiVersion"] = gvk.GroupVersion().String()
		items = append(items, cp)
	}
	if ul, ok := list.(*unstructured.UnstructuredList); ok {
		ul.Items = nil
		for _, m := range items {
			ul.Items = append(ul.Items, unstructured.Unstructured{Object: m})
		}
		return nil
	}
	objs := make([]kruntime.Object, 0, len(items))
	for _, m := range items {
		ro, err := c.Store.Scheme().New(gvk)
		if err != nil {
			return err
		}
		if err := c.Store.fromMap(m, ro); err != nil {
			return err
		}
		objs = append(objs, ro)
	}
	return kmeta.SetList(list, objs)
}

func (c *c12Client) write(obj client.Object, n0 int, err error) error {
	last := c.last(n0)
	if last == nil || last.Outcome != "fail" {
		return err
	}
	gvk, gerr := apiutil.GVKForObject(obj, c.Store.Scheme())
	if gerr != nil {
		return err
	}
	return c.classify(last, gvk.GroupKind(), obj.GetName(), err)
}

func (c *c12Client) Create(ctx context.Context, obj client.Object, opts ...client.CreateOption) error {
	n0 := len(c.Store.Log)
	return c.write(obj, n0, c.Store.Create(ctx, obj, opts...))
}

func (c *c12Client) Update(ctx context.Context, obj client.Object, opts ...client.UpdateOption) error {
	n0 := len(c.Store.Log)
	return c.write(obj, n0, c.Store.Update(ctx, obj, opts...))
}

func (c *c12Client) Patch(ctx context.Context, obj client.Object, patch client.Patch, opts ...client.PatchOption) error {
	n0 := len(c.Store.Log)
	return c.write(obj, n0, c.Store.Patch(ctx, obj, patch, opts...))
}

// ---- one run ------------------------------------------------------------------

type c12Snap struct {
	num    int64
	frozen string
}

type c12Runner struct {
	s        *c12Scn
	st       *Store
	cl       *c12Client
	mons     []Mon
	seen     map[string]bool
	prev     map[string]c12Snap
	specKeys map[string]int
	captured map[string]bool // comp|ci successfully reconciled
	compCI   map[string]int  // current content index per composition
	compUID  map[string]int
	compGen  map[string]int64 // metadata.generation: bumped by spec edits only
	calls    []int            // API calls issued per event (rec / fetch)
	// controller objects live as long as the process (Setup builds them once): they are kept
	// across events and re-created only after a crash, so that state cached inside them is
	// exercised by the sequence of Compositions / XRs they are handed
	rc      *composition.Reconciler
	rec     *c12Recorder
	fetcher *composite.APIRevisionFetcher
	// the event being run
	evNo    int
	curPlan []c12Fault
	curEv   *c12Ev
	snaps   []map[schema.GroupKind][]map[string]any // state at the beginning of every event
	// what the cached client served during this event
	servedComp *v1.Composition
	servedXR   *unstructured.Unstructured
	servedRevs []*unstructured.Unstructured
	listedRevs bool
	// recorded finding D22: a reconcile that read a LAGGING list of the Composition's revisions
	// (the list the cache served differed from the live revisions) assigns numbers that can
	// already be in use. lagging: the current rec event read such a list; staleNum: the
	// revisions whose present number was assigned by such a reconcile (cleared when a reconcile
	// with a fresh list renumbers them). Only violations of "highest / distinct number" that
	// involve one of these revisions carry the finding's signature.
	lagging  bool
	staleNum map[string]bool
}

func (r *c12Runner) mon(sig, why string) {
	if r.seen[sig] {
		return
	}
	r.seen[sig] = true
	r.mons = append(r.mons, Mon{Sig: sig, Why: why})
}

const c12StaleSig = "C12:number-from-stale-revision-list"

// numSig: the signature of a violation of "highest number / numbers distinct" between the
// named revisions: the recorded finding iff the number of one of them was assigned by a
// reconcile that had read a lagging revision list.
func (r *c12Runner) numSig(sig string, names ...string) string {
	for _, n := range names {
		if r.staleNum[n] {
			return c12StaleSig
		}
	}
	return sig
}

func c12RevKey(u *unstructured.Unstructured) string {
	return fmt.Sprintf("%s#%d#%s", u.GetName(), c12Num(u), c12Ctrl(u))
}

// view: the objects of a kind as the informer cache holds them in the current event (nil = fresh).
func (r *c12Runner) view(gk schema.GroupKind, call int) []map[string]any {
	if r.curEv == nil || r.curEv.Lag == nil || (r.curEv.Lag.Until > 0 && call >= r.curEv.Lag.Until) {
		return nil
	}
	d := 0
	switch gk {
	case c12RevGK:
		d = r.curEv.Lag.Revs
	case c12CompGK:
		d = r.curEv.Lag.Comps
	case c12XRGVK.GroupKind():
		d = r.curEv.Lag.XRs
	}
	if d <= 0 {
		return nil
	}
	i := r.evNo - (d - 1)
	if i < 0 {
		i = 0
	}
	if i >= len(r.snaps) {
		return nil
	}
	v := r.snaps[i][gk]
	if v == nil {
		v = []map[string]any{}
	}
	return v
}

func (r *c12Runner) snapshot() {
	m := map[schema.GroupKind][]map[string]any{}
	for _, gk := range []schema.GroupKind{c12RevGK, c12CompGK, c12XRGVK.GroupKind()} {
		m[gk] = []map[string]any{}
		for _, u := range r.st.OfKind(gk) {
			m[gk] = append(m[gk], u.Object)
		}
	}
	r.snaps = append(r.snaps, m)
}

// served records the first Composition / XR the cached client handed out in this event.
func (r *c12Runner) served(gk schema.GroupKind, obj client.Object) {
	switch gk {
	case c12CompGK:
		if c, ok := obj.(*v1.Composition); ok && r.servedComp == nil {
			r.servedComp = c.DeepCopy()
		}
	case c12XRGVK.GroupKind():
		if r.servedXR == nil {
			if u, ok := obj.(kruntime.Unstructured); ok {
				r.servedXR = &unstructured.Unstructured{Object: deepCopyMap(u.UnstructuredContent())}
			}
		}
	}
}

func c12Frozen(u *unstructured.Unstructured) string {
	spec, _ := u.Object["spec"].(map[string]any)
	b, _ := json.Marshal(map[string]any{"spec": c12SpecJSON(spec), "labels": u.GetLabels(), "annotations": u.GetAnnotations()})
	return string(b)
}

func c12Num(u *unstructured.Unstructured) int64 {
	spec, _ := u.Object["spec"].(map[string]any)
	switch n := spec["revision"].(type) {
	case int64:
		return n
	case float64:
		return int64(n)
	case int:
		return int64(n)
	}
	return 0
}

func c12Ctrl(u *unstructured.Unstructured) string {
	for _, o := range u.GetOwnerReferences() {
		if o.Controller != nil && *o.Controller {
			return string(o.UID)
		}
	}
	return "none"
}

// step monitor: compares the revisions now in the store with the previous instant.
func (r *c12Runner) checkInstant(where string) {
	cur := map[string]c12Snap{}
	byNum := map[string]string{}
	revs := r.st.OfKind(c12RevGK)
	for _, u := range revs {
		cur[u.GetName()] = c12Snap{num: c12Num(u), frozen: c12Frozen(u)}
		// a number assigned (revision created / renumbered) by the reconcile that is running
		if p, ok := r.prev[u.GetName()]; r.curEv != nil && r.curEv.Op == "rec" && (!ok || p.num != c12Num(u)) {
			if r.lagging {
				r.staleNum[u.GetName()] = true
			} else {
				delete(r.staleNum, u.GetName())
			}
		}
	}
	for _, u := range revs {
		k := fmt.Sprintf("%s#%d", u.GetLabels()[v1.LabelCompositionName], c12Num(u))
		if other, dup := byNum[k]; dup {
			r.mon(r.numSig("C12:duplicate-number", other, u.GetName()), fmt.Sprintf("%s: revisions %s and %s of one Composition both carry number %d", where, other, u.GetName(), c12Num(u)))
		}
		byNum[k] = u.GetName()
	}
	for name, p := range r.prev {
		c, ok := cur[name]
		if !ok {
			r.mon("C12:revision-deleted", fmt.Sprintf("%s: revision %s disappeared", where, name))
			continue
		}
		if c.frozen != p.frozen {
			r.mon("C12:spec-edited", fmt.Sprintf("%s: revision %s changed beyond its revision number and owner references: %s -> %s", where, name, p.frozen, c.frozen))
		}
		if c.num < p.num {
			r.mon("C12:number-decreased", fmt.Sprintf("%s: revision %s renumbered %d -> %d", where, name, p.num, c.num))
		}
	}
	r.prev = cur
}

func (r *c12Runner) tab(comp string, ci int) *c12Tab {
	for i := range r.s.Tab {
		if r.s.Tab[i].Comp == comp && r.s.Tab[i].CI == ci {
			return &r.s.Tab[i]
		}
	}
	return nil
}

func c12LabelsEq(a, b map[string]string) bool {
	if len(a) != len(b) {
		return false
	}
	for k, v := range a {
		if w, ok := b[k]; !ok || w != v {
			return false
		}
	}
	return true
}

func c12UserLabels(u *unstructured.Unstructured) map[string]string {
	out := map[string]string{}
	for k, v := range u.GetLabels() {
		if k != v1.LabelCompositionName && k != v1.LabelCompositionHash {
			out[k] = v
		}
	}
	return out
}

// end-of-step monitor: every captured content has exactly one faithful revision.
func (r *c12Runner) checkCaptured(where string) {
	revs := r.st.OfKind(c12RevGK)
	for key := range r.captured {
		var comp string
		var ci int
		fmt.Sscanf(key, "%d|", &ci)
		comp = key[strings.Index(key, "|")+1:]
		t := r.tab(comp, ci)
		if t == nil {
			continue
		}
		n := 0
		for _, u := range revs {
			if u.GetLabels()[v1.LabelCompositionName] != comp || u.GetLabels()[v1.LabelCompositionHash] != t.Hash {
				continue
			}
			n++
			spec, _ := u.Object["spec"].(map[string]any)
			c := r.s.Contents[ci]
			// the labels copied at creation are those of the content the revision was created
			// for: this content, or (observation recorded in props/C12.json: Composition.Hash
			// concatenates yaml(labels) and yaml(annotations) without separator) another
			// content of the scenario with the same hash input
			labelsOK := false
			for cj, t2 := range r.s.Tab {
				_ = cj
				if t2.Comp == comp && t2.Hash == t.Hash && c12LabelsEq(c12UserLabels(u), r.s.Contents[t2.CI].Labels) {
					labelsOK = true
				}
			}
			if idx, ok := r.specKeys[c12SpecJSON(spec)]; !ok || r.specKeys[r.s.specKey(c.Spec)] != idx || !labelsOK {
				r.mon("C12:spec-mismatch", fmt.Sprintf("%s: revision %s does not carry the content (%s, #%d) it was created for", where, u.GetName(), comp, ci))
			}
		}
		if n == 0 {
			r.mon("C12:content-not-captured", fmt.Sprintf("%s: content #%d of %s was reconciled successfully but has no revision", where, ci, comp))
		}
		if n > 1 {
			r.mon("C12:content-captured-twice", fmt.Sprintf("%s: content #%d of %s has %d revisions", where, ci, comp, n))
		}
	}
}

func (r *c12Runner) state(res string, enq []string) c12OStep {
	o := c12OStep{Res: res, Revs: []c12ORev{}, XRefs: []string{}, Enq: []string{}}
	if len(enq) > 0 {
		o.Enq = enq
	}
	for _, u := range r.st.OfKind(c12RevGK) {
		spec, _ := u.Object["spec"].(map[string]any)
		o.Revs = append(o.Revs, c12ORev{Name: u.GetName(), Comp: u.GetLabels()[v1.LabelCompositionName], Hash: u.GetLabels()[v1.LabelCompositionHash],
			Num: c12Num(u), Ctrl: c12Ctrl(u), Labels: c12UserLabels(u), Spec: c12SpecOfRev(spec)})
	}
	for _, x := range r.s.XRs {
		ref := ""
		if u := r.st.Peek(c12XRGVK.GroupKind(), "", x.Name); u != nil {
			ref, _, _ = unstructured.NestedString(u.Object, "spec", "compositionRevisionRef", "name")
		}
		o.XRefs = append(o.XRefs, ref)
	}
	return o
}

func c12PlanFn(p []c12Fault) func(CallInfo) Outcome {
	return func(c CallInfo) Outcome {
		for _, f := range p {
			if f.K == c.Index {
				switch f.O {
				case "conflict":
					return Conflict
				case "crashBefore":
					return CrashBefore
				case "crashAfter":
					return CrashAfter
				}
				return Fail // "fail" and every error class: not applied, the caller sees an error
			}
		}
		return OK
	}
}

func (r *c12Runner) setOwner(name string, uid int) {
	r.st.Mutate(c12RevGK, "", name, func(u *unstructured.Unstructured) {
		if uid == 0 {
			u.SetOwnerReferences(nil)
			return
		}
		t := true
		u.SetOwnerReferences([]metav1.OwnerReference{{APIVersion: v1.SchemeGroupVersion.String(), Kind: v1.CompositionKind, Name: "someone-else",
			UID: types.UID(fmt.Sprintf("uid-%d", uid)), Controller: &t, BlockOwnerDeletion: &t}})
	})
}

func (r *c12Runner) putComp(name string, uid int, ci int, deleting bool) {
	comp := r.s.comp(name, uid, r.s.Contents[ci])
	comp.Generation = r.compGen[name]
	if deleting {
		now := metav1.Unix(1700000000, 0)
		comp.DeletionTimestamp = &now
		comp.Finalizers = []string{"example.org/keep"}
	}
	r.st.Remove(c12CompGK, "", name)
	r.st.Seed(comp)
}

// applyEnv: one action of the environment (a user, a backup/restore tool, another
// controller), between events or between two API calls of a reconcile / fetch.
func (r *c12Runner) applyEnv(e c12Ev) {
	s := r.s
	switch e.Op {
	case "edit":
		if old, ok := r.compCI[e.Comp]; ok && e.CI >= 0 && e.CI < len(s.Contents) {
			deleting := false
			if u := r.st.Peek(c12CompGK, "", e.Comp); u != nil && u.GetDeletionTimestamp() != nil {
				deleting = true
			}
			if s.Contents[old].Spec != s.Contents[e.CI].Spec {
				r.compGen[e.Comp]++ // label / annotation edits do not touch metadata.generation
			}
			r.putComp(e.Comp, r.compUID[e.Comp], e.CI, deleting)
			r.compCI[e.Comp] = e.CI
		}
	case "restore":
		if ci, ok := r.compCI[e.Comp]; ok {
			r.compUID[e.Comp] = e.UID
			r.compGen[e.Comp] = 1
			r.putComp(e.Comp, e.UID, ci, false)
			if !e.Keep {
				for _, u := range r.st.OfKind(c12RevGK) {
					if u.GetLabels()[v1.LabelCompositionName] == e.Comp {
						r.setOwner(u.GetName(), 0)
					}
				}
			}
		}
	case "deleting":
		if ci, ok := r.compCI[e.Comp]; ok {
			r.putComp(e.Comp, r.compUID[e.Comp], ci, true)
		}
	case "legacy":
		// a revision written by a version of the controller that did not know the
		// composition-hash label yet (the cluster was upgraded): no hash label, the next free
		// number, controlled by the Composition. Only between reconciles: it predates them; a
		// client handing out revision numbers WHILE the controller does is another revision
		// controller, which the property does not quantify over.
		name := e.Comp + "-legacy"
		if _, ok := r.compCI[e.Comp]; ok && r.st.Peek(c12RevGK, "", name) == nil && r.st.Peek(c12CompGK, "", e.Comp) != nil {
			var mx int64
			for _, u := range r.st.OfKind(c12RevGK) {
				if u.GetLabels()[v1.LabelCompositionName] == e.Comp && c12Num(u) > mx {
					mx = c12Num(u)
				}
			}
			t := true
			rev := &v1.CompositionRevision{ObjectMeta: metav1.ObjectMeta{Name: name, Labels: map[string]string{v1.LabelCompositionName: e.Comp},
				OwnerReferences: []metav1.OwnerReference{{APIVersion: v1.SchemeGroupVersion.String(), Kind: v1.CompositionKind, Name: e.Comp,
					UID: types.UID(fmt.Sprintf("uid-%d", r.compUID[e.Comp])), Controller: &t, BlockOwnerDeletion: &t}}},
				Spec: composition.NewCompositionRevisionSpec(r.s.spec(0), mx+1)}
			r.st.Seed(rev)
		}
	case "strip":
		for _, n := range e.Names {
			r.setOwner(n, 0)
		}
	case "foreign":
		for _, n := range e.Names {
			r.setOwner(n, c12ForeignUID)
		}
	case "setxr":
		r.st.Mutate(c12XRGVK.GroupKind(), "", e.XR, func(u *unstructured.Unstructured) {
			xr := &ucomposite.Unstructured{Unstructured: *u}
			if e.Policy == "" {
				unstructured.RemoveNestedField(xr.Object, "spec", "compositionUpdatePolicy")
			} else {
				p := xpv1.UpdatePolicy(e.Policy)
				xr.SetCompositionUpdatePolicy(&p)
			}
			if e.Sel == nil {
				unstructured.RemoveNestedField(xr.Object, "spec", "compositionRevisionSelector")
			} else {
				ml := map[string]any{}
				for k, v := range *e.Sel {
					ml[k] = v
				}
				_ = unstructured.SetNestedMap(xr.Object, ml, "spec", "compositionRevisionSelector", "matchLabels")
			}
			switch e.Pin {
			case "":
			case "-":
				unstructured.RemoveNestedField(xr.Object, "spec", "compositionRevisionRef")
			default:
				xr.SetCompositionRevisionReference(&corev1.LocalObjectReference{Name: e.Pin})
			}
			u.Object = xr.Object
		})
	}
}

// begin prepares the store and the per-event bookkeeping for a rec / fetch event.
func (r *c12Runner) begin(e *c12Ev) {
	r.st.Revive()
	r.st.Plan = c12PlanFn(e.Plan)
	r.curPlan, r.curEv = e.Plan, e
	r.servedComp, r.servedXR, r.servedRevs, r.listedRevs, r.lagging = nil, nil, nil, false, false
	if r.rc == nil {
		// one process: the revision controller and the XR controllers share it (cmd/crossplane core)
		r.rec = &c12Recorder{}
		r.rc = composition.NewReconciler(&fake.Manager{Client: r.cl}, composition.WithRecorder(r.rec))
		r.fetcher = composite.NewAPIRevisionFetcher(resource.ClientApplicator{Client: r.cl, Applicator: resource.NewAPIPatchingApplicator(r.cl)})
	}
	r.rec.created = false
}

func (r *c12Runner) end() (crashed bool) {
	r.calls = append(r.calls, r.st.Calls)
	crashed = r.st.Crashed()
	r.st.Revive()
	r.curEv, r.curPlan = nil, nil
	if crashed {
		r.rc, r.rec, r.fetcher = nil, nil, nil // process restart
	}
	return crashed
}

func c12HasEnv(e *c12Ev) bool {
	for _, a := range e.Env {
		if len(a.Acts) > 0 {
			return true
		}
	}
	return false
}

func c12Lagged(e *c12Ev) bool { return e.Lag != nil && (e.Lag.Revs > 0 || e.Lag.Comps > 0) }

func (r *c12Runner) reconcile(e *c12Ev) string {
	r.begin(e)
	rc, rec := r.rc, r.rec
	var res reconcile.Result
	var err error
	p := Guard(func() {
		res, err = rc.Reconcile(context.Background(), reconcile.Request{NamespacedName: types.NamespacedName{Name: e.Comp}})
	})
	crashed := r.end()
	if p != "" {
		r.mon("C12:panic", p)
		return "panic"
	}
	switch {
	case crashed:
		return "crashed"
	case err != nil:
		return "err"
	case res.Requeue:
		return "requeue"
	case rec.created:
		return "created"
	}
	return "ok"
}

// mustSucceed: the reconcile about to run meets no fault, no interference and no cache lag,
// and no revision labelled with its Composition is controlled by somebody else - then it has
// to return without error (theorem reconcile_succeeds_without_faults).
func (r *c12Runner) mustSucceed(e *c12Ev) bool {
	if len(e.Plan) > 0 || c12HasEnv(e) || e.Lag != nil {
		return false
	}
	cu := r.st.Peek(c12CompGK, "", e.Comp)
	if cu == nil {
		return false
	}
	for _, u := range r.st.OfKind(c12RevGK) {
		if u.GetLabels()[v1.LabelCompositionName] != e.Comp {
			continue
		}
		if c := c12Ctrl(u); c != "none" && c != string(cu.GetUID()) {
			return false
		}
	}
	return true
}

// c12ContentIndex: which of the scenario's contents a Composition object carries (-1: none).
func (r *c12Runner) contentIndex(c *v1.Composition) int {
	for i, ct := range r.s.Contents {
		w := r.s.comp(c.GetName(), 1, ct)
		if reflect.DeepEqual(w.Spec, c.Spec) && c12LabelsEq(w.Labels, c.Labels) && c12LabelsEq(w.Annotations, c.Annotations) {
			return i
		}
	}
	return -1
}

// after a successful reconcile: the revision of the content the reconcile read exists,
// is controlled by the Composition, and has the strictly highest number.
func (r *c12Runner) checkCurrent(e *c12Ev, where string) {
	sc := r.servedComp
	if sc == nil || sc.GetName() != e.Comp || sc.GetDeletionTimestamp() != nil {
		return
	}
	ci := r.contentIndex(sc)
	t := r.tab(e.Comp, ci)
	if t == nil {
		return
	}
	var cur *unstructured.Unstructured
	revs := r.st.OfKind(c12RevGK)
	for _, u := range revs {
		if u.GetLabels()[v1.LabelCompositionName] == e.Comp && u.GetLabels()[v1.LabelCompositionHash] == t.Hash {
			cur = u
		}
	}
	if cur == nil {
		r.mon("C12:current-missing", fmt.Sprintf("%s: no revision for the content #%d of %s the reconcile read although it returned without error", where, ci, e.Comp))
		return
	}
	r.captured[fmt.Sprintf("%d|%s", ci, e.Comp)] = true
	// who controls it can be changed by the environment at any moment; without interference
	// and cache lag it is the Composition
	if !c12HasEnv(e) && !c12Lagged(e) && c12Ctrl(cur) != string(sc.GetUID()) {
		r.mon("C12:current-not-controlled", fmt.Sprintf("%s: current revision %s is not controlled by %s", where, cur.GetName(), e.Comp))
	}
	for _, u := range revs {
		if u.GetName() == cur.GetName() || u.GetLabels()[v1.LabelCompositionName] != e.Comp {
			continue
		}
		if c12Num(u) >= c12Num(cur) {
			sig := r.numSig("C12:current-not-highest", cur.GetName(), u.GetName())
			if r.lagging {
				sig = c12StaleSig // this reconcile judged "highest" on a lagging list
			}
			r.mon(sig, fmt.Sprintf("%s: current revision %s has number %d but %s has %d", where, cur.GetName(), c12Num(cur), u.GetName(), c12Num(u)))
		}
	}
}

// checkCreated: a revision the reconcile just created is the field-by-field copy of the
// Composition it read (NewCompositionRevision): name <composition>-<first 7 hash digits>,
// labels = the Composition's labels plus composition-name and composition-hash (first 63
// digits), spec = the Composition's spec (every field, compared as JSON: the two types share
// their field names) plus the revision number, controller owner reference = the Composition.
func (r *c12Runner) checkCreated(c CallInfo) {
	sc := r.servedComp
	u := r.st.Peek(c12RevGK, "", c.Name)
	if sc == nil || u == nil {
		return
	}
	bad := func(what string) {
		r.mon("C12:revision-not-a-copy", fmt.Sprintf("event %d call %d: created revision %s is not a copy of Composition %s: %s", r.evNo, c.Index, c.Name, sc.GetName(), what))
	}
	h := sc.Hash()
	if len(h) < 63 {
		return
	}
	if u.GetName() != sc.GetName()+"-"+h[:7] {
		bad("name")
	}
	want := map[string]string{v1.LabelCompositionName: sc.GetName(), v1.LabelCompositionHash: h[:63]}
	for k, v := range sc.GetLabels() {
		want[k] = v
	}
	if !c12LabelsEq(u.GetLabels(), want) {
		bad(fmt.Sprintf("labels %v, want %v", u.GetLabels(), want))
	}
	cs, err := kruntime.DefaultUnstructuredConverter.ToUnstructured(&sc.Spec)
	spec, _ := u.Object["spec"].(map[string]any)
	if err == nil && c12SpecJSON(normalizeLoose(cs)) != c12SpecJSON(normalizeLoose(spec)) {
		bad(fmt.Sprintf("spec %s, Composition spec %s", c12SpecJSON(normalizeLoose(spec)), c12SpecJSON(normalizeLoose(cs))))
	}
	if c12Num(u) < 1 {
		bad("revision number < 1")
	}
	if c12Ctrl(u) != string(sc.GetUID()) {
		bad("controller owner reference " + c12Ctrl(u))
	}
}

type c12Queue struct {
	workqueue.TypedRateLimitingInterface[reconcile.Request]
	added []string
}

func (q *c12Queue) Add(r reconcile.Request) { q.added = append(q.added, r.Name) }

// enqueue runs the real revision-created handler of the XR controller for every revision the
// reconcile just created and returns the XRs it enqueued (sorted). Monitor: exactly the XRs
// that are not Manual and reference the revision's Composition are enqueued - that is what
// lets an Automatic XR move to the new revision.
func (r *c12Runner) enqueue(n0 int, where string) []string {
	var out []string
	for _, c := range r.st.Log[n0:] {
		if c.Verb != "create" || !c.Applied || c.GK != gkString(c12RevGK) {
			continue
		}
		u := r.st.Peek(c12RevGK, "", c.Name)
		if u == nil {
			continue
		}
		rev := &v1.CompositionRevision{}
		if err := kruntime.DefaultUnstructuredConverter.FromUnstructured(u.Object, rev); err != nil {
			continue
		}
		q := &c12Queue{}
		h := definition.EnqueueForCompositionRevision(resource.CompositeKind(c12XRGVK), r.st, logging.NewNopLogger())
		if p := Guard(func() { h.CreateFunc(context.Background(), kevent.CreateEvent{Object: rev}, q) }); p != "" {
			r.mon("C12:panic", p)
		}
		r.st.Revive()
		got := map[string]bool{}
		for _, n := range q.added {
			got[n] = true
		}
		comp := u.GetLabels()[v1.LabelCompositionName]
		for _, x := range r.st.OfKind(c12XRGVK.GroupKind()) {
			pol, _, _ := unstructured.NestedString(x.Object, "spec", "compositionUpdatePolicy")
			ref, _, _ := unstructured.NestedString(x.Object, "spec", "compositionRef", "name")
			want := pol != "Manual" && ref == comp && comp != ""
			if want && !got[x.GetName()] {
				r.mon("C12:automatic-xr-not-enqueued", fmt.Sprintf("%s: revision %s of %s was created but XR %s (policy %q) was not enqueued", where, c.Name, comp, x.GetName(), pol))
			}
			if !want && got[x.GetName()] {
				r.mon("C12:unrelated-xr-enqueued", fmt.Sprintf("%s: revision %s of %s was created and XR %s (policy %q, composition %s) was enqueued", where, c.Name, comp, x.GetName(), pol, ref))
			}
		}
		for n := range got {
			out = append(out, n)
		}
	}
	sort.Strings(out)
	return out
}

func (r *c12Runner) fetch(e *c12Ev, where string) string {
	r.begin(e)
	f := r.fetcher
	n0 := len(r.st.Log)
	var rev *v1.CompositionRevision
	var err error
	p := Guard(func() {
		// the XR reconciler reads the XR through the cached client, then hands it to the fetcher
		xr := ucomposite.New(ucomposite.WithGroupVersionKind(c12XRGVK))
		if err = r.cl.Get(context.Background(), types.NamespacedName{Name: e.XR}, xr); err != nil {
			return
		}
		rev, err = f.Fetch(context.Background(), xr)
	})
	sx, sc, srevs, listed := r.servedXR, r.servedComp, r.servedRevs, r.listedRevs
	log := append([]CallInfo{}, r.st.Log[n0:]...)
	crashed := r.end()
	if p != "" {
		r.mon("C12:panic", p)
		return "panic"
	}
	after := r.st.Peek(c12XRGVK.GroupKind(), "", e.XR)
	if sx == nil || after == nil {
		if err == nil && !crashed {
			return "?"
		}
		if crashed {
			return "crashed"
		}
		return "err"
	}
	// the XR as the fetch saw it
	pol, _, _ := unstructured.NestedString(sx.Object, "spec", "compositionUpdatePolicy")
	refB, _, _ := unstructured.NestedString(sx.Object, "spec", "compositionRevisionRef", "name")
	refA, _, _ := unstructured.NestedString(after.Object, "spec", "compositionRevisionRef", "name")
	compName, _, _ := unstructured.NestedString(sx.Object, "spec", "compositionRef", "name")
	ok := err == nil && !crashed && rev != nil
	wroteXR := false
	for _, c := range log {
		if c.IsWrite() && c.Applied && c.GK == gkString(c12XRGVK.GroupKind()) {
			wroteXR = true
		}
	}

	if pol == "Manual" && refB != "" {
		// Manual pins: the fetch never writes the XR and hands over the revision it references.
		if wroteXR {
			r.mon("C12:manual-moved", fmt.Sprintf("%s: Manual XR %s referencing %s was written by the fetch (now %q)", where, e.XR, refB, refA))
		}
		if ok && rev.GetName() != refB {
			r.mon("C12:manual-moved", fmt.Sprintf("%s: Manual XR %s references %s but was handed %s", where, e.XR, refB, rev.GetName()))
		}
	} else {
		// Automatic (or nothing selected yet): the highest-numbered revision
		// controlled by the Composition, restricted by the selector.
		if wroteXR && !ok && !crashed {
			r.mon("C12:ref-changed-on-error", fmt.Sprintf("%s: XR %s ref %s -> %s although the fetch failed", where, e.XR, refB, refA))
		}
		if ok {
			var sel map[string]string
			if pol == "Automatic" {
				if m, found, _ := unstructured.NestedStringMap(sx.Object, "spec", "compositionRevisionSelector", "matchLabels"); found {
					sel = m
				}
			}
			// judged against what the informer cache held when the fetch listed the revisions
			var best *unstructured.Unstructured
			if sc != nil && listed && sc.GetName() == compName {
				for _, u := range srevs {
					if u.GetLabels()[v1.LabelCompositionName] != compName || c12Ctrl(u) != string(sc.GetUID()) {
						continue
					}
					match := true
					for k, v := range sel {
						if k != v1.LabelCompositionName && u.GetLabels()[k] != v {
							match = false
						}
					}
					if !match {
						continue
					}
					if best == nil || c12Num(u) > c12Num(best) {
						best = u
					}
				}
			}
			switch {
			case best == nil:
				r.mon("C12:automatic-not-highest", fmt.Sprintf("%s: XR %s was handed %s although no controlled revision matches", where, e.XR, rev.GetName()))
			case c12Num(best) != rev.Spec.Revision || (best.GetName() != rev.GetName()):
				r.mon("C12:automatic-not-highest", fmt.Sprintf("%s: XR %s was handed %s (#%d), highest controlled matching revision is %s (#%d)", where, e.XR, rev.GetName(), rev.Spec.Revision, best.GetName(), c12Num(best)))
			}
			if refA != rev.GetName() && refB != rev.GetName() {
				r.mon("C12:automatic-ref-not-updated", fmt.Sprintf("%s: XR %s was handed %s but references %q", where, e.XR, rev.GetName(), refA))
			}
		}
	}
	switch {
	case crashed:
		return "crashed"
	case err != nil:
		return "err"
	}
	return rev.GetName()
}

func c12Run(s *c12Scn) (c12Obs, []Mon, []int) {
	c12Prepare(s)
	scheme := kruntime.NewScheme()
	_ = v1.AddToScheme(scheme)
	r := &c12Runner{s: s, st: NewStore(scheme), seen: map[string]bool{}, prev: map[string]c12Snap{}, specKeys: map[string]int{},
		captured: map[string]bool{}, compCI: map[string]int{}, compUID: map[string]int{}, compGen: map[string]int64{}, staleNum: map[string]bool{}}
	r.cl = &c12Client{Store: r.st, r: r}
	for _, c := range s.Contents {
		if _, dup := r.specKeys[s.specKey(c.Spec)]; !dup {
			r.specKeys[s.specKey(c.Spec)] = c.Spec
		}
	}
	for _, c := range s.Comps {
		if c.CI < 0 || c.CI >= len(s.Contents) {
			continue
		}
		r.compGen[c.Name] = 1
		r.putComp(c.Name, c.UID, c.CI, false)
		r.compCI[c.Name], r.compUID[c.Name] = c.CI, c.UID
	}
	for _, x := range s.XRs {
		xr := ucomposite.New(ucomposite.WithGroupVersionKind(c12XRGVK))
		xr.SetName(x.Name)
		xr.SetCompositionReference(&corev1.ObjectReference{Name: x.Comp})
		r.st.Seed(xr)
	}
	r.st.Before = func(c CallInfo) {
		if r.curEv == nil {
			return
		}
		for _, ea := range r.curEv.Env {
			if ea.Before == c.Index {
				for _, a := range ea.Acts {
					r.applyEnv(a)
				}
			}
		}
	}
	r.st.After = func(c CallInfo) {
		if c.Verb == "create" && c.Applied && c.GK == gkString(c12RevGK) && r.curEv != nil && r.curEv.Op == "rec" {
			r.checkCreated(c)
		}
		if c.IsWrite() {
			r.checkInstant(fmt.Sprintf("event %d call %d (%s %s)", r.evNo, c.Index, c.Verb, c.Name))
		}
	}
	obs := c12Obs{Steps: []c12OStep{}, Inputs: []string{}}
	for ci := range s.Contents {
		in, ok := "", false
		for _, t := range s.Tab {
			if t.CI == ci {
				in, ok = t.Input, t.inputOK
				break
			}
		}
		if !ok && len(s.Tab) > 0 {
			r.mon("C12:hash-input-not-as-modelled", fmt.Sprintf("content #%d: sha256(yaml(labels) ++ yaml(annotations) ++ yaml(spec)) is not what Composition.Hash() returns", ci))
		}
		obs.Inputs = append(obs.Inputs, in)
	}
	for i := range s.Events {
		e := &s.Events[i]
		r.evNo = i
		r.snapshot()
		where := fmt.Sprintf("event %d (%s)", i, e.Op)
		res := ""
		var enq []string
		switch e.Op {
		case "rec":
			n0 := len(r.st.Log)
			mustSucceed := r.mustSucceed(e)
			res = r.reconcile(e)
			if res == "ok" || res == "created" {
				r.checkCurrent(e, where)
			} else if mustSucceed {
				// progress: without it an edited content is never captured by a revision
				r.mon("C12:fault-free-reconcile-failed", fmt.Sprintf("%s: reconcile of %s met no fault, no interference and a fresh cache, no revision of it is controlled by somebody else, and it returned %q", where, e.Comp, res))
			}
			enq = r.enqueue(n0, where)
		case "fetch":
			res = r.fetch(e, where)
		default:
			r.applyEnv(*e)
		}
		r.checkInstant(where)
		r.checkCaptured(where)
		obs.Steps = append(obs.Steps, r.state(res, enq))
	}
	return obs, r.mons, r.calls
}

// ---- generator ----------------------------------------------------------------

var c12Outcomes = []string{"fail", "conflict", "crashBefore", "crashAfter"}

// outcomes a sweep tries at every call index: the four of the shared fault model and the
// error classes the code could tell apart
var c12SweepOutcomes = []string{"fail", "conflict", "crashBefore", "crashAfter", "notFound", "alreadyExists", "invalid"}

func c12GenPlan(r *Rng, max int) []c12Fault {
	if r.Chance(1, 2) {
		return nil
	}
	n := 1
	if r.Chance(1, 4) {
		n = 2
	}
	var p []c12Fault
	for i := 0; i < n; i++ {
		o := Pick(r, c12Outcomes)
		if r.Chance(1, 3) {
			o = Pick(r, c12Classes)
		}
		p = append(p, c12Fault{K: r.Intn(max), O: o})
	}
	return p
}

var c12CompNames = []string{"comp-a", "comp-a-b", "comp-b"} // one name is a dash-prefix of another

func c12Gen(r *Rng) c12Scn {
	s := c12Scn{}
	// 3..5 contents drawn from 3 specs x 5 label sets x 2 annotation sets
	labelSets := []map[string]string{{}, {"channel": "dev"}, {"channel": "staging"}, {"channel": "dev", "tier": "gold"}, {"channel": "development"}}
	// annotation sets: one pair (labels, annotations) is a label<->annotation MOVE of another
	// ({channel:dev,tier:gold}+{zone:z1} vs {channel:dev}+{tier:gold,zone:z1}): Composition.Hash
	// concatenates yaml(labels) and yaml(annotations) without separator, the two contents
	// hash alike (observation recorded in props/C12.json)
	annoSets := []map[string]string{{}, {"example.org/note": "v1"}, {"zone": "z1"}, {"tier": "gold", "zone": "z1"}}
	cpMap := func(m map[string]string) map[string]string {
		o := map[string]string{}
		for k, v := range m {
			o[k] = v
		}
		return o
	}
	// 3 specs out of the pool: every modelled field of the spec varies
	pool := c12SpecPool()
	for _, i := range r.Perm(len(pool))[:3] {
		s.Specs = append(s.Specs, pool[i])
	}
	nc := r.Range(3, 5)
	seen := map[string]bool{}
	collide := r.Chance(1, 8)
	if collide {
		sp := r.Intn(3)
		s.Contents = append(s.Contents,
			c12Content{Labels: map[string]string{"channel": "dev", "tier": "gold"}, Anno: map[string]string{"zone": "z1"}, Spec: sp},
			c12Content{Labels: map[string]string{"channel": "dev"}, Anno: map[string]string{"tier": "gold", "zone": "z1"}, Spec: sp})
		if r.Bool() {
			s.Contents[0], s.Contents[1] = s.Contents[1], s.Contents[0]
		}
		seen[mustJSON(s.Contents[0])], seen[mustJSON(s.Contents[1])] = true, true
	}
	for len(s.Contents) < nc {
		c := c12Content{Labels: cpMap(Pick(r, labelSets)), Anno: cpMap(Pick(r, annoSets)), Spec: r.Intn(3)}
		k := mustJSON(c)
		if seen[k] {
			continue
		}
		seen[k] = true
		s.Contents = append(s.Contents, c)
	}
	ncomp := 1
	switch x := r.Intn(10); {
	case x >= 8:
		ncomp = 3
	case x >= 5:
		ncomp = 2
	}
	var compNames []string
	for _, i := range r.Perm(len(c12CompNames))[:ncomp] {
		compNames = append(compNames, c12CompNames[i])
	}
	sort.Strings(compNames)
	for i, n := range compNames {
		s.Comps = append(s.Comps, c12CompInit{Name: n, UID: i + 1, CI: r.Intn(nc)})
	}
	s.XRs = []c12XRInit{{Name: "xr-0", Comp: compNames[0]}, {Name: "xr-1", Comp: Pick(r, compNames)}}
	if r.Chance(1, 3) {
		s.XRs = append(s.XRs, c12XRInit{Name: "xr-2", Comp: Pick(r, compNames)})
	}
	c12Prepare(&s)
	namesOf := func(comp string) []string {
		var out []string
		for _, t := range s.Tab {
			if t.Comp == comp {
				out = append(out, t.Name)
			}
		}
		return out
	}
	nextUID := 10
	sels := []map[string]string{{}, {"channel": "dev"}, {"channel": "staging"}, {"channel": "prod"}, {"tier": "gold"}, {"channel": "dev", "tier": "gold"}, {"channel": "development"}}
	genSetXR := func() c12Ev {
		e := c12Ev{Op: "setxr", XR: Pick(r, s.XRs).Name, Policy: Pick(r, []string{"", "Manual", "Manual", "Automatic", "Automatic"})}
		if r.Chance(1, 2) {
			m := Pick(r, sels)
			if r.Chance(1, 8) {
				m = map[string]string{v1.LabelCompositionHash: Pick(r, s.Tab).Hash}
			}
			e.Sel = &m
		}
		switch r.Intn(4) {
		case 0:
			e.Pin = "-"
		case 1:
			e.Pin = Pick(r, s.Tab).Name
		}
		return e
	}
	genStrip := func(comp string) c12Ev {
		all := namesOf(comp)
		var pick []string
		if r.Chance(1, 2) {
			pick = all
		} else {
			for _, nm := range all {
				if r.Bool() {
					pick = append(pick, nm)
				}
			}
		}
		return c12Ev{Op: "strip", Comp: comp, Names: pick}
	}
	genRestore := func(comp string) c12Ev {
		e := c12Ev{Op: "restore", Comp: comp, UID: nextUID, Keep: r.Chance(1, 4)}
		nextUID++
		return e
	}
	// one action of the environment between two API calls of a reconcile / fetch
	genAct := func(comp string) c12Ev {
		switch x := r.Intn(100); {
		case x < 30:
			return c12Ev{Op: "edit", Comp: comp, CI: r.Intn(nc)}
		case x < 55:
			return genStrip(comp)
		case x < 70:
			return genRestore(comp)
		case x < 80:
			return c12Ev{Op: "foreign", Comp: comp, Names: []string{Pick(r, namesOf(comp))}}
		case x < 84:
			return c12Ev{Op: "deleting", Comp: comp}
		}
		return genSetXR()
	}
	// interference and cache lag of one rec / fetch event
	decorate := func(e c12Ev, comp string, calls int) c12Ev {
		if r.Chance(1, 7) {
			n := 1
			if r.Chance(1, 4) {
				n = 2
			}
			for i := 0; i < n; i++ {
				e.Env = append(e.Env, c12EnvAt{Before: r.Intn(calls), Acts: []c12Ev{genAct(comp)}})
			}
		}
		if r.Chance(1, 7) {
			// how far the cache is behind: mostly one or two events, sometimes far enough to
			// miss several reconciles (a revision renumbered more than once meanwhile)
			depth := func() int { return Pick(r, []int{1, 2, 2, 3, 3, 4, 5, 6, 8}) }
			l := &c12Lag{}
			switch r.Intn(4) {
			case 0:
				l.Comps = depth()
			case 1:
				l.Revs, l.Comps = depth(), depth()
			default:
				l.Revs = depth()
			}
			if e.Op == "fetch" && r.Chance(1, 3) {
				l.XRs = depth()
			}
			if r.Chance(1, 3) {
				l.Until = r.Range(1, 4)
			}
			e.Lag = l
		}
		return e
	}
	genRec := func(comp string) c12Ev {
		return decorate(c12Ev{Op: "rec", Comp: comp, Plan: c12GenPlan(r, 9)}, comp, 6)
	}
	if r.Chance(2, 3) {
		s.Events = append(s.Events, genSetXR())
	}
	if r.Chance(1, 10) {
		// an upgraded cluster: one revision predates the composition-hash label
		if r.Bool() {
			s.Events = append(s.Events, c12Ev{Op: "rec", Comp: compNames[0]})
		}
		s.Events = append(s.Events, c12Ev{Op: "legacy", Comp: compNames[0]})
	}
	if collide {
		// the move edit, each side reconciled, an Automatic XR selecting on the moved label
		comp := compNames[0]
		m := map[string]string{"tier": "gold"}
		s.Events = append(s.Events, c12Ev{Op: "edit", Comp: comp, CI: 0}, c12Ev{Op: "rec", Comp: comp},
			c12Ev{Op: "setxr", XR: "xr-0", Policy: "Automatic", Sel: &m, Pin: "-"}, c12Ev{Op: "fetch", XR: "xr-0"},
			c12Ev{Op: "edit", Comp: comp, CI: 1}, genRec(comp), c12Ev{Op: "fetch", XR: "xr-0"})
	}
	n := r.Range(5, 16)
	for i := 0; i < n; i++ {
		comp := Pick(r, compNames)
		x := r.Intn(100)
		switch {
		case x < 22:
			s.Events = append(s.Events, c12Ev{Op: "edit", Comp: comp, CI: r.Intn(nc)})
			if r.Chance(2, 3) {
				s.Events = append(s.Events, genRec(comp))
			}
		case x < 25:
			// two edits in quick succession: the second reconcile starts before the informer
			// cache has seen what the first one wrote
			s.Events = append(s.Events, c12Ev{Op: "edit", Comp: comp, CI: r.Intn(nc)}, c12Ev{Op: "rec", Comp: comp},
				c12Ev{Op: "edit", Comp: comp, CI: r.Intn(nc)}, c12Ev{Op: "rec", Comp: comp, Lag: &c12Lag{Revs: r.Range(2, 3)}})
		case x < 27:
			// flip-flop between two or three contents, every edit reconciled (each revert
			// renumbers), then a reconcile whose cache is several reconciles behind
			cs := []int{r.Intn(nc), r.Intn(nc), r.Intn(nc)}
			m := r.Range(3, 5)
			for j := 0; j < m; j++ {
				s.Events = append(s.Events, c12Ev{Op: "edit", Comp: comp, CI: cs[j%len(cs)]}, c12Ev{Op: "rec", Comp: comp})
			}
			s.Events = append(s.Events, c12Ev{Op: "edit", Comp: comp, CI: Pick(r, cs)},
				c12Ev{Op: "rec", Comp: comp, Lag: &c12Lag{Revs: r.Range(3, 2*m), Until: Pick(r, []int{0, 0, 2, 3})}})
		case x < 58:
			s.Events = append(s.Events, genRec(comp))
		case x < 66:
			s.Events = append(s.Events, genStrip(comp))
		case x < 72:
			s.Events = append(s.Events, genRestore(comp))
		case x < 74:
			s.Events = append(s.Events, c12Ev{Op: "foreign", Comp: comp, Names: []string{Pick(r, namesOf(comp))}})
		case x < 75:
			if r.Bool() {
				s.Events = append(s.Events, c12Ev{Op: "legacy", Comp: comp})
			} else {
				s.Events = append(s.Events, c12Ev{Op: "deleting", Comp: comp})
			}
		case x < 84:
			e := genSetXR()
			s.Events = append(s.Events, e)
		default:
			x := Pick(r, s.XRs)
			s.Events = append(s.Events, decorate(c12Ev{Op: "fetch", XR: x.Name, Plan: c12GenPlan(r, 6)}, x.Comp, 5))
		}
	}
	return s
}

func c12ContentKind(a, b c12Content) string {
	sameL := c12LabelsEq(a.Labels, b.Labels)
	switch {
	case a.Spec == b.Spec && c12LabelsEq(a.Anno, b.Anno) && !sameL:
		return "labelonly"
	case a.Spec == b.Spec && !c12LabelsEq(a.Anno, b.Anno) && sameL:
		return "annoonly"
	}
	return ""
}

// c12Class: size and the branches of the quantifier a history exercises.
func c12Class(s *c12Scn, obs c12Obs) string {
	has := map[string]bool{}
	aba := false
	hist := map[string][]int{}
	cur := map[string]int{}
	for _, c := range s.Comps {
		cur[c.Name] = c.CI
	}
	xrpol := map[string]string{}
	for i, e := range s.Events {
		has[e.Op] = true
		if len(e.Plan) > 0 {
			has["faults"] = true
			for _, f := range e.Plan {
				for _, c := range c12Classes {
					if f.O == c {
						has["errclass"] = true
					}
				}
			}
		}
		if c12HasEnv(&e) {
			has["interf"] = true
		}
		if e.Lag != nil && (e.Lag.Revs > 0 || e.Lag.Comps > 0 || e.Lag.XRs > 0) {
			has["lag"] = true
		}
		switch e.Op {
		case "edit":
			if old, ok := cur[e.Comp]; ok && e.CI >= 0 && e.CI < len(s.Contents) {
				if k := c12ContentKind(s.Contents[old], s.Contents[e.CI]); k != "" {
					has[k] = true
				}
				if old != e.CI {
					var ho, hn string
					for _, t := range s.Tab {
						if t.Comp == e.Comp && t.CI == old {
							ho = t.Full
						}
						if t.Comp == e.Comp && t.CI == e.CI {
							hn = t.Full
						}
					}
					if ho != "" && ho == hn {
						has["collide"] = true
					}
				}
				cur[e.Comp] = e.CI
			}
		case "setxr":
			p := "unset"
			if e.Policy != "" {
				p = e.Policy
			}
			if e.Sel != nil && e.Policy == "Automatic" {
				p += "+sel"
			}
			xrpol[e.XR] = p
		case "fetch":
			p := xrpol[e.XR]
			if p == "" {
				p = "unset"
			}
			has["fetch:"+p] = true
		case "rec":
			if i < len(obs.Steps) && (obs.Steps[i].Res == "ok" || obs.Steps[i].Res == "created") {
				ci, h := cur[e.Comp], hist[e.Comp]
				if len(h) > 0 && h[len(h)-1] != ci {
					for _, q := range h[:len(h)-1] {
						if q == ci {
							aba = true
						}
					}
				}
				if len(h) == 0 || h[len(h)-1] != ci {
					hist[e.Comp] = append(h, ci)
				}
			}
		}
	}
	maxRevs := 0
	for _, st := range obs.Steps {
		if len(st.Revs) > maxRevs {
			maxRevs = len(st.Revs)
		}
	}
	if maxRevs == 0 {
		return "trivial/no-revision"
	}
	size := fmt.Sprintf("revs=%d", maxRevs)
	if maxRevs >= 4 {
		size = "revs>=4"
	}
	parts := []string{size}
	if len(s.Comps) > 1 {
		parts = append(parts, fmt.Sprintf("comps=%d", len(s.Comps)))
	}
	if aba {
		parts = append(parts, "aba")
	}
	for _, k := range []string{"collide", "labelonly", "annoonly"} {
		if has[k] {
			parts = append(parts, k)
			break
		}
	}
	if has["strip"] || has["restore"] {
		parts = append(parts, "stripped")
	}
	if has["legacy"] {
		parts = append(parts, "legacy")
	}
	if has["errclass"] {
		parts = append(parts, "errclass")
	} else if has["faults"] {
		parts = append(parts, "faults")
	}
	if has["interf"] {
		parts = append(parts, "interf")
	}
	if has["lag"] {
		parts = append(parts, "lag")
	}
	for _, k := range []string{"fetch:Manual", "fetch:Automatic+sel", "fetch:Automatic", "fetch:unset"} {
		if has[k] {
			parts = append(parts, k)
			break
		}
	}
	return strings.Join(parts, "/")
}

func c12Emit(c *Ctx, s *c12Scn, tag string) []int {
	obs, mons, calls := c12Run(s)
	cls := c12Class(s, obs)
	if strings.HasPrefix(tag, "sweep") || strings.HasPrefix(tag, "isweep") || strings.HasPrefix(tag, "lsweep") {
		cls = tag // the position x outcome / action / lag is the class of a sweep member
	} else if tag != "" {
		cls = tag + "/" + cls
	}
	c.Emit(s, obs, mons, cls)
	return calls
}

// c12SweepActs: the menu of an interference sweep (one action right before call k).
func c12SweepActs(s *c12Scn, e *c12Ev) []c12Ev {
	comp := e.Comp
	if e.Op == "fetch" {
		for _, x := range s.XRs {
			if x.Name == e.XR {
				comp = x.Comp
			}
		}
	}
	var names []string
	for _, t := range s.Tab {
		if t.Comp == comp {
			names = append(names, t.Name)
		}
	}
	acts := []c12Ev{
		{Op: "strip", Comp: comp, Names: names},
		{Op: "restore", Comp: comp, UID: 77},
		{Op: "restore", Comp: comp, UID: 78, Keep: true},
	}
	for ci := range s.Contents {
		if ci < 2 {
			acts = append(acts, c12Ev{Op: "edit", Comp: comp, CI: ci})
		}
	}
	if len(names) > 0 {
		acts = append(acts, c12Ev{Op: "foreign", Comp: comp, Names: names[:1]})
	}
	if e.Op == "fetch" {
		m := map[string]string{"channel": "dev"}
		acts = append(acts, c12Ev{Op: "setxr", XR: e.XR, Policy: "Automatic", Sel: &m, Pin: "-"})
		if len(names) > 0 {
			acts = append(acts, c12Ev{Op: "setxr", XR: e.XR, Policy: "Manual", Pin: names[0]})
		}
	}
	return acts
}

func init() {
	Register("C12", func(c *Ctx) {
		for _, raw := range c.Corpus {
			var s c12Scn
			if err := jsonUnmarshalStrict(raw, &s); err == nil && len(s.Contents) > 0 {
				c12Emit(c, &s, "corpus")
			}
		}
		budget := c.N
		for budget > 0 {
			s := c12Gen(c.Rng)
			calls := c12Emit(c, &s, "")
			budget--
			// Sweeps over one reconcile/fetch of this history (quick: every 30th scenario;
			// thorough: every 10th): every call index it issued x every outcome / error class,
			// x every action of the interference menu right before that call, and every cache lag.
			every := 30
			if c.Tier == "thorough" {
				every = 10
			}
			if c.Rng.Intn(every) != 0 {
				continue
			}
			var idx []int
			for i, e := range s.Events {
				if e.Op == "rec" || e.Op == "fetch" {
					idx = append(idx, i)
				}
			}
			if len(idx) == 0 || len(calls) != len(idx) {
				continue
			}
			j := c.Rng.Intn(len(idx))
			variant := func() c12Scn {
				v := s
				v.Events = append([]c12Ev{}, s.Events...)
				return v
			}
			switch c.Rng.Intn(3) {
			case 0:
				for k := 0; k < calls[j] && budget > 0; k++ {
					for _, o := range c12SweepOutcomes {
						if budget <= 0 {
							break
						}
						v := variant()
						v.Events[idx[j]].Plan = []c12Fault{{K: k, O: o}}
						c12Emit(c, &v, fmt.Sprintf("sweep/%s/k=%d/%s", s.Events[idx[j]].Op, k, o))
						budget--
					}
				}
			case 1:
				acts := c12SweepActs(&s, &s.Events[idx[j]])
				for k := 0; k < calls[j] && budget > 0; k++ {
					for _, a := range acts {
						if budget <= 0 {
							break
						}
						v := variant()
						v.Events[idx[j]].Plan = nil
						v.Events[idx[j]].Env = []c12EnvAt{{Before: k, Acts: []c12Ev{a}}}
						c12Emit(c, &v, fmt.Sprintf("isweep/%s/k=%d/%s", s.Events[idx[j]].Op, k, a.Op))
						budget--
					}
				}
			default:
				for _, d := range []int{1, 2, 3, 4, 6, 8} {
					for _, l := range []c12Lag{{Revs: d}, {Comps: d}, {Revs: d, Comps: d}, {XRs: d}, {Revs: d, Until: 2}, {Revs: d, XRs: d, Until: 3}} {
						if budget <= 0 || (l.XRs > 0 && s.Events[idx[j]].Op != "fetch") {
							continue
						}
						v := variant()
						l := l
						v.Events[idx[j]].Lag = &l
						c12Emit(c, &v, fmt.Sprintf("lsweep/%s/revs=%d,comps=%d,xrs=%d,until=%d", s.Events[idx[j]].Op, l.Revs, l.Comps, l.XRs, l.Until))
						budget--
					}
				}
			}
		}
	})
	RegisterDump("C12", func() string {
		probe := (&c12Scn{Specs: c12DefaultSpecs()}).comp("probe", 1, c12Content{Spec: 0})
		nilMap, _ := yaml.Marshal(map[string]string(nil))
		oneEntry, _ := yaml.Marshal(map[string]string{"k": "v"})
		rev := composition.NewCompositionRevision(probe, 1)
		suffix := len(rev.GetName()) - len(probe.GetName()) - 1
		return fmt.Sprintf("/-- v1.LabelCompositionName -/\ndef labelCompositionName : String := %s\n", leanStr(v1.LabelCompositionName)) +
			fmt.Sprintf("/-- v1.LabelCompositionHash -/\ndef labelCompositionHash : String := %s\n", leanStr(v1.LabelCompositionHash)) +
			fmt.Sprintf("/-- length of Composition.Hash() (probed) -/\ndef compositionHashLen : Nat := %d\n", len(probe.Hash())) +
			fmt.Sprintf("/-- length of the composition-hash label value (probed on NewCompositionRevision) -/\ndef revisionHashLabelLen : Nat := %d\n", len(rev.GetLabels()[v1.LabelCompositionHash])) +
			fmt.Sprintf("/-- length of the hash suffix of a revision name (probed) -/\ndef revisionNameSuffixLen : Nat := %d\n", suffix) +
			fmt.Sprintf("/-- yaml.Marshal of a nil map (a Composition without labels / annotations), probed -/\ndef yamlNilMap : String := %s\n", leanStr(string(nilMap))) +
			fmt.Sprintf("/-- yaml.Marshal of the map {k: v}, probed: one line `key: value` per entry -/\ndef yamlOneEntry : String := %s\n", leanStr(string(oneEntry))) +
			"/-- ordered API calls and the LatestRevision computation in composition.Reconciler.Reconcile (go/ast walk of the current tree) -/\n" +
			"def compositionReconcileSkeleton : List String := " + leanStrList(c12Skeleton()) + "\n"
	})
}

// c12Skeleton walks composition/reconciler.go of the tree the harness was built
// from and returns, in source order, the client calls and the LatestRevision call
// of Reconciler.Reconcile, with loop boundaries.
func c12Skeleton() []string {
	pc := reflect.ValueOf(composition.NewReconciler).Pointer()
	fn := runtime.FuncForPC(pc)
	if fn == nil {
		return []string{"unknown: no func info"}
	}
	file, _ := fn.FileLine(pc)
	fset := token.NewFileSet()
	f, err := parser.ParseFile(fset, file, nil, 0)
	if err != nil {
		return []string{"unknown: " + err.Error()}
	}
	var out []string
	var walk func(n ast.Node)
	walk = func(n ast.Node) {
		ast.Inspect(n, func(x ast.Node) bool {
			switch t := x.(type) {
			case *ast.RangeStmt:
				out = append(out, "loop{")
				walk(t.Body)
				out = append(out, "}")
				return false
			case *ast.ForStmt:
				out = append(out, "loop{")
				walk(t.Body)
				out = append(out, "}")
				return false
			case *ast.CallExpr:
				if sel, ok := t.Fun.(*ast.SelectorExpr); ok {
					if inner, ok := sel.X.(*ast.SelectorExpr); ok && inner.Sel.Name == "client" {
						out = append(out, sel.Sel.Name)
					}
					if id, ok := sel.X.(*ast.Ident); ok && id.Name == "v1" && sel.Sel.Name == "LatestRevision" {
						out = append(out, "LatestRevision")
					}
					if id, ok := sel.X.(*ast.Ident); ok && id.Name == "meta" && sel.Sel.Name == "AddControllerReference" {
						out = append(out, "AddControllerReference")
					}
				}
			}
			return true
		})
	}
	for _, d := range f.Decls {
		fd, ok := d.(*ast.FuncDecl)
		if !ok || fd.Name.Name != "Reconcile" || fd.Body == nil {
			continue
		}
		walk(fd.Body)
	}
	if len(out) == 0 {
		return []string{"unknown: Reconcile not found"}
	}
	return out
}

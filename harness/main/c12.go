//go:build verif

package main

// C12: composition revisions form a faithful, monotonic history.
//
// Drives the real composition.Reconciler.Reconcile (revision controller) and the
// real composite.APIRevisionFetcher.Fetch (XR side) over simstore on histories of
// Composition edits, owner-reference stripping (backup/restore), faulty
// reconciles (a fault plan over every API call index) and XR revision selection
// under each update policy, using the revisions the real controller produced.

import (
	"context"
	"encoding/json"
	"fmt"
	"go/ast"
	"go/parser"
	"go/token"
	"reflect"
	"runtime"
	"sort"
	"strings"

	corev1 "k8s.io/api/core/v1"
	metav1 "k8s.io/apimachinery/pkg/apis/meta/v1"
	"k8s.io/apimachinery/pkg/apis/meta/v1/unstructured"
	kruntime "k8s.io/apimachinery/pkg/runtime"
	"k8s.io/apimachinery/pkg/runtime/schema"
	"k8s.io/apimachinery/pkg/types"
	"sigs.k8s.io/controller-runtime/pkg/reconcile"

	xpv1 "github.com/crossplane/crossplane-runtime/apis/common/v1"
	"github.com/crossplane/crossplane-runtime/pkg/event"
	"github.com/crossplane/crossplane-runtime/pkg/resource"
	"github.com/crossplane/crossplane-runtime/pkg/resource/fake"
	ucomposite "github.com/crossplane/crossplane-runtime/pkg/resource/unstructured/composite"

	v1 "github.com/crossplane/crossplane/apis/apiextensions/v1"
	"github.com/crossplane/crossplane/internal/controller/apiextensions/composite"
	"github.com/crossplane/crossplane/internal/controller/apiextensions/composition"
)

// ---- scenario -----------------------------------------------------------------

type c12Content struct {
	Labels map[string]string `json:"labels"`
	Annos  int               `json:"annos"` // 0 = no annotations
	Spec   int               `json:"spec"`
}

type c12Tab struct { // oracle table: what the real code computes for (comp, content)
	Comp string `json:"comp"`
	CI   int    `json:"ci"`
	Hash string `json:"hash"` // value of the composition-hash label
	Name string `json:"name"` // name of the revision
}

type c12Fault struct {
	K int    `json:"k"`
	O string `json:"o"` // fail conflict crashBefore crashAfter
}

type c12CompInit struct {
	Name string `json:"name"`
	UID  int    `json:"uid"`
	CI   int    `json:"ci"`
}

type c12XRInit struct {
	Name string `json:"name"`
	Comp string `json:"comp"`
}

type c12Ev struct {
	Op     string             `json:"op"` // edit rec strip foreign restore deleting setxr fetch
	Comp   string             `json:"comp,omitempty"`
	CI     int                `json:"ci"`
	UID    int                `json:"uid,omitempty"`
	Names  []string           `json:"names,omitempty"`
	XR     string             `json:"xr,omitempty"`
	Policy string             `json:"policy,omitempty"` // "" Manual Automatic
	Sel    *map[string]string `json:"sel,omitempty"`
	Pin    string             `json:"pin,omitempty"` // "" keep, "-" clear, else revision name
	Plan   []c12Fault         `json:"plan,omitempty"`
}

type c12Scn struct {
	// Variant names the ordering found in the tree under test (go/ast walk):
	// "fixed" = adoption loop, then LatestRevision (fixes/D4.diff), "unfixed" =
	// LatestRevision before the single loop (defect D4). The model runs the
	// matching mirror; its theorems hold for "fixed" only.
	Variant  string        `json:"variant"`
	Comps    []c12CompInit `json:"comps"`
	Contents []c12Content  `json:"contents"`
	XRs      []c12XRInit   `json:"xrs"`
	Tab      []c12Tab      `json:"tab"`
	Events   []c12Ev       `json:"events"`
}

// ---- observation --------------------------------------------------------------

type c12ORev struct {
	Name   string            `json:"name"`
	Comp   string            `json:"comp"`
	Hash   string            `json:"hash"`
	Num    int64             `json:"num"`
	Ctrl   string            `json:"ctrl"` // "none" or "uid-N"
	Labels map[string]string `json:"labels"`
	Spec   int               `json:"spec"` // index of the spec among the scenario's specs, -1 = none of them
}

type c12OStep struct {
	Res   string    `json:"res"`
	Revs  []c12ORev `json:"revs"`
	XRefs []string  `json:"xrefs"`
}

type c12Obs struct {
	Steps []c12OStep `json:"steps"`
}

// ---- real objects -------------------------------------------------------------

var (
	c12XRGVK  = schema.GroupVersionKind{Group: "example.org", Version: "v1", Kind: "XThing"}
	c12RevGK  = schema.GroupKind{Group: v1.Group, Kind: v1.CompositionRevisionKind}
	c12CompGK = schema.GroupKind{Group: v1.Group, Kind: v1.CompositionKind}
)

const c12ForeignUID = 999

func c12Spec(i int) v1.CompositionSpec {
	mode := v1.CompositionModePipeline
	return v1.CompositionSpec{
		CompositeTypeRef: v1.TypeReference{APIVersion: "example.org/v1", Kind: "XThing"},
		Mode:             &mode,
		Pipeline: []v1.PipelineStep{{
			Step:        "compose",
			FunctionRef: v1.FunctionReference{Name: fmt.Sprintf("function-%d", i)},
		}},
	}
}

func c12Comp(name string, uid int, c c12Content) *v1.Composition {
	comp := &v1.Composition{ObjectMeta: metav1.ObjectMeta{Name: name, UID: types.UID(fmt.Sprintf("uid-%d", uid))}, Spec: c12Spec(c.Spec)}
	if len(c.Labels) > 0 {
		comp.Labels = map[string]string{}
		for k, v := range c.Labels {
			comp.Labels[k] = v
		}
	}
	if c.Annos > 0 {
		comp.Annotations = map[string]string{"example.org/note": fmt.Sprintf("v%d", c.Annos)}
	}
	return comp
}

// frozen part of a revision: everything of the spec except the revision number.
func c12SpecJSON(spec map[string]any) string {
	cp := map[string]any{}
	for k, v := range spec {
		if k != "revision" {
			cp[k] = v
		}
	}
	b, _ := json.Marshal(cp)
	return string(b)
}

func c12SpecKey(i int) string {
	rs := composition.NewCompositionRevisionSpec(c12Spec(i), 0)
	m, err := kruntime.DefaultUnstructuredConverter.ToUnstructured(&rs)
	if err != nil {
		panic(err)
	}
	return c12SpecJSON(normalizeLoose(m))
}

// c12Prepare (re)computes the oracle table with the code of the current tree.
var c12VariantCache string

func c12Variant() string {
	if c12VariantCache == "" {
		c12VariantCache = "fixed"
		for _, t := range c12Skeleton() {
			if t == "loop{" {
				break
			}
			if t == "LatestRevision" {
				c12VariantCache = "unfixed"
			}
		}
	}
	return c12VariantCache
}

func c12Prepare(s *c12Scn) {
	s.Variant = c12Variant()
	names := map[string]bool{}
	for _, c := range s.Comps {
		names[c.Name] = true
	}
	var ns []string
	for n := range names {
		ns = append(ns, n)
	}
	sort.Strings(ns)
	s.Tab = nil
	for _, n := range ns {
		for ci, c := range s.Contents {
			rev := composition.NewCompositionRevision(c12Comp(n, 1, c), 1)
			s.Tab = append(s.Tab, c12Tab{Comp: n, CI: ci, Hash: rev.GetLabels()[v1.LabelCompositionHash], Name: rev.GetName()})
		}
	}
}

type c12Recorder struct{ created bool }

func (r *c12Recorder) Event(_ kruntime.Object, e event.Event) {
	if e.Type == event.TypeNormal {
		r.created = true
	}
}
func (r *c12Recorder) WithAnnotations(...string) event.Recorder { return r }

// ---- one run ------------------------------------------------------------------

type c12Snap struct {
	num    int64
	frozen string
}

type c12Runner struct {
	s        *c12Scn
	st       *Store
	mons     []Mon
	seen     map[string]bool
	prev     map[string]c12Snap
	specKeys map[string]int
	captured map[string]bool // comp|ci successfully reconciled
	compCI   map[string]int  // current content index per composition
	compUID  map[string]int
	calls    []int // API calls issued per event (rec / fetch)
	// controller objects live as long as the process: they are kept across events and
	// re-created only after a crash, so that state cached inside them is exercised
	fetcher *composite.APIRevisionFetcher
}

func (r *c12Runner) mon(sig, why string) {
	if r.seen[sig] {
		return
	}
	r.seen[sig] = true
	r.mons = append(r.mons, Mon{Sig: sig, Why: why})
}

func c12Frozen(u *unstructured.Unstructured) string {
	spec, _ := u.Object["spec"].(map[string]any)
	b, _ := json.Marshal(map[string]any{"spec": c12SpecJSON(spec), "labels": u.GetLabels(), "annotations": u.GetAnnotations()})
	return string(b)
}

func c12Num(u *unstructured.Unstructured) int64 {
	spec, _ := u.Object["spec"].(map[string]any)
	switch n := spec["revision"].(type) {
	case int64:
		return n
	case float64:
		return int64(n)
	case int:
		return int64(n)
	}
	return 0
}

func c12Ctrl(u *unstructured.Unstructured) string {
	for _, o := range u.GetOwnerReferences() {
		if o.Controller != nil && *o.Controller {
			return string(o.UID)
		}
	}
	return "none"
}

// step monitor: compares the revisions now in the store with the previous instant.
func (r *c12Runner) checkInstant(where string) {
	cur := map[string]c12Snap{}
	for _, u := range r.st.OfKind(c12RevGK) {
		cur[u.GetName()] = c12Snap{num: c12Num(u), frozen: c12Frozen(u)}
	}
	for name, p := range r.prev {
		c, ok := cur[name]
		if !ok {
			r.mon("C12:revision-deleted", fmt.Sprintf("%s: revision %s disappeared", where, name))
			continue
		}
		if c.frozen != p.frozen {
			r.mon("C12:spec-edited", fmt.Sprintf("%s: revision %s changed beyond its revision number and owner references: %s -> %s", where, name, p.frozen, c.frozen))
		}
		if c.num < p.num {
			r.mon("C12:number-decreased", fmt.Sprintf("%s: revision %s renumbered %d -> %d", where, name, p.num, c.num))
		}
	}
	r.prev = cur
}

func (r *c12Runner) tab(comp string, ci int) *c12Tab {
	for i := range r.s.Tab {
		if r.s.Tab[i].Comp == comp && r.s.Tab[i].CI == ci {
			return &r.s.Tab[i]
		}
	}
	return nil
}

func c12LabelsEq(a, b map[string]string) bool {
	if len(a) != len(b) {
		return false
	}
	for k, v := range a {
		if w, ok := b[k]; !ok || w != v {
			return false
		}
	}
	return true
}

func c12UserLabels(u *unstructured.Unstructured) map[string]string {
	out := map[string]string{}
	for k, v := range u.GetLabels() {
		if k != v1.LabelCompositionName && k != v1.LabelCompositionHash {
			out[k] = v
		}
	}
	return out
}

// end-of-step monitor: every captured content has exactly one faithful revision.
func (r *c12Runner) checkCaptured(where string) {
	revs := r.st.OfKind(c12RevGK)
	for key := range r.captured {
		var comp string
		var ci int
		fmt.Sscanf(key, "%d|", &ci)
		comp = key[strings.Index(key, "|")+1:]
		t := r.tab(comp, ci)
		if t == nil {
			continue
		}
		n := 0
		for _, u := range revs {
			if u.GetLabels()[v1.LabelCompositionName] != comp || u.GetLabels()[v1.LabelCompositionHash] != t.Hash {
				continue
			}
			n++
			spec, _ := u.Object["spec"].(map[string]any)
			c := r.s.Contents[ci]
			if idx, ok := r.specKeys[c12SpecJSON(spec)]; !ok || idx != c.Spec || !c12LabelsEq(c12UserLabels(u), c.Labels) {
				r.mon("C12:spec-mismatch", fmt.Sprintf("%s: revision %s does not carry the content (%s, #%d) it was created for", where, u.GetName(), comp, ci))
			}
		}
		if n == 0 {
			r.mon("C12:content-not-captured", fmt.Sprintf("%s: content #%d of %s was reconciled successfully but has no revision", where, ci, comp))
		}
		if n > 1 {
			r.mon("C12:content-captured-twice", fmt.Sprintf("%s: content #%d of %s has %d revisions", where, ci, comp, n))
		}
	}
}

func (r *c12Runner) state(res string) c12OStep {
	o := c12OStep{Res: res, Revs: []c12ORev{}, XRefs: []string{}}
	for _, u := range r.st.OfKind(c12RevGK) {
		spec, _ := u.Object["spec"].(map[string]any)
		idx, ok := r.specKeys[c12SpecJSON(spec)]
		if !ok {
			idx = -1
		}
		o.Revs = append(o.Revs, c12ORev{Name: u.GetName(), Comp: u.GetLabels()[v1.LabelCompositionName], Hash: u.GetLabels()[v1.LabelCompositionHash],
			Num: c12Num(u), Ctrl: c12Ctrl(u), Labels: c12UserLabels(u), Spec: idx})
	}
	for _, x := range r.s.XRs {
		ref := ""
		if u := r.st.Peek(c12XRGVK.GroupKind(), "", x.Name); u != nil {
			ref, _, _ = unstructured.NestedString(u.Object, "spec", "compositionRevisionRef", "name")
		}
		o.XRefs = append(o.XRefs, ref)
	}
	return o
}

func c12PlanFn(p []c12Fault) func(CallInfo) Outcome {
	return func(c CallInfo) Outcome {
		for _, f := range p {
			if f.K == c.Index {
				switch f.O {
				case "fail":
					return Fail
				case "conflict":
					return Conflict
				case "crashBefore":
					return CrashBefore
				case "crashAfter":
					return CrashAfter
				}
			}
		}
		return OK
	}
}

func (r *c12Runner) setOwner(name string, uid int) {
	r.st.Mutate(c12RevGK, "", name, func(u *unstructured.Unstructured) {
		if uid == 0 {
			u.SetOwnerReferences(nil)
			return
		}
		t := true
		u.SetOwnerReferences([]metav1.OwnerReference{{APIVersion: v1.SchemeGroupVersion.String(), Kind: v1.CompositionKind, Name: "someone-else",
			UID: types.UID(fmt.Sprintf("uid-%d", uid)), Controller: &t, BlockOwnerDeletion: &t}})
	})
}

func (r *c12Runner) putComp(name string, uid int, ci int, deleting bool) {
	comp := c12Comp(name, uid, r.s.Contents[ci])
	if deleting {
		now := metav1.Unix(1700000000, 0)
		comp.DeletionTimestamp = &now
		comp.Finalizers = []string{"example.org/keep"}
	}
	r.st.Remove(c12CompGK, "", name)
	r.st.Seed(comp)
}

func (r *c12Runner) reconcile(e c12Ev) string {
	r.st.Revive()
	r.st.Plan = c12PlanFn(e.Plan)
	rec := &c12Recorder{}
	rc := composition.NewReconciler(&fake.Manager{Client: r.st}, composition.WithRecorder(rec))
	var res reconcile.Result
	var err error
	if p := Guard(func() {
		res, err = rc.Reconcile(context.Background(), reconcile.Request{NamespacedName: types.NamespacedName{Name: e.Comp}})
	}); p != "" {
		r.mon("C12:panic", p)
		return "panic"
	}
	r.calls = append(r.calls, r.st.Calls)
	crashed := r.st.Crashed()
	r.st.Revive()
	switch {
	case crashed:
		return "crashed"
	case err != nil:
		return "err"
	case res.Requeue:
		return "requeue"
	case rec.created:
		return "created"
	}
	return "ok"
}

// after a successful reconcile: the revision of the current content exists, is
// controlled by the Composition, and has the strictly highest number.
func (r *c12Runner) checkCurrent(e c12Ev, where string) {
	cu := r.st.Peek(c12CompGK, "", e.Comp)
	if cu == nil || cu.GetDeletionTimestamp() != nil {
		return
	}
	ci := r.compCI[e.Comp]
	t := r.tab(e.Comp, ci)
	var cur *unstructured.Unstructured
	revs := r.st.OfKind(c12RevGK)
	for _, u := range revs {
		if u.GetLabels()[v1.LabelCompositionName] == e.Comp && u.GetLabels()[v1.LabelCompositionHash] == t.Hash {
			cur = u
		}
	}
	if cur == nil {
		r.mon("C12:current-missing", fmt.Sprintf("%s: no revision for the current content #%d of %s after a successful reconcile", where, ci, e.Comp))
		return
	}
	r.captured[fmt.Sprintf("%d|%s", ci, e.Comp)] = true
	if c12Ctrl(cur) != string(cu.GetUID()) {
		r.mon("C12:current-not-controlled", fmt.Sprintf("%s: current revision %s is not controlled by %s", where, cur.GetName(), e.Comp))
	}
	for _, u := range revs {
		if u.GetName() == cur.GetName() || u.GetLabels()[v1.LabelCompositionName] != e.Comp {
			continue
		}
		if c12Num(u) >= c12Num(cur) {
			r.mon("C12:current-not-highest", fmt.Sprintf("%s: current revision %s has number %d but %s has %d", where, cur.GetName(), c12Num(cur), u.GetName(), c12Num(u)))
		}
	}
}

func (r *c12Runner) fetch(e c12Ev, where string) string {
	before := r.st.Peek(c12XRGVK.GroupKind(), "", e.XR)
	r.st.Revive()
	r.st.Plan = c12PlanFn(e.Plan)
	if r.fetcher == nil {
		r.fetcher = composite.NewAPIRevisionFetcher(resource.ClientApplicator{Client: r.st, Applicator: resource.NewAPIPatchingApplicator(r.st)})
	}
	f := r.fetcher
	defer func() {
		if r.st.Crashed() {
			r.fetcher = nil // process restart
		}
	}()
	var rev *v1.CompositionRevision
	var err error
	if p := Guard(func() {
		xr := ucomposite.New(ucomposite.WithGroupVersionKind(c12XRGVK))
		if err = r.st.Get(context.Background(), types.NamespacedName{Name: e.XR}, xr); err != nil {
			return
		}
		rev, err = f.Fetch(context.Background(), xr)
	}); p != "" {
		r.mon("C12:panic", p)
		return "panic"
	}
	r.calls = append(r.calls, r.st.Calls)
	crashed := r.st.Crashed()
	r.st.Revive()
	after := r.st.Peek(c12XRGVK.GroupKind(), "", e.XR)
	if before == nil || after == nil {
		if err == nil {
			return "?"
		}
		return "err"
	}
	pol, _, _ := unstructured.NestedString(before.Object, "spec", "compositionUpdatePolicy")
	refB, _, _ := unstructured.NestedString(before.Object, "spec", "compositionRevisionRef", "name")
	refA, _, _ := unstructured.NestedString(after.Object, "spec", "compositionRevisionRef", "name")
	compName, _, _ := unstructured.NestedString(before.Object, "spec", "compositionRef", "name")
	ok := err == nil && !crashed && rev != nil

	if pol == "Manual" && refB != "" {
		// Manual pins: the XR keeps the revision it references.
		if refA != refB {
			r.mon("C12:manual-moved", fmt.Sprintf("%s: Manual XR %s moved from %s to %s", where, e.XR, refB, refA))
		}
		if ok && rev.GetName() != refB {
			r.mon("C12:manual-moved", fmt.Sprintf("%s: Manual XR %s references %s but was handed %s", where, e.XR, refB, rev.GetName()))
		}
	} else {
		// Automatic (or nothing selected yet): the highest-numbered revision
		// controlled by the Composition, restricted by the selector.
		if refA != refB && (!ok && !crashed) {
			r.mon("C12:ref-changed-on-error", fmt.Sprintf("%s: XR %s ref %s -> %s although the fetch failed", where, e.XR, refB, refA))
		}
		if ok {
			var sel map[string]string
			if pol == "Automatic" {
				if m, found, _ := unstructured.NestedStringMap(before.Object, "spec", "compositionRevisionSelector", "matchLabels"); found {
					sel = m
				}
			}
			cu := r.st.Peek(c12CompGK, "", compName)
			var best *unstructured.Unstructured
			if cu != nil {
				for _, u := range r.st.OfKind(c12RevGK) {
					if u.GetLabels()[v1.LabelCompositionName] != compName || c12Ctrl(u) != string(cu.GetUID()) {
						continue
					}
					match := true
					for k, v := range sel {
						if k != v1.LabelCompositionName && u.GetLabels()[k] != v {
							match = false
						}
					}
					if !match {
						continue
					}
					if best == nil || c12Num(u) > c12Num(best) {
						best = u
					}
				}
			}
			switch {
			case best == nil:
				r.mon("C12:automatic-not-highest", fmt.Sprintf("%s: XR %s was handed %s although no controlled revision matches", where, e.XR, rev.GetName()))
			case c12Num(best) != rev.Spec.Revision || (best.GetName() != rev.GetName()):
				r.mon("C12:automatic-not-highest", fmt.Sprintf("%s: XR %s was handed %s (#%d), highest controlled matching revision is %s (#%d)", where, e.XR, rev.GetName(), rev.Spec.Revision, best.GetName(), c12Num(best)))
			}
			if refA != rev.GetName() {
				r.mon("C12:automatic-ref-not-updated", fmt.Sprintf("%s: XR %s was handed %s but references %q", where, e.XR, rev.GetName(), refA))
			}
		}
	}
	switch {
	case crashed:
		return "crashed"
	case err != nil:
		return "err"
	}
	return rev.GetName()
}

func c12Run(s *c12Scn) (c12Obs, []Mon, []int) {
	c12Prepare(s)
	scheme := kruntime.NewScheme()
	_ = v1.AddToScheme(scheme)
	r := &c12Runner{s: s, st: NewStore(scheme), seen: map[string]bool{}, prev: map[string]c12Snap{}, specKeys: map[string]int{},
		captured: map[string]bool{}, compCI: map[string]int{}, compUID: map[string]int{}}
	for _, c := range s.Contents {
		r.specKeys[c12SpecKey(c.Spec)] = c.Spec
	}
	for _, c := range s.Comps {
		if c.CI < 0 || c.CI >= len(s.Contents) {
			continue
		}
		r.putComp(c.Name, c.UID, c.CI, false)
		r.compCI[c.Name], r.compUID[c.Name] = c.CI, c.UID
	}
	for _, x := range s.XRs {
		xr := ucomposite.New(ucomposite.WithGroupVersionKind(c12XRGVK))
		xr.SetName(x.Name)
		xr.SetCompositionReference(&corev1.ObjectReference{Name: x.Comp})
		r.st.Seed(xr)
	}
	evNo := 0
	r.st.After = func(c CallInfo) {
		if c.IsWrite() {
			r.checkInstant(fmt.Sprintf("event %d call %d (%s %s)", evNo, c.Index, c.Verb, c.Name))
		}
	}
	obs := c12Obs{Steps: []c12OStep{}}
	for i, e := range s.Events {
		evNo = i
		where := fmt.Sprintf("event %d (%s)", i, e.Op)
		res := ""
		switch e.Op {
		case "edit":
			if _, ok := r.compCI[e.Comp]; ok && e.CI >= 0 && e.CI < len(s.Contents) {
				deleting := false
				if u := r.st.Peek(c12CompGK, "", e.Comp); u != nil && u.GetDeletionTimestamp() != nil {
					deleting = true
				}
				r.putComp(e.Comp, r.compUID[e.Comp], e.CI, deleting)
				r.compCI[e.Comp] = e.CI
			}
		case "restore":
			if ci, ok := r.compCI[e.Comp]; ok {
				r.compUID[e.Comp] = e.UID
				r.putComp(e.Comp, e.UID, ci, false)
				for _, u := range r.st.OfKind(c12RevGK) {
					if u.GetLabels()[v1.LabelCompositionName] == e.Comp {
						r.setOwner(u.GetName(), 0)
					}
				}
			}
		case "deleting":
			if ci, ok := r.compCI[e.Comp]; ok {
				r.putComp(e.Comp, r.compUID[e.Comp], ci, true)
			}
		case "strip":
			for _, n := range e.Names {
				r.setOwner(n, 0)
			}
		case "foreign":
			for _, n := range e.Names {
				r.setOwner(n, c12ForeignUID)
			}
		case "setxr":
			r.st.Mutate(c12XRGVK.GroupKind(), "", e.XR, func(u *unstructured.Unstructured) {
				xr := &ucomposite.Unstructured{Unstructured: *u}
				if e.Policy == "" {
					unstructured.RemoveNestedField(xr.Object, "spec", "compositionUpdatePolicy")
				} else {
					p := xpv1.UpdatePolicy(e.Policy)
					xr.SetCompositionUpdatePolicy(&p)
				}
				if e.Sel == nil {
					unstructured.RemoveNestedField(xr.Object, "spec", "compositionRevisionSelector")
				} else {
					ml := map[string]any{}
					for k, v := range *e.Sel {
						ml[k] = v
					}
					_ = unstructured.SetNestedMap(xr.Object, ml, "spec", "compositionRevisionSelector", "matchLabels")
				}
				switch e.Pin {
				case "":
				case "-":
					unstructured.RemoveNestedField(xr.Object, "spec", "compositionRevisionRef")
				default:
					xr.SetCompositionRevisionReference(&corev1.LocalObjectReference{Name: e.Pin})
				}
				u.Object = xr.Object
			})
		case "rec":
			res = r.reconcile(e)
			if res == "ok" || res == "created" {
				r.checkCurrent(e, where)
			}
		case "fetch":
			res = r.fetch(e, where)
		}
		r.checkInstant(where)
		r.checkCaptured(where)
		obs.Steps = append(obs.Steps, r.state(res))
	}
	return obs, r.mons, r.calls
}

// ---- generator ----------------------------------------------------------------

var c12Outcomes = []string{"fail", "conflict", "crashBefore", "crashAfter"}

func c12GenPlan(r *Rng, max int) []c12Fault {
	if r.Chance(1, 2) {
		return nil
	}
	n := 1
	if r.Chance(1, 4) {
		n = 2
	}
	var p []c12Fault
	for i := 0; i < n; i++ {
		p = append(p, c12Fault{K: r.Intn(max), O: Pick(r, c12Outcomes)})
	}
	return p
}

func c12Gen(r *Rng) c12Scn {
	s := c12Scn{}
	// 3..4 contents drawn from 3 specs x 3 label sets x 2 annotation sets
	labelSets := []map[string]string{{}, {"channel": "dev"}, {"channel": "staging"}, {"channel": "dev", "tier": "gold"}}
	nc := r.Range(3, 4)
	seen := map[string]bool{}
	for len(s.Contents) < nc {
		c := c12Content{Labels: Pick(r, labelSets), Annos: r.Intn(2), Spec: r.Intn(3)}
		k := mustJSON(c)
		if seen[k] {
			continue
		}
		seen[k] = true
		s.Contents = append(s.Contents, c)
	}
	compNames := []string{"comp-a"}
	if r.Chance(1, 3) {
		compNames = append(compNames, "comp-b")
	}
	for i, n := range compNames {
		s.Comps = append(s.Comps, c12CompInit{Name: n, UID: i + 1, CI: r.Intn(nc)})
	}
	s.XRs = []c12XRInit{{Name: "xr-0", Comp: "comp-a"}, {Name: "xr-1", Comp: Pick(r, compNames)}}
	c12Prepare(&s)
	namesOf := func(comp string) []string {
		var out []string
		for _, t := range s.Tab {
			if t.Comp == comp {
				out = append(out, t.Name)
			}
		}
		return out
	}
	nextUID := 10
	sels := []map[string]string{{}, {"channel": "dev"}, {"channel": "staging"}, {"channel": "prod"}, {"tier": "gold"}}
	genSetXR := func() c12Ev {
		e := c12Ev{Op: "setxr", XR: Pick(r, s.XRs).Name, Policy: Pick(r, []string{"", "Manual", "Manual", "Automatic", "Automatic"})}
		if r.Chance(1, 2) {
			m := Pick(r, sels)
			if r.Chance(1, 8) {
				m = map[string]string{v1.LabelCompositionHash: Pick(r, s.Tab).Hash}
			}
			e.Sel = &m
		}
		switch r.Intn(4) {
		case 0:
			e.Pin = "-"
		case 1:
			e.Pin = Pick(r, s.Tab).Name
		}
		return e
	}
	if r.Chance(2, 3) {
		s.Events = append(s.Events, genSetXR())
	}
	n := r.Range(5, 16)
	for i := 0; i < n; i++ {
		comp := Pick(r, compNames)
		x := r.Intn(100)
		switch {
		case x < 24:
			s.Events = append(s.Events, c12Ev{Op: "edit", Comp: comp, CI: r.Intn(nc)})
			if r.Chance(2, 3) {
				s.Events = append(s.Events, c12Ev{Op: "rec", Comp: comp, Plan: c12GenPlan(r, 9)})
			}
		case x < 58:
			s.Events = append(s.Events, c12Ev{Op: "rec", Comp: comp, Plan: c12GenPlan(r, 9)})
		case x < 66:
			all := namesOf(comp)
			var pick []string
			if r.Chance(1, 2) {
				pick = all
			} else {
				for _, nm := range all {
					if r.Bool() {
						pick = append(pick, nm)
					}
				}
			}
			s.Events = append(s.Events, c12Ev{Op: "strip", Comp: comp, Names: pick})
		case x < 72:
			s.Events = append(s.Events, c12Ev{Op: "restore", Comp: comp, UID: nextUID})
			nextUID++
		case x < 74:
			s.Events = append(s.Events, c12Ev{Op: "foreign", Comp: comp, Names: []string{Pick(r, namesOf(comp))}})
		case x < 75:
			s.Events = append(s.Events, c12Ev{Op: "deleting", Comp: comp})
		case x < 84:
			e := genSetXR()
			s.Events = append(s.Events, e)
		default:
			s.Events = append(s.Events, c12Ev{Op: "fetch", XR: Pick(r, s.XRs).Name, Plan: c12GenPlan(r, 6)})
		}
	}
	return s
}

func c12ContentKind(a, b c12Content) string {
	sameL := c12LabelsEq(a.Labels, b.Labels)
	switch {
	case a.Spec == b.Spec && a.Annos == b.Annos && !sameL:
		return "labelonly"
	case a.Spec == b.Spec && a.Annos != b.Annos && sameL:
		return "annoonly"
	}
	return ""
}

// c12Class: size and the branches of the quantifier a history exercises.
func c12Class(s *c12Scn, obs c12Obs) string {
	has := map[string]bool{}
	aba := false
	hist := map[string][]int{}
	cur := map[string]int{}
	for _, c := range s.Comps {
		cur[c.Name] = c.CI
	}
	xrpol := map[string]string{}
	for i, e := range s.Events {
		has[e.Op] = true
		if len(e.Plan) > 0 {
			has["faults"] = true
		}
		switch e.Op {
		case "edit":
			if old, ok := cur[e.Comp]; ok && e.CI >= 0 && e.CI < len(s.Contents) {
				if k := c12ContentKind(s.Contents[old], s.Contents[e.CI]); k != "" {
					has[k] = true
				}
				cur[e.Comp] = e.CI
			}
		case "setxr":
			p := "unset"
			if e.Policy != "" {
				p = e.Policy
			}
			if e.Sel != nil && e.Policy == "Automatic" {
				p += "+sel"
			}
			xrpol[e.XR] = p
		case "fetch":
			p := xrpol[e.XR]
			if p == "" {
				p = "unset"
			}
			has["fetch:"+p] = true
		case "rec":
			if i < len(obs.Steps) && (obs.Steps[i].Res == "ok" || obs.Steps[i].Res == "created") {
				ci, h := cur[e.Comp], hist[e.Comp]
				if len(h) > 0 && h[len(h)-1] != ci {
					for _, q := range h[:len(h)-1] {
						if q == ci {
							aba = true
						}
					}
				}
				if len(h) == 0 || h[len(h)-1] != ci {
					hist[e.Comp] = append(h, ci)
				}
			}
		}
	}
	maxRevs := 0
	for _, st := range obs.Steps {
		if len(st.Revs) > maxRevs {
			maxRevs = len(st.Revs)
		}
	}
	if maxRevs == 0 {
		return "trivial/no-revision"
	}
	size := fmt.Sprintf("revs=%d", maxRevs)
	if maxRevs >= 4 {
		size = "revs>=4"
	}
	parts := []string{size}
	if aba {
		parts = append(parts, "aba")
	}
	for _, k := range []string{"labelonly", "annoonly"} {
		if has[k] {
			parts = append(parts, k)
			break
		}
	}
	if has["strip"] || has["restore"] {
		parts = append(parts, "stripped")
	}
	if has["faults"] {
		parts = append(parts, "faults")
	}
	for _, k := range []string{"fetch:Manual", "fetch:Automatic+sel", "fetch:Automatic", "fetch:unset"} {
		if has[k] {
			parts = append(parts, k)
			break
		}
	}
	return strings.Join(parts, "/")
}

func c12Emit(c *Ctx, s *c12Scn, tag string) []int {
	obs, mons, calls := c12Run(s)
	cls := c12Class(s, obs)
	if strings.HasPrefix(tag, "sweep") {
		cls = tag // the fault position x outcome is the class of a sweep member
	} else if tag != "" {
		cls = tag + "/" + cls
	}
	c.Emit(s, obs, mons, cls)
	return calls
}

func init() {
	Register("C12", func(c *Ctx) {
		for _, raw := range c.Corpus {
			var s c12Scn
			if err := jsonUnmarshalStrict(raw, &s); err == nil && len(s.Contents) > 0 {
				c12Emit(c, &s, "corpus")
			}
		}
		budget := c.N
		for budget > 0 {
			s := c12Gen(c.Rng)
			calls := c12Emit(c, &s, "")
			budget--
			// Fault sweep: for one reconcile/fetch of this history, every call
			// index it issued x every outcome (quick: every 30th scenario; thorough: every 10th).
			every := 30
			if c.Tier == "thorough" {
				every = 10
			}
			if c.Rng.Intn(every) != 0 {
				continue
			}
			var idx []int
			for i, e := range s.Events {
				if e.Op == "rec" || e.Op == "fetch" {
					idx = append(idx, i)
				}
			}
			if len(idx) == 0 || len(calls) != len(idx) {
				continue
			}
			j := c.Rng.Intn(len(idx))
			for k := 0; k < calls[j] && budget > 0; k++ {
				for _, o := range c12Outcomes {
					if budget <= 0 {
						break
					}
					v := s
					v.Events = append([]c12Ev{}, s.Events...)
					v.Events[idx[j]].Plan = []c12Fault{{K: k, O: o}}
					c12Emit(c, &v, fmt.Sprintf("sweep/%s/k=%d/%s", s.Events[idx[j]].Op, k, o))
					budget--
				}
			}
		}
	})
	RegisterDump("C12", func() string {
		probe := c12Comp("probe", 1, c12Content{Spec: 0})
		rev := composition.NewCompositionRevision(probe, 1)
		suffix := len(rev.GetName()) - len(probe.GetName()) - 1
		return fmt.Sprintf("/-- v1.LabelCompositionName -/\ndef labelCompositionName : String := %s\n", leanStr(v1.LabelCompositionName)) +
			fmt.Sprintf("/-- v1.LabelCompositionHash -/\ndef labelCompositionHash : String := %s\n", leanStr(v1.LabelCompositionHash)) +
			fmt.Sprintf("/-- length of Composition.Hash() (probed) -/\ndef compositionHashLen : Nat := %d\n", len(probe.Hash())) +
			fmt.Sprintf("/-- length of the composition-hash label value (probed on NewCompositionRevision) -/\ndef revisionHashLabelLen : Nat := %d\n", len(rev.GetLabels()[v1.LabelCompositionHash])) +
			fmt.Sprintf("/-- length of the hash suffix of a revision name (probed) -/\ndef revisionNameSuffixLen : Nat := %d\n", suffix) +
			"/-- ordered API calls and the LatestRevision computation in composition.Reconciler.Reconcile (go/ast walk of the current tree) -/\n" +
			"def compositionReconcileSkeleton : List String := " + leanStrList(c12Skeleton()) + "\n"
	})
}

// c12Skeleton walks composition/reconciler.go of the tree the harness was built
// from and returns, in source order, the client calls and the LatestRevision call
// of Reconciler.Reconcile, with loop boundaries.
func c12Skeleton() []string {
	pc := reflect.ValueOf(composition.NewReconciler).Pointer()
	fn := runtime.FuncForPC(pc)
	if fn == nil {
		return []string{"unknown: no func info"}
	}
	file, _ := fn.FileLine(pc)
	fset := token.NewFileSet()
	f, err := parser.ParseFile(fset, file, nil, 0)
	if err != nil {
		return []string{"unknown: " + err.Error()}
	}
	var out []string
	var walk func(n ast.Node)
	walk = func(n ast.Node) {
		ast.Inspect(n, func(x ast.Node) bool {
			switch t := x.(type) {
			case *ast.RangeStmt:
				out = append(out, "loop{")
				walk(t.Body)
				out = append(out, "}")
				return false
			case *ast.ForStmt:
				out = append(out, "loop{")
				walk(t.Body)
				out = append(out, "}")
				return false
			case *ast.CallExpr:
				if sel, ok := t.Fun.(*ast.SelectorExpr); ok {
					if inner, ok := sel.X.(*ast.SelectorExpr); ok && inner.Sel.Name == "client" {
						out = append(out, sel.Sel.Name)
					}
					if id, ok := sel.X.(*ast.Ident); ok && id.Name == "v1" && sel.Sel.Name == "LatestRevision" {
						out = append(out, "LatestRevision")
					}
					if id, ok := sel.X.(*ast.Ident); ok && id.Name == "meta" && sel.Sel.Name == "AddControllerReference" {
						out = append(out, "AddControllerReference")
					}
				}
			}
			return true
		})
	}
	for _, d := range f.Decls {
		fd, ok := d.(*ast.FuncDecl)
		if !ok || fd.Name.Name != "Reconcile" || fd.Body == nil {
			continue
		}
		walk(fd.Body)
	}
	if len(out) == 0 {
		return []string{"unknown: Reconcile not found"}
	}
	return out
}

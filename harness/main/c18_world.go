//go:build verif

package main

// C18 world: everything around one reconcile of an RBAC reconciler.
//
// The real reconcilers are built ONCE per process (roles.Setup / definition.Setup /
// binding.Setup; the ClusterRoleBackedValidator too) around mgr.GetClient(), the CACHED client:
// reads are answered by the informer cache, writes go to the API server. c18Client is that
// client. Per API call k of a round (the scenario's events) it realises
//
//   - other writers: edits applied to the store right before the call (simstore's Before window):
//     an administrator editing the allow-list role, another controller / replica / the garbage
//     collector creating, taking over or deleting the very role the Apply is about, a revision
//     being paused, deleted, re-created (new UID) or edited, family members coming and going;
//   - the informer cache: a READ may be answered from an older store (the store at the start of
//     the round or of the scenario) and/or lack objects the cache has not seen yet;
//   - error classes: the call is not applied and fails with NotFound / AlreadyExists / Conflict /
//     Forbidden / Invalid / a Temporary() timeout / context.DeadlineExceeded (besides the generic
//     fault plan outcomes fail / conflict / crashBefore / crashAfter).
//
// The call itself is always issued to the simstore, so it is counted, logged and subject to the
// plan; only the answer of a read is replaced. Everything the reconcile was SERVED and every
// write that took effect (with the true store at that instant) is recorded in c18RoundRec: the
// monitors judge each write against what this very reconcile was served.

import (
	"context"
	"fmt"
	"reflect"
	"strings"

	appsv1 "k8s.io/api/apps/v1"
	rbacv1 "k8s.io/api/rbac/v1"
	kerrors "k8s.io/apimachinery/pkg/api/errors"
	apimeta "k8s.io/apimachinery/pkg/api/meta"
	"k8s.io/apimachinery/pkg/runtime"
	"k8s.io/apimachinery/pkg/runtime/schema"
	"k8s.io/apimachinery/pkg/types"
	"sigs.k8s.io/controller-runtime/pkg/client"

	"github.com/crossplane/crossplane-runtime/pkg/meta"

	extv1 "github.com/crossplane/crossplane/apis/apiextensions/v1"
	pkgv1 "github.com/crossplane/crossplane/apis/pkg/v1"
)

// c18Write is one write that took effect, with the true store at that instant.
type c18Write struct {
	Verb, GK, Name string
	Role           *c18Role    // the ClusterRole as stored by the write
	Binding        *c18Binding // the ClusterRoleBinding as stored by the write
	PrevRole       *c18Role    // the true store's object right before the write (nil = absent)
	PrevBinding    *c18Binding
	// the true store at the moment of the write (an admissible justification besides what was served)
	TruePRs     []c18PR
	TrueXRDs    []c18XRD
	TrueDeploys []c18Deploy
	TrueAllow   *[]c18PRule // nil = no allow-list role
}

// c18RoundRec is what one reconcile was served and what it wrote.
type c18RoundRec struct {
	Target   string
	PRs      []c18PR       // versions of a ProviderRevision served by Get
	Lists    [][]c18PR     // ProviderRevision lists served
	XRDs     []c18XRD      // versions of an XRD served by Get
	DepLists [][]c18Deploy // Deployment lists served
	Allows   [][]c18PRule  // versions of the allow-list role served by Get
	Writes   []c18Write
	Interf   bool // an other writer acted during the round
}

type c18World struct {
	st    *Store
	snap0 *Store // the store at the start of the scenario
	snapR *Store // the store at the start of the round
	base  int    // st.Calls at the start of the round
	evs   map[int]c18Ev
	rec   *c18RoundRec
	prev  *c18Write // pre-state captured in the Before window of the write in flight
}

// c18TempErr is a transport error that is Temporary() and a Timeout().
type c18TempErr struct{}

func (c18TempErr) Error() string   { return "simstore: i/o timeout" }
func (c18TempErr) Temporary() bool { return true }
func (c18TempErr) Timeout() bool   { return true }

var c18Classes = []string{"notFound", "alreadyExists", "conflictErr", "forbidden", "invalid", "timeout", "deadline"}

func c18IsClass(o string) bool {
	for _, c := range c18Classes {
		if c == o {
			return true
		}
	}
	return false
}

func c18ClassErr(o string, gk schema.GroupKind, name string) error {
	gr := schema.GroupResource{Group: gk.Group, Resource: strings.ToLower(gk.Kind)}
	switch o {
	case "notFound":
		return kerrors.NewNotFound(gr, name)
	case "alreadyExists":
		return kerrors.NewAlreadyExists(gr, name)
	case "conflictErr":
		return kerrors.NewConflict(gr, name, fmt.Errorf("injected"))
	case "forbidden":
		return kerrors.NewForbidden(gr, name, fmt.Errorf("injected"))
	case "invalid":
		return kerrors.NewInvalid(gk, name, nil)
	case "timeout":
		return c18TempErr{}
	case "deadline":
		return context.DeadlineExceeded
	}
	return nil
}

// ---------------------------------------------------------------- conversions from API objects

func c18PRFromObj(pr *pkgv1.ProviderRevision) c18PR {
	p := c18PR{Name: pr.Name, UID: string(pr.UID), Paused: meta.IsPaused(pr), Deleted: pr.DeletionTimestamp != nil,
		Family: pr.Labels[pkgv1.LabelProviderFamily], Pkg: pr.Spec.Package, Refs: []c18Ref{}, Requests: c18FromK8sRules(pr.Status.PermissionRequests)}
	p.Org = c18ParseOrg(p.Pkg)
	p.Inactive = pr.Spec.DesiredState == pkgv1.PackageRevisionInactive
	for _, r := range pr.Status.ObjectRefs {
		p.Refs = append(p.Refs, c18Ref{APIVersion: r.APIVersion, Kind: r.Kind, Name: r.Name})
	}
	return p
}

func c18XRDFromObj(d *extv1.CompositeResourceDefinition) c18XRD {
	x := c18XRD{Name: d.Name, UID: string(d.UID), Deleted: d.DeletionTimestamp != nil, Group: d.Spec.Group, Plural: d.Spec.Names.Plural}
	if d.Spec.ClaimNames != nil {
		x.HasClaim, x.Claim = true, d.Spec.ClaimNames.Plural
	}
	return x
}

func c18DeployFromObj(d *appsv1.Deployment) c18Deploy {
	o := c18Deploy{NS: d.Namespace, Name: d.Name, SA: d.Spec.Template.Spec.ServiceAccountName, Owners: []string{}}
	for _, r := range d.OwnerReferences {
		o.Owners = append(o.Owners, string(r.UID))
	}
	return o
}

func c18RoleFromObj(cr *rbacv1.ClusterRole) c18Role {
	r := c18Role{Name: cr.Name, Labels: []c18KV{}, Rules: c18FromK8sRules(cr.Rules), Ctrl: c18Ctrl(cr.OwnerReferences)}
	for k, v := range cr.Labels {
		r.Labels = append(r.Labels, c18KV{k, v})
	}
	sortKVs(r.Labels)
	return r
}

func sortKVs(l []c18KV) {
	for i := 1; i < len(l); i++ {
		for j := i; j > 0 && l[j][0] < l[j-1][0]; j-- {
			l[j], l[j-1] = l[j-1], l[j]
		}
	}
}

func c18BindingFromObj(b *rbacv1.ClusterRoleBinding) c18Binding {
	ob := c18Binding{Name: b.Name, RoleRef: b.RoleRef.Name, Subjects: []c18Subject{}, Ctrl: c18Ctrl(b.OwnerReferences)}
	if b.RoleRef.Kind != "ClusterRole" || b.RoleRef.APIGroup != rbacv1.GroupName {
		ob.RoleRef = b.RoleRef.APIGroup + "/" + b.RoleRef.Kind + "/" + b.RoleRef.Name
	}
	for _, sj := range b.Subjects {
		n := sj.Name
		if sj.Kind != rbacv1.ServiceAccountKind {
			n = sj.Kind + ":" + n
		}
		ob.Subjects = append(ob.Subjects, c18Subject{NS: sj.Namespace, Name: n})
	}
	return ob
}

var (
	c18PRGK     = schema.GroupKind{Group: "pkg.crossplane.io", Kind: "ProviderRevision"}
	c18XRDGK    = schema.GroupKind{Group: "apiextensions.crossplane.io", Kind: "CompositeResourceDefinition"}
	c18DeployGK = schema.GroupKind{Group: "apps", Kind: "Deployment"}
)

func c18StorePRs(st *Store) []c18PR {
	out := []c18PR{}
	for _, u := range st.OfKind(c18PRGK) {
		pr := &pkgv1.ProviderRevision{}
		if runtime.DefaultUnstructuredConverter.FromUnstructured(u.Object, pr) == nil {
			out = append(out, c18PRFromObj(pr))
		}
	}
	return out
}

func c18StoreXRDs(st *Store) []c18XRD {
	out := []c18XRD{}
	for _, u := range st.OfKind(c18XRDGK) {
		d := &extv1.CompositeResourceDefinition{}
		if runtime.DefaultUnstructuredConverter.FromUnstructured(u.Object, d) == nil {
			out = append(out, c18XRDFromObj(d))
		}
	}
	return out
}

func c18StoreDeploys(st *Store) []c18Deploy {
	out := []c18Deploy{}
	for _, u := range st.OfKind(c18DeployGK) {
		d := &appsv1.Deployment{}
		if runtime.DefaultUnstructuredConverter.FromUnstructured(u.Object, d) == nil {
			out = append(out, c18DeployFromObj(d))
		}
	}
	return out
}

func c18StoreRole(st *Store, name string) *c18Role {
	u := st.Peek(c18RoleGK, "", name)
	if u == nil {
		return nil
	}
	cr := &rbacv1.ClusterRole{}
	if runtime.DefaultUnstructuredConverter.FromUnstructured(u.Object, cr) != nil {
		return nil
	}
	r := c18RoleFromObj(cr)
	return &r
}

func c18StoreBinding(st *Store, name string) *c18Binding {
	u := st.Peek(c18BindingGK, "", name)
	if u == nil {
		return nil
	}
	b := &rbacv1.ClusterRoleBinding{}
	if runtime.DefaultUnstructuredConverter.FromUnstructured(u.Object, b) != nil {
		return nil
	}
	ob := c18BindingFromObj(b)
	return &ob
}

// ---------------------------------------------------------------- edits by other writers

func c18PRObj(p c18PR) *pkgv1.ProviderRevision {
	pr := &pkgv1.ProviderRevision{}
	pr.Name, pr.UID = p.Name, types.UID(p.UID)
	pr.Spec.Package = p.Pkg
	pr.Spec.DesiredState = pkgv1.PackageRevisionActive
	if p.Inactive {
		pr.Spec.DesiredState = pkgv1.PackageRevisionInactive
	}
	if p.Family != "" {
		pr.Labels = map[string]string{pkgv1.LabelProviderFamily: p.Family}
	}
	if p.Paused {
		pr.Annotations = map[string]string{meta.AnnotationKeyReconciliationPaused: "true"}
	}
	if p.Deleted {
		now := c18Epoch
		pr.DeletionTimestamp = &now
		pr.Finalizers = []string{"verif/keep"}
	}
	for _, r := range p.Refs {
		pr.Status.ObjectRefs = append(pr.Status.ObjectRefs, c18TypedRef(r))
	}
	pr.Status.PermissionRequests = c18K8sRules(p.Requests)
	if len(pr.Status.PermissionRequests) == 0 {
		pr.Status.PermissionRequests = nil
	}
	return pr
}

func c18ApplyEdit(st *Store, s *c18Scn, e c18Edit) {
	switch e.Op {
	case "setRole":
		if e.Role != nil {
			// edited in place (same UID, new resourceVersion) unless deleted and re-created
			uid := ""
			if u := st.Peek(c18RoleGK, "", e.Role.Name); u != nil && !e.Recreate {
				uid = string(u.GetUID())
			}
			cr := c18RoleObj(*s, *e.Role)
			cr.UID = types.UID(uid)
			st.Seed(cr)
		}
	case "delRole":
		st.Remove(c18RoleGK, "", e.Name)
	case "setPR":
		if e.PR != nil {
			st.Seed(c18PRObj(*e.PR))
		}
	case "delPR":
		st.Remove(c18PRGK, "", e.Name)
	case "setXRD":
		if e.XRD != nil {
			st.Seed(c18XRDObj(*e.XRD))
		}
	case "delXRD":
		st.Remove(c18XRDGK, "", e.Name)
	case "setDeploy":
		if e.Deploy != nil {
			st.Seed(c18DeployObj(*s, *e.Deploy))
		}
	case "delDeploy":
		st.Remove(c18DeployGK, e.NS, e.Name)
	case "setBinding":
		if e.Binding != nil {
			b := c18BindingObj(*s, *e.Binding)
			if u := st.Peek(c18BindingGK, "", e.Binding.Name); u != nil && !e.Recreate {
				b.UID = u.GetUID()
			}
			st.Seed(b)
		}
	case "delBinding":
		st.Remove(c18BindingGK, "", e.Name)
	}
}

// ---------------------------------------------------------------- the cached client

type c18Client struct {
	*Store
	w *c18World
}

func (w *c18World) ev() (c18Ev, bool) {
	e, ok := w.evs[w.st.Calls-w.base]
	return e, ok
}

// install wires the round's events into the store: the plan (a class injection is a call that
// is not applied) and the Before window (other writers; the pre-state of a write).
func (w *c18World) install(s *c18Scn) {
	w.st.Plan = func(c CallInfo) Outcome {
		e, ok := w.evs[c.Index-w.base]
		if !ok {
			return OK
		}
		switch e.O {
		case "fail":
			return Fail
		case "conflict":
			return Conflict
		case "crashBefore":
			return CrashBefore
		case "crashAfter":
			return CrashAfter
		}
		if c18IsClass(e.O) {
			return Fail
		}
		return OK
	}
	w.st.Before = func(c CallInfo) {
		if e, ok := w.evs[c.Index-w.base]; ok {
			for _, ed := range e.Edits {
				c18ApplyEdit(w.st, s, ed)
				w.rec.Interf = true
			}
		}
		w.prev = nil
		if c.IsWrite() {
			p := &c18Write{Verb: c.Verb, GK: c.GK, Name: c.Name}
			p.PrevRole = c18StoreRole(w.st, c.Name)
			p.PrevBinding = c18StoreBinding(w.st, c.Name)
			p.TruePRs, p.TrueXRDs, p.TrueDeploys = c18StorePRs(w.st), c18StoreXRDs(w.st), c18StoreDeploys(w.st)
			if a := c18StoreRole(w.st, c18AllowName); a != nil {
				p.TrueAllow = &a.Rules
			}
			w.prev = p
		}
	}
}

// last returns the log entry of the call just issued (nil: the process is dead, nothing happened).
func (w *c18World) last(n0 int) *CallInfo {
	if len(w.st.Log) == n0 {
		return nil
	}
	return &w.st.Log[len(w.st.Log)-1]
}

// classified replaces the generic error of a call that the plan did not apply by the class the
// event asks for.
func (w *c18World) classified(e c18Ev, has bool, last *CallInfo, gk schema.GroupKind, name string, err error) error {
	if has && c18IsClass(e.O) && last != nil && last.Outcome == "fail" {
		err = c18ClassErr(e.O, gk, name)
		last.Err = errClass(err)
	}
	return err
}

func c18Has2(xs []string, x string) bool { return c18Has(xs, x) }

func (c *c18Client) Get(ctx context.Context, key client.ObjectKey, obj client.Object, opts ...client.GetOption) error {
	w := c.w
	e, has := w.ev()
	gvk, gerr := c.Store.GroupVersionKindFor(obj)
	if gerr != nil {
		return c.Store.Get(ctx, key, obj, opts...)
	}
	before := obj.DeepCopyObject()
	n0 := len(c.Store.Log)
	err := c.Store.Get(ctx, key, obj, opts...)
	last := w.last(n0)
	if last == nil {
		return err
	}
	if last.Outcome != "ok" {
		return w.classified(e, has, last, gvk.GroupKind(), key.Name, err)
	}
	if has && (e.View != "" || len(e.Miss) > 0) {
		// the answer of the informer cache
		src := c.Store
		switch e.View {
		case "old":
			src = w.snapR
		case "old0":
			src = w.snap0
		}
		fresh := reflect.New(reflect.TypeOf(obj).Elem()).Interface().(client.Object)
		if src != c.Store {
			err = src.Get(ctx, key, fresh, opts...)
		} else if err == nil {
			reflect.ValueOf(fresh).Elem().Set(reflect.ValueOf(obj).Elem())
		}
		if err == nil && c18Has(e.Miss, key.Name) {
			err = kerrors.NewNotFound(schema.GroupResource{Group: gvk.Group, Resource: strings.ToLower(gvk.Kind)}, key.Name)
		}
		if err != nil {
			reflect.ValueOf(obj).Elem().Set(reflect.ValueOf(before).Elem()) // a failed Get leaves the object untouched
		} else {
			reflect.ValueOf(obj).Elem().Set(reflect.ValueOf(fresh).Elem())
		}
		last.Err = errClass(err)
	}
	if err == nil {
		switch o := obj.(type) {
		case *pkgv1.ProviderRevision:
			w.rec.PRs = append(w.rec.PRs, c18PRFromObj(o))
		case *extv1.CompositeResourceDefinition:
			w.rec.XRDs = append(w.rec.XRDs, c18XRDFromObj(o))
		case *rbacv1.ClusterRole:
			if o.Name == c18AllowName {
				w.rec.Allows = append(w.rec.Allows, c18FromK8sRules(o.Rules))
			}
		}
	}
	return err
}

func (c *c18Client) List(ctx context.Context, list client.ObjectList, opts ...client.ListOption) error {
	w := c.w
	e, has := w.ev()
	gvk, gerr := c.Store.GroupVersionKindFor(list)
	if gerr != nil {
		return c.Store.List(ctx, list, opts...)
	}
	gk := schema.GroupKind{Group: gvk.Group, Kind: strings.TrimSuffix(gvk.Kind, "List")}
	n0 := len(c.Store.Log)
	err := c.Store.List(ctx, list, opts...)
	last := w.last(n0)
	if last == nil {
		return err
	}
	if last.Outcome != "ok" {
		return w.classified(e, has, last, gk, "", err)
	}
	if has && (e.View != "" || len(e.Miss) > 0) && err == nil {
		src := c.Store
		switch e.View {
		case "old":
			src = w.snapR
		case "old0":
			src = w.snap0
		}
		if src != c.Store {
			fresh := reflect.New(reflect.TypeOf(list).Elem()).Interface().(client.ObjectList)
			if err = src.List(ctx, fresh, opts...); err == nil {
				reflect.ValueOf(list).Elem().Set(reflect.ValueOf(fresh).Elem())
			}
		}
		if err == nil && len(e.Miss) > 0 {
			items, _ := apimeta.ExtractList(list)
			kept := []runtime.Object{}
			for _, it := range items {
				if m, ok := it.(client.Object); ok && c18Has(e.Miss, m.GetName()) {
					continue
				}
				kept = append(kept, it)
			}
			_ = apimeta.SetList(list, kept)
		}
		last.Err = errClass(err)
	}
	if err == nil {
		switch l := list.(type) {
		case *pkgv1.ProviderRevisionList:
			ps := []c18PR{}
			for i := range l.Items {
				ps = append(ps, c18PRFromObj(&l.Items[i]))
			}
			w.rec.Lists = append(w.rec.Lists, ps)
		case *appsv1.DeploymentList:
			ds := []c18Deploy{}
			for i := range l.Items {
				ds = append(ds, c18DeployFromObj(&l.Items[i]))
			}
			w.rec.DepLists = append(w.rec.DepLists, ds)
		}
	}
	return err
}

// wrote records a write that took effect.
func (w *c18World) wrote(last *CallInfo) {
	if last == nil || !last.Applied || w.prev == nil {
		return
	}
	p := *w.prev
	p.Role = c18StoreRole(w.st, last.Name)
	p.Binding = c18StoreBinding(w.st, last.Name)
	if last.GK != gkString(c18RoleGK) {
		p.Role, p.PrevRole = nil, nil
	}
	if last.GK != gkString(c18BindingGK) {
		p.Binding, p.PrevBinding = nil, nil
	}
	w.rec.Writes = append(w.rec.Writes, p)
}

func (c *c18Client) write(obj client.Object, do func() error) error {
	w := c.w
	e, has := w.ev()
	gvk, _ := c.Store.GroupVersionKindFor(obj)
	n0 := len(c.Store.Log)
	err := do()
	last := w.last(n0)
	if last == nil {
		return err
	}
	w.wrote(last)
	return w.classified(e, has, last, gvk.GroupKind(), obj.GetName(), err)
}

func (c *c18Client) Create(ctx context.Context, obj client.Object, opts ...client.CreateOption) error {
	return c.write(obj, func() error { return c.Store.Create(ctx, obj, opts...) })
}

func (c *c18Client) Update(ctx context.Context, obj client.Object, opts ...client.UpdateOption) error {
	return c.write(obj, func() error { return c.Store.Update(ctx, obj, opts...) })
}

func (c *c18Client) Patch(ctx context.Context, obj client.Object, patch client.Patch, opts ...client.PatchOption) error {
	return c.write(obj, func() error { return c.Store.Patch(ctx, obj, patch, opts...) })
}

func (c *c18Client) Delete(ctx context.Context, obj client.Object, opts ...client.DeleteOption) error {
	return c.write(obj, func() error { return c.Store.Delete(ctx, obj, opts...) })
}

//go:build verif

package main

// C05, family "ptst": the REAL P&T composer behind the REAL reconciler (both long-lived) with 1..3
// named templates whose readiness is decided by real readiness checks, some applies rejected by
// the API server - and, the P&T counterpart of a function writing the desired XR status, a
// ToCompositeFieldPath patch whose target is a field of the XR's status.conditions. The reconcile
// may fail to publish connection details (any error class) or lose its final status update.

import (
	"context"
	"encoding/json"
	"fmt"

	corev1 "k8s.io/api/core/v1"
	metav1 "k8s.io/apimachinery/pkg/apis/meta/v1"
	"k8s.io/apimachinery/pkg/apis/meta/v1/unstructured"
	"k8s.io/apimachinery/pkg/runtime"
	"k8s.io/apimachinery/pkg/types"
	"sigs.k8s.io/controller-runtime/pkg/reconcile"

	xpv1 "github.com/crossplane/crossplane-runtime/apis/common/v1"
	"github.com/crossplane/crossplane-runtime/pkg/reconciler/managed"
	"github.com/crossplane/crossplane-runtime/pkg/resource"
	ucomposite "github.com/crossplane/crossplane-runtime/pkg/resource/unstructured/composite"

	v1 "github.com/crossplane/crossplane/apis/apiextensions/v1"
	"github.com/crossplane/crossplane/internal/controller/apiextensions/composite"
)

type c05PTRes struct {
	Name    string `json:"name"`
	Ready   bool   `json:"ready"`   // its readiness checks hold
	Checks  int    `json:"checks"`  // how many readiness checks the template has (1..3)
	Invalid bool   `json:"invalid"` // the API server rejects the apply (422)
}

type c05PTRec struct {
	XR  int        `json:"xr"`
	Res []c05PTRes `json:"res"`
	// Patch: index into the XR's status.conditions whose .status a ToCompositeFieldPath patch of
	// the FIRST template sets to PatchTo (-1 = no such patch)
	Patch   int    `json:"patch"`
	PatchTo string `json:"patchTo"`
	Publish string `json:"publish"`
	Lost    string `json:"lost"`
}

type c05PTScn struct {
	Kind string     `json:"kind"` // "ptst"
	XRs  []c05XR    `json:"xrs"`
	Recs []c05PTRec `json:"recs"`
}

func c05GenPT(r *Rng) c05PTScn {
	s := c05PTScn{Kind: "ptst"}
	names := r.Perm(len(c05XRNames))
	for i, n := 0, r.Range(1, 2); i < n; i++ {
		s.XRs = append(s.XRs, c05XR{Name: c05XRNames[names[i]], Fin: true, Old: c05GenConds(r, 4, []string{"Old", "Available", "Creating", "ReconcileSuccess"})})
	}
	for i, n := 0, r.Range(1, 3); i < n; i++ {
		rec := c05PTRec{XR: r.Intn(len(s.XRs)), Patch: -1}
		p := r.Perm(4)
		for j, m := 0, r.Range(1, 3); j < m; j++ {
			rec.Res = append(rec.Res, c05PTRes{Name: []string{"a", "b", "c", "d"}[p[j]], Ready: r.Chance(3, 4), Checks: r.Range(1, 3), Invalid: r.Chance(1, 10)})
		}
		if r.Chance(1, 6) {
			rec.Publish = Pick(r, c05ErrClasses)
		}
		if r.Chance(1, 10) {
			rec.Lost = Pick(r, c05ErrClasses)
		}
		s.Recs = append(s.Recs, rec)
	}
	// the status.conditions patch only in the FIRST reconcile of an XR: the index is then an index
	// into the seeded list
	first := map[int]bool{}
	for i := range s.Recs {
		x := s.Recs[i].XR
		if !first[x] && len(s.XRs[x].Old) > 0 && !s.Recs[i].Res[0].Invalid && r.Chance(1, 3) {
			s.Recs[i].Patch = r.Intn(len(s.XRs[x].Old))
			s.Recs[i].PatchTo = Pick(r, []string{"True", "True", "False"})
		}
		first[x] = true
	}
	return s
}

type c05PTWorld struct {
	st  *Store
	cl  *c05Client
	rec *composite.Reconciler
	cur *c05PTRec
}

func c05PTRevision(rec c05PTRec) *v1.CompositionRevision {
	rev := &v1.CompositionRevision{}
	mode := v1.CompositionModeResources
	rev.Spec.Mode = &mode
	for i, d := range rec.Res {
		name := d.Name
		content := 1
		if d.Invalid {
			content = xwInvalidContent
		}
		kind := c05FnKindOf[d.Name]
		base := map[string]any{"apiVersion": xwGroup + "/v1", "kind": kind, "spec": map[string]any{"content": content, "flag": rec.PatchTo, "s": "ok"}}
		raw, _ := json.Marshal(base)
		t := v1.ComposedTemplate{Name: &name, Base: runtime.RawExtension{Raw: raw}}
		// the first check decides; the others hold
		for k := 0; k < d.Checks; k++ {
			rc := v1.ReadinessCheck{Type: v1.ReadinessCheckTypeMatchString, FieldPath: "spec.s", MatchString: "ok"}
			if k == d.Checks-1 && !d.Ready {
				// the LAST check is the one that does not hold
				rc = v1.ReadinessCheck{Type: v1.ReadinessCheckTypeNonEmpty, FieldPath: "status.neverSet"}
			}
			t.ReadinessChecks = append(t.ReadinessChecks, rc)
		}
		if i == 0 && rec.Patch >= 0 {
			from, to := "spec.flag", fmt.Sprintf("status.conditions[%d].status", rec.Patch)
			t.Patches = []v1.Patch{{Type: v1.PatchTypeToCompositeFieldPath, FromFieldPath: &from, ToFieldPath: &to}}
		}
		rev.Spec.Resources = append(rev.Spec.Resources, t)
	}
	return rev
}

func c05NewPTWorld(s c05PTScn) *c05PTWorld {
	st := NewStore(runtime.NewScheme())
	st.Reject = func(m map[string]any) bool {
		if k, _ := m["kind"].(string); k != "KA" && k != "KB" {
			return false
		}
		c, _, _ := unstructured.NestedInt64(m, "spec", "content")
		return c == xwInvalidContent
	}
	w := &c05PTWorld{st: st}
	w.cl = &c05Client{Store: st}
	for _, x := range s.XRs {
		xr := ucomposite.New(ucomposite.WithGroupVersionKind(c05XRGVK))
		xr.SetName(x.Name)
		xr.SetLabels(map[string]string{"crossplane.io/composite": x.Name})
		xr.SetCompositionReference(&corev1.ObjectReference{Name: "comp"})
		xr.SetFinalizers([]string{c05Finalizer})
		for _, c := range x.Old {
			xr.SetConditions(xpv1.Condition{Type: xpv1.ConditionType(c.Type), Status: corev1.ConditionStatus(c.Status), Reason: xpv1.ConditionReason(c.Reason), LastTransitionTime: metav1.Unix(1, 0)})
		}
		st.Seed(xr)
	}
	pc := composite.NewPTComposer(w.cl, w.cl)
	w.rec = composite.NewReconciler(w.cl, w.cl, resource.CompositeKind(c05XRGVK),
		composite.WithComposer(pc),
		composite.WithCompositionSelector(composite.CompositionSelectorFn(func(context.Context, resource.Composite) error { return nil })),
		composite.WithCompositionRevisionFetcher(composite.CompositionRevisionFetcherFn(func(context.Context, resource.Composite) (*v1.CompositionRevision, error) {
			return c05PTRevision(*w.cur), nil
		})),
		composite.WithCompositionRevisionValidator(composite.CompositionRevisionValidatorFn(func(*v1.CompositionRevision) error { return nil })),
		composite.WithConfigurator(composite.ConfiguratorFn(func(context.Context, resource.Composite, *v1.CompositionRevision) error { return nil })),
		composite.WithConnectionPublishers(managed.ConnectionPublisherFns{
			PublishConnectionFn: func(context.Context, resource.ConnectionSecretOwner, managed.ConnectionDetails) (bool, error) {
				return false, c05MkErr(w.cur.Publish, true)
			},
			UnpublishConnectionFn: func(context.Context, resource.ConnectionSecretOwner, managed.ConnectionDetails) error { return nil },
		}),
	)
	return w
}

func c05RunPT(s c05PTScn) (c05SeqObs, []Mon) {
	w := c05NewPTWorld(s)
	st := w.st
	obs := c05SeqObs{Steps: []c05StepObs{}}
	var mons []Mon
	seen := map[string]bool{}
	mon := func(sig, why string) {
		if !seen[sig] {
			seen[sig] = true
			mons = append(mons, Mon{Sig: sig, Why: why})
		}
	}
	for i := range s.Recs {
		rec := &s.Recs[i]
		if rec.XR < 0 || rec.XR >= len(s.XRs) || len(rec.Res) == 0 {
			continue
		}
		name := s.XRs[rec.XR].Name
		before := map[string]map[string]c05OCond{}
		for _, x := range s.XRs {
			before[x.Name], _, _ = c05XRState(st, x.Name)
		}
		_, beforeList, _ := c05XRState(st, name)
		// which condition type the patch index addresses (the stored order, not the sorted one)
		target := ""
		if rec.Patch >= 0 {
			if u := st.Peek(c05XRGVK.GroupKind(), "", name); u != nil {
				x := ucomposite.New()
				x.SetUnstructuredContent(u.Object)
				if cs := x.GetConditions(); rec.Patch < len(cs) {
					target = string(cs[rec.Patch].Type)
				}
			}
		}
		_ = beforeList
		w.cur = rec
		st.Log = nil
		w.cl.Inject = func(c c05Call) error {
			if c.Kind == c05XRGVK.Kind && c.Verb == "update" && c.Sub == "status" && rec.Lost != "" {
				return c05MkErr(rec.Lost, false)
			}
			return nil
		}
		if p := Guard(func() {
			_, _ = w.rec.Reconcile(context.Background(), reconcile.Request{NamespacedName: types.NamespacedName{Name: name}})
		}); p != "" {
			mon("C05:panic", p)
		}
		w.cl.Inject = nil
		after, list, ct := c05XRState(st, name)
		so := c05StepObs{Conds: list, ClaimTypes: ct}
		for _, l := range st.Log {
			if l.Verb == "update" && l.Sub == "status" && l.Applied {
				so.Wrote = true
			}
		}
		obs.Steps = append(obs.Steps, so)

		old := before[name]
		completed := rec.Publish == "" && rec.Lost == ""
		if completed {
			allReady, allSynced := true, true
			for _, d := range rec.Res {
				allReady = allReady && d.Ready && !d.Invalid
				allSynced = allSynced && !d.Invalid
			}
			if after["Ready"].Status == "True" && !allReady {
				mon("C05:ready-overstated", fmt.Sprintf("reconcile %d: Ready=True although a desired resource fails a readiness check or its apply was rejected", i))
			}
			if after["Synced"].Status == "True" && !allSynced {
				mon("C05:synced-overstated", fmt.Sprintf("reconcile %d: Synced=True although the apply of a desired resource was rejected", i))
			}
		} else {
			for _, t := range []string{"Ready", "Synced"} {
				if after[t].Status == "True" && old[t].Status != "True" {
					sig := "C05:ready-set-on-error"
					if t == "Synced" {
						sig = "C05:synced-set-on-error"
					}
					if target == t && rec.PatchTo == "True" && !rec.Res[0].Invalid && rec.Publish != "" && rec.Publish != "conflict" && rec.Lost == "" {
						// exactly the recorded finding (D26) and nothing else: the first template was applied and
						// its ToCompositeFieldPath patch wrote True into THIS system condition of the XR held in
						// memory, PublishConnection failed with a non-conflict error, and the reconciler's status
						// update (which then took effect) stored it. Any other way of ending up True keeps the
						// ordinary signature.
						sig = "C05:system-condition-set-via-xr-status-patch"
					}
					mon(sig, fmt.Sprintf("reconcile %d: a reconcile that did not complete (publish %q lost %q) left %s=True", i, rec.Publish, rec.Lost, t))
				}
			}
		}
		for _, x := range s.XRs {
			if x.Name == name {
				continue
			}
			now, _, _ := c05XRState(st, x.Name)
			if fmt.Sprint(now) != fmt.Sprint(before[x.Name]) {
				mon("C05:other-xr-changed", fmt.Sprintf("reconcile %d: reconciling %q changed the conditions of %q", i, name, x.Name))
			}
		}
	}
	return obs, mons
}

func c05PTCls(s c05PTScn) string {
	patch, pub, lost, rej, unready := 0, 0, 0, 0, 0
	for _, r := range s.Recs {
		if r.Patch >= 0 {
			patch++
		}
		if r.Publish != "" {
			pub++
		}
		if r.Lost != "" {
			lost++
		}
		for _, d := range r.Res {
			if d.Invalid {
				rej++
			}
			if !d.Ready {
				unready++
			}
		}
	}
	return fmt.Sprintf("ptst/xrs=%d/recs=%d/statuspatch=%d/publishErr=%d/lost=%d/rejected=%d/unready=%d", len(s.XRs), len(s.Recs), patch, pub, lost, min(rej, 2), min(unready, 2))
}

//go:build verif

package main

// C05, family "ptst": the REAL P&T composer behind the REAL reconciler (both long-lived) with 1..3
// named templates whose readiness is decided by real readiness checks, some applies rejected by
// the API server - and, the P&T counterpart of a function writing the desired XR status, a
// ToCompositeFieldPath patch whose target is a field of the XR's status.conditions. The reconcile
// may fail to publish connection details (any error class) or lose its final status update.

import (
	"context"
	"encoding/json"
	"fmt"

	corev1 "k8s.io/api/core/v1"
	metav1 "k8s.io/apimachinery/pkg/apis/meta/v1"
	"k8s.io/apimachinery/pkg/apis/meta/v1/unstructured"
	"k8s.io/apimachinery/pkg/runtime"
	"k8s.io/apimachinery/pkg/types"
	"sigs.k8s.io/controller-runtime/pkg/reconcile"

	xpv1 "github.com/crossplane/crossplane-runtime/apis/common/v1"
	"github.com/crossplane/crossplane-runtime/pkg/reconciler/managed"
	"github.com/crossplane/crossplane-runtime/pkg/resource"
	ucomposite "github.com/crossplane/crossplane-runtime/pkg/resource/unstructured/composite"

	v1 "github.com/crossplane/crossplane/apis/apiextensions/v1"
	"github.com/crossplane/crossplane/internal/controller/apiextensions/composite"
)

type c05PTRes struct {
	Name     string      `json:"name"`
	Rendered bool        `json:"rendered"` // false: a Required from-composite patch of the template cannot be rendered
	Invalid  bool        `json:"invalid"`  // the API server rejects the apply (422)
	Obj      c05RObj     `json:"obj"`      // the status the composed resource carries when it is observed
	Checks   []c05RCheck `json:"checks"`   // the template's readiness checks (0 = the Ready condition decides)
}

type c05PTRec struct {
	XR  int        `json:"xr"`
	Res []c05PTRes `json:"res"`
	// Patch: index into the XR's status.conditions whose .status (or .reason) a ToCompositeFieldPath
	// patch of the FIRST template sets to PatchTo (-1 = no such patch)
	Patch      int    `json:"patch"`
	PatchField string `json:"patchField"` // "" / "status" | "reason"
	PatchTo    string `json:"patchTo"`
	// Fault: the call at which Compose fails ("" = nowhere): "refs" the Update persisting
	// spec.resourceRefs, "apply" the first apply of a composed resource, "xrApply" the final Apply of
	// the XR; FaultErr its class
	Fault    string `json:"fault"`
	FaultErr string `json:"faultErr"`
	Publish  string `json:"publish"`
	Lost     string `json:"lost"`
}

type c05PTScn struct {
	Kind string     `json:"kind"` // "ptst"
	XRs  []c05XR    `json:"xrs"`
	Recs []c05PTRec `json:"recs"`
}

func c05GenPTRes(r *Rng, name string) c05PTRes {
	g := c05GenReady(r)
	if len(g.Checks) > 3 {
		g.Checks = g.Checks[:3]
	}
	if len(g.Checks) == 0 && r.Chance(2, 3) {
		// templates normally carry checks (defaulting adds one)
		g.Checks = append(g.Checks, c05GenRCheck(r, g.Obj, true))
	}
	return c05PTRes{Name: name, Rendered: !r.Chance(1, 10), Invalid: r.Chance(1, 10), Obj: g.Obj, Checks: g.Checks}
}

func c05GenPT(r *Rng) c05PTScn {
	s := c05PTScn{Kind: "ptst"}
	names := r.Perm(len(c05XRNames))
	for i, n := 0, r.Range(1, 2); i < n; i++ {
		s.XRs = append(s.XRs, c05XR{Name: c05XRNames[names[i]], Fin: true, Old: c05GenConds(r, 4, []string{"Old", "Available", "Creating", "ReconcileSuccess"})})
	}
	for i, n := 0, r.Range(1, 3); i < n; i++ {
		rec := c05PTRec{XR: r.Intn(len(s.XRs)), Patch: -1}
		p := r.Perm(4)
		for j, m := 0, r.Range(1, 3); j < m; j++ {
			rec.Res = append(rec.Res, c05GenPTRes(r, []string{"a", "b", "c", "d"}[p[j]]))
		}
		if r.Chance(1, 6) {
			rec.Fault = Pick(r, []string{"refs", "apply", "xrApply", "xrApply"})
			rec.FaultErr = Pick(r, c05ErrClasses)
		}
		if r.Chance(1, 6) {
			rec.Publish = Pick(r, c05ErrClasses)
		}
		if r.Chance(1, 10) {
			rec.Lost = Pick(r, c05ErrClasses)
		}
		s.Recs = append(s.Recs, rec)
	}
	// the status.conditions patch only in the FIRST reconcile of an XR: the index is then an index
	// into the seeded list
	first := map[int]bool{}
	for i := range s.Recs {
		x := s.Recs[i].XR
		if !first[x] && len(s.XRs[x].Old) > 0 && r.Chance(1, 3) {
			s.Recs[i].Patch = r.Intn(len(s.XRs[x].Old))
			s.Recs[i].PatchField = Pick(r, []string{"status", "status", "status", "reason"})
			s.Recs[i].PatchTo = Pick(r, []string{"True", "True", "False"})
			if s.Recs[i].PatchField == "reason" {
				s.Recs[i].PatchTo = Pick(r, []string{"Available", "ReconcileSuccess", "Patched"})
			}
		}
		first[x] = true
	}
	return s
}

type c05PTWorld struct {
	st  *Store
	cl  *c05Client
	rec *composite.Reconciler
	cur *c05PTRec
}

// c05PTStatus is the status block of a composed resource (what its provider would have written).
func c05PTStatus(o c05RObj) map[string]any {
	st := map[string]any{}
	if o.S != nil {
		st["s"] = *o.S
	}
	if o.N != nil {
		st["n"] = *o.N
	}
	if o.B != nil {
		st["b"] = *o.B
	}
	if len(o.Conds) > 0 {
		cs := []any{}
		for _, c := range o.Conds {
			cs = append(cs, map[string]any{"type": c.Type, "status": c.Status, "reason": c.Reason, "lastTransitionTime": "2024-01-01T00:00:00Z"})
		}
		st["conditions"] = cs
	}
	return st
}

func c05PTRevision(rec c05PTRec) *v1.CompositionRevision {
	rev := &v1.CompositionRevision{}
	mode := v1.CompositionModeResources
	rev.Spec.Mode = &mode
	for i, d := range rec.Res {
		name := d.Name
		content := 1
		if d.Invalid {
			content = xwInvalidContent
		}
		kind := c05FnKindOf[d.Name]
		base := map[string]any{"apiVersion": xwGroup + "/v1", "kind": kind, "spec": map[string]any{"content": content, "flag": rec.PatchTo}, "status": c05PTStatus(d.Obj)}
		raw, _ := json.Marshal(base)
		t := v1.ComposedTemplate{Name: &name, Base: runtime.RawExtension{Raw: raw}}
		for _, c := range d.Checks {
			rc := v1.ReadinessCheck{Type: v1.ReadinessCheckType(c.Type), FieldPath: c.Path, MatchString: c.MS, MatchInteger: c.MI}
			if c.HasCond {
				rc.MatchCondition = &v1.MatchConditionReadinessCheck{Type: xpv1.ConditionType(c.CT), Status: corev1.ConditionStatus(c.CS)}
			}
			t.ReadinessChecks = append(t.ReadinessChecks, rc)
		}
		if !d.Rendered {
			// a Required patch from a field the XR does not have: RenderFromCompositePatches fails
			from, to := "spec.absent", "spec.copied"
			req := v1.FromFieldPathPolicyRequired
			t.Patches = append(t.Patches, v1.Patch{Type: v1.PatchTypeFromCompositeFieldPath, FromFieldPath: &from, ToFieldPath: &to, Policy: &v1.PatchPolicy{FromFieldPath: &req}})
		}
		if i == 0 && rec.Patch >= 0 {
			f := rec.PatchField
			if f == "" {
				f = "status"
			}
			from, to := "spec.flag", fmt.Sprintf("status.conditions[%d].%s", rec.Patch, f)
			t.Patches = append(t.Patches, v1.Patch{Type: v1.PatchTypeToCompositeFieldPath, FromFieldPath: &from, ToFieldPath: &to})
		}
		rev.Spec.Resources = append(rev.Spec.Resources, t)
	}
	return rev
}

func c05PTComposedKind(k string) bool { return k == "KA" || k == "KB" }

func c05NewPTWorld(s c05PTScn) *c05PTWorld {
	st := NewStore(runtime.NewScheme())
	st.Reject = func(m map[string]any) bool {
		if k, _ := m["kind"].(string); !c05PTComposedKind(k) {
			return false
		}
		c, _, _ := unstructured.NestedInt64(m, "spec", "content")
		return c == xwInvalidContent
	}
	w := &c05PTWorld{st: st}
	w.cl = &c05Client{Store: st, StrictRV: true}
	for _, x := range s.XRs {
		xr := ucomposite.New(ucomposite.WithGroupVersionKind(c05XRGVK))
		xr.SetName(x.Name)
		xr.SetLabels(map[string]string{"crossplane.io/composite": x.Name})
		xr.SetCompositionReference(&corev1.ObjectReference{Name: "comp"})
		xr.SetFinalizers([]string{c05Finalizer})
		for _, c := range x.Old {
			xr.SetConditions(xpv1.Condition{Type: xpv1.ConditionType(c.Type), Status: corev1.ConditionStatus(c.Status), Reason: xpv1.ConditionReason(c.Reason), LastTransitionTime: metav1.Unix(1, 0)})
		}
		st.Seed(xr)
	}
	pc := composite.NewPTComposer(w.cl, w.cl)
	w.rec = composite.NewReconciler(w.cl, w.cl, resource.CompositeKind(c05XRGVK),
		composite.WithComposer(pc),
		composite.WithCompositionSelector(composite.CompositionSelectorFn(func(context.Context, resource.Composite) error { return nil })),
		composite.WithCompositionRevisionFetcher(composite.CompositionRevisionFetcherFn(func(context.Context, resource.Composite) (*v1.CompositionRevision, error) {
			return c05PTRevision(*w.cur), nil
		})),
		composite.WithCompositionRevisionValidator(composite.CompositionRevisionValidatorFn(func(*v1.CompositionRevision) error { return nil })),
		composite.WithConfigurator(composite.ConfiguratorFn(func(context.Context, resource.Composite, *v1.CompositionRevision) error { return nil })),
		composite.WithConnectionPublishers(managed.ConnectionPublisherFns{
			PublishConnectionFn: func(context.Context, resource.ConnectionSecretOwner, managed.ConnectionDetails) (bool, error) {
				return false, c05MkErr(w.cur.Publish, true)
			},
			UnpublishConnectionFn: func(context.Context, resource.ConnectionSecretOwner, managed.ConnectionDetails) error { return nil },
		}),
	)
	return w
}

// c05PTReadyOracle: the harness's own reading of "the template's readiness checks hold" -
// "true" / "false" / "error", independent of ready.go and of the Lean model.
func c05PTReadyOracle(d c05PTRes) string {
	if len(d.Checks) == 0 {
		for _, k := range d.Obj.Conds {
			if k.Type == "Ready" {
				if k.Status == "True" {
					return "true"
				}
				return "false"
			}
		}
		return "false"
	}
	for _, c := range d.Checks {
		if o := c05ROracle(d.Obj, c); o != "true" {
			return o
		}
	}
	return "true"
}

func c05RunPT(s c05PTScn) (c05SeqObs, []Mon) {
	w := c05NewPTWorld(s)
	st := w.st
	obs := c05SeqObs{Steps: []c05StepObs{}}
	var mons []Mon
	seen := map[string]bool{}
	mon := func(sig, why string) {
		if !seen[sig] {
			seen[sig] = true
			mons = append(mons, Mon{Sig: sig, Why: why})
		}
	}
	for i := range s.Recs {
		rec := &s.Recs[i]
		if rec.XR < 0 || rec.XR >= len(s.XRs) || len(rec.Res) == 0 {
			continue
		}
		name := s.XRs[rec.XR].Name
		before := map[string]map[string]c05OCond{}
		for _, x := range s.XRs {
			before[x.Name], _, _ = c05XRState(st, x.Name)
		}
		// which condition type the patch index addresses (the stored order, not the sorted one)
		target := ""
		if rec.Patch >= 0 {
			if u := st.Peek(c05XRGVK.GroupKind(), "", name); u != nil {
				x := ucomposite.New()
				x.SetUnstructuredContent(u.Object)
				if cs := x.GetConditions(); rec.Patch < len(cs) {
					target = string(cs[rec.Patch].Type)
				}
			}
		}
		// the providers' status writes: every composed resource of this XR that already exists
		// carries the status this reconcile is to observe
		for _, u := range st.All() {
			if !c05PTComposedKind(u.GetKind()) || u.GetLabels()["crossplane.io/composite"] != name {
				continue
			}
			for _, d := range rec.Res {
				if u.GetAnnotations()["crossplane.io/composition-resource-name"] == d.Name {
					status := c05PTStatus(d.Obj)
					st.Mutate(u.GroupVersionKind().GroupKind(), u.GetNamespace(), u.GetName(), func(o *unstructured.Unstructured) { o.Object["status"] = status })
				}
			}
		}
		w.cur = rec
		st.Log = nil
		applies := 0
		w.cl.Inject = func(c c05Call) error {
			switch {
			case c.Kind == c05XRGVK.Kind && c.Verb == "update" && c.Sub == "status" && rec.Lost != "":
				return c05MkErr(rec.Lost, false)
			case c.Kind == c05XRGVK.Kind && c.Verb == "update" && c.Sub == "" && rec.Fault == "refs":
				return c05MkErr(rec.FaultErr, false)
			case c.Kind == c05XRGVK.Kind && c.Verb == "patch" && c.Sub == "" && rec.Fault == "xrApply":
				return c05MkErr(rec.FaultErr, false)
			case c05PTComposedKind(c.Kind) && (c.Verb == "create" || c.Verb == "patch") && rec.Fault == "apply":
				applies++
				if applies == 1 {
					return c05MkErr(rec.FaultErr, false)
				}
			}
			return nil
		}
		if p := Guard(func() {
			_, _ = w.rec.Reconcile(context.Background(), reconcile.Request{NamespacedName: types.NamespacedName{Name: name}})
		}); p != "" {
			mon("C05:panic", p)
		}
		w.cl.Inject = nil
		after, list, ct := c05XRState(st, name)
		so := c05StepObs{Conds: list, ClaimTypes: ct}
		for _, l := range st.Log {
			if l.Verb == "update" && l.Sub == "status" && l.Applied {
				so.Wrote = true
			}
		}
		obs.Steps = append(obs.Steps, so)

		// ---- direct monitors (model-free): the harness's own reading of the scenario
		old := before[name]
		res := append([]c05PTRes{}, rec.Res...)
		if rec.Fault == "apply" && rec.FaultErr == "invalid" {
			// an invalid answer to the first apply rejects that resource
			for k := range res {
				if res[k].Rendered {
					res[k].Invalid = true
					break
				}
			}
		}
		anyRendered := false
		for _, d := range rec.Res {
			anyRendered = anyRendered || d.Rendered
		}
		composeFails := rec.Fault == "refs" || rec.Fault == "xrApply" || (rec.Fault == "apply" && rec.FaultErr != "invalid" && anyRendered)
		early := composeFails && rec.Fault != "xrApply"
		allReady, allSynced := true, true
		for _, d := range res {
			ok := d.Rendered && !d.Invalid
			allSynced = allSynced && ok
			switch {
			case !ok:
				allReady = false
			default:
				switch c05PTReadyOracle(d) {
				case "error":
					composeFails = true // a readiness check that cannot be run fails Compose
					allReady = false
				case "false":
					allReady = false
				}
			}
		}
		completed := !composeFails && rec.Publish == "" && rec.Lost == ""
		if completed {
			if after["Ready"].Status == "True" && !allReady {
				mon("C05:ready-overstated", fmt.Sprintf("reconcile %d: Ready=True although a desired resource was not rendered, its apply was rejected or one of its readiness checks does not hold", i))
			}
			if after["Synced"].Status == "True" && !allSynced {
				mon("C05:synced-overstated", fmt.Sprintf("reconcile %d: Synced=True although a desired resource was not rendered or its apply was rejected", i))
			}
		} else {
			firstObserved := res[0].Rendered && !res[0].Invalid
			for _, t := range []string{"Ready", "Synced"} {
				if after[t].Status == "True" && old[t].Status != "True" {
					sig := "C05:ready-set-on-error"
					if t == "Synced" {
						sig = "C05:synced-set-on-error"
					}
					if target == t && rec.PatchTo == "True" && (rec.PatchField == "" || rec.PatchField == "status") && firstObserved && !early && so.Wrote {
						// exactly the recorded finding (D26) and nothing else: the first template was applied and
						// observed, its ToCompositeFieldPath patch wrote True into THIS system condition of the XR
						// held in memory, and the reconcile then gave up before deriving the system conditions
						// (PublishConnection failed, or Compose failed after the patch was rendered) with a status
						// update that took effect and stored it. Any other way of ending up True keeps the ordinary
						// signature.
						sig = "C05:system-condition-set-via-xr-status-patch"
					}
					mon(sig, fmt.Sprintf("reconcile %d: a reconcile that did not complete (fault %q/%q publish %q lost %q) left %s=True", i, rec.Fault, rec.FaultErr, rec.Publish, rec.Lost, t))
				}
			}
		}
		for _, x := range s.XRs {
			if x.Name == name {
				continue
			}
			now, _, _ := c05XRState(st, x.Name)
			if fmt.Sprint(now) != fmt.Sprint(before[x.Name]) {
				mon("C05:other-xr-changed", fmt.Sprintf("reconcile %d: reconciling %q changed the conditions of %q", i, name, x.Name))
			}
		}
	}
	return obs, mons
}

func c05PTCls(s c05PTScn) string {
	patch, pub, lost, rej, unrendered, unready, cerr := 0, 0, 0, 0, 0, 0, 0
	fault := "-"
	for _, r := range s.Recs {
		if r.Patch >= 0 {
			patch++
		}
		if r.Publish != "" {
			pub++
		}
		if r.Lost != "" {
			lost++
		}
		if r.Fault != "" {
			fault = r.Fault + "=" + r.FaultErr
		}
		for _, d := range r.Res {
			if d.Invalid {
				rej++
			}
			if !d.Rendered {
				unrendered++
			}
			switch c05PTReadyOracle(d) {
			case "false":
				unready++
			case "error":
				cerr++
			}
		}
	}
	return fmt.Sprintf("ptst/xrs=%d/recs=%d/statuspatch=%d/fault=%s/publishErr=%d/lost=%d/rejected=%d/unrendered=%d/unready=%d/checkErr=%d", len(s.XRs), len(s.Recs), patch, fault, pub, lost, min(rej, 2), min(unrendered, 2), min(unready, 2), min(cerr, 1))
}

//go:build verif

package main

// C15: scenario generator, registration, table dump, xpkg-build round-trip test.

import (
	"bytes"
	"context"
	"fmt"
	"io"
	"runtime/debug"
	"sort"
	"strings"

	"github.com/google/go-containerregistry/pkg/name"
	"github.com/google/go-containerregistry/pkg/v1/tarball"
	"github.com/spf13/afero"
	"k8s.io/apimachinery/pkg/api/meta"
	"k8s.io/apimachinery/pkg/runtime"

	"github.com/crossplane/crossplane-runtime/pkg/parser"

	pkgv1 "github.com/crossplane/crossplane/apis/pkg/v1"
	"github.com/crossplane/crossplane/internal/controller/pkg/revision"
	"github.com/crossplane/crossplane/internal/xpkg"
	"github.com/crossplane/crossplane/internal/xpkg/parser/examples"
)

// c15SchemeKinds lists group/version/Kind of every external-version type of a scheme.
func c15SchemeKinds(s *runtime.Scheme, withMetaOnly bool) []string {
	var out []string
	for gvk := range s.AllKnownTypes() {
		if gvk.Version == runtime.APIVersionInternal {
			continue
		}
		if withMetaOnly {
			o, err := s.New(gvk)
			if err != nil {
				continue
			}
			if _, err := meta.Accessor(o); err != nil {
				continue
			}
		}
		out = append(out, c15GVKString(gvk))
	}
	sort.Strings(out)
	return out
}

var c15PTypes = []string{"provider", "configuration", "function"}

// c15GoodMeta: the current meta GVK of a package type.
func c15GoodMeta(ptype string) string {
	return "meta.pkg.crossplane.io/v1/" + c15MetaKind(ptype)
}

type c15Kinds struct {
	obj     []string            // object-scheme kinds that carry ObjectMeta
	meta    []string            // meta-scheme kinds that carry ObjectMeta
	allowed map[string][]string // spec-allowed object kinds per package type
	metaOK  map[string][]string // meta kinds of the right Kind per package type
}

var c15KindsCache *c15Kinds

func c15GetKinds() *c15Kinds {
	if c15KindsCache != nil {
		return c15KindsCache
	}
	ms, _ := xpkg.BuildMetaScheme()
	os, _ := xpkg.BuildObjectScheme()
	k := &c15Kinds{obj: c15SchemeKinds(os, true), meta: c15SchemeKinds(ms, true), allowed: map[string][]string{}, metaOK: map[string][]string{}}
	for _, p := range c15PTypes {
		for _, g := range k.obj {
			if c15SpecAllowed(p, g) {
				k.allowed[p] = append(k.allowed[p], g)
			}
		}
		for _, g := range k.meta {
			if _, _, kind := c15SplitGVK(g); kind == c15MetaKind(p) {
				k.metaOK[p] = append(k.metaOK[p], g)
			}
		}
	}
	c15KindsCache = k
	return k
}

func c15ObjName(gvk string, i int) string {
	_, _, k := c15SplitGVK(gvk)
	return fmt.Sprintf("%ss%d.example.org", strings.ToLower(k), i)
}

func c15GenDocs(r *Rng, ptype string, large bool) []c15Doc {
	k := c15GetKinds()
	var docs []c15Doc
	valid := r.Chance(3, 5) // an installable package; otherwise defects are sprinkled in
	// meta
	con := Pick(r, []string{"none", "none", "none", "in", "in", "out", "bad"})
	if valid {
		con = Pick(r, []string{"none", "none", "in", "in", "in", "out"})
	}
	nmeta := 0
	mk := func(gvk string) c15Doc {
		nmeta++
		c := con
		if nmeta > 1 {
			// a later meta object need not carry what the first one has
			c = Pick(r, []string{"none", "none", "in", "out", "bad"})
		}
		return c15Doc{T: "meta", GVK: gvk, Name: "pkg-" + ptype, Con: c}
	}
	x := r.Intn(100)
	if valid {
		x = r.Intn(80)
	}
	switch {
	case x < 45:
		docs = append(docs, mk(c15GoodMeta(ptype)))
	case x < 80:
		// any served version of the type's meta kind: v1, and the older v1alpha1 / v1beta1 that the
		// reconciler converts to the v1 hub
		docs = append(docs, mk(Pick(r, k.metaOK[ptype])))
	case x < 87:
		docs = append(docs, mk(Pick(r, k.meta))) // any meta kind, often the wrong type
	case x < 92:
		docs = append(docs, mk(c15GoodMeta(ptype)), mk(Pick(r, k.meta))) // two metas
	case x < 96:
		// no meta at all
	default:
		docs = append(docs, mk(c15GoodMeta(Pick(r, c15PTypes))))
	}
	n := r.Intn(7)
	for i := 0; i < n; i++ {
		var g string
		switch y := r.Intn(100); {
		case valid || y < 80:
			g = Pick(r, k.allowed[ptype])
		case y < 92:
			g = Pick(r, k.allowed[Pick(r, c15PTypes)])
		default:
			g = Pick(r, k.obj)
		}
		d := c15Doc{T: "obj", GVK: g, Name: c15ObjName(g, i)}
		if large && r.Chance(2, 3) {
			d.Pad = r.Range(20000, 70000)
		} else if r.Chance(1, 8) {
			d.Pad = r.Range(1, 6000)
		}
		docs = append(docs, d)
	}
	// duplicates: the same object twice; the same metadata.name under another kind / API version
	if n > 0 && r.Chance(1, 8) {
		src := docs[len(docs)-1-r.Intn(n)]
		if src.T == "obj" {
			d := src
			if r.Bool() {
				d.GVK = Pick(r, k.allowed[ptype])
			}
			d.Pad = 0
			docs = append(docs, d)
		}
	}
	if r.Chance(1, 6) {
		docs = append(docs, c15Doc{T: "empty"})
	}
	if !valid && r.Chance(1, 6) {
		docs = append(docs, c15Doc{T: "bad", Name: Pick(r, []string{"unknown", "malformed", "nokind"})})
	}
	// order: the meta is usually first
	if r.Chance(1, 3) {
		p := r.Perm(len(docs))
		sh := make([]c15Doc, len(docs))
		for i, j := range p {
			sh[i] = docs[j]
		}
		docs = sh
	}
	if docs == nil {
		docs = []c15Doc{}
	}
	return docs
}

var c15ImgShapes = []string{"annotated", "annotated", "annotated", "annotated", "annotated", "multi", "multi", "multi", "plain", "plain", "plain", "plain2", "plain2", "plain2", "twoann", "nofile", "baselast", "otherann", "many", "toomany", "alike", "alike", "alike2", "alike2", "alikeonly"}

// c15ListErrClasses: error classes of a List of ImageConfigs
var c15ListErrClasses = []string{"err", "nokind", "nokind", "noresource", "timeout", "unavailable", "forbidden"}

func c15GenRev(r *Rng, idx int, ptype string) c15Rev {
	large := r.Chance(1, 10)
	rev := c15Rev{
		PType:  ptype,
		Name:   fmt.Sprintf("pkg%c-%s-%06x", 'a'+idx, ptype, r.Intn(1<<24)),
		Docs:   c15GenDocs(r, ptype, large),
		Shape:  r.Intn(8),
		Img:    Pick(r, c15ImgShapes),
		Never:  r.Chance(1, 12),
		Ignore: r.Chance(1, 5),
		Pre:    Pick(r, []string{"cold", "cold", "cold", "cold", "cold", "warm", "warm", "warm", "nohdr", "hdr"}),
	}
	if (rev.Img == "many" || rev.Img == "toomany") && !r.Chance(1, 6) {
		rev.Img = "annotated" // images of 256 / 257 layers are costly to build: keep them rare
	}
	rev.Source = fmt.Sprintf("%s/acme/%s:v1.%d.0", c15Registry, rev.Name[:4], r.Intn(10))
	if r.Chance(1, 8) {
		c15AlignStream(r, &rev)
	}
	rev.Resolve = r.Chance(2, 5)
	// more stream decoration (see c15Stream)
	for _, b := range [][2]int{{8, 5}, {16, 5}, {32, 6}, {64, 30}} {
		if r.Chance(1, b[1]) {
			rev.Shape |= b[0]
		}
	}
	return rev
}

// c15GenRevs: 1-3 revisions. Later revisions are, with high probability, of the package type
// of the first one (they go through the same long-lived reconciler) and often revisions of
// the SAME package (same repository, another tag or a digest; a repository / revision name
// that extends the first one's) with different contents; or a twin: a revision of another
// package type with the same name and image.
func c15GenRevs(r *Rng) []c15Rev {
	n := Pick(r, []int{1, 1, 1, 2, 2, 2, 3})
	p0 := Pick(r, c15PTypes)
	revs := []c15Rev{c15GenRev(r, 0, p0)}
	for i := 1; i < n; i++ {
		pt := p0
		if r.Chance(1, 4) {
			pt = Pick(r, c15PTypes)
		}
		if pt != p0 && r.Chance(1, 3) {
			// twin: same revision name (the cache id), same image, other package type
			dup := false
			for _, o := range revs {
				dup = dup || (o.Name == revs[0].Name && o.PType == pt)
			}
			if !dup {
				t := revs[0]
				t.PType = pt
				t.Pre = "cold"
				revs = append(revs, t)
				continue
			}
		}
		rev := c15GenRev(r, i, pt)
		b := revs[r.Intn(len(revs))]
		switch r.Intn(8) {
		case 0, 1, 2: // another version of the same package
			rev.Name = fmt.Sprintf("%s-%s-%06x", b.Name[:4], pt, r.Intn(1<<24))
			repo := strings.SplitN(strings.SplitN(b.Source, "@", 2)[0], ":", 2)[0]
			rev.Source = fmt.Sprintf("%s:v2.%d.0", repo, r.Intn(10))
			if r.Chance(1, 4) {
				rev.Source = fmt.Sprintf("%s@sha256:%064x", repo, r.U64())
			}
			if r.Bool() {
				// an upgrade: the contents of the other version plus / minus an object, or with a defect
				rev.Docs = append([]c15Doc{}, b.Docs...)
				if len(rev.Docs) > 1 && r.Bool() {
					rev.Docs = rev.Docs[:len(rev.Docs)-1]
				} else {
					g := Pick(r, c15GetKinds().obj)
					if r.Bool() {
						g = Pick(r, c15GetKinds().allowed[pt])
					}
					rev.Docs = append(rev.Docs, c15Doc{T: "obj", GVK: g, Name: c15ObjName(g, len(rev.Docs))})
				}
			}
		case 3: // names related by prefix: revision name and repository extend the other's
			rev.Name = b.Name + fmt.Sprintf("%x", r.Intn(16))
			repo := strings.SplitN(strings.SplitN(b.Source, "@", 2)[0], ":", 2)[0]
			rev.Source = fmt.Sprintf("%s-extra:v1.%d.0", repo, r.Intn(10))
		case 4: // same path in another registry; the default registry left out
			if r.Bool() {
				rev.Source = strings.Replace(rev.Source, c15Registry+"/", "registry.example.com/", 1)
			} else {
				rev.Source = strings.TrimPrefix(rev.Source, c15Registry+"/")
			}
		}
		// sources must be pairwise different as references (one reference, one image)
		for _, o := range revs {
			if c15RefName(o.Source) == c15RefName(rev.Source) || o.Name == rev.Name || c15CachePath(o.Source) == c15CachePath(rev.Source) {
				rev = c15GenRev(r, i, pt)
				break
			}
		}
		revs = append(revs, rev)
	}
	return revs
}

func c15IsTwin(a, b *c15Rev) bool { return a.Name == b.Name && a.PType != b.PType }

// c15GenCfgs: 0-3 ImageConfigs (sorted by name) whose prefixes are cut out of the sources of
// the scenario at and off path boundaries, plus prefixes that match nothing, the empty prefix
// and a prefix longer than the source.
func c15GenCfgs(r *Rng, revs []c15Rev) []c15Cfg {
	n := Pick(r, []int{0, 1, 1, 2, 2, 3})
	cfgs := []c15Cfg{}
	for i := 0; i < n; i++ {
		c := c15Cfg{Name: fmt.Sprintf("cfg-%c", 'a'+i), Verif: Pick(r, []string{"cosign", "cosign", "cosign", "none", "nocosign"}), OK: r.Bool()}
		c.Pull = c.Verif == "none" || r.Chance(1, 4)
		for j, m := 0, r.Range(1, 3); j < m; j++ {
			src := Pick(r, revs).Source
			var p string
			switch r.Intn(10) {
			case 0:
				p = ""
			case 1:
				p = src + "x"
			case 2:
				p = "xpkg.example.org/other/"
			case 3:
				p = src
			case 4, 5: // a path boundary
				cuts := []int{}
				for k, ch := range src {
					if ch == '/' || ch == ':' || ch == '@' {
						cuts = append(cuts, k, k+1)
					}
				}
				if len(cuts) == 0 {
					cuts = []int{len(src)}
				}
				p = src[:Pick(r, cuts)]
			default:
				p = src[:r.Range(1, len(src))]
			}
			c.Prefixes = append(c.Prefixes, p)
		}
		cfgs = append(cfgs, c)
	}
	return cfgs
}

var c15ErrClasses = []string{"conflict", "conflict", "notfound", "alreadyexists", "invalid", "forbidden", "temporary", "deadline", "err"}

// c15AlignStream pads an object so that the stream ends shortly behind a multiple of
// the 4096-byte reads of the parser's bufio.Reader (a short last chunk).
func c15AlignStream(r *Rng, rev *c15Rev) {
	oi := -1
	for i, d := range rev.Docs {
		if d.T == "obj" {
			oi = i
			break
		}
	}
	if oi < 0 {
		return
	}
	rev.Docs[oi].Pad = 1
	st, _, _ := c15Stream(rev.Docs, rev.Shape)
	L := len(st)
	target := (L/4096+1)*4096 + r.Range(1, 700)
	if r.Chance(1, 3) {
		target += 4096 * r.Range(1, 3)
	}
	rev.Docs[oi].Pad = 1 + target - L
}

func c15GenFaults(r *Rng, rev *c15Rev) c15Faults {
	f := c15Faults{Read: -1}
	if r.Chance(1, 12) {
		f.Init = true
	}
	if r.Chance(1, 4) {
		stream, starts, ends := c15Stream(rev.Docs, rev.Shape)
		L := len(stream)
		if L > 0 {
			var cands []int
			switch r.Intn(5) {
			case 0:
				cands = []int{0, 1}
			case 1, 2: // document boundaries: before / after the separator line, end of a document
				for i := range starts {
					cands = append(cands, starts[i], ends[i])
					if starts[i] >= 4 {
						cands = append(cands, starts[i]-4, starts[i]-1)
					}
				}
			case 3:
				cands = []int{r.Intn(L)}
			default:
				cands = []int{L - 1, L - 2}
			}
			if len(cands) == 0 {
				cands = []int{0, L / 2}
			}
			b := Pick(r, cands)
			if b < 0 {
				b = 0
			}
			if b > L-1 {
				b = L - 1
			}
			f.Read = b
		}
	}
	if r.Chance(1, 4) {
		f.Store = Pick(r, []string{"create", "write", "write", "write", "close"})
		if f.Store == "write" {
			stream, _, _ := c15Stream(rev.Docs, rev.Shape)
			G := len(c15Gzip(stream))
			f.StoreN = Pick(r, []int{0, 5, 10, 11, G / 3, G / 2, G - 9, G - 1})
			if f.StoreN < 0 {
				f.StoreN = 0
			}
		}
	}
	f.Get = r.Chance(1, 12)
	f.Del = r.Chance(1, 6)
	if r.Chance(1, 10) {
		f.Upd = Pick(r, c15ErrClasses)
	}
	if r.Chance(1, 12) {
		f.Est = true
		f.EstC = Pick(r, []string{"", "", "conflict", "conflict", "alreadyexists", "temporary", "deadline", "forbidden"})
	}
	if r.Chance(1, 20) {
		f.GetE = Pick(r, []string{"miss", "err"})
	}
	if r.Chance(1, 12) {
		f.Fin = Pick(r, c15ErrClasses)
	}
	if r.Chance(1, 10) {
		f.Stat = Pick(r, c15ErrClasses)
	}
	if r.Chance(1, 7) {
		f.Env = Pick(r, []string{"touch", "wipe", "wipe", "recreate", "recreate", "flip"})
	}
	// collaborators in front of Establish
	if r.Chance(1, 16) {
		f.PullCfg = Pick(r, c15ListErrClasses)
	}
	if r.Chance(1, 8) {
		f.Rel = Pick(r, c15ErrClasses) // (felt by inactive revisions only)
	}
	if rev.Resolve && r.Chance(1, 7) {
		f.Dep = Pick(r, c15ErrClasses)
	}
	return f
}

func c15Gen(r *Rng) c15Scn {
	scn := c15Scn{Kind: "rev", Feature: r.Chance(1, 4)}
	scn.Revs = c15GenRevs(r)
	n := len(scn.Revs)
	scn.Cfgs = []c15Cfg{}
	if scn.Feature || r.Chance(1, 6) {
		scn.Cfgs = c15GenCfgs(r, scn.Revs)
	}
	ns := r.Range(1, 4)
	if n > 1 {
		ns = r.Range(2, 6) // several revisions through the same controllers: longer histories
	}
	for i := 0; i < ns; i++ {
		s := c15Step{K: "rec", R: r.Intn(n), Active: !r.Chance(1, 7)}
		s.F.Read = -1
		sigP := 1
		if scn.Feature {
			sigP = 4
		}
		switch {
		case scn.Feature && r.Chance(1, 12):
			s.K = "cfg"
			s.R = 0
			s.Cfgs = c15GenCfgs(r, scn.Revs)
		case r.Chance(sigP, 10):
			s.K = "sig"
			if r.Chance(1, 6) {
				s.SigCfg = Pick(r, c15ListErrClasses)
			}
			if r.Chance(1, 12) {
				s.F.GetE = Pick(r, []string{"miss", "err"})
			}
			if r.Chance(1, 10) {
				s.F.Stat = Pick(r, c15ErrClasses)
			}
		default:
			// most steps are fault free so that histories make progress
			if r.Chance(3, 5) {
				s.F = c15GenFaults(r, &scn.Revs[s.R])
			}
			s.Deleted = r.Chance(1, 25)
		}
		scn.Steps = append(scn.Steps, s)
	}
	// a stream of two 4096-byte reads whose first read ends inside a long scalar, pulled while the
	// cache write fails early: what the parser holds when the write error comes back is a partial line
	if r.Chance(1, 30) {
		scn.Revs = scn.Revs[:1]
		rv := &scn.Revs[0]
		k := c15GetKinds()
		g := Pick(r, k.allowed[rv.PType])
		rv.Docs = []c15Doc{{T: "meta", GVK: c15GoodMeta(rv.PType), Name: "pkg-" + rv.PType, Con: "none"},
			{T: "obj", GVK: g, Name: c15ObjName(g, 0), Pad: r.Range(3200, 4300)}}
		for i, n := 1, r.Intn(3); i <= n; i++ {
			g := Pick(r, k.allowed[rv.PType])
			rv.Docs = append(rv.Docs, c15Doc{T: "obj", GVK: g, Name: c15ObjName(g, i)})
		}
		rv.Img, rv.Pre, rv.Never = Pick(r, []string{"annotated", "plain", "multi"}), "cold", false
		scn.Feature = false
		scn.Steps = []c15Step{
			{K: "rec", R: 0, Active: true, F: c15Faults{Read: -1, Store: "write", StoreN: Pick(r, []int{0, 3, 9, 10, 12})}},
			{K: "rec", R: 0, Active: true, F: c15Faults{Read: -1}},
		}
	}
	// a verified revision of an installable package whose object is wiped / re-created by a third
	// party (or whose cached copy is stale) exactly while it is being installed
	if scn.Feature && r.Chance(1, 6) {
		scn.Revs = scn.Revs[:1]
		rv := &scn.Revs[0]
		k := c15GetKinds()
		rv.Docs = []c15Doc{{T: "meta", GVK: c15GoodMeta(rv.PType), Name: "pkg-" + rv.PType, Con: Pick(r, []string{"none", "in"})}}
		for i, n := 0, r.Range(1, 3); i < n; i++ {
			g := Pick(r, k.allowed[rv.PType])
			rv.Docs = append(rv.Docs, c15Doc{T: "obj", GVK: g, Name: c15ObjName(g, i)})
		}
		rv.Img, rv.Pre, rv.Never = Pick(r, []string{"annotated", "plain", "multi", "baselast", "alike", "alike2"}), Pick(r, []string{"cold", "warm"}), false
		scn.Cfgs = []c15Cfg{}
		if r.Bool() {
			scn.Cfgs = []c15Cfg{{Name: "cfg-a", Prefixes: []string{c15Registry + "/acme/"}, Verif: "cosign", OK: true}}
		}
		clean := c15Faults{Read: -1}
		env := clean
		env.Env = Pick(r, []string{"wipe", "recreate", "wipe", "recreate", "touch", "flip"})
		steps := []c15Step{{K: "sig", R: 0, Active: true, F: clean}}
		if r.Bool() {
			steps = append(steps, c15Step{K: "rec", R: 0, Active: true, F: clean})
		}
		steps = append(steps, c15Step{K: "rec", R: 0, Active: true, F: env}, c15Step{K: "rec", R: 0, Active: true, F: clean})
		if r.Bool() {
			steps = append(steps, c15Step{K: "sig", R: 0, Active: true, F: clean}, c15Step{K: "rec", R: 0, Active: true, F: clean})
		}
		scn.Steps = steps
	}
	// two reconciles of different revisions sharing the cache, run concurrently. Twins (same
	// cache entry) only when every interleaving gives the same result: no cache-affecting
	// fault or deletion anywhere in the history of the twins, entry complete or absent.
	twinsCalm := !scn.Feature
	for i := range scn.Steps {
		st := &scn.Steps[i]
		if st.K == "rec" && (st.F.Init || st.F.Read >= 0 || st.F.Store != "" || st.F.Get || st.F.Del || st.Deleted || st.F.Env == "recreate") {
			twinsCalm = false
		}
	}
	for i := range scn.Revs {
		if p := scn.Revs[i].Pre; p != "cold" && p != "warm" {
			twinsCalm = false
		}
	}
	for i := 0; i+1 < len(scn.Steps); i++ {
		a, b := &scn.Steps[i], &scn.Steps[i+1]
		if a.F.PullCfg != "" || b.F.PullCfg != "" {
			continue // the ImageConfig store is the controller's: its failure is not tied to one revision
		}
		if a.K == "rec" && b.K == "rec" && a.R != b.R && r.Bool() {
			if c15CachePath(scn.Revs[a.R].Name) == c15CachePath(scn.Revs[b.R].Name) && !twinsCalm {
				continue
			}
			a.Par = true
			if c15CachePath(scn.Revs[a.R].Name) != c15CachePath(scn.Revs[b.R].Name) {
				a.Nest = Pick(r, []string{"", "upd", "upd", "est"})
			}
			i++
		}
	}
	return scn
}

// c15OldMeta: the meta kinds of a package type in the versions that are converted to the hub.
func c15OldMeta(ptype string) []string {
	var out []string
	for _, g := range c15GetKinds().metaOK[ptype] {
		if g != c15GoodMeta(ptype) {
			out = append(out, g)
		}
	}
	return out
}

// c15GenCrossTalk: two or three revisions of ONE package type whose packages differ in exactly the
// respect a gate looks at (constraints met / not met / malformed / absent, kinds allowed or not,
// old or current meta version), reconciled by the one long-lived reconciler of the type - nested
// (one reconcile sits in its metadata Update or in Establish while the other runs from start to
// end), free-running, or one after the other. Each verdict must depend on its own package only.
func c15GenCrossTalk(r *Rng) c15Scn {
	scn := c15Scn{Kind: "rev", Cfgs: []c15Cfg{}}
	pt := Pick(r, c15PTypes)
	k := c15GetKinds()
	n := Pick(r, []int{2, 2, 3})
	cons := []string{"out", "none", "in", "bad", "out", "in"}
	off := r.Intn(len(cons))
	for i := 0; i < n; i++ {
		rev := c15GenRev(r, i, pt)
		mg := c15GoodMeta(pt)
		if old := c15OldMeta(pt); len(old) > 0 && !r.Chance(1, 5) {
			mg = Pick(r, old)
		}
		con := cons[(off+i)%len(cons)]
		rev.Docs = []c15Doc{{T: "meta", GVK: mg, Name: fmt.Sprintf("pkg-%s-%d", pt, i), Con: con}}
		for j, m := 0, r.Range(1, 3); j < m; j++ {
			g := Pick(r, k.allowed[pt])
			if r.Chance(1, 8) {
				g = Pick(r, k.obj)
			}
			rev.Docs = append(rev.Docs, c15Doc{T: "obj", GVK: g, Name: c15ObjName(g, 10*i+j)})
		}
		rev.Img, rev.Pre, rev.Never, rev.Ignore = Pick(r, []string{"annotated", "plain", "multi"}), Pick(r, []string{"cold", "cold", "warm"}), false, r.Chance(1, 8)
		scn.Revs = append(scn.Revs, rev)
	}
	clean := c15Faults{Read: -1}
	order := r.Perm(n)
	for rounds := r.Range(1, 2); rounds > 0; rounds-- {
		for _, i := range order {
			scn.Steps = append(scn.Steps, c15Step{K: "rec", R: i, Active: true, F: clean})
		}
	}
	for i := 0; i+1 < len(scn.Steps); i += 2 {
		if scn.Steps[i].R != scn.Steps[i+1].R && !r.Chance(1, 5) {
			scn.Steps[i].Par = true
			scn.Steps[i].Nest = Pick(r, []string{"upd", "upd", "upd", "est", ""})
		}
	}
	return scn
}

func c15Cls(scn *c15Scn, obs *c15Obs) string {
	if scn.Kind == "build" {
		return "test:build-roundtrip"
	}
	fk := map[string]bool{}
	est := 0
	for i, s := range scn.Steps {
		if s.K == "cfg" {
			fk["cfgstep"] = true
			continue
		}
		if s.K == "sig" {
			fk["sig"] = true
			if s.SigCfg != "" {
				fk["sig:listerr"] = true
			}
			if s.F.GetE != "" {
				fk["sig:getE:"+s.F.GetE] = true
			}
			if s.F.Stat != "" {
				fk["sig:stat"] = true
			}
			continue
		}
		if s.F.Env != "" {
			fk["env:"+s.F.Env] = true
		}
		if s.F.GetE != "" {
			fk["getE:"+s.F.GetE] = true
		}
		if s.F.Fin != "" {
			fk["fin:"+s.F.Fin] = true
		}
		if s.F.Stat != "" {
			fk["stat"] = true
		}
		if s.F.Est {
			fk["est:"+s.F.EstC] = true
		}
		if s.Par {
			fk["concurrent"] = true
			if s.Nest != "" {
				fk["nested:"+s.Nest] = true
			}
		}
		if s.F.Init {
			fk["init"] = true
		}
		if s.F.Read >= 0 {
			fk["read"] = true
		}
		if s.F.Store != "" {
			fk["store:"+s.F.Store] = true
		}
		if s.F.Get {
			fk["get"] = true
		}
		if s.F.Del {
			fk["del"] = true
		}
		if s.F.Upd != "" {
			fk["upd:"+s.F.Upd] = true
		}
		if s.Deleted {
			fk["deleted"] = true
		}
		if !s.Active {
			fk["inactive"] = true
		}
		if i < len(obs.Steps) && obs.Steps[i].Est != nil {
			est++
		}
	}
	r0 := scn.Revs[0]
	pre := r0.Pre
	if r0.Never {
		pre = "never-" + pre
	}
	e := "noest"
	if est > 0 {
		e = "est"
	}
	// the dominant aspect of the history
	fault := "nofault"
	keys := c15SortedKeys(fk)
	for _, pf := range []string{"nested:", "env:", "getE:", "fin:", "est:", "upd:", "stat", "sig:", "cfgstep", "concurrent", "read", "store:", "get", "init", "del", "deleted", "inactive", "sig"} {
		for _, k := range keys {
			if fault == "nofault" && strings.HasPrefix(k, pf) {
				fault = k
			}
		}
	}
	// how the revisions relate: several of one type (one reconciler), versions of one package, twins
	rel := fmt.Sprintf("revs=%d", len(scn.Revs))
	if len(scn.Revs) > 1 {
		same, twin, pkg := 0, false, false
		for i := 1; i < len(scn.Revs); i++ {
			if scn.Revs[i].PType == r0.PType {
				same++
			}
			if c15IsTwin(&scn.Revs[0], &scn.Revs[i]) {
				twin = true
			}
			if scn.Revs[i].Name[:4] == r0.Name[:4] && scn.Revs[i].Name != r0.Name {
				pkg = true
			}
		}
		rel += fmt.Sprintf("/sametype=%d", same)
		if twin {
			rel += "/twin"
		}
		if pkg {
			rel += "/samepkg"
		}
	}
	if len(scn.Cfgs) > 0 {
		rel += fmt.Sprintf("/cfgs=%d", len(scn.Cfgs))
	}
	return fmt.Sprintf("%s/%s/pre=%s/%s/%s/%s", r0.PType, r0.Img, pre, rel, fault, e)
}

// ---------------------------------------------------------------- xpkg build round trip (a differential TEST, not a theorem)

type c15BuildObs struct {
	Built bool        `json:"built"`
	Same  bool        `json:"same"`
	Objs  [][2]string `json:"objs"`
}

func c15RunBuild(scn *c15Scn) (c15BuildObs, []Mon) {
	var mons []Mon
	rev := scn.Revs[0]
	fs := afero.NewMemMapFs()
	root := "/pkg"
	var want [][2]string
	var wantUID []string
	fi := 0
	for i, d := range rev.Docs {
		if d.T != "meta" && d.T != "obj" {
			continue
		}
		fn := fmt.Sprintf("%s/f%02d.yaml", root, fi)
		if d.T == "meta" {
			fn = root + "/crossplane.yaml"
		} else if fi%3 == 2 {
			fn = fmt.Sprintf("%s/sub/f%02d.yaml", root, fi)
		}
		fi++
		_ = afero.WriteFile(fs, fn, []byte(c15RenderDoc(d, i)), 0o644)
		if d.T == "obj" {
			want = append(want, [2]string{d.GVK, d.Name})
			wantUID = append(wantUID, fmt.Sprint(i))
		}
	}
	ms, _ := xpkg.BuildMetaScheme()
	os, _ := xpkg.BuildObjectScheme()
	b := xpkg.New(
		parser.NewFsBackend(fs, parser.FsDir(root), parser.FsFilters(parser.SkipDirs(), parser.SkipNotYAML(), parser.SkipEmpty())),
		parser.NewFsBackend(fs, parser.FsDir(root+"/examples"), parser.FsFilters(parser.SkipDirs(), parser.SkipNotYAML(), parser.SkipEmpty())),
		parser.New(ms, os), examples.New())
	obs := c15BuildObs{Objs: [][2]string{}}
	ctx := context.Background()
	img, _, err := b.Build(ctx)
	if err != nil {
		return obs, mons
	}
	obs.Built = true
	// `crossplane xpkg build` writes the image as a tarball (.xpkg file); push reads it back
	var tb bytes.Buffer
	tag, _ := name.NewTag("xpkg.example.org/acme/built:v1.0.0")
	if err := tarball.Write(tag, img, &tb); err != nil {
		mons = append(mons, Mon{Sig: "C15:build-roundtrip", Why: "cannot write the built image as a tarball: " + err.Error()})
		return obs, mons
	}
	img, err = tarball.Image(func() (io.ReadCloser, error) { return io.NopCloser(bytes.NewReader(tb.Bytes())), nil }, nil)
	if err != nil {
		mons = append(mons, Mon{Sig: "C15:build-roundtrip", Why: "cannot read the built tarball: " + err.Error()})
		return obs, mons
	}
	if rev.Shape&1 == 1 {
		// what `crossplane xpkg push` does: turn config labels into layer annotations
		if a, err := xpkg.AnnotateLayers(img); err == nil {
			img = a
		}
	}
	pr := &pkgv1.ProviderRevision{}
	pr.SetSource("xpkg.example.org/acme/built:v1.0.0")
	rc, err := revision.NewImageBackend(&c15Fetcher{img: img}, revision.WithDefaultRegistry("xpkg.example.org")).Init(ctx, revision.PackageRevision(pr))
	if err != nil {
		mons = append(mons, Mon{Sig: "C15:build-roundtrip", Why: "ImageBackend cannot open what xpkg build produced: " + err.Error()})
		return obs, mons
	}
	raw, _ := io.ReadAll(rc)
	_ = rc.Close()
	pkg, err := parser.New(ms, os).Parse(ctx, io.NopCloser(bytes.NewReader(raw)))
	if err != nil {
		mons = append(mons, Mon{Sig: "C15:build-roundtrip", Why: "parser rejects what xpkg build produced: " + err.Error()})
		return obs, mons
	}
	// the same parser on the source directory
	src, err := parser.NewFsBackend(fs, parser.FsDir(root), parser.FsFilters(parser.SkipDirs(), parser.SkipNotYAML(), parser.SkipEmpty())).Init(ctx)
	if err != nil {
		return obs, mons
	}
	spkg, err := parser.New(ms, os).Parse(ctx, src)
	if err != nil {
		return obs, mons
	}
	obs.Same = len(pkg.GetObjects()) == len(spkg.GetObjects()) && len(pkg.GetMeta()) == 1 && len(spkg.GetMeta()) == 1
	js := func(o runtime.Object) string { return mustJSON(o) }
	if obs.Same {
		for i := range pkg.GetObjects() {
			if js(pkg.GetObjects()[i]) != js(spkg.GetObjects()[i]) {
				obs.Same = false
			}
		}
		if js(pkg.GetMeta()[0]) != js(spkg.GetMeta()[0]) {
			obs.Same = false
		}
	}
	type ident struct{ gvk, name, uid string }
	var got []ident
	for _, o := range pkg.GetObjects() {
		a, err := meta.Accessor(o)
		if err != nil {
			continue
		}
		got = append(got, ident{c15GVKString(o.GetObjectKind().GroupVersionKind()), a.GetName(), a.GetAnnotations()["verif/uid"]})
		obs.Objs = append(obs.Objs, [2]string{got[len(got)-1].gvk, a.GetName()})
	}
	// order of the source directory walk is by path; compare as multisets against what was written
	key := func(g, n, u string) string { return g + "|" + n + "|" + u }
	wantSet := map[string]int{}
	for i, wv := range want {
		wantSet[key(wv[0], wv[1], wantUID[i])]++
	}
	for _, g := range got {
		wantSet[key(g.gvk, g.name, g.uid)]--
	}
	for k, v := range wantSet {
		if v != 0 {
			obs.Same = false
			mons = append(mons, Mon{Sig: "C15:build-roundtrip", Why: fmt.Sprintf("object %s: written %+d times more than parsed back", k, v)})
			break
		}
	}
	if !obs.Same && len(mons) == 0 {
		mons = append(mons, Mon{Sig: "C15:build-roundtrip", Why: "objects parsed back from the built image differ from the objects of the package directory"})
	}
	sort.Slice(obs.Objs, func(i, j int) bool { return obs.Objs[i][0]+obs.Objs[i][1] < obs.Objs[j][0]+obs.Objs[j][1] })
	return obs, mons
}

func c15GenBuild(r *Rng) c15Scn {
	ptype := Pick(r, c15PTypes)
	k := c15GetKinds()
	docs := []c15Doc{{T: "meta", GVK: Pick(r, k.metaOK[ptype]), Name: "pkg-" + ptype, Con: Pick(r, []string{"none", "in", "out"})}}
	for i, n := 0, r.Intn(6); i < n; i++ {
		g := Pick(r, k.allowed[ptype])
		docs = append(docs, c15Doc{T: "obj", GVK: g, Name: c15ObjName(g, i), Pad: r.Intn(3) * r.Intn(3000)})
	}
	return c15Scn{Kind: "build", Revs: []c15Rev{{PType: ptype, Name: "built", Source: "built", Docs: docs, Shape: r.Intn(2), Img: "built", Pre: "cold"}}, Steps: []c15Step{}}
}

// ---------------------------------------------------------------- cache ids (a TEST supporting the Compat assumption)

// The theorems assume that revisions whose cache paths coincide carry the same
// image. FsPackageCache derives the path with BuildPath, which strips what looks
// like a file extension, so ids containing a dot could collide. Revision names
// are produced by xpkg.FriendlyID; this test checks on generated package names
// (DNS subdomains, dots included) and digests that they are dot- and slash-free
// and that BuildPath is injective on them.
func c15RunIDs(scn *c15Scn) (map[string]bool, []Mon) {
	var mons []Mon
	seen := map[string]string{}
	for _, r := range scn.Revs {
		id := xpkg.FriendlyID(r.Name, r.Source)
		if strings.ContainsAny(id, "./") {
			mons = append(mons, Mon{Sig: "C15:revision-name-not-a-label", Why: fmt.Sprintf("FriendlyID(%q,%q)=%q contains a dot or slash: its cache path drops the suffix", r.Name, r.Source, id)})
		}
		p := c15CachePath(id)
		if other, ok := seen[p]; ok && other != id {
			mons = append(mons, Mon{Sig: "C15:cache-path-collision", Why: fmt.Sprintf("revision names %q and %q share the cache path %s", other, id, p)})
		}
		seen[p] = id
	}
	return map[string]bool{"ok": true}, mons
}

func c15GenIDs(r *Rng) c15Scn {
	scn := c15Scn{Kind: "ids", Steps: []c15Step{}}
	parts := []string{"provider", "aws", "s3", "upbound", "crossplane-contrib", "function", "v1", "gcp.storage", "x", "a-b", "io"}
	for i, n := 0, r.Range(2, 6); i < n; i++ {
		var name []string
		for j, m := 0, r.Range(1, 4); j < m; j++ {
			name = append(name, Pick(r, parts))
		}
		scn.Revs = append(scn.Revs, c15Rev{Name: strings.Join(name, Pick(r, []string{".", "-", "."})), Source: fmt.Sprintf("%012x%052x", r.U64()&0xffffffffffff, r.U64()), Docs: []c15Doc{}})
	}
	return scn
}

// ---------------------------------------------------------------- registration

func c15Emit(c *Ctx, scn *c15Scn, corpus bool) {
	if scn.Kind == "ids" {
		var obs map[string]bool
		var mons []Mon
		if p := Guard(func() { obs, mons = c15RunIDs(scn) }); p != "" {
			mons = append(mons, Mon{Sig: "C15:panic", Why: p})
		}
		c.Emit(scn, obs, mons, "test:cache-ids")
		return
	}
	if scn.Kind == "tee" {
		var obs c15TeeObs
		var mons []Mon
		cls := "test:tee"
		if p := Guard(func() { obs, mons, cls = c15RunTee(scn) }); p != "" {
			mons = append(mons, Mon{Sig: "C15:panic", Why: p})
		}
		if corpus {
			cls = "corpus/" + cls
		}
		c.Emit(scn, obs, mons, cls)
		return
	}
	if scn.Kind == "build" {
		var obs c15BuildObs
		var mons []Mon
		if p := Guard(func() { obs, mons = c15RunBuild(scn) }); p != "" {
			mons = append(mons, Mon{Sig: "C15:panic", Why: p})
		}
		cls := "test:build-roundtrip/" + scn.Revs[0].PType
		if corpus {
			cls = "corpus/" + cls
		}
		c.Emit(scn, obs, mons, cls)
		return
	}
	var obs c15Obs
	var mons []Mon
	if p := Guard(func() { obs, mons = c15Run(scn) }); p != "" {
		mons = append(mons, Mon{Sig: "C15:harness-panic", Why: p})
	}
	cls := c15Cls(scn, &obs)
	if corpus {
		cls = "corpus/" + cls
	}
	c.Emit(scn, obs, mons, cls)
}

// c15Sweeps: fault at EVERY byte position (thorough) or at a regular stride (quick) of
// one package, for the source read and for the cache write; each followed by a
// fault-free reconcile sharing the cache.
func c15Sweeps(c *Ctx) {
	base := c15Witnesses()[0]
	rev := base.Revs[0]
	stream, _, _ := c15Stream(rev.Docs, rev.Shape)
	L := len(stream)
	G := len(c15Gzip(stream))
	stride := func(n int) int {
		if c.Tier == "thorough" {
			return 1
		}
		if n/120 < 1 {
			return 1
		}
		return n / 120
	}
	clean := c15Step{K: "rec", Active: true, F: c15Faults{Read: -1}}
	for _, img := range []string{"annotated", "plain2", "multi"} {
		st := stride(L)
		if c.Tier == "thorough" && img != "annotated" {
			st = 3
		}
		for b := 0; b < L; b += st {
			s := c15Scn{Kind: "rev", Revs: []c15Rev{rev}, Steps: []c15Step{{K: "rec", Active: true, F: c15Faults{Read: b}}, clean}}
			s.Revs[0].Img = img
			s.Revs[0].Name = fmt.Sprintf("pkga-provider-%06x", b)
			c15EmitCls(c, &s, fmt.Sprintf("sweep/read/%s", img))
		}
	}
	for b := 0; b < G; b += stride(G) {
		for _, del := range []bool{false, true} {
			s := c15Scn{Kind: "rev", Revs: []c15Rev{rev}, Steps: []c15Step{{K: "rec", Active: true, F: c15Faults{Read: -1, Store: "write", StoreN: b, Del: del}}, clean, clean}}
			s.Revs[0].Name = fmt.Sprintf("pkga-provider-%06x", b)
			c15EmitCls(c, &s, fmt.Sprintf("sweep/store/del=%v", del))
		}
	}
}

func c15EmitCls(c *Ctx, scn *c15Scn, cls string) {
	var obs c15Obs
	var mons []Mon
	if p := Guard(func() { obs, mons = c15Run(scn) }); p != "" {
		mons = append(mons, Mon{Sig: "C15:harness-panic", Why: p})
	}
	c.Emit(scn, obs, mons, cls)
}

func init() {
	Register("C15", func(c *Ctx) {
		// every scenario builds OCI images and gzip streams that die with it: collect less often
		debug.SetGCPercent(400)
		for _, raw := range c.Corpus {
			var s c15Scn
			if err := jsonUnmarshalStrict(raw, &s); err == nil && (len(s.Revs) > 0 || s.Kind == "tee") {
				c15Emit(c, &s, true)
			}
		}
		if len(c.Corpus) > 0 {
			// only the shard that replays the corpus runs the systematic sweeps
			c15Sweeps(c)
		}
		for i := 0; i < c.N; i++ {
			if i%25 == 24 {
				s := c15GenBuild(c.Rng)
				c15Emit(c, &s, false)
				continue
			}
			if i%100 == 50 {
				s := c15GenIDs(c.Rng)
				c15Emit(c, &s, false)
				continue
			}
			if i%20 == 13 {
				s := c15GenTee(c.Rng)
				c15Emit(c, &s, false)
				continue
			}
			if i%12 == 7 {
				s := c15GenCrossTalk(c.Rng)
				c15Emit(c, &s, false)
				continue
			}
			s := c15Gen(c.Rng)
			c15Emit(c, &s, false)
		}
	})
	RegisterDump("C15Tables", c15DumpTables)
}

// ---------------------------------------------------------------- tables regenerated from the tree

// c15ProbeLint runs the REAL parser and the REAL linter of a package type on a
// two-document stream (meta, probe) and reports whether the package lints clean.
func c15ProbeLint(ptype, metaGVK, objGVK string) bool {
	ms, _ := xpkg.BuildMetaScheme()
	os, _ := xpkg.BuildObjectScheme()
	docs := []c15Doc{{T: "meta", GVK: metaGVK, Name: "probe", Con: "none"}}
	if objGVK != "" {
		docs = append(docs, c15Doc{T: "obj", GVK: objGVK, Name: "probe.example.org"})
	}
	stream, _, _ := c15Stream(docs, 0)
	pkg, err := parser.New(ms, os).Parse(context.Background(), io.NopCloser(bytes.NewReader(stream)))
	if err != nil {
		return false
	}
	wantObjs := 0
	if objGVK != "" {
		wantObjs = 1
	}
	if len(pkg.GetMeta()) != 1 || len(pkg.GetObjects()) != wantObjs {
		return false
	}
	_, _, linter := c15NewRevFn(ptype)
	return linter.Lint(pkg) == nil
}

func c15DumpTables() string {
	ms, _ := xpkg.BuildMetaScheme()
	os, _ := xpkg.BuildObjectScheme()
	objKinds := c15SchemeKinds(os, false)
	metaKinds := c15SchemeKinds(ms, false)
	var sb strings.Builder
	sb.WriteString("/-- every external-version kind of xpkg.BuildObjectScheme() -/\n")
	sb.WriteString("def c15ObjectKinds : List String := " + leanStrList(objKinds) + "\n\n")
	sb.WriteString("/-- every external-version kind of xpkg.BuildMetaScheme() -/\n")
	sb.WriteString("def c15MetaKinds : List String := " + leanStrList(metaKinds) + "\n\n")
	for _, p := range c15PTypes {
		var okObj, okMeta []string
		for _, g := range objKinds {
			if c15ProbeLint(p, c15GoodMeta(p), g) {
				okObj = append(okObj, g)
			}
		}
		for _, g := range metaKinds {
			if c15ProbeLint(p, g, "") {
				okMeta = append(okMeta, g)
			}
		}
		up := strings.ToUpper(p[:1]) + p[1:]
		fmt.Fprintf(&sb, "/-- object kinds the real New%sLinter() accepts (probed: real parser + real linter on a meta + one object of the kind) -/\n", up)
		fmt.Fprintf(&sb, "def c15%sObjectKinds : List String := %s\n\n", up, leanStrList(okObj))
		fmt.Fprintf(&sb, "/-- meta kinds the real New%sLinter() accepts (probed on a stream holding only that meta) -/\n", up)
		fmt.Fprintf(&sb, "def c15%sMetaKinds : List String := %s\n\n", up, leanStrList(okMeta))
	}
	return sb.String()
}

// ---------------------------------------------------------------- witnesses (corpus/C15 is produced from these)

func c15Witnesses() []c15Scn {
	crd := "apiextensions.k8s.io/v1/CustomResourceDefinition"
	docs := []c15Doc{{T: "meta", GVK: "meta.pkg.crossplane.io/v1/Provider", Name: "pkg-provider", Con: "none"}}
	for i := 0; i < 4; i++ {
		docs = append(docs, c15Doc{T: "obj", GVK: crd, Name: c15ObjName(crd, i)})
	}
	_, starts, _ := c15Stream(docs, 0)
	var out []c15Scn
	// D6: the first pull breaks on a document boundary (just before the separator in front of the 3rd CRD);
	// the second reconcile is fault free.
	for _, img := range []string{"annotated", "plain"} {
		out = append(out, c15Scn{Kind: "rev", Revs: []c15Rev{{PType: "provider", Name: "pkga-provider-d6d6d6", Source: "xpkg.example.org/acme/pkga:v1.0.0", Docs: docs, Img: img, Pre: "cold"}},
			Steps: []c15Step{
				{K: "rec", Active: true, F: c15Faults{Read: starts[3] - 4}},
				{K: "rec", Active: true, F: c15Faults{Read: -1}},
			}})
	}
	// D6, second shape: the parser gives up on an undecodable document; the copy in the cache ends there.
	bad := append(append([]c15Doc{}, docs[:3]...), c15Doc{T: "bad", Name: "unknown"})
	bad = append(bad, docs[3:]...)
	out = append(out, c15Scn{Kind: "rev", Revs: []c15Rev{{PType: "provider", Name: "pkga-provider-baddoc", Source: "xpkg.example.org/acme/pkga:v1.0.1", Docs: bad, Img: "annotated", Pre: "cold"}},
		Steps: []c15Step{{K: "rec", Active: true, F: c15Faults{Read: -1}}, {K: "rec", Active: true, F: c15Faults{Read: -1}}}})
	// (The D18 witness in corpus/C15/d18-witness.jsonl was found by the generator: it needs a stream
	// slightly longer than one 4096-byte read whose truncation is still valid YAML.)
	// D7: a Function package that carries a Composition.
	out = append(out, c15Scn{Kind: "rev", Revs: []c15Rev{{PType: "function", Name: "pkga-function-d7d7d7", Source: "xpkg.example.org/acme/fn:v1.0.0",
		Docs: []c15Doc{{T: "meta", GVK: "meta.pkg.crossplane.io/v1/Function", Name: "pkg-function", Con: "none"}, {T: "obj", GVK: crd, Name: c15ObjName(crd, 0)}, {T: "obj", GVK: "apiextensions.crossplane.io/v1/Composition", Name: "compositions1.example.org"}},
		Img:  "annotated", Pre: "cold"}},
		Steps: []c15Step{{K: "rec", Active: true, F: c15Faults{Read: -1}}}})
	return out
}

func init() {
	Register("C15witness", func(c *Ctx) {
		for _, s := range c15Witnesses() {
			s := s
			c15Emit(c, &s, true)
		}
	})
}

//go:build verif

package main

// C16, content dimension: what APIEstablisher.Establish does to the CONTENT of a package object
// before it validates and writes it — addLabels (the parent's spec.commonLabels) and, for a
// controlling parent, enrichControlledResource (webhook configurations renamed after the package
// and pointed at the package's service with the CA bundle; CRDs with webhook conversion likewise,
// or refused without a CA bundle). Model: lean/Xp/Model/C16Enrich.lean (`prepare`).
//
// Scenario family {"enrich": …}: ONE package object that does not exist in the cluster is put
// through the REAL Establish (getWebhookTLSCert -> enrichControlledResource inside the validate
// goroutine -> dry-run create -> real create) over a recording client; observed: whether Establish
// failed, the object as it was submitted / left behind, and the number of dry-run and real
// creates. Direct monitors evaluate the frame ("nothing else of the object changes") on the
// complete real Kubernetes object (JSON before against JSON after with the permitted paths
// removed), independent of the model.
//
// The same runner produces lean/Xp/Gen/C16Enrich.lean: a table of rows over a small exhaustive
// domain, obtained by calling enrichControlledResource / addLabels / create / update of the
// current tree directly (export shim), which Props/C16.lean section 12 compares with the model
// by `decide`.

import (
	"context"
	"encoding/json"
	"fmt"
	"reflect"
	"sort"
	"strings"

	admv1 "k8s.io/api/admissionregistration/v1"
	corev1 "k8s.io/api/core/v1"
	extv1 "k8s.io/apiextensions-apiserver/pkg/apis/apiextensions/v1"
	kerrors "k8s.io/apimachinery/pkg/api/errors"
	metav1 "k8s.io/apimachinery/pkg/apis/meta/v1"
	"k8s.io/apimachinery/pkg/runtime"
	"k8s.io/apimachinery/pkg/runtime/schema"
	"sigs.k8s.io/controller-runtime/pkg/client"

	xv1 "github.com/crossplane/crossplane/apis/apiextensions/v1"
	pkgv1 "github.com/crossplane/crossplane/apis/pkg/v1"
	"github.com/crossplane/crossplane/internal/controller/pkg/revision"

	"github.com/crossplane/crossplane-runtime/pkg/resource"
)

type revisionObject = resource.Object

// ---------------------------------------------------------------- scenario

type c16ESvc struct {
	Name string  `json:"name"`
	NS   string  `json:"ns"`
	Path *string `json:"path"`
	Port *int    `json:"port"`
}

type c16ECC struct {
	URL *string  `json:"url"`
	Svc *c16ESvc `json:"svc"`
	CA  string   `json:"ca"`
}

type c16EHook struct {
	Name string `json:"name"`
	CC   c16ECC `json:"cc"`
	Rest int    `json:"rest"` // timeoutSeconds
}

type c16EWebhookConv struct {
	CC *c16ECC  `json:"cc"`
	RV []string `json:"rv"` // conversionReviewVersions
}

type c16EConv struct {
	Strategy string           `json:"strategy"`
	Webhook  *c16EWebhookConv `json:"webhook"`
}

type c16EObj struct {
	Kind   string      `json:"kind"` // VWC | MWC | CRD | Other
	Name   string      `json:"name"`
	Labels [][2]string `json:"labels"` // nil = no labels map
	Hooks  []c16EHook  `json:"hooks"`
	Conv   *c16EConv   `json:"conv"`
	Rest   int         `json:"rest"`
}

type c16EOwner struct {
	Kind string `json:"kind"`
	Name string `json:"name"`
}

type c16EParent struct {
	Label  string      `json:"label"`
	Owners []c16EOwner `json:"owners"`
	Common [][2]string `json:"common"` // nil = no spec.commonLabels
	TLS    string      `json:"tls"`    // noRuntime | noName | present
}

type c16EnrichScn struct {
	NS      string     `json:"ns"`
	Crt     string     `json:"crt"` // tls.crt of the secret (not empty)
	Control bool       `json:"control"`
	Parent  c16EParent `json:"parent"`
	Obj     c16EObj    `json:"obj"`
	// Cur: the object already exists in the cluster with this content (same kind; it is served
	// under whatever name Establish asks for, resourceVersion 5, the package as plain owner);
	// nil = absent
	Cur *c16EObj `json:"cur"`
}

type c16EnrichWrap struct {
	Enrich c16EnrichScn `json:"enrich"`
}

type c16EnrichObs struct {
	Err  bool     `json:"err"`
	Obj  *c16EObj `json:"obj"` // the package object after Establish (nil when Establish failed)
	Dry  int      `json:"dry"` // dry-run writes (create or update)
	Real int      `json:"real"`
	// Looked: the names Establish asked the API server for (the TLS secret apart)
	Looked []string `json:"looked"`
	// Sub: the content of the object of the last write (create or update); nil = no write
	Sub *c16EObj `json:"sub"`
}

// ---------------------------------------------------------------- typed objects

func c16ELabels(l [][2]string) map[string]string {
	if l == nil {
		return nil
	}
	m := map[string]string{}
	for _, kv := range l {
		m[kv[0]] = kv[1]
	}
	return m
}

func c16ELabelsOf(m map[string]string) [][2]string {
	if m == nil {
		return nil
	}
	out := [][2]string{}
	for k, v := range m {
		out = append(out, [2]string{k, v})
	}
	sort.Slice(out, func(i, j int) bool { return out[i][0] < out[j][0] })
	return out
}

func c16EInt32(p *int) *int32 {
	if p == nil {
		return nil
	}
	v := int32(*p)
	return &v
}

func c16EIntOf(p *int32) *int {
	if p == nil {
		return nil
	}
	v := int(*p)
	return &v
}

func c16EAdmCC(c c16ECC) admv1.WebhookClientConfig {
	out := admv1.WebhookClientConfig{URL: c.URL}
	if c.CA != "" {
		out.CABundle = []byte(c.CA)
	}
	if c.Svc != nil {
		out.Service = &admv1.ServiceReference{Name: c.Svc.Name, Namespace: c.Svc.NS, Path: c.Svc.Path, Port: c16EInt32(c.Svc.Port)}
	}
	return out
}

func c16EAdmCCOf(c admv1.WebhookClientConfig) c16ECC {
	out := c16ECC{URL: c.URL, CA: string(c.CABundle)}
	if c.Service != nil {
		out.Svc = &c16ESvc{Name: c.Service.Name, NS: c.Service.Namespace, Path: c.Service.Path, Port: c16EIntOf(c.Service.Port)}
	}
	return out
}

func c16EExtCC(c c16ECC) *extv1.WebhookClientConfig {
	out := &extv1.WebhookClientConfig{URL: c.URL}
	if c.CA != "" {
		out.CABundle = []byte(c.CA)
	}
	if c.Svc != nil {
		out.Service = &extv1.ServiceReference{Name: c.Svc.Name, Namespace: c.Svc.NS, Path: c.Svc.Path, Port: c16EInt32(c.Svc.Port)}
	}
	return out
}

func c16EExtCCOf(c *extv1.WebhookClientConfig) *c16ECC {
	if c == nil {
		return nil
	}
	out := &c16ECC{URL: c.URL, CA: string(c.CABundle)}
	if c.Service != nil {
		out.Svc = &c16ESvc{Name: c.Service.Name, NS: c.Service.Namespace, Path: c.Service.Path, Port: c16EIntOf(c.Service.Port)}
	}
	return out
}

// c16EBuild: the typed object the package parser would hand to Establish.
func c16EBuild(o c16EObj) client.Object {
	ann := map[string]string{c16BodyAnn: fmt.Sprint(o.Rest)}
	se := admv1.SideEffectClassNone
	switch o.Kind {
	case "VWC":
		c := &admv1.ValidatingWebhookConfiguration{}
		c.SetGroupVersionKind(admv1.SchemeGroupVersion.WithKind("ValidatingWebhookConfiguration"))
		for _, h := range o.Hooks {
			t := int32(h.Rest)
			c.Webhooks = append(c.Webhooks, admv1.ValidatingWebhook{Name: h.Name, ClientConfig: c16EAdmCC(h.CC), TimeoutSeconds: &t, SideEffects: &se, AdmissionReviewVersions: []string{"v1"}})
		}
		c.SetName(o.Name)
		c.SetLabels(c16ELabels(o.Labels))
		c.SetAnnotations(ann)
		return c
	case "MWC":
		c := &admv1.MutatingWebhookConfiguration{}
		c.SetGroupVersionKind(admv1.SchemeGroupVersion.WithKind("MutatingWebhookConfiguration"))
		for _, h := range o.Hooks {
			t := int32(h.Rest)
			c.Webhooks = append(c.Webhooks, admv1.MutatingWebhook{Name: h.Name, ClientConfig: c16EAdmCC(h.CC), TimeoutSeconds: &t, SideEffects: &se, AdmissionReviewVersions: []string{"v1"}})
		}
		c.SetName(o.Name)
		c.SetLabels(c16ELabels(o.Labels))
		c.SetAnnotations(ann)
		return c
	case "CRD":
		c := &extv1.CustomResourceDefinition{}
		c.SetGroupVersionKind(extv1.SchemeGroupVersion.WithKind("CustomResourceDefinition"))
		c.Spec.Group = "example.org"
		c.Spec.Names.Kind = fmt.Sprintf("B%d", o.Rest)
		c.Spec.Names.Plural = fmt.Sprintf("b%ds", o.Rest)
		c.Spec.Scope = extv1.ClusterScoped
		if o.Conv != nil {
			c.Spec.Conversion = &extv1.CustomResourceConversion{Strategy: extv1.ConversionStrategyType(o.Conv.Strategy)}
			if w := o.Conv.Webhook; w != nil {
				c.Spec.Conversion.Webhook = &extv1.WebhookConversion{ConversionReviewVersions: append([]string(nil), w.RV...)}
				if w.CC != nil {
					c.Spec.Conversion.Webhook.ClientConfig = c16EExtCC(*w.CC)
				}
			}
		}
		c.SetName(o.Name)
		c.SetLabels(c16ELabels(o.Labels))
		c.SetAnnotations(ann)
		return c
	}
	c := &xv1.Composition{}
	c.SetGroupVersionKind(xv1.CompositionGroupVersionKind)
	c.Spec.CompositeTypeRef = xv1.TypeReference{APIVersion: "example.org/v1", Kind: fmt.Sprintf("B%d", o.Rest)}
	c.SetName(o.Name)
	c.SetLabels(c16ELabels(o.Labels))
	c.SetAnnotations(ann)
	return c
}

// c16EObserve reads the scenario view back off a typed object.
func c16EObserve(obj runtime.Object) *c16EObj {
	out := &c16EObj{Hooks: []c16EHook{}}
	switch c := obj.(type) {
	case *admv1.ValidatingWebhookConfiguration:
		out.Kind = "VWC"
		for _, h := range c.Webhooks {
			r := -1
			if h.TimeoutSeconds != nil {
				r = int(*h.TimeoutSeconds)
			}
			out.Hooks = append(out.Hooks, c16EHook{Name: h.Name, CC: c16EAdmCCOf(h.ClientConfig), Rest: r})
		}
	case *admv1.MutatingWebhookConfiguration:
		out.Kind = "MWC"
		for _, h := range c.Webhooks {
			r := -1
			if h.TimeoutSeconds != nil {
				r = int(*h.TimeoutSeconds)
			}
			out.Hooks = append(out.Hooks, c16EHook{Name: h.Name, CC: c16EAdmCCOf(h.ClientConfig), Rest: r})
		}
	case *extv1.CustomResourceDefinition:
		out.Kind = "CRD"
		if cv := c.Spec.Conversion; cv != nil {
			out.Conv = &c16EConv{Strategy: string(cv.Strategy)}
			if w := cv.Webhook; w != nil {
				rv := append([]string{}, w.ConversionReviewVersions...)
				out.Conv.Webhook = &c16EWebhookConv{CC: c16EExtCCOf(w.ClientConfig), RV: rv}
			}
		}
	default:
		out.Kind = "Other"
	}
	m := obj.(metav1.Object)
	out.Name = m.GetName()
	out.Labels = c16ELabelsOf(m.GetLabels())
	out.Rest = c16BodyOf(m)
	return out
}

func c16EParentObj(p c16EParent) pkgv1.PackageRevision {
	var pr pkgv1.PackageRevision
	if p.TLS == "" || p.TLS == "noRuntime" {
		c := &pkgv1.ConfigurationRevision{}
		c.SetGroupVersionKind(pkgv1.ConfigurationRevisionGroupVersionKind)
		pr = c
	} else {
		c := &pkgv1.ProviderRevision{}
		c.SetGroupVersionKind(pkgv1.ProviderRevisionGroupVersionKind)
		if p.TLS != "noName" {
			n := c16TLSSecret
			c.Spec.TLSServerSecretName = &n
		}
		pr = c
	}
	pr.SetName("the-revision")
	pr.SetUID(c16UID(31))
	if p.Label != "" {
		pr.SetLabels(map[string]string{pkgv1.LabelParentPackage: p.Label})
	}
	var ors []metav1.OwnerReference
	for i, r := range p.Owners {
		t := true
		ors = append(ors, metav1.OwnerReference{APIVersion: "pkg.crossplane.io/v1", Kind: r.Kind, Name: r.Name, UID: c16UID(3 + i), Controller: &t})
	}
	pr.SetOwnerReferences(ors)
	pr.SetCommonLabels(c16ELabels(p.Common))
	return pr
}

// ---------------------------------------------------------------- recording client

// c16CapClient answers the Get of the TLS secret according to the scenario, says NotFound to
// every other Get and records what is created / updated (deep copies).
type c16CapClient struct {
	client.Client
	tls, crt  string
	dry, real int
	created   []client.Object
	updated   []client.Object
	writes    []client.Object
	cur       client.Object
	looked    []string
}

func (c *c16CapClient) Get(_ context.Context, key client.ObjectKey, obj client.Object, _ ...client.GetOption) error {
	if s, ok := obj.(*corev1.Secret); ok && c.tls == "present" && key.Name == c16TLSSecret {
		s.SetName(key.Name)
		s.SetNamespace(key.Namespace)
		s.Data = map[string][]byte{"tls.crt": []byte(c.crt)}
		return nil
	}
	if _, ok := obj.(*corev1.Secret); !ok {
		c.looked = append(c.looked, key.Name)
		if c.cur != nil && reflect.TypeOf(obj) == reflect.TypeOf(c.cur) {
			reflect.ValueOf(obj).Elem().Set(reflect.ValueOf(c.cur.DeepCopyObject()).Elem())
			obj.SetName(key.Name)
			obj.SetResourceVersion("5")
			return nil
		}
	}
	return kerrors.NewNotFound(schema.GroupResource{Resource: "objects"}, key.Name)
}

func (c *c16CapClient) Create(_ context.Context, obj client.Object, opts ...client.CreateOption) error {
	co := &client.CreateOptions{}
	co.ApplyOptions(opts)
	if len(co.DryRun) > 0 {
		c.dry++
	} else {
		c.real++
	}
	c.created = append(c.created, obj.DeepCopyObject().(client.Object))
	c.writes = append(c.writes, obj.DeepCopyObject().(client.Object))
	return nil
}

func (c *c16CapClient) Update(_ context.Context, obj client.Object, opts ...client.UpdateOption) error {
	uo := &client.UpdateOptions{}
	uo.ApplyOptions(opts)
	if len(uo.DryRun) > 0 {
		c.dry++
	} else {
		c.real++
	}
	c.updated = append(c.updated, obj.DeepCopyObject().(client.Object))
	c.writes = append(c.writes, obj.DeepCopyObject().(client.Object))
	return nil
}

// ---------------------------------------------------------------- the frame, on the real object

// c16EFrame removes from the JSON form of a package object every path Establish may write before
// submitting it: metadata.labels (addLabels), metadata.ownerReferences and metadata.resourceVersion
// (create / update), and — only what
// enrichControlledResource may write — the name of a webhook configuration, caBundle and
// service.{name,namespace,port} of its webhooks' client configs, and the same below
// spec.conversion.webhook.clientConfig of a CRD whose strategy is Webhook.
func c16EFrame(obj runtime.Object) string {
	b, _ := json.Marshal(obj)
	var m map[string]any
	_ = json.Unmarshal(b, &m)
	md, _ := m["metadata"].(map[string]any)
	delete(md, "labels")
	delete(md, "ownerReferences")
	delete(md, "resourceVersion") // update: desired takes over current's
	blank := func(cc map[string]any) {
		delete(cc, "caBundle")
		if svc, ok := cc["service"].(map[string]any); ok {
			delete(svc, "name")
			delete(svc, "namespace")
			delete(svc, "port")
			if len(svc) == 0 {
				delete(cc, "service")
			}
		}
	}
	switch obj.(type) {
	case *admv1.ValidatingWebhookConfiguration, *admv1.MutatingWebhookConfiguration:
		delete(md, "name")
		if hs, ok := m["webhooks"].([]any); ok {
			for _, h := range hs {
				if hm, ok := h.(map[string]any); ok {
					if cc, ok := hm["clientConfig"].(map[string]any); ok {
						blank(cc)
					}
				}
			}
		}
	case *extv1.CustomResourceDefinition:
		spec, _ := m["spec"].(map[string]any)
		if cv, ok := spec["conversion"].(map[string]any); ok && cv["strategy"] == string(extv1.WebhookConverter) {
			if w, ok := cv["webhook"].(map[string]any); ok {
				if cc, ok := w["clientConfig"].(map[string]any); ok {
					blank(cc)
					if len(cc) == 0 {
						delete(w, "clientConfig")
					}
				}
				if rv, present := w["conversionReviewVersions"]; present {
					if l, ok := rv.([]any); rv == nil || (ok && len(l) == 0) {
						delete(w, "conversionReviewVersions")
					}
				}
				if len(w) == 0 {
					delete(cv, "webhook")
				}
			}
		}
	}
	out, _ := json.Marshal(m)
	return string(out)
}

// ---------------------------------------------------------------- running one scenario

func c16RunEnrich(s *c16EnrichScn) (c16EnrichObs, []Mon) {
	var mons []Mon
	add := func(sig, why string) { mons = append(mons, Mon{Sig: sig, Why: why}) }
	cl := &c16CapClient{tls: s.Parent.TLS, crt: s.Crt}
	est := revision.NewAPIEstablisher(cl, s.NS, 1)
	parent := c16EParentObj(s.Parent)
	obj := c16EBuild(s.Obj)
	before := obj.DeepCopyObject()
	frameBefore := c16EFrame(before)
	var curObs *c16EObj
	if s.Cur != nil {
		cc := *s.Cur
		cc.Kind = s.Obj.Kind
		cur := c16EBuild(cc)
		f := false
		cur.SetOwnerReferences([]metav1.OwnerReference{{APIVersion: "pkg.crossplane.io/v1", Kind: "Provider", Name: "some-package", UID: c16UID(3), Controller: &f}})
		cl.cur = cur
		curObs = c16EObserve(cur)
	}
	var err error
	if p := Guard(func() { _, err = est.Establish(context.Background(), []runtime.Object{obj}, parent, s.Control) }); p != "" {
		add("C16:enrich-panic", p)
		return c16EnrichObs{Err: true}, mons
	}
	obs := c16EnrichObs{Err: err != nil, Dry: cl.dry, Real: cl.real, Looked: append([]string{}, cl.looked...)}
	if err == nil {
		obs.Obj = c16EObserve(obj)
	}
	if n := len(cl.writes); n > 0 {
		obs.Sub = c16EObserve(cl.writes[n-1])
	}
	if curObs != nil {
		for _, u := range cl.updated {
			if s.Control {
				if c16EFrame(u) != frameBefore {
					add("C16:enrich-changed-foreign-field", "the object an active parent submitted in an update differs from the package's object outside labels / owner references / webhook client configs: "+c16EFrame(u))
				}
			} else {
				got := c16EObserve(u)
				want := *curObs
				want.Name = got.Name
				if mustJSON(got) != mustJSON(want) {
					add("C16:inactive-modified-content", "an inactive parent submitted other content than the object it read: "+mustJSON(got))
				}
			}
		}
		if len(cl.created) > 0 {
			add("C16:real-write-without-dry-run", "an existing object was answered with a create")
		}
	}
	// --- direct monitors (the real objects, not the model)
	cert := ""
	if s.Control && s.Parent.TLS == "present" {
		cert = s.Crt
	}
	if c16EFrame(obj) != frameBefore {
		add("C16:enrich-changed-foreign-field", "Establish changed a field of the package object outside labels / owner references / webhook client configs: "+frameBefore+" -> "+c16EFrame(obj))
	}
	for _, c := range cl.created {
		if c16EFrame(c) != frameBefore {
			add("C16:enrich-changed-foreign-field", "the object submitted differs from the package's object outside labels / owner references / webhook client configs: "+c16EFrame(c))
		}
	}
	if !s.Control {
		// an inactive revision never creates, and it leaves the content alone (labels apart)
		if len(cl.created) > 0 {
			add("C16:inactive-created", "an inactive parent issued a create for an absent object")
		}
		b := before.DeepCopyObject().(client.Object)
		a := obj.DeepCopyObject().(client.Object)
		b.SetLabels(nil)
		a.SetLabels(nil)
		if !reflect.DeepEqual(a, b) {
			add("C16:inactive-enriched", "an inactive parent rewrote the content of a package object")
		}
	}
	needsCA := s.Obj.Kind == "CRD" && s.Obj.Conv != nil && s.Obj.Conv.Strategy == string(extv1.WebhookConverter)
	if s.Control && needsCA && cert == "" && (err == nil || cl.dry+cl.real > 0) {
		add("C16:established-despite-blocked", "a CRD with webhook conversion was submitted although there is no CA bundle")
	}
	if err == nil && s.Control {
		if len(cl.created)+len(cl.updated) != 2 || cl.dry != 1 || cl.real != 1 {
			add("C16:real-write-without-dry-run", fmt.Sprintf("an absent object of an active parent: %d dry-run and %d real creates", cl.dry, cl.real))
		}
		// every client config that was filled points at the package's service with the CA bundle
		okCC := func(c *c16ECC) bool {
			return c != nil && c.CA == cert && c.Svc != nil && c.Svc.Name == s.Parent.Label && c.Svc.NS == s.NS && c.Svc.Port != nil && *c.Svc.Port == revision.VerifC16ServicePort
		}
		for _, c := range cl.writes {
			o := c16EObserve(c)
			switch {
			case (o.Kind == "VWC" || o.Kind == "MWC") && cert != "":
				for _, h := range o.Hooks {
					h := h
					if !okCC(&h.CC) {
						add("C16:webhook-not-pointed-at-package", "a webhook of "+o.Name+" does not carry the CA bundle / the package's service")
					}
				}
			case needsCA:
				if o.Conv == nil || o.Conv.Webhook == nil || !okCC(o.Conv.Webhook.CC) {
					add("C16:webhook-not-pointed-at-package", "the conversion webhook of CRD "+o.Name+" does not carry the CA bundle / the package's service")
				}
			}
			// every common label of the parent is on the object, the object's other labels are kept
			for _, kv := range s.Parent.Common {
				if c.GetLabels()[kv[0]] != kv[1] {
					add("C16:common-label-missing", "label "+kv[0]+" of spec.commonLabels is not on the submitted object")
				}
			}
			for _, kv := range s.Obj.Labels {
				if _, over := c16ELabels(s.Parent.Common)[kv[0]]; !over && c.GetLabels()[kv[0]] != kv[1] {
					add("C16:object-label-lost", "label "+kv[0]+" of the package object was dropped or changed")
				}
			}
		}
	}
	return obs, mons
}

// ---------------------------------------------------------------- generator

func c16EStr(s string) *string { return &s }
func c16EInt(i int) *int       { return &i }

func c16GenCC(r *Rng) c16ECC {
	cc := c16ECC{}
	switch r.Intn(4) {
	case 0: // nothing yet (what controller-tools generates: a service with a path)
		cc.Svc = &c16ESvc{Name: "webhook-service", NS: "system", Path: c16EStr(Pick(r, []string{"/validate", "/mutate-v1", "/convert"}))}
	case 1:
		cc.Svc = &c16ESvc{Name: Pick(r, []string{"", "old"}), NS: Pick(r, []string{"", "default"})}
		if r.Bool() {
			cc.Svc.Port = c16EInt(Pick(r, []int{443, 9443, 8443}))
		}
		if r.Bool() {
			cc.Svc.Path = c16EStr("/p")
		}
	case 2:
		cc.URL = c16EStr("https://example.org/hook")
	}
	if r.Chance(1, 3) {
		cc.CA = Pick(r, []string{"OLD", "CERT"})
	}
	return cc
}

func c16GenLabels(r *Rng, keys []string) [][2]string {
	if r.Chance(1, 3) {
		return nil
	}
	out := [][2]string{}
	for _, k := range keys {
		if r.Chance(1, 3) {
			out = append(out, [2]string{k, Pick(r, []string{"1", "2", ""})})
		}
	}
	return out
}

func c16GenEnrich(r *Rng) (c16EnrichScn, string) {
	s := c16EnrichScn{NS: Pick(r, []string{"crossplane-system", "xp"}), Crt: Pick(r, []string{"CERT", "C2"}), Control: r.Chance(3, 4)}
	labelKeys := []string{"a", "b", "pkg.crossplane.io/package", "ab"}
	pkg := Pick(r, []string{"prov", "provider-aws", "p"})
	p := c16EParent{Label: pkg, TLS: Pick(r, []string{"present", "present", "present", "noName", "noRuntime"}), Common: c16GenLabels(r, labelKeys), Owners: []c16EOwner{}}
	switch r.Intn(8) {
	case 0:
		p.Label = ""
	case 1: // no owner with the package's name
		p.Owners = append(p.Owners, c16EOwner{Kind: "Provider", Name: pkg + "-other"})
	case 2: // another owner first, one whose name has the package's name as a prefix
		p.Owners = append(p.Owners, c16EOwner{Kind: "Lock", Name: pkg + "x"}, c16EOwner{Kind: Pick(r, []string{"Provider", "Function"}), Name: pkg})
	case 3: // two with the package's name: the first one wins
		p.Owners = append(p.Owners, c16EOwner{Kind: "Function", Name: pkg}, c16EOwner{Kind: "Provider", Name: pkg})
	default:
		p.Owners = append(p.Owners, c16EOwner{Kind: Pick(r, []string{"Provider", "Function", "Configuration", "PROVIDER"}), Name: pkg})
	}
	s.Parent = p
	kind := "Other"
	switch r.Intn(8) {
	case 0, 1:
		kind = "VWC"
	case 2, 3:
		kind = "MWC"
	case 4, 5, 6:
		kind = "CRD"
	}
	s.Obj = c16GenEObj(r, kind, labelKeys)
	cls := "enrich/" + kind + "/control=" + fmt.Sprint(s.Control) + "/tls=" + p.TLS
	if s.Obj.Conv != nil {
		cls += "/" + s.Obj.Conv.Strategy
	}
	if r.Chance(1, 3) {
		cur := c16GenEObj(r, kind, labelKeys)
		s.Cur = &cur
		cls += "/exists"
	}
	return s, cls
}

// c16GenEObj draws a package object of the given kind.
func c16GenEObj(r *Rng, kind string, labelKeys []string) c16EObj {
	o := c16EObj{Kind: kind, Rest: r.Intn(5), Labels: c16GenLabels(r, labelKeys), Hooks: []c16EHook{}}
	switch o.Kind {
	case "VWC", "MWC":
		o.Name = Pick(r, []string{"validating-webhook-configuration", "mutating-webhook-configuration", "crossplane-provider-prov"})
		for i, n := 0, r.Intn(4); i < n; i++ {
			o.Hooks = append(o.Hooks, c16EHook{Name: fmt.Sprintf("h%d.example.org", i), CC: c16GenCC(r), Rest: 1 + r.Intn(30)})
		}
	case "CRD":
		o.Name = Pick(r, []string{"things.example.org", "buckets.aws.example.org"})
		switch r.Intn(6) {
		case 0:
		case 1:
			o.Conv = &c16EConv{Strategy: "None"}
		case 2: // strategy None with a left-over webhook section: must not be touched
			cc := c16GenCC(r)
			o.Conv = &c16EConv{Strategy: "None", Webhook: &c16EWebhookConv{CC: &cc, RV: []string{"v1"}}}
		case 3:
			o.Conv = &c16EConv{Strategy: "Webhook"}
		case 4:
			o.Conv = &c16EConv{Strategy: "Webhook", Webhook: &c16EWebhookConv{RV: []string{"v1", "v1beta1"}}}
		default:
			cc := c16GenCC(r)
			o.Conv = &c16EConv{Strategy: "Webhook", Webhook: &c16EWebhookConv{CC: &cc, RV: []string{"v1"}}}
		}
	default:
		o.Name = "comp"
	}
	return o
}

// ---------------------------------------------------------------- regenerated table (lean/Xp/Gen/C16Enrich.lean)

func c16LOptStr(s *string) string {
	if s == nil {
		return "none"
	}
	return "(some " + leanStr(*s) + ")"
}

func c16LOptInt(s *int) string {
	if s == nil {
		return "none"
	}
	return fmt.Sprintf("(some %d)", *s)
}

func c16LLabels(l [][2]string) string {
	if l == nil {
		return "none"
	}
	xs := make([]string, len(l))
	for i, kv := range l {
		xs[i] = "(" + leanStr(kv[0]) + ", " + leanStr(kv[1]) + ")"
	}
	return "(some [" + strings.Join(xs, ", ") + "])"
}

func c16LCC(c c16ECC) string {
	svc := "none"
	if c.Svc != nil {
		svc = "(some ⟨" + leanStr(c.Svc.Name) + ", " + leanStr(c.Svc.NS) + ", " + c16LOptStr(c.Svc.Path) + ", " + c16LOptInt(c.Svc.Port) + "⟩)"
	}
	return "⟨" + c16LOptStr(c.URL) + ", " + svc + ", " + leanStr(c.CA) + "⟩"
}

func c16LObj(o c16EObj) string {
	hs := make([]string, len(o.Hooks))
	for i, h := range o.Hooks {
		hs[i] = fmt.Sprintf("⟨%s, %s, %d⟩", leanStr(h.Name), c16LCC(h.CC), h.Rest)
	}
	conv := "none"
	if o.Conv != nil {
		w := "none"
		if o.Conv.Webhook != nil {
			cc := "none"
			if o.Conv.Webhook.CC != nil {
				cc = "(some " + c16LCC(*o.Conv.Webhook.CC) + ")"
			}
			w = "(some ⟨" + cc + ", " + leanStrList(o.Conv.Webhook.RV) + "⟩)"
		}
		conv = "(some ⟨" + leanStr(o.Conv.Strategy) + ", " + w + "⟩)"
	}
	return fmt.Sprintf("⟨%s, %s, %s, [%s], %s, %d⟩", leanStr(o.Kind), leanStr(o.Name), c16LLabels(o.Labels), strings.Join(hs, ", "), conv, o.Rest)
}

const c16EnrichGenTypes = `/-- mirror of the model's structures (Model/C16Enrich.lean), so that this file needs no import -/
structure C16Svc where
  name : String
  ns : String
  path : Option String
  port : Option Nat
structure C16CC where
  url : Option String
  service : Option C16Svc
  caBundle : String
structure C16Hook where
  name : String
  cc : C16CC
  rest : Nat
structure C16WebhookConv where
  cc : Option C16CC
  reviewVersions : List String
structure C16Conv where
  strategy : String
  webhook : Option C16WebhookConv
structure C16PObj where
  kind : String
  name : String
  labels : Option (List (String × String))
  hooks : List C16Hook
  conv : Option C16Conv
  rest : Nat
/-- one run of the real code: namespace, certificate handed to enrichControlledResource, whether
the parent controls, the parent's package label, owner references (kind, name) and
spec.commonLabels, the package object, and the object after addLabels (+ enrichControlledResource
when controlling); none = enrichControlledResource returned an error -/
structure C16EnrichRow where
  ns : String
  cert : String
  control : Bool
  label : String
  owners : List (String × String)
  common : Option (List (String × String))
  obj : C16PObj
  out : Option C16PObj

`

func c16EnrichTableObjs() []c16EObj {
	svcPath := c16ECC{Svc: &c16ESvc{Name: "webhook-service", NS: "system", Path: c16EStr("/validate")}}
	svcPort := c16ECC{Svc: &c16ESvc{Name: "old", NS: "default", Port: c16EInt(443)}, CA: "OLD"}
	url := c16ECC{URL: c16EStr("https://example.org/hook")}
	empty := c16ECC{}
	return []c16EObj{
		{Kind: "VWC", Name: "validating-webhook-configuration", Hooks: []c16EHook{}, Rest: 1},
		{Kind: "VWC", Name: "validating-webhook-configuration", Labels: [][2]string{{"a", "1"}, {"b", "2"}}, Hooks: []c16EHook{{Name: "h0", CC: svcPath, Rest: 5}, {Name: "h1", CC: svcPort, Rest: 6}}, Rest: 2},
		{Kind: "VWC", Name: "v", Labels: [][2]string{}, Hooks: []c16EHook{{Name: "h0", CC: url, Rest: 7}, {Name: "h1", CC: empty, Rest: 8}}, Rest: 3},
		{Kind: "MWC", Name: "mutating-webhook-configuration", Hooks: []c16EHook{{Name: "m0", CC: svcPath, Rest: 9}}, Rest: 4},
		{Kind: "MWC", Name: "m", Labels: [][2]string{{"c", "9"}}, Hooks: []c16EHook{{Name: "m0", CC: empty, Rest: 1}, {Name: "m1", CC: svcPort, Rest: 2}, {Name: "m2", CC: url, Rest: 3}}, Rest: 5},
		{Kind: "CRD", Name: "things.example.org", Hooks: []c16EHook{}, Rest: 1},
		{Kind: "CRD", Name: "things.example.org", Labels: [][2]string{{"a", "1"}}, Hooks: []c16EHook{}, Conv: &c16EConv{Strategy: "None"}, Rest: 2},
		{Kind: "CRD", Name: "things.example.org", Hooks: []c16EHook{}, Conv: &c16EConv{Strategy: "None", Webhook: &c16EWebhookConv{CC: &svcPort, RV: []string{"v1"}}}, Rest: 3},
		{Kind: "CRD", Name: "things.example.org", Hooks: []c16EHook{}, Conv: &c16EConv{Strategy: "Webhook"}, Rest: 4},
		{Kind: "CRD", Name: "things.example.org", Hooks: []c16EHook{}, Conv: &c16EConv{Strategy: "Webhook", Webhook: &c16EWebhookConv{RV: []string{"v1", "v1beta1"}}}, Rest: 5},
		{Kind: "CRD", Name: "things.example.org", Hooks: []c16EHook{}, Conv: &c16EConv{Strategy: "Webhook", Webhook: &c16EWebhookConv{CC: &empty, RV: []string{"v1"}}}, Rest: 6},
		{Kind: "CRD", Name: "things.example.org", Labels: [][2]string{{"b", "0"}}, Hooks: []c16EHook{}, Conv: &c16EConv{Strategy: "Webhook", Webhook: &c16EWebhookConv{CC: &svcPath, RV: []string{"v1"}}}, Rest: 7},
		{Kind: "CRD", Name: "things.example.org", Hooks: []c16EHook{}, Conv: &c16EConv{Strategy: "Webhook", Webhook: &c16EWebhookConv{CC: &url, RV: []string{}}}, Rest: 8},
		{Kind: "Other", Name: "comp", Labels: [][2]string{{"a", "1"}}, Hooks: []c16EHook{}, Rest: 9},
	}
}

func init() {
	RegisterDump("C16Enrich", func() string {
		var sb strings.Builder
		sb.WriteString(c16EnrichGenTypes)
		fmt.Fprintf(&sb, "/-- `servicePort` (internal/controller/pkg/revision/runtime.go) -/\ndef c16ServicePort : Nat := %d\n", revision.VerifC16ServicePort)
		fmt.Fprintf(&sb, "/-- `extv1.WebhookConverter` -/\ndef c16WebhookStrategy : String := %s\n", leanStr(string(extv1.WebhookConverter)))
		fmt.Fprintf(&sb, "/-- `v1.LabelParentPackage` -/\ndef c16LabelParentPackage : String := %s\n\n", leanStr(pkgv1.LabelParentPackage))
		parents := []c16EParent{
			{Label: "prov", Owners: []c16EOwner{{Kind: "Provider", Name: "prov"}}, Common: [][2]string{{"a", "2"}, {"c", "3"}}},
			{Label: "prov", Owners: []c16EOwner{{Kind: "Lock", Name: "provx"}, {Kind: "Function", Name: "prov"}, {Kind: "Provider", Name: "prov"}}},
			{Label: "prov", Owners: []c16EOwner{{Kind: "Provider", Name: "pro"}}, Common: [][2]string{}},
			{Label: "", Owners: []c16EOwner{}, Common: [][2]string{{"b", "1"}}},
		}
		type mode struct {
			cert    string
			control bool
		}
		modes := []mode{{"CERT", true}, {"", true}, {"CERT", false}}
		sb.WriteString("/-- rows obtained by calling APIEstablisher.addLabels and (when controlling) APIEstablisher.enrichControlledResource of the current tree -/\ndef c16EnrichTable : List C16EnrichRow := [\n")
		first := true
		for _, o := range c16EnrichTableObjs() {
			for pi, p := range parents {
				for _, m := range modes {
					if pi >= 2 && !m.control {
						continue
					}
					est := revision.NewAPIEstablisher(nil, "xp-system", 1)
					p2 := p
					p2.TLS = "present"
					parent := c16EParentObj(p2)
					obj := c16EBuild(o)
					out := "none"
					var err error
					if p := Guard(func() {
						err = est.VerifC16AddLabels([]runtime.Object{obj}, parent)
						if err == nil && m.control {
							err = est.VerifC16Enrich(obj, []byte(m.cert), parent)
						}
					}); p != "" {
						out = "(some ⟨\"PANIC\", \"\", none, [], none, 0⟩)" // never equal to the model
					} else if err == nil {
						out = "(some " + c16LObj(*c16EObserve(obj)) + ")"
					}
					if !first {
						sb.WriteString(",\n")
					}
					first = false
					os := make([]string, len(p.Owners))
					for i, w := range p.Owners {
						os[i] = "(" + leanStr(w.Kind) + ", " + leanStr(w.Name) + ")"
					}
					fmt.Fprintf(&sb, "  ⟨\"xp-system\", %s, %v, %s, [%s], %s, %s, %s⟩", leanStr(m.cert), m.control, leanStr(p.Label), strings.Join(os, ", "), c16LLabels(p.Common), c16LObj(o), out)
				}
			}
		}
		sb.WriteString("]\n\n")
		sb.WriteString(c16OwnerTables())
		return sb.String()
	})
}

// c16OwnerTables: the owner references APIEstablisher.create puts on a new object and the object
// APIEstablisher.update submits (which of current / desired, with which owner references and
// whether it carries current's resourceVersion), obtained by calling the two functions of the
// current tree over a recording client, for 3 parents x control x every list of at most two owner
// references over {the package, the revision itself, a stranger} x controller in {nil,false,true}.
func c16OwnerTables() string {
	var sb strings.Builder
	parents := []c16Parent{
		{UID: 7, Label: "p", Owners: []c16PRef{{Name: "p", UID: 1, Ctrl: "true", Block: "true"}}},
		{UID: 7, Label: "p", Owners: []c16PRef{}},
		{UID: 7, Label: "p", Owners: []c16PRef{{Name: "pq", UID: 2, Ctrl: "true", Block: "nil"}, {Name: "p", UID: 1, Ctrl: "nil", Block: "nil"}, {Name: "p", UID: 3, Ctrl: "true", Block: "true"}}},
	}
	sb.WriteString("/-- the parents of the owner tables: (label, owner references of the revision as (name, reference)); the revision's uid is 7 -/\ndef c16OwnerParents : List (String × List (String × (Nat × Option Bool × Option Bool))) := [\n")
	for i, p := range parents {
		os := make([]string, len(p.Owners))
		for j, o := range p.Owners {
			os[j] = fmt.Sprintf("(%s, (%d, %s, %s))", leanStr(o.Name), o.UID, c16LeanTri(c16Tri(o.Ctrl)), c16LeanTri(c16Tri(o.Block)))
		}
		if i > 0 {
			sb.WriteString(",\n")
		}
		sb.WriteString("  (" + leanStr(p.Label) + ", [" + strings.Join(os, ", ") + "])")
	}
	sb.WriteString("]\n\n")
	sb.WriteString("/-- (parent index, owner references `create` put on the object it submitted) -/\ndef c16CreateTable : List (Nat × List (Nat × Option Bool × Option Bool)) := [\n")
	for i, p := range parents {
		cl := &c16CapClient{}
		est := revision.NewAPIEstablisher(cl, "xp-system", 1)
		obj := c16Build("Composition/a", 2)
		// whatever the package put there is overwritten
		obj.SetOwnerReferences(c16MkRefs([]c16Ref{{UID: 9, Ctrl: "true", Block: "nil"}}))
		res := "[(0, none, none)]"
		if err := est.VerifC16Create(context.Background(), obj.(revisionObject), c16ParentObj(p)); err == nil && len(cl.created) == 1 {
			res = c16LeanRefs(cl.created[0].GetOwnerReferences())
		}
		if i > 0 {
			sb.WriteString(",\n")
		}
		fmt.Fprintf(&sb, "  (%d, %s)", i, res)
	}
	sb.WriteString("]\n\n")
	var univ []c16Ref
	for _, u := range []int{1, 7, 9} {
		for _, c := range []string{"nil", "false", "true"} {
			univ = append(univ, c16Ref{UID: u, Ctrl: c, Block: "nil"})
		}
	}
	lists := [][]c16Ref{{}}
	for _, a := range univ {
		lists = append(lists, []c16Ref{a})
		for _, b := range univ {
			lists = append(lists, []c16Ref{a, b})
		}
	}
	sb.WriteString("/-- (parent index, control, owner references of the current object, what `update` submitted: none = it returned an error\nwithout a call; some (desired?, carries current's resourceVersion?, owner references)) -/\ndef c16UpdateTable : List (Nat × Bool × List (Nat × Option Bool × Option Bool) × Option (Bool × Bool × List (Nat × Option Bool × Option Bool))) := [\n")
	first := true
	for i, p := range parents {
		for _, control := range []bool{false, true} {
			for _, l := range lists {
				cl := &c16CapClient{}
				est := revision.NewAPIEstablisher(cl, "xp-system", 1)
				cur := c16Build("Composition/a", 1)
				cur.SetOwnerReferences(c16MkRefs(l))
				cur.SetResourceVersion("5")
				des := c16Build("Composition/a", 2)
				res := "none"
				err := est.VerifC16Update(context.Background(), cur.(revisionObject), des.(revisionObject), c16ParentObj(p), control)
				if err == nil && len(cl.updated) == 1 {
					u := cl.updated[0]
					res = fmt.Sprintf("(some (%v, %v, %s))", c16BodyOf(u) == 2, u.GetResourceVersion() == "5", c16LeanRefs(u.GetOwnerReferences()))
				} else if err == nil || len(cl.updated) != 0 {
					res = "(some (false, false, [(0, none, none)]))" // never equal to the model
				}
				if !first {
					sb.WriteString(",\n")
				}
				first = false
				fmt.Fprintf(&sb, "  (%d, %v, %s, %s)", i, control, c16LeanRefs(c16MkRefs(l)), res)
			}
		}
	}
	sb.WriteString("]\n")
	return sb.String()
}

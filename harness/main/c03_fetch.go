//go:build verif

package main

// C03, third scenario family: the REAL FetchingFunctionRunner with the REAL
// ExistingExtraResourcesFetcher over simstore, one RunFunction call per scenario, under a fault
// plan on the Get / List calls. The function is scripted by call index (it finds its index in
// the context it is handed back, so it is a deterministic function of its request): errors,
// fatal results, nil / present-but-empty / changing / repeating requirements, selectors by name,
// by labels, without a match, and nil selectors. Compared call by call with
// Xp.C03.runFunctionP (lean/Xp/Model/C03.lean) through Xp.C03.fetchHandler (lean/Xp/Drv/C03.lean);
// the clauses "accepted only when the requirements stabilised", "a failed read is never
// swallowed" and "bounded" are monitored on the real run.

import (
	"context"
	"errors"
	"fmt"
	"sort"
	"strconv"
	"strings"

	"google.golang.org/protobuf/types/known/structpb"
	"k8s.io/apimachinery/pkg/apis/meta/v1/unstructured"
	"k8s.io/apimachinery/pkg/runtime"

	fnv1 "github.com/crossplane/crossplane/apis/apiextensions/fn/proto/v1"
	"github.com/crossplane/crossplane/internal/controller/apiextensions/composite"
)

type c03Sel struct {
	Kind   string            `json:"kind"`
	Match  string            `json:"match"` // name | labels | unset
	Name   string            `json:"name"`
	Labels map[string]string `json:"labels"`
}

type c03Req struct {
	Key string  `json:"key"`
	Sel *c03Sel `json:"sel"` // null = nil *ResourceSelector
}

type c03Answer struct {
	Err   bool `json:"err"`
	Fatal bool `json:"fatal"`
	// HasReqs=false: GetRequirements() is nil; true with Reqs empty: a present-but-empty message
	HasReqs bool     `json:"hasReqs"`
	Reqs    []c03Req `json:"reqs"`
}

type c03FetchScn struct {
	Fetch   bool        `json:"fetch"`
	Cluster []c04Extra  `json:"cluster"`
	Answers []c03Answer `json:"answers"` // answer of call i = Answers[min(i, len-1)]
	Fault   *xwFault    `json:"fault"`
	// Orders (hint, filled from the real run): for each round (= call index) that fetched, the
	// requirement keys in the order Go's map iteration visited them
	Orders []c03Order `json:"orders"`
}

type c03Order struct {
	Round int      `json:"round"`
	Keys  []string `json:"keys"`
}

type c03FetchCall struct {
	N     string         `json:"n"` // the call index the function found in its context ("" on the first call)
	Extra []c04ExtraSeen `json:"extra"`
}

type c03FetchObs struct {
	Calls  []string       `json:"calls"` // "get EX/x1 ok>", "list EX fail>other"
	Reqs   []c03FetchCall `json:"reqs"`
	Result string         `json:"result"` // ok:<n> | err | crashed
}

func c03SelCanon(s *c03Sel) string {
	if s == nil {
		return "nil"
	}
	switch s.Match {
	case "name":
		return s.Kind + "/name=" + s.Name
	case "labels":
		ks := []string{}
		for k, v := range s.Labels {
			ks = append(ks, k+"="+v)
		}
		sort.Strings(ks)
		return s.Kind + "/labels=" + strings.Join(ks, ",")
	}
	return s.Kind + "/unset"
}

// c03ReqsCanon renders requirements the way reflect.DeepEqual tells them apart.
func c03ReqsCanon(a c03Answer) string {
	if !a.HasReqs {
		return "<nil>"
	}
	es := []string{}
	for _, r := range a.Reqs {
		es = append(es, r.Key+":"+c03SelCanon(r.Sel))
	}
	sort.Strings(es)
	return "{" + strings.Join(es, ";") + "}"
}

func c03ProtoSel(s *c03Sel) *fnv1.ResourceSelector {
	if s == nil {
		return nil
	}
	out := &fnv1.ResourceSelector{ApiVersion: xwAPIVersion(s.Kind, "v1"), Kind: xwKindGVK(s.Kind).Kind}
	switch s.Match {
	case "name":
		out.Match = &fnv1.ResourceSelector_MatchName{MatchName: s.Name}
	case "labels":
		out.Match = &fnv1.ResourceSelector_MatchLabels{MatchLabels: &fnv1.MatchLabels{Labels: s.Labels}}
	}
	return out
}

func c03FetchRun(s *c03FetchScn) (c03FetchObs, []Mon) {
	st := NewStore(runtime.NewScheme())
	for _, e := range s.Cluster {
		u := &unstructured.Unstructured{}
		u.SetGroupVersionKind(xwKindGVK(e.Kind))
		u.SetName(e.Name)
		u.SetLabels(e.Labels)
		st.Seed(u)
	}
	obs := c03FetchObs{Calls: []string{}, Reqs: []c03FetchCall{}}
	var mons []Mon
	answered := []int{} // index of the answer given at each call (-1 = error)
	ownSeen := false
	inner := composite.FunctionRunnerFn(func(_ context.Context, _ string, req *fnv1.RunFunctionRequest) (*fnv1.RunFunctionResponse, error) {
		n := ""
		if v, ok := req.GetContext().GetFields()["n"]; ok {
			n = v.GetStringValue()
		}
		i, _ := strconv.Atoi(n)
		// direct monitor: every round of one RunFunction carries the desired state the FIRST round
		// was sent (the previous step's output, here: none) — never the step's own earlier answer
		if len(req.GetDesired().GetResources()) != 0 && !ownSeen {
			ownSeen = true
			mons = append(mons, Mon{Sig: "C03:round-sent-step-own-output", Why: fmt.Sprintf("call %s of the step was sent a desired state with %d resources; the step was started with none (its own previous answer carries one)", n, len(req.GetDesired().GetResources()))})
		}
		call := c03FetchCall{N: n, Extra: []c04ExtraSeen{}}
		for k, v := range req.GetExtraResources() {
			e := c04ExtraSeen{Key: k, Nil: v == nil, Names: []string{}}
			for _, it := range v.GetItems() {
				u := unstructured.Unstructured{Object: it.GetResource().AsMap()}
				e.Names = append(e.Names, u.GetName())
			}
			sort.Strings(e.Names)
			call.Extra = append(call.Extra, e)
		}
		sort.Slice(call.Extra, func(a, b int) bool { return call.Extra[a].Key < call.Extra[b].Key })
		obs.Reqs = append(obs.Reqs, call)
		ai := i
		if ai >= len(s.Answers) {
			ai = len(s.Answers) - 1
		}
		a := s.Answers[ai]
		if a.Err {
			answered = append(answered, -1)
			return nil, errors.New("function failed")
		}
		answered = append(answered, ai)
		cs, _ := structpb.NewStruct(map[string]any{"n": strconv.Itoa(i + 1)})
		rsp := &fnv1.RunFunctionResponse{Context: cs, Desired: &fnv1.State{Resources: map[string]*fnv1.Resource{"own": {Ready: fnv1.Ready_READY_TRUE}}}}
		if a.Fatal {
			rsp.Results = []*fnv1.Result{{Severity: fnv1.Severity_SEVERITY_NORMAL, Message: "fine"}, {Severity: fnv1.Severity_SEVERITY_FATAL, Message: "fatal"}}
		}
		if a.HasReqs {
			rsp.Requirements = &fnv1.Requirements{}
			if len(a.Reqs) > 0 {
				rsp.Requirements.ExtraResources = map[string]*fnv1.ResourceSelector{}
				for _, r := range a.Reqs {
					rsp.Requirements.ExtraResources[r.Key] = c03ProtoSel(r.Sel)
				}
			}
		}
		return rsp, nil
	})
	real := composite.NewExistingExtraResourcesFetcher(st)
	// records which selector each Fetch was called with (Go's map order is a hint for the model)
	fetched := [][]string{}
	fetcher := composite.ExtraResourcesFetcherFn(func(ctx context.Context, rs *fnv1.ResourceSelector) (*fnv1.Resources, error) {
		round := len(obs.Reqs) - 1
		for len(fetched) <= round {
			fetched = append(fetched, nil)
		}
		c := "nil"
		if rs != nil {
			x := &c03Sel{Kind: xwModelKind(strings.SplitN(rs.GetApiVersion(), "/", 2)[0], rs.GetKind()), Match: "unset"}
			switch m := rs.GetMatch().(type) {
			case *fnv1.ResourceSelector_MatchName:
				x.Match, x.Name = "name", m.MatchName
			case *fnv1.ResourceSelector_MatchLabels:
				x.Match, x.Labels = "labels", m.MatchLabels.GetLabels()
			}
			c = c03SelCanon(x)
		}
		fetched[round] = append(fetched[round], c)
		return real.Fetch(ctx, rs)
	})
	runner := composite.NewFetchingFunctionRunner(inner, fetcher)
	if s.Fault != nil {
		f := *s.Fault
		st.Plan = func(c CallInfo) Outcome {
			if c.Index == f.K {
				return xwOutcome(f.O)
			}
			return OK
		}
	}
	var rsp *fnv1.RunFunctionResponse
	var err error
	if p := Guard(func() {
		rsp, err = runner.RunFunction(context.Background(), "fn", &fnv1.RunFunctionRequest{})
	}); p != "" {
		mons = append(mons, Mon{Sig: "C03:panic", Why: p})
	}
	readFailed := false
	for _, c := range st.Log {
		gk := strings.SplitN(c.GK, ".", 2)[0]
		e := c.Verb + " " + gk
		if c.Verb == "get" {
			e += "/" + c.Name
		}
		cls := c.Err
		if cls != "" && cls != "notFound" && cls != "crashed" {
			cls = "other"
		}
		obs.Calls = append(obs.Calls, e+" "+c.Outcome+">"+cls)
		if c.Outcome == "fail" || c.Outcome == "conflict" || cls == "other" {
			readFailed = true
		}
	}
	// hints: key order of every round that fetched
	s.Orders = []c03Order{}
	for round, sels := range fetched {
		if len(sels) == 0 || round >= len(answered) || answered[round] < 0 {
			continue
		}
		a := s.Answers[answered[round]]
		used := map[string]bool{}
		keys := []string{}
		for _, c := range sels {
			rs := append([]c03Req{}, a.Reqs...)
			sort.Slice(rs, func(i, j int) bool { return rs[i].Key < rs[j].Key })
			for _, r := range rs {
				if !used[r.Key] && c03SelCanon(r.Sel) == c {
					used[r.Key] = true
					keys = append(keys, r.Key)
					break
				}
			}
		}
		s.Orders = append(s.Orders, c03Order{Round: round, Keys: keys})
	}
	switch {
	case st.Crashed():
		obs.Result = "crashed"
		obs.Reqs = []c03FetchCall{}
	case err != nil:
		obs.Result = "err"
	default:
		obs.Result = "ok:" + rsp.GetContext().GetFields()["n"].GetStringValue()
	}
	// ---- direct monitors on the real run ----
	if n := len(answered); err == nil && !st.Crashed() && n > 0 && answered[n-1] >= 0 {
		last := s.Answers[answered[n-1]]
		prev := "<nil>"
		if n >= 2 && answered[n-2] >= 0 {
			prev = c03ReqsCanon(s.Answers[answered[n-2]])
		}
		if !last.Fatal && c03ReqsCanon(last) != prev {
			mons = append(mons, Mon{Sig: "C03:unstable-requirements-accepted", Why: fmt.Sprintf("RunFunction returned the answer of call %d although its requirements %s differ from the previous round's %s", n-1, c03ReqsCanon(last), prev)})
		}
	}
	if err == nil && !st.Crashed() && readFailed {
		mons = append(mons, Mon{Sig: "C03:extra-resource-read-error-swallowed", Why: fmt.Sprintf("a Get/List of an extra resource failed (%v) and RunFunction still returned an answer", obs.Calls)})
	}
	if len(answered) > composite.MaxRequirementsIterations+1 {
		mons = append(mons, Mon{Sig: "C03:function-called-beyond-bound", Why: fmt.Sprintf("%d calls, bound %d", len(answered), composite.MaxRequirementsIterations+1)})
	}
	return obs, mons
}

func c03GenSel(r *Rng) *c03Sel {
	switch r.Intn(14) {
	case 0:
		return nil
	case 1:
		return &c03Sel{Kind: Pick(r, []string{"EX", "EY"}), Match: "unset"}
	case 2, 3, 4, 5, 6:
		return &c03Sel{Kind: Pick(r, []string{"EX", "EY"}), Match: "name", Name: Pick(r, []string{"x1", "x2", "nope"})}
	}
	ls := map[string]string{}
	switch r.Intn(4) {
	case 0:
		ls["tier"] = "gold"
	case 1:
		ls["tier"] = "none"
	case 2:
		ls["tier"], ls["zone"] = "gold", "a"
	}
	return &c03Sel{Kind: Pick(r, []string{"EX", "EY"}), Match: "labels", Labels: ls}
}

func c03FetchGen(r *Rng) c03FetchScn {
	s := c03FetchScn{Fetch: true, Cluster: []c04Extra{}, Answers: []c03Answer{}, Orders: []c03Order{}}
	for _, e := range []c04Extra{{Kind: "EX", Name: "x1", Labels: map[string]string{"tier": "gold", "zone": "a"}}, {Kind: "EX", Name: "x2", Labels: map[string]string{"tier": "gold"}}, {Kind: "EY", Name: "x1", Labels: map[string]string{"tier": "silver"}}} {
		if r.Chance(2, 3) {
			s.Cluster = append(s.Cluster, e)
		}
	}
	n := r.Range(1, 8)
	for i := 0; i < n; i++ {
		a := c03Answer{Reqs: []c03Req{}}
		switch {
		case r.Chance(1, 20):
			a.Err = true
		case r.Chance(1, 16):
			a.Fatal = true
		}
		switch {
		case i > 0 && r.Chance(1, 4):
			// repeat the previous round's requirements (stabilises here unless this is an error)
			p := s.Answers[i-1]
			a.HasReqs, a.Reqs = p.HasReqs, append([]c03Req{}, p.Reqs...)
		case r.Chance(1, 8):
			// nil requirements
		case r.Chance(1, 10):
			a.HasReqs = true // present but empty
		default:
			a.HasReqs = true
			for _, k := range []string{"e1", "e2", "e3"} {
				if r.Chance(1, 2) {
					a.Reqs = append(a.Reqs, c03Req{Key: k, Sel: c03GenSel(r)})
				}
			}
			if i > 0 && r.Chance(1, 4) && len(s.Answers[i-1].Reqs) > 0 {
				// the previous requirements with ONE entry dropped, or one label value changed
				p := s.Answers[i-1]
				a.Reqs = append([]c03Req{}, p.Reqs...)
				if r.Bool() || len(a.Reqs) == 0 {
					a.Reqs = a.Reqs[:len(a.Reqs)-1]
				} else if x := a.Reqs[0].Sel; x != nil && x.Match == "labels" {
					ls := map[string]string{"tier": "silver"}
					a.Reqs[0] = c03Req{Key: a.Reqs[0].Key, Sel: &c03Sel{Kind: x.Kind, Match: "labels", Labels: ls}}
				}
			}
		}
		s.Answers = append(s.Answers, a)
	}
	if r.Chance(2, 5) {
		s.Fault = &xwFault{K: r.Intn(4), O: Pick(r, []string{"fail", "fail", "conflict", "crashBefore", "crashAfter"})}
	}
	return s
}

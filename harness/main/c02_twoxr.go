//go:build verif

package main

// C02, site "two": TWO composite resources in one world, both reconciled by the REAL
// composite.Reconciler with the REAL FunctionComposer, whose pipelines ask for a composed
// resource with an EXPLICIT metadata.name — the same name for both XRs in the colliding
// scenarios. The XRs' names share a common prefix of 1..230 characters (the function
// composer's server-side-apply field manager is derived from the XR's name and GroupKind and a
// field-manager name is limited to 128 characters), the second XR is of the same kind or of
// another kind with possibly the very same name.
//
// The mechanism under test (properties.jsonl, C02 mechanism 3): the server-side apply of the
// second XR carries its own controller reference; because the two XRs apply with DIFFERENT
// field managers the API server merges ownerReferences by uid, finds two controllers and
// rejects the apply (Invalid): the first XR's object is left exactly as it was and the second
// XR reports the resource unsynced. Were the managers the same, the apply would REPLACE the
// first XR's controller reference (fields a manager no longer applies are removed): take-over.
//
// Observation (compared with the Lean model Xp.C02Two): per reconcile the calls addressed to
// composed resources with their outcome, whether the XR ended Synced, the composed objects
// (name, controlling XR, content); plus whether the two XRs' field managers coincide.
// Direct monitors: C02:composer-took-over-other-xr-resource (an object controlled by one XR
// is modified by a reconcile of the other), C02:composer-field-manager-shared.

import (
	"context"
	"fmt"
	"sort"
	"strings"

	corev1 "k8s.io/api/core/v1"
	metav1 "k8s.io/apimachinery/pkg/apis/meta/v1"
	"k8s.io/apimachinery/pkg/apis/meta/v1/unstructured"
	"k8s.io/apimachinery/pkg/runtime"
	"k8s.io/apimachinery/pkg/runtime/schema"
	"k8s.io/apimachinery/pkg/types"
	"sigs.k8s.io/controller-runtime/pkg/reconcile"

	"google.golang.org/protobuf/types/known/structpb"

	"github.com/crossplane/crossplane-runtime/pkg/resource"
	ucomposite "github.com/crossplane/crossplane-runtime/pkg/resource/unstructured/composite"

	fnv1 "github.com/crossplane/crossplane/apis/apiextensions/fn/proto/v1"
	v1 "github.com/crossplane/crossplane/apis/apiextensions/v1"
	"github.com/crossplane/crossplane/internal/controller/apiextensions/composite"
)

type c02TwoXR struct {
	Name string `json:"name"`
	Kind string `json:"kind"` // XThing | XOther
	// the composed resource its pipeline asks for
	Res string `json:"res"` // explicit metadata.name
}

type c02TwoStep struct {
	XR      int `json:"xr"` // 0 | 1
	Content int `json:"content"`
}

type c02TwoScn struct {
	XRs   []c02TwoXR   `json:"xrs"`
	Steps []c02TwoStep `json:"steps"`
}

type c02TwoObj struct {
	Name    string `json:"name"`
	Ctrl    int    `json:"ctrl"` // index of the controlling XR, -1 = nobody / somebody else
	Content int    `json:"content"`
}

type c02TwoStepObs struct {
	Calls  []string    `json:"calls"`
	Synced bool        `json:"synced"`
	Objs   []c02TwoObj `json:"objs"`
}

type c02TwoObs struct {
	MgrSame bool            `json:"mgrSame"`
	Steps   []c02TwoStepObs `json:"steps"`
}

func c02TwoGVK(kind string) schema.GroupVersionKind {
	return schema.GroupVersionKind{Group: xwGroup, Version: "v1", Kind: kind}
}

func c02TwoRun(s c02TwoScn) (c02TwoObs, []Mon) {
	st := NewStore(runtime.NewScheme())
	var mons []Mon
	seen := map[string]bool{}
	mon := func(sig, why string) {
		if !seen[sig] {
			seen[sig] = true
			mons = append(mons, Mon{Sig: sig, Why: why})
		}
	}
	uids := make([]string, len(s.XRs))
	mgrs := make([]string, len(s.XRs))
	cur := make([]*c02TwoStep, len(s.XRs))
	recs := make([]*composite.Reconciler, len(s.XRs))
	for i, x := range s.XRs {
		xr := ucomposite.New(ucomposite.WithGroupVersionKind(c02TwoGVK(x.Kind)))
		xr.SetName(x.Name)
		xr.SetLabels(map[string]string{"crossplane.io/composite": x.Name})
		xr.SetCompositionReference(&corev1.ObjectReference{Name: "comp"})
		xr.SetFinalizers([]string{"composite.apiextensions.crossplane.io"})
		st.Seed(xr)
		uids[i] = string(st.Peek(c02TwoGVK(x.Kind).GroupKind(), "", x.Name).GetUID())
		mgrs[i] = composite.ComposedFieldOwnerName(xr)
		i, x := i, x
		runner := composite.FunctionRunnerFn(func(_ context.Context, _ string, _ *fnv1.RunFunctionRequest) (*fnv1.RunFunctionResponse, error) {
			rsp := &fnv1.RunFunctionResponse{Desired: &fnv1.State{Resources: map[string]*fnv1.Resource{}}}
			o, _ := structpb.NewStruct(map[string]any{"apiVersion": xwGroup + "/v1", "kind": "KA",
				"metadata": map[string]any{"name": x.Res}, "spec": map[string]any{"content": cur[i].Content}})
			rsp.Desired.Resources["r"] = &fnv1.Resource{Resource: o, Ready: fnv1.Ready_READY_TRUE}
			return rsp, nil
		})
		rev := &v1.CompositionRevision{}
		m := v1.CompositionModePipeline
		rev.Spec.Mode = &m
		rev.Spec.Pipeline = []v1.PipelineStep{{Step: "s0", FunctionRef: v1.FunctionReference{Name: "fn0"}}}
		recs[i] = composite.NewReconciler(st, st, resource.CompositeKind(c02TwoGVK(x.Kind)),
			composite.WithComposer(composite.NewFunctionComposer(st, st, runner)),
			composite.WithCompositionSelector(composite.CompositionSelectorFn(func(context.Context, resource.Composite) error { return nil })),
			composite.WithCompositionRevisionFetcher(composite.CompositionRevisionFetcherFn(func(context.Context, resource.Composite) (*v1.CompositionRevision, error) { return rev, nil })),
			composite.WithCompositionRevisionValidator(composite.CompositionRevisionValidatorFn(func(*v1.CompositionRevision) error { return nil })),
			composite.WithConfigurator(composite.ConfiguratorFn(func(context.Context, resource.Composite, *v1.CompositionRevision) error { return nil })),
		)
	}
	cut := func(m string) string {
		if len(m) > 128 {
			return m[:128]
		}
		return m
	}
	obs := c02TwoObs{Steps: []c02TwoStepObs{}}
	if len(s.XRs) == 2 {
		obs.MgrSame = cut(mgrs[0]) == cut(mgrs[1])
		if obs.MgrSame {
			mon("C02:composer-field-manager-shared", fmt.Sprintf("the composite resources %s/%s and %s/%s apply their composed resources with the same field manager %q", s.XRs[0].Kind, s.XRs[0].Name, s.XRs[1].Kind, s.XRs[1].Name, cut(mgrs[0])))
		}
	}
	kaGK := schema.GroupKind{Group: xwGroup, Kind: "KA"}
	ctrlOf := func(u *unstructured.Unstructured) int {
		if c := metav1.GetControllerOf(u); c != nil {
			for i, id := range uids {
				if string(c.UID) == id {
					return i
				}
			}
		}
		return -1
	}
	for si := range s.Steps {
		step := s.Steps[si]
		if step.XR < 0 || step.XR >= len(s.XRs) {
			continue
		}
		cur[step.XR] = &s.Steps[si]
		st.Revive()
		st.Log = nil
		// the composed objects controlled by the OTHER XR, byte for byte
		before := map[string]string{}
		for _, u := range st.OfKind(kaGK) {
			if c := ctrlOf(u); c >= 0 && c != step.XR {
				before[u.GetName()] = mustJSON(u.Object)
			}
		}
		x := s.XRs[step.XR]
		if p := Guard(func() {
			_, _ = recs[step.XR].Reconcile(context.Background(), reconcile.Request{NamespacedName: types.NamespacedName{Name: x.Name}})
		}); p != "" {
			mon("C02:panic", p)
		}
		o := c02TwoStepObs{Calls: []string{}, Objs: []c02TwoObj{}}
		for _, c := range st.Log {
			if schema.ParseGroupKind(c.GK).Kind != "KA" {
				continue
			}
			e := fmt.Sprintf("%s KA/%s", c.Verb, c.Name)
			if c.PatchType != "" {
				e += " " + c.PatchType
			}
			o.Calls = append(o.Calls, e+" "+c.Outcome+">"+c.Err)
		}
		xr := ucomposite.New()
		xr.SetUnstructuredContent(st.Peek(c02TwoGVK(x.Kind).GroupKind(), "", x.Name).Object)
		for _, c := range xr.GetConditions() {
			if c.Type == "Synced" && c.Status == corev1.ConditionTrue {
				o.Synced = true
			}
		}
		for _, u := range st.OfKind(kaGK) {
			c, _, _ := unstructured.NestedInt64(u.Object, "spec", "content")
			o.Objs = append(o.Objs, c02TwoObj{Name: u.GetName(), Ctrl: ctrlOf(u), Content: int(c)})
		}
		sort.Slice(o.Objs, func(i, j int) bool { return o.Objs[i].Name < o.Objs[j].Name })
		obs.Steps = append(obs.Steps, o)
		for n, b := range before {
			u := st.Peek(kaGK, "", n)
			if u == nil || mustJSON(u.Object) != b {
				what := "modified"
				if u == nil {
					what = "deleted"
				} else if ctrlOf(u) == step.XR {
					what = "taken over"
				}
				mon("C02:composer-took-over-other-xr-resource", fmt.Sprintf("the composed resource KA/%s controlled by %s/%s was %s by a reconcile of %s/%s (field managers %q / %q)",
					n, s.XRs[1-step.XR].Kind, strings.TrimSpace(c02Short(s.XRs[1-step.XR].Name)), what, x.Kind, c02Short(x.Name), c02Short(mgrs[1-step.XR]), c02Short(mgrs[step.XR])))
			}
		}
	}
	return obs, mons
}

func c02Short(s string) string {
	if len(s) > 40 {
		return s[:16] + "…" + s[len(s)-16:] + fmt.Sprintf("(%d)", len(s))
	}
	return s
}

func c02TwoGen(r *Rng) c02TwoScn {
	// names: a common prefix of L characters and distinct tails
	l := Pick(r, []int{1, 8, 40, 72, 100, 128, 180, 230})
	pre := strings.Repeat(Pick(r, []string{"x", "ab", "prod-"}), l)[:l]
	a := c02TwoXR{Name: pre + "-one", Kind: "XThing"}
	b := c02TwoXR{Name: pre + "-two", Kind: "XThing"}
	switch r.Intn(6) {
	case 0:
		b.Kind = "XOther" // another kind
	case 1:
		b.Kind, b.Name = "XOther", a.Name // another kind, the very same name
	case 2:
		b.Name = pre + "-on" // one is a prefix of the other's name
	}
	a.Res, b.Res = "shared", "shared"
	if r.Chance(1, 5) {
		a.Res, b.Res = "res-of-one", "res-of-two"
	}
	s := c02TwoScn{XRs: []c02TwoXR{a, b}}
	n := r.Range(2, 5)
	for i := 0; i < n; i++ {
		s.Steps = append(s.Steps, c02TwoStep{XR: r.Intn(2), Content: r.Intn(3)})
	}
	// make sure both reconcile at least once
	s.Steps[0].XR, s.Steps[1].XR = 0, 1
	if r.Bool() {
		s.Steps[0].XR, s.Steps[1].XR = 1, 0
	}
	return s
}

func c02TwoCls(s c02TwoScn, o c02TwoObs) string {
	rel := "samekind"
	if s.XRs[0].Kind != s.XRs[1].Kind {
		rel = "otherkind"
		if s.XRs[0].Name == s.XRs[1].Name {
			rel += "+samename"
		}
	}
	col := "distinct-res"
	if s.XRs[0].Res == s.XRs[1].Res {
		col = "same-res"
	}
	inv := "noreject"
	for _, st := range o.Steps {
		for _, c := range st.Calls {
			if strings.HasSuffix(c, ">invalid") {
				inv = "rejected"
			}
		}
	}
	return fmt.Sprintf("%s/len=%d/%s/%s", rel, len(s.XRs[0].Name), col, inv)
}

//go:build verif

package main

// C05: Ready/Synced never overstate; functions cannot forge them.
// Drives the real composite.Reconciler.Reconcile over simstore with a scripted
// Composer, and the real claim reconciler for the claim clause.

import (
	"context"
	"errors"
	"fmt"
	"sort"

	corev1 "k8s.io/api/core/v1"
	kerrors "k8s.io/apimachinery/pkg/api/errors"
	metav1 "k8s.io/apimachinery/pkg/apis/meta/v1"
	"k8s.io/apimachinery/pkg/runtime"
	"k8s.io/apimachinery/pkg/runtime/schema"
	"k8s.io/apimachinery/pkg/types"
	"sigs.k8s.io/controller-runtime/pkg/reconcile"

	xpv1 "github.com/crossplane/crossplane-runtime/apis/common/v1"
	"github.com/crossplane/crossplane-runtime/pkg/fieldpath"
	"github.com/crossplane/crossplane-runtime/pkg/resource"
	uclaim "github.com/crossplane/crossplane-runtime/pkg/resource/unstructured/claim"
	ucomposite "github.com/crossplane/crossplane-runtime/pkg/resource/unstructured/composite"
	"github.com/crossplane/crossplane-runtime/pkg/resource/unstructured/reference"

	v1 "github.com/crossplane/crossplane/apis/apiextensions/v1"
	"github.com/crossplane/crossplane/internal/controller/apiextensions/claim"
	"github.com/crossplane/crossplane/internal/controller/apiextensions/composite"
)

type c05Cond struct {
	Type   string `json:"type"`
	Status string `json:"status"`
	Reason string `json:"reason"`
	Claim  bool   `json:"claim"` // target CompositeAndClaim (function conditions only)
}

type c05Res struct {
	Name   string `json:"name"`
	Synced bool   `json:"synced"`
	Ready  bool   `json:"ready"`
}

type c05Scn struct {
	// kind "claim": one claim reconcile against a bound XR
	XRConds    []c05Cond `json:"xrConds"`
	ClaimTypes []string  `json:"claimTypes"`
	Kind       string    `json:"kind"` // "xr" | "claim"
	Old        []c05Cond `json:"old"`
	Composed   []c05Res  `json:"composed"`
	Explicit   string    `json:"explicit"` // "unset" "true" "false"
	FnConds    []c05Cond `json:"fnConds"`
	Err        string    `json:"err"` // "none" "generic" "invalid" "conflict"
}

type c05OCond struct {
	Type   string `json:"type"`
	Status string `json:"status"`
	Reason string `json:"reason"`
}

type c05Obs struct {
	Conds      []c05OCond `json:"conds"`
	ClaimTypes []string   `json:"claimTypes"`
	Wrote      bool       `json:"wrote"`
}

var c05XRGVK = schema.GroupVersionKind{Group: "example.org", Version: "v1", Kind: "XThing"}

func c05CondUniverse() []string {
	// system types, custom types, and custom types that differ from a system type only in case,
	// by a string prefix / suffix or a trailing separator
	return []string{"Ready", "Synced", "Healthy", "DatabaseReady", "NetworkOK", "ready", "Custom",
		"synced", "Read", "ReadyX", "Ready ", "Synced/", "Custom2"}
}

func c05Gen(r *Rng) c05Scn {
	statuses := []string{"True", "False", "Unknown"}
	types_ := c05CondUniverse()
	s := c05Scn{Kind: "xr"}
	seen := map[string]bool{}
	for i, n := 0, r.Intn(4); i < n; i++ {
		t := Pick(r, types_)
		if seen[t] {
			continue
		}
		seen[t] = true
		s.Old = append(s.Old, c05Cond{Type: t, Status: Pick(r, statuses), Reason: Pick(r, []string{"Old", "Available", "Creating", "ReconcileSuccess"})})
	}
	for i, n := 0, r.Intn(4); i < n; i++ {
		s.Composed = append(s.Composed, c05Res{Name: fmt.Sprintf("r%d", i), Synced: r.Chance(3, 4), Ready: r.Chance(2, 3)})
	}
	s.Explicit = Pick(r, []string{"unset", "unset", "true", "false"})
	for i, n := 0, r.Intn(4); i < n; i++ {
		s.FnConds = append(s.FnConds, c05Cond{Type: Pick(r, types_), Status: Pick(r, statuses), Reason: Pick(r, []string{"Fn", "Forged"}), Claim: r.Bool()})
	}
	s.Err = Pick(r, []string{"none", "none", "none", "generic", "invalid", "conflict"})
	return s
}

func c05Run(s c05Scn) (c05Obs, []Mon) {
	st := NewStore(runtime.NewScheme())
	xr := ucomposite.New(ucomposite.WithGroupVersionKind(c05XRGVK))
	xr.SetName("xr")
	xr.SetCompositionReference(&corev1.ObjectReference{Name: "comp"})
	for _, c := range s.Old {
		xr.SetConditions(xpv1.Condition{Type: xpv1.ConditionType(c.Type), Status: corev1.ConditionStatus(c.Status), Reason: xpv1.ConditionReason(c.Reason), LastTransitionTime: metav1.Unix(1, 0)})
	}
	st.Seed(xr)

	composer := composite.ComposerFn(func(_ context.Context, _ *ucomposite.Unstructured, _ composite.CompositionRequest) (composite.CompositionResult, error) {
		res := composite.CompositionResult{}
		for _, c := range s.Composed {
			res.Composed = append(res.Composed, composite.ComposedResource{ResourceName: composite.ResourceName(c.Name), Synced: c.Synced, Ready: c.Ready})
		}
		switch s.Explicit {
		case "true":
			t := true
			res.Composite.Ready = &t
		case "false":
			f := false
			res.Composite.Ready = &f
		}
		for _, c := range s.FnConds {
			tgt := composite.CompositionTargetComposite
			if c.Claim {
				tgt = composite.CompositionTargetCompositeAndClaim
			}
			res.Conditions = append(res.Conditions, composite.TargetedCondition{
				Condition: xpv1.Condition{Type: xpv1.ConditionType(c.Type), Status: corev1.ConditionStatus(c.Status), Reason: xpv1.ConditionReason(c.Reason), LastTransitionTime: metav1.Unix(2, 0)},
				Target:    tgt,
			})
		}
		switch s.Err {
		case "generic":
			return res, errors.New("boom")
		case "invalid":
			return res, kerrors.NewInvalid(schema.GroupKind{Group: "example.org", Kind: "Thing"}, "x", nil)
		case "conflict":
			return res, kerrors.NewConflict(schema.GroupResource{Resource: "things"}, "x", errors.New("conflict"))
		}
		return res, nil
	})

	r := composite.NewReconciler(st, st, resource.CompositeKind(c05XRGVK),
		composite.WithComposer(composer),
		composite.WithCompositionSelector(composite.CompositionSelectorFn(func(context.Context, resource.Composite) error { return nil })),
		composite.WithCompositionRevisionFetcher(composite.CompositionRevisionFetcherFn(func(context.Context, resource.Composite) (*v1.CompositionRevision, error) {
			return &v1.CompositionRevision{}, nil
		})),
		composite.WithCompositionRevisionValidator(composite.CompositionRevisionValidatorFn(func(*v1.CompositionRevision) error { return nil })),
		composite.WithConfigurator(composite.ConfiguratorFn(func(context.Context, resource.Composite, *v1.CompositionRevision) error { return nil })),
	)
	var mons []Mon
	if p := Guard(func() {
		_, _ = r.Reconcile(context.Background(), reconcile.Request{NamespacedName: types.NamespacedName{Name: "xr"}})
	}); p != "" {
		mons = append(mons, Mon{Sig: "C05:panic", Why: p})
	}
	obs := c05Obs{Conds: []c05OCond{}, ClaimTypes: []string{}}
	for _, w := range st.Log {
		if w.Verb == "update" && w.Sub == "status" && w.Applied {
			obs.Wrote = true
		}
	}
	got := ucomposite.New()
	got.SetUnstructuredContent(st.Peek(c05XRGVK.GroupKind(), "", "xr").Object)
	status := map[string]string{}
	for _, c := range got.GetConditions() {
		obs.Conds = append(obs.Conds, c05OCond{Type: string(c.Type), Status: string(c.Status), Reason: string(c.Reason)})
		status[string(c.Type)] = string(c.Status)
	}
	sort.Slice(obs.Conds, func(i, j int) bool { return obs.Conds[i].Type < obs.Conds[j].Type })
	for _, t := range got.GetClaimConditionTypes() {
		obs.ClaimTypes = append(obs.ClaimTypes, string(t))
	}
	sort.Strings(obs.ClaimTypes)

	// Direct monitor: the property itself, evaluated on the real run.
	allReady, allSynced := true, true
	for _, c := range s.Composed {
		allReady = allReady && c.Ready
		allSynced = allSynced && c.Synced
	}
	oldStatus := map[string]string{}
	for _, c := range s.Old {
		oldStatus[c.Type] = c.Status
	}
	if s.Err == "none" {
		mayReady := s.Explicit == "true" || (s.Explicit == "unset" && allReady)
		if status["Ready"] == "True" && !mayReady {
			mons = append(mons, Mon{Sig: "C05:ready-overstated", Why: "Ready=True although not explicitly ready and some resource unready"})
		}
		if status["Synced"] == "True" && !allSynced {
			mons = append(mons, Mon{Sig: "C05:synced-overstated", Why: "Synced=True although some resource unsynced"})
		}
	} else {
		if status["Ready"] == "True" && oldStatus["Ready"] != "True" {
			mons = append(mons, Mon{Sig: "C05:ready-set-on-error", Why: "a failing reconcile set Ready=True"})
		}
		if status["Synced"] == "True" && oldStatus["Synced"] != "True" {
			mons = append(mons, Mon{Sig: "C05:synced-set-on-error", Why: "a failing reconcile set Synced=True"})
		}
		if s.Err != "conflict" {
			fn := map[string]bool{}
			for _, c := range s.FnConds {
				fn[c.Type] = true
			}
			for _, c := range s.Old {
				if xpv1.IsSystemConditionType(xpv1.ConditionType(c.Type)) || fn[c.Type] {
					continue
				}
				if status[c.Type] != "Unknown" {
					mons = append(mons, Mon{Sig: "C05:custom-not-unknown-on-fatal", Why: "custom condition " + c.Type + " not re-asserted but not Unknown"})
				}
			}
		}
	}
	return obs, mons
}

var c05ClaimGVK = schema.GroupVersionKind{Group: "example.org", Version: "v1", Kind: "Thing"}

func c05GenClaim(r *Rng) c05Scn {
	statuses := []string{"True", "False", "Unknown"}
	s := c05Scn{Kind: "claim", Explicit: "unset", Err: "none"}
	seen := map[string]bool{}
	for i, n := 0, r.Intn(3); i < n; i++ {
		t := Pick(r, []string{"Ready", "Synced", "Custom", "DatabaseReady"})
		if seen[t] {
			continue
		}
		seen[t] = true
		s.Old = append(s.Old, c05Cond{Type: t, Status: Pick(r, statuses), Reason: Pick(r, []string{"Old", "Available", "Waiting"})})
	}
	seen = map[string]bool{}
	for i, n := 0, r.Intn(4); i < n; i++ {
		t := Pick(r, []string{"Ready", "Ready", "Synced", "Custom", "DatabaseReady"})
		if seen[t] {
			continue
		}
		seen[t] = true
		s.XRConds = append(s.XRConds, c05Cond{Type: t, Status: Pick(r, statuses), Reason: Pick(r, []string{"Available", "Creating", "Fn"})})
	}
	for _, t := range []string{"Custom", "DatabaseReady", "Ready", "Missing"} {
		if r.Chance(1, 3) {
			s.ClaimTypes = append(s.ClaimTypes, t)
		}
	}
	return s
}

// c05RunClaim runs the real claim reconciler once against a bound XR.
func c05RunClaim(s c05Scn) (c05Obs, []Mon) {
	st := NewStore(runtime.NewScheme())
	st.Namespaced[c05ClaimGVK.GroupKind()] = true
	xr := ucomposite.New(ucomposite.WithGroupVersionKind(c05XRGVK))
	xr.SetName("xr1")
	xr.SetLabels(map[string]string{"crossplane.io/claim-name": "claim", "crossplane.io/claim-namespace": "ns"})
	xr.SetClaimReference(&reference.Claim{APIVersion: "example.org/v1", Kind: "Thing", Namespace: "ns", Name: "claim"})
	for _, c := range s.XRConds {
		xr.SetConditions(xpv1.Condition{Type: xpv1.ConditionType(c.Type), Status: corev1.ConditionStatus(c.Status), Reason: xpv1.ConditionReason(c.Reason), LastTransitionTime: metav1.Unix(1, 0)})
	}
	if len(s.ClaimTypes) > 0 {
		ts := []any{}
		for _, t := range s.ClaimTypes {
			ts = append(ts, t)
		}
		_ = fieldpath.Pave(xr.Object).SetValue("status.claimConditionTypes", ts)
	}
	st.Seed(xr)
	cm := uclaim.New(uclaim.WithGroupVersionKind(c05ClaimGVK))
	cm.SetName("claim")
	cm.SetNamespace("ns")
	cm.SetFinalizers([]string{"finalizer.apiextensions.crossplane.io"})
	cm.SetResourceReference(&reference.Composite{APIVersion: "example.org/v1", Kind: "XThing", Name: "xr1"})
	for _, c := range s.Old {
		cm.SetConditions(xpv1.Condition{Type: xpv1.ConditionType(c.Type), Status: corev1.ConditionStatus(c.Status), Reason: xpv1.ConditionReason(c.Reason), LastTransitionTime: metav1.Unix(1, 0)})
	}
	st.Seed(cm)
	r := claim.NewReconciler(st, resource.CompositeClaimKind(c05ClaimGVK), resource.CompositeKind(c05XRGVK))
	var mons []Mon
	if p := Guard(func() {
		_, _ = r.Reconcile(context.Background(), reconcile.Request{NamespacedName: types.NamespacedName{Namespace: "ns", Name: "claim"}})
	}); p != "" {
		mons = append(mons, Mon{Sig: "C05:panic", Why: p})
	}
	obs := c05Obs{Conds: []c05OCond{}, ClaimTypes: []string{}}
	for _, w := range st.Log {
		if w.Verb == "update" && w.Sub == "status" && w.Applied && w.GK == "Thing.example.org" {
			obs.Wrote = true
		}
	}
	got := uclaim.New()
	got.SetUnstructuredContent(st.Peek(c05ClaimGVK.GroupKind(), "ns", "claim").Object)
	status := map[string]string{}
	cs := xpv1.ConditionedStatus{}
	_ = fieldpath.Pave(got.Object).GetValueInto("status", &cs)
	for _, c := range cs.Conditions {
		obs.Conds = append(obs.Conds, c05OCond{Type: string(c.Type), Status: string(c.Status), Reason: string(c.Reason)})
		status[string(c.Type)] = string(c.Status)
	}
	sort.Slice(obs.Conds, func(i, j int) bool { return obs.Conds[i].Type < obs.Conds[j].Type })
	xrReady := false
	for _, c := range s.XRConds {
		if c.Type == "Ready" && c.Status == "True" {
			xrReady = true
		}
	}
	if status["Ready"] == "True" && !xrReady {
		mons = append(mons, Mon{Sig: "C05:claim-ready-without-xr-ready", Why: "claim reports Ready=True although the bound XR it observed is not Ready=True"})
	}
	return obs, mons
}

// c05Replay replays a corpus scenario of one of the newer families; false = not one of them.
func c05Replay(c *Ctx, raw []byte, kind string) bool {
	switch kind {
	case "seq":
		var s c05SeqScn
		if jsonUnmarshalStrict(raw, &s) == nil {
			obs, mons := c05RunSeq(s)
			c.Emit(s, obs, mons, "corpus")
		}
		return true
	case "claimseq":
		var s c05ClaimSeqScn
		if jsonUnmarshalStrict(raw, &s) == nil {
			obs, mons := c05RunClaimSeq(s)
			c.Emit(s, obs, mons, "corpus")
		}
		return true
	case "ready":
		var s c05ReadyScn
		if jsonUnmarshalStrict(raw, &s) == nil {
			obs, mons := c05RunReady(s)
			c.Emit(s, obs, mons, "corpus")
		}
		return true
	case "ptst":
		var s c05PTScn
		if jsonUnmarshalStrict(raw, &s) == nil {
			obs, mons := c05RunPT(s)
			c.Emit(s, obs, mons, "corpus")
		}
		return true
	case "cdel":
		var s c05CDelScn
		if jsonUnmarshalStrict(raw, &s) == nil {
			obs, mons := c05RunCDel(s)
			c.Emit(s, obs, mons, "corpus")
		}
		return true
	case "del":
		var s c05DelScn
		if jsonUnmarshalStrict(raw, &s) == nil {
			obs, mons := c05RunDel(s)
			c.Emit(s, obs, mons, "corpus")
		}
		return true
	case "fn":
		var s c05FnScn
		if jsonUnmarshalStrict(raw, &s) == nil {
			obs, mons := c05RunFn(s)
			c.Emit(s, obs, mons, "corpus")
		}
		return true
	}
	return false
}

func init() {
	Register("C05", func(c *Ctx) {
		for _, raw := range c.Corpus {
			var s c05Scn
			if err := jsonUnmarshalStrict(raw, &s); err == nil {
				if c05Replay(c, raw, s.Kind) {
					continue
				}
				if s.Kind == "claim" {
					obs, mons := c05RunClaim(s)
					c.Emit(s, obs, mons, "corpus")
					continue
				}
				obs, mons := c05Run(s)
				c.Emit(s, obs, mons, "corpus")
			}
		}
		if c.Tier == "thorough" && c.Seed%1000 == 0 {
			c05Exhaustive(c)
		}
		for i := 0; i < c.N; i++ {
			if i%8 == 5 {
				// production of the outcomes by the REAL composers: XR worlds in which the API server
				// rejects some applies as invalid (the resource must be reported unsynced)
				xs := c01Gen(c.Rng)
				for j := range xs.Rounds {
					if len(xs.Rounds[j].Desired) > 0 && c.Rng.Chance(1, 2) {
						xs.Rounds[j].Desired[c.Rng.Intn(len(xs.Rounds[j].Desired))].Content = xwInvalidContent
					}
				}
				xo, xm := c05RunWorld(&xs)
				var keep []Mon
				for _, m := range xm {
					if len(m.Sig) > 4 && m.Sig[:4] == "C05:" {
						keep = append(keep, m)
					}
				}
				inv := 0
				for _, rd := range xs.Rounds {
					for _, d := range rd.Desired {
						if d.Content == xwInvalidContent {
							inv++
						}
					}
				}
				c.Emit(xs, xo, keep, fmt.Sprintf("composer/%s/rejected=%d", xs.Mode, min(inv, 4)))
				continue
			}
			if i%8 == 7 {
				s := c05GenClaimSeq(c.Rng)
				obs, mons := c05RunClaimSeq(s)
				c.Emit(s, obs, mons, c05ClaimSeqCls(s))
				continue
			}
			if i%32 == 0 {
				s := c05GenCDel(c.Rng)
				obs, mons := c05RunCDel(s)
				c.Emit(s, obs, mons, c05CDelCls(s))
				continue
			}
			if i%32 == 16 {
				s := c05GenDel(c.Rng)
				obs, mons := c05RunDel(s)
				c.Emit(s, obs, mons, c05DelCls(s))
				continue
			}
			if i%16 == 12 {
				s := c05GenPT(c.Rng)
				obs, mons := c05RunPT(s)
				c.Emit(s, obs, mons, c05PTCls(s))
				continue
			}
			if i%16 == 4 {
				s := c05GenReady(c.Rng)
				obs, mons := c05RunReady(s)
				c.Emit(s, obs, mons, c05ReadyCls(s, obs))
				continue
			}
			if i%8 == 2 {
				s := c05GenFn(c.Rng)
				obs, mons := c05RunFn(s)
				c.Emit(s, obs, mons, c05FnCls(s))
				continue
			}
			if i%8 == 1 || i%8 == 6 {
				s := c05GenSeq(c.Rng)
				obs, mons := c05RunSeq(s)
				c.Emit(s, obs, mons, c05SeqCls(s))
				continue
			}
			if i%4 == 3 {
				s := c05GenClaim(c.Rng)
				obs, mons := c05RunClaim(s)
				rd := "absent"
				for _, x := range s.XRConds {
					if x.Type == "Ready" {
						rd = x.Status
					}
				}
				c.Emit(s, obs, mons, fmt.Sprintf("claim/xrReady=%s/types=%d", rd, len(s.ClaimTypes)))
				continue
			}
			s := c05Gen(c.Rng)
			obs, mons := c05Run(s)
			cls := fmt.Sprintf("err=%s/explicit=%s/n=%d/fn=%d", s.Err, s.Explicit, len(s.Composed), len(s.FnConds))
			c.Emit(s, obs, mons, cls)
		}
	})
	RegisterDump("Conditions", func() string {
		var sys []string
		for _, t := range c05CondUniverse() {
			if xpv1.IsSystemConditionType(xpv1.ConditionType(t)) {
				sys = append(sys, t)
			}
		}
		return "/-- condition types for which xpv1.IsSystemConditionType is true (probed over the harness universe) -/\n" +
			"def systemConditionTypes : List String := " + leanSortedStrList(sys) + "\n" +
			"def conditionTypeUniverse : List String := " + leanSortedStrList(c05CondUniverse()) + "\n"
	})
}

//go:build verif

package main

// C13: regenerated control-flow skeletons of the Go functions the model mirrors (tie "a",
// DESIGN 2.3). Where the order of lock operations, early returns and deferred unlocks is the
// very thing the model is about, a flat list of calls is not enough: `defer e.mx.Unlock()`
// stands in the source right after `e.mx.Lock()` but runs last, and an early `return` between
// two acquisitions decides which locks a path holds. The walker below therefore emits, for one
// function of the CURRENT tree (VERIF_REPO), a list of tokens
//
//	(depth, kind, what, target)
//
// in source order (calls inside one expression in evaluation order: arguments and receivers
// before the call they feed). Kinds:
//
//	call     a call whose name (final selector, or the identifier for builtins / plain functions)
//	         is in the verb set; `what` is the dotted chain with the receiver variable dropped
//	defer    the same, deferred
//	set      an assignment (=, not :=) to a field or to a map / slice element (`what` is the
//	         chain, "[]" appended for an element): the writes to e.controllers, c.sources,
//	         c.stopped, c.active, s.reg, ...
//	return   a return statement (after the calls of its result expressions)
//	break / continue   with `target` = depth of the loop they leave / continue
//	if / else / case / for / func   open a block: the tokens of the block follow with a larger depth
//	         (`func` = a function literal: a goroutine body, a deferred closure or a callback);
//	         `what` of an `if` is its condition, of a `for` its condition or "range <expr>"
//	         (source text as go/types.ExprString prints it)
//
// lean/Xp/Model/C13Skel.lean declares the skeleton of every mirrored function next to the
// model steps that mirror its entries, interprets the tokens (`accepts`: is this sequence of
// events the event sequence of some path through the function, deferred calls run LIFO at the
// return?) and derives from the MODEL, per function, the sequence of lock operations, calls and
// writes of a thread (`Pc.held` differences + the step's action); lean/Xp/Props/C13.lean states
// `skeleton_<fn>` (regenerated = declared) and `trace_<fn>` (the model's sequences are paths of
// the regenerated skeleton). Reordering, dropping or adding a lock operation, an early return, a
// deferred unlock, a call that leaves the engine or a write in one of these functions breaks an
// obligation before any scenario is run.

import (
	"fmt"
	"go/ast"
	"go/parser"
	"go/token"
	"go/types"
	"path/filepath"
	"strings"
)

type c13Tok struct {
	D    int
	K, W string
	T    int
}

var c13SkelVerbs = func() map[string]bool {
	m := map[string]bool{}
	for _, v := range []string{
		// locks
		"Lock", "Unlock", "RLock", "RUnlock",
		// engine internals
		"nc", "cancel", "delete", "WithCancel", "Elected", "Done",
		// controller-runtime controller / source
		"Start", "Stop", "Watch", "NewStoppableSource", "NewEventHandler", "HandlerFuncs",
		// informers
		"ActiveInformers", "GetInformer", "GetInformerForKind", "RemoveInformer", "AddEventHandler", "RemoveEventHandler",
		// clients / cache reads
		"Get", "List", "GetCached", "GetUncached",
		// engine entry points (callers: collector, reconcilers)
		"IsRunning", "StartWatches", "StopWatches", "GetWatches", "GarbageCollectWatches", "GarbageCollectWatchesNow",
		"GarbageCollectCustomResourceInformers", "NewGarbageCollector", "WatchFor",
		// kind identity
		"GVKForObject", "TrimSuffix", "FromAPIVersionAndKind", "GetResourceReferences", "SetGroupVersionKind",
	} {
		m[v] = true
	}
	return m
}()

type c13Walker struct {
	root  string // receiver variable, dropped from chains
	out   []c13Tok
	loops []int // depths of the enclosing loops (innermost last)
	inSw  bool  // directly inside a switch / select case: a bare break leaves that, not the loop
}

func (w *c13Walker) emit(d int, k, what string, t int) {
	w.out = append(w.out, c13Tok{D: d, K: k, W: what, T: t})
}

func (w *c13Walker) chain(e ast.Expr) (string, bool) {
	ch, ok := skelChain(e)
	if !ok {
		return "", false
	}
	if w.root != "" && strings.HasPrefix(ch, w.root+".") {
		ch = ch[len(w.root)+1:]
	}
	return ch, true
}

// expr emits the calls of an expression in evaluation order (post-order), function literals as blocks.
func (w *c13Walker) expr(e ast.Node, d int, kind string) {
	if e == nil {
		return
	}
	switch t := e.(type) {
	case *ast.FuncLit:
		w.emit(d, "func", "", 0)
		saved := w.loops
		w.loops = nil
		w.block(t.Body.List, d+1)
		w.loops = saved
		return
	case *ast.CallExpr:
		// receiver / function expression first (it may contain calls: a().b()), then the arguments
		switch f := t.Fun.(type) {
		case *ast.SelectorExpr:
			w.expr(f.X, d, "call")
		case *ast.Ident:
		default:
			w.expr(t.Fun, d, "call")
		}
		for _, a := range t.Args {
			w.expr(a, d, "call")
		}
		name := ""
		switch f := t.Fun.(type) {
		case *ast.SelectorExpr:
			name = f.Sel.Name
		case *ast.Ident:
			name = f.Name
		}
		if c13SkelVerbs[name] {
			if ch, ok := w.chain(t.Fun); ok {
				if name == "delete" && len(t.Args) > 0 {
					if a, ok := w.chain(t.Args[0]); ok {
						ch += " " + a
					}
				}
				w.emit(d, kind, ch, 0)
			}
		}
		return
	}
	// any other expression: visit children in source order
	ast.Inspect(e, func(n ast.Node) bool {
		if n == e {
			return true
		}
		switch n.(type) {
		case *ast.CallExpr, *ast.FuncLit:
			w.expr(n, d, "call")
			return false
		}
		return true
	})
}

func (w *c13Walker) block(list []ast.Stmt, d int) {
	for _, s := range list {
		w.stmt(s, d)
	}
}

func (w *c13Walker) stmt(s ast.Stmt, d int) {
	switch t := s.(type) {
	case nil:
	case *ast.BlockStmt:
		w.block(t.List, d)
	case *ast.ExprStmt:
		w.expr(t.X, d, "call")
	case *ast.DeferStmt:
		if fl, ok := t.Call.Fun.(*ast.FuncLit); ok {
			w.expr(fl, d, "call")
			return
		}
		w.expr(t.Call, d, "defer")
	case *ast.GoStmt:
		if fl, ok := t.Call.Fun.(*ast.FuncLit); ok {
			w.expr(fl, d, "call")
			return
		}
		w.emit(d, "func", "", 0)
		w.expr(t.Call, d+1, "call")
	case *ast.AssignStmt:
		for _, r := range t.Rhs {
			w.expr(r, d, "call")
		}
		if t.Tok == token.ASSIGN {
			for _, l := range t.Lhs {
				switch lt := l.(type) {
				case *ast.IndexExpr:
					w.expr(lt.Index, d, "call")
					if ch, ok := w.chain(lt.X); ok {
						w.emit(d, "set", ch+"[]", 0)
					}
				case *ast.SelectorExpr:
					if ch, ok := w.chain(lt); ok {
						w.emit(d, "set", ch, 0)
					}
				}
			}
		}
	case *ast.DeclStmt:
		w.expr(t.Decl, d, "call")
	case *ast.ReturnStmt:
		for _, r := range t.Results {
			w.expr(r, d, "call")
		}
		w.emit(d, "return", "", 0)
	case *ast.BranchStmt:
		if len(w.loops) > 0 && t.Label == nil {
			switch t.Tok {
			case token.BREAK:
				if !w.inSw {
					w.emit(d, "break", "", w.loops[len(w.loops)-1])
				}
			case token.CONTINUE:
				w.emit(d, "continue", "", w.loops[len(w.loops)-1])
			}
		}
	case *ast.IfStmt:
		w.stmt(t.Init, d)
		w.expr(t.Cond, d, "call")
		w.emit(d, "if", types.ExprString(t.Cond), 0)
		w.block(t.Body.List, d+1)
		if t.Else != nil {
			w.emit(d, "else", "", 0)
			w.stmt(t.Else, d+1)
		}
	case *ast.ForStmt:
		w.stmt(t.Init, d)
		w.expr(t.Cond, d, "call")
		cond := ""
		if t.Cond != nil {
			cond = types.ExprString(t.Cond)
		}
		w.emit(d, "for", cond, 0)
		w.loops = append(w.loops, d)
		sw := w.inSw
		w.inSw = false
		w.block(t.Body.List, d+1)
		w.stmt(t.Post, d+1)
		w.inSw = sw
		w.loops = w.loops[:len(w.loops)-1]
	case *ast.RangeStmt:
		w.expr(t.X, d, "call")
		w.emit(d, "for", "range "+types.ExprString(t.X), 0)
		w.loops = append(w.loops, d)
		sw := w.inSw
		w.inSw = false
		w.block(t.Body.List, d+1)
		w.inSw = sw
		w.loops = w.loops[:len(w.loops)-1]
	case *ast.SwitchStmt:
		w.stmt(t.Init, d)
		w.expr(t.Tag, d, "call")
		w.cases(t.Body, d)
	case *ast.TypeSwitchStmt:
		w.stmt(t.Init, d)
		w.stmt(t.Assign, d)
		w.cases(t.Body, d)
	case *ast.SelectStmt:
		w.cases(t.Body, d)
	case *ast.LabeledStmt:
		w.stmt(t.Stmt, d)
	case *ast.SendStmt:
		w.expr(t.Chan, d, "call")
		w.expr(t.Value, d, "call")
	case *ast.IncDecStmt:
		w.expr(t.X, d, "call")
	}
}

func (w *c13Walker) cases(body *ast.BlockStmt, d int) {
	// a bare break inside a case leaves the switch / select, not the loop
	sw := w.inSw
	w.inSw = true
	defer func() { w.inSw = sw }()
	for _, c := range body.List {
		switch cc := c.(type) {
		case *ast.CaseClause:
			for _, e := range cc.List {
				w.expr(e, d, "call")
			}
			w.emit(d, "case", "", 0)
			w.block(cc.Body, d+1)
		case *ast.CommClause:
			w.stmt(cc.Comm, d)
			w.emit(d, "case", "", 0)
			w.block(cc.Body, d+1)
		}
	}
}

// c13Flow returns the control-flow skeleton of method recvType.fn (plain function when recvType == "").
func c13Flow(relFile, recvType, fn string) ([]c13Tok, error) {
	file := filepath.Join(SkelRepo(), relFile)
	fset := token.NewFileSet()
	f, err := parser.ParseFile(fset, file, nil, 0)
	if err != nil {
		return nil, err
	}
	for _, dcl := range f.Decls {
		fd, ok := dcl.(*ast.FuncDecl)
		if !ok || fd.Name.Name != fn || fd.Body == nil {
			continue
		}
		root := ""
		if recvType == "" {
			if fd.Recv != nil {
				continue
			}
		} else {
			if fd.Recv == nil || len(fd.Recv.List) != 1 {
				continue
			}
			rt := fd.Recv.List[0].Type
			if st, ok := rt.(*ast.StarExpr); ok {
				rt = st.X
			}
			if id, ok := rt.(*ast.Ident); !ok || id.Name != recvType {
				continue
			}
			if len(fd.Recv.List[0].Names) == 1 {
				root = fd.Recv.List[0].Names[0].Name
			}
		}
		w := &c13Walker{root: root}
		w.block(fd.Body.List, 0)
		return w.out, nil
	}
	return nil, fmt.Errorf("function %s.%s not found in %s", recvType, fn, relFile)
}

func c13FlowDef(leanName, relFile, recvType, fn string) string {
	toks, err := c13Flow(relFile, recvType, fn)
	if err != nil {
		// a renamed / moved function yields a list no declared skeleton equals
		toks = []c13Tok{{K: "EXTRACTION FAILED", W: err.Error()}}
	}
	var sb strings.Builder
	fmt.Fprintf(&sb, "/-- control-flow skeleton of %s.%s (%s): (depth, kind, what, target), source order, regenerated from the current tree -/\n", recvType, fn, relFile)
	fmt.Fprintf(&sb, "def %s : List (Nat × String × String × Nat) := [", leanName)
	for i, t := range toks {
		if i > 0 {
			sb.WriteString(",")
		}
		fmt.Fprintf(&sb, "\n  (%d, %s, %s, %d)", t.D, leanStr(t.K), leanStr(t.W), t.T)
	}
	sb.WriteString("]\n")
	return sb.String()
}

// c13Calls returns, in source order, the text of every call in method recvType.fn whose name
// (final selector) is in names: the calls the anchored reconcilers make into the engine and the
// watch collector, with their arguments (which controller name, which watch type, which kind).
func c13Calls(relFile, recvType, fn string, names map[string]bool) []string {
	file := filepath.Join(SkelRepo(), relFile)
	fset := token.NewFileSet()
	f, err := parser.ParseFile(fset, file, nil, 0)
	if err != nil {
		return []string{"EXTRACTION FAILED: " + err.Error()}
	}
	for _, dcl := range f.Decls {
		fd, ok := dcl.(*ast.FuncDecl)
		if !ok || fd.Name.Name != fn || fd.Body == nil || fd.Recv == nil || len(fd.Recv.List) != 1 {
			continue
		}
		rt := fd.Recv.List[0].Type
		if st, ok := rt.(*ast.StarExpr); ok {
			rt = st.X
		}
		if id, ok := rt.(*ast.Ident); !ok || id.Name != recvType {
			continue
		}
		out := []string{}
		ast.Inspect(fd.Body, func(n ast.Node) bool {
			if as, ok := n.(*ast.AssignStmt); ok && as.Tok == token.DEFINE && len(as.Lhs) == 1 && len(as.Rhs) == 1 {
				// the definitions of the two locals the engine calls are made with
				if id, ok := as.Lhs[0].(*ast.Ident); ok && (id.Name == "name" || id.Name == "xrGVK") {
					out = append(out, id.Name+" := "+types.ExprString(as.Rhs[0]))
					return false
				}
			}
			ce, ok := n.(*ast.CallExpr)
			if !ok {
				return true
			}
			name := ""
			switch t := ce.Fun.(type) {
			case *ast.SelectorExpr:
				name = t.Sel.Name
			case *ast.Ident:
				name = t.Name
			}
			if names[name] {
				out = append(out, types.ExprString(ce))
				return false
			}
			return true
		})
		return out
	}
	return []string{fmt.Sprintf("EXTRACTION FAILED: function %s.%s not found in %s", recvType, fn, relFile)}
}

func init() {
	RegisterDump("C13Skel", func() string {
		const eng = "internal/engine/engine.go"
		const src = "internal/engine/source.go"
		const cch = "internal/engine/cache.go"
		const wch = "internal/controller/apiextensions/composite/watch/watch.go"
		var sb strings.Builder
		for _, x := range [][4]string{
			{"c13FlowStart", eng, "ControllerEngine", "Start"},
			{"c13FlowStop", eng, "ControllerEngine", "Stop"},
			{"c13FlowIsRunning", eng, "ControllerEngine", "IsRunning"},
			{"c13FlowStartWatches", eng, "ControllerEngine", "StartWatches"},
			{"c13FlowGetWatches", eng, "ControllerEngine", "GetWatches"},
			{"c13FlowStopWatches", eng, "ControllerEngine", "StopWatches"},
			{"c13FlowGetCached", eng, "ControllerEngine", "GetCached"},
			{"c13FlowGetUncached", eng, "ControllerEngine", "GetUncached"},
			{"c13FlowGCInformers", eng, "ControllerEngine", "GarbageCollectCustomResourceInformers"},
			{"c13FlowSourceStart", src, "StoppableSource", "Start"},
			{"c13FlowSourceStop", src, "StoppableSource", "Stop"},
			{"c13FlowActiveInformers", cch, "InformerTrackingCache", "ActiveInformers"},
			{"c13FlowCacheGet", cch, "InformerTrackingCache", "Get"},
			{"c13FlowCacheList", cch, "InformerTrackingCache", "List"},
			{"c13FlowCacheGetInformer", cch, "InformerTrackingCache", "GetInformer"},
			{"c13FlowCacheGetInformerForKind", cch, "InformerTrackingCache", "GetInformerForKind"},
			{"c13FlowCacheRemoveInformer", cch, "InformerTrackingCache", "RemoveInformer"},
			{"c13FlowGCNow", wch, "GarbageCollector", "GarbageCollectWatchesNow"},
			{"c13FlowGCLoop", wch, "GarbageCollector", "GarbageCollectWatches"},
		} {
			sb.WriteString(c13FlowDef(x[0], x[1], x[2], x[3]))
			sb.WriteString("\n")
		}
		// the anchored callers: which controller name, watch type and kind they hand to the engine
		names := map[string]bool{"Start": true, "Stop": true, "IsRunning": true, "StartWatches": true, "StopWatches": true,
			"GetWatches": true, "NewGarbageCollector": true, "WithWatchStarter": true, "SetGroupVersionKind": true,
			"WatchFor": true, "GetResourceReferences": true}
		const apix = "internal/controller/apiextensions/"
		for _, x := range [][4]string{
			{"c13CallsDefinition", apix + "definition/reconciler.go", "Reconciler", "Reconcile"},
			{"c13CallsDefinitionOptions", apix + "definition/reconciler.go", "Reconciler", "CompositeReconcilerOptions"},
			{"c13CallsOffered", apix + "offered/reconciler.go", "Reconciler", "Reconcile"},
			{"c13CallsComposite", apix + "composite/reconciler.go", "Reconciler", "Reconcile"},
		} {
			fmt.Fprintf(&sb, "/-- calls into the engine / the watch collector made by %s.%s (%s), source order, with arguments -/\ndef %s : List String := [", x[2], x[3], x[1], x[0])
			for i, c := range c13Calls(x[1], x[2], x[3], names) {
				if i > 0 {
					sb.WriteString(",")
				}
				sb.WriteString("\n  " + leanStr(c))
			}
			sb.WriteString("]\n\n")
		}
		return sb.String()
	})
}

//go:build verif

package main

// C07: claim and XR exchange exactly the fields each side owns.
//
// Drives the REAL claim.ServerSideCompositeSyncer.Sync and
// claim.ClientSideCompositeSyncer.Sync (and the real PatchingManagedFieldsUpgrader)
// over simstore on generated histories
//   sync | editClaim | xrCtl | upgrade | upgradeProbe
// starting from a generated claim (pruned with apiextensions-apiserver's
// structural pruning against the CRD xcrd.ForCompositeResourceClaim derives from
// a generated XRD) and an optional pre-existing XR.
//
// The syncers (and the managed-fields upgrader) are long-lived objects of the
// claim controller of one XRD: they serve EVERY claim of that XRD for the life
// of the process. A scenario therefore is a main claim/XR pair plus any number
// of peer pairs (other claims of the same XRD - possibly of the same NAME in
// another namespace - in the same store, each with its own history), whose
// operations are interleaved by `sched` and ALL run through ONE
// ServerSideCompositeSyncer, ONE ClientSideCompositeSyncer and ONE
// PatchingManagedFieldsUpgrader built once per scenario. The model is a pure
// function of each pair alone (Drv/C07.lean runs every pair independently), so
// anything a syncer carries over from one sync to the next - of the same or of
// another claim - shows up as a correspondence diff and in the per-sync monitors.
//
// Every sync runs in a WORLD (c07_world.go): the reconciler's two cached reads may
// lag behind the store or miss the XR, third parties write between the API calls
// of the sync, any API call may fail with any error class. The model
// (Xp/Model/C07World.lean) is the same sequence of resource-version-checked API
// calls in the same world.
//
// Observation (diffed against the Lean model Xp.C07): for every sync step the
// ordered request bodies of every write the syncer issued, the number of API
// calls it made, the error class it returned and the stored claim and XR
// afterwards, all projected to {name, labels, annotations, spec, status}.
//
// Direct monitors evaluate the field partition itself on the real run: c07_mon.go
// on every request body (against the objects as served) and on the stored objects
// across quiet syncs, c07_world.go on every single API call against the true
// store around it.

import (
	"context"
	"encoding/json"
	"fmt"
	"sort"
	"strings"

	"k8s.io/apimachinery/pkg/apis/meta/v1/unstructured"
	"k8s.io/apimachinery/pkg/runtime"
	"k8s.io/apimachinery/pkg/runtime/schema"
	"k8s.io/apimachinery/pkg/types"

	"github.com/crossplane/crossplane-runtime/pkg/meta"
	"github.com/crossplane/crossplane-runtime/pkg/resource"
	uclaim "github.com/crossplane/crossplane-runtime/pkg/resource/unstructured/claim"
	ucomposite "github.com/crossplane/crossplane-runtime/pkg/resource/unstructured/composite"

	"github.com/crossplane/crossplane/internal/controller/apiextensions/claim"
	"github.com/crossplane/crossplane/internal/names"
	"github.com/crossplane/crossplane/internal/xcrd"
)

const (
	c07Group     = "example.org"
	c07NS        = "team-a"
	c07ClaimName = "my-claim"
)

var (
	c07ClaimGVK = schema.GroupVersionKind{Group: c07Group, Version: "v1", Kind: "Thing"}
	c07XRGVK    = schema.GroupVersionKind{Group: c07Group, Version: "v1", Kind: "XThing"}
)

// c07Obj is the projection of a Kubernetes object every observation uses.
// Annotations is nil when metadata.annotations is absent (an empty, present map is
// a different value: meta.AddAnnotations distinguishes them). Labels absent == {}.
type c07Obj struct {
	Name        string            `json:"name"`
	Labels      map[string]string `json:"labels"`
	Annotations map[string]string `json:"annotations"`
	Spec        any               `json:"spec"`
	Status      any               `json:"status"`
}

// c07Op is one step of a history.
type c07Op struct {
	Op     string `json:"op"`     // sync | editClaim | xrCtl | upgrade
	Syncer string `json:"syncer"` // ssa | csa (sync only)
	Gen    string `json:"gen"`    // the name the name generator will produce (sync only)

	// deltas (editClaim acts on the stored claim, xrCtl on the stored XR if any)
	SetSpec   map[string]any    `json:"setSpec"`
	DelSpec   []string          `json:"delSpec"`
	SetStatus map[string]any    `json:"setStatus"`
	DelStatus []string          `json:"delStatus"`
	SetLabels map[string]string `json:"setLabels"`
	DelLabels []string          `json:"delLabels"`
	SetAnn    map[string]string `json:"setAnn"`
	DelAnn    []string          `json:"delAnn"`

	// ---- the world of one sync (c07_world.go); all absent = the quiet world.
	// How the reconciler's two cached reads are answered: the claim / the XR as they
	// were LagCm / LagXr operations of this pair ago; MissXr: the XR is not in the cache.
	LagCm  int  `json:"lagCm,omitempty"`
	LagXr  int  `json:"lagXr,omitempty"`
	MissXr bool `json:"missXr,omitempty"`
	// GetCache: the Get inside the client-side Apply is answered by that same cache
	// state (default: by the live store).
	GetCache bool `json:"getCache,omitempty"`
	// Acts: third-party writes before the K-th API call of this sync (upgrade: of the upgrade).
	Acts []c07Act `json:"acts,omitempty"`
	// Inj: the K-th API call fails with an API error of this class (nothing reaches the store).
	Inj []c07Inj `json:"inj,omitempty"`
	// Mf (op upgradeProbe): the managers of the probe object's managedFields, in order.
	Mf []string `json:"mf,omitempty"`
}

// c07Scn is what the model is given.
type c07Scn struct {
	Claim    c07Obj   `json:"claim"`
	XR       *c07Obj  `json:"xr"`
	UserKeys []string `json:"userKeys"`   // top-level spec property names of the XRD author's schema
	UserStat []string `json:"userStatus"` // top-level status property names of the XRD author's schema
	Ops      []c07Op  `json:"ops"`
	// Peers are other claims of the same XRD (distinct names) served by the same
	// long-lived syncers. Sched interleaves the histories: every entry names the pair
	// (0 = main, i = Peers[i-1]) whose next operation runs; what is left afterwards
	// runs pair by pair. The model does not read Sched.
	Peers []c07Peer `json:"peers"`
	Sched []int     `json:"sched"`
	// NS: the claim's namespace (default team-a).
	NS string `json:"ns,omitempty"`
}

// c07Peer is one more claim/XR pair with its own history.
type c07Peer struct {
	Claim c07Obj  `json:"claim"`
	XR    *c07Obj `json:"xr"`
	Ops   []c07Op `json:"ops"`
	NS    string  `json:"ns,omitempty"`
}

type c07Write struct {
	T    string `json:"t"` // claim.update claim.status xr.apply xr.create xr.patch
	Body c07Obj `json:"body"`
}

type c07Step struct {
	Err string `json:"err"`
	// Calls: how many API calls the Sync made through its client (reads included).
	Calls  int        `json:"calls"`
	Writes []c07Write `json:"writes"`
	Claim  c07Obj     `json:"claim"`
	XR     *c07Obj    `json:"xr"`
}

// c07ProbeObs: what one run of the managed-fields upgrader against a probe object did
// (op upgradeProbe): the managers the object lists afterwards, the number of API calls,
// the error class returned. Diffed against Xp.C07.upgradeRun (Model/C07Upgrade.lean).
type c07ProbeObs struct {
	Managers []string `json:"managers"`
	Calls    int      `json:"calls"`
	Err      string   `json:"err"`
}

type c07PeerObs struct {
	Steps  []c07Step     `json:"steps"`
	Probes []c07ProbeObs `json:"probes"`
}

type c07Obs struct {
	Steps  []c07Step     `json:"steps"`
	Probes []c07ProbeObs `json:"probes"`
	Peers  []c07PeerObs  `json:"peers"`
}

// ---------------------------------------------------------------- projection

func c07Proj(m map[string]any) c07Obj {
	o := c07Obj{Labels: map[string]string{}}
	md, _ := m["metadata"].(map[string]any)
	if md != nil {
		o.Name, _ = md["name"].(string)
		if l, ok := md["labels"].(map[string]any); ok {
			for k, v := range l {
				o.Labels[k], _ = v.(string)
			}
		}
		if a, ok := md["annotations"].(map[string]any); ok {
			o.Annotations = map[string]string{}
			for k, v := range a {
				o.Annotations[k], _ = v.(string)
			}
		}
	}
	if s, ok := m["spec"]; ok {
		o.Spec = c07Canon(s)
	}
	if s, ok := m["status"]; ok {
		o.Status = c07Canon(s)
	}
	return o
}

// c07Canon round-trips through JSON so that every number is a json.Number-free
// int64/float64 and typed maps are plain.
func c07Canon(v any) any {
	b, err := json.Marshal(v)
	if err != nil {
		panic(err)
	}
	var out any
	d := json.NewDecoder(strings.NewReader(string(b)))
	d.UseNumber()
	if err := d.Decode(&out); err != nil {
		panic(err)
	}
	return convertNumbers(out)
}

func c07ToU(o c07Obj, gvk schema.GroupVersionKind, ns string) *unstructured.Unstructured {
	md := map[string]any{"name": o.Name}
	if ns != "" {
		md["namespace"] = ns
	} else if i := strings.LastIndex(o.Name, "-"); i > 0 {
		// every XR of a claim was created by the claim controller with a generateName
		// derived from the claim's name (a syncer that re-applies a missed XR sends it again)
		md["generateName"] = o.Name[:i+1]
	}
	if len(o.Labels) > 0 {
		l := map[string]any{}
		for k, v := range o.Labels {
			l[k] = v
		}
		md["labels"] = l
	}
	if o.Annotations != nil {
		a := map[string]any{}
		for k, v := range o.Annotations {
			a[k] = v
		}
		md["annotations"] = a
	}
	m := map[string]any{"apiVersion": gvk.GroupVersion().String(), "kind": gvk.Kind, "metadata": md}
	if o.Spec != nil {
		m["spec"] = c07Canon(o.Spec)
	}
	if o.Status != nil {
		m["status"] = c07Canon(o.Status)
	}
	return &unstructured.Unstructured{Object: m}
}

// ---------------------------------------------------------------- running a history

func c07ErrClass(err error) string {
	if err == nil {
		return ""
	}
	s := err.Error()
	switch {
	case strings.Contains(s, "claim spec was not an object"):
		return "claimSpecNotObject"
	case strings.Contains(s, "composite resource status was not an object"):
		return "xrStatusNotObject"
	case strings.Contains(s, "unable to merge claim status"):
		return "mergeStatus"
	case strings.Contains(s, "unable to merge claim spec"):
		return "mergeSpec"
	}
	// an API call failed: the class of the error as the reconciler will see it
	if c := c07APIClass(err); c != "" {
		return "api:" + c
	}
	return "other:" + s
}

func c07ApplyDelta(u *unstructured.Unstructured, op c07Op) {
	if len(op.SetSpec) > 0 || len(op.DelSpec) > 0 {
		spec, ok := u.Object["spec"].(map[string]any)
		if !ok {
			spec = map[string]any{}
			u.Object["spec"] = spec
		}
		for _, k := range op.DelSpec {
			delete(spec, k)
		}
		for k, v := range op.SetSpec {
			spec[k] = c07Canon(v)
		}
	}
	if len(op.SetStatus) > 0 || len(op.DelStatus) > 0 {
		st, ok := u.Object["status"].(map[string]any)
		if !ok {
			st = map[string]any{}
			u.Object["status"] = st
		}
		for _, k := range op.DelStatus {
			delete(st, k)
		}
		for k, v := range op.SetStatus {
			st[k] = c07Canon(v)
		}
	}
	if len(op.SetLabels) > 0 || len(op.DelLabels) > 0 {
		l := u.GetLabels()
		if l == nil {
			l = map[string]string{}
		}
		for _, k := range op.DelLabels {
			delete(l, k)
		}
		for k, v := range op.SetLabels {
			l[k] = v
		}
		if len(l) == 0 {
			l = nil
		}
		u.SetLabels(l)
	}
	if len(op.SetAnn) > 0 || len(op.DelAnn) > 0 {
		a := u.GetAnnotations()
		if a == nil {
			a = map[string]string{}
		}
		for _, k := range op.DelAnn {
			delete(a, k)
		}
		for k, v := range op.SetAnn {
			a[k] = v
		}
		if len(a) == 0 {
			a = nil
		}
		u.SetAnnotations(a)
	}
}

func c07DropNullSpec(u *unstructured.Unstructured) {
	if spec, ok := u.Object["spec"].(map[string]any); ok {
		for k, v := range spec {
			if v == nil {
				delete(spec, k)
			}
		}
	}
}

// c07Pre is the state a sync step started from (for the monitors).
type c07Pre struct {
	NS    string
	Claim c07Obj
	XR    *c07Obj
}

func c07XRNameOf(cm c07Obj) string {
	spec, _ := cm.Spec.(map[string]any)
	ref, _ := spec["resourceRef"].(map[string]any)
	n, _ := ref["name"].(string)
	return n
}

// c07Proc is what lives as long as the claim controller of one XRD: the API
// client, the name generator and - built ONCE - both syncers and the upgrader.
type c07Proc struct {
	st  *Store
	rec *c07Rec
	gen string // the name the name generator produces next
	ssa claim.CompositeSyncer
	csa claim.CompositeSyncer
	upg claim.ManagedFieldsUpgrader
	// per syncer kind: has this syncer object already synced an XR whose update policy was Manual?
	sawManual map[string]bool
}

func c07NewProc() *c07Proc {
	st := NewStore(runtime.NewScheme())
	st.Namespaced[c07ClaimGVK.GroupKind()] = true
	p := &c07Proc{st: st, rec: &c07Rec{Store: st}, sawManual: map[string]bool{}}
	ng := names.NameGeneratorFn(func(_ context.Context, cd resource.Object) error {
		if cd.GetName() != "" || cd.GetGenerateName() == "" {
			return nil
		}
		cd.SetName(p.gen)
		return nil
	})
	p.ssa = claim.NewServerSideCompositeSyncer(p.rec, ng)
	p.csa = claim.NewClientSideCompositeSyncer(p.rec, ng)
	p.upg = claim.NewPatchingManagedFieldsUpgrader(p.rec)
	return p
}

// c07Snap is the stored claim and XR (the one the claim references) of a pair after one
// of its operations: what a lagging informer cache still holds.
type c07Snap struct {
	cm *unstructured.Unstructured
	xr *unstructured.Unstructured
}

// c07Pair is the run state of one claim/XR pair of a scenario.
type c07Pair struct {
	ns     string
	name   string
	ops    []c07Op
	next   int
	steps  []c07Step
	probes []c07ProbeObs
	snaps  []c07Snap // snaps[0]: as seeded; snaps[i]: after operation i
}

func c07NSOf(ns string) string {
	if ns == "" {
		return c07NS
	}
	return ns
}

// c07Key tables of internal/xcrd as the syncers see them right now (they are rebuilt
// on every call in the unchanged tree; PropagateSpecProps is a package-level slice).
func c07KeyTables() string {
	return mustJSON([]any{
		xcrd.PropagateSpecProps,
		c07SortedKeys(xcrd.CompositeResourceClaimSpecProps()),
		c07SortedKeys(xcrd.CompositeResourceSpecProps()),
		c07SortedKeys(xcrd.CompositeResourceStatusProps()),
	})
}

// c07Info is what a run reports besides observation and monitors (for cls).
type c07Info struct {
	// some syncer object synced an XR under Manual and LATER an XR that is not under
	// Manual for a claim that has a compositionRevisionRef (the carry-over trigger)
	ManualThenOther bool
	// world coverage, measured on the run
	Acts, Inj, Stale, Probe bool
	// a call of a sync failed naturally (not injected) with these classes
	Natural map[string]bool
}

func c07Run(s c07Scn) (c07Obs, []Mon, c07Info) {
	p := c07NewProc()
	st := p.st
	info := c07Info{Natural: map[string]bool{}}
	pairs := []*c07Pair{{ns: c07NSOf(s.NS), name: s.Claim.Name, ops: s.Ops}}
	st.Seed(c07ToU(s.Claim, c07ClaimGVK, c07NSOf(s.NS)))
	if s.XR != nil {
		st.Seed(c07ToU(*s.XR, c07XRGVK, ""))
	}
	for _, pe := range s.Peers {
		pairs = append(pairs, &c07Pair{ns: c07NSOf(pe.NS), name: pe.Claim.Name, ops: pe.Ops})
		st.Seed(c07ToU(pe.Claim, c07ClaimGVK, c07NSOf(pe.NS)))
		if pe.XR != nil {
			st.Seed(c07ToU(*pe.XR, c07XRGVK, ""))
		}
	}
	for _, pr := range pairs {
		p.snapshot(pr)
	}
	var mons []Mon
	for _, e := range s.Sched {
		if e >= 0 && e < len(pairs) && pairs[e].next < len(pairs[e].ops) {
			mons = append(mons, p.runOp(s, pairs[e], &info)...)
		}
	}
	for _, pr := range pairs {
		for pr.next < len(pr.ops) {
			mons = append(mons, p.runOp(s, pr, &info)...)
		}
	}
	obs := c07Obs{Steps: pairs[0].steps, Probes: pairs[0].probes, Peers: []c07PeerObs{}}
	if obs.Steps == nil {
		obs.Steps = []c07Step{}
	}
	if obs.Probes == nil {
		obs.Probes = []c07ProbeObs{}
	}
	for _, pr := range pairs[1:] {
		po := c07PeerObs{Steps: pr.steps, Probes: pr.probes}
		if po.Steps == nil {
			po.Steps = []c07Step{}
		}
		if po.Probes == nil {
			po.Probes = []c07ProbeObs{}
		}
		obs.Peers = append(obs.Peers, po)
	}
	return obs, mons, info
}

// snapshot records what the store holds for the pair now.
func (p *c07Proc) snapshot(pr *c07Pair) {
	sn := c07Snap{cm: p.st.Peek(c07ClaimGVK.GroupKind(), pr.ns, pr.name)}
	if sn.cm != nil {
		if n := c07XRNameOf(c07Proj(sn.cm.Object)); n != "" {
			sn.xr = p.st.Peek(c07XRGVK.GroupKind(), "", n)
		}
	}
	pr.snaps = append(pr.snaps, sn)
}

func c07Back(snaps []c07Snap, lag int) c07Snap {
	i := len(snaps) - 1 - lag
	if i < 0 {
		i = 0
	}
	return snaps[i]
}

// runOp runs the next operation of one pair through the long-lived objects.
func (p *c07Proc) runOp(s c07Scn, pr *c07Pair, info *c07Info) []Mon {
	op := pr.ops[pr.next]
	pr.next++
	st := p.st
	ctx := context.Background()
	var mons []Mon
	defer p.snapshot(pr)

	peekClaim := func() c07Obj {
		return c07Proj(st.Peek(c07ClaimGVK.GroupKind(), pr.ns, pr.name).Object)
	}
	peekXR := func(name string) *c07Obj {
		if name == "" {
			return nil
		}
		u := st.Peek(c07XRGVK.GroupKind(), "", name)
		if u == nil {
			return nil
		}
		o := c07Proj(u.Object)
		return &o
	}

	switch op.Op {
	case "editClaim":
		st.Mutate(c07ClaimGVK.GroupKind(), pr.ns, pr.name, func(u *unstructured.Unstructured) { c07ApplyDelta(u, op) })
	case "xrCtl":
		if n := c07XRNameOf(peekClaim()); n != "" {
			st.Mutate(c07XRGVK.GroupKind(), "", n, func(u *unstructured.Unstructured) { c07ApplyDelta(u, op) })
		}
	case "upgrade":
		// CSA -> SSA migration point: the real managed-fields upgrader, as the
		// reconciler calls it before Sync. It must not change any XR field.
		n := c07XRNameOf(peekClaim())
		before := peekXR(n)
		if before == nil {
			return nil
		}
		xr := ucomposite.New(ucomposite.WithGroupVersionKind(c07XRGVK))
		if err := st.Get(ctx, types.NamespacedName{Name: n}, xr); err != nil {
			return nil
		}
		um, _ := p.upgrade(pr, op, xr)
		mons = append(mons, um...)
		after := peekXR(n)
		if mustJSON(before) != mustJSON(after) {
			mons = append(mons, Mon{Sig: "C07:upgrade-changed-xr", Why: "managed fields upgrade changed XR data: " + mustJSON(before) + " -> " + mustJSON(after)})
		}
	case "upgradeProbe":
		info.Probe = true
		mons = append(mons, p.upgradeProbe(pr, op)...)
	case "sync":
		pre := c07Pre{NS: pr.ns, Claim: peekClaim(), XR: peekXR(c07XRNameOf(peekClaim()))}
		others := p.snapshotOthers(pr.ns, pr.name, c07XRNameOf(pre.Claim), op.Gen)
		tables := c07KeyTables()
		// what the reconciler does before calling Sync: two reads through the cached client
		cm := uclaim.New(uclaim.WithGroupVersionKind(c07ClaimGVK))
		xr := ucomposite.New(ucomposite.WithGroupVersionKind(c07XRGVK))
		view := c07View{}
		var cacheXR *unstructured.Unstructured
		if op.LagCm == 0 && op.LagXr == 0 && !op.MissXr {
			if err := st.Get(ctx, types.NamespacedName{Namespace: pr.ns, Name: pr.name}, cm); err != nil {
				panic(err)
			}
			if ref := cm.GetResourceReference(); ref != nil {
				if err := st.Get(ctx, types.NamespacedName{Name: ref.Name}, xr); err == nil {
					cacheXR = &unstructured.Unstructured{Object: deepCopyMap(xr.Object)}
				}
			}
		} else {
			cm.Object = deepCopyMap(c07Back(pr.snaps, op.LagCm).cm.Object)
			if ref := cm.GetResourceReference(); ref != nil && !op.MissXr {
				if xs := c07Back(pr.snaps, op.LagXr).xr; xs != nil && xs.GetName() == ref.Name {
					cacheXR = xs
					xr.Object = deepCopyMap(xs.Object)
				}
			}
		}
		view.Claim, view.ClaimRV = c07Proj(cm.Object), cm.GetResourceVersion()
		if cacheXR != nil {
			o := c07Proj(cacheXR.Object)
			view.XR = &o
		}
		// stale: some read is not the object the store holds now (same content under an older
		// resourceVersion is stale too: rv-checked writes will be refused)
		view.Stale = mustJSON(view.Claim) != mustJSON(pre.Claim) || mustJSON(view.XR) != mustJSON(pre.XR)
		if u := st.Peek(c07ClaimGVK.GroupKind(), pr.ns, pr.name); u == nil || u.GetResourceVersion() != view.ClaimRV {
			view.Stale = true
		}
		if cacheXR != nil {
			if u := st.Peek(c07XRGVK.GroupKind(), "", cacheXR.GetName()); u == nil || u.GetResourceVersion() != cacheXR.GetResourceVersion() {
				view.Stale = true
			}
		}
		// the XR third parties act on: the one the stored claim references, else the one about to be created
		target := c07XRNameOf(pre.Claim)
		if target == "" {
			target = op.Gen
		}
		w := c07NewWorld(st, pr.ns, pr.name, target, op)
		w.cacheXR = cacheXR
		info.Acts = info.Acts || len(op.Acts) > 0
		info.Inj = info.Inj || len(op.Inj) > 0
		info.Stale = info.Stale || view.Stale
		// coverage bookkeeping (from this sync's inputs and the syncer's past only)
		if c07Policy(view.XR) == "Manual" {
			p.sawManual[op.Syncer] = true
		} else if p.sawManual[op.Syncer] && c07Has(c07Map(view.Claim.Spec), "compositionRevisionRef") {
			info.ManualThenOther = true
		}
		p.rec.writes = nil
		p.rec.w = w
		p.gen = op.Gen
		var err error
		if pn := Guard(func() {
			if op.Syncer == "ssa" {
				err = p.ssa.Sync(ctx, cm, xr)
			} else {
				err = p.csa.Sync(ctx, cm, xr)
			}
		}); pn != "" {
			mons = append(mons, Mon{Sig: "C07:panic", Why: pn})
		}
		p.rec.w = nil
		writes := p.rec.writes
		p.rec.writes = nil
		if writes == nil {
			writes = []c07Write{}
		}
		for _, c := range w.calls {
			if c.Err != "" && !c.Injected && !(c.Verb == "get" && c.Err == "notFound") {
				info.Natural[c.Err] = true
			}
		}
		// The API server prunes null values of non-nullable fields on every write
		// (apiextensions-apiserver defaulting.PruneNonNullableNullsWithoutDefaults);
		// simstore keeps them. The only such null the syncers produce is a top-level
		// spec field (compositionRevisionRef), and nothing reads it back within the
		// same Sync, so pruning after the Sync is equivalent.
		st.Mutate(c07ClaimGVK.GroupKind(), pr.ns, pr.name, c07DropNullSpec)
		if n := c07XRNameOf(peekClaim()); n != "" {
			st.Mutate(c07XRGVK.GroupKind(), "", n, c07DropNullSpec)
		}
		post := peekClaim()
		step := c07Step{Err: c07ErrClass(err), Calls: w.k, Writes: writes, Claim: post, XR: peekXR(c07XRNameOf(post))}
		pr.steps = append(pr.steps, step)
		quiet := w.quiet() && !view.Stale
		mons = append(mons, c07Monitor(op, c07Pre{NS: pr.ns, Claim: view.Claim, XR: view.XR}, pre, step, quiet)...)
		mons = append(mons, c07WorldMon(op, view, w, err)...)
		// a sync touches its own claim and XR only, and never the key tables
		if now := p.snapshotOthers(pr.ns, pr.name, c07XRNameOf(pre.Claim), op.Gen); now != others {
			mons = append(mons, Mon{Sig: "C07:sync-changed-other-claim", Why: op.Syncer + ": syncing claim " + pr.name + " changed another claim or XR: " + others + " -> " + now})
		}
		if now := c07KeyTables(); now != tables {
			mons = append(mons, Mon{Sig: "C07:key-table-changed-by-sync", Why: op.Syncer + ": the xcrd key tables changed across a sync: " + tables + " -> " + now})
		}
	}
	return mons
}

// snapshotOthers renders every stored claim and XR except the pair's own claim, the XR
// it referenced before the sync, the XR the sync is about to create (a third party may
// create it first) and the XR the claim references now.
func (p *c07Proc) snapshotOthers(ns, claimName string, xrNames ...string) string {
	own := map[string]bool{}
	for _, n := range xrNames {
		own[n] = true
	}
	if u := p.st.Peek(c07ClaimGVK.GroupKind(), ns, claimName); u != nil {
		own[c07XRNameOf(c07Proj(u.Object))] = true
	}
	type named struct {
		NS string
		O  c07Obj
	}
	var out []named
	for _, u := range p.st.OfKind(c07ClaimGVK.GroupKind()) {
		if u.GetName() != claimName || u.GetNamespace() != ns {
			out = append(out, named{u.GetNamespace(), c07Proj(u.Object)})
		}
	}
	for _, u := range p.st.OfKind(c07XRGVK.GroupKind()) {
		if !own[u.GetName()] {
			out = append(out, named{"", c07Proj(u.Object)})
		}
	}
	sort.Slice(out, func(i, j int) bool {
		if out[i].O.Name != out[j].O.Name {
			return out[i].O.Name < out[j].O.Name
		}
		return out[i].NS < out[j].NS
	})
	return mustJSON(out)
}

// ---------------------------------------------------------------- registration

// c07Cls: the evidence histogram keeps the 40 largest classes, so only single-pair
// random scenarios carry the full branch detail (syncer mode / start / policy).
func c07Cls(s c07Scn, pruned bool, info c07Info) string {
	world := c07WorldCls(info)
	if len(s.Peers) == 0 {
		if world != "" {
			// which syncer(s) + which dimensions of the world were exercised (measured on the run)
			return "world/" + strings.SplitN(c07ClsMain(s, pruned), "/", 2)[0] + "/" + world
		}
		return c07ClsMain(s, pruned)
	}
	base := "multi/peers=1"
	if len(s.Peers) > 1 {
		base = "multi/peers=2+"
	}
	if info.ManualThenOther {
		base += "/manual-then-other"
	}
	if world != "" {
		base += "/world"
	}
	return base
}

// c07WorldCls: "" for a quiet run, else the dimensions of the world that occurred:
// acts (third-party writes), inj (failing calls), stale (cached reads that were not the
// live objects). (The classes of NATURAL API errors - rv conflicts, AlreadyExists,
// NotFound, BadRequest - the syncers ran into are reported for the world-enum stream.)
func c07WorldCls(info c07Info) string {
	var parts []string
	if info.Acts {
		parts = append(parts, "acts")
	}
	if info.Inj {
		parts = append(parts, "inj")
	}
	if info.Stale {
		parts = append(parts, "stale")
	}
	if len(parts) == 0 {
		return ""
	}
	return strings.Join(parts, "+")
}

func c07ClsMain(s c07Scn, pruned bool) string {
	syn := map[string]bool{}
	for _, o := range s.Ops {
		if o.Op == "sync" {
			syn[o.Syncer] = true
		}
	}
	which := "csa"
	if syn["ssa"] && syn["csa"] {
		which = "migrate"
	} else if syn["ssa"] {
		which = "ssa"
	}
	spec, ok := s.Claim.Spec.(map[string]any)
	if !ok {
		return "malformed/claim-spec-not-object/" + which
	}
	if s.XR != nil {
		if _, bad := s.XR.Status.(string); bad {
			return "malformed/xr-status-not-object/" + which
		}
	}
	pol := "unset"
	if p, ok := spec["compositionUpdatePolicy"].(string); ok {
		pol = p
	}
	start := "first"
	if s.XR != nil {
		start = "existingXR"
	} else if _, ok := spec["resourceRef"]; ok {
		start = "danglingRef"
	}
	_ = pruned
	return fmt.Sprintf("%s/%s/policy=%s", which, start, pol)
}

// c07Enum: every subset of the nine claim machinery fields, against no XR and
// against an XR holding a (mask-derived) subset of its own machinery, for both
// syncers: 2048 scenarios, split over the shards by the shard index the check
// script encodes in the seed (seed = VERIF_SEED*1000 + shard).
func c07Enum(g *c07Gen, shard int, emit func(s c07Scn)) {
	keys := []string{"compositionRef", "compositionSelector", "compositionRevisionRef", "compositionRevisionSelector",
		"compositionUpdatePolicy", "compositeDeletePolicy", "resourceRef", "publishConnectionDetailsTo", "writeConnectionSecretToRef"}
	xrName := c07ClaimName + "-enum0"
	for mask := 0; mask < 512; mask++ {
		if mask%8 != shard {
			continue
		}
		for _, withXR := range []bool{false, true} {
			for _, syncer := range []string{"ssa", "csa"} {
				r := NewRng(uint64(mask))
				spec := map[string]any{"region": "cu-eu", "params": map[string]any{"resourceRef": map[string]any{"name": "cu-nested"}, "claimRef": "cu-nested"}}
				for i, k := range keys {
					if mask&(1<<i) == 0 {
						continue
					}
					switch k {
					case "compositionUpdatePolicy":
						spec[k] = c07Policies[(mask>>4)%2]
					case "compositeDeletePolicy":
						spec[k] = "Foreground"
					case "resourceRef":
						spec[k] = c07XRRef(xrName)
					case "publishConnectionDetailsTo":
						spec[k] = map[string]any{"name": "cm-only-pub"}
					case "writeConnectionSecretToRef":
						spec[k] = map[string]any{"name": "cm-only-secret"}
					default:
						spec[k] = c07SharedVal(r, k, "cu-")
					}
				}
				s := c07Scn{UserKeys: c07UserKeys, UserStat: c07UserStatus}
				s.Claim = c07Obj{Name: c07ClaimName, Labels: map[string]string{"team": "cl-0", "app.kubernetes.io/name": "cl-1"},
					Status: map[string]any{"conditions": c07Conds(r, "cms-", c07Time1), "address": "cus-0"}}
				if withXR {
					spec["resourceRef"] = c07XRRef(xrName)
					xm := (mask*37 + 11) % 512
					xs := map[string]any{"region": "xu-old", "size": int64(3)}
					xvals := map[string]any{
						"claimRef":                    c07ClaimRef(c07ClaimName),
						"resourceRefs":                []any{map[string]any{"apiVersion": "nop.example.org/v1", "kind": "NopResource", "name": "xr-only-cd0"}},
						"compositionRef":              map[string]any{"name": "xs-comp"},
						"compositionRevisionRef":      map[string]any{"name": "xs-rev"},
						"compositionUpdatePolicy":     c07Policies[(xm>>3)%2],
						"compositionSelector":         map[string]any{"matchLabels": map[string]any{"sel0": "xs-v0"}},
						"compositionRevisionSelector": map[string]any{"matchLabels": map[string]any{}},
						"writeConnectionSecretToRef":  map[string]any{"name": "xr-only-secret", "namespace": "crossplane-system"},
						"publishConnectionDetailsTo":  map[string]any{"name": "xr-only-pub"},
					}
					for i, k := range c07SortedKeys(xvals) {
						if xm&(1<<i) != 0 {
							xs[k] = xvals[k]
						}
					}
					x := c07Obj{Name: xrName, Labels: map[string]string{"crossplane.io/composite": xrName},
						Spec: xs, Status: map[string]any{"conditions": c07Conds(r, "xrs-", c07Time2), "address": "xus-1",
							"connectionDetails": map[string]any{"lastPublishedTime": c07Time2}, "claimConditionTypes": []any{"xrs-Custom"}}}
					if xm&1 == 1 {
						x.Annotations = map[string]string{"crossplane.io/external-name": "xr-ext"}
					}
					s.XR = &x
				}
				s.Claim.Spec = spec
				s.Ops = []c07Op{{Op: "sync", Syncer: syncer, Gen: xrName}, {Op: "sync", Syncer: syncer, Gen: "unused"}}
				b, _ := json.Marshal(s)
				var back c07Scn
				_ = json.Unmarshal(b, &back)
				emit(c07Normalize(back))
			}
		}
	}
}

func init() {
	Register("C07", func(c *Ctx) {
		for _, raw := range c.Corpus {
			var s c07Scn
			if err := jsonUnmarshalStrict(raw, &s); err == nil && len(s.Ops) > 0 && c07NamesDistinct(s) {
				s = c07Normalize(s)
				obs, mons, _ := c07Run(s)
				c.Emit(s, obs, mons, "corpus")
			}
		}
		g := c07NewGen()
		if shard := int(c.Seed % 1000); c.N > 0 && shard < 8 {
			c07Enum(g, shard, func(s c07Scn) {
				obs, mons, _ := c07Run(s)
				c.Emit(s, obs, mons, "enum/"+s.Ops[0].Syncer)
			})
			c07PolicyEnum(shard, func(s c07Scn, cls string) {
				obs, mons, info := c07Run(s)
				if info.ManualThenOther {
					cls += "/manual-then-other"
				}
				c.Emit(s, obs, mons, cls)
			})
			c07WorldEnum(shard, func(s c07Scn, cls string) {
				obs, mons, info := c07Run(s)
				if len(info.Natural) > 0 {
					cls += "/natural=" + strings.Join(c07SortedKeys(info.Natural), "+")
				}
				c.Emit(s, obs, mons, cls+"/"+s.Ops[len(s.Ops)-1].Syncer)
			})
		}
		for i := 0; i < c.N; i++ {
			s, pruned := g.Scenario(c.Rng, c.Tier)
			obs, mons, info := c07Run(s)
			c.Emit(s, obs, mons, c07Cls(s, pruned, info))
		}
	})
	RegisterDump("C07", func() string {
		return "/-- meta.AnnotationKeyExternalName -/\n" +
			"def annotationKeyExternalName : String := " + leanStr(meta.AnnotationKeyExternalName) + "\n" +
			"/-- claim.FieldOwnerXR -/\n" +
			"def fieldOwnerXR : String := " + leanStr(claim.FieldOwnerXR) + "\n"
	})
}

// c07Normalize re-decodes a corpus scenario so that its numbers are int64 like generated ones.
func c07Normalize(s c07Scn) c07Scn {
	b, _ := json.Marshal(s)
	var m any
	d := json.NewDecoder(strings.NewReader(string(b)))
	d.UseNumber()
	_ = d.Decode(&m)
	b2, _ := json.Marshal(convertNumbers(m))
	var out c07Scn
	_ = json.Unmarshal(b2, &out)
	out.Claim.Spec = c07CanonOrNil(out.Claim.Spec)
	out.Claim.Status = c07CanonOrNil(out.Claim.Status)
	if out.Claim.Labels == nil {
		out.Claim.Labels = map[string]string{}
	}
	if out.XR != nil {
		out.XR.Spec = c07CanonOrNil(out.XR.Spec)
		out.XR.Status = c07CanonOrNil(out.XR.Status)
		if out.XR.Labels == nil {
			out.XR.Labels = map[string]string{}
		}
	}
	for i := range out.Peers {
		pe := &out.Peers[i]
		pe.Claim.Spec = c07CanonOrNil(pe.Claim.Spec)
		pe.Claim.Status = c07CanonOrNil(pe.Claim.Status)
		if pe.Claim.Labels == nil {
			pe.Claim.Labels = map[string]string{}
		}
		if pe.XR != nil {
			pe.XR.Spec = c07CanonOrNil(pe.XR.Spec)
			pe.XR.Status = c07CanonOrNil(pe.XR.Status)
			if pe.XR.Labels == nil {
				pe.XR.Labels = map[string]string{}
			}
		}
	}
	return out
}

// c07NamesDistinct: the pairs of a scenario live in one store, so their claims and
// pre-existing XRs must be different objects.
func c07NamesDistinct(s c07Scn) bool {
	cl := map[string]bool{c07NSOf(s.NS) + "/" + s.Claim.Name: true}
	xr := map[string]bool{}
	if s.XR != nil {
		xr[s.XR.Name] = true
	}
	for _, pe := range s.Peers {
		if cl[c07NSOf(pe.NS)+"/"+pe.Claim.Name] || pe.Claim.Name == "" {
			return false
		}
		cl[c07NSOf(pe.NS)+"/"+pe.Claim.Name] = true
		if pe.XR != nil {
			if xr[pe.XR.Name] {
				return false
			}
			xr[pe.XR.Name] = true
		}
	}
	return true
}

// c07PolicyEnum: the compositionRevisionRef clause for every pair of update policies
// served by ONE syncer object. Pair A (main) is bound to an XR whose policy is polA,
// pair B (peer) to an XR whose policy is polB (or B has no XR yet); both claims and both
// XRs carry (or lack) DIFFERENT revision references; the history is
// sync A, sync B, XR controller moves both XRs to a newer revision, sync A, sync B -
// all through the same syncer (ssa, csa) or alternating between the two (mixed).
// 3 syncer modes x 3 x 3 policies x 2 (claim B revision) x 3 (XR B: none / without / with revision) = 162.
func c07PolicyEnum(shard int, emit func(s c07Scn, cls string)) {
	pols := []string{"Manual", "Automatic", ""}
	idx := 0
	for _, mode := range []string{"ssa", "csa", "mixed"} {
		for _, polA := range pols {
			for _, polB := range pols {
				for _, cmRevB := range []bool{true, false} {
					for xrB := 0; xrB < 3; xrB++ {
						idx++
						if idx%8 != shard {
							continue
						}
						mk := func(name, pol string, cmRev bool, xrMode int, tag string) (c07Obj, *c07Obj) {
							xrName := name + "-pe000"
							spec := map[string]any{"region": "cu-" + tag}
							if pol != "" {
								spec["compositionUpdatePolicy"] = pol
							}
							if cmRev {
								spec["compositionRevisionRef"] = map[string]any{"name": "cu-rev-" + tag}
							}
							cm := c07Obj{Name: name, Labels: map[string]string{}, Spec: spec}
							if xrMode == 0 {
								return cm, nil
							}
							spec["resourceRef"] = c07XRRef(xrName)
							xs := map[string]any{"claimRef": c07ClaimRef(name), "region": "cu-" + tag}
							if pol != "" {
								xs["compositionUpdatePolicy"] = pol
							}
							if xrMode == 2 {
								xs["compositionRevisionRef"] = map[string]any{"name": "xs-rev-" + tag}
							}
							x := c07Obj{Name: xrName, Labels: map[string]string{"crossplane.io/composite": xrName,
								"crossplane.io/claim-name": name, "crossplane.io/claim-namespace": c07NS}, Spec: xs}
							return cm, &x
						}
						cmA, xrA := mk(c07ClaimName, polA, true, 2, "a")
						cmB, xrBo := mk("peer1-claim", polB, cmRevB, xrB, "b")
						// mixed: A is synced ssa then csa, B csa then ssa
						syn := func(i int) string {
							if mode == "mixed" {
								return []string{"ssa", "csa"}[i%2]
							}
							return mode
						}
						bump := func(tag string) c07Op {
							return c07Op{Op: "xrCtl", SetSpec: map[string]any{"compositionRevisionRef": map[string]any{"name": "xs-rev2-" + tag}}}
						}
						s := c07Scn{UserKeys: c07UserKeys, UserStat: c07UserStatus, Claim: cmA, XR: xrA,
							Ops: []c07Op{{Op: "sync", Syncer: syn(0), Gen: c07ClaimName + "-pe000"}, bump("a"), {Op: "sync", Syncer: syn(1), Gen: "unused"}},
							Peers: []c07Peer{{Claim: cmB, XR: xrBo,
								Ops: []c07Op{{Op: "sync", Syncer: syn(1), Gen: "peer1-claim-pe000"}, bump("b"), {Op: "sync", Syncer: syn(0), Gen: "unused"}}}},
							Sched: []int{0, 1, 0, 1, 0, 1}}
						b, _ := json.Marshal(s)
						var back c07Scn
						_ = json.Unmarshal(b, &back)
						emit(c07Normalize(back), "policy-enum")
					}
				}
			}
		}
	}
}

func c07CanonOrNil(v any) any {
	if v == nil {
		return nil
	}
	return c07Canon(v)
}

func c07SortedKeys[T any](m map[string]T) []string {
	ks := make([]string, 0, len(m))
	for k := range m {
		ks = append(ks, k)
	}
	sort.Strings(ks)
	return ks
}

//go:build verif

package main

// C10: the CompositionRevision handed to Compose is built the way the API server delivers it -
// the revision assembled from the scenario is marshalled to JSON and decoded into a fresh
// v1.CompositionRevision, so that every slice has the decoder's length AND CAPACITY (a slice
// decoded from JSON has spare capacity for 3, 5-7, 9-15 ... elements) - and a monitor that the
// revision is not written to: C10:revision-mutated compares the whole object and, beyond what
// DeepEqual sees, the spare capacity of every patch list (a write through an alias of a patch
// set's slice lands there first).

import (
	"bytes"
	"encoding/json"
	"fmt"
	"reflect"

	v1 "github.com/crossplane/crossplane/apis/apiextensions/v1"
)

// c10EmptyRaw: some extv1.JSON of the revision has zero bytes that are not nil, or is the JSON
// text `null` - values the decoder delivers as absent.
func c10EmptyRaw(rev *v1.CompositionRevision) bool {
	found := false
	lost := func(raw []byte) bool {
		return raw != nil && (len(raw) == 0 || string(bytes.TrimSpace(raw)) == "null")
	}
	each := func(ps []v1.Patch) {
		for _, p := range ps {
			for _, t := range p.Transforms {
				if t.Map != nil {
					for _, v := range t.Map.Pairs {
						found = found || lost(v.Raw)
					}
				}
				if t.Match != nil {
					found = found || lost(t.Match.FallbackValue.Raw)
					for _, mp := range t.Match.Patterns {
						found = found || lost(mp.Result.Raw)
					}
				}
			}
		}
	}
	for _, s := range rev.Spec.PatchSets {
		each(s.Patches)
	}
	for _, r := range rev.Spec.Resources {
		each(r.Patches)
	}
	return found
}

// c10WireRevision returns the revision as decoded from its own JSON. Revisions that JSON cannot
// carry faithfully (an unparsable base or transform value, zero-byte raws) are used as built.
func c10WireRevision(rev *v1.CompositionRevision) *v1.CompositionRevision {
	if c10EmptyRaw(rev) {
		return rev
	}
	b, err := json.Marshal(rev)
	if err != nil {
		return rev
	}
	out := &v1.CompositionRevision{}
	if err := json.Unmarshal(b, out); err != nil {
		return rev
	}
	b2, err := json.Marshal(out)
	if err != nil || !bytes.Equal(b, b2) {
		return rev
	}
	return out
}

// c10RevSnapshot is a deep copy of the revision together with the full-capacity content of its
// patch lists.
type c10RevSnapshot struct {
	rev   *v1.CompositionRevision
	spare [][]v1.Patch
}

func c10PatchLists(rev *v1.CompositionRevision) [][]v1.Patch {
	var out [][]v1.Patch
	for i := range rev.Spec.PatchSets {
		out = append(out, rev.Spec.PatchSets[i].Patches)
	}
	for i := range rev.Spec.Resources {
		out = append(out, rev.Spec.Resources[i].Patches)
	}
	return out
}

func c10SnapshotRevision(rev *v1.CompositionRevision) *c10RevSnapshot {
	s := &c10RevSnapshot{rev: rev.DeepCopy()}
	for _, l := range c10PatchLists(rev) {
		full := l[:cap(l)]
		cp := make([]v1.Patch, len(full))
		for i := range full {
			cp[i] = *full[i].DeepCopy()
		}
		s.spare = append(s.spare, cp)
	}
	return s
}

// c10RevisionMutated: "" or what differs.
func c10RevisionMutated(before *c10RevSnapshot, rev *v1.CompositionRevision) string {
	if !reflect.DeepEqual(before.rev, rev) {
		return "the revision differs from what was passed in"
	}
	lists := c10PatchLists(rev)
	if len(lists) != len(before.spare) {
		return "the number of patch lists changed"
	}
	for k, l := range lists {
		full := l[:cap(l)]
		if len(full) != len(before.spare[k]) {
			return fmt.Sprintf("patch list %d was reallocated", k)
		}
		for i := range full {
			if !reflect.DeepEqual(full[i], before.spare[k][i]) {
				return fmt.Sprintf("element %d of patch list %d (length %d, capacity %d) was written", i, k, len(l), cap(l))
			}
		}
	}
	return ""
}

//go:build verif

package main

// C19 world: the ONE client every long-lived object of a scenario talks through.
//
// In production `usage.Setup` builds one Reconciler and `SetupWebhookWithManager` one Handler
// per process, both over `mgr.GetClient()`: typed objects (Usage, UsageList) are read through
// the informer cache, unstructured objects (used/using resources, the selector's List) and all
// writes go to the API server. c19Client realises that client over simstore:
//
//   - it finds the reconcile a call belongs to through the context (one Reconciler serves all
//     reconciles of a scenario), parks the call until the schedule releases it, and applies the
//     step's directives: outcome, ERROR CLASS of an injected failure, and the informer-cache VIEW
//     (how many events the cache lags behind) cached reads are answered from;
//   - calls without a reconcile in the context are the webhook handler's (directives from the
//     current delete request).
//
// The cache is one monotone pointer into the history of the Usage collection (one snapshot per
// scenario event): a read with lag v is answered from the snapshot v events back, but never from
// an older one than any earlier read saw.

import (
	"context"
	"errors"
	"fmt"
	"net"
	"strings"

	kerrors "k8s.io/apimachinery/pkg/api/errors"
	kmeta "k8s.io/apimachinery/pkg/api/meta"
	metav1 "k8s.io/apimachinery/pkg/apis/meta/v1"
	"k8s.io/apimachinery/pkg/apis/meta/v1/unstructured"
	"k8s.io/apimachinery/pkg/runtime"
	"k8s.io/apimachinery/pkg/runtime/schema"
	"k8s.io/apimachinery/pkg/types"
	"k8s.io/apimachinery/pkg/util/validation/field"
	"sigs.k8s.io/controller-runtime/pkg/client"

	"github.com/crossplane/crossplane/apis/apiextensions/v1beta1"
)

type c19ThreadKey struct{}

// c19Call: how one API call is answered.
type c19Call struct {
	O string // outcome: ok fail conflict crashBefore crashAfter
	E string // error class of an injected failure (O == "fail"); "" = internal server error
	V int    // cached reads: events the informer cache lags behind (0 = fresh)
}

// error classes an injected failure may carry; what the model distinguishes is c19Canon(class)
var c19ErrClasses = []string{"forbidden", "timeout", "unavailable", "transport", "deadline", "invalid", "alreadyExists", "notFound", "noKindMatch", "noResourceMatch", "tooManyRequests"}

type c19TransportErr struct{}

func (c19TransportErr) Error() string   { return "dial tcp 10.96.0.1:443: connect: connection refused" }
func (c19TransportErr) Timeout() bool   { return false }
func (c19TransportErr) Temporary() bool { return true }

var _ net.Error = c19TransportErr{}

func c19ErrOf(class, gk, name string) error {
	gr := schema.GroupResource{Resource: strings.ToLower(gk)}
	switch class {
	case "notFound":
		return kerrors.NewNotFound(gr, name)
	case "alreadyExists":
		return kerrors.NewAlreadyExists(gr, name)
	case "conflict":
		return kerrors.NewConflict(gr, name, errors.New("the object has been modified; please apply your changes to the latest version and try again"))
	case "invalid":
		return kerrors.NewInvalid(schema.GroupKind{Kind: gk}, name, field.ErrorList{field.Invalid(field.NewPath("metadata", "labels"), "x", "injected")})
	case "forbidden":
		return kerrors.NewForbidden(gr, name, errors.New("RBAC: denied"))
	case "timeout":
		return kerrors.NewTimeoutError("request did not complete within the allotted time", 1)
	case "unavailable":
		return kerrors.NewServiceUnavailable("the server is currently unable to handle the request")
	case "noKindMatch":
		// a (lazy) RESTMapper / discovery that does not know the kind yet
		return &kmeta.NoKindMatchError{GroupKind: schema.GroupKind{Group: v1beta1.Group, Kind: gk}, SearchedVersions: []string{"v1beta1"}}
	case "noResourceMatch":
		return &kmeta.NoResourceMatchError{PartialResource: schema.GroupVersionResource{Group: v1beta1.Group, Resource: strings.ToLower(gk) + "s"}}
	case "tooManyRequests":
		return kerrors.NewTooManyRequests("the server has received too many requests", 1)
	case "transport":
		return c19TransportErr{}
	case "deadline":
		return fmt.Errorf("Get %q: %w", "https://10.96.0.1:443/apis", context.DeadlineExceeded)
	}
	return kerrors.NewInternalError(errors.New("etcdserver: leader changed"))
}

// c19Canon: the classes the model names (everything else is "other").
func c19Canon(class string) string {
	switch class {
	case "ok", "notFound", "conflict", "alreadyExists", "invalid", "crashed":
		return class
	}
	return "other"
}

func c19RetOf(err error) string {
	if err == nil {
		return "ok"
	}
	return c19Canon(errClass(err))
}

type c19Client struct {
	*Store
	s *c19Sys
}

func (c *c19Client) thread(ctx context.Context) *c19Thread {
	t, _ := ctx.Value(c19ThreadKey{}).(*c19Thread)
	return t
}

// enter parks a reconcile's call until the schedule releases it and returns the directives.
func (c *c19Client) enter(ctx context.Context) (*c19Thread, c19Call) {
	t := c.thread(ctx)
	if t == nil {
		return nil, c.s.hookCall
	}
	if !c.Store.Crashed() {
		t.parked <- struct{}{}
		<-t.release
	}
	t.calls++
	return t, t.cur
}

// leave substitutes the error class and records what the caller was told.
func (c *c19Client) leave(t *c19Thread, call c19Call, gk, name string, err error) error {
	if t == nil {
		// the webhook's directives are chosen per call by the request's fault plan, which the store
		// consults inside the call
		call.O, call.E = c.s.hookCall.O, c.s.hookCall.E
	}
	if err != nil && err != ErrCrashed && kerrors.IsInternalError(err) && call.E != "" && call.O == "fail" {
		err = c19ErrOf(call.E, gk, name)
	}
	if t != nil {
		t.ret = c19RetOf(err)
	} else {
		c.s.hookRets = append(c.s.hookRets, c19RetOf(err))
	}
	return err
}

// storageVersion makes an update through another API version of the same
// group/kind keep the stored apiVersion (simstore would otherwise record the
// version change as a content change, which a real API server does not).
func (c *c19Client) storageVersion(obj client.Object) func() {
	u, ok := obj.(*unstructured.Unstructured)
	if !ok {
		return func() {}
	}
	cur := c.Store.Peek(u.GroupVersionKind().GroupKind(), u.GetNamespace(), u.GetName())
	if cur == nil || cur.GetAPIVersion() == u.GetAPIVersion() {
		return func() {}
	}
	av := u.GetAPIVersion()
	u.SetAPIVersion(cur.GetAPIVersion())
	return func() { u.SetAPIVersion(av) }
}

func (c *c19Client) Get(ctx context.Context, key client.ObjectKey, obj client.Object, opts ...client.GetOption) error {
	t, call := c.enter(ctx)
	u, cached := obj.(*v1beta1.Usage)
	if !cached {
		err := c.Store.Get(ctx, key, obj, opts...)
		if t != nil && err == nil {
			if o, ok := obj.(*unstructured.Unstructured); ok {
				t.gotAt[c19ResKey(o.GroupVersionKind().Group, o.GetKind(), o.GetName())] = t.calls
			}
		}
		return c.leave(t, call, obj.GetObjectKind().GroupVersionKind().Kind, key.Name, err)
	}
	// typed: served by the informer cache. The call is made on the store (log, fault plan) and
	// its answer replaced by the cache's.
	live := &v1beta1.Usage{}
	err := c.Store.Get(ctx, key, live, opts...)
	if err != nil && !kerrors.IsNotFound(err) {
		return c.leave(t, call, v1beta1.UsageKind, key.Name, err)
	}
	view, lagging := c.s.view(call.V)
	if t != nil {
		t.freshGet = !lagging
	}
	for _, x := range view {
		if x.GetName() == key.Name {
			if e := runtime.DefaultUnstructuredConverter.FromUnstructured(x.DeepCopy().Object, u); e != nil {
				return c.leave(t, call, v1beta1.UsageKind, key.Name, e)
			}
			u.TypeMeta = metav1.TypeMeta{}
			if t != nil {
				t.servedUID = u.UID
				t.servedDeleting = u.DeletionTimestamp != nil
			}
			return c.leave(t, call, v1beta1.UsageKind, key.Name, nil)
		}
	}
	return c.leave(t, call, v1beta1.UsageKind, key.Name, kerrors.NewNotFound(schema.GroupResource{Group: v1beta1.Group, Resource: "usages"}, key.Name))
}

func (c *c19Client) List(ctx context.Context, list client.ObjectList, opts ...client.ListOption) error {
	t, call := c.enter(ctx)
	ul, cached := list.(*v1beta1.UsageList)
	if !cached {
		err := c.Store.List(ctx, list, opts...)
		return c.leave(t, call, list.GetObjectKind().GroupVersionKind().Kind, "", err)
	}
	live := &v1beta1.UsageList{}
	if err := c.Store.List(ctx, live, opts...); err != nil {
		return c.leave(t, call, v1beta1.UsageKind, "", err)
	}
	view, lagging := c.s.view(call.V)
	lo := &client.ListOptions{}
	for _, o := range opts {
		o.ApplyToList(lo)
	}
	ul.Items = nil
	served := map[string]bool{}
	// expect: what an index keyed by (group, kind, name) of spec.of holds for the cache's view,
	// computed by the harness's own rule (not by the registered index function)
	expect := map[string]bool{}
	for _, x := range view {
		if lo.FieldSelector != nil && !lo.FieldSelector.Empty() {
			y := &v1beta1.Usage{}
			if e := runtime.DefaultUnstructuredConverter.FromUnstructured(x.Object, y); e == nil && y.Spec.Of.ResourceRef != nil && y.Spec.Of.ResourceRef.Name != "" {
				for _, r := range lo.FieldSelector.Requirements() {
					if c19Group(y.Spec.Of.APIVersion)+"."+y.Spec.Of.Kind+"."+y.Spec.Of.ResourceRef.Name == r.Value {
						expect[y.Name] = true
					}
				}
			}
		} else {
			expect[x.GetName()] = true
		}
	}
	for _, x := range view {
		ok := true
		if lo.FieldSelector != nil && !lo.FieldSelector.Empty() {
			for _, r := range lo.FieldSelector.Requirements() {
				if r.Field != c.s.wire.idx.field || c.s.wire.idx.fn == nil {
					ok = false
					continue
				}
				y := &v1beta1.Usage{}
				if e := runtime.DefaultUnstructuredConverter.FromUnstructured(x.Object, y); e != nil {
					ok = false
					continue
				}
				hit := false
				for _, v := range c.s.wire.idx.fn(y) {
					if v == r.Value {
						hit = true
					}
				}
				if !hit {
					ok = false
				}
			}
		}
		if !ok {
			continue
		}
		y := v1beta1.Usage{}
		if e := runtime.DefaultUnstructuredConverter.FromUnstructured(x.DeepCopy().Object, &y); e != nil {
			continue
		}
		y.TypeMeta = metav1.TypeMeta{}
		ul.Items = append(ul.Items, y)
		served[y.Name] = true
	}
	liveNames := map[string]bool{}
	for _, y := range live.Items {
		liveNames[y.Name] = true
	}
	// the answer differs from the live one BECAUSE the cache lags: the cache's view, indexed by
	// (group, kind, name), explains what was served (a served list that differs from that is the
	// index function's / the handler's doing, not the lag's)
	byLag := lagging && !c19SameSet(served, liveNames) && c19SameSet(served, expect)
	if t != nil {
		t.served, t.listLagging = served, byLag
	} else {
		c.s.hookServed, c.s.hookLive, c.s.hookLagging = served, liveNames, byLag
	}
	return c.leave(t, call, v1beta1.UsageKind, "", nil)
}

func c19SameSet(a, b map[string]bool) bool {
	if len(a) != len(b) {
		return false
	}
	for k := range a {
		if !b[k] {
			return false
		}
	}
	return true
}

func (c *c19Client) Create(ctx context.Context, obj client.Object, opts ...client.CreateOption) error {
	t, call := c.enter(ctx)
	return c.leave(t, call, obj.GetObjectKind().GroupVersionKind().Kind, obj.GetName(), c.Store.Create(ctx, obj, opts...))
}

func (c *c19Client) Update(ctx context.Context, obj client.Object, opts ...client.UpdateOption) error {
	t, call := c.enter(ctx)
	defer c.storageVersion(obj)()
	return c.leave(t, call, obj.GetObjectKind().GroupVersionKind().Kind, obj.GetName(), c.Store.Update(ctx, obj, opts...))
}

func (c *c19Client) Patch(ctx context.Context, obj client.Object, p client.Patch, opts ...client.PatchOption) error {
	t, call := c.enter(ctx)
	return c.leave(t, call, obj.GetObjectKind().GroupVersionKind().Kind, obj.GetName(), c.Store.Patch(ctx, obj, p, opts...))
}

func (c *c19Client) Delete(ctx context.Context, obj client.Object, opts ...client.DeleteOption) error {
	t, call := c.enter(ctx)
	return c.leave(t, call, obj.GetObjectKind().GroupVersionKind().Kind, obj.GetName(), c.Store.Delete(ctx, obj, opts...))
}

func (c *c19Client) DeleteAllOf(ctx context.Context, obj client.Object, opts ...client.DeleteAllOfOption) error {
	t, call := c.enter(ctx)
	return c.leave(t, call, obj.GetObjectKind().GroupVersionKind().Kind, "", c.Store.DeleteAllOf(ctx, obj, opts...))
}

type c19Sub struct {
	c *c19Client
	w client.SubResourceWriter
}

func (s c19Sub) Create(ctx context.Context, obj client.Object, sub client.Object, opts ...client.SubResourceCreateOption) error {
	t, call := s.c.enter(ctx)
	return s.c.leave(t, call, obj.GetObjectKind().GroupVersionKind().Kind, obj.GetName(), s.w.Create(ctx, obj, sub, opts...))
}

func (s c19Sub) Update(ctx context.Context, obj client.Object, opts ...client.SubResourceUpdateOption) error {
	t, call := s.c.enter(ctx)
	return s.c.leave(t, call, obj.GetObjectKind().GroupVersionKind().Kind, obj.GetName(), s.w.Update(ctx, obj, opts...))
}

func (s c19Sub) Patch(ctx context.Context, obj client.Object, p client.Patch, opts ...client.SubResourcePatchOption) error {
	t, call := s.c.enter(ctx)
	return s.c.leave(t, call, obj.GetObjectKind().GroupVersionKind().Kind, obj.GetName(), s.w.Patch(ctx, obj, p, opts...))
}

func (c *c19Client) Status() client.SubResourceWriter { return c19Sub{c, c.Store.Status()} }

// ---------------------------------------------------------------- the informer cache

// record appends the current Usage collection to the history (one entry per scenario event).
func (s *c19Sys) record() {
	s.hist = append(s.hist, s.st.OfKind(c19UsageGK))
}

// view returns the Usage collection the informer cache holds for a read lagging v events
// behind, never older than what an earlier read was served; lagging = not the latest entry.
func (s *c19Sys) view(v int) ([]*unstructured.Unstructured, bool) {
	last := len(s.hist) - 1
	i := last - v
	if v <= 0 {
		i = last
	}
	if i < s.cpos {
		i = s.cpos
	}
	if i < 0 {
		i = 0
	}
	s.cpos = i
	return s.hist[i], i != last
}

// ---------------------------------------------------------------- the XR composer's client

// c19VersionPatch keeps the stored apiVersion when a merge patch arrives through another served
// version of the kind (a real API server converts; simstore would store the version change).
type c19VersionPatch struct {
	p  client.Patch
	av string
}

func (p c19VersionPatch) Type() types.PatchType { return p.p.Type() }

func (p c19VersionPatch) Data(obj client.Object) ([]byte, error) {
	b, err := p.p.Data(obj)
	if err != nil || p.av == "" {
		return b, err
	}
	m := map[string]any{}
	if e := jsonUnmarshalStrict(b, &m); e != nil {
		return b, nil
	}
	if _, ok := m["apiVersion"]; ok {
		m["apiVersion"] = p.av
	}
	return []byte(mustJSON(m)), nil
}

// c19ComposerClient: the client of the XR composer (reads answered in the requested version).
type c19ComposerClient struct{ *Store }

func (c c19ComposerClient) Patch(ctx context.Context, obj client.Object, p client.Patch, opts ...client.PatchOption) error {
	av := ""
	if u, ok := obj.(*unstructured.Unstructured); ok {
		if cur := c.Store.Peek(u.GroupVersionKind().GroupKind(), u.GetNamespace(), u.GetName()); cur != nil {
			av = cur.GetAPIVersion()
		}
	}
	return c.Store.Patch(ctx, obj, c19VersionPatch{p: p, av: av}, opts...)
}

//go:build verif

package main

// C18 generators, the exhaustive small scope of the thorough tier, and the table dump.

import (
	"fmt"
	"sort"
	"strings"

	rbacv1 "k8s.io/api/rbac/v1"
	"k8s.io/apiextensions-apiserver/pkg/apis/apiextensions"

	pkgv1 "github.com/crossplane/crossplane/apis/pkg/v1"
	"github.com/crossplane/crossplane/internal/controller/rbac/definition"
	"github.com/crossplane/crossplane/internal/controller/rbac/provider/roles"
)

var c18Syms = []string{"a", "b", "c"}

func c18PickList(r *Rng, pool []string, max int) []string {
	n := r.Intn(max + 1)
	out := []string{}
	for i := 0; i < n; i++ {
		out = append(out, Pick(r, pool))
	}
	return out
}

// c18GenRule draws one PolicyRule. style: 0 resource rule, 1 URL rule, 2 mixed/malformed.
func c18GenRule(r *Rng, exotic bool) c18PRule {
	base := []string{"a", "b", "c", "a", "b", "*"}
	res := base
	names := []string{"a", "b", "c", "a", "b"}
	urls := base
	if exotic {
		// values that are a proper prefix / extension of each other or differ in case only
		base = append(append([]string{}, base...), "ab", "A")
		res = append(append([]string{}, base...), "a/status", "*/status", "b/finalizers", "*/finalizers", "")
		names = append(append([]string{}, names...), "*", "", "ab", "A")
		urls = append(append([]string{}, base...), "a*", "/a/*", "/a/b", "/a", "/a/", "")
	}
	p := c18PRule{V: []string{}, G: []string{}, R: []string{}, N: []string{}, U: []string{}}
	style := 0
	switch x := r.Intn(10); {
	case x < 6:
		style = 0
	case x < 8:
		style = 1
	default:
		style = 2
	}
	max := 2
	if r.Chance(1, 8) {
		max = 3
	}
	p.V = c18PickList(r, base, max)
	if len(p.V) == 0 && r.Chance(3, 4) {
		p.V = []string{Pick(r, base)}
	}
	if style == 0 || style == 2 {
		p.G = c18PickList(r, base, max)
		p.R = c18PickList(r, res, max)
		if style == 0 {
			if len(p.G) == 0 {
				p.G = []string{Pick(r, base)}
			}
			if len(p.R) == 0 {
				p.R = []string{Pick(r, res)}
			}
		}
		if r.Chance(1, 2) {
			p.N = c18PickList(r, names, max)
		}
	}
	if style == 1 || style == 2 {
		p.U = c18PickList(r, urls, max)
		if style == 1 && len(p.U) == 0 {
			p.U = []string{Pick(r, urls)}
		}
	}
	return p
}

func c18GenRules(r *Rng, max int, exotic bool) []c18PRule {
	n := r.Intn(max + 1)
	out := []c18PRule{}
	for i := 0; i < n; i++ {
		out = append(out, c18GenRule(r, exotic))
	}
	return out
}

// c18Widen returns an allow rule derived from a request so that grants are frequent:
// copies the request and widens some fields to the wildcard / drops the names.
func c18Widen(r *Rng, q c18PRule) c18PRule {
	w := func(xs []string) []string {
		if len(xs) > 0 && r.Chance(1, 3) {
			return []string{"*"}
		}
		return append([]string{}, xs...)
	}
	a := c18PRule{V: w(q.V), G: w(q.G), R: w(q.R), N: append([]string{}, q.N...), U: w(q.U)}
	if len(a.N) > 0 && r.Chance(1, 3) {
		a.N = []string{}
	}
	if len(a.N) > 0 && r.Chance(1, 4) {
		a.N = append(a.N, Pick(r, c18Syms))
	}
	return a
}

// c18GenColliding draws a request list holding two DIFFERENT granular rules whose tree paths
// become the same string under a careless join of the path elements (separator "/", ".", ":",
// ",", "|" or none at all): RBAC resources contain "/" (subresources), resource names and URLs are
// arbitrary strings. The allow list covers one of the two (mostly the one requested first),
// both, or neither: "every single requested rule is covered" must be judged rule by rule.
//
//	shift resource|name   {g, x, [y<sep>*], v}      vs  {g, x<sep>y, [] (= all names), v}
//	shift group|resource  {a, b<sep>c, n, v}        vs  {a<sep>b, c, n, v}
//	shift name|verb       {g, x, [n<sep>w], v}      vs  {g, x, [n], w<sep>v}
//	shift url|verb        {url /a<sep>b, verb c}    vs  {url /a, verb b<sep>c}
func c18GenColliding(r *Rng) (reqs, allow []c18PRule) {
	sep := Pick(r, []string{"/", "/", "/", "/", ".", ":", ",", "|", ""})
	g, x, y, v := Pick(r, []string{"", "a", "apps"}), Pick(r, []string{"pods", "a", "b"}), Pick(r, []string{"exec", "status", "b", "c"}), Pick(r, []string{"create", "get", "a", "*"})
	var a, b c18PRule
	e := []string{}
	switch r.Intn(5) {
	case 0, 1:
		a = c18PRule{V: []string{v}, G: []string{g}, R: []string{x}, N: []string{y + sep + "*"}, U: e}
		b = c18PRule{V: []string{v}, G: []string{g}, R: []string{x + sep + y}, N: e, U: e}
	case 2:
		n := c18PickList(r, []string{"n", "*"}, 1)
		a = c18PRule{V: []string{v}, G: []string{"a"}, R: []string{x + sep + y}, N: n, U: e}
		b = c18PRule{V: []string{v}, G: []string{"a" + sep + x}, R: []string{y}, N: n, U: e}
	case 3:
		a = c18PRule{V: []string{v}, G: []string{g}, R: []string{x}, N: []string{"n" + sep + y}, U: e}
		b = c18PRule{V: []string{y + sep + v}, G: []string{g}, R: []string{x}, N: []string{"n"}, U: e}
	default:
		a = c18PRule{V: []string{v}, G: e, R: e, N: e, U: []string{"/" + x + sep + y}}
		b = c18PRule{V: []string{y + sep + v}, G: e, R: e, N: e, U: []string{"/" + x}}
	}
	if r.Bool() {
		a, b = b, a
	}
	reqs = []c18PRule{a}
	if r.Chance(1, 3) {
		reqs = append(reqs, c18GenRule(r, false))
	}
	reqs = append(reqs, b)
	switch x := r.Intn(8); {
	case x < 4: // the first one only
		allow = []c18PRule{a}
	case x < 5:
		allow = []c18PRule{b}
	case x < 6:
		allow = []c18PRule{a, b}
	case x < 7:
		allow = []c18PRule{c18Widen(r, a)}
	default:
		allow = []c18PRule{}
	}
	if len(reqs) == 3 && r.Chance(2, 3) {
		allow = append(allow, c18Widen(r, reqs[1]))
	}
	return reqs, allow
}

func c18GenValidate(r *Rng) c18Scn {
	exotic := r.Chance(1, 4)
	s := c18Scn{Kind: "validate", Validator: "role"}
	s.Requests = c18GenRules(r, 3, exotic)
	if len(s.Requests) == 0 && r.Chance(9, 10) {
		s.Requests = []c18PRule{c18GenRule(r, exotic)}
	}
	if r.Chance(1, 10) {
		s.Requests, s.Allow = c18GenColliding(r)
		if r.Chance(1, 4) {
			s.Pre = c18GenPre(r, s.Allow, s.Requests, exotic)
		}
		return s
	}
	switch r.Intn(4) {
	case 0: // unrelated allow list
		s.Allow = c18GenRules(r, 4, exotic)
	case 1, 2: // allow list derived from the requests (mostly granted)
		for _, q := range s.Requests {
			if r.Chance(5, 6) {
				s.Allow = append(s.Allow, c18Widen(r, q))
			}
		}
		s.Allow = append(s.Allow, c18GenRules(r, 1, exotic)...)
	default: // a mix
		s.Allow = c18GenRules(r, 2, exotic)
		for _, q := range s.Requests {
			if r.Bool() {
				s.Allow = append(s.Allow, c18Widen(r, q))
			}
		}
	}
	if r.Chance(2, 5) {
		s.Pre = c18GenPre(r, s.Allow, s.Requests, exotic)
	}
	if r.Chance(1, 12) {
		s.Validator = "none" // VerySecureValidator: no allow-list configured
	}
	if r.Chance(1, 10) {
		s.Ctx = "done"
	}
	p := r.Perm(len(s.Allow))
	sh := make([]c18PRule, len(s.Allow))
	for i, j := range p {
		sh[i] = s.Allow[j]
	}
	s.Allow = sh
	return s
}

// c18GenEarlier is an earlier content of the allow-list: wider than the current one (it covered
// the requests), the requests themselves, the current one with ONE rule edited in place (same
// number of rules), narrower, or unrelated.
func c18GenEarlier(r *Rng, allow, reqs []c18PRule) []c18PRule {
	w := []c18PRule{}
	switch r.Intn(6) {
	case 0, 1:
		w = append(w, allow...)
		for _, q := range reqs {
			w = append(w, c18Widen(r, q))
		}
	case 2:
		for _, q := range reqs {
			w = append(w, q)
		}
	case 3: // same length, one rule replaced by a widened request
		w = append(w, allow...)
		if len(w) > 0 && len(reqs) > 0 {
			w[r.Intn(len(w))] = c18Widen(r, Pick(r, reqs))
		} else {
			for _, q := range reqs {
				w = append(w, c18Widen(r, q))
			}
		}
	case 4: // narrower
		for _, a := range allow {
			if r.Bool() {
				w = append(w, a)
			}
		}
	default:
		w = c18GenRules(r, 2, false)
	}
	return w
}

// c18GenPre: 1-3 earlier validations by the same validator: the same or other requests, against
// earlier contents of the role; the role gone in between; deleted and re-created.
func c18GenPre(r *Rng, allow, reqs []c18PRule, exotic bool) []c18VStep {
	out := []c18VStep{}
	for i, n := 0, 1+r.Intn(3); i < n; i++ {
		st := c18VStep{Requests: reqs}
		if r.Chance(1, 3) { // another revision's requests
			st.Requests = c18GenRules(r, 2, exotic)
			if r.Bool() {
				st.Requests = append(st.Requests, reqs...)
			}
		}
		switch x := r.Intn(10); {
		case x < 1:
			st.Gone = true
			st.Allow = []c18PRule{}
		case x < 3:
			st.Allow = append([]c18PRule{}, allow...) // same content: only the requests differ
		default:
			st.Allow = c18GenEarlier(r, allow, st.Requests)
		}
		st.Recreate = r.Chance(1, 5)
		out = append(out, st)
	}
	return out
}

// ---------------------------------------------------------------- reconcile scenarios

var c18Pkgs = []string{
	"xpkg.upbound.io/acme/provider-a:v1.0.0",
	"xpkg.upbound.io/acme/provider-a:v1.0.0",
	"acme/provider-b:v1.2.3", // default registry => same org as above
	"xpkg.upbound.io/acme/provider-c@sha256:aaaaaaaaaaaaaaaaaaaaaaaaaaaaaaaaaaaaaaaaaaaaaaaaaaaaaaaaaaaaaaaa",
	"xpkg.upbound.io/acme/nested/provider-d:v1",
	"xpkg.upbound.io/evil/provider-a:v1.0.0",
	"index.docker.io/acme/provider-a:v1.0.0",
	"registry.example.org/acme/provider-a:v1.0.0",
	"xpkg.upbound.io/acme-evil/provider-a:v1.0.0",
	"acme", // no org segment: the repository itself
	"UPPER/Case:bad",
	"",
	"xpkg.upbound.io/acm/provider-a:v1.0.0",            // the org is a proper prefix of the family's org
	"xpkg.upbound.io.evil.example/acme/provider-a:v1",  // the registry has the family's registry as a prefix
	"xpkg.upbound.io:443/acme/provider-a:v1.0.0",       // same host, explicit port: another registry string
	"xpkg.upbound.io/acme/provider-a",                  // untagged
	"xpkg.upbound.io/evil/acme/provider-a:v1.0.0",      // the family's org as SECOND path segment
	"acme/",                                            // trailing separator: unparsable
}

func init() {
	for _, g := range c18RootPkgs {
		c18Pkgs = append(c18Pkgs, g[0], g[1])
	}
}

// c18RootPkgs: packages WITHOUT an organisation segment (the repository is a single path
// element), per registry: a registry with a port, ghcr.io, and the (non Docker Hub) default
// registry a bare name gets. Two DIFFERENT root-level repositories of one registry share no
// organisation (OrgDiffer takes the first path element of the repository: the repository
// itself); two references to the SAME repository do. Each group also has a nested path and
// an ordinary org/package reference of the same registry.
var c18RootPkgs = [][]string{
	{"registry.internal:5000/provider-aws:v1.0.0", "registry.internal:5000/provider-gcp:v1.0.0", "registry.internal:5000/provider-aws:v2.0.0",
		"registry.internal:5000/team/provider-aws:v1.0.0", "registry.internal:5000/team/platform/provider-gcp:v1.0.0", "registry.internal/provider-aws:v1.0.0"},
	{"ghcr.io/provider-x:v1", "ghcr.io/provider-y:v1", "ghcr.io/provider-x@sha256:bbbbbbbbbbbbbbbbbbbbbbbbbbbbbbbbbbbbbbbbbbbbbbbbbbbbbbbbbbbbbbbb",
		"ghcr.io/provider-x/provider-y:v1", "ghcr.io/acme/platform/provider-x:v1", "ghcr.io/acme/provider-y:v1"},
	{"provider-bare:v1", "other-bare:v1", "acme", "provider-bare", "xpkg.upbound.io/provider-bare:v2", "provider-bare/provider-sub:v1"},
}

// family labels: equal, a proper prefix / extension of each other, differing in case only
var c18Families = []string{"fam-a", "fam-a", "fam-a", "fam-a", "fam-a", "fam-b", "fam-ab", "fam", "Fam-A", ""}


var c18RefPool = []c18Ref{
	{"apiextensions.k8s.io/v1", "CustomResourceDefinition", "widgets.acme.example.org"},
	{"apiextensions.k8s.io/v1", "CustomResourceDefinition", "gadgets.acme.example.org"},
	{"apiextensions.k8s.io/v1", "CustomResourceDefinition", "things.b.c"},
	{"apiextensions.k8s.io/v1beta1", "CustomResourceDefinition", "a.b"},
	{"apiextensions.k8s.io/v1", "CustomResourceDefinition", "ab.c"},
	{"apiextensions.k8s.io/v1", "CustomResourceDefinition", "a.bc"},
	{"apiextensions.k8s.io/v1", "CustomResourceDefinition", "providerconfigs.acme.example.org"},
	{"apps/v1", "Deployment", "widgets.acme.example.org"},
	{"v1", "CustomResourceDefinition", "widgets.acme.example.org"},
	{"apiextensions.k8s.io/v1/extra", "CustomResourceDefinition", "widgets.acme.example.org"},
	{"apiextensions.k8s.io/v1", "CustomResourceDefinition", "nodot"},
	{"apiextensions.k8s.io/v1", "CustomResourceDefinition", ".leading"},
	{"apiextensions.k8s.io/v1", "CustomResourceDefinition", "trailing."},
	{"", "CustomResourceDefinition", "widgets.acme.example.org"},
	{"apiextensions.k8s.io/v1", "customresourcedefinition", "widgets.acme.example.org"},
	{"/", "CustomResourceDefinition", "widgets.acme.example.org"},
	{"apiextensions.k8s.io/", "CustomResourceDefinition", "slash.acme.example.org"},
	{"apiextensions.k8s.io.evil/v1", "CustomResourceDefinition", "evilgroup.acme.example.org"},
	{"apiextensions.crossplane.io/v1", "CustomResourceDefinition", "xpgroup.acme.example.org"},
	{"ApiExtensions.k8s.io/v1", "CustomResourceDefinition", "casegroup.acme.example.org"},
	{"apiextensions.k8s.io/v1", "CustomResourceDefinitionList", "listkind.acme.example.org"},
	{"extensions.k8s.io/v1", "CustomResourceDefinition", "suffixgroup.acme.example.org"},
}

func c18GenRefs(r *Rng, max int, own string) []c18Ref {
	out := []c18Ref{}
	for i, n := 0, r.Intn(max+1); i < n; i++ {
		if own != "" && r.Chance(2, 3) {
			out = append(out, c18Ref{"apiextensions.k8s.io/v1", "CustomResourceDefinition", Pick(r, []string{"widgets", "gadgets", "secretthings"}) + "." + own})
		} else if r.Chance(2, 3) {
			out = append(out, c18RefPool[r.Intn(7)])
		} else {
			out = append(out, Pick(r, c18RefPool))
		}
	}
	return out
}

func c18GenPreRole(r *Rng, name, uid string) c18Role {
	role := c18Role{Name: name, Labels: []c18KV{}, Rules: c18GenRules(r, 2, false)}
	switch r.Intn(4) {
	case 0, 1:
		role.Ctrl = uid
	case 2:
		role.Ctrl = ""
	default:
		role.Ctrl = "uid-other"
	}
	if r.Bool() {
		role.Labels = append(role.Labels, c18KV{"rbac.crossplane.io/aggregate-to-view", "true"})
	}
	if r.Chance(1, 3) {
		role.Labels = append(role.Labels, c18KV{"extra", "x"})
	}
	return role
}

// ---------------------------------------------------------------- rounds, other writers, cache, classes

var c18PlanOutcomes = []string{"fail", "conflict", "crashBefore", "crashAfter"}

// c18GenEvs draws the events of one round: per event a call index below maxK (hot lists the
// indices where the interesting calls are expected) and one or two of: a fault-plan outcome,
// an error class, edits of other writers, a stale / incomplete answer of the informer cache.
func c18GenEvs(r *Rng, maxK int, hot []int, edits func() []c18Edit, names []string) []c18Ev {
	n := 0
	switch x := r.Intn(20); {
	case x < 8:
		n = 0
	case x < 15:
		n = 1
	case x < 19:
		n = 2
	default:
		n = 3
	}
	used := map[int]bool{}
	out := []c18Ev{}
	for i := 0; i < n; i++ {
		k := r.Intn(maxK)
		if len(hot) > 0 && r.Bool() {
			k = Pick(r, hot)
		}
		if used[k] {
			continue
		}
		used[k] = true
		e := c18Ev{K: k, Edits: []c18Edit{}, Miss: []string{}}
		switch x := r.Intn(20); {
		case x < 5:
			e.O = Pick(r, c18PlanOutcomes)
		case x < 10:
			e.O = Pick(r, c18Classes)
		case x < 15:
			e.Edits = edits()
			if r.Chance(1, 6) {
				e.O = Pick(r, append(append([]string{}, c18PlanOutcomes...), c18Classes...))
			}
		default:
			switch r.Intn(4) {
			case 0:
				e.View = "old"
			case 1:
				e.View = "old0"
			case 2:
				e.Miss = []string{Pick(r, names)}
			default:
				e.View = Pick(r, []string{"old", "old0"})
				e.Miss = []string{Pick(r, names)}
			}
			if r.Chance(1, 4) {
				e.Edits = edits()
			}
		}
		out = append(out, e)
	}
	return out
}

// c18RefBudget: how many CRDs the revision of that name may reference (see c18GenMember).
func c18RefBudget(name string) int {
	switch name {
	case "prov-a-r1":
		return 4
	case "prov-a-r10", "prov-m0-r1":
		return 2
	}
	return 1
}

func c18RoleNames(target string) []string {
	p := "crossplane:provider:" + target + ":"
	return []string{p + "aggregate-to-edit", p + "aggregate-to-view", p + "system"}
}

// c18GenPR draws a revision that may itself be reconciled.
func c18GenPR(r *Rng, name, uid string, maxRefs int) c18PR {
	t := c18PR{Name: name, UID: uid, Pkg: c18Pkgs[r.Intn(3)]}
	if r.Chance(1, 6) {
		t.Pkg = Pick(r, c18Pkgs)
	}
	t.Family = Pick(r, c18Families)
	t.Paused = r.Chance(1, 25)
	t.Deleted = r.Chance(1, 25)
	t.Refs = c18GenRefs(r, maxRefs, "")
	if r.Chance(2, 5) {
		t.Requests = c18GenRules(r, 2, r.Chance(1, 5))
		if len(t.Requests) == 0 {
			t.Requests = []c18PRule{c18GenRule(r, false)}
		}
	}
	return t
}

func c18GenMember(r *Rng, i int) c18PR {
	m := c18PR{Name: fmt.Sprintf("prov-m%d-r1", i), UID: fmt.Sprintf("uid-m%d", i), Pkg: Pick(r, c18Pkgs)}
	if r.Chance(1, 2) {
		m.Pkg = c18Pkgs[r.Intn(5)]
	}
	m.Family = Pick(r, c18Families)
	// sort.Slice is a stable insertion sort up to 12 elements and resources with different
	// (plural, group) may share the sort key plural+group: all revisions that can ever coexist
	// reference at most 4 (target) + 2 + 1 (other reconciled revisions) + 2 + 1 + 1 + 1 (members) = 12 CRDs
	max := 1
	if i == 0 {
		max = 2
	}
	m.Refs = c18GenRefs(r, max, fmt.Sprintf("m%d.example.org", i))
	m.Paused = r.Chance(1, 20)
	if r.Chance(1, 10) {
		m.Requests = c18GenRules(r, 1, false)
	}
	return m
}

// c18GenAllowFor: an allow-list content related to the requests (mostly covering them).
func c18GenAllowFor(r *Rng, reqs []c18PRule) []c18PRule {
	var a []c18PRule
	if r.Chance(2, 3) {
		for _, q := range reqs {
			if r.Chance(9, 10) {
				a = append(a, c18Widen(r, q))
			}
		}
		a = append(a, c18GenRules(r, 1, false)...)
	} else {
		a = c18GenRules(r, 3, r.Chance(1, 5))
	}
	if a == nil {
		a = []c18PRule{}
	}
	return a
}

// c18ReconcileEdits: what other writers do around a provider-revision reconcile.
func c18ReconcileEdits(r *Rng, s *c18Scn, cur map[string]c18PR, target string) []c18Edit {
	out := []c18Edit{}
	t, hasT := cur[target]
	for i, n := 0, 1+r.Intn(2); i < n; i++ {
		switch x := r.Intn(20); {
		case x < 5: // the administrator edits the allow-list role: narrower, unrelated, wider, same size
			var reqs []c18PRule
			if hasT {
				reqs = t.Requests
			}
			rules := c18GenEarlier(r, s.Allow, reqs)
			if r.Chance(1, 3) {
				rules = []c18PRule{}
			}
			out = append(out, c18Edit{Op: "setRole", Role: &c18Role{Name: c18AllowName, Labels: []c18KV{}, Rules: rules}, Recreate: r.Chance(1, 6)})
		case x < 6:
			out = append(out, c18Edit{Op: "delRole", Name: c18AllowName})
		case x < 10: // someone creates / takes over / rewrites one of the revision's roles
			role := c18GenPreRole(r, Pick(r, c18RoleNames(target)), "uid-t")
			if hasT && r.Bool() {
				role.Ctrl = Pick(r, []string{t.UID, "uid-other", ""})
			}
			out = append(out, c18Edit{Op: "setRole", Role: &role})
		case x < 12: // ... or deletes it (the garbage collector, an operator)
			out = append(out, c18Edit{Op: "delRole", Name: Pick(r, c18RoleNames(target))})
		case x < 16: // the revision itself changes: requests, references, family, pause, deletion, re-creation
			if !hasT {
				continue
			}
			p := t
			switch r.Intn(8) {
			case 0:
				p.Requests = append(append([]c18PRule{}, p.Requests...), c18GenRule(r, false))
			case 1:
				p.Requests = []c18PRule{}
			case 2:
				p.Refs = c18GenRefs(r, c18RefBudget(p.Name), "")
			case 3:
				p.Family = Pick(r, c18Families)
			case 4:
				p.Paused = !p.Paused
			case 5:
				p.Deleted = !p.Deleted
			case 6:
				p.UID = p.UID + "-re" // deleted and re-created under the same name
			default:
				p.Pkg = Pick(r, c18Pkgs)
			}
			cur[target] = p
			t = p
			out = append(out, c18Edit{Op: "setPR", PR: &p})
		case x < 17:
			delete(cur, target)
			hasT = false
			out = append(out, c18Edit{Op: "delPR", Name: target})
		case x < 19: // a family member appears (possibly from another org) or changes
			m := c18GenMember(r, r.Intn(4))
			if hasT && r.Chance(2, 3) {
				m.Family = t.Family
			}
			cur[m.Name] = m
			out = append(out, c18Edit{Op: "setPR", PR: &m})
		default:
			n := fmt.Sprintf("prov-m%d-r1", r.Intn(3))
			delete(cur, n)
			out = append(out, c18Edit{Op: "delPR", Name: n})
		}
	}
	return out
}

func c18GenReconcile(r *Rng) c18Scn {
	s := c18Scn{Kind: "reconcile", Target: "prov-a-r1"}
	t := c18GenPR(r, "prov-a-r1", "uid-t", 4)
	s.PRs = []c18PR{t}
	// a second (third) revision that is reconciled by the same controller; its name extends the first
	var others []string
	if r.Chance(3, 5) {
		u := c18GenPR(r, "prov-a-r10", "uid-u", 2)
		if r.Bool() {
			u.Family, u.Pkg = t.Family, t.Pkg
		}
		s.PRs = append(s.PRs, u)
		others = append(others, u.Name)
		if r.Chance(1, 4) {
			v := c18GenPR(r, "prov-a", "uid-v", 1)
			s.PRs = append(s.PRs, v)
			others = append(others, v.Name)
		}
	}
	for i, n := 0, r.Intn(4); i < n; i++ {
		s.PRs = append(s.PRs, c18GenMember(r, i))
	}
	// packages without an organisation segment, as target AND as family members of one label
	if r.Chance(1, 7) {
		grp := Pick(r, c18RootPkgs)
		fam := Pick(r, []string{"fam-a", "fam-a", "fam-b"})
		for i := range s.PRs {
			if r.Chance(5, 6) {
				s.PRs[i].Pkg = grp[r.Intn(len(grp))]
				if r.Chance(2, 3) {
					s.PRs[i].Pkg = grp[r.Intn(3)] // root-level
				}
			}
			if r.Chance(5, 6) {
				s.PRs[i].Family = fam
			}
		}
		t = s.PRs[0]
	}
	switch x := r.Intn(20); {
	case x < 12:
		s.Validator = "role"
	case x < 17:
		s.Validator = "none"
	default:
		s.Validator = "missing"
	}
	if s.Validator == "role" {
		reqs := t.Requests
		if len(others) > 0 && r.Chance(1, 3) {
			reqs = append(append([]c18PRule{}, reqs...), s.PRs[1].Requests...)
		}
		s.Allow = c18GenAllowFor(r, reqs)
		if r.Chance(1, 10) { // two requests whose paths collide under a careless join; mostly one of them covered
			s.PRs[0].Requests, s.Allow = c18GenColliding(r)
			t = s.PRs[0]
		}
	}
	for _, n := range append([]string{t.Name}, others...) {
		for _, rn := range c18RoleNames(n) {
			if r.Chance(1, 5) {
				s.Roles = append(s.Roles, c18GenPreRole(r, rn, "uid-t"))
			}
		}
	}
	if r.Chance(1, 4) {
		s.Roles = append(s.Roles, c18GenPreRole(r, "crossplane:provider:prov-m0-r1:system", "uid-m0"))
	}
	if r.Chance(1, 6) {
		s.Roles = append(s.Roles, c18GenPreRole(r, "unrelated", "uid-other"))
	}
	if r.Chance(1, 30) {
		s.Target = "ghost"
	}
	cur := map[string]c18PR{}
	for _, p := range s.PRs {
		cur[p.Name] = p
	}
	names := []string{c18AllowName, t.Name, "prov-m0-r1", "prov-m1-r1"}
	names = append(names, c18RoleNames(t.Name)...)
	names = append(names, others...)
	rounds := 1 + r.Intn(4)
	for i := 0; i < rounds; i++ {
		rd := c18Round{Target: s.Target, Pre: []c18Edit{}}
		if i > 0 || r.Chance(1, 4) {
			switch x := r.Intn(10); {
			case x < 4 && len(others) > 0:
				rd.Target = Pick(r, others)
			case x < 5:
				rd.Target = Pick(r, []string{"prov-m0-r1", "ghost"})
			}
		}
		if i > 0 && r.Chance(1, 2) || r.Chance(1, 10) {
			rd.Pre = c18ReconcileEdits(r, &s, cur, rd.Target)
		}
		// expected call layout: getPR, [listPRs], [get allow], then Get + Create/Update per role
		base := 1
		if p, ok := cur[rd.Target]; ok && p.Family != "" {
			base++
		}
		val := base
		if s.Validator != "none" {
			base++
		}
		hot := []int{val, base, base + 1, base + 2, base + 3, base + 4, base + 5}
		tgt := rd.Target
		rd.Evs = c18GenEvs(r, 10, hot, func() []c18Edit { return c18ReconcileEdits(r, &s, cur, tgt) }, append(names, c18RoleNames(tgt)...))
		// the allow-list changes under a validator that has served earlier reconciles: the
		// administrator narrows / empties / deletes it between two reconciles, the revision's
		// roles have to be written (again), and the validator's own read of the role is
		// disturbed (error class, fault, stale or missing in the cache) or not
		if i > 0 && s.Validator != "none" && r.Chance(1, 4) {
			if p, ok := cur[tgt]; ok {
				var rules []c18PRule
				switch r.Intn(3) {
				case 0:
					rules = []c18PRule{}
				case 1:
					rules = c18GenRules(r, 2, false)
				default:
					rules = c18GenEarlier(r, s.Allow, p.Requests)
				}
				if r.Chance(1, 5) {
					rd.Pre = append(rd.Pre, c18Edit{Op: "delRole", Name: c18AllowName})
				} else {
					rd.Pre = append(rd.Pre, c18Edit{Op: "setRole", Role: &c18Role{Name: c18AllowName, Labels: []c18KV{}, Rules: rules}})
				}
				for _, rn := range c18RoleNames(tgt) {
					if r.Chance(2, 3) {
						rd.Pre = append(rd.Pre, c18Edit{Op: "delRole", Name: rn})
					}
				}
				e := c18Ev{K: val, Edits: []c18Edit{}, Miss: []string{}}
				switch r.Intn(6) {
				case 0:
					e.O = Pick(r, c18Classes)
				case 1:
					e.O = Pick(r, []string{"fail", "conflict"})
				case 2:
					e.View = Pick(r, []string{"old", "old0"})
				case 3:
					e.Miss = []string{c18AllowName}
				}
				if e.O != "" || e.View != "" || len(e.Miss) > 0 {
					evs := []c18Ev{e}
					for _, x := range rd.Evs {
						if x.K != val {
							evs = append(evs, x)
						}
					}
					rd.Evs = evs
				}
			}
		}
		s.Rounds = append(s.Rounds, rd)
	}
	return s
}

var c18XRDNames = []string{"xthings.example.org", "xthings.example.organic", "xa.example.org"}

func c18GenOneXRD(r *Rng, name, uid string) c18XRD {
	x := c18XRD{Name: name, UID: uid, Group: Pick(r, []string{"example.org", "a.b", "acme.example.org"}),
		Plural: Pick(r, []string{"xthings", "xa", "widgets"}), HasClaim: r.Bool()}
	if x.HasClaim {
		x.Claim = Pick(r, []string{"things", "a", "gadgets"})
	}
	if r.Chance(1, 15) { // malformed names (rejected by a real API server's XRD/CRD validation)
		switch r.Intn(4) {
		case 0:
			x.Plural = "*"
		case 1:
			x.Group = "*"
		case 2:
			x.Plural = ""
		default:
			x.HasClaim, x.Claim = true, x.Plural
		}
	}
	x.Deleted = r.Chance(1, 20)
	return x
}

func c18XRDRoleNames(name string) []string {
	p := "crossplane:composite:" + name + ":"
	return []string{p + "aggregate-to-crossplane", p + "aggregate-to-edit", p + "aggregate-to-view", p + "aggregate-to-browse"}
}

func c18XRDEdits(r *Rng, cur map[string]c18XRD, target string) []c18Edit {
	out := []c18Edit{}
	x, has := cur[target]
	for i, n := 0, 1+r.Intn(2); i < n; i++ {
		switch k := r.Intn(10); {
		case k < 4:
			role := c18GenPreRole(r, Pick(r, c18XRDRoleNames(target)), "uid-x0")
			if has && r.Bool() {
				role.Ctrl = Pick(r, []string{x.UID, "uid-other", ""})
			}
			out = append(out, c18Edit{Op: "setRole", Role: &role})
		case k < 5:
			out = append(out, c18Edit{Op: "delRole", Name: Pick(r, c18XRDRoleNames(target))})
		case k < 9:
			if !has {
				continue
			}
			d := x
			switch r.Intn(5) {
			case 0:
				d.HasClaim, d.Claim = !d.HasClaim, ""
				if d.HasClaim {
					d.Claim = Pick(r, []string{"things", "a", "gadgets"})
				}
			case 1:
				d.Group = Pick(r, []string{"example.org", "a.b", "acme.example.org"})
			case 2:
				d.Plural = Pick(r, []string{"xthings", "xa", "widgets"})
			case 3:
				d.Deleted = !d.Deleted
			default:
				d.UID = d.UID + "-re"
			}
			cur[target], x = d, d
			out = append(out, c18Edit{Op: "setXRD", XRD: &d})
		default:
			delete(cur, target)
			has = false
			out = append(out, c18Edit{Op: "delXRD", Name: target})
		}
	}
	return out
}

func c18GenXRD(r *Rng) c18Scn {
	s := c18Scn{Kind: "xrd", Target: c18XRDNames[0], Validator: "none"}
	n := 1
	if r.Chance(3, 5) {
		n = 2 + r.Intn(2)
	}
	cur := map[string]c18XRD{}
	names := []string{}
	for i := 0; i < n; i++ {
		x := c18GenOneXRD(r, c18XRDNames[i], fmt.Sprintf("uid-x%d", i))
		if i > 0 && r.Bool() { // same group as the first, names overlapping with it
			x.Group = s.XRDs[0].Group
			if r.Bool() && s.XRDs[0].HasClaim {
				x.Plural = s.XRDs[0].Claim
			}
		}
		s.XRDs = append(s.XRDs, x)
		cur[x.Name] = x
		names = append(names, x.Name)
		for _, rn := range c18XRDRoleNames(x.Name) {
			if r.Chance(1, 5) {
				s.Roles = append(s.Roles, c18GenPreRole(r, rn, x.UID))
			}
		}
	}
	if r.Chance(1, 5) {
		s.Roles = append(s.Roles, c18GenPreRole(r, "unrelated", "uid-other"))
	}
	if r.Chance(1, 30) {
		s.Target = "ghost"
	}
	rounds := 1 + r.Intn(4)
	for i := 0; i < rounds; i++ {
		rd := c18Round{Target: s.Target, Pre: []c18Edit{}}
		if i > 0 && r.Bool() {
			rd.Target = Pick(r, names)
		}
		if i > 0 && r.Chance(1, 2) || r.Chance(1, 10) {
			rd.Pre = c18XRDEdits(r, cur, rd.Target)
		}
		tgt := rd.Target
		rd.Evs = c18GenEvs(r, 10, []int{0, 1, 2, 3, 4, 5, 6, 7, 8}, func() []c18Edit { return c18XRDEdits(r, cur, tgt) }, append(append([]string{}, names...), c18XRDRoleNames(tgt)...))
		s.Rounds = append(s.Rounds, rd)
	}
	return s
}

func c18GenDeploy(r *Rng, i int) c18Deploy {
	d := c18Deploy{NS: Pick(r, []string{"crossplane-system", "crossplane-system", "other"}), Name: fmt.Sprintf("d%d", i), SA: Pick(r, []string{"sa-a", "sa-b", "default", ""}), Owners: []string{}}
	for j, k := 0, r.Intn(3); j < k; j++ {
		// uid-t-old: an earlier incarnation of the target (same NAME in the owner reference, another UID)
		d.Owners = append(d.Owners, Pick(r, []string{"uid-t", "uid-t", "uid-u", "uid-t-old", "uid-m0", "uid-other"}))
	}
	return d
}

func c18BindingEdits(r *Rng, s *c18Scn, cur map[string]c18PR, target string) []c18Edit {
	out := []c18Edit{}
	n := "crossplane:provider:" + target + ":system"
	t, has := cur[target]
	for i, k := 0, 1+r.Intn(2); i < k; i++ {
		switch x := r.Intn(10); {
		case x < 3: // someone creates / takes over the binding
			b := c18Binding{Name: n, RoleRef: Pick(r, []string{n, n, "cluster-admin"}), Subjects: []c18Subject{}, Ctrl: Pick(r, []string{"uid-t", "uid-u", "uid-other", ""})}
			for j, m := 0, r.Intn(3); j < m; j++ {
				b.Subjects = append(b.Subjects, c18Subject{NS: Pick(r, []string{"crossplane-system", "other"}), Name: Pick(r, []string{"sa-a", "sa-b", "default"})})
			}
			out = append(out, c18Edit{Op: "setBinding", Binding: &b})
		case x < 4:
			out = append(out, c18Edit{Op: "delBinding", Name: n})
		case x < 7: // deployments come, go, change owner or service account
			d := c18GenDeploy(r, r.Intn(5))
			out = append(out, c18Edit{Op: "setDeploy", Deploy: &d})
		case x < 8:
			d := c18GenDeploy(r, r.Intn(5))
			out = append(out, c18Edit{Op: "delDeploy", NS: d.NS, Name: d.Name})
		default:
			if !has {
				continue
			}
			p := t
			switch r.Intn(3) {
			case 0:
				p.Paused = !p.Paused
			case 1:
				p.Deleted = !p.Deleted
			default:
				p.UID = p.UID + "-old" // what the deployments of the earlier incarnation point at
				if strings.HasSuffix(t.UID, "-old") {
					p.UID = strings.TrimSuffix(t.UID, "-old")
				}
			}
			cur[target], t = p, p
			out = append(out, c18Edit{Op: "setPR", PR: &p})
		}
	}
	return out
}

func c18GenBinding(r *Rng) c18Scn {
	s := c18Scn{Kind: "binding", Target: "prov-a-r1", Validator: "none"}
	t := c18PR{Name: "prov-a-r1", UID: "uid-t", Pkg: c18Pkgs[0], Paused: r.Chance(1, 25), Deleted: r.Chance(1, 25)}
	u := c18PR{Name: "prov-a-r10", UID: "uid-u", Pkg: c18Pkgs[0], Paused: r.Chance(1, 25)}
	s.PRs = []c18PR{t, u, {Name: "prov-m0-r1", UID: "uid-m0", Pkg: c18Pkgs[0]}}
	cur := map[string]c18PR{}
	for _, p := range s.PRs {
		cur[p.Name] = p
	}
	for i, n := 0, r.Intn(5); i < n; i++ {
		s.Deploys = append(s.Deploys, c18GenDeploy(r, i))
	}
	for _, p := range []c18PR{t, u} {
		n := "crossplane:provider:" + p.Name + ":system"
		if r.Chance(1, 3) {
			b := c18Binding{Name: n, RoleRef: n, Subjects: []c18Subject{}}
			if r.Chance(1, 4) {
				b.RoleRef = "cluster-admin"
			}
			switch r.Intn(4) {
			case 0, 1:
				b.Ctrl = p.UID
			case 2:
				b.Ctrl = ""
			default:
				b.Ctrl = "uid-other"
			}
			for j, k := 0, r.Intn(3); j < k; j++ {
				b.Subjects = append(b.Subjects, c18Subject{NS: Pick(r, []string{"crossplane-system", "other"}), Name: Pick(r, []string{"sa-a", "sa-b", "default"})})
			}
			s.Bindings = append(s.Bindings, b)
		}
	}
	// desired state x owned Deployment present / absent x a pre-existing binding of the derived name
	// controlled by a foreign UID / nobody / the revision: an INACTIVE revision without a Deployment
	// of its own is the state in which a reconciler is tempted to clean the binding up by its derived
	// name, without reading it (and its controller) first
	s.PRs[0].Inactive, s.PRs[1].Inactive = r.Chance(1, 3), r.Chance(1, 3)
	if r.Chance(1, 3) {
		s.PRs[0].Inactive, s.PRs[0].Paused, s.PRs[0].Deleted = r.Chance(5, 6), false, false
		if r.Chance(3, 4) { // no Deployment owned by the target
			for i := range s.Deploys {
				keep := []string{}
				for _, o := range s.Deploys[i].Owners {
					if o != "uid-t" {
						keep = append(keep, o)
					}
				}
				s.Deploys[i].Owners = keep
			}
		}
		n := "crossplane:provider:prov-a-r1:system"
		kept := []c18Binding{}
		for _, b := range s.Bindings {
			if b.Name != n {
				kept = append(kept, b)
			}
		}
		b := c18Binding{Name: n, RoleRef: Pick(r, []string{n, n, "cluster-admin"}), Subjects: []c18Subject{}, Ctrl: Pick(r, []string{"uid-other", "uid-other", "uid-u", "", "uid-t"})}
		for j, k := 0, r.Intn(3); j < k; j++ {
			b.Subjects = append(b.Subjects, c18Subject{NS: Pick(r, []string{"crossplane-system", "other"}), Name: Pick(r, []string{"sa-a", "sa-b", "default"})})
		}
		s.Bindings = append(kept, b)
	}
	for _, p := range s.PRs {
		cur[p.Name] = p
	}
	if r.Chance(1, 5) {
		s.Bindings = append(s.Bindings, c18Binding{Name: "unrelated", RoleRef: "cluster-admin", Subjects: []c18Subject{{NS: "kube-system", Name: "admin"}}, Ctrl: "uid-other"})
	}
	if r.Chance(1, 30) {
		s.Target = "ghost"
	}
	rounds := 1 + r.Intn(4)
	for i := 0; i < rounds; i++ {
		rd := c18Round{Target: s.Target, Pre: []c18Edit{}}
		if i > 0 && r.Chance(2, 5) {
			rd.Target = Pick(r, []string{"prov-a-r10", "prov-a-r10", "prov-m0-r1", "ghost"})
		}
		if i > 0 && r.Chance(1, 2) || r.Chance(1, 10) {
			rd.Pre = c18BindingEdits(r, &s, cur, rd.Target)
		}
		tgt := rd.Target
		names := []string{tgt, "crossplane:provider:" + tgt + ":system", "d0", "d1", "d2"}
		rd.Evs = c18GenEvs(r, 5, []int{1, 2, 3}, func() []c18Edit { return c18BindingEdits(r, &s, cur, tgt) }, names)
		s.Rounds = append(s.Rounds, rd)
	}
	return s
}

// c18GenTree: raw tree operations on paths of any length (also empty, also prefixes of
// each other), components over {a,b,*}.
func c18GenTree(r *Rng) c18Scn {
	s := c18Scn{Kind: "tree", Validator: "none"}
	comp := []string{"a", "b", "a", "b", "*"}
	path := func() []string {
		p := []string{}
		for i, n := 0, r.Intn(5); i < n; i++ {
			p = append(p, Pick(r, comp))
		}
		return p
	}
	for i, n := 0, r.Intn(5); i < n; i++ {
		s.Paths = append(s.Paths, path())
	}
	for i, n := 0, 1+r.Intn(6); i < n; i++ {
		if len(s.Paths) > 0 && r.Bool() { // a query derived from an inserted path
			q := append([]string{}, Pick(r, s.Paths)...)
			for j := range q {
				if r.Chance(1, 3) {
					q[j] = Pick(r, comp)
				}
			}
			if r.Chance(1, 3) {
				q = append(q, Pick(r, comp))
			}
			if len(q) > 0 && r.Chance(1, 5) {
				q = q[:len(q)-1]
			}
			s.Queries = append(s.Queries, q)
		} else {
			s.Queries = append(s.Queries, path())
		}
	}
	return s
}

func c18Gen(r *Rng) c18Scn {
	switch x := r.Intn(20); {
	case x < 1:
		return c18GenTree(r)
	case x < 9:
		return c18GenValidate(r)
	case x < 16:
		return c18GenReconcile(r)
	case x < 18:
		return c18GenXRD(r)
	default:
		return c18GenBinding(r)
	}
}

// ---------------------------------------------------------------- exhaustive small scope

// c18Exhaustive enumerates every pair (one allow rule, one request rule) of granular
// rules over the alphabet {a,b,c,*}: resource rules (group, resource, name in
// {none,a,b,c,*}, verb), URL rules (url in {a,b,c,*,""}, verb) and four rules with one
// empty list; then every two-rule wildcard-free allow list over {a,b} against every request.
func c18Exhaustive(emit func(c18Scn)) {
	alpha := []string{"a", "b", "c", "*"}
	var rules []c18PRule
	for _, g := range alpha {
		for _, rs := range alpha {
			for _, n := range []string{"\x00none", "a", "b", "c", "*"} {
				for _, v := range alpha {
					p := c18PRule{V: []string{v}, G: []string{g}, R: []string{rs}, N: []string{}, U: []string{}}
					if n != "\x00none" {
						p.N = []string{n}
					}
					rules = append(rules, p)
				}
			}
		}
	}
	for _, u := range []string{"a", "b", "c", "*", ""} {
		for _, v := range alpha {
			rules = append(rules, c18PRule{V: []string{v}, G: []string{}, R: []string{}, N: []string{}, U: []string{u}})
		}
	}
	// one empty list per field: such a rule expands to nothing
	rules = append(rules,
		c18PRule{V: []string{}, G: []string{"a"}, R: []string{"a"}, N: []string{}, U: []string{}},
		c18PRule{V: []string{"a"}, G: []string{}, R: []string{"a"}, N: []string{}, U: []string{}},
		c18PRule{V: []string{"a"}, G: []string{"a"}, R: []string{}, N: []string{}, U: []string{}},
		c18PRule{V: []string{}, G: []string{}, R: []string{}, N: []string{}, U: []string{"a"}})
	for _, a := range rules {
		for _, q := range rules {
			emit(c18Scn{Kind: "validate", Validator: "role", Allow: []c18PRule{a}, Requests: []c18PRule{q}})
		}
	}
	// components must not be mixed across allow-list rules: every allow list of two
	// wildcard-free resource rules over {a,b} against every such request
	var plain []c18PRule
	for _, g := range []string{"a", "b"} {
		for _, rs := range []string{"a", "b"} {
			for _, v := range []string{"a", "b"} {
				plain = append(plain, c18PRule{V: []string{v}, G: []string{g}, R: []string{rs}, N: []string{}, U: []string{}})
			}
		}
	}
	for _, a1 := range plain {
		for _, a2 := range plain {
			for _, q := range plain {
				emit(c18Scn{Kind: "validate", Validator: "role", Allow: []c18PRule{a1, a2}, Requests: []c18PRule{q}})
			}
		}
	}
}

// ---------------------------------------------------------------- table dump

func leanRuleTuple(r rbacv1.PolicyRule) string {
	return "(" + strings.Join([]string{leanStrList(r.Verbs), leanStrList(r.APIGroups), leanStrList(r.Resources), leanStrList(r.ResourceNames), leanStrList(r.NonResourceURLs)}, ", ") + ")"
}

func c18Dump() string {
	var sb strings.Builder
	def := func(name, val string) { fmt.Fprintf(&sb, "def %s : String := %s\n", name, leanStr(val)) }
	lst := func(name string, xs []string) { fmt.Fprintf(&sb, "def %s : List String := %s\n", name, leanStrList(xs)) }
	sb.WriteString("/-! C18 tables: internal/controller/rbac/provider/roles, rbac/definition, k8s.io/api/rbac/v1 -/\n")
	extra, edit, view, system, update := roles.VerifTables()
	ts := make([]string, 0, len(extra))
	for _, r := range extra {
		ts = append(ts, leanRuleTuple(r))
	}
	sb.WriteString("/-- rulesSystemExtra as (verbs, apiGroups, resources, resourceNames, nonResourceURLs) -/\n")
	fmt.Fprintf(&sb, "def provRulesSystemExtra : List (List String × List String × List String × List String × List String) := [%s]\n", strings.Join(ts, ", "))
	lst("provVerbsEdit", edit)
	lst("provVerbsView", view)
	lst("provVerbsSystem", system)
	lst("provVerbsUpdate", update)
	pc := roles.VerifConsts()
	keys := make([]string, 0, len(pc))
	for k := range pc {
		keys = append(keys, k)
	}
	sort.Strings(keys)
	for _, k := range keys {
		def("prov_"+k, pc[k])
	}
	def("provSystemRoleNameOfX", roles.SystemClusterRoleName("X"))
	xe, xv, xb, xu := definition.VerifTables()
	lst("xrdVerbsEdit", xe)
	lst("xrdVerbsView", xv)
	lst("xrdVerbsBrowse", xb)
	lst("xrdVerbsUpdate", xu)
	dc := definition.VerifConsts()
	keys = keys[:0]
	for k := range dc {
		keys = append(keys, k)
	}
	sort.Strings(keys)
	for _, k := range keys {
		def("xrd_"+k, dc[k])
	}
	def("k8sVerbAll", rbacv1.VerbAll)
	def("k8sAPIGroupAll", rbacv1.APIGroupAll)
	def("k8sResourceAll", rbacv1.ResourceAll)
	def("k8sNonResourceAll", rbacv1.NonResourceAll)
	def("k8sRbacGroupName", rbacv1.GroupName)
	def("k8sServiceAccountKind", rbacv1.ServiceAccountKind)
	def("crdGroupName", apiextensions.GroupName)
	def("labelProviderFamily", pkgv1.LabelProviderFamily)
	return sb.String()
}

//go:build verif

package main

// C18 generators, the exhaustive small scope of the thorough tier, and the table dump.

import (
	"fmt"
	"sort"
	"strings"

	rbacv1 "k8s.io/api/rbac/v1"
	"k8s.io/apiextensions-apiserver/pkg/apis/apiextensions"

	pkgv1 "github.com/crossplane/crossplane/apis/pkg/v1"
	"github.com/crossplane/crossplane/internal/controller/rbac/definition"
	"github.com/crossplane/crossplane/internal/controller/rbac/provider/roles"
)

var c18Syms = []string{"a", "b", "c"}

func c18PickList(r *Rng, pool []string, max int) []string {
	n := r.Intn(max + 1)
	out := []string{}
	for i := 0; i < n; i++ {
		out = append(out, Pick(r, pool))
	}
	return out
}

// c18GenRule draws one PolicyRule. style: 0 resource rule, 1 URL rule, 2 mixed/malformed.
func c18GenRule(r *Rng, exotic bool) c18PRule {
	base := []string{"a", "b", "c", "a", "b", "*"}
	res := base
	names := []string{"a", "b", "c", "a", "b"}
	urls := base
	if exotic {
		res = append(append([]string{}, base...), "a/status", "*/status", "b/finalizers", "*/finalizers", "")
		names = append(append([]string{}, names...), "*", "")
		urls = append(append([]string{}, base...), "a*", "/a/*", "/a/b", "")
	}
	p := c18PRule{V: []string{}, G: []string{}, R: []string{}, N: []string{}, U: []string{}}
	style := 0
	switch x := r.Intn(10); {
	case x < 6:
		style = 0
	case x < 8:
		style = 1
	default:
		style = 2
	}
	p.V = c18PickList(r, base, 2)
	if len(p.V) == 0 && r.Chance(3, 4) {
		p.V = []string{Pick(r, base)}
	}
	if style == 0 || style == 2 {
		p.G = c18PickList(r, base, 2)
		p.R = c18PickList(r, res, 2)
		if style == 0 {
			if len(p.G) == 0 {
				p.G = []string{Pick(r, base)}
			}
			if len(p.R) == 0 {
				p.R = []string{Pick(r, res)}
			}
		}
		if r.Chance(1, 2) {
			p.N = c18PickList(r, names, 2)
		}
	}
	if style == 1 || style == 2 {
		p.U = c18PickList(r, urls, 2)
		if style == 1 && len(p.U) == 0 {
			p.U = []string{Pick(r, urls)}
		}
	}
	return p
}

func c18GenRules(r *Rng, max int, exotic bool) []c18PRule {
	n := r.Intn(max + 1)
	out := []c18PRule{}
	for i := 0; i < n; i++ {
		out = append(out, c18GenRule(r, exotic))
	}
	return out
}

// c18Widen returns an allow rule derived from a request so that grants are frequent:
// copies the request and widens some fields to the wildcard / drops the names.
func c18Widen(r *Rng, q c18PRule) c18PRule {
	w := func(xs []string) []string {
		if len(xs) > 0 && r.Chance(1, 3) {
			return []string{"*"}
		}
		return append([]string{}, xs...)
	}
	a := c18PRule{V: w(q.V), G: w(q.G), R: w(q.R), N: append([]string{}, q.N...), U: w(q.U)}
	if len(a.N) > 0 && r.Chance(1, 3) {
		a.N = []string{}
	}
	if len(a.N) > 0 && r.Chance(1, 4) {
		a.N = append(a.N, Pick(r, c18Syms))
	}
	return a
}

func c18GenValidate(r *Rng) c18Scn {
	exotic := r.Chance(1, 4)
	s := c18Scn{Kind: "validate", Validator: "role"}
	s.Requests = c18GenRules(r, 3, exotic)
	if len(s.Requests) == 0 && r.Chance(9, 10) {
		s.Requests = []c18PRule{c18GenRule(r, exotic)}
	}
	switch r.Intn(4) {
	case 0: // unrelated allow list
		s.Allow = c18GenRules(r, 4, exotic)
	case 1, 2: // allow list derived from the requests (mostly granted)
		for _, q := range s.Requests {
			if r.Chance(5, 6) {
				s.Allow = append(s.Allow, c18Widen(r, q))
			}
		}
		s.Allow = append(s.Allow, c18GenRules(r, 1, exotic)...)
	default: // a mix
		s.Allow = c18GenRules(r, 2, exotic)
		for _, q := range s.Requests {
			if r.Bool() {
				s.Allow = append(s.Allow, c18Widen(r, q))
			}
		}
	}
	if r.Chance(1, 3) {
		s.Warm = true
		s.WarmAllow = c18GenWarm(r, s.Allow, s.Requests)
	}
	p := r.Perm(len(s.Allow))
	sh := make([]c18PRule, len(s.Allow))
	for i, j := range p {
		sh[i] = s.Allow[j]
	}
	s.Allow = sh
	return s
}

// c18GenWarm is an earlier content of the allow-list: usually wider than the current one
// (it covered the requests), sometimes narrower or unrelated.
func c18GenWarm(r *Rng, allow, reqs []c18PRule) []c18PRule {
	w := []c18PRule{}
	switch r.Intn(4) {
	case 0, 1:
		w = append(w, allow...)
		for _, q := range reqs {
			w = append(w, c18Widen(r, q))
		}
	case 2:
		for _, q := range reqs {
			w = append(w, q)
		}
	default:
		w = c18GenRules(r, 2, false)
	}
	return w
}

// ---------------------------------------------------------------- reconcile scenarios

var c18Pkgs = []string{
	"xpkg.upbound.io/acme/provider-a:v1.0.0",
	"xpkg.upbound.io/acme/provider-a:v1.0.0",
	"acme/provider-b:v1.2.3", // default registry => same org as above
	"xpkg.upbound.io/acme/provider-c@sha256:aaaaaaaaaaaaaaaaaaaaaaaaaaaaaaaaaaaaaaaaaaaaaaaaaaaaaaaaaaaaaaaa",
	"xpkg.upbound.io/acme/nested/provider-d:v1",
	"xpkg.upbound.io/evil/provider-a:v1.0.0",
	"index.docker.io/acme/provider-a:v1.0.0",
	"registry.example.org/acme/provider-a:v1.0.0",
	"xpkg.upbound.io/acme-evil/provider-a:v1.0.0",
	"acme", // no org segment: the repository itself
	"UPPER/Case:bad",
	"",
}

var c18RefPool = []c18Ref{
	{"apiextensions.k8s.io/v1", "CustomResourceDefinition", "widgets.acme.example.org"},
	{"apiextensions.k8s.io/v1", "CustomResourceDefinition", "gadgets.acme.example.org"},
	{"apiextensions.k8s.io/v1", "CustomResourceDefinition", "things.b.c"},
	{"apiextensions.k8s.io/v1beta1", "CustomResourceDefinition", "a.b"},
	{"apiextensions.k8s.io/v1", "CustomResourceDefinition", "ab.c"},
	{"apiextensions.k8s.io/v1", "CustomResourceDefinition", "a.bc"},
	{"apiextensions.k8s.io/v1", "CustomResourceDefinition", "providerconfigs.acme.example.org"},
	{"apps/v1", "Deployment", "widgets.acme.example.org"},
	{"v1", "CustomResourceDefinition", "widgets.acme.example.org"},
	{"apiextensions.k8s.io/v1/extra", "CustomResourceDefinition", "widgets.acme.example.org"},
	{"apiextensions.k8s.io/v1", "CustomResourceDefinition", "nodot"},
	{"apiextensions.k8s.io/v1", "CustomResourceDefinition", ".leading"},
	{"apiextensions.k8s.io/v1", "CustomResourceDefinition", "trailing."},
	{"", "CustomResourceDefinition", "widgets.acme.example.org"},
	{"apiextensions.k8s.io/v1", "customresourcedefinition", "widgets.acme.example.org"},
	{"/", "CustomResourceDefinition", "widgets.acme.example.org"},
	{"apiextensions.k8s.io/", "CustomResourceDefinition", "slash.acme.example.org"},
}

func c18GenRefs(r *Rng, max int, own string) []c18Ref {
	out := []c18Ref{}
	for i, n := 0, r.Intn(max+1); i < n; i++ {
		if own != "" && r.Chance(2, 3) {
			out = append(out, c18Ref{"apiextensions.k8s.io/v1", "CustomResourceDefinition", Pick(r, []string{"widgets", "gadgets", "secretthings"}) + "." + own})
		} else if r.Chance(2, 3) {
			out = append(out, c18RefPool[r.Intn(7)])
		} else {
			out = append(out, Pick(r, c18RefPool))
		}
	}
	return out
}

func c18GenFaults(r *Rng, maxK int) [][]c18Fault {
	rounds := 1 + r.Intn(3)
	out := make([][]c18Fault, rounds)
	for i := range out {
		out[i] = []c18Fault{}
		if r.Chance(2, 5) {
			out[i] = append(out[i], c18Fault{K: r.Intn(maxK), O: Pick(r, []string{"fail", "conflict", "crashBefore", "crashAfter"})})
		}
	}
	return out
}

func c18GenPreRole(r *Rng, name, uid string) c18Role {
	role := c18Role{Name: name, Labels: []c18KV{}, Rules: c18GenRules(r, 2, false)}
	switch r.Intn(4) {
	case 0, 1:
		role.Ctrl = uid
	case 2:
		role.Ctrl = ""
	default:
		role.Ctrl = "uid-other"
	}
	if r.Bool() {
		role.Labels = append(role.Labels, c18KV{"rbac.crossplane.io/aggregate-to-view", "true"})
	}
	if r.Chance(1, 3) {
		role.Labels = append(role.Labels, c18KV{"extra", "x"})
	}
	return role
}

func c18GenReconcile(r *Rng) c18Scn {
	s := c18Scn{Kind: "reconcile", Target: "prov-a-r1"}
	t := c18PR{Name: "prov-a-r1", UID: "uid-t", Pkg: c18Pkgs[r.Intn(3)]}
	if r.Chance(1, 6) {
		t.Pkg = Pick(r, c18Pkgs)
	}
	switch x := r.Intn(10); {
	case x < 7:
		t.Family = "fam-a"
	case x < 8:
		t.Family = "fam-b"
	}
	t.Paused = r.Chance(1, 25)
	t.Deleted = r.Chance(1, 25)
	t.Refs = c18GenRefs(r, 4, "")
	if r.Chance(2, 5) {
		t.Requests = c18GenRules(r, 2, r.Chance(1, 5))
		if len(t.Requests) == 0 {
			t.Requests = []c18PRule{c18GenRule(r, false)}
		}
	}
	s.PRs = []c18PR{t}
	for i, n := 0, r.Intn(4); i < n; i++ {
		m := c18PR{Name: fmt.Sprintf("prov-m%d-r1", i), UID: fmt.Sprintf("uid-m%d", i), Pkg: Pick(r, c18Pkgs)}
		if r.Chance(1, 2) {
			m.Pkg = c18Pkgs[r.Intn(5)]
		}
		switch x := r.Intn(10); {
		case x < 7:
			m.Family = "fam-a"
		case x < 8:
			m.Family = "fam-b"
		}
		m.Refs = c18GenRefs(r, 2, fmt.Sprintf("m%d.example.org", i)) // at most 4+3*2 = 10 resources: sort.Slice is a stable insertion sort up to 12
		m.Paused = r.Chance(1, 20)
		if r.Chance(1, 10) {
			m.Requests = c18GenRules(r, 1, false)
		}
		s.PRs = append(s.PRs, m)
	}
	switch x := r.Intn(20); {
	case x < 12:
		s.Validator = "role"
	case x < 17:
		s.Validator = "none"
	default:
		s.Validator = "missing"
	}
	if s.Validator == "role" {
		if r.Chance(2, 3) {
			for _, q := range t.Requests {
				if r.Chance(9, 10) {
					s.Allow = append(s.Allow, c18Widen(r, q))
				}
			}
			s.Allow = append(s.Allow, c18GenRules(r, 1, false)...)
		} else {
			s.Allow = c18GenRules(r, 3, r.Chance(1, 5))
		}
	}
	if s.Validator == "role" && len(t.Requests) > 0 && r.Chance(1, 2) {
		s.Warm = true
		s.WarmAllow = c18GenWarm(r, s.Allow, t.Requests)
	}
	prefix := "crossplane:provider:" + t.Name + ":"
	for _, suf := range []string{"aggregate-to-edit", "aggregate-to-view", "system"} {
		if r.Chance(1, 4) {
			s.Roles = append(s.Roles, c18GenPreRole(r, prefix+suf, t.UID))
		}
	}
	if r.Chance(1, 4) {
		s.Roles = append(s.Roles, c18GenPreRole(r, "crossplane:provider:prov-m0-r1:system", "uid-m0"))
	}
	if r.Chance(1, 6) {
		s.Roles = append(s.Roles, c18GenPreRole(r, "unrelated", "uid-other"))
	}
	if r.Chance(1, 30) {
		s.Target = "ghost"
	}
	s.Faults = c18GenFaults(r, 9)
	return s
}

func c18GenXRD(r *Rng) c18Scn {
	x := c18XRD{Name: "xthings.example.org", UID: "uid-x", Group: Pick(r, []string{"example.org", "a.b", "acme.example.org"}),
		Plural: Pick(r, []string{"xthings", "xa", "widgets"}), HasClaim: r.Bool()}
	if x.HasClaim {
		x.Claim = Pick(r, []string{"things", "a", "gadgets"})
	}
	if r.Chance(1, 15) { // malformed names (rejected by a real API server's XRD/CRD validation)
		switch r.Intn(4) {
		case 0:
			x.Plural = "*"
		case 1:
			x.Group = "*"
		case 2:
			x.Plural = ""
		default:
			x.HasClaim, x.Claim = true, x.Plural
		}
	}
	x.Deleted = r.Chance(1, 20)
	s := c18Scn{Kind: "xrd", Target: x.Name, XRDs: []c18XRD{x}, Validator: "none"}
	prefix := "crossplane:composite:" + x.Name + ":"
	for _, suf := range []string{"aggregate-to-crossplane", "aggregate-to-edit", "aggregate-to-view", "aggregate-to-browse"} {
		if r.Chance(1, 4) {
			s.Roles = append(s.Roles, c18GenPreRole(r, prefix+suf, x.UID))
		}
	}
	if r.Chance(1, 5) {
		s.Roles = append(s.Roles, c18GenPreRole(r, "unrelated", "uid-other"))
	}
	if r.Chance(1, 30) {
		s.Target = "ghost"
	}
	s.Faults = c18GenFaults(r, 9)
	return s
}

func c18GenBinding(r *Rng) c18Scn {
	s := c18Scn{Kind: "binding", Target: "prov-a-r1", Validator: "none"}
	t := c18PR{Name: "prov-a-r1", UID: "uid-t", Pkg: c18Pkgs[0], Paused: r.Chance(1, 25), Deleted: r.Chance(1, 25)}
	s.PRs = []c18PR{t, {Name: "prov-m0-r1", UID: "uid-m0", Pkg: c18Pkgs[0]}}
	for i, n := 0, r.Intn(5); i < n; i++ {
		d := c18Deploy{NS: Pick(r, []string{"crossplane-system", "crossplane-system", "other"}), Name: fmt.Sprintf("d%d", i), SA: Pick(r, []string{"sa-a", "sa-b", "default", ""}), Owners: []string{}}
		for j, k := 0, r.Intn(3); j < k; j++ {
			d.Owners = append(d.Owners, Pick(r, []string{"uid-t", "uid-t", "uid-m0", "uid-other"}))
		}
		s.Deploys = append(s.Deploys, d)
	}
	n := "crossplane:provider:" + t.Name + ":system"
	if r.Chance(1, 3) {
		b := c18Binding{Name: n, RoleRef: n, Subjects: []c18Subject{}}
		if r.Chance(1, 4) {
			b.RoleRef = "cluster-admin"
		}
		switch r.Intn(4) {
		case 0, 1:
			b.Ctrl = t.UID
		case 2:
			b.Ctrl = ""
		default:
			b.Ctrl = "uid-other"
		}
		for j, k := 0, r.Intn(3); j < k; j++ {
			b.Subjects = append(b.Subjects, c18Subject{NS: Pick(r, []string{"crossplane-system", "other"}), Name: Pick(r, []string{"sa-a", "sa-b", "default"})})
		}
		s.Bindings = append(s.Bindings, b)
	}
	if r.Chance(1, 5) {
		s.Bindings = append(s.Bindings, c18Binding{Name: "unrelated", RoleRef: "cluster-admin", Subjects: []c18Subject{{NS: "kube-system", Name: "admin"}}, Ctrl: "uid-other"})
	}
	if r.Chance(1, 30) {
		s.Target = "ghost"
	}
	s.Faults = c18GenFaults(r, 5)
	return s
}

// c18GenTree: raw tree operations on paths of any length (also empty, also prefixes of
// each other), components over {a,b,*}.
func c18GenTree(r *Rng) c18Scn {
	s := c18Scn{Kind: "tree", Validator: "none"}
	comp := []string{"a", "b", "a", "b", "*"}
	path := func() []string {
		p := []string{}
		for i, n := 0, r.Intn(5); i < n; i++ {
			p = append(p, Pick(r, comp))
		}
		return p
	}
	for i, n := 0, r.Intn(5); i < n; i++ {
		s.Paths = append(s.Paths, path())
	}
	for i, n := 0, 1+r.Intn(6); i < n; i++ {
		if len(s.Paths) > 0 && r.Bool() { // a query derived from an inserted path
			q := append([]string{}, Pick(r, s.Paths)...)
			for j := range q {
				if r.Chance(1, 3) {
					q[j] = Pick(r, comp)
				}
			}
			if r.Chance(1, 3) {
				q = append(q, Pick(r, comp))
			}
			if len(q) > 0 && r.Chance(1, 5) {
				q = q[:len(q)-1]
			}
			s.Queries = append(s.Queries, q)
		} else {
			s.Queries = append(s.Queries, path())
		}
	}
	return s
}

func c18Gen(r *Rng) c18Scn {
	switch x := r.Intn(20); {
	case x < 1:
		return c18GenTree(r)
	case x < 9:
		return c18GenValidate(r)
	case x < 16:
		return c18GenReconcile(r)
	case x < 18:
		return c18GenXRD(r)
	default:
		return c18GenBinding(r)
	}
}

// ---------------------------------------------------------------- exhaustive small scope

// c18Exhaustive enumerates every pair (one allow rule, one request rule) of granular
// rules over the alphabet {a,b,c,*}: resource rules (group, resource, name in
// {none,a,b,c,*}, verb), URL rules (url in {a,b,c,*,""}, verb) and four rules with one
// empty list; then every two-rule wildcard-free allow list over {a,b} against every request.
func c18Exhaustive(emit func(c18Scn)) {
	alpha := []string{"a", "b", "c", "*"}
	var rules []c18PRule
	for _, g := range alpha {
		for _, rs := range alpha {
			for _, n := range []string{"\x00none", "a", "b", "c", "*"} {
				for _, v := range alpha {
					p := c18PRule{V: []string{v}, G: []string{g}, R: []string{rs}, N: []string{}, U: []string{}}
					if n != "\x00none" {
						p.N = []string{n}
					}
					rules = append(rules, p)
				}
			}
		}
	}
	for _, u := range []string{"a", "b", "c", "*", ""} {
		for _, v := range alpha {
			rules = append(rules, c18PRule{V: []string{v}, G: []string{}, R: []string{}, N: []string{}, U: []string{u}})
		}
	}
	// one empty list per field: such a rule expands to nothing
	rules = append(rules,
		c18PRule{V: []string{}, G: []string{"a"}, R: []string{"a"}, N: []string{}, U: []string{}},
		c18PRule{V: []string{"a"}, G: []string{}, R: []string{"a"}, N: []string{}, U: []string{}},
		c18PRule{V: []string{"a"}, G: []string{"a"}, R: []string{}, N: []string{}, U: []string{}},
		c18PRule{V: []string{}, G: []string{}, R: []string{}, N: []string{}, U: []string{"a"}})
	for _, a := range rules {
		for _, q := range rules {
			emit(c18Scn{Kind: "validate", Validator: "role", Allow: []c18PRule{a}, Requests: []c18PRule{q}})
		}
	}
	// components must not be mixed across allow-list rules: every allow list of two
	// wildcard-free resource rules over {a,b} against every such request
	var plain []c18PRule
	for _, g := range []string{"a", "b"} {
		for _, rs := range []string{"a", "b"} {
			for _, v := range []string{"a", "b"} {
				plain = append(plain, c18PRule{V: []string{v}, G: []string{g}, R: []string{rs}, N: []string{}, U: []string{}})
			}
		}
	}
	for _, a1 := range plain {
		for _, a2 := range plain {
			for _, q := range plain {
				emit(c18Scn{Kind: "validate", Validator: "role", Allow: []c18PRule{a1, a2}, Requests: []c18PRule{q}})
			}
		}
	}
}

// ---------------------------------------------------------------- table dump

func leanRuleTuple(r rbacv1.PolicyRule) string {
	return "(" + strings.Join([]string{leanStrList(r.Verbs), leanStrList(r.APIGroups), leanStrList(r.Resources), leanStrList(r.ResourceNames), leanStrList(r.NonResourceURLs)}, ", ") + ")"
}

func c18Dump() string {
	var sb strings.Builder
	def := func(name, val string) { fmt.Fprintf(&sb, "def %s : String := %s\n", name, leanStr(val)) }
	lst := func(name string, xs []string) { fmt.Fprintf(&sb, "def %s : List String := %s\n", name, leanStrList(xs)) }
	sb.WriteString("/-! C18 tables: internal/controller/rbac/provider/roles, rbac/definition, k8s.io/api/rbac/v1 -/\n")
	extra, edit, view, system, update := roles.VerifTables()
	ts := make([]string, 0, len(extra))
	for _, r := range extra {
		ts = append(ts, leanRuleTuple(r))
	}
	sb.WriteString("/-- rulesSystemExtra as (verbs, apiGroups, resources, resourceNames, nonResourceURLs) -/\n")
	fmt.Fprintf(&sb, "def provRulesSystemExtra : List (List String × List String × List String × List String × List String) := [%s]\n", strings.Join(ts, ", "))
	lst("provVerbsEdit", edit)
	lst("provVerbsView", view)
	lst("provVerbsSystem", system)
	lst("provVerbsUpdate", update)
	pc := roles.VerifConsts()
	keys := make([]string, 0, len(pc))
	for k := range pc {
		keys = append(keys, k)
	}
	sort.Strings(keys)
	for _, k := range keys {
		def("prov_"+k, pc[k])
	}
	def("provSystemRoleNameOfX", roles.SystemClusterRoleName("X"))
	xe, xv, xb, xu := definition.VerifTables()
	lst("xrdVerbsEdit", xe)
	lst("xrdVerbsView", xv)
	lst("xrdVerbsBrowse", xb)
	lst("xrdVerbsUpdate", xu)
	dc := definition.VerifConsts()
	keys = keys[:0]
	for k := range dc {
		keys = append(keys, k)
	}
	sort.Strings(keys)
	for _, k := range keys {
		def("xrd_"+k, dc[k])
	}
	def("k8sVerbAll", rbacv1.VerbAll)
	def("k8sAPIGroupAll", rbacv1.APIGroupAll)
	def("k8sResourceAll", rbacv1.ResourceAll)
	def("k8sNonResourceAll", rbacv1.NonResourceAll)
	def("k8sRbacGroupName", rbacv1.GroupName)
	def("k8sServiceAccountKind", rbacv1.ServiceAccountKind)
	def("crdGroupName", apiextensions.GroupName)
	def("labelProviderFamily", pkgv1.LabelProviderFamily)
	return sb.String()
}

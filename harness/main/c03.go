//go:build verif

package main

// C03: a failing composition pipeline is never destructive; garbage collection is exact.
// Two scenario families: (1) XR worlds (xrworld.go) with failing function output /
// shrinking desired sets / removed templates, reconciled by the real Reconciler;
// (2) multi-step pipelines of generated function programs (c04.go) with errors, fatal
// results, missing credentials and non-stabilising requirements, run through the real
// FunctionComposer + FetchingFunctionRunner.

import (
	"encoding/json"
	"fmt"
	"sort"
	"strings"
)

// c03CheckRound evaluates the GC-exactness and no-write-on-failure clauses on one round.
func c03CheckRound(mode string, rd *xwRound, startRefs []xwRef, startObjs []xwObj, o xwRoundObs, w *xwWorld) {
	inRefs := map[string]bool{}
	for _, r := range startRefs {
		inRefs[r.Kind+"/"+r.Name] = true
	}
	desired := map[string]bool{}
	for _, d := range rd.Desired {
		desired[d.RName] = true
	}
	byKey := map[string]xwObj{}
	for _, ob := range startObjs {
		byKey[ob.Kind+"/"+ob.Name] = ob
	}
	// expected GC set
	expect := map[string]bool{}
	for _, ob := range startObjs {
		if !inRefs[ob.Kind+"/"+ob.Name] || ob.Annot == "" {
			continue
		}
		if mode == "fn" && ob.Ctrl == "other" {
			continue
		}
		if !desired[ob.Annot] {
			expect[ob.Kind+"/"+ob.Name] = true
		}
	}
	deleted := map[string]bool{}
	writes := 0
	// direct monitor (independent of the model): once a read of a REFERENCED composed resource
	// has been answered with an error other than NotFound, observing the existing composed
	// resources has failed, and nothing may be written to a composed resource or to the XR's
	// spec (resourceRefs) in this reconcile
	obsFailed := ""
	for _, c := range o.Calls {
		f := strings.Fields(c)
		verb, key := f[0], f[1]
		if verb == "get" && !strings.HasPrefix(key, "XThing/") && inRefs[key] && obsFailed == "" &&
			(strings.Contains(c, " fail>") || strings.Contains(c, " conflict>")) {
			obsFailed = c
		} else if obsFailed != "" && verb != "get" && !strings.HasSuffix(key, "/status") &&
			(strings.Contains(c, " ok>") && !strings.HasSuffix(c, ">notFound") || strings.Contains(c, " crashAfter>")) {
			w.mon("C03:write-after-failed-observation", fmt.Sprintf("%q was applied although reading the referenced composed resource failed before (%q)", c, obsFailed))
		}
		applied := strings.Contains(c, " ok>") && !strings.HasSuffix(c, ">notFound") || strings.Contains(c, " crashAfter>")
		if !applied {
			continue
		}
		isXR := strings.HasPrefix(key, "XThing/")
		if isXR {
			if (verb == "patch" || verb == "update") && !strings.HasSuffix(key, "/status") {
				// addFinalizer is the only harmless main-resource write
				if !(verb == "update" && mode == "fn") {
					writes++
				}
			}
			continue
		}
		if verb == "get" {
			continue
		}
		writes++
		if verb == "delete" || verb == "update" {
			if ob, ok := byKey[key]; ok && desired[ob.Annot] && ob.Annot != "" && !(mode == "pt" && false) {
				w.mon("C03:gc-touched-desired", fmt.Sprintf("%s addressed to %s which is still desired (%s)", verb, key, ob.Annot))
			}
			if !expect[key] {
				w.mon("C03:gc-outside-target-set", fmt.Sprintf("%s addressed to %s which is not an undesired composed resource of this XR", verb, key))
			}
			if verb == "delete" {
				deleted[key] = true
			}
		}
	}
	if mode == "fn" && rd.FnErr != "" && writes > 0 {
		w.mon("C03:write-on-failed-pipeline", fmt.Sprintf("%d writes although the pipeline failed", writes))
	}
	if o.Result == "success" {
		for k := range expect {
			if !deleted[k] {
				w.mon("C03:gc-missed", "composition succeeded but undesired composed resource "+k+" was not deleted")
			}
		}
	}
}

func c03GenXW(r *Rng) xwScn {
	s := c01Gen(r)
	// more failing pipelines and shrinking desired sets
	for i := range s.Rounds {
		if s.Mode == "fn" && r.Chance(1, 3) {
			s.Rounds[i].FnErr = Pick(r, []string{"error", "fatal"})
		}
		if r.Chance(1, 2) && len(s.Rounds[i].Desired) > 0 {
			s.Rounds[i].Desired = s.Rounds[i].Desired[:r.Intn(len(s.Rounds[i].Desired))]
		}
		if r.Chance(2, 3) {
			s.Rounds[i].Fault = nil
		}
	}
	// aim a failing answer at the LIVE fallback read of a referenced composed resource (cached
	// read: NotFound because the object is missing from the cache, or does not exist)
	if r.Chance(1, 5) && len(s.Refs) > 0 {
		exists := map[string]bool{}
		for _, o := range s.Objs {
			exists[o.Kind+"/"+o.Name] = true
		}
		j := r.Intn(len(s.Refs))
		k := 1
		if !s.Fin {
			k = 2
		}
		for _, p := range s.Refs[:j] {
			if exists[p.Kind+"/"+p.Name] {
				k++
			} else {
				k += 2
			}
		}
		t := s.Refs[j]
		s.Rounds[0].Miss = nil
		s.Rounds[0].MissSel = nil
		if exists[t.Kind+"/"+t.Name] {
			s.Rounds[0].Miss = []xwRef{t}
		}
		s.Rounds[0].Fault = &xwFault{K: k + 1, O: Pick(r, []string{"fail", "fail", "conflict"})}
	}
	return s
}

func c03RunXW(s *xwScn) (c01Obs, []Mon) {
	w := xwNewWorld(*s)
	obs := c01Obs{}
	created := []xwRef{} // composed resources created in the previous round
	for i := range s.Rounds {
		refs0, objs0, _ := w.view()
		rd := &s.Rounds[i]
		if rd.Miss == nil && len(rd.MissSel) > 0 {
			rd.Miss = w.pickMiss(rd.MissSel, created)
		}
		rd.MissSel = nil
		o := w.xwRunRound(s.Mode, rd, nil)
		c03CheckRound(s.Mode, rd, refs0, objs0, o, w)
		obs.Rounds = append(obs.Rounds, o)
		had := map[string]bool{}
		for _, ob := range objs0 {
			had[ob.Kind+"/"+ob.Name] = true
		}
		created = created[:0]
		_, objs1, _ := w.view()
		for _, ob := range objs1 {
			if !had[ob.Kind+"/"+ob.Name] {
				created = append(created, xwRef{Kind: ob.Kind, Name: ob.Name})
			}
		}
	}
	// C01 monitors are not C03's business
	var mons []Mon
	for _, m := range w.mons {
		if strings.HasPrefix(m.Sig, "C03:") {
			mons = append(mons, m)
		}
	}
	sort.Slice(mons, func(i, j int) bool { return mons[i].Sig < mons[j].Sig })
	return obs, mons
}

// c03PipeRun runs a pipeline scenario (C04 family) and states C03's own clause on it: an answer
// whose requirements did not stabilise must not lead to any write (C04 reports the acceptance
// itself under its own signature, which C03's check does not count).
func c03PipeRun(s c04Scn) (c04Obs, []Mon) {
	obs, mons := c04Run(s)
	for _, m := range mons {
		if m.Sig == "C04:unstable-requirements-accepted" && obs.Writes > 0 {
			mons = append(mons, Mon{Sig: "C03:write-with-unstable-requirements", Why: fmt.Sprintf("%d writes to composed resources / resourceRefs although %s", obs.Writes, m.Why)})
			break
		}
	}
	return obs, mons
}

func init() {
	Register("C03", func(c *Ctx) {
		for _, raw := range c.Corpus {
			var probe map[string]json.RawMessage
			if json.Unmarshal(raw, &probe) != nil {
				continue
			}
			if _, ok := probe["ptdup"]; ok {
				var s c03PtDupScn
				if json.Unmarshal(raw, &s) == nil && len(s.Rounds) > 0 {
					obs, mons := c03PtDupRun(&s)
					c.Emit(s, obs, mons, "corpus")
				}
			} else if _, ok := probe["direct"]; ok {
				var s c03DirectScn
				if json.Unmarshal(raw, &s) == nil && len(s.Steps) > 0 {
					obs, mons := c03DirectRun(s)
					c.Emit(s, obs, mons, "corpus")
				}
			} else if _, ok := probe["fetch"]; ok {
				var s c03FetchScn
				if json.Unmarshal(raw, &s) == nil && len(s.Answers) > 0 {
					obs, mons := c03FetchRun(&s)
					c.Emit(s, obs, mons, "corpus")
				}
			} else if _, ok := probe["steps"]; ok {
				var s c04Scn
				if json.Unmarshal(raw, &s) == nil {
					obs, mons := c03PipeRun(s)
					c.Emit(s, obs, mons, "corpus")
				}
			} else {
				var s xwScn
				if json.Unmarshal(raw, &s) == nil && len(s.Rounds) > 0 {
					obs, mons := c03RunXW(&s)
					c.Emit(s, obs, mons, "corpus")
				}
			}
		}
		for i := 0; i < c.N; i++ {
			if i%12 == 11 {
				s, cls := c03PtDupGen(c.Rng)
				obs, mons := c03PtDupRun(&s)
				c.Emit(s, obs, mons, cls)
			} else if i%6 == 5 {
				s, cls := c03DirectGen(c.Rng)
				obs, mons := c03DirectRun(s)
				c.Emit(s, obs, mons, cls)
			} else if i%6 == 4 {
				s := c03FetchGen(c.Rng)
				obs, mons := c03FetchRun(&s)
				res := obs.Result
				if strings.HasPrefix(res, "ok") {
					res = "ok"
				}
				fault := "none"
				if s.Fault != nil {
					fault = s.Fault.O
				}
				c.Emit(s, obs, mons, fmt.Sprintf("fetch/calls=%d/reads=%d/fault=%s/%s", len(obs.Reqs), min(len(obs.Calls), 4), fault, res))
			} else if i%6 < 2 {
				s := c03GenXW(c.Rng)
				obs, mons := c03RunXW(&s)
				fails, gcs := 0, 0
				for j, rd := range s.Rounds {
					if rd.FnErr != "" {
						fails++
					}
					for _, cl := range obs.Rounds[j].Calls {
						if strings.HasPrefix(cl, "delete ") {
							gcs++
						}
					}
				}
				c.Emit(s, obs, mons, fmt.Sprintf("xw/%s/fails=%d/deletes=%d", s.Mode, fails, min(gcs, 4)))
			} else {
				s := c04Gen(c.Rng)
				obs, mons := c03PipeRun(s)
				c.Emit(s, obs, mons, fmt.Sprintf("pipe/steps=%d/err=%v/writes=%d", len(s.Steps), obs.Err, min(obs.Writes, 6)))
			}
		}
	})
}

//go:build verif

package main

// C03: a failing composition pipeline is never destructive; garbage collection is exact.
// Two scenario families: (1) XR worlds (xrworld.go) with failing function output /
// shrinking desired sets / removed templates, reconciled by the real Reconciler;
// (2) multi-step pipelines of generated function programs (c04.go) with errors, fatal
// results, missing credentials and non-stabilising requirements, run through the real
// FunctionComposer + FetchingFunctionRunner.

import (
	"encoding/json"
	"fmt"
	"sort"
	"strings"
)

// c03CheckRound evaluates the GC-exactness and no-write-on-failure clauses on one round.
func c03CheckRound(mode string, rd *xwRound, startRefs []xwRef, startObjs []xwObj, o xwRoundObs, w *xwWorld) {
	inRefs := map[string]bool{}
	for _, r := range startRefs {
		inRefs[r.Kind+"/"+r.Name] = true
	}
	desired := map[string]bool{}
	for _, d := range rd.Desired {
		desired[d.RName] = true
	}
	byKey := map[string]xwObj{}
	for _, ob := range startObjs {
		byKey[ob.Kind+"/"+ob.Name] = ob
	}
	// expected GC set
	expect := map[string]bool{}
	for _, ob := range startObjs {
		if !inRefs[ob.Kind+"/"+ob.Name] || ob.Annot == "" {
			continue
		}
		if mode == "fn" && ob.Ctrl == "other" {
			continue
		}
		if !desired[ob.Annot] {
			expect[ob.Kind+"/"+ob.Name] = true
		}
	}
	deleted := map[string]bool{}
	writes := 0
	for _, c := range o.Calls {
		f := strings.Fields(c)
		verb, key := f[0], f[1]
		applied := strings.Contains(c, " ok>") && !strings.HasSuffix(c, ">notFound") || strings.Contains(c, " crashAfter>")
		if !applied {
			continue
		}
		isXR := strings.HasPrefix(key, "XThing/")
		if isXR {
			if (verb == "patch" || verb == "update") && !strings.HasSuffix(key, "/status") {
				// addFinalizer is the only harmless main-resource write
				if !(verb == "update" && mode == "fn") {
					writes++
				}
			}
			continue
		}
		if verb == "get" {
			continue
		}
		writes++
		if verb == "delete" || verb == "update" {
			if ob, ok := byKey[key]; ok && desired[ob.Annot] && ob.Annot != "" && !(mode == "pt" && false) {
				w.mon("C03:gc-touched-desired", fmt.Sprintf("%s addressed to %s which is still desired (%s)", verb, key, ob.Annot))
			}
			if !expect[key] {
				w.mon("C03:gc-outside-target-set", fmt.Sprintf("%s addressed to %s which is not an undesired composed resource of this XR", verb, key))
			}
			if verb == "delete" {
				deleted[key] = true
			}
		}
	}
	if mode == "fn" && rd.FnErr != "" && writes > 0 {
		w.mon("C03:write-on-failed-pipeline", fmt.Sprintf("%d writes although the pipeline failed", writes))
	}
	if o.Result == "success" {
		for k := range expect {
			if !deleted[k] {
				w.mon("C03:gc-missed", "composition succeeded but undesired composed resource "+k+" was not deleted")
			}
		}
	}
}

func c03GenXW(r *Rng) xwScn {
	s := c01Gen(r)
	// more failing pipelines and shrinking desired sets
	for i := range s.Rounds {
		if s.Mode == "fn" && r.Chance(1, 3) {
			s.Rounds[i].FnErr = Pick(r, []string{"error", "fatal"})
		}
		if r.Chance(1, 2) && len(s.Rounds[i].Desired) > 0 {
			s.Rounds[i].Desired = s.Rounds[i].Desired[:r.Intn(len(s.Rounds[i].Desired))]
		}
		if r.Chance(2, 3) {
			s.Rounds[i].Fault = nil
		}
	}
	return s
}

func c03RunXW(s *xwScn) (c01Obs, []Mon) {
	w := xwNewWorld(*s)
	obs := c01Obs{}
	for i := range s.Rounds {
		refs0, objs0, _ := w.view()
		o := w.xwRunRound(s.Mode, &s.Rounds[i], nil)
		c03CheckRound(s.Mode, &s.Rounds[i], refs0, objs0, o, w)
		obs.Rounds = append(obs.Rounds, o)
	}
	// C01 monitors are not C03's business
	var mons []Mon
	for _, m := range w.mons {
		if strings.HasPrefix(m.Sig, "C03:") {
			mons = append(mons, m)
		}
	}
	sort.Slice(mons, func(i, j int) bool { return mons[i].Sig < mons[j].Sig })
	return obs, mons
}

func init() {
	Register("C03", func(c *Ctx) {
		for _, raw := range c.Corpus {
			var probe map[string]json.RawMessage
			if json.Unmarshal(raw, &probe) != nil {
				continue
			}
			if _, ok := probe["steps"]; ok {
				var s c04Scn
				if json.Unmarshal(raw, &s) == nil {
					obs, mons := c04Run(s)
					c.Emit(s, obs, mons, "corpus")
				}
			} else {
				var s xwScn
				if json.Unmarshal(raw, &s) == nil && len(s.Rounds) > 0 {
					obs, mons := c03RunXW(&s)
					c.Emit(s, obs, mons, "corpus")
				}
			}
		}
		for i := 0; i < c.N; i++ {
			if i%2 == 0 {
				s := c03GenXW(c.Rng)
				obs, mons := c03RunXW(&s)
				fails, gcs := 0, 0
				for j, rd := range s.Rounds {
					if rd.FnErr != "" {
						fails++
					}
					for _, cl := range obs.Rounds[j].Calls {
						if strings.HasPrefix(cl, "delete ") {
							gcs++
						}
					}
				}
				c.Emit(s, obs, mons, fmt.Sprintf("xw/%s/fails=%d/deletes=%d", s.Mode, fails, min(gcs, 4)))
			} else {
				s := c04Gen(c.Rng)
				obs, mons := c04Run(s)
				c.Emit(s, obs, mons, fmt.Sprintf("pipe/steps=%d/err=%v/writes=%d", len(s.Steps), obs.Err, min(obs.Writes, 6)))
			}
		}
	})
}

//go:build verif

package main

// C17 "glue" scenarios: the repository's own code between the libraries and the DAG —
// the conversion of a package's meta dependsOn entries into lock dependencies at the top of
// PackageDependencyManager.Resolve (which of apiVersion+kind+package / configuration /
// provider / function wins, what is recorded, in which order, duplicates kept), the lock
// entry Resolve records for the revision (xpkg.ParsePackageSourceFromReference: Source;
// Identifier: Version; apiVersion and kind of the manager's package type), and what the lock
// reconciler constructs for a recorded dependency (resolver.NewPackage / NewPackageList: kind
// dispatch, spec.package format). The model (Model/C17Glue.lean) computes all of it from the
// scenario; the only oracle is go-containerregistry's `ref.String()` / `ref.Identifier()`.

import (
	"context"
	"fmt"
	"strings"

	"github.com/google/go-containerregistry/pkg/name"
	metav1 "k8s.io/apimachinery/pkg/apis/meta/v1"
	"k8s.io/apimachinery/pkg/types"

	pkgmetav1 "github.com/crossplane/crossplane/apis/pkg/meta/v1"
	pkgv1 "github.com/crossplane/crossplane/apis/pkg/v1"
	"github.com/crossplane/crossplane/apis/pkg/v1beta1"
	"github.com/crossplane/crossplane/internal/controller/pkg/resolver"
	"github.com/crossplane/crossplane/internal/controller/pkg/revision"
	"github.com/crossplane/crossplane/internal/dag"
	"github.com/crossplane/crossplane/internal/xpkg"
)

type c17MetaDep struct {
	APIVersion    *string `json:"apiVersion"`
	Kind          *string `json:"kindf"`
	Package       *string `json:"package"`
	Provider      *string `json:"provider"`
	Configuration *string `json:"configuration"`
	Function      *string `json:"function"`
	Version       string  `json:"version"`
}

// c17RefStr: what go-containerregistry makes of a reference (oracle shipped to the model)
type c17RefStr struct {
	In    string `json:"in"`
	Str   string `json:"str"`   // ref.String()
	Ident string `json:"ident"` // ref.Identifier()
}

type c17GlueScn struct {
	Kind    string       `json:"kind"` // "glue"
	Image   string       `json:"image"`   // spec.package of the revision
	Deps    []c17MetaDep `json:"deps"`    // its meta dependsOn
	Version string       `json:"version"` // the version NewPackage is asked to install
	// Refs: name.ParseReference of Image (default registry "") and of every dependency package
	// (default registry xpkg.io); absent = does not parse
	Refs []c17RefStr `json:"refs"`
	// PkgKind: the package type the manager serves (0 Provider, 1 Configuration, 2 Function)
	PkgKind int `json:"pkgKind"`
}

type c17LockDepObs struct {
	Pkg        string  `json:"pkg"`
	APIVersion *string `json:"apiVersion"`
	Kind       *string `json:"kindf"`
	Type       *string `json:"type"`
	Con        string  `json:"con"`
}

type c17NewPkgObs struct {
	Err        bool   `json:"err"`
	APIVersion string `json:"apiVersion"`
	Kind       string `json:"kindf"`
	Image      string `json:"image"`
	ListAPI    string `json:"listApiVersion"`
	ListKind   string `json:"listKind"`
}

type c17GlueObs struct {
	// Err: "" | "invalidDependency" | "parseRef" | "other:..."; Recorded: an entry was recorded
	Err      string          `json:"err"`
	Recorded bool            `json:"recorded"`
	Source   string          `json:"source"`
	Version  string          `json:"version"`
	SelfAPI  string          `json:"selfApiVersion"`
	SelfKind string          `json:"selfKind"`
	Deps     []c17LockDepObs `json:"deps"`
	// New: NewPackage / NewPackageList for every recorded dependency whose package parses
	New []c17NewPkgObs `json:"new"`
}

var c17GlueImages = []string{
	"xpkg.io/o/a:v1.2.3", "xpkg.io/o/a", "xpkg.io/o/a@" + c17DigestA, "xpkg.io/o/a:v1.0.0@" + c17DigestA,
	"localhost:5000/o/a:v1.0.0", "localhost:5000/o/a", "localhost:5000/a", "localhost:5000/a@" + c17DigestB,
	"o/a:1.0.0", "a:1.0.0", "a", "reg.io:443/x/y/z:tag", "reg.io/x/y/z", "index.docker.io/o/a:1",
	"xpkg.io/O/a:1", "xpkg.io/o/a:", "", "xpkg.io/o/a:v1.0.0:v2", "xpkg.io/o/a/:v1", "xpkg.io/o-a.b_c/d:v0.0.1-rc.1",
}

var c17GluePkgs = []string{"xpkg.io/o/a", "xpkg.io/o/b", "index.docker.io/o/a", "o/c", "localhost:5000/o/a", "xpkg.io/O/bad", ""}

func c17GluePtr(r *Rng, pool []string, p, q int) *string {
	if !r.Chance(p, q) {
		return nil
	}
	s := Pick(r, pool)
	return &s
}

func c17GlueRandom(c *Ctx) {
	r := c.Rng
	s := c17GlueScn{Image: Pick(r, c17GlueImages), Version: Pick(r, []string{"v1.2.3", "1.0.0", c17DigestA, "sha256:", "sha256", ""}), PkgKind: r.Intn(3)}
	n := r.Intn(5)
	apis := []string{"pkg.crossplane.io/v1", "pkg.crossplane.io/v1beta1", "example.org/v1", ""}
	kinds := []string{"Provider", "Configuration", "Function", "Thing", ""}
	for i := 0; i < n; i++ {
		d := c17MetaDep{Version: c17GenEasyConstraint(r)}
		switch k := r.Intn(12); {
		case k < 3: // explicit GVK + package
			d.APIVersion, d.Kind, d.Package = c17GluePtr(r, apis, 1, 1), c17GluePtr(r, kinds, 1, 1), c17GluePtr(r, c17GluePkgs, 1, 1)
		case k < 5:
			d.Provider = c17GluePtr(r, c17GluePkgs, 1, 1)
		case k < 7:
			d.Configuration = c17GluePtr(r, c17GluePkgs, 1, 1)
		case k < 8:
			d.Function = c17GluePtr(r, c17GluePkgs, 1, 1)
		case k < 9: // nothing set
		default: // any subset: the precedence of the switch
			d.APIVersion, d.Kind, d.Package = c17GluePtr(r, apis, 1, 2), c17GluePtr(r, kinds, 1, 2), c17GluePtr(r, c17GluePkgs, 1, 2)
			d.Provider, d.Configuration, d.Function = c17GluePtr(r, c17GluePkgs, 1, 2), c17GluePtr(r, c17GluePkgs, 1, 2), c17GluePtr(r, c17GluePkgs, 1, 2)
		}
		if r.Chance(1, 6) && i > 0 { // the same entry again, with another constraint
			d = s.Deps[r.Intn(i)]
			d.Version = c17GenConstraint(r)
		}
		s.Deps = append(s.Deps, d)
	}
	c17GlueEmit(c, s, "rnd")
}

func c17GlueEmit(c *Ctx, s c17GlueScn, prefix string) {
	s.Kind = "glue"
	if s.Deps == nil {
		s.Deps = []c17MetaDep{}
	}
	// oracle: reference parsing
	s.Refs = []c17RefStr{}
	seen := map[string]bool{}
	addRef := func(in string, reg string) {
		if seen[in+"\x00"+reg] {
			return
		}
		seen[in+"\x00"+reg] = true
		if ref, err := name.ParseReference(in, name.WithDefaultRegistry(reg)); err == nil {
			s.Refs = append(s.Refs, c17RefStr{In: reg + "|" + in, Str: ref.String(), Ident: ref.Identifier()})
		}
	}
	addRef(s.Image, "")
	for _, d := range s.Deps {
		for _, p := range []*string{d.Package, d.Provider, d.Configuration, d.Function} {
			if p != nil {
				addRef(*p, "xpkg.io")
			}
		}
	}

	obs := c17GlueObs{Deps: []c17LockDepObs{}, New: []c17NewPkgObs{}}
	var mons []Mon
	st := NewStore(c17Scheme)
	st.Seed(&v1beta1.Lock{ObjectMeta: metav1.ObjectMeta{Name: "lock"}})
	gvk := pkgv1.ProviderGroupVersionKind
	switch s.PkgKind {
	case 1:
		gvk = pkgv1.ConfigurationGroupVersionKind
	case 2:
		gvk = pkgv1.FunctionGroupVersionKind
	}
	m := revision.NewPackageDependencyManager(st, dag.NewMapDag, gvk)
	meta := &pkgmetav1.Provider{}
	for _, d := range s.Deps {
		meta.Spec.DependsOn = append(meta.Spec.DependsOn, pkgmetav1.Dependency{APIVersion: d.APIVersion, Kind: d.Kind, Package: d.Package,
			Provider: d.Provider, Configuration: d.Configuration, Function: d.Function, Version: d.Version})
	}
	pr := &pkgv1.ProviderRevision{ObjectMeta: metav1.ObjectMeta{Name: "rev"}}
	pr.Spec.Package = s.Image
	pr.Spec.DesiredState = pkgv1.PackageRevisionActive
	var err error
	if p := Guard(func() { _, _, _, err = m.Resolve(context.Background(), meta, pr) }); p != "" {
		c.Emit(s, c17GlueObs{Err: "panic", Deps: []c17LockDepObs{}, New: []c17NewPkgObs{}}, []Mon{{Sig: "C17:resolve-panic", Why: p}}, prefix+"/glue/panic")
		return
	}
	invalidDep := err != nil && strings.Contains(err.Error(), "encountered an invalid dependency")
	lock := &v1beta1.Lock{}
	_ = st.Get(context.Background(), types.NamespacedName{Name: "lock"}, lock)
	for _, lp := range lock.Packages {
		if lp.Name != "rev" {
			continue
		}
		obs.Recorded = true
		obs.Source, obs.Version = lp.Source, lp.Version
		if lp.APIVersion != nil {
			obs.SelfAPI = *lp.APIVersion
		}
		if lp.Kind != nil {
			obs.SelfKind = *lp.Kind
		}
		for _, d := range lp.Dependencies {
			o := c17LockDepObs{Pkg: d.Package, APIVersion: d.APIVersion, Kind: d.Kind, Con: d.Constraints}
			if d.Type != nil {
				t := string(*d.Type)
				o.Type = &t
			}
			obs.Deps = append(obs.Deps, o)
			d := d
			ref, perr := name.ParseReference(d.Package, name.WithDefaultRegistry("xpkg.io"))
			if perr != nil {
				continue
			}
			n := c17NewPkgObs{}
			pack, nerr := resolver.NewPackage(&d, s.Version, ref)
			list, lerr := resolver.NewPackageList(&d)
			if (nerr != nil) != (lerr != nil) {
				mons = append(mons, Mon{Sig: "C17:package-and-list-kind-dispatch-differ", Why: fmt.Sprintf("NewPackage err=%v, NewPackageList err=%v for %+v", nerr, lerr, o)})
			}
			if nerr != nil {
				n.Err = true
			} else {
				n.APIVersion, n.Kind = pack.GetAPIVersion(), pack.GetKind()
				if img := c17ImageOf(pack); img != nil {
					n.Image = *img
				}
				if lerr == nil {
					n.ListAPI, n.ListKind = list.GetAPIVersion(), list.GetKind()
				}
				// direct monitor: the object constructed (and the list searched for an installed
				// one) is of the kind the dependency declares: explicit apiVersion and kind first,
				// else the package kind named by the deprecated type
				wantAPI, wantKind := "", ""
				switch {
				case d.APIVersion != nil && d.Kind != nil:
					wantAPI, wantKind = *d.APIVersion, *d.Kind
				case d.Type != nil:
					wantAPI, wantKind = pkgv1.ProviderGroupVersionKind.GroupVersion().String(), string(*d.Type)
				}
				if n.APIVersion != wantAPI || n.Kind != wantKind || (lerr == nil && (n.ListAPI != wantAPI || n.ListKind != wantKind+"List")) {
					mons = append(mons, Mon{Sig: "C17:constructed-kind-differs-from-declared", Why: fmt.Sprintf("dependency %+v: NewPackage %s/%s, NewPackageList %s/%s", o, n.APIVersion, n.Kind, n.ListAPI, n.ListKind)})
				}
				// direct monitor: the package created for a dependency is a package OF that
				// dependency: the source its revision will record is the identifier declared
				if pref, e2 := name.ParseReference(n.Image, name.WithDefaultRegistry("xpkg.io")); e2 == nil && s.Version != "" && !strings.ContainsAny(s.Version, "/@") && (strings.HasPrefix(s.Version, "sha256:") || !strings.Contains(s.Version, ":")) {
					if got, want := xpkg.ParsePackageSourceFromReference(pref), xpkg.ParsePackageSourceFromReference(ref); got != want {
						mons = append(mons, Mon{Sig: "C17:created-package-of-another-source", Why: fmt.Sprintf("dependency %s: created %s, whose source is %s, not %s", d.Package, n.Image, got, want)})
					}
				}
			}
			obs.New = append(obs.New, n)
		}
	}
	// what happens after the entry is recorded (missing dependencies, constraint checks) is the
	// business of the `resolve` scenarios; here: an invalid dependency or an unparsable source
	// stops Resolve before anything is recorded
	switch {
	case invalidDep:
		obs.Err = "invalidDependency"
	case err != nil && !obs.Recorded:
		obs.Err = "parseRef"
	}
	// direct monitors: every declared dependency is recorded, in order, with its own constraint
	if obs.Recorded {
		if len(obs.Deps) != len(s.Deps) {
			mons = append(mons, Mon{Sig: "C17:recorded-entry-differs-from-declared-dependencies", Why: fmt.Sprintf("%d declared, %d recorded", len(s.Deps), len(obs.Deps))})
		} else {
			for i := range s.Deps {
				if obs.Deps[i].Con != s.Deps[i].Version {
					mons = append(mons, Mon{Sig: "C17:recorded-entry-differs-from-declared-dependencies", Why: fmt.Sprintf("entry %d: declared %q, recorded %q", i, s.Deps[i].Version, obs.Deps[i].Con)})
				}
			}
		}
		// ... and as the entry declares it: apiVersion + kind + package when all three are given,
		// else the configuration, else the provider, else the function image with that type
		for i := range s.Deps {
			if i >= len(obs.Deps) {
				break
			}
			in, got := s.Deps[i], obs.Deps[i]
			want := c17LockDepObs{Con: in.Version}
			ty := func(t v1beta1.PackageType) *string { x := string(t); return &x }
			switch {
			case in.APIVersion != nil && in.Kind != nil && in.Package != nil:
				want.Pkg, want.APIVersion, want.Kind = *in.Package, in.APIVersion, in.Kind
			case in.Configuration != nil:
				want.Pkg, want.Type = *in.Configuration, ty(v1beta1.ConfigurationPackageType)
			case in.Provider != nil:
				want.Pkg, want.Type = *in.Provider, ty(v1beta1.ProviderPackageType)
			case in.Function != nil:
				want.Pkg, want.Type = *in.Function, ty(v1beta1.FunctionPackageType)
			}
			if !c17EqualJSON(want, got) {
				mons = append(mons, Mon{Sig: "C17:recorded-dependency-differs-from-declared-entry", Why: fmt.Sprintf("entry %d: declared %s, recorded %s", i, mustJSON(in), mustJSON(got))})
			}
		}
		if strings.ContainsAny(obs.Source, "@") {
			mons = append(mons, Mon{Sig: "C17:recorded-source-carries-a-digest", Why: obs.Source})
		}
	}
	cls := fmt.Sprintf("%s/glue/deps=%d/err=%s/recorded=%v", prefix, len(s.Deps), obs.Err, obs.Recorded)
	c.Emit(s, obs, mons, cls)
}

//go:build verif

package main

// C08 regenerated facts, tie (a): the ordered call skeletons of every Go function the C08
// model mirrors, extracted with go/ast (skel.go) from the CURRENT source tree on every check
// run into lean/Xp/Gen/C08Skel.lean. lean/Xp/Model/C08.lean declares, next to the
// definitions that mirror each function, the skeleton those definitions mirror (one entry
// per call with the model step that mirrors it), and lean/Xp/Props/C08.lean states
// `skeleton_* : Xp.Gen.c08Skel… = <declared>` by `decide`: inserting, removing or
// reordering an API call, a finalizer call, an engine call or one of the branch guards
// (meta.WasDeleted / meta.IsPaused / meta.WasCreated / metav1.IsControlledBy) in one of
// these functions breaks an obligation before any scenario is run.

import "strings"

// the calls the C08 model cares about: client verbs, the finalizer helpers, the engine, the
// Lock manager, the package cache, the branch guards, and the helpers of the live branches
// that create things (Sync, Apply, Start, Resolve ...).
var c08SkelVerbs = SkelVerbs(
	"AddFinalizer", "RemoveFinalizer", "UnpublishConnection", "PropagateConnection", "PublishConnection",
	"Upgrade", "Sync", "Render", "resolveSelectors",
	"Stop", "Start", "StartWatches", "IsRunning",
	"RemoveSelf", "Resolve", "deactivateRevision", "Establish", "Pre", "Post",
	"SelectComposition", "Fetch", "Validate", "Configure", "Compose",
	"WasDeleted", "IsPaused", "WasCreated", "IsControlledBy",
	"cancel", "resolveSelector",
)

func init() {
	RegisterDump("C08Skel", func() string {
		o := SkelOpts{Verbs: c08SkelVerbs, DropRecv: true}
		d := "internal/controller/"
		var sb strings.Builder
		sb.WriteString(SkelDef("c08SkelClaim", d+"apiextensions/claim/reconciler.go", "Reconciler", "Reconcile", o))
		sb.WriteString(SkelDef("c08SkelXR", d+"apiextensions/composite/reconciler.go", "Reconciler", "Reconcile", o))
		sb.WriteString(SkelDef("c08SkelDefined", d+"apiextensions/definition/reconciler.go", "Reconciler", "Reconcile", o))
		sb.WriteString(SkelDef("c08SkelOffered", d+"apiextensions/offered/reconciler.go", "Reconciler", "Reconcile", o))
		sb.WriteString(SkelDef("c08SkelRevision", d+"pkg/revision/reconciler.go", "Reconciler", "Reconcile", o))
		sb.WriteString(SkelDef("c08SkelRemoveSelf", d+"pkg/revision/dependency.go", "PackageDependencyManager", "RemoveSelf", o))
		sb.WriteString(SkelDef("c08SkelResolve", d+"pkg/revision/dependency.go", "PackageDependencyManager", "Resolve", o))
		sb.WriteString(SkelDef("c08SkelUsage", d+"apiextensions/usage/reconciler.go", "Reconciler", "Reconcile", o))
		sb.WriteString(SkelDef("c08SkelSelResolve", d+"apiextensions/usage/selector.go", "apiSelectorResolver", "resolveSelectors", o))
		sb.WriteString(SkelDef("c08SkelSelResolveOne", d+"apiextensions/usage/selector.go", "apiSelectorResolver", "resolveSelector", o))
		sb.WriteString(SkelDef("c08SkelEngineStop", "internal/engine/engine.go", "ControllerEngine", "Stop", o))
		sb.WriteString(SkelDef("c08SkelEngineStart", "internal/engine/engine.go", "ControllerEngine", "Start", o))
		return sb.String()
	})
}

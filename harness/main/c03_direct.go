//go:build verif

package main

// C03, fourth scenario family (monitor-only, no model comparison): the REAL
// FunctionComposer.Compose driven directly with scripted steps whose answers carry
//   * desired entries WITHOUT a resource body for observed names (a step that rewrites an entry as
//     `{ready: TRUE}`), and
//   * result lists in which a FATAL result repeats the text of an earlier normal / warning
//     result (same answer or an earlier step).
// The property's clauses are evaluated directly on the real write log:
//   C03:write-after-fatal-result            a step returned a fatal result and a composed resource
//                                           or the XR's spec (resourceRefs) was written
//   C03:still-desired-resource-deleted      an observed composed resource whose name is in the final
//                                           desired state was label-stripped or deleted
//   C03:still-desired-resource-dropped-from-refs   … or is no longer referenced after a successful Compose

import (
	"context"
	"fmt"
	"strings"

	"google.golang.org/protobuf/types/known/structpb"
	"k8s.io/apimachinery/pkg/runtime/schema"

	ucomposite "github.com/crossplane/crossplane-runtime/pkg/resource/unstructured/composite"

	fnv1 "github.com/crossplane/crossplane/apis/apiextensions/fn/proto/v1"
	v1 "github.com/crossplane/crossplane/apis/apiextensions/v1"
	"github.com/crossplane/crossplane/internal/controller/apiextensions/composite"
)

type c03DDesired struct {
	RName   string `json:"rname"`
	Kind    string `json:"kind"`
	Content int    `json:"content"`
	NoBody  bool   `json:"nobody"` // the entry has no resource body (only readiness)
}

type c03DResult struct {
	Sev string `json:"sev"` // normal | warning | fatal
	Msg string `json:"msg"`
}

type c03DStep struct {
	Desired []c03DDesired `json:"desired"`
	Results []c03DResult  `json:"results"`
}

type c03DirectScn struct {
	Direct bool       `json:"direct"`
	Refs   []xwRef    `json:"refs"`
	Objs   []xwObj    `json:"objs"`
	Steps  []c03DStep `json:"steps"`
}

type c03DirectObs struct{}

func c03DirectRun(s c03DirectScn) (c03DirectObs, []Mon) {
	w := xwNewWorld(xwScn{Mode: "fn", Fin: true, Refs: s.Refs, Objs: s.Objs})
	st := w.St
	var mons []Mon
	rev := &v1.CompositionRevision{}
	for i := range s.Steps {
		rev.Spec.Pipeline = append(rev.Spec.Pipeline, v1.PipelineStep{Step: fmt.Sprintf("s%d", i), FunctionRef: v1.FunctionReference{Name: fmt.Sprintf("fn%d", i)}})
	}
	sawFatal := false
	last := -1
	inner := composite.FunctionRunnerFn(func(_ context.Context, name string, _ *fnv1.RunFunctionRequest) (*fnv1.RunFunctionResponse, error) {
		var i int
		fmt.Sscanf(name, "fn%d", &i)
		last = i
		sp := s.Steps[i]
		rsp := &fnv1.RunFunctionResponse{Desired: &fnv1.State{Resources: map[string]*fnv1.Resource{}}}
		for _, d := range sp.Desired {
			r := &fnv1.Resource{Ready: fnv1.Ready_READY_TRUE}
			if !d.NoBody {
				r.Resource, _ = structpb.NewStruct(map[string]any{"apiVersion": xwAPIVersion(d.Kind, "v1"), "kind": xwKindGVK(d.Kind).Kind, "spec": map[string]any{"content": d.Content}})
			}
			rsp.Desired.Resources[d.RName] = r
		}
		for _, x := range sp.Results {
			sev := map[string]fnv1.Severity{"normal": fnv1.Severity_SEVERITY_NORMAL, "warning": fnv1.Severity_SEVERITY_WARNING, "fatal": fnv1.Severity_SEVERITY_FATAL}[x.Sev]
			rsp.Results = append(rsp.Results, &fnv1.Result{Severity: sev, Message: x.Msg})
			if x.Sev == "fatal" {
				sawFatal = true
			}
		}
		return rsp, nil
	})
	fc := composite.NewFunctionComposer(st, st, inner)
	xr := ucomposite.New(ucomposite.WithGroupVersionKind(xwXRGVK))
	_ = st.Get(context.Background(), clientKey(xwXRName), xr)
	st.Log = nil
	refs0, objs0, _ := w.view()
	var err error
	if p := Guard(func() {
		_, err = fc.Compose(context.Background(), xr, composite.CompositionRequest{Revision: rev})
	}); p != "" {
		mons = append(mons, Mon{Sig: "C03:panic", Why: p})
	}
	writes := []string{}
	touched := map[string]string{}
	for _, c := range st.Log {
		if !c.IsWrite() || !c.Applied {
			continue
		}
		gk := schema.ParseGroupKind(c.GK)
		k := xwModelKind(gk.Group, gk.Kind)
		if k == xwXRGVK.Kind {
			if c.Sub == "" {
				writes = append(writes, c.Verb+" "+k+"/"+c.Name)
			}
			continue
		}
		writes = append(writes, c.Verb+" "+k+"/"+c.Name)
		if c.Verb == "delete" || c.Verb == "update" {
			touched[k+"/"+c.Name] = c.Verb
		}
	}
	if sawFatal && len(writes) > 0 {
		mons = append(mons, Mon{Sig: "C03:write-after-fatal-result", Why: fmt.Sprintf("a step returned a fatal result, yet Compose wrote %v", writes)})
	}
	if last >= 0 {
		final := map[string]bool{}
		for _, d := range s.Steps[last].Desired {
			final[d.RName] = true
		}
		inRefs := map[string]bool{}
		for _, r := range refs0 {
			inRefs[r.Kind+"/"+r.Name] = true
		}
		refs1, _, _ := w.view()
		still := map[string]bool{}
		for _, r := range refs1 {
			still[r.Kind+"/"+r.Name] = true
		}
		for _, o := range objs0 {
			key := o.Kind + "/" + o.Name
			if !inRefs[key] || o.Ctrl == "other" || o.Annot == "" || !final[o.Annot] {
				continue
			}
			if v, ok := touched[key]; ok {
				mons = append(mons, Mon{Sig: "C03:still-desired-resource-deleted", Why: fmt.Sprintf("%s of %s although %q is in the final desired state", v, key, o.Annot)})
			}
			if err == nil && !still[key] {
				mons = append(mons, Mon{Sig: "C03:still-desired-resource-dropped-from-refs", Why: fmt.Sprintf("Compose succeeded and %s (%q, still desired) is no longer in spec.resourceRefs", key, o.Annot)})
			}
		}
	}
	// at most one report per signature
	seen := map[string]bool{}
	out := []Mon{}
	for _, m := range mons {
		if !seen[m.Sig] {
			seen[m.Sig] = true
			out = append(out, m)
		}
	}
	return c03DirectObs{}, out
}

func c03DirectGen(r *Rng) (c03DirectScn, string) {
	s := c03DirectScn{Direct: true, Refs: []xwRef{}, Objs: []xwObj{}, Steps: []c03DStep{}}
	names := []string{"a", "b", "c"}
	for i, n := range names {
		if r.Chance(2, 3) {
			o := xwObj{Kind: c01KindOf[n], Name: fmt.Sprintf("xr-pre%d", i), Annot: n, Ctrl: "xr", Content: r.Intn(3), SSA: true}
			s.Objs = append(s.Objs, o)
			s.Refs = append(s.Refs, xwRef{Kind: o.Kind, Name: o.Name})
		}
	}
	nobody, fatal := 0, 0
	n := r.Range(1, 3)
	for i := 0; i < n; i++ {
		sp := c03DStep{Desired: []c03DDesired{}, Results: []c03DResult{}}
		for _, nm := range names {
			if r.Chance(2, 3) {
				d := c03DDesired{RName: nm, Kind: c01KindOf[nm], Content: r.Intn(3), NoBody: r.Chance(1, 5)}
				if d.NoBody {
					nobody++
				}
				sp.Desired = append(sp.Desired, d)
			}
		}
		for j, k := 0, r.Intn(3); j < k; j++ {
			x := c03DResult{Sev: Pick(r, []string{"normal", "warning", "normal", "fatal"}), Msg: Pick(r, []string{"m0", "m1"})}
			if x.Sev == "fatal" {
				fatal++
			}
			sp.Results = append(sp.Results, x)
		}
		s.Steps = append(s.Steps, sp)
	}
	return s, fmt.Sprintf("direct/steps=%d/nobody=%d/fatal=%d", n, min(nobody, 2), min(fatal, 2)) + strings.Repeat("", 0)
}

//go:build verif

package main

// C05, family "claimseq": ONE long-lived claim.Reconciler (client-side or server-side syncer),
// driven through a sequence of reconciles of several claims (the same name in two namespaces, a
// name that is a prefix of another) whose XRs (names related by prefixes) are bound to them, to
// nobody, to another claim (other namespace / name / kind / API version) or missing. Between two
// claim reconciles the XR controller rewrites the XR's conditions; the informer cache may serve the
// previous XR version, or miss the XR, on the reconciler's read; the XR controller may rewrite the
// XR between that read and the syncer's writes; every API call class may fail with any error class.
// Clause: a claim is reported Ready=True only by a reconcile that observed its bound XR Ready=True.

import (
	"context"
	"fmt"
	"sort"

	corev1 "k8s.io/api/core/v1"
	metav1 "k8s.io/apimachinery/pkg/apis/meta/v1"
	"k8s.io/apimachinery/pkg/apis/meta/v1/unstructured"
	"k8s.io/apimachinery/pkg/runtime"
	"k8s.io/apimachinery/pkg/runtime/schema"
	"k8s.io/apimachinery/pkg/types"
	"sigs.k8s.io/controller-runtime/pkg/client"
	"sigs.k8s.io/controller-runtime/pkg/reconcile"

	xpv1 "github.com/crossplane/crossplane-runtime/apis/common/v1"
	"github.com/crossplane/crossplane-runtime/pkg/fieldpath"
	"github.com/crossplane/crossplane-runtime/pkg/resource"
	uclaim "github.com/crossplane/crossplane-runtime/pkg/resource/unstructured/claim"
	ucomposite "github.com/crossplane/crossplane-runtime/pkg/resource/unstructured/composite"
	"github.com/crossplane/crossplane-runtime/pkg/resource/unstructured/reference"

	"github.com/crossplane/crossplane/internal/controller/apiextensions/claim"
	"github.com/crossplane/crossplane/internal/names"
)

type c05Ref struct {
	APIVersion string `json:"apiVersion"`
	Kind       string `json:"kind"`
	NS         string `json:"ns"`
	Name       string `json:"name"`
}

type c05View struct {
	Conds      []c05Cond `json:"conds"`
	ClaimTypes []string  `json:"claimTypes"`
}

type c05CXR struct {
	Name    string  `json:"name"`
	Present bool    `json:"present"`
	Ref     *c05Ref `json:"ref"` // spec.claimRef (null = bindable)
	View    c05View `json:"view"`
}

type c05Claim struct {
	Name string    `json:"name"`
	NS   string    `json:"ns"`
	XR   int       `json:"xr"` // the XR its spec.resourceRef names
	Old  []c05Cond `json:"old"`
}

type c05CStep struct {
	Claim  int  `json:"claim"`
	Paused bool `json:"paused"`
	// Set: the XR controller's latest status write, landing before this reconcile (null = none)
	Set *c05View `json:"set"`
	// Stale: the cache serves the XR as it was before Set to the reconciler's read
	Stale bool `json:"stale"`
	// Flip: the XR controller's status write landing between the reconciler's read of the XR and
	// the syncer's first API call
	Flip *c05View `json:"flip"`
	// Point/Err: the API call (class) that fails, and how
	Point string `json:"point"` // getClaim getXR sync propagate status
	Err   string `json:"err"`
}

type c05ClaimSeqScn struct {
	Kind   string     `json:"kind"` // "claimseq"
	SSA    bool       `json:"ssa"`
	XRs    []c05CXR   `json:"xrs"`
	Claims []c05Claim `json:"claims"`
	Steps  []c05CStep `json:"steps"`
}

var c05ClaimIDs = [][2]string{{"claim", "ns"}, {"claim", "ns2"}, {"claim-a", "ns"}, {"clai", "ns"}}
var c05CXRNames = []string{"xr1", "xr1-a", "xr", "xr1-ab"}

func c05SelfRef(c c05Claim) c05Ref {
	return c05Ref{APIVersion: "example.org/v1", Kind: c05ClaimGVK.Kind, NS: c.NS, Name: c.Name}
}

func c05GenView(r *Rng) c05View {
	v := c05View{Conds: []c05Cond{}, ClaimTypes: []string{}}
	seen := map[string]bool{}
	if r.Chance(2, 3) {
		// the XR controller's verdict, at any position of the list
		seen["Ready"] = true
		v.Conds = append(v.Conds, c05Cond{Type: "Ready", Status: Pick(r, []string{"True", "True", "False"}), Reason: Pick(r, []string{"XRAvail", "XRCreating"})})
	}
	for i, n := 0, r.Intn(5); i < n; i++ {
		t := Pick(r, []string{"Ready", "Ready", "Synced", "Custom", "DatabaseReady", "ready", "ReadyX"})
		if seen[t] {
			continue
		}
		seen[t] = true
		v.Conds = append(v.Conds, c05Cond{Type: t, Status: Pick(r, []string{"True", "True", "False", "Unknown"}), Reason: Pick(r, []string{"XRAvail", "XRCreating", "Fn"})})
	}
	for _, t := range []string{"Custom", "DatabaseReady", "Ready", "Synced", "Missing", "ready"} {
		if r.Chance(1, 4) {
			v.ClaimTypes = append(v.ClaimTypes, t)
		}
	}
	if len(v.Conds) > 1 && r.Bool() {
		k := r.Intn(len(v.Conds))
		v.Conds[0], v.Conds[k] = v.Conds[k], v.Conds[0]
	}
	return v
}

func c05GenClaimSeq(r *Rng) c05ClaimSeqScn {
	s := c05ClaimSeqScn{Kind: "claimseq", SSA: r.Bool()}
	ids := r.Perm(len(c05ClaimIDs))
	nx := r.Perm(len(c05CXRNames))
	nClaims := r.Range(1, 3)
	for i := 0; i < nClaims; i++ {
		id := c05ClaimIDs[ids[i]]
		s.Claims = append(s.Claims, c05Claim{Name: id[0], NS: id[1], XR: i,
			Old: c05GenConds(r, 3, []string{"Old", "Available", "Waiting"})})
		x := c05CXR{Name: c05CXRNames[nx[i]], Present: true, View: c05GenView(r)}
		self := c05SelfRef(s.Claims[i])
		switch r.Intn(12) {
		case 0:
			x.Ref = nil // bindable
		case 1:
			o := self
			o.NS = "other-" + o.NS
			x.Ref = &o
		case 2:
			o := self
			o.Name = o.Name + "-a" // our name is a prefix of the owner's
			x.Ref = &o
		case 3:
			o := self
			o.Kind = "Thingy"
			x.Ref = &o
		case 4:
			o := self
			o.APIVersion = "example.org/v2"
			x.Ref = &o
		case 5:
			x.Present = false
			x.View = c05View{Conds: []c05Cond{}, ClaimTypes: []string{}}
			x.Ref = nil
		default:
			x.Ref = &self
		}
		s.XRs = append(s.XRs, x)
	}
	// sometimes two claims name the SAME XR: it can be bound to one of them at most
	if nClaims >= 2 && r.Chance(1, 4) {
		s.Claims[1].XR = 0
	}
	for i, n := 0, r.Range(2, 6); i < n; i++ {
		st := c05CStep{Claim: r.Intn(nClaims)}
		if r.Chance(2, 3) {
			v := c05GenView(r)
			st.Set = &v
			st.Stale = r.Chance(1, 4)
		}
		if r.Chance(1, 5) {
			v := c05GenView(r)
			st.Flip = &v
		}
		switch r.Intn(16) {
		case 0:
			st.Paused = true
		case 1, 2, 3, 4:
			st.Point = Pick(r, []string{"getClaim", "getXR", "getXR", "sync", "sync", "propagate", "status"})
			st.Err = Pick(r, c05ErrClasses)
		}
		s.Steps = append(s.Steps, st)
	}
	// a claim that IS ready, bound to its XR, whose XR then loses its whole status (the XR controller
	// - or a restore - left `status: {}`) or all but user fields: the server-side syncer copies the
	// XR's status into the claim and re-sets the claim's own conditions on it; the claim must be told
	// to wait, whatever the syncer did to the objects it holds
	if r.Chance(1, 5) {
		s.SSA = true
		c := &s.Claims[0]
		c.XR = 0
		self := c05SelfRef(*c)
		s.XRs[0].Present, s.XRs[0].Ref = true, &self
		if len(s.XRs[0].View.Conds) == 0 {
			s.XRs[0].View.Conds = append(s.XRs[0].View.Conds, c05Cond{Type: "Ready", Status: "True", Reason: "XRAvail"})
		}
		old := []c05Cond{{Type: "Ready", Status: "True", Reason: "Available"}, {Type: "Synced", Status: "True", Reason: "ReconcileSuccess"}}
		for _, o := range c.Old {
			if o.Type != "Ready" && o.Type != "Synced" {
				old = append(old, o)
			}
		}
		c.Old = old
		k := 0
		if r.Chance(1, 3) {
			k = r.Intn(len(s.Steps))
		}
		empty := c05View{Conds: []c05Cond{}, ClaimTypes: []string{}}
		s.Steps[k] = c05CStep{Claim: 0, Set: &empty}
		if k+1 < len(s.Steps) && r.Bool() {
			// and once more, nothing having changed
			s.Steps[k+1] = c05CStep{Claim: 0}
		}
	}
	return s
}

// ---------------------------------------------------------------- world

type c05ClaimWorld struct {
	st     *Store
	cl     *c05Client
	rec    *claim.Reconciler
	cur    *c05CStep
	inSync bool
	// first call inside Sync not yet seen (interference lands right before it)
	flipped bool
}

type c05FlagSyncer struct {
	w     *c05ClaimWorld
	inner claim.CompositeSyncer
}

func (s c05FlagSyncer) Sync(ctx context.Context, cm *uclaim.Unstructured, xr *ucomposite.Unstructured) error {
	s.w.inSync = true
	defer func() { s.w.inSync = false }()
	return s.inner.Sync(ctx, cm, xr)
}

func c05SetView(st *Store, name string, v c05View) {
	st.Mutate(c05XRGVK.GroupKind(), "", name, func(u *unstructured.Unstructured) {
		xr := ucomposite.New()
		xr.SetUnstructuredContent(u.Object)
		_ = fieldpath.Pave(xr.Object).DeleteField("status.conditions")
		_ = fieldpath.Pave(xr.Object).DeleteField("status.claimConditionTypes")
		for _, c := range v.Conds {
			xr.SetConditions(xpv1.Condition{Type: xpv1.ConditionType(c.Type), Status: corev1.ConditionStatus(c.Status), Reason: xpv1.ConditionReason(c.Reason), LastTransitionTime: metav1.Unix(1, 0)})
		}
		if len(v.ClaimTypes) > 0 {
			ts := []any{}
			for _, t := range v.ClaimTypes {
				ts = append(ts, t)
			}
			_ = fieldpath.Pave(xr.Object).SetValue("status.claimConditionTypes", ts)
		}
		// every write of the XR controller is a new version
		a := xr.GetAnnotations()
		if a == nil {
			a = map[string]string{}
		}
		a["example.org/gen"] = a["example.org/gen"] + "x"
		xr.SetAnnotations(a)
		u.Object = xr.Object
	})
}

func c05NewClaimWorld(s c05ClaimSeqScn) *c05ClaimWorld {
	st := NewStore(runtime.NewScheme())
	st.Namespaced[c05ClaimGVK.GroupKind()] = true
	st.KeepHistory = true
	w := &c05ClaimWorld{st: st}
	w.cl = &c05Client{Store: st}
	for _, x := range s.XRs {
		if !x.Present {
			continue
		}
		xr := ucomposite.New(ucomposite.WithGroupVersionKind(c05XRGVK))
		xr.SetName(x.Name)
		if x.Ref != nil {
			xr.SetLabels(map[string]string{"crossplane.io/claim-name": x.Ref.Name, "crossplane.io/claim-namespace": x.Ref.NS})
			xr.SetClaimReference(&reference.Claim{APIVersion: x.Ref.APIVersion, Kind: x.Ref.Kind, Namespace: x.Ref.NS, Name: x.Ref.Name})
		}
		st.Seed(xr)
		c05SetView(st, x.Name, x.View)
	}
	for _, c := range s.Claims {
		cm := uclaim.New(uclaim.WithGroupVersionKind(c05ClaimGVK))
		cm.SetName(c.Name)
		cm.SetNamespace(c.NS)
		cm.SetFinalizers([]string{"finalizer.apiextensions.crossplane.io"})
		if c.XR >= 0 && c.XR < len(s.XRs) {
			cm.SetResourceReference(&reference.Composite{APIVersion: "example.org/v1", Kind: c05XRGVK.Kind, Name: s.XRs[c.XR].Name})
		}
		for _, o := range c.Old {
			cm.SetConditions(xpv1.Condition{Type: xpv1.ConditionType(o.Type), Status: corev1.ConditionStatus(o.Status), Reason: xpv1.ConditionReason(o.Reason), LastTransitionTime: metav1.Unix(1, 0)})
		}
		st.Seed(cm)
	}
	var syncer claim.CompositeSyncer
	if s.SSA {
		syncer = claim.NewServerSideCompositeSyncer(w.cl, names.NewNameGenerator(w.cl))
	} else {
		syncer = claim.NewClientSideCompositeSyncer(w.cl, names.NewNameGenerator(w.cl))
	}
	// built ONCE, like the offered controller does when it starts the claim controller
	w.rec = claim.NewReconciler(w.cl, resource.CompositeClaimKind(c05ClaimGVK), resource.CompositeKind(c05XRGVK),
		claim.WithCompositeSyncer(c05FlagSyncer{w: w, inner: syncer}),
		claim.WithConnectionPropagator(claim.ConnectionPropagatorFn(func(context.Context, resource.LocalConnectionSecretOwner, resource.ConnectionSecretOwner) (bool, error) {
			if w.cur != nil && w.cur.Point == "propagate" {
				return false, c05MkErr(w.cur.Err, true)
			}
			return false, nil
		})),
	)
	return w
}

func c05ClaimConds(st *Store, c c05Claim) (map[string]c05OCond, []c05OCond) {
	m := map[string]c05OCond{}
	l := []c05OCond{}
	u := st.Peek(c05ClaimGVK.GroupKind(), c.NS, c.Name)
	if u == nil {
		return m, l
	}
	cs := xpv1.ConditionedStatus{}
	_ = fieldpath.Pave(u.Object).GetValueInto("status", &cs)
	for _, x := range cs.Conditions {
		oc := c05OCond{Type: string(x.Type), Status: string(x.Status), Reason: string(x.Reason)}
		l = append(l, oc)
		m[oc.Type] = oc
	}
	sort.SliceStable(l, func(i, j int) bool { return l[i].Type < l[j].Type })
	return m, l
}

// c05XRSeen is what one API call returned for the XR a claim names.
type c05XRSeen struct {
	Ready string
	Ref   *reference.Claim
}

func c05RunClaimSeq(s c05ClaimSeqScn) (c05SeqObs, []Mon) {
	w := c05NewClaimWorld(s)
	st := w.st
	xgk := c05XRGVK.GroupKind()
	obs := c05SeqObs{Steps: []c05StepObs{}}
	var mons []Mon
	seenSig := map[string]bool{}
	mon := func(sig, why string) {
		if !seenSig[sig] {
			seenSig[sig] = true
			mons = append(mons, Mon{Sig: sig, Why: why})
		}
	}
	for i := range s.Steps {
		step := &s.Steps[i]
		if step.Claim < 0 || step.Claim >= len(s.Claims) {
			continue
		}
		cm := s.Claims[step.Claim]
		if cm.XR < 0 || cm.XR >= len(s.XRs) {
			continue
		}
		xname := s.XRs[cm.XR].Name
		// ---- environment before the reconcile
		st.Mutate(c05ClaimGVK.GroupKind(), cm.NS, cm.Name, func(u *unstructured.Unstructured) {
			a := u.GetAnnotations()
			if a == nil {
				a = map[string]string{}
			}
			if step.Paused {
				a["crossplane.io/paused"] = "true"
			} else {
				delete(a, "crossplane.io/paused")
			}
			if len(a) == 0 {
				a = nil
			}
			u.SetAnnotations(a)
		})
		exists := st.Peek(xgk, "", xname) != nil
		if step.Set != nil && exists {
			c05SetView(st, xname, *step.Set)
		}
		before := map[string]map[string]c05OCond{}
		for _, c := range s.Claims {
			before[c.NS+"/"+c.Name], _ = c05ClaimConds(st, c)
		}
		xrBefore := st.Peek(xgk, "", xname)
		w.cur, w.flipped = step, false
		st.Log = nil
		xrReads := 0
		st.Lag = func(k objKey, versions int) int {
			if k.GK != xgk || k.Name != xname {
				return 0
			}
			xrReads++
			if step.Stale && step.Set != nil && xrReads == 1 && versions >= 2 {
				return 1
			}
			return 0
		}
		var seen []c05XRSeen
		finalWrite := false
		w.cl.Seen = func(c c05Call, obj client.Object) {
			if c.Kind == c05ClaimGVK.Kind && c.Verb == "update" && c.Sub == "status" && !w.inSync {
				finalWrite = true // the reconciler's own status update took effect
			}
			if c.Kind != c05XRGVK.Kind || obj.GetName() != xname {
				return
			}
			u, ok := obj.(*ucomposite.Unstructured)
			if !ok {
				return
			}
			seen = append(seen, c05XRSeen{Ready: string(u.GetCondition(xpv1.TypeReady).Status), Ref: u.GetClaimReference()})
		}
		w.cl.Inject = func(c c05Call) error {
			if w.inSync && !w.flipped {
				w.flipped = true
				if step.Flip != nil && st.Peek(xgk, "", xname) != nil {
					// the XR controller finishes a reconcile of the XR right now
					c05SetView(st, xname, *step.Flip)
				}
				if step.Point == "sync" {
					return c05MkErr(step.Err, true)
				}
			}
			switch {
			case step.Point == "getClaim" && c.Verb == "get" && c.Kind == c05ClaimGVK.Kind:
				return c05MkErr(step.Err, false)
			case step.Point == "getXR" && c.Verb == "get" && c.Kind == c05XRGVK.Kind && !w.inSync:
				return c05MkErr(step.Err, false)
			case step.Point == "status" && c.Verb == "update" && c.Sub == "status" && c.Kind == c05ClaimGVK.Kind && !w.inSync:
				return c05MkErr(step.Err, false)
			}
			return nil
		}
		if p := Guard(func() {
			_, _ = w.rec.Reconcile(context.Background(), reconcile.Request{NamespacedName: types.NamespacedName{Namespace: cm.NS, Name: cm.Name}})
		}); p != "" {
			mon("C05:panic", p)
		}
		w.cl.Inject, w.cl.Seen, st.Lag = nil, nil, nil
		after, list := c05ClaimConds(st, cm)
		// Wrote: the status update of the reconciler itself (the client-side syncer also updates the
		// claim's status, without touching its conditions, inside Sync)
		so := c05StepObs{Conds: list, ClaimTypes: []string{}, Wrote: finalWrite}
		obs.Steps = append(obs.Steps, so)

		// ---- direct monitors
		old := before[cm.NS+"/"+cm.Name]
		self := &reference.Claim{APIVersion: "example.org/v1", Kind: c05ClaimGVK.Kind, Namespace: cm.NS, Name: cm.Name}
		becameReady := after["Ready"].Status == "True" && (old["Ready"].Status != "True" || after["Ready"].Reason != old["Ready"].Reason)
		// ... or REPORTED Ready=True once more: its own status update took effect with Synced=True
		// (so it went past Sync: the exits left are Waiting and Available) and Ready=True - a claim that
		// was ready already must be judged again by every reconcile, against the XR it was handed
		reportedReady := finalWrite && after["Ready"].Status == "True" && after["Synced"].Status == "True" && after["Synced"].Reason == "ReconcileSuccess"
		if reportedReady && !becameReady && (len(seen) == 0 || seen[len(seen)-1].Ready != "True") {
			last := "nothing"
			if len(seen) > 0 {
				last = "Ready=" + seen[len(seen)-1].Ready
			}
			mon("C05:claim-ready-without-xr-ready", fmt.Sprintf("step %d: claim %s/%s was reported Ready=True again although the last state of XR %q this reconcile was handed is %s", i, cm.NS, cm.Name, xname, last))
		}
		if becameReady {
			if len(seen) == 0 || seen[len(seen)-1].Ready != "True" {
				last := "nothing"
				if len(seen) > 0 {
					last = "Ready=" + seen[len(seen)-1].Ready
				}
				mon("C05:claim-ready-without-xr-ready", fmt.Sprintf("step %d: claim %s/%s became Ready=True although the last state of XR %q this reconcile was handed is %s", i, cm.NS, cm.Name, xname, last))
			}
			if xrBefore != nil {
				x := ucomposite.New()
				x.SetUnstructuredContent(xrBefore.Object)
				if ref := x.GetClaimReference(); ref != nil && *ref != *self && step.Point != "getXR" {
					mon("C05:claim-ready-from-xr-bound-to-another-claim", fmt.Sprintf("step %d: claim %s/%s became Ready=True from XR %q, which is bound to %s/%s (%s %s)", i, cm.NS, cm.Name, xname, ref.Namespace, ref.Name, ref.APIVersion, ref.Kind))
				}
			} else {
				mon("C05:claim-ready-without-xr-ready", fmt.Sprintf("step %d: claim %s/%s became Ready=True although XR %q did not exist", i, cm.NS, cm.Name, xname))
			}
		}
		// a claim's system conditions are never copies of the XR's (reasons XRAvail/XRCreating/Fn are
		// only carried by XR conditions), except the documented copy of a listed type on the path
		// that returns before Available/Waiting is set (propagation failure)
		for _, t := range []string{"Ready", "Synced"} {
			if r := after[t].Reason; (r == "XRAvail" || r == "XRCreating" || r == "Fn") && old[t].Reason != r && !(step.Point == "propagate") && t == "Ready" {
				mon("C05:claim-system-condition-copied-from-xr", fmt.Sprintf("step %d: the claim's %s condition is a copy of the XR's (reason %q)", i, t, r))
			}
		}
		for _, c := range s.Claims {
			if c.NS == cm.NS && c.Name == cm.Name {
				continue
			}
			now, _ := c05ClaimConds(st, c)
			if fmt.Sprint(now) != fmt.Sprint(before[c.NS+"/"+c.Name]) {
				mon("C05:other-claim-changed", fmt.Sprintf("step %d: reconciling %s/%s changed the conditions of %s/%s", i, cm.NS, cm.Name, c.NS, c.Name))
			}
		}
	}
	return obs, mons
}

func c05ClaimSeqCls(s c05ClaimSeqScn) string {
	stale, flip, faults, foreign, absent := 0, 0, 0, 0, 0
	for _, st := range s.Steps {
		if st.Stale && st.Set != nil {
			stale++
		}
		if st.Flip != nil {
			flip++
		}
		if st.Point != "" {
			faults++
		}
	}
	for i, x := range s.XRs {
		if !x.Present {
			absent++
		} else if x.Ref != nil && i < len(s.Claims) && *x.Ref != c05SelfRef(s.Claims[i]) {
			foreign++
		}
	}
	syn := "csa"
	if s.SSA {
		syn = "ssa"
	}
	return fmt.Sprintf("claimseq/%s/claims=%d/steps=%d/stale=%d/flip=%d/faults=%d/foreign=%d/absent=%d", syn, len(s.Claims), len(s.Steps), stale, flip, faults, foreign, absent)
}

var _ = schema.GroupKind{}

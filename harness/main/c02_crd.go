//go:build verif

package main

// C02, site "crd": an XRD defining its CRDs.
//
// The REAL definition reconciler (composite CRD, xcrd.ForCompositeResource) and the REAL
// offered reconciler (claim CRD, xcrd.ForCompositeResourceClaim) are run with their default
// NopEngine over a simstore that holds the XRD and, optionally, a CRD that already has the
// derived name: controlled by this XRD, controlled by somebody else (another XRD, a previous
// incarnation of this XRD with another UID, an object of another kind), or without a
// controller reference (with / without a plain owner reference). One fault per reconcile
// (fail / conflict / crashBefore / crashAfter at API call k), 1..3 reconciles.
//
// Observation (compared with the Lean model Xp.C02Crd): per reconcile the API-call trace
// ("verb Kind/name[/sub] outcome>errclass"), the result class and the abstract state of the
// XRD and of the CRD afterwards.
// Monitors (evaluated on the real store after EVERY API call): a CRD that was controlled by
// another owner when the scenario started is byte-for-byte what it was (not modified, not
// adopted, not deleted), no applied write is addressed to it, and a reconcile of a live XRD
// against it never reports plain success.
//
// This file does not Register a driver: harness/main/c02.go dispatches to it.

import (
	"context"
	"encoding/json"
	"fmt"
	"reflect"
	"strings"

	extv1 "k8s.io/apiextensions-apiserver/pkg/apis/apiextensions/v1"
	metav1 "k8s.io/apimachinery/pkg/apis/meta/v1"
	"k8s.io/apimachinery/pkg/apis/meta/v1/unstructured"
	"k8s.io/apimachinery/pkg/runtime"
	"k8s.io/apimachinery/pkg/runtime/schema"
	"k8s.io/apimachinery/pkg/types"
	"sigs.k8s.io/controller-runtime/pkg/reconcile"

	v1 "github.com/crossplane/crossplane/apis/apiextensions/v1"
	"github.com/crossplane/crossplane/internal/controller/apiextensions/definition"
	"github.com/crossplane/crossplane/internal/controller/apiextensions/offered"
	"github.com/crossplane/crossplane/internal/xcrd"
)

// ---------------------------------------------------------------- scenario

type c02CrdXRD struct {
	Del   bool `json:"del"`   // deletionTimestamp set
	Fin   bool `json:"fin"`   // carries the finalizer of the reconciler under test
	OFin  bool `json:"ofin"`  // carries the finalizer of the other XRD reconciler
	Claim bool `json:"claim"` // spec.claimNames set (offers a claim)
}

type c02CrdCRD struct {
	Present bool   `json:"present"`
	Ctrl    string `json:"ctrl"`    // xrd | other | none
	Foreign string `json:"foreign"` // ctrl=other: xrd2 | stale | kind (who the foreign controller is; all the same to the model)
	Plain   bool   `json:"plain"`   // an additional non-controller owner reference
	Old     bool   `json:"old"`     // spec differs from what the XRD renders to now
	Est     bool   `json:"est"`     // status condition Established=True
	Fin     bool   `json:"fin"`     // carries a finalizer (customresourcecleanup)
	Del     bool   `json:"del"`     // deletionTimestamp set (requires fin)
}

type c02CrdFault struct {
	K int    `json:"k"`
	O string `json:"o"` // fail conflict crashBefore crashAfter
}

// c02CrdEnvAct: a third party writes the CRD with the derived name immediately before API call K
// of this reconcile (simstore Before hook): adopt (its own controller reference replaces the
// XRD's), edit (the spec becomes the outdated body), create (a CRD of its own where there
// is none), remove (delete it; only generated for CRDs without finalizer).
type c02CrdEnvAct struct {
	K   int    `json:"k"`
	Act string `json:"act"`
}

type c02CrdRound struct {
	Fault *c02CrdFault  `json:"fault,omitempty"`
	Env   *c02CrdEnvAct `json:"env,omitempty"`
}

type c02CrdScn struct {
	Rec    string        `json:"rec"` // definition | offered
	Xrd    c02CrdXRD     `json:"xrd"`
	Crd    c02CrdCRD     `json:"crd"`
	Rounds []c02CrdRound `json:"rounds"`
}

// ---------------------------------------------------------------- observation

type c02CrdCRDObs struct {
	Present bool   `json:"present"`
	Ctrl    string `json:"ctrl"`    // xrd | other | none ("" when absent)
	Body    string `json:"body"`    // rendered | old ("" when absent)
	Plain   bool   `json:"plain"`   // the plain owner reference is still there
	Est     bool   `json:"est"`     //
	Fin     bool   `json:"fin"`     //
	Del     bool   `json:"del"`     // being deleted
	Touched bool   `json:"touched"` // resourceVersion / existence differs from the start of this reconcile
}

type c02CrdXRDObs struct {
	Present bool   `json:"present"`
	Fin     bool   `json:"fin"`
	Cond    string `json:"cond"` // none | watching | terminating (Established resp. Offered condition)
}

type c02CrdRoundObs struct {
	Calls []string     `json:"calls"`
	Res   string       `json:"res"` // ok | requeue | err | crashed
	Xrd   c02CrdXRDObs `json:"xrd"`
	Crd   c02CrdCRDObs `json:"crd"`
}

type c02CrdObs struct {
	Rounds []c02CrdRoundObs `json:"rounds"`
}

// ---------------------------------------------------------------- world

const (
	c02CrdGroup      = "example.org"
	c02CrdXRDName    = "xthings.example.org"
	c02CrdClaimName  = "things.example.org"
	c02CrdXRDUID     = "uid-xrd"
	c02CrdDefFin     = "defined.apiextensions.crossplane.io"
	c02CrdOffFin     = "offered.apiextensions.crossplane.io"
	c02CrdCleanupFin = "customresourcecleanup.apiextensions.k8s.io"
)

var (
	c02CrdXRDGVK = v1.CompositeResourceDefinitionGroupVersionKind
	c02CrdCRDGVK = extv1.SchemeGroupVersion.WithKind("CustomResourceDefinition")
)

func c02CrdScheme() *runtime.Scheme {
	s := runtime.NewScheme()
	_ = v1.AddToScheme(s)
	_ = extv1.AddToScheme(s)
	return s
}

func c02CrdSchema(prop string) *runtime.RawExtension {
	return &runtime.RawExtension{Raw: []byte(`{"type":"object","properties":{"spec":{"type":"object","properties":{"` + prop + `":{"type":"string"}}}}}`)}
}

// c02CrdBuildXRD renders the scenario's XRD as the typed object the reconcilers read.
func c02CrdBuildXRD(s c02CrdScn, prop string) *v1.CompositeResourceDefinition {
	d := &v1.CompositeResourceDefinition{}
	d.SetName(c02CrdXRDName)
	d.SetUID(types.UID(c02CrdXRDUID))
	d.Spec.Group = c02CrdGroup
	d.Spec.Names = extv1.CustomResourceDefinitionNames{Kind: "XThing", Plural: "xthings"}
	if s.Xrd.Claim {
		d.Spec.ClaimNames = &extv1.CustomResourceDefinitionNames{Kind: "Thing", Plural: "things"}
	}
	d.Spec.Versions = []v1.CompositeResourceDefinitionVersion{{
		Name: "v1", Served: true, Referenceable: true,
		Schema: &v1.CompositeResourceValidation{OpenAPIV3Schema: *c02CrdSchema(prop)},
	}}
	mine, other := c02CrdDefFin, c02CrdOffFin
	if s.Rec == "offered" {
		mine, other = other, mine
	}
	var fins []string
	if s.Xrd.Fin {
		fins = append(fins, mine)
	}
	if s.Xrd.OFin {
		fins = append(fins, other)
	}
	d.SetFinalizers(fins)
	if s.Xrd.Del {
		t := metav1.Unix(1700000000, 0)
		d.SetDeletionTimestamp(&t)
	}
	return d
}

// c02CrdRender is what the reconciler under test renders for the XRD (nil: the XRD cannot be rendered).
func c02CrdRender(s c02CrdScn, prop string) *extv1.CustomResourceDefinition {
	d := c02CrdBuildXRD(s, prop)
	var crd *extv1.CustomResourceDefinition
	var err error
	if s.Rec == "offered" {
		crd, err = xcrd.ForCompositeResourceClaim(d)
	} else {
		crd, err = xcrd.ForCompositeResource(d)
	}
	if err != nil {
		return nil
	}
	return crd
}

func c02CrdName(s c02CrdScn) string {
	if s.Rec == "offered" {
		return c02CrdClaimName
	}
	return c02CrdXRDName
}

// c02CrdForeignRef is the controller reference of the foreign owner.
func c02CrdForeignRef(which string) metav1.OwnerReference {
	t := true
	switch which {
	case "stale":
		// a previous incarnation of the very same XRD (deleted and re-created): same kind and name, other UID
		return metav1.OwnerReference{APIVersion: c02CrdXRDGVK.GroupVersion().String(), Kind: c02CrdXRDGVK.Kind, Name: c02CrdXRDName, UID: "uid-xrd-previous", Controller: &t, BlockOwnerDeletion: &t}
	case "kind":
		return metav1.OwnerReference{APIVersion: "apps/v1", Kind: "Deployment", Name: "someone", UID: "uid-deployment", Controller: &t}
	}
	return metav1.OwnerReference{APIVersion: c02CrdXRDGVK.GroupVersion().String(), Kind: c02CrdXRDGVK.Kind, Name: "xothers.example.org", UID: "uid-xrd-other", Controller: &t, BlockOwnerDeletion: &t}
}

var c02CrdPlainRef = metav1.OwnerReference{APIVersion: "pkg.crossplane.io/v1", Kind: "ConfigurationRevision", Name: "cfg-abc", UID: "uid-cfgrev"}

// c02CrdBuildCRD renders the pre-existing CRD of the scenario (nil: none).
func c02CrdBuildCRD(s c02CrdScn) *extv1.CustomResourceDefinition {
	if !s.Crd.Present {
		return nil
	}
	prop := "x"
	if s.Crd.Old {
		prop = "old"
	}
	// an offered reconciler scenario of an XRD without claim names still needs a CRD body
	rs := s
	rs.Xrd.Claim = true
	crd := c02CrdRender(rs, prop)
	if crd == nil {
		return nil
	}
	var refs []metav1.OwnerReference
	switch s.Crd.Ctrl {
	case "xrd":
		refs = crd.GetOwnerReferences()
	case "other":
		refs = []metav1.OwnerReference{c02CrdForeignRef(s.Crd.Foreign)}
	}
	if s.Crd.Plain {
		refs = append(refs, c02CrdPlainRef)
	}
	crd.SetOwnerReferences(refs)
	if s.Crd.Fin {
		crd.SetFinalizers([]string{c02CrdCleanupFin})
	}
	if s.Crd.Del && s.Crd.Fin {
		t := metav1.Unix(1700000000, 0)
		crd.SetDeletionTimestamp(&t)
	}
	if s.Crd.Est {
		crd.Status.Conditions = []extv1.CustomResourceDefinitionCondition{{Type: extv1.Established, Status: extv1.ConditionTrue, Reason: "InitialNamesAccepted"}}
	}
	return crd
}

func c02CrdOutcome(s string) Outcome {
	switch s {
	case "fail":
		return Fail
	case "conflict":
		return Conflict
	case "crashBefore":
		return CrashBefore
	case "crashAfter":
		return CrashAfter
	}
	return OK
}

func c02CrdKind(gk string) string {
	switch gk {
	case c02CrdXRDGVK.GroupKind().String():
		return "XRD"
	case c02CrdCRDGVK.GroupKind().String():
		return "CRD"
	}
	return schema.ParseGroupKind(gk).Kind
}

func c02CrdSpecJSON(m map[string]any) string {
	b, _ := json.Marshal(m["spec"])
	return string(b)
}

// c02CrdView maps the stored CRD to the abstract state of the model.
func c02CrdView(st *Store, s c02CrdScn, rendered string, rv0 string) (c02CrdCRDObs, string) {
	u := st.Peek(c02CrdCRDGVK.GroupKind(), "", c02CrdName(s))
	if u == nil {
		return c02CrdCRDObs{Touched: rv0 != ""}, ""
	}
	o := c02CrdCRDObs{Present: true, Ctrl: "none", Body: "old"}
	if c := metav1.GetControllerOf(u); c != nil {
		o.Ctrl = "other"
		if string(c.UID) == c02CrdXRDUID {
			o.Ctrl = "xrd"
		}
	}
	for _, r := range u.GetOwnerReferences() {
		if r.UID == c02CrdPlainRef.UID {
			o.Plain = true
		}
	}
	if c02CrdSpecJSON(u.Object) == rendered {
		o.Body = "rendered"
	}
	conds, _, _ := unstructured.NestedSlice(u.Object, "status", "conditions")
	for _, c := range conds {
		if m, ok := c.(map[string]any); ok && m["type"] == "Established" && m["status"] == "True" {
			o.Est = true
		}
	}
	o.Fin = len(u.GetFinalizers()) > 0
	o.Del = u.GetDeletionTimestamp() != nil
	o.Touched = u.GetResourceVersion() != rv0
	return o, u.GetResourceVersion()
}

func c02CrdXRDView(st *Store, s c02CrdScn) c02CrdXRDObs {
	u := st.Peek(c02CrdXRDGVK.GroupKind(), "", c02CrdXRDName)
	if u == nil {
		return c02CrdXRDObs{Cond: "none"}
	}
	o := c02CrdXRDObs{Present: true, Cond: "none"}
	mine, typ := c02CrdDefFin, "Established"
	if s.Rec == "offered" {
		mine, typ = c02CrdOffFin, "Offered"
	}
	for _, f := range u.GetFinalizers() {
		if f == mine {
			o.Fin = true
		}
	}
	conds, _, _ := unstructured.NestedSlice(u.Object, "status", "conditions")
	for _, c := range conds {
		if m, ok := c.(map[string]any); ok && m["type"] == typ {
			switch m["status"] {
			case "True":
				o.Cond = "watching"
			case "False":
				o.Cond = "terminating"
			}
		}
	}
	return o
}

// ---------------------------------------------------------------- run

func c02CrdRun(s c02CrdScn) (c02CrdObs, []Mon) {
	st := NewStore(c02CrdScheme())
	st.Seed(c02CrdBuildXRD(s, "x"))
	if crd := c02CrdBuildCRD(s); crd != nil {
		st.Seed(crd)
	}
	crdKey := objKey{c02CrdCRDGVK.GroupKind(), "", c02CrdName(s)}.String()
	// the body the XRD renders to (for an XRD that offers no claim: would render to, if it did)
	renderable := s.Rec != "offered" || s.Xrd.Claim
	rendered := ""
	rs := s
	rs.Xrd.Claim = true
	if r := c02CrdRender(rs, "x"); r != nil {
		m, _ := runtime.DefaultUnstructuredConverter.ToUnstructured(r)
		rendered = c02CrdSpecJSON(normalize(map[string]any{"apiVersion": "apiextensions.k8s.io/v1", "kind": "CustomResourceDefinition", "spec": m["spec"]}))
	}

	var mons []Mon
	seen := map[string]bool{}
	mon := func(sig, why string) {
		if !seen[sig] {
			seen[sig] = true
			mons = append(mons, Mon{Sig: sig, Why: why})
		}
	}

	// the foreign CRD, byte for byte, as it was when the scenario started (re-based whenever the
	// third party of the scenario writes the CRD: "controlled by another owner at this moment")
	foreign := s.Crd.Present && s.Crd.Ctrl == "other"
	want := st.Snapshot()[crdKey]
	var wantObj *unstructured.Unstructured
	if foreign {
		wantObj = st.Peek(c02CrdCRDGVK.GroupKind(), "", c02CrdName(s))
	}
	rebase := func() {
		cur := st.Peek(c02CrdCRDGVK.GroupKind(), "", c02CrdName(s))
		foreign = false
		if cur != nil {
			if c := metav1.GetControllerOf(cur); c != nil && string(c.UID) != c02CrdXRDUID {
				foreign = true
			}
		}
		want = st.Snapshot()[crdKey]
		wantObj = cur
	}
	// window of the unchanged code (reported with its own signature): the deletion branch's
	// Delete of a CRD that this reconcile's own Get returned controlled by the XRD and that was
	// taken over since
	sawOwn := false   // this reconcile's latest Get of the CRD returned it controlled by the XRD
	envSince := false // the third party wrote the CRD after that Get
	check := func(at string) {
		if !foreign {
			return
		}
		got, ok := st.Snapshot()[crdKey]
		switch {
		case !ok && sawOwn && envSince && strings.Contains(at, "(delete CRD/"):
			mon("C02:crd-deleted-after-taken-over-since-read", "the CustomResourceDefinition "+c02CrdName(s)+" was controlled by the XRD when this reconcile read it, was taken over by another owner since, and was deleted by "+at+" (Delete carries no precondition)")
			rebase()
		case !ok:
			mon("C02:crd-foreign-deleted", "the CustomResourceDefinition "+c02CrdName(s)+" controlled by another owner is gone after "+at)
		case got != want:
			cur := st.Peek(c02CrdCRDGVK.GroupKind(), "", c02CrdName(s))
			switch {
			case !reflect.DeepEqual(cur.GetOwnerReferences(), wantObj.GetOwnerReferences()):
				mon("C02:crd-foreign-adopted", "the owner references of the CustomResourceDefinition "+c02CrdName(s)+" controlled by another owner were rewritten by "+at+": "+mustJSON(cur.GetOwnerReferences()))
			case cur.GetDeletionTimestamp() != nil && wantObj.GetDeletionTimestamp() == nil && sawOwn && envSince && strings.Contains(at, "(delete CRD/"):
				mon("C02:crd-deleted-after-taken-over-since-read", "the CustomResourceDefinition "+c02CrdName(s)+" was controlled by the XRD when this reconcile read it, was taken over by another owner since, and was marked for deletion by "+at+" (Delete carries no precondition)")
				rebase()
			case cur.GetDeletionTimestamp() != nil && wantObj.GetDeletionTimestamp() == nil:
				mon("C02:crd-foreign-deleted", "the CustomResourceDefinition "+c02CrdName(s)+" controlled by another owner was marked for deletion by "+at)
			default:
				mon("C02:crd-foreign-modified", "the CustomResourceDefinition "+c02CrdName(s)+" controlled by another owner was modified by "+at)
			}
		}
	}

	obs := c02CrdObs{Rounds: []c02CrdRoundObs{}}
	for _, rd := range s.Rounds {
		st.Revive()
		st.Log = nil
		if rd.Fault != nil {
			f := *rd.Fault
			st.Plan = func(c CallInfo) Outcome {
				if c.Index == f.K {
					return c02CrdOutcome(f.O)
				}
				return OK
			}
		}
		sawOwn, envSince = false, false
		if rd.Env != nil {
			e := *rd.Env
			st.Before = func(c CallInfo) {
				if c.Index != e.K {
					return
				}
				c02CrdAct(st, s, e.Act)
				envSince = true
				rebase()
			}
		}
		foreignAtStart := foreign
		st.After = func(c CallInfo) {
			d := fmt.Sprintf("call %d (%s %s/%s)", c.Index, c.Verb, c02CrdKind(c.GK), c.Name)
			window := foreign && sawOwn && envSince && c.Verb == "delete"
			check(d)
			onCRD := c.GK == c02CrdCRDGVK.GroupKind().String() && c.Name == c02CrdName(s)
			if foreign && !window && c.IsWrite() && c.Applied && !c.DryRun && onCRD {
				mon("C02:crd-write-to-foreign", "an applied write was addressed to the CustomResourceDefinition controlled by another owner: "+d)
			}
			if onCRD && c.Verb == "get" && c.Outcome == "ok" {
				cur := st.Peek(c02CrdCRDGVK.GroupKind(), "", c02CrdName(s))
				sawOwn, envSince = false, false
				if cur != nil && c.Err == "" {
					if o := metav1.GetControllerOf(cur); o != nil && string(o.UID) == c02CrdXRDUID {
						sawOwn = true
					}
				}
			}
		}
		_, rv0 := c02CrdView(st, s, rendered, "")
		xrd0 := st.Peek(c02CrdXRDGVK.GroupKind(), "", c02CrdXRDName)

		req := reconcile.Request{NamespacedName: types.NamespacedName{Name: c02CrdXRDName}}
		var rec reconcile.Reconciler
		if s.Rec == "offered" {
			rec = offered.NewReconciler(offered.NewClientApplicator(st))
		} else {
			rec = definition.NewReconciler(definition.NewClientApplicator(st))
		}
		var res reconcile.Result
		var rerr error
		if p := Guard(func() { res, rerr = rec.Reconcile(context.Background(), req) }); p != "" {
			mon("C02:panic", p)
		}
		st.After = nil
		st.Before = nil
		crashed := st.Crashed()

		o := c02CrdRoundObs{Calls: []string{}}
		for _, c := range st.Log {
			e := fmt.Sprintf("%s %s/%s", c.Verb, c02CrdKind(c.GK), c.Name)
			if c.Sub != "" {
				e += "/" + c.Sub
			}
			e += " " + c.Outcome + ">" + c.Err
			o.Calls = append(o.Calls, e)
		}
		switch {
		case crashed:
			o.Res = "crashed"
		case rerr != nil:
			o.Res = "err"
		case res.Requeue || res.RequeueAfter > 0:
			o.Res = "requeue"
		default:
			o.Res = "ok"
		}
		st.Revive()
		o.Xrd = c02CrdXRDView(st, s)
		o.Crd, _ = c02CrdView(st, s, rendered, rv0)
		obs.Rounds = append(obs.Rounds, o)
		check("the reconcile")

		// the conflict must surface: a reconcile of a live XRD that meets a CRD controlled by
		// somebody else must not report plain success
		live := xrd0 != nil && xrd0.GetDeletionTimestamp() == nil && renderable
		if foreignAtStart && rd.Env == nil && live && o.Res == "ok" {
			mon("C02:crd-conflict-not-surfaced", "the "+s.Rec+" reconciler reported success although the CustomResourceDefinition "+c02CrdName(s)+" is controlled by another owner")
		}
	}
	return obs, mons
}

// c02CrdAct performs the third party's write on the CRD with the derived name.
func c02CrdAct(st *Store, s c02CrdScn, act string) {
	gk, name := c02CrdCRDGVK.GroupKind(), c02CrdName(s)
	switch act {
	case "adopt":
		st.Mutate(gk, "", name, func(u *unstructured.Unstructured) {
			if c := metav1.GetControllerOf(u); c != nil && string(c.UID) != c02CrdXRDUID {
				return
			}
			refs := []metav1.OwnerReference{c02CrdForeignRef("xrd2")}
			for _, r := range u.GetOwnerReferences() {
				if r.Controller == nil || !*r.Controller {
					refs = append(refs, r)
				}
			}
			u.SetOwnerReferences(refs)
		})
	case "edit":
		// somebody else edits the spec: the body becomes the "old" one (no-op when it is already)
		rs := s
		rs.Xrd.Claim = true
		if old := c02CrdRender(rs, "old"); old != nil {
			m, _ := runtime.DefaultUnstructuredConverter.ToUnstructured(old)
			want := normalize(map[string]any{"apiVersion": "apiextensions.k8s.io/v1", "kind": "CustomResourceDefinition", "spec": m["spec"]})
			st.Mutate(gk, "", name, func(u *unstructured.Unstructured) {
				if c02CrdSpecJSON(u.Object) == c02CrdSpecJSON(want) {
					return // already the outdated body: nothing to edit
				}
				u.Object["spec"] = want["spec"]
			})
		}
	case "create":
		if st.Peek(gk, "", name) == nil {
			cs := s
			cs.Crd = c02CrdCRD{Present: true, Ctrl: "other", Foreign: "xrd2", Old: true, Est: true}
			if crd := c02CrdBuildCRD(cs); crd != nil {
				st.Seed(crd)
			}
		}
	case "remove":
		if u := st.Peek(gk, "", name); u != nil && len(u.GetFinalizers()) == 0 {
			st.Remove(gk, "", name)
		}
	}
}

// ---------------------------------------------------------------- generator

func c02CrdGen(r *Rng) c02CrdScn {
	s := c02CrdScn{Rec: Pick(r, []string{"definition", "offered"})}
	s.Xrd.Claim = s.Rec == "offered" || r.Bool()
	if s.Rec == "offered" && r.Chance(1, 12) {
		s.Xrd.Claim = false // the offered reconciler is only started for XRDs that offer a claim; it must fail cleanly otherwise
	}
	s.Xrd.Del = r.Chance(1, 3)
	s.Xrd.Fin = r.Chance(2, 3)
	s.Xrd.OFin = r.Chance(1, 3)
	if s.Xrd.Del && !s.Xrd.Fin && !s.Xrd.OFin {
		// a deleting object without finalizers does not exist
		if r.Bool() {
			s.Xrd.Fin = true
		} else {
			s.Xrd.OFin = true
		}
	}
	// the pre-existing CRD: the placement of the property (foreign controller on the CRD with the derived name) is the common case
	switch r.Intn(10) {
	case 0:
		// absent
	case 1, 2:
		s.Crd = c02CrdCRD{Present: true, Ctrl: "xrd"}
	case 3, 4:
		s.Crd = c02CrdCRD{Present: true, Ctrl: "none"}
	default:
		s.Crd = c02CrdCRD{Present: true, Ctrl: "other", Foreign: Pick(r, []string{"xrd2", "stale", "kind"})}
	}
	if s.Crd.Present {
		s.Crd.Plain = r.Chance(1, 3)
		s.Crd.Old = r.Bool()
		s.Crd.Est = r.Chance(2, 3)
		s.Crd.Fin = r.Chance(1, 4)
		s.Crd.Del = s.Crd.Fin && r.Chance(1, 3)
	}
	n := r.Range(1, 3)
	for i := 0; i < n; i++ {
		rd := c02CrdRound{}
		if r.Chance(1, 2) {
			rd.Fault = &c02CrdFault{K: r.Intn(6), O: Pick(r, []string{"fail", "conflict", "crashBefore", "crashAfter"})}
		}
		// a concurrent writer of the CRD between two calls of this reconcile
		if r.Chance(2, 5) {
			acts := []string{"adopt", "adopt", "adopt", "edit", "create"}
			if !s.Crd.Fin {
				acts = append(acts, "remove")
			}
			rd.Env = &c02CrdEnvAct{K: r.Intn(7), Act: Pick(r, acts)}
			if rd.Fault != nil && r.Chance(1, 2) {
				rd.Fault = nil
			}
		}
		s.Rounds = append(s.Rounds, rd)
	}
	return s
}

func c02CrdCls(s c02CrdScn, obs c02CrdObs) string {
	x := "live"
	if s.Xrd.Del {
		x = "deleting"
	}
	if s.Rec == "offered" && !s.Xrd.Claim {
		x += "-noclaim"
	}
	c := "absent"
	if s.Crd.Present {
		c = s.Crd.Ctrl
		if s.Crd.Ctrl == "other" {
			c += ":" + s.Crd.Foreign
		}
		if s.Crd.Plain {
			c += "+plain"
		}
		if s.Crd.Old {
			c += "/old"
		} else {
			c += "/same"
		}
	}
	env := ""
	for _, rd := range s.Rounds {
		if rd.Env != nil {
			env = fmt.Sprintf("/env=%s@%d", rd.Env.Act, rd.Env.K)
			break
		}
	}
	f := "nofault"
	for i, rd := range s.Rounds {
		if rd.Fault != nil && i < len(obs.Rounds) && rd.Fault.K < len(obs.Rounds[i].Calls) {
			f = rd.Fault.O
			break
		}
	}
	res := ""
	if len(obs.Rounds) > 0 {
		res = obs.Rounds[0].Res
	}
	return fmt.Sprintf("%s/xrd=%s/crd=%s/%s/res0=%s%s", s.Rec, x, c, f, res, env)
}

//go:build verif

package main

// C17, version selection: real findDependencyVersionToInstall / findDependencyVersionToUpdate.

import (
	"context"
	"errors"
	"fmt"
	"strings"

	"github.com/Masterminds/semver"
	"github.com/google/go-containerregistry/pkg/name"
	conregv1 "github.com/google/go-containerregistry/pkg/v1"
	"k8s.io/utils/ptr"

	"github.com/crossplane/crossplane/apis/pkg/v1beta1"
	"github.com/crossplane/crossplane/internal/controller/pkg/resolver"
	xpkgfake "github.com/crossplane/crossplane/internal/xpkg/fake"
)

// c17Fetcher serves tag lists per repository; a nil list is a fetch error.
type c17Fetcher struct {
	tags  map[string][]string
	fail  map[string]bool
	calls int
}

func (f *c17Fetcher) Fetch(context.Context, name.Reference, ...string) (conregv1.Image, error) {
	return nil, errors.New("not used")
}

func (f *c17Fetcher) Head(context.Context, name.Reference, ...string) (*conregv1.Descriptor, error) {
	return nil, errors.New("not used")
}

func (f *c17Fetcher) Tags(_ context.Context, ref name.Reference, _ ...string) ([]string, error) {
	f.calls++
	repo := ref.Context().Name()
	if f.fail[repo] {
		return nil, errors.New("registry unreachable")
	}
	return append([]string{}, f.tags[repo]...), nil
}

func c17Config() *xpkgfake.MockConfigStore {
	return &xpkgfake.MockConfigStore{MockPullSecretFor: xpkgfake.NewMockConfigStorePullSecretForFn("", "", nil)}
}

func c17VErrKind(err error) string {
	switch t := c17ErrText(err); {
	case t == "":
		return ""
	case strings.Contains(t, "version constraint on dependency is invalid"):
		return "invalidConstraint"
	case strings.Contains(t, "cannot fetch dependency package tags"):
		return "fetchTags"
	case strings.Contains(t, "different digests in parent constraints"):
		return "diffDigests"
	case strings.Contains(t, "different types of parent constraints"):
		return "diffTypes"
	case strings.Contains(t, "does not have a valid version to upgrade"):
		return "noValidVersion"
	default:
		return "other:" + t
	}
}

type c17InstScn struct {
	Kind      string    `json:"kind"` // "install"
	Con       string    `json:"con"`
	Tags      []string  `json:"tags"`
	FetchFail bool      `json:"fetchFail"`
	Oracle    c17Oracle `json:"oracle"`
}

type c17VerObs struct {
	Err string `json:"err"`
	Ver string `json:"ver"` // exact string; "~" when parsed tags tie (sort.Sort leaves their order open)
	Key string `json:"key"` // comparison class of the chosen version
}

const c17Repo = "xpkg.io/o/dep"

func c17VerObsOf(ver string, errKind string, tags []string) c17VerObs {
	o := c17VerObs{Err: errKind, Ver: ver, Key: c17Key(ver)}
	if errKind == "" && c17HasTies(tags) {
		if _, err := semver.NewVersion(ver); err == nil {
			o.Ver = "~"
		}
	}
	return o
}

func c17InstRun(s c17InstScn) (c17VerObs, []Mon, string) {
	ref, _ := name.ParseReference(c17Repo)
	f := &c17Fetcher{tags: map[string][]string{ref.Context().Name(): s.Tags}, fail: map[string]bool{ref.Context().Name(): s.FetchFail}}
	dep := &v1beta1.Dependency{Package: c17Repo, Constraints: s.Con, Type: ptr.To(v1beta1.ProviderPackageType)}
	var ver string
	var err error
	var mons []Mon
	if p := Guard(func() { ver, err = resolver.VerifC17FindInstall(context.Background(), f, c17Config(), dep, ref) }); p != "" {
		return c17VerObs{Err: "panic"}, []Mon{{Sig: "C17:install-panic", Why: p}}, "panic"
	}
	obs := c17VerObsOf(ver, c17VErrKind(err), s.Tags)

	// direct monitor with the real library
	cls := "err=" + obs.Err
	if err == nil {
		if h, herr := conregv1.NewHash(s.Con); herr == nil {
			cls = "digest"
			if ver != h.String() {
				mons = append(mons, Mon{Sig: "C17:install-not-pinned-digest", Why: "constraint is digest " + h.String() + " but selected " + ver})
			}
		} else {
			con, cerr := semver.NewConstraint(s.Con)
			if cerr != nil {
				mons = append(mons, Mon{Sig: "C17:install-invalid-constraint-accepted", Why: "constraint " + s.Con + " does not parse but a result was returned"})
			} else {
				var best *semver.Version
				nsat, ninvalid := 0, 0
				for _, t := range s.Tags {
					v, verr := semver.NewVersion(t)
					if verr != nil {
						ninvalid++
						continue
					}
					if con.Check(v) {
						nsat++
						if best == nil || v.GreaterThan(best) {
							best = v
						}
					}
				}
				cls = fmt.Sprintf("tags=%d/invalid=%d/sat=%d", len(s.Tags), min(ninvalid, 3), min(nsat, 3))
				if ver == "" {
					if best != nil {
						mons = append(mons, Mon{Sig: "C17:install-missed", Why: "no version selected although " + best.Original() + " satisfies " + s.Con})
					}
				} else {
					v, verr := semver.NewVersion(ver)
					in := false
					for _, t := range s.Tags {
						in = in || t == ver
					}
					switch {
					case !in:
						mons = append(mons, Mon{Sig: "C17:install-not-a-tag", Why: "selected " + ver + " is not among the tags"})
					case verr != nil:
						mons = append(mons, Mon{Sig: "C17:install-not-semver", Why: "selected " + ver + " is not a semantic version"})
					case !con.Check(v):
						mons = append(mons, Mon{Sig: "C17:install-violates-constraint", Why: "selected " + ver + " violates " + s.Con})
					case best != nil && best.GreaterThan(v):
						mons = append(mons, Mon{Sig: "C17:install-not-max", Why: "selected " + ver + " but " + best.Original() + " is higher and satisfies " + s.Con})
					}
				}
			}
		}
	}
	return obs, mons, cls
}

// c17TagFlags: u = not in ascending order, p = a pre-release tag, i = a tag that is no semantic
// version, t = two tags tie (evidence histogram only)
func c17TagFlags(tags []string) string {
	f := ""
	var vs []*semver.Version
	pre, inv := false, false
	for _, t := range tags {
		v, err := semver.NewVersion(t)
		if err != nil {
			inv = true
			continue
		}
		pre = pre || v.Prerelease() != ""
		vs = append(vs, v)
	}
	for i := 1; i < len(vs); i++ {
		if vs[i].LessThan(vs[i-1]) {
			f = "u"
			break
		}
	}
	if pre {
		f += "p"
	}
	if inv {
		f += "i"
	}
	if c17HasTies(tags) {
		f += "t"
	}
	return "flags=" + f
}

func c17InstEmit(c *Ctx, s c17InstScn, prefix string) {
	s.Kind = "install"
	if s.Tags == nil {
		s.Tags = []string{}
	}
	s.Oracle = c17MkOracle(append([]string{s.Con}, s.Tags...))
	obs, mons, cls := c17InstRun(s)
	c.Emit(s, obs, mons, prefix+"/install/"+cls+"/"+c17TagFlags(s.Tags))
}

func c17InstallRandom(c *Ctx) {
	r := c.Rng
	s := c17InstScn{Con: c17GenConstraint(r), Tags: c17GenTags(r, 10), FetchFail: r.Chance(1, 25)}
	c17InstEmit(c, s, "rnd")
}

type c17UpdScn struct {
	Kind      string    `json:"kind"` // "update"
	Parents   []string  `json:"parents"`
	Installed string    `json:"installed"`
	Down      bool      `json:"down"`
	Tags      []string  `json:"tags"`
	FetchFail bool      `json:"fetchFail"`
	Oracle    c17Oracle `json:"oracle"`
}

func c17UpdRun(s c17UpdScn) (c17VerObs, []Mon, string) {
	ref, _ := name.ParseReference(c17Repo)
	f := &c17Fetcher{tags: map[string][]string{ref.Context().Name(): s.Tags}, fail: map[string]bool{ref.Context().Name(): s.FetchFail}}
	node := &v1beta1.Dependency{Package: c17Repo, Constraints: "", ParentConstraints: append([]string{}, s.Parents...)}
	var ver string
	var err error
	var mons []Mon
	if p := Guard(func() {
		ver, err = resolver.VerifC17FindUpdate(context.Background(), f, c17Config(), s.Down, ref, s.Installed, node)
	}); p != "" {
		// semver.MustParse(insVer): an observation, not a violation of the property as worded
		if _, perr := semver.NewVersion(s.Installed); perr != nil && strings.Contains(p, "semver.MustParse") {
			return c17VerObs{Err: "panic"}, nil, "panic-mustparse"
		}
		return c17VerObs{Err: "panic"}, []Mon{{Sig: "C17:update-panic", Why: p}}, "panic"
	}
	obs := c17VerObsOf(ver, c17VErrKind(err), s.Tags)
	cls := "err=" + obs.Err

	// direct monitor with the real library
	ndig, bad, cons := c17ParentCons(s.Parents)
	if err == nil {
		var m []Mon
		m, cls = c17UpdMonitor(s.Parents, s.Installed, s.Down, s.Tags, ver, cls)
		mons = append(mons, m...)
	} else if obs.Err == "noValidVersion" && !bad && ndig == 0 {
		if cur, curErr := semver.NewVersion(s.Installed); curErr == nil {
			for _, t := range s.Tags {
				v, verr := semver.NewVersion(t)
				if verr != nil {
					continue
				}
				ok := true
				for _, con := range cons {
					ok = ok && con.Check(v)
				}
				if ok && (v.Compare(cur) >= 0 || s.Down) {
					mons = append(mons, Mon{Sig: "C17:update-missed", Why: fmt.Sprintf("installed %s, down=%v: no version selected although %s qualifies", s.Installed, s.Down, t)})
					break
				}
			}
		}
	}
	return obs, mons, fmt.Sprintf("parents=%d/down=%v/%s", len(s.Parents), s.Down, cls)
}

// c17ParentCons sorts parent constraints into digests / unparsable / parsed version constraints.
func c17ParentCons(parents []string) (ndig int, bad bool, cons []*semver.Constraints) {
	for _, pc := range parents {
		if _, herr := conregv1.NewHash(pc); herr == nil {
			ndig++
			continue
		}
		con, cerr := semver.NewConstraint(pc)
		if cerr != nil {
			bad = true
			continue
		}
		cons = append(cons, con)
	}
	return ndig, bad, cons
}

// c17UpdMonitor judges a version `ver` selected for an installed dependency (at `installed`)
// against ALL its parents' constraints with the real library: the pinned digest, or a tag that
// is a semantic version admitted by every parent, the lowest not-older one, else (downgrades
// only) the highest older one. Used on the result of findDependencyVersionToUpdate and on
// every package update written by the lock reconciler.
func c17UpdMonitor(parents []string, installed string, down bool, tags []string, ver string, cls string) ([]Mon, string) {
	var mons []Mon
	ndig, bad, cons := c17ParentCons(parents)
	{
		cur, curErr := semver.NewVersion(installed)
		switch {
		case ndig > 0:
			cls = "digest"
			if ndig != len(parents) {
				mons = append(mons, Mon{Sig: "C17:update-mixed-digest-accepted", Why: "digest and version constraints mixed but a result was returned"})
			}
			for _, pc := range parents {
				if h, herr := conregv1.NewHash(pc); herr == nil && h.String() != ver {
					mons = append(mons, Mon{Sig: "C17:update-not-pinned-digest", Why: "parent pins " + h.String() + " but selected " + ver})
				}
			}
		case bad:
			mons = append(mons, Mon{Sig: "C17:update-invalid-constraint-accepted", Why: "a parent constraint does not parse but a result was returned"})
		case curErr != nil:
			mons = append(mons, Mon{Sig: "C17:update-unparsed-installed", Why: "installed " + installed + " is not a version but a result was returned"})
		default:
			valid := func(v *semver.Version) bool {
				for _, con := range cons {
					if !con.Check(v) {
						return false
					}
				}
				return true
			}
			var minUp, maxDown *semver.Version
			for _, t := range tags {
				v, verr := semver.NewVersion(t)
				if verr != nil || !valid(v) {
					continue
				}
				if v.Compare(cur) >= 0 {
					if minUp == nil || v.LessThan(minUp) {
						minUp = v
					}
				} else if maxDown == nil || v.GreaterThan(maxDown) {
					maxDown = v
				}
			}
			v, verr := semver.NewVersion(ver)
			in := false
			for _, t := range tags {
				in = in || t == ver
			}
			switch {
			case !in:
				mons = append(mons, Mon{Sig: "C17:update-not-a-tag", Why: "selected " + ver + " is not among the tags"})
			case verr != nil:
				mons = append(mons, Mon{Sig: "C17:update-not-semver", Why: "selected " + ver + " is not a semantic version"})
			case !valid(v):
				mons = append(mons, Mon{Sig: "C17:update-violates-parent-constraint", Why: fmt.Sprintf("selected %s violates one of %v", ver, parents)})
			case minUp != nil:
				cls = "upgrade"
				if v.Compare(cur) == 0 {
					cls = "stay"
				}
				if v.Compare(minUp) != 0 {
					mons = append(mons, Mon{Sig: "C17:update-not-lowest-not-older", Why: fmt.Sprintf("installed %s: selected %s but lowest valid not-older version is %s", installed, ver, minUp.Original())})
				}
			default:
				cls = "downgrade"
				if !down {
					mons = append(mons, Mon{Sig: "C17:update-downgraded-without-option", Why: fmt.Sprintf("installed %s: selected older %s although downgrades are disabled", installed, ver)})
				} else if maxDown == nil || v.Compare(maxDown) != 0 {
					mons = append(mons, Mon{Sig: "C17:update-not-highest-older", Why: fmt.Sprintf("installed %s: selected %s is not the highest valid older version", installed, ver)})
				}
			}
		}
	}
	return mons, cls
}

func c17UpdEmit(c *Ctx, s c17UpdScn, prefix string) {
	s.Kind = "update"
	if s.Tags == nil {
		s.Tags = []string{}
	}
	if s.Parents == nil {
		s.Parents = []string{}
	}
	strs := append([]string{s.Installed}, s.Tags...)
	strs = append(strs, s.Parents...)
	s.Oracle = c17MkOracle(strs)
	obs, mons, cls := c17UpdRun(s)
	c.Emit(s, obs, mons, prefix+"/update/"+cls+"/"+c17TagFlags(s.Tags))
}

func c17UpdateRandom(c *Ctx) {
	r := c.Rng
	s := c17UpdScn{Down: r.Bool(), Tags: c17GenTags(r, 10), FetchFail: r.Chance(1, 30)}
	for i, n := 0, r.Range(0, 3); i < n; i++ {
		pc := c17GenConstraint(r)
		// keep digests and junk rarer here, otherwise most scenarios end in the guard errors
		if _, err := semver.NewConstraint(pc); err != nil && r.Chance(2, 3) {
			pc = ">=" + fmt.Sprintf("%d.%d.0", r.Intn(2), r.Intn(3))
		}
		if r.Chance(1, 2) { // wide constraints, so that several parents still leave candidates
			pc = Pick(r, []string{"*", ">=0.0.0", ">=0.1.0", "<3.0.0", ">=0.0.0-0", "<2.0.0", ">=1.0.0", "<=2.1.0"})
		}
		s.Parents = append(s.Parents, pc)
	}
	if r.Chance(1, 15) { // all parents pin the same digest
		for i := range s.Parents {
			s.Parents[i] = c17DigestA
		}
		if len(s.Parents) > 1 && r.Chance(1, 3) { // ... or two different ones
			s.Parents[len(s.Parents)-1] = c17DigestB
		}
	}
	if r.Chance(1, 10) { // digests among version constraints, in every order, two to four parents
		pool := []string{c17DigestA, c17DigestA, c17DigestB, ">=1.0.0", "*", "<2.0.0"}
		s.Parents = nil
		for _, i := range r.Perm(len(pool))[:r.Range(2, 4)] {
			s.Parents = append(s.Parents, pool[i])
		}
	}
	s.Installed = c17GenVersion(r)
	if r.Chance(1, 12) {
		s.Installed = Pick(r, []string{"latest", c17DigestA, ""})
	}
	if len(s.Tags) > 0 && r.Chance(1, 3) {
		s.Installed = Pick(r, s.Tags)
	}
	c17UpdEmit(c, s, "rnd")
}

// exhaustive small scope (thorough tier): every tag list of length <= 3 over a pool with a tie,
// a pre-release, and a non-semver tag, against a constraint pool; install and update.
func c17VerExhaustive(c *Ctx) {
	pool := []string{"1.0.0", "v1.0.0", "1.1.0-rc.1", "1.1.0", "2.0.0", "latest"}
	var lists [][]string
	lists = append(lists, []string{})
	for _, a := range pool {
		lists = append(lists, []string{a})
		for _, b := range pool {
			lists = append(lists, []string{a, b})
			for _, d := range pool {
				lists = append(lists, []string{a, b, d})
			}
		}
	}
	cons := []string{">=1.0.0", "<1.1.0", "^1.0.0", "*", ">1.1.0-rc.0", "not a constraint", c17DigestA}
	parents := [][]string{{}, {">=1.0.0"}, {"<1.1.0", ">=1.0.0"}, {"<2.0.0", "not a constraint"}, {c17DigestA}}
	for _, tags := range lists {
		for _, con := range cons {
			c17InstEmit(c, c17InstScn{Con: con, Tags: tags}, "exh")
		}
		for _, ins := range []string{"1.0.0", "1.1.0-rc.1", "2.0.0", "latest"} {
			for _, down := range []bool{false, true} {
				for _, ps := range parents {
					c17UpdEmit(c, c17UpdScn{Parents: ps, Installed: ins, Down: down, Tags: tags}, "exh")
				}
			}
		}
	}
}

//go:build verif

package main

// C09: connection details reach only their owner's secret, filtered, from the right XR.
// Runs the REAL APIFilteredSecretPublisher.PublishConnection,
// APIConnectionPropagator.PropagateConnection and ExtractConnectionDetails over
// simstore with every pre-existing secret state at source and destination.

import (
	"context"
	"encoding/json"
	"fmt"
	"sort"
	"strconv"
	"strings"

	corev1 "k8s.io/api/core/v1"
	kerrors "k8s.io/apimachinery/pkg/api/errors"
	metav1 "k8s.io/apimachinery/pkg/apis/meta/v1"
	"k8s.io/apimachinery/pkg/apis/meta/v1/unstructured"
	"k8s.io/apimachinery/pkg/runtime"
	"k8s.io/apimachinery/pkg/runtime/schema"
	"k8s.io/apimachinery/pkg/types"

	xpv1 "github.com/crossplane/crossplane-runtime/apis/common/v1"
	"github.com/crossplane/crossplane-runtime/pkg/reconciler/managed"
	"github.com/crossplane/crossplane-runtime/pkg/resource"
	uclaim "github.com/crossplane/crossplane-runtime/pkg/resource/unstructured/claim"
	ucomposed "github.com/crossplane/crossplane-runtime/pkg/resource/unstructured/composed"
	ucomposite "github.com/crossplane/crossplane-runtime/pkg/resource/unstructured/composite"

	v1 "github.com/crossplane/crossplane/apis/apiextensions/v1"
	"github.com/crossplane/crossplane/internal/controller/apiextensions/claim"
	"github.com/crossplane/crossplane/internal/controller/apiextensions/composite"
	"sigs.k8s.io/controller-runtime/pkg/client"
	"sigs.k8s.io/controller-runtime/pkg/reconcile"
)

type c09KV struct {
	K string `json:"k"`
	V string `json:"v"`
}

// c09Secret is the abstract view of a Secret: present/absent, type, controller, data.
type c09Secret struct {
	Present bool    `json:"present"`
	Conn    bool    `json:"conn"` // type is connection.crossplane.io/v1alpha1
	Ctrl    string  `json:"ctrl"` // "none" | "owner" | "xr" | "other"
	Data    []c09KV `json:"data"`
}

type c09Extract struct {
	Type  string `json:"type"` // FromValue | FromConnectionSecretKey | FromFieldPath | Unknown
	Name  string `json:"name"`
	Key   string `json:"key"`   // "" = unset (nil)
	Path  string `json:"path"`  // "" = unset
	Value string `json:"value"` // "" = unset
	HasV  bool   `json:"hasV"`
}

type c09Scn struct {
	Op string `json:"op"` // publish | propagate | extract
	// publish: the XR publishes `details` filtered by `filter` into its secret
	Wants   bool      `json:"wants"` // owner has a writeConnectionSecretToRef
	Filter  []string  `json:"filter"`
	Details []c09KV   `json:"details"`
	Dest    c09Secret `json:"dest"`
	Rounds  int       `json:"rounds"` // publish this many times (>=1)
	// environment of the FIRST call. miss: the writer's Get of the destination goes through an
	// informer cache that has not seen the (existing) secret yet. swap (propagate): when the
	// write to the claim's secret is attempted, a concurrent writer has just replaced the XR's
	// secret by a foreign-controlled one and touched the claim's secret.
	Miss bool `json:"miss,omitempty"`
	Swap bool `json:"swap,omitempty"`
	// propagate: from the XR's secret (`src`) to the claim's (`dest`)
	FromWants bool      `json:"fromWants"`
	Src       c09Secret `json:"src"`
	// status.connectionDetails.lastPublishedTime of the claim (when it last propagated) and of the
	// XR (when it last published): 0 = unset, n = n seconds after a fixed instant. The propagator
	// does not read them: whatever they say, it compares the two secrets.
	ToTime   int `json:"toTime,omitempty"`
	FromTime int `json:"fromTime,omitempty"`
	// extract
	Cfgs     []c09Extract `json:"cfgs"`
	ConnData []c09KV      `json:"connData"`
	Fields   []c09KV      `json:"fields"` // spec.<k> = v on the composed resource
	// spec.<k> fields that are NOT strings (fromFieldPath falls back from GetString to
	// GetValue + json.Marshal): kind int | bool | strs
	Typed []c09Typed `json:"typed,omitempty"`
}

type c09Typed struct {
	K    string   `json:"k"`
	Kind string   `json:"kind"`
	N    int64    `json:"n"`
	B    bool     `json:"b"`
	L    []string `json:"l"`
}

// c09TypedText: the JSON text of a typed field, written out by hand (the monitor's reference).
func c09TypedText(t c09Typed) string {
	switch t.Kind {
	case "int":
		return strconv.FormatInt(t.N, 10)
	case "bool":
		if t.B {
			return "true"
		}
		return "false"
	}
	q := []string{}
	for _, x := range t.L {
		q = append(q, `"`+x+`"`)
	}
	return "[" + strings.Join(q, ",") + "]"
}

type c09Obs struct {
	Dest      c09Secret `json:"dest"`
	Src       c09Secret `json:"src"`
	Published []bool    `json:"published"`
	Errs      []bool    `json:"errs"`
	Writes    []int     `json:"writes"`  // applied write requests to the destination per round
	Changed   []bool    `json:"-"` // stored bytes changed per round
	Extracted []c09KV   `json:"extracted"`
}

const (
	c09OwnerUID = "owner-uid"
	c09XRUID    = "xr-uid"
	c09OtherUID = "other-uid"
)

func c09KVs(m map[string][]byte) []c09KV {
	out := []c09KV{}
	for k, v := range m {
		out = append(out, c09KV{K: k, V: string(v)})
	}
	sort.Slice(out, func(i, j int) bool { return out[i].K < out[j].K })
	return out
}

func c09Map(kvs []c09KV) map[string][]byte {
	m := map[string][]byte{}
	for _, kv := range kvs {
		m[kv.K] = []byte(kv.V)
	}
	return m
}

func c09Seed(st *Store, ns, name string, s c09Secret, ownerUID string) {
	if !s.Present {
		return
	}
	sec := &corev1.Secret{ObjectMeta: metav1.ObjectMeta{Namespace: ns, Name: name}, Data: c09Map(s.Data), Type: corev1.SecretTypeOpaque}
	if s.Conn {
		sec.Type = resource.SecretTypeConnection
	}
	tr := true
	switch s.Ctrl {
	case "owner":
		sec.OwnerReferences = []metav1.OwnerReference{{APIVersion: "example.org/v1", Kind: "Owner", Name: "o", UID: types.UID(ownerUID), Controller: &tr}}
	case "xr":
		sec.OwnerReferences = []metav1.OwnerReference{{APIVersion: "example.org/v1", Kind: "XThing", Name: "xr", UID: c09XRUID, Controller: &tr}}
	case "other":
		sec.OwnerReferences = []metav1.OwnerReference{{APIVersion: "example.org/v1", Kind: "Else", Name: "e", UID: c09OtherUID, Controller: &tr}}
	case "xrPlain":
		// the XR is listed as a plain (non-controller) owner: the secret has NO controller
		sec.OwnerReferences = []metav1.OwnerReference{{APIVersion: "example.org/v1", Kind: "XThing", Name: "xr", UID: c09XRUID}}
	}
	st.Seed(sec)
}

func c09View(st *Store, ns, name, ownerUID string) c09Secret {
	u := st.Peek(schema.GroupKind{Kind: "Secret"}, ns, name)
	if u == nil {
		return c09Secret{Ctrl: "none", Data: []c09KV{}}
	}
	sec := &corev1.Secret{}
	_ = runtime.DefaultUnstructuredConverter.FromUnstructured(u.Object, sec)
	v := c09Secret{Present: true, Conn: sec.Type == resource.SecretTypeConnection, Ctrl: "none", Data: c09KVs(sec.Data)}
	for _, o := range sec.OwnerReferences {
		if string(o.UID) == c09XRUID && (o.Controller == nil || !*o.Controller) {
			v.Ctrl = "xrPlain"
		}
	}
	if c := metav1.GetControllerOf(sec); c != nil {
		switch string(c.UID) {
		case ownerUID:
			v.Ctrl = "owner"
		case c09XRUID:
			v.Ctrl = "xr"
		default:
			v.Ctrl = "other"
		}
	}
	return v
}

// c09DestApplied counts the write requests to the destination that took effect on the store.
func c09DestApplied(st *Store, ns, name string) int {
	n := 0
	for _, c := range st.Log {
		if c.IsWrite() && c.GK == "Secret" && c.NS == ns && c.Name == name && !c.DryRun && c.Applied {
			n++
		}
	}
	return n
}

func c09DestWrites(st *Store, ns, name string) (int, bool) {
	n, ch := 0, false
	for _, c := range st.Log {
		if c.IsWrite() && c.GK == "Secret" && c.NS == ns && c.Name == name && !c.DryRun {
			n++
			if c.Changed {
				ch = true
			}
		}
	}
	return n, ch
}

// c09Cache is the writer's cached client: while `miss` is set, a Get of ns/name answers
// NotFound although the secret is stored (the call is still logged and fault-planned by simstore).
type c09Cache struct {
	*Store
	ns, name string
	miss     *bool
}

func (c c09Cache) Get(ctx context.Context, key client.ObjectKey, obj client.Object, opts ...client.GetOption) error {
	before := obj.DeepCopyObject()
	err := c.Store.Get(ctx, key, obj, opts...)
	if *c.miss && err == nil && key.Namespace == c.ns && key.Name == c.name {
		// a failed Get leaves the caller's object untouched
		if sec, ok := obj.(*corev1.Secret); ok {
			*sec = *(before.(*corev1.Secret))
		} else if u, ok := obj.(runtime.Unstructured); ok {
			u.SetUnstructuredContent(before.(runtime.Unstructured).UnstructuredContent())
		}
		return kerrors.NewNotFound(schema.GroupResource{Resource: "secrets"}, key.Name)
	}
	return err
}

const c09SwapKey, c09SwapVal = "admin-token", "s3cr3t"

func c09Run(s c09Scn) (c09Obs, []Mon) {
	sch := runtime.NewScheme()
	_ = corev1.AddToScheme(sch)
	st := NewStore(sch)
	obs := c09Obs{Published: []bool{}, Errs: []bool{}, Writes: []int{}, Changed: []bool{}, Extracted: []c09KV{}, Dest: c09Secret{Data: []c09KV{}, Ctrl: "none"}, Src: c09Secret{Data: []c09KV{}, Ctrl: "none"}}
	var mons []Mon
	mon := func(sig, why string) { mons = append(mons, Mon{Sig: sig, Why: why}) }
	switch s.Op {
	case "publish":
		xr := ucomposite.New(ucomposite.WithGroupVersionKind(xwXRGVK))
		xr.SetName("xr")
		xr.SetUID(c09OwnerUID)
		if s.Wants {
			xr.SetWriteConnectionSecretToReference(&xpv1.SecretReference{Namespace: "ns", Name: "dest"})
		}
		c09Seed(st, "ns", "dest", s.Dest, c09OwnerUID)
		before := c09View(st, "ns", "dest", c09OwnerUID)
		miss := false
		pub := composite.NewAPIFilteredSecretPublisher(c09Cache{Store: st, ns: "ns", name: "dest", miss: &miss}, s.Filter)
		for i := 0; i < s.Rounds; i++ {
			st.Log = nil
			miss = s.Miss && i == 0
			var p bool
			var err error
			prev := st.Snapshot()
			if pn := Guard(func() { p, err = pub.PublishConnection(context.Background(), xr, managed.ConnectionDetails(c09Map(s.Details))) }); pn != "" {
				mon("C09:panic", pn)
			}
			w, ch := c09DestWrites(st, "ns", "dest")
			obs.Published = append(obs.Published, p)
			obs.Errs = append(obs.Errs, err != nil)
			obs.Writes = append(obs.Writes, w)
			obs.Changed = append(obs.Changed, ch)
			after := st.Snapshot()
			// --- direct monitors ---
			cur := c09View(st, "ns", "dest", c09OwnerUID)
			if !s.Wants && (len(after) != len(prev) || w > 0) {
				mon("C09:published-unasked", "a secret was written although the XR has no writeConnectionSecretToRef")
			}
			allowed := map[string]bool{}
			for _, k := range s.Filter {
				allowed[k] = true
			}
			det := c09Map(s.Details)
			old := c09Map(before.Data)
			for _, kv := range cur.Data {
				_, wasThere := old[kv.K]
				dv, produced := det[kv.K]
				ok := len(s.Filter) == 0 || allowed[kv.K]
				if wasThere && string(old[kv.K]) == kv.V {
					continue // untouched pre-existing key
				}
				if !(produced && ok && string(dv) == kv.V) {
					mon("C09:key-not-allowed", fmt.Sprintf("secret key %q=%q is neither pre-existing nor an allowed key produced by the composition", kv.K, kv.V))
				}
			}
			foreign := s.Dest.Present && (s.Dest.Ctrl == "other" || s.Dest.Ctrl == "xr" || ((s.Dest.Ctrl == "none" || s.Dest.Ctrl == "xrPlain") && !s.Dest.Conn))
			if foreign && (ch || c09DestApplied(st, "ns", "dest") > 0) {
				mon("C09:wrote-foreign-secret", "write addressed to a secret controlled by someone else / uncontrolled non-connection secret")
			}
			// identical data is never rewritten: if every key that would be written is already stored with that value, no write request and published=false
			need := false
			stored := c09Map(c09ViewFromSnapshot(prev, sch))
			for k, v := range det {
				if len(s.Filter) == 0 || allowed[k] {
					if sv, ok := stored[k]; !ok || string(sv) != string(v) {
						need = true
					}
				}
			}
			_, existed := prev["Secret/ns/dest"]
			if s.Wants && existed && !foreign && !need && (c09DestApplied(st, "ns", "dest") > 0 || p) {
				mon("C09:rewrote-identical", fmt.Sprintf("all published keys already stored with equal values, yet writes=%d published=%v", w, p))
			}
		}
		obs.Dest = c09View(st, "ns", "dest", c09OwnerUID)
	case "propagate":
		xr := ucomposite.New(ucomposite.WithGroupVersionKind(xwXRGVK))
		xr.SetName("xr")
		xr.SetUID(c09XRUID)
		if s.FromWants {
			xr.SetWriteConnectionSecretToReference(&xpv1.SecretReference{Namespace: "xrns", Name: "src"})
		}
		cm := uclaim.New(uclaim.WithGroupVersionKind(schema.GroupVersionKind{Group: xwGroup, Version: "v1", Kind: "Thing"}))
		cm.SetName("claim")
		cm.SetNamespace("ns")
		cm.SetUID(c09OwnerUID)
		if s.Wants {
			cm.SetWriteConnectionSecretToReference(&xpv1.LocalSecretReference{Name: "dest"})
		}
		c09SetTimes(cm, xr, s.ToTime, s.FromTime)
		c09Seed(st, "xrns", "src", s.Src, c09OwnerUID)
		c09Seed(st, "ns", "dest", s.Dest, c09OwnerUID)
		miss := false
		prop := claim.NewAPIConnectionPropagator(c09Cache{Store: st, ns: "ns", name: "dest", miss: &miss})
		swapped := false
		for i := 0; i < s.Rounds; i++ {
			st.Log = nil
			miss = s.Miss && i == 0
			st.Before = nil
			if s.Swap && i == 0 {
				st.Before = func(c CallInfo) {
					if swapped || !c.IsWrite() || c.GK != "Secret" || c.NS != "ns" || c.Name != "dest" {
						return
					}
					swapped = true
					gk := schema.GroupKind{Kind: "Secret"}
					st.Remove(gk, "xrns", "src")
					c09Seed(st, "xrns", "src", c09Secret{Present: true, Conn: !s.Src.Present || s.Src.Conn, Ctrl: "other", Data: []c09KV{{K: c09SwapKey, V: c09SwapVal}}}, c09OwnerUID)
					st.Mutate(gk, "ns", "dest", func(u *unstructured.Unstructured) {
						l := u.GetLabels()
						if l == nil {
							l = map[string]string{}
						}
						l["touched-by"] = "someone-else"
						u.SetLabels(l)
					})
				}
			}
			var p bool
			var err error
			if pn := Guard(func() { p, err = prop.PropagateConnection(context.Background(), cm, xr) }); pn != "" {
				mon("C09:panic", pn)
			}
			w, ch := c09DestWrites(st, "ns", "dest")
			obs.Published = append(obs.Published, p)
			obs.Errs = append(obs.Errs, err != nil)
			obs.Writes = append(obs.Writes, w)
			obs.Changed = append(obs.Changed, ch)
			srcOK := s.Src.Present && s.Src.Ctrl == "xr"
			if !srcOK && !swapped && (w > 0 || ch) && s.FromWants && s.Wants {
				mon("C09:propagated-unowned-source", "claim secret written although the source secret is not controlled by the bound XR")
			}
			if p && err == nil {
				d := c09View(st, "ns", "dest", c09OwnerUID)
				if mustJSON(d.Data) != mustJSON(c09KVs(c09Map(s.Src.Data))) || (swapped && i > 0) {
					mon("C09:copy-not-exact", "claim secret data differs from the XR secret data after a successful propagation")
				}
			}
			if i > 0 && (w > 0 || p) && obs.Errs[i-1] == false && obs.Published[i-1] {
				mon("C09:rewrote-identical", "second propagation of identical data wrote again")
			}
			// a propagation that reports no error leaves the claim's secret an exact copy of the
			// XR's - also when it reports that there was nothing to do
			if err == nil && s.Wants && s.FromWants && srcOK && !swapped {
				d := c09View(st, "ns", "dest", c09OwnerUID)
				if !d.Present || !c09SameData(d.Data, c09KVs(c09Map(s.Src.Data))) {
					mon("C09:claim-secret-stale", fmt.Sprintf("PropagateConnection returned (%v, nil) but the claim's secret (present=%v) is not a copy of its XR's secret (claim lastPublishedTime=%d, XR lastPublishedTime=%d)", p, d.Present, s.ToTime, s.FromTime))
				}
			}
			if swapped {
				for _, kv := range c09View(st, "ns", "dest", c09OwnerUID).Data {
					if kv.K == c09SwapKey && kv.V == c09SwapVal {
						mon("C09:foreign-source-copied", "the claim's secret holds data of a secret that is not controlled by the bound XR (it replaced the XR's secret while the claim's secret was being written)")
					}
				}
			}
			foreign := s.Dest.Present && (s.Dest.Ctrl == "other" || s.Dest.Ctrl == "xr" || ((s.Dest.Ctrl == "none" || s.Dest.Ctrl == "xrPlain") && !s.Dest.Conn))
			if foreign && (ch || c09DestApplied(st, "ns", "dest") > 0) {
				mon("C09:wrote-foreign-secret", "write addressed to a secret controlled by someone else / uncontrolled non-connection secret")
			}
		}
		obs.Dest = c09View(st, "ns", "dest", c09OwnerUID)
		obs.Src = c09View(st, "xrns", "src", c09OwnerUID)
	case "extract":
		cd := ucomposed.New()
		cd.SetAPIVersion(xwGroup + "/v1")
		cd.SetKind("KA")
		cd.SetName("cd")
		spec := map[string]any{}
		for _, f := range s.Fields {
			spec[f.K] = f.V
		}
		for _, t := range s.Typed {
			switch t.Kind {
			case "int":
				spec[t.K] = t.N
			case "bool":
				spec[t.K] = t.B
			default:
				l := []any{}
				for _, x := range t.L {
					l = append(l, x)
				}
				spec[t.K] = l
			}
		}
		cd.Object["spec"] = spec
		before := mustJSON(cd.Object)
		var cfgs []composite.ConnectionDetailExtractConfig
		for _, c := range s.Cfgs {
			e := composite.ConnectionDetailExtractConfig{Type: composite.ConnectionDetailType(c.Type), Name: c.Name}
			if c.Key != "" {
				k := c.Key
				e.FromConnectionSecretKey = &k
			}
			if c.Path != "" {
				p := c.Path
				e.FromFieldPath = &p
			}
			if c.HasV {
				v := c.Value
				e.Value = &v
			}
			cfgs = append(cfgs, e)
		}
		var out managed.ConnectionDetails
		var err error
		if pn := Guard(func() { out, err = composite.ExtractConnectionDetails(cd, c09Map(s.ConnData), cfgs...) }); pn != "" {
			mon("C09:panic", pn)
		}
		obs.Errs = append(obs.Errs, err != nil)
		obs.Extracted = c09KVs(out)
		if mustJSON(cd.Object) != before {
			mon("C09:extract-mutated-source", "ExtractConnectionDetails modified the composed resource")
		}
		// only values produced by the composition: every extracted value is what a config of that
		// name designates - its fixed value, the named key of the resource's connection secret, or
		// the named field of the resource
		conn := c09Map(s.ConnData)
		for name, v := range out {
			sourced := false
			for _, c := range s.Cfgs {
				if c.Name != name {
					continue
				}
				switch c.Type {
				case "FromValue":
					sourced = sourced || (c.HasV && c.Value == string(v))
				case "FromConnectionSecretKey":
					cv, ok := conn[c.Key]
					sourced = sourced || (c.Key != "" && ok && string(cv) == string(v))
				case "FromFieldPath":
					if c.Path == "metadata.name" {
						sourced = sourced || string(v) == "cd"
					}
					for _, f := range s.Fields {
						sourced = sourced || (c.Path == "spec."+f.K && f.V == string(v))
					}
					for _, t := range s.Typed {
						sourced = sourced || (c.Path == "spec."+t.K && c09TypedText(t) == string(v))
					}
				}
			}
			if !sourced {
				mon("C09:extracted-value-unsourced", fmt.Sprintf("extracted %q=%q is not designated by any connection detail config of that name", name, v))
			}
		}
		if err != nil && len(out) > 0 {
			mon("C09:extracted-value-unsourced", "details returned together with an error")
		}
	}
	return obs, mons
}

// c09SetTimes sets status.connectionDetails.lastPublishedTime of a claim and its XR (0 = unset).
func c09SetTimes(cm *uclaim.Unstructured, xr *ucomposite.Unstructured, to, from int) {
	if to > 0 {
		cm.SetConnectionDetailsLastPublishedTime(&metav1.Time{Time: metav1.Unix(1700000000+int64(to), 0).Time})
	}
	if from > 0 {
		xr.SetConnectionDetailsLastPublishedTime(&metav1.Time{Time: metav1.Unix(1700000000+int64(from), 0).Time})
	}
}

func c09ViewFromSnapshot(snap map[string]string, _ *runtime.Scheme) []c09KV {
	raw, ok := snap["Secret/ns/dest"]
	if !ok {
		return nil
	}
	var m map[string]any
	_ = json.Unmarshal([]byte(raw), &m)
	sec := &corev1.Secret{}
	_ = runtime.DefaultUnstructuredConverter.FromUnstructured(m, sec)
	return c09KVs(sec.Data)
}

func c09GenSecret(r *Rng, keys []string) c09Secret {
	s := c09Secret{Present: r.Chance(2, 3), Conn: r.Chance(2, 3), Ctrl: Pick(r, []string{"none", "owner", "owner", "xr", "other", "xrPlain"}), Data: []c09KV{}}
	if !s.Present {
		return c09Secret{Ctrl: "none", Data: []c09KV{}}
	}
	for _, k := range keys {
		if r.Chance(1, 2) {
			s.Data = append(s.Data, c09KV{K: k, V: Pick(r, []string{"1", "2", ""})})
		}
	}
	return s
}

func c09Gen(r *Rng) c09Scn {
	keys := []string{"user", "pass", "host", "stale"}
	s := c09Scn{Op: Pick(r, []string{"publish", "publish", "propagate", "propagate", "extract"}), Filter: []string{}, Details: []c09KV{}, Cfgs: []c09Extract{}, ConnData: []c09KV{}, Fields: []c09KV{}, Rounds: r.Range(1, 3)}
	s.Dest = c09Secret{Ctrl: "none", Data: []c09KV{}}
	s.Src = c09Secret{Ctrl: "none", Data: []c09KV{}}
	switch s.Op {
	case "publish":
		s.Wants = r.Chance(5, 6)
		if r.Chance(2, 3) {
			for _, k := range keys[:3] {
				if r.Bool() {
					s.Filter = append(s.Filter, k)
				}
			}
			// blank entries: alone (a non-empty list that allows nothing), repeated, next to real keys
			if r.Chance(1, 4) {
				s.Filter = append([]string{""}, s.Filter...)
				if r.Bool() {
					s.Filter = append(s.Filter, "")
				}
			}
		}
		for _, k := range keys[:3] {
			if r.Chance(2, 3) {
				s.Details = append(s.Details, c09KV{K: k, V: Pick(r, []string{"1", "2", ""})})
			}
		}
		s.Dest = c09GenSecret(r, keys)
		s.Miss = r.Chance(1, 5)
	case "propagate":
		s.Wants = r.Chance(5, 6)
		s.FromWants = r.Chance(5, 6)
		s.Src = c09GenSecret(r, keys)
		if r.Chance(1, 2) {
			s.Src.Present, s.Src.Ctrl = true, "xr"
		}
		s.Dest = c09GenSecret(r, keys)
		s.Miss = r.Chance(1, 6)
		s.Swap = r.Chance(1, 4)
		if r.Bool() {
			s.ToTime, s.FromTime = r.Intn(4), r.Intn(4)
		}
	case "extract":
		n := r.Range(0, 4)
		// half of the streams are well-formed lists of 2-6 configs (names repeat: a later config
		// overrides an earlier one), so that long lists are extracted and not only rejected
		valid := r.Bool()
		if valid {
			n = r.Range(2, 6)
		}
		for i := 0; i < n; i++ {
			if valid {
				c := c09Extract{Name: Pick(r, []string{"a", "b", "c", "d"})}
				switch r.Intn(5) {
				case 0:
					c.Type, c.HasV, c.Value = "FromValue", true, Pick(r, []string{"fixed", "", fmt.Sprintf("v%d", i)})
				case 1, 2:
					c.Type, c.Key = "FromConnectionSecretKey", Pick(r, []string{"user", "pass", "missing"})
				case 3:
					c.Type, c.Path = "FromFieldPath", Pick(r, []string{"spec.f1", "spec.f2", "spec.nope", "spec[", "metadata.name", "spec.port", "spec.tls", "spec.hosts"})
				case 4:
					c.Type = "Unknown"
				}
				if i > 0 && r.Chance(1, 8) {
					// a later config lacking the field its type needs (earlier ones have it)
					c.Key, c.Path, c.HasV, c.Value = "", "", false, ""
					s.Cfgs = append(s.Cfgs, c)
					continue
				}
				if r.Chance(1, 4) && c.Key == "" {
					c.Key = "user" // fields of the other types are ignored
				}
				if r.Chance(1, 4) && !c.HasV {
					c.HasV, c.Value = true, "stray"
				}
				s.Cfgs = append(s.Cfgs, c)
				continue
			}
			c := c09Extract{Type: Pick(r, []string{"FromValue", "FromConnectionSecretKey", "FromFieldPath", "FromFieldPath", "Unknown"}), Name: Pick(r, []string{"a", "b", "c", ""})}
			if r.Chance(3, 4) {
				c.Key = Pick(r, []string{"user", "pass", "missing"})
			}
			if r.Chance(3, 4) {
				c.Path = Pick(r, []string{"spec.f1", "spec.f2", "spec.nope", "spec[", "metadata.name", "spec.port", "spec.hosts"})
			}
			if r.Chance(3, 4) {
				c.HasV, c.Value = true, Pick(r, []string{"fixed", ""})
			}
			if r.Chance(1, 8) {
				c.Name = ""
			}
			s.Cfgs = append(s.Cfgs, c)
		}
		for _, k := range []string{"user", "pass"} {
			if r.Bool() {
				s.ConnData = append(s.ConnData, c09KV{K: k, V: Pick(r, []string{"u", "p"})})
			}
		}
		for _, k := range []string{"f1", "f2"} {
			if r.Bool() {
				s.Fields = append(s.Fields, c09KV{K: k, V: Pick(r, []string{"x", "y"})})
			}
		}
		// fields that are not strings: a port, a flag, a list of endpoints
		if r.Chance(2, 3) {
			s.Typed = append(s.Typed, c09Typed{K: "port", Kind: "int", N: int64(Pick(r, []int{5432, 0, -1, 65535})), L: []string{}})
		}
		if r.Chance(1, 2) {
			s.Typed = append(s.Typed, c09Typed{K: "tls", Kind: "bool", B: r.Bool(), L: []string{}})
		}
		if r.Chance(1, 2) {
			s.Typed = append(s.Typed, c09Typed{K: "hosts", Kind: "strs", L: Pick(r, [][]string{{}, {"a"}, {"a", "b-1.example"}})})
		}
	}
	return s
}

func init() {
	Register("C09", func(c *Ctx) {
		for _, raw := range c.Corpus {
			var ls c09LeakScn
			if json.Unmarshal(raw, &ls) == nil && ls.Op == "ptflow" {
				lo, lm := c09LeakRun(ls)
				c.Emit(ls, lo, lm, "corpus")
				continue
			}
			var ws c09WorldScn
			if json.Unmarshal(raw, &ws) == nil && ws.Op == "world" {
				wo, wm := c09WorldRun(ws)
				c.Emit(ws, wo, wm, "corpus")
				continue
			}
			var cs c09ClaimScn
			if json.Unmarshal(raw, &cs) == nil && cs.Op == "claimrec" {
				co, cmn := c09ClaimRun(cs)
				c.Emit(cs, co, cmn, "corpus")
				continue
			}
			var fs c09FlowScn
			if json.Unmarshal(raw, &fs) == nil && fs.Op == "flow" {
				fo, fm := c09FlowRun(fs)
				c.Emit(fs, fo, fm, "corpus")
				continue
			}
			var s c09Scn
			if json.Unmarshal(raw, &s) == nil && s.Op != "" {
				obs, mons := c09Run(s)
				c.Emit(s, obs, mons, "corpus")
			}
		}
		for i := 0; i < c.N; i++ {
			switch i % 12 {
			case 5:
				ls := c09LeakGen(c.Rng)
				lo, lm := c09LeakRun(ls)
				c.Emit(ls, lo, lm, fmt.Sprintf("ptflow/ctrl=%s/secret=%v/published=%v", ls.Ctrl, ls.CdSecret, lo.XRSecret.Present))
				continue
			case 1, 3, 7, 9:
				// the long-lived publisher / propagator over sequences of owners and secrets
				ws := c09WorldGen(c.Rng)
				wo, wm := c09WorldRun(ws)
				c.Emit(ws, wo, wm, c09WorldCls(ws, wo))
				continue
			case 4, 10:
				// the real claim reconciler (default options) around the propagator: live and deleted claims
				cs := c09ClaimGen(c.Rng)
				co, cmn := c09ClaimRun(cs)
				c.Emit(cs, co, cmn, c09ClaimCls(cs, co))
				continue
			case 2, 8, 11:
				// connection details through the real composers, several XRs, one reconciler
				fs := c09FlowGen(c.Rng)
				fo, fm := c09FlowRun(fs)
				c.Emit(fs, fo, fm, c09FlowCls(fs, fo))
				continue
			}
			s := c09Gen(c.Rng)
			obs, mons := c09Run(s)
			cls := s.Op
			switch s.Op {
			case "publish":
				cls += fmt.Sprintf("/wants=%v/filter=%d/dest=%v:%s:%v/pub=%v", s.Wants, len(s.Filter), s.Dest.Present, s.Dest.Ctrl, s.Dest.Conn, obs.Published[0])
			case "propagate":
				cls += fmt.Sprintf("/src=%v:%s/dest=%v:%s:%v/pub=%v", s.Src.Present, s.Src.Ctrl, s.Dest.Present, s.Dest.Ctrl, s.Dest.Conn, obs.Published[0])
			case "extract":
				cls += fmt.Sprintf("/cfgs=%d/err=%v/out=%d", len(s.Cfgs), obs.Errs[0], len(obs.Extracted))
			}
			c.Emit(s, obs, mons, cls)
		}
	})
}

// ---- provenance through the P&T composer ("only values produced by the composition for this XR") ----

type c09LeakScn struct {
	Op       string  `json:"op"`       // "ptflow"
	Ctrl     string  `json:"ctrl"`     // controller of the referenced composed resource: "xr" | "other" | "none"
	CdSecret bool    `json:"cdSecret"` // the composed resource has a connection secret
	Secret   []c09KV `json:"secret"`   // its data
	Key      string  `json:"key"`      // connection detail: FromConnectionSecretKey <key> as <key>
	Rounds   int     `json:"rounds"`
}

type c09LeakObs struct {
	XRSecret c09Secret `json:"xrSecret"`
	Synced   bool      `json:"synced"`
}

func c09LeakRun(s c09LeakScn) (c09LeakObs, []Mon) {
	sch := runtime.NewScheme()
	_ = corev1.AddToScheme(sch)
	st := NewStore(sch)
	var mons []Mon
	xr := ucomposite.New(ucomposite.WithGroupVersionKind(xwXRGVK))
	xr.SetName(xwXRName)
	xr.SetLabels(map[string]string{"crossplane.io/composite": xwXRName})
	xr.SetFinalizers([]string{"composite.apiextensions.crossplane.io"})
	xr.SetCompositionReference(&corev1.ObjectReference{Name: "comp"})
	xr.SetWriteConnectionSecretToReference(&xpv1.SecretReference{Namespace: "xrns", Name: "xr-conn"})
	xr.SetResourceReferences([]corev1.ObjectReference{{APIVersion: xwGroup + "/v1", Kind: "KA", Name: "cd1"}})
	st.Seed(xr)
	xrUID := st.Peek(xwXRGVK.GroupKind(), "", xwXRName).GetUID()
	cd := ucomposed.New()
	cd.SetAPIVersion(xwGroup + "/v1")
	cd.SetKind("KA")
	cd.SetName("cd1")
	cd.SetAnnotations(map[string]string{xwAnnot: "a"})
	tr := true
	switch s.Ctrl {
	case "xr":
		cd.SetOwnerReferences([]metav1.OwnerReference{{APIVersion: xwGroup + "/v1", Kind: xwXRGVK.Kind, Name: xwXRName, UID: xrUID, Controller: &tr, BlockOwnerDeletion: &tr}})
	case "other":
		cd.SetOwnerReferences([]metav1.OwnerReference{{APIVersion: xwGroup + "/v1", Kind: xwXRGVK.Kind, Name: "victim-xr", UID: xwForeignUID, Controller: &tr, BlockOwnerDeletion: &tr}})
	}
	if s.CdSecret {
		cd.SetWriteConnectionSecretToReference(&xpv1.SecretReference{Namespace: "victim", Name: "vsec"})
		st.Seed(&corev1.Secret{ObjectMeta: metav1.ObjectMeta{Namespace: "victim", Name: "vsec"}, Type: resource.SecretTypeConnection, Data: c09Map(s.Secret)})
	}
	st.Seed(cd)
	name := "a"
	base, _ := json.Marshal(map[string]any{"apiVersion": xwGroup + "/v1", "kind": "KA", "spec": map[string]any{"content": 1}})
	key := s.Key
	tp := v1.ConnectionDetailTypeFromConnectionSecretKey
	rev := &v1.CompositionRevision{}
	mode := v1.CompositionModeResources
	rev.Spec.Mode = &mode
	rev.Spec.Resources = []v1.ComposedTemplate{{Name: &name, Base: runtime.RawExtension{Raw: base},
		ConnectionDetails: []v1.ConnectionDetail{{Name: &key, Type: &tp, FromConnectionSecretKey: &key}},
		ReadinessChecks:   []v1.ReadinessCheck{{Type: v1.ReadinessCheckTypeNone}}}}
	r := composite.NewReconciler(st, st, resource.CompositeKind(xwXRGVK),
		composite.WithComposer(composite.NewPTComposer(st, st)),
		composite.WithCompositionSelector(composite.CompositionSelectorFn(func(context.Context, resource.Composite) error { return nil })),
		composite.WithCompositionRevisionFetcher(composite.CompositionRevisionFetcherFn(func(context.Context, resource.Composite) (*v1.CompositionRevision, error) { return rev, nil })),
		composite.WithCompositionRevisionValidator(composite.CompositionRevisionValidatorFn(func(*v1.CompositionRevision) error { return nil })),
		composite.WithConfigurator(composite.ConfiguratorFn(func(context.Context, resource.Composite, *v1.CompositionRevision) error { return nil })),
	)
	for i := 0; i < s.Rounds; i++ {
		if p := Guard(func() {
			_, _ = r.Reconcile(context.Background(), reconcile.Request{NamespacedName: types.NamespacedName{Name: xwXRName}})
		}); p != "" {
			mons = append(mons, Mon{Sig: "C09:panic", Why: p})
		}
	}
	obs := c09LeakObs{XRSecret: c09View(st, "xrns", "xr-conn", string(xrUID))}
	got := ucomposite.New()
	got.SetUnstructuredContent(st.Peek(xwXRGVK.GroupKind(), "", xwXRName).Object)
	for _, c := range got.GetConditions() {
		if c.Type == "Synced" && c.Status == corev1.ConditionTrue {
			obs.Synced = true
		}
	}
	// direct monitor: values of a resource the XR does not control never reach the XR's secret
	if s.Ctrl == "other" && len(obs.XRSecret.Data) > 0 {
		mons = append(mons, Mon{Sig: "C09:foreign-details-published", Why: fmt.Sprintf("the XR's connection secret holds %v taken from the connection secret of a composed resource controlled by another XR", obs.XRSecret.Data)})
	}
	if s.Ctrl == "other" && obs.Synced {
		mons = append(mons, Mon{Sig: "C09:foreign-resource-reported-synced", Why: "a composed resource controlled by another owner was reported as successfully applied"})
	}
	return obs, mons
}

func c09LeakGen(r *Rng) c09LeakScn {
	s := c09LeakScn{Op: "ptflow", Ctrl: Pick(r, []string{"xr", "other", "other", "none"}), CdSecret: r.Chance(4, 5), Secret: []c09KV{}, Key: Pick(r, []string{"password", "user"}), Rounds: r.Range(1, 2)}
	for _, k := range []string{"password", "user"} {
		if r.Chance(3, 4) {
			s.Secret = append(s.Secret, c09KV{K: k, V: Pick(r, []string{"hunter2", "root"})})
		}
	}
	return s
}

//go:build verif

package main

// Generator of the C10 "cseq" scenarios (c10_world.go): sequences of reconciles by one
// long-lived composer.

import (
	"fmt"
)

// look-alike template names: string prefixes of one another, case variants, trailing separators
var c10TplNamePools = [][]string{
	{"res-1", "res-10", "res", "Res-1"},
	{"a", "a-", "A", "a.b"},
	{"db", "db-replica", "DB", "db/replica"},
	{"res-0", "res-1", "res-2", "res-3"},
}

// look-alike patch-set names
var c10SetNames = []string{"common", "common-", "Common", "common-tags", "commo"}

type c10PathPair struct{ from, to string }

// source / destination pairs whose destinations are look-alikes of one another: a name that is a
// prefix of another, case variants, the same path in bracket syntax, a parent and its child, a
// key with a dot next to the nested path of the same spelling, indices 1 and 10
var c10SeqPairs = []c10PathPair{
	{"spec.groups", "spec.forProvider.groups"}, {"spec.groups", "spec.forProvider.groups"},
	{"spec.tags", "spec.forProvider.tags"}, {"spec.tags", "spec.forProvider.tagsExtra"}, {"spec.tags", "spec.forProvider.Tags"},
	{"spec.region", "spec.forProvider.region"}, {"spec.region", "spec.forProvider[region]"}, {"spec.region", "spec.forProvider.regionName"},
	{"spec.nested", "spec.forProvider.nested"}, {"spec.nested.m", "spec.forProvider.nested.m"}, {"spec.nested.list", "spec.forProvider.nested.list"},
	{"spec.groups[0]", "spec.forProvider.groups[0]"}, {"spec.groups[1]", "spec.forProvider.groups[1]"}, {"spec.groups[1]", "spec.forProvider.groups[10]"},
	{"spec.region", "spec.rules[*].owner"}, {"spec.groups", "spec.rules[*].groups"},
	{"spec.missing", "spec.forProvider.groups"}, {"spec.size", "spec.forProvider.size"},
	{"spec[a.b]", "spec.forProvider[a.b]"}, {"spec.a.b", "spec.forProvider.a.b"}, {"spec.a", "spec.forProvider.a"},
	{"metadata.name", "spec.forProvider.owner"}, {"metadata.labels[crossplane.io/composite]", "spec.forProvider.prefix"},
}

func c10GenSeqList(r *Rng, max int) []any {
	l := []any{}
	for i, n := 0, r.Intn(max+1); i < n; i++ {
		l = append(l, Pick(r, []string{"a", "b", "c", "stale", "d"}))
	}
	return l
}

func c10GenSeqMap(r *Rng) map[string]any {
	m := map[string]any{}
	for i, n := 0, r.Intn(4); i < n; i++ {
		m[Pick(r, []string{"env", "team", "tier", "k"})] = Pick(r, []any{"prod", "dev", "x", int64(1)})
	}
	return m
}

// c10GenSeqXRSpec: the spec the user of the composite left before a reconcile.
func c10GenSeqXRSpec(r *Rng) map[string]any {
	sp := map[string]any{"region": Pick(r, []string{"eu-west-1", "us-east-1a", "abc"})}
	if !r.Chance(1, 8) {
		sp["groups"] = c10GenSeqList(r, 3)
	}
	if !r.Chance(1, 8) {
		sp["tags"] = c10GenSeqMap(r)
	}
	if r.Chance(1, 2) {
		sp["nested"] = map[string]any{"list": c10GenSeqList(r, 2), "m": c10GenSeqMap(r)}
	}
	if r.Chance(3, 4) {
		sp["size"] = Pick(r, []any{int64(1), int64(3), int64(42), 1.5, "10Gi"})
	}
	if r.Chance(1, 3) {
		sp["a.b"] = Pick(r, []any{"dotted", int64(7)})
	}
	if r.Chance(1, 3) {
		sp["a"] = map[string]any{"b": Pick(r, []any{"nested", int64(8)})}
	}
	return sp
}

// c10GenSeqStored: a spec a composed resource may hold (stale values at the patched paths).
func c10GenSeqStored(r *Rng) map[string]any {
	cfp := map[string]any{}
	if !r.Chance(1, 5) {
		cfp["groups"] = Pick(r, []any{c10GenSeqList(r, 3), c10GenSeqList(r, 3), []any{"a", "stale"}, "scalar", nil})
	}
	if !r.Chance(1, 5) {
		cfp["tags"] = Pick(r, []any{c10GenSeqMap(r), c10GenSeqMap(r), map[string]any{"env": "old", "gone": "y"}, []any{"x"}})
	}
	if r.Chance(1, 3) {
		cfp["tagsExtra"] = map[string]any{"extra": "kept"}
	}
	if r.Chance(1, 3) {
		cfp["nested"] = map[string]any{"list": c10GenSeqList(r, 3), "m": c10GenSeqMap(r)}
	}
	if r.Chance(1, 3) {
		cfp["region"] = "old-region"
	}
	cur := map[string]any{"forProvider": cfp}
	if r.Chance(1, 2) {
		cur["rules"] = Pick(r, []any{[]any{map[string]any{"port": int64(80), "owner": "old"}}, []any{}, nil})
	}
	return cur
}

// clusters of look-alike destinations (indices into c10SeqPairs): a template that draws all its
// patches from one cluster patches paths that are prefixes / case variants / other spellings /
// parents and children of one another
var c10SeqClusters = [][]int{{2, 3, 4}, {5, 6, 7}, {8, 9, 10}, {0, 11, 12, 13}, {18, 19, 20}, {14, 15, 0}}

func c10GenSeqFromPatch(r *Rng, xrSpec map[string]any, cluster []int) c10Patch {
	pr := Pick(r, c10SeqPairs)
	if cluster != nil {
		pr = c10SeqPairs[Pick(r, cluster)]
	}
	p := c10Patch{Type: Pick(r, []string{"FromCompositeFieldPath", "FromCompositeFieldPath", "FromCompositeFieldPath", ""}), From: &c10Path{Raw: pr.from}, To: &c10Path{Raw: pr.to}}
	switch r.Intn(6) {
	case 0, 1:
	case 2:
		p.Policy = &c10Policy{From: c10P(Pick(r, []string{"Optional", "Required"}))}
	default:
		p.Policy = &c10Policy{MO: c10GenMO(r)}
		if r.Chance(1, 4) {
			p.Policy.From = c10P(Pick(r, []string{"Optional", "Required"}))
		}
	}
	if r.Chance(1, 4) {
		if v, ok := c10ValueAt(map[string]any{"spec": xrSpec, "metadata": map[string]any{"name": "xa", "labels": map[string]any{"crossplane.io/composite": "xa"}}}, pr.from); ok {
			p.Xfs = c10GenSaneChain(r, v)
			if len(p.Xfs) > 2 {
				p.Xfs = p.Xfs[:2]
			}
		}
	}
	if r.Chance(1, 12) {
		p.Type = "CombineFromComposite"
		p.From = nil
		p.Combine = &c10Combine{Strategy: "string", Fmt: c10P("%v-%v"), Vars: []c10Path{{Raw: "spec.region"}, {Raw: pr.from}}}
		p.To = &c10Path{Raw: "spec.forProvider.combined"}
		p.Xfs = nil
	}
	return p
}

type c10SeqComp struct {
	rev  string
	sets []c10PatchSet
	tpls map[string]c10WTpl // by template key (name, or position for anonymous ones)
}

func c10GenSeqComp(r *Rng, ci int, keys []string, named bool, xrSpec map[string]any) c10SeqComp {
	c := c10SeqComp{rev: fmt.Sprintf("comp-%d", ci), tpls: map[string]c10WTpl{}}
	// "shared first": every template STARTS with a reference to the same patch set of 1-9
	// patches and adds patches of its own after it (the patch lists reach Compose as decoded from
	// JSON: a decoded slice of 3, 5-7 or 9 elements has spare capacity)
	sharedFirst := len(keys) >= 2 && r.Chance(1, 3)
	if sharedFirst {
		ps := c10PatchSet{Name: Pick(r, c10SetNames)}
		for j, m := 0, r.Range(1, 9); j < m; j++ {
			ps.Patches = append(ps.Patches, c10GenSeqFromPatch(r, xrSpec, nil))
		}
		c.sets = append(c.sets, ps)
		if r.Chance(1, 3) {
			c.sets = append(c.sets, c10PatchSet{Name: Pick(r, c10SetNames), Patches: []c10Patch{c10GenSeqFromPatch(r, xrSpec, nil)}})
			if c.sets[1].Name == ps.Name {
				c.sets = c.sets[:1]
			}
		}
	} else if r.Chance(1, 2) {
		used := map[string]bool{}
		for i, n := 0, r.Range(1, 3); i < n; i++ {
			name := Pick(r, c10SetNames)
			if used[name] && !r.Chance(1, 6) {
				continue
			}
			used[name] = true
			ps := c10PatchSet{Name: name}
			for j, m := 0, r.Range(1, 2); j < m; j++ {
				ps.Patches = append(ps.Patches, c10GenSeqFromPatch(r, xrSpec, nil))
			}
			if r.Chance(1, 60) {
				ps.Patches = append(ps.Patches, c10Patch{Type: "PatchSet", Set: c10P("common")})
			}
			c.sets = append(c.sets, ps)
		}
	}
	for ki, key := range keys {
		t := c10WTpl{}
		if named {
			t.Name = c10P(key)
		}
		fp := map[string]any{}
		if r.Chance(1, 3) {
			fp["groups"] = c10GenSeqList(r, 2)
		}
		if r.Chance(1, 3) {
			fp["tags"] = c10GenSeqMap(r)
		}
		bspec := map[string]any{"forProvider": fp, "tpl": fmt.Sprintf("%s/%d", c.rev, ki)}
		switch r.Intn(6) {
		case 0:
			bspec["rules"] = nil
		case 1:
			bspec["rules"] = []any{}
		case 2, 3:
			bspec["rules"] = []any{map[string]any{"port": int64(80)}, map[string]any{"port": int64(443), "owner": "x"}}
		}
		base := map[string]any{"apiVersion": "example.org/v1", "kind": "Thing", "spec": bspec}
		if r.Chance(1, 4) {
			base["metadata"] = map[string]any{"labels": map[string]any{"app": c.rev}, "annotations": map[string]any{"note": key}}
		}
		if r.Chance(1, 100) {
			base["kind"] = "Other"
		}
		t.BaseSrc = mustJSON(base)
		if r.Chance(1, 150) {
			t.BaseSrc = "{bad"
		}
		var cluster []int
		if r.Bool() {
			cluster = Pick(r, c10SeqClusters)
		}
		for j, m := 0, r.Range(0, 3); j < m; j++ {
			t.Patches = append(t.Patches, c10GenSeqFromPatch(r, xrSpec, cluster))
		}
		if sharedFirst {
			own := []c10Patch{{Type: "PatchSet", Set: c10P(c.sets[0].Name)},
				{Type: "FromCompositeFieldPath", From: &c10Path{Raw: Pick(r, []string{"spec.region", "spec.size", "metadata.name"})}, To: &c10Path{Raw: fmt.Sprintf("spec.forProvider.own%d", ki)}}}
			if len(t.Patches) > 2 {
				t.Patches = t.Patches[:2]
			}
			t.Patches = append(own, t.Patches...)
		} else if len(c.sets) > 0 && r.Chance(1, 2) {
			set := c.sets[r.Intn(len(c.sets))].Name
			if r.Chance(1, 25) {
				// a look-alike of a defined name
				set = Pick(r, c10SetNames)
			}
			at := r.Intn(len(t.Patches) + 1)
			ps := append([]c10Patch{}, t.Patches[:at]...)
			ps = append(ps, c10Patch{Type: "PatchSet", Set: c10P(set)})
			t.Patches = append(ps, t.Patches[at:]...)
		} else if r.Chance(1, 80) {
			t.Patches = append(t.Patches, c10Patch{Type: "PatchSet"})
		}
		if r.Chance(1, 4) {
			p := c10Patch{Type: "ToCompositeFieldPath", From: &c10Path{Raw: Pick(r, []string{"status.id", "status.missing", "metadata.name"})}, To: &c10Path{Raw: "status." + Pick(r, []string{"id", "observed.x"})}}
			if r.Chance(1, 5) {
				p.Policy = &c10Policy{From: c10P("Required")}
			}
			t.Patches = append(t.Patches, p)
		}
		c.tpls[key] = t
	}
	return c
}

// c10GenSeqEnv draws the world around one template's Apply.
func c10GenSeqEnv(r *Rng, t *c10WTpl) {
	if r.Chance(2, 3) {
		return
	}
	spec := func() any { return c10Enc(c10GenSeqStored(r)) }
	switch r.Intn(7) {
	case 0:
		t.View = "miss"
	case 1:
		t.View = "stale"
		if r.Chance(1, 2) {
			t.Interf, t.InterfAt, t.InterfSpec = "edit", "update", spec()
		}
	case 2:
		t.GetErr = Pick(r, c10Classes)
	case 3, 4:
		t.Fault = Pick(r, c10Classes)
		if r.Chance(1, 3) {
			t.Interf, t.InterfAt, t.InterfSpec = "edit", Pick(r, []string{"update", "write"}), spec()
		}
	default:
		t.Interf = Pick(r, []string{"delete", "edit", "edit", "create", "createForeign"})
		t.InterfAt = Pick(r, []string{"update", "write"})
		t.InterfSpec = spec()
		if r.Chance(1, 4) {
			t.View = Pick(r, []string{"miss", "stale"})
		}
	}
}

func c10GenSeqScn(r *Rng) *c10Scn {
	pool := Pick(r, c10TplNamePools)
	n := r.Range(1, 4)
	named := r.Chance(3, 4)
	keys := append([]string{}, pool[:n]...)
	if named && r.Bool() {
		p := r.Perm(len(pool))
		keys = keys[:0]
		for _, i := range p[:n] {
			keys = append(keys, pool[i])
		}
	}
	sq := &c10SeqScn{}
	nx := r.Range(1, 2)
	for x := 0; x < nx; x++ {
		xr := c10WXR{Name: []string{"xa", "xb"}[x]}
		if r.Chance(2, 3) {
			for i, k := range keys {
				if !r.Chance(2, 3) {
					if !named {
						// references are positional: no gaps
						break
					}
					continue
				}
				sd := c10Seed{Name: fmt.Sprintf("%s-pre-%d", xr.Name, i), Spec: c10Enc(c10GenSeqStored(r))}
				if named && !r.Chance(1, 10) {
					sd.Tpl = k
				}
				if r.Chance(1, 3) {
					sd.Status = c10Enc(map[string]any{"id": Pick(r, []any{"abc-123", int64(7), true})})
				}
				xr.Seeds = append(xr.Seeds, sd)
			}
		}
		sq.XRs = append(sq.XRs, xr)
	}
	xrSpec0 := c10GenSeqXRSpec(r)
	nc := r.Range(1, 3)
	comps := make([]c10SeqComp, nc)
	for ci := range comps {
		comps[ci] = c10GenSeqComp(r, ci, keys, named, xrSpec0)
	}
	specs := map[string]map[string]any{}
	ns := r.Range(2, 5)
	for k := 0; k < ns; k++ {
		xr := sq.XRs[r.Intn(len(sq.XRs))].Name
		// the user edits the composite now and then; other reconciles see it unchanged
		if specs[xr] == nil || r.Chance(2, 3) {
			specs[xr] = c10GenSeqXRSpec(r)
			if r.Chance(1, 3) {
				specs[xr] = xrSpec0
			}
		}
		comp := comps[r.Intn(len(comps))]
		step := c10Step{XRName: xr, Spec: c10Enc(specs[xr]), Rev: comp.rev, PatchSets: comp.sets}
		if !r.Chance(1, 14) {
			l := map[string]any{"crossplane.io/composite": xr}
			if r.Chance(1, 3) {
				l["crossplane.io/claim-name"] = "claim"
				l["crossplane.io/claim-namespace"] = "team-a"
			}
			step.Labels = c10Enc(l)
		}
		order := make([]int, len(keys))
		for i := range order {
			order[i] = i
		}
		if named && r.Chance(1, 2) {
			order = r.Perm(len(keys))
		}
		for _, ki := range order {
			t := comp.tpls[keys[ki]]
			t.Patches = append([]c10Patch{}, t.Patches...)
			t.NameGen = fmt.Sprintf("%s-s%d-t%d", xr, k, ki)
			if r.Chance(1, 7) {
				t.NameGen = "fail"
				if r.Chance(2, 3) {
					t.NameErr = Pick(r, c10Classes)
				}
			}
			c10GenSeqEnv(r, &t)
			step.Tpls = append(step.Tpls, t)
		}
		if r.Chance(1, 25) {
			step.Upd = Pick(r, c10Classes)
		}
		if r.Chance(1, 40) {
			step.XREdit = true
		}
		if r.Chance(1, 25) {
			step.XRApply = Pick(r, c10Classes)
		}
		sq.Steps = append(sq.Steps, step)
	}
	return &c10Scn{Kind: "cseq", Seq: sq}
}

//go:build verif

package main

// Library oracles for C10: everything here calls the Go standard library or
// k8s/apimachinery directly (never the Crossplane code under test) and records
// the verdicts for one transform step, keyed by the step's input.

import (
	"crypto/sha1"
	"crypto/sha256"
	"crypto/sha512"
	"encoding/base64"
	"encoding/hex"
	"encoding/json"
	"fmt"
	"hash/adler32"
	"regexp"
	"strconv"
	"strings"

	"k8s.io/apimachinery/pkg/api/resource"
)

func c10IsASCII(s string) bool {
	for i := 0; i < len(s); i++ {
		if s[i] >= 0x80 {
			return false
		}
	}
	return true
}

func c10HashBytes(in any) ([]byte, bool) {
	if s, ok := in.(string); ok {
		return []byte(s), true
	}
	b, err := json.Marshal(in)
	if err != nil {
		return nil, false
	}
	return b, true
}

// c10StepOracle returns the library verdicts a model of transform t needs for input in.
func c10StepOracle(t c10Xf, in any) map[string]any {
	o := map[string]any{"in": c10Enc(in)}
	switch t.Type {
	case "math":
		if f, ok := in.(float64); ok && t.Math != nil {
			if t.Math.Multiply != nil {
				o["fmul"] = c10Enc(f * float64(*t.Math.Multiply))
			}
			if t.Math.ClampMin != nil {
				o["ltMin"] = f < float64(*t.Math.ClampMin)
			}
			if t.Math.ClampMax != nil {
				o["gtMax"] = f > float64(*t.Math.ClampMax)
			}
		}
	case "match":
		if t.Match != nil {
			res := make([]any, 0, len(t.Match.Patterns))
			for _, p := range t.Match.Patterns {
				e := map[string]any{}
				if p.Regexp != nil {
					re, err := regexp.Compile(*p.Regexp)
					e["ok"] = err == nil
					if s, isStr := in.(string); isStr && err == nil {
						e["m"] = re.MatchString(s)
					}
				}
				res = append(res, e)
			}
			o["re"] = res
		}
	case "string":
		if t.String == nil {
			break
		}
		pv := fmt.Sprintf("%v", in)
		o["pv"] = pv
		switch t.String.Type {
		case "Format":
			if t.String.Fmt != nil {
				o["fmt"] = fmt.Sprintf(*t.String.Fmt, in)
			}
		case "Convert":
			// the model computes the ASCII case mapping itself (asciiUpper/asciiLower); the library's
			// Unicode tables are only consulted - and shipped - for text beyond ASCII
			if !c10IsASCII(pv) {
				o["upper"] = strings.ToUpper(pv)
				o["lower"] = strings.ToLower(pv)
			}
			if raw, err := json.Marshal(in); err == nil {
				o["json"] = string(raw)
			} else {
				o["json"] = nil
			}
			o["b64e"] = base64.StdEncoding.EncodeToString([]byte(pv))
			if d, err := base64.StdEncoding.DecodeString(pv); err == nil {
				o["b64d"] = string(d)
			} else {
				o["b64d"] = nil
			}
			if b, ok := c10HashBytes(in); ok {
				h1 := sha1.Sum(b)
				h256 := sha256.Sum256(b)
				h512 := sha512.Sum512(b)
				o["sha1"] = hex.EncodeToString(h1[:])
				o["sha256"] = hex.EncodeToString(h256[:])
				o["sha512"] = hex.EncodeToString(h512[:])
				o["adler"] = strconv.FormatUint(uint64(adler32.Checksum(b)), 10)
			}
		case "Regexp":
			if t.String.Regexp != nil {
				re, err := regexp.Compile(t.String.Regexp.Match)
				o["compile"] = err == nil
				if err == nil {
					g := re.FindStringSubmatch(pv)
					if g == nil {
						o["groups"] = nil
					} else {
						gs := make([]any, len(g))
						for i := range g {
							gs[i] = g[i]
						}
						o["groups"] = gs
					}
				}
			}
		case "Join":
			if l, ok := in.([]any); ok {
				pvs := make([]any, len(l))
				for i := range l {
					pvs[i] = fmt.Sprintf("%v", l[i])
				}
				o["pvs"] = pvs
			}
		}
	case "convert":
		switch x := in.(type) {
		case string:
			if f, err := strconv.ParseFloat(x, 64); err == nil {
				o["pfloat"] = c10Enc(f)
			} else {
				o["pfloat"] = nil
			}
			if q, err := resource.ParseQuantity(x); err == nil {
				o["pquant"] = c10Enc(q.AsApproximateFloat64())
			} else {
				o["pquant"] = nil
			}
			obj := map[string]any{}
			if err := json.Unmarshal([]byte(x), &obj); err == nil && obj != nil {
				o["jobj"] = c10Enc(obj)
			} else {
				o["jobj"] = nil
			}
			var arr []any
			if err := json.Unmarshal([]byte(x), &arr); err == nil && arr != nil {
				o["jarr"] = c10Enc(arr)
			} else {
				o["jarr"] = nil
			}
		case int64:
			o["itof"] = c10Enc(float64(x))
		case float64:
			o["ffmt"] = strconv.FormatFloat(x, 'f', -1, 64)
			o["trunc"] = int64(x)
		}
	}
	return o
}

//go:build verif

package main

import (
	"bytes"
	"encoding/json"
)

func jsonUnmarshalStrict(b []byte, v any) error {
	d := json.NewDecoder(bytes.NewReader(b))
	return d.Decode(v)
}

func mustJSON(v any) string {
	b, err := json.Marshal(v)
	if err != nil {
		panic(err)
	}
	return string(b)
}

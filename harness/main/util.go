//go:build verif

package main

import (
	"bytes"
	"encoding/json"

	"sigs.k8s.io/controller-runtime/pkg/client"
)

func jsonUnmarshalStrict(b []byte, v any) error {
	d := json.NewDecoder(bytes.NewReader(b))
	return d.Decode(v)
}

func mustJSON(v any) string {
	b, err := json.Marshal(v)
	if err != nil {
		panic(err)
	}
	return string(b)
}

func clientKey(name string) client.ObjectKey { return client.ObjectKey{Name: name} }

//go:build verif

package main

// C15 regenerated facts (tie "a", DESIGN 2.3): read from the CURRENT source tree
// (VERIF_REPO, default /repo) with go/ast on every check run and written to
// lean/Xp/Gen/C15Skel.lean:
//
//   * the ordered call skeleton (API verbs, the repo's own helpers, the condition
//     constructors and every `return`) of each Go function the C15 model mirrors;
//     lean/Xp/Model/C15Skel.lean declares, entry by entry, the model step that mirrors each
//     call and lean/Xp/Props/C15.lean states `Xp.Gen.<name> = <declared>` by `decide`;
//   * the composition of the three package linters (which checks NewProviderLinter /
//     NewConfigurationLinter / NewFunctionLinter pass to PackageLinterFns / ObjectLinterFns /
//     Or), from which the model computes its structural linter `lintS`;
//   * per exported check function (IsProvider ... IsComposition) the scheme kinds it accepts,
//     probed by calling the real function on a fresh object of every scheme kind;
//   * the conversion-hub arguments of every TryConvert / TryConvertToPkg call site of the
//     anchored files, as source text (they have to be fresh composite literals: a shared hub
//     is written by concurrent reconciles);
//   * constants the model relies on (maxLayers, the base-layer annotation, the stream file
//     name, the cache file extension).

import (
	"fmt"
	"go/ast"
	"go/parser"
	"go/token"
	"go/types"
	"path/filepath"
	"sort"
	"strconv"
	"strings"

	"k8s.io/apimachinery/pkg/runtime"
	"k8s.io/apimachinery/pkg/runtime/schema"

	"github.com/crossplane/crossplane/internal/xpkg"
)

const (
	c15FRec   = "internal/controller/pkg/revision/reconciler.go"
	c15FImg   = "internal/controller/pkg/revision/imageback.go"
	c15FSig   = "internal/controller/pkg/signature/reconciler.go"
	c15FCache = "internal/xpkg/cache.go"
	c15FRead  = "internal/xpkg/reader.go"
	c15FLint  = "internal/xpkg/lint.go"
	c15FCfg   = "internal/xpkg/config.go"
	c15FSch   = "internal/xpkg/scheme.go"
	c15FVer   = "internal/version/version.go"
	c15FBuild = "internal/xpkg/build.go"
)

func c15Set(xs ...string) map[string]bool {
	m := map[string]bool{}
	for _, x := range xs {
		m[x] = true
	}
	return m
}

// verbs of revision.Reconciler.Reconcile / deactivateRevision: client and cache verbs, the
// collaborators (backend, parser, linter, lock, establisher, hooks, config store), the
// helpers the gates are made of, the condition constructors (which condition a branch
// records) and the error-class predicates the branches test.
var c15RecVerbs = c15Set(
	"Get", "Update", "Delete", "Has", "Store", "Init", "Parse", "Lint", "Resolve", "RemoveSelf",
	"Establish", "ReleaseObjects", "Pre", "Post", "Deactivate", "AddFinalizer", "RemoveFinalizer",
	"PullSecretFor", "CloseWithError", "Close", "Pipe", "TeeReadCloser", "LimitReader",
	"PackageCrossplaneCompatible", "TryConvertToPkg", "IsPaused", "WasDeleted", "Enabled",
	"deactivateRevision", "runtimeManifestBuilderOptions", "SetObjects", "SetDependencyStatus",
	"IsConflict", "IgnoreNotFound", "Healthy", "Unhealthy", "UnknownHealth", "AwaitingVerification",
	"ReconcilePaused", "CleanConditions", "AddLabels", "AddAnnotations", "GetObjects", "GetMeta",
	"GetDesiredState", "GetPackagePullPolicy", "GetIgnoreCrossplaneConstraints", "GetSkipDependencyResolution",
)

var c15SigVerbs = c15Set(
	"Get", "Update", "IsNotFound", "ImageVerificationConfigFor", "ParseReference", "PullSecretFor", "Validate",
	"VerificationIncomplete", "VerificationSkipped", "VerificationFailed", "VerificationSucceeded",
	"GetDesiredState", "GetCondition",
)

var c15FsVerbs = c15Set(
	"Stat", "IsDir", "Open", "Create", "Remove", "BuildPath", "GzipReadCloser", "NewWriterLevel", "NewReader",
	"Copy", "Close", "IsNotExist", "Lock", "Unlock", "RLock", "RUnlock", "Read", "TeeReader", "Is",
)

var c15ImgVerbs = c15Set(
	"ParseReference", "WithDefaultRegistry", "RefNames", "Fetch", "Manifest", "LayerByDigest", "Layer", "Image",
	"Uncompressed", "Extract", "NewReader", "Next", "JoinedReadCloser", "Errorf", "New", "Wrap", "Wrapf",
)

var c15LintVerbs = c15Set(
	"TryConvert", "TryConvertToPkg", "GetCrossplaneConstraints", "InConstraints", "NewConstraint", "GetMeta",
	"GetSemVer", "NewVersion", "Check", "ConvertTo",
)

var c15CfgVerbs = c15Set("List", "HasPrefix", "bestMatch")

type c15SkelSpec struct {
	lean, file, recv, fn string
	verbs                map[string]bool
}

// unqualified calls that count (package-local helpers and the builtin close of the
// cacheWrite channel)
var c15SkelIdents = c15Set("close", "TryConvertToPkg", "PackageRevision", "PullSecretFromConfig", "BuildPath", "GzipReadCloser", "TryConvert", "valid")

var c15SkelSpecs = []c15SkelSpec{
	{"c15SkelReconcile", c15FRec, "Reconciler", "Reconcile", c15RecVerbs},
	{"c15SkelDeactivate", c15FRec, "Reconciler", "deactivateRevision", c15RecVerbs},
	{"c15SkelImageInit", c15FImg, "ImageBackend", "Init", c15ImgVerbs},
	{"c15SkelCacheHas", c15FCache, "FsPackageCache", "Has", c15FsVerbs},
	{"c15SkelCacheGet", c15FCache, "FsPackageCache", "Get", c15FsVerbs},
	{"c15SkelCacheStore", c15FCache, "FsPackageCache", "Store", c15FsVerbs},
	{"c15SkelCacheDelete", c15FCache, "FsPackageCache", "Delete", c15FsVerbs},
	{"c15SkelGzipReadCloser", c15FRead, "", "GzipReadCloser", c15FsVerbs},
	{"c15SkelGzipRead", c15FRead, "gzipReadCloser", "Read", c15FsVerbs},
	{"c15SkelGzipClose", c15FRead, "gzipReadCloser", "Close", c15FsVerbs},
	{"c15SkelTeeNew", c15FRead, "", "TeeReadCloser", c15FsVerbs},
	{"c15SkelTeeRead", c15FRead, "teeReadCloser", "Read", c15FsVerbs},
	{"c15SkelTeeClose", c15FRead, "teeReadCloser", "Close", c15FsVerbs},
	{"c15SkelSigReconcile", c15FSig, "Reconciler", "Reconcile", c15SigVerbs},
	{"c15SkelVerifCfgFor", c15FCfg, "ImageConfigStore", "ImageVerificationConfigFor", c15CfgVerbs},
	{"c15SkelBestMatch", c15FCfg, "ImageConfigStore", "bestMatch", c15CfgVerbs},
	{"c15SkelOneMeta", c15FLint, "", "OneMeta", c15LintVerbs},
	{"c15SkelCompatible", c15FLint, "", "PackageCrossplaneCompatible", c15LintVerbs},
	{"c15SkelValidSemver", c15FLint, "", "PackageValidSemver", c15LintVerbs},
	{"c15SkelTryConvert", c15FSch, "", "TryConvert", c15LintVerbs},
	{"c15SkelTryConvertToPkg", c15FSch, "", "TryConvertToPkg", c15LintVerbs},
	{"c15SkelInConstraints", c15FVer, "Versioner", "InConstraints", c15LintVerbs},
}

// ---------------------------------------------------------------- linter composition

func c15ParseFile(rel string) (*ast.File, error) {
	return parser.ParseFile(token.NewFileSet(), filepath.Join(SkelRepo(), rel), nil, 0)
}

func c15FuncDecl(f *ast.File, name string) *ast.FuncDecl {
	for _, d := range f.Decls {
		if fd, ok := d.(*ast.FuncDecl); ok && fd.Name.Name == name && fd.Recv == nil && fd.Body != nil {
			return fd
		}
	}
	return nil
}

func c15CallName(e ast.Expr) string {
	c, ok := e.(*ast.CallExpr)
	if !ok {
		return ""
	}
	switch t := c.Fun.(type) {
	case *ast.SelectorExpr:
		return t.Sel.Name
	case *ast.Ident:
		return t.Name
	}
	return ""
}

// c15LinterShape reads `return parser.NewPackageLinter(parser.PackageLinterFns(A...),
// parser.ObjectLinterFns(B...), parser.ObjectLinterFns(C...))` of constructor fn: the
// package checks, the checks run on every meta object, and the checks run on every object,
// each of the latter as a disjunction (`parser.Or(x, y)` = [x, y]; a bare check = [x]).
// Anything of another form is reported as an entry that no declared shape equals.
func c15LinterShape(f *ast.File, fn string) (pkgFns, metaFns []string, objFns [][]string) {
	bad := func(why string) ([]string, []string, [][]string) {
		return []string{"UNRECOGNISED: " + why}, nil, nil
	}
	fd := c15FuncDecl(f, fn)
	if fd == nil {
		return bad(fn + " not found")
	}
	if len(fd.Body.List) != 1 {
		return bad(fn + " is not a single return")
	}
	rs, ok := fd.Body.List[0].(*ast.ReturnStmt)
	if !ok || len(rs.Results) != 1 || c15CallName(rs.Results[0]) != "NewPackageLinter" {
		return bad(fn + " does not return NewPackageLinter(...)")
	}
	args := rs.Results[0].(*ast.CallExpr).Args
	if len(args) != 3 || c15CallName(args[0]) != "PackageLinterFns" || c15CallName(args[1]) != "ObjectLinterFns" || c15CallName(args[2]) != "ObjectLinterFns" {
		return bad(fn + ": arguments are not (PackageLinterFns, ObjectLinterFns, ObjectLinterFns)")
	}
	names := func(es []ast.Expr) []string {
		out := []string{}
		for _, e := range es {
			out = append(out, types.ExprString(e))
		}
		return out
	}
	pkgFns = names(args[0].(*ast.CallExpr).Args)
	metaFns = names(args[1].(*ast.CallExpr).Args)
	objFns = [][]string{}
	for _, e := range args[2].(*ast.CallExpr).Args {
		if c15CallName(e) == "Or" {
			objFns = append(objFns, names(e.(*ast.CallExpr).Args))
		} else {
			objFns = append(objFns, []string{types.ExprString(e)})
		}
	}
	return pkgFns, metaFns, objFns
}

func leanStrListList(xss [][]string) string {
	q := make([]string, len(xss))
	for i, xs := range xss {
		q[i] = leanStrList(xs)
	}
	return "[" + strings.Join(q, ", ") + "]"
}

// the exported check functions of internal/xpkg/lint.go the harness can call by name; a
// check a linter names that is not listed here gets the table entry ["UNKNOWN CHECK"].
var c15CheckFns = map[string]func(runtime.Object) error{
	"IsProvider":                       xpkg.IsProvider,
	"IsConfiguration":                  xpkg.IsConfiguration,
	"IsFunction":                       xpkg.IsFunction,
	"PackageValidSemver":               xpkg.PackageValidSemver,
	"IsCRD":                            xpkg.IsCRD,
	"IsMutatingWebhookConfiguration":   xpkg.IsMutatingWebhookConfiguration,
	"IsValidatingWebhookConfiguration": xpkg.IsValidatingWebhookConfiguration,
	"IsXRD":                            xpkg.IsXRD,
	"IsComposition":                    xpkg.IsComposition,
}

func c15ParseGVK(s string) schema.GroupVersionKind {
	g, v, k := c15SplitGVK(s)
	return schema.GroupVersionKind{Group: g, Version: v, Kind: k}
}

// c15CheckAccepts: the scheme kinds (of the meta scheme and of the object scheme) on a
// fresh object of which the real check function returns nil.
func c15CheckAccepts(fn func(runtime.Object) error, ms, os *runtime.Scheme, metaKinds, objKinds []string) []string {
	out := []string{}
	probe := func(s *runtime.Scheme, kinds []string) {
		for _, k := range kinds {
			o, err := s.New(c15ParseGVK(k))
			if err != nil {
				continue
			}
			o.GetObjectKind().SetGroupVersionKind(c15ParseGVK(k))
			ok := false
			if p := Guard(func() { ok = fn(o) == nil }); p != "" {
				ok = false
			}
			if ok {
				out = append(out, k)
			}
		}
	}
	probe(ms, metaKinds)
	probe(os, objKinds)
	return out
}

// c15HubArgs lists, for every call of TryConvert / TryConvertToPkg in file rel, the
// enclosing function and the source text of the hub arguments.
func c15HubArgs(rel string) []string {
	f, err := c15ParseFile(rel)
	if err != nil {
		return []string{"EXTRACTION FAILED: " + err.Error()}
	}
	out := []string{}
	for _, d := range f.Decls {
		fd, ok := d.(*ast.FuncDecl)
		if !ok || fd.Body == nil {
			continue
		}
		ast.Inspect(fd.Body, func(n ast.Node) bool {
			c, ok := n.(*ast.CallExpr)
			if !ok {
				return true
			}
			nm := c15CallName(c)
			if nm != "TryConvert" && nm != "TryConvertToPkg" {
				return true
			}
			args := []string{}
			for _, a := range c.Args[1:] {
				args = append(args, types.ExprString(a))
			}
			ell := ""
			if c.Ellipsis.IsValid() {
				ell = "..."
			}
			out = append(out, fd.Name.Name+": "+nm+"("+strings.Join(args, ", ")+ell+")")
			return true
		})
	}
	return out
}

// c15ConstString returns the source text of the value of a package-level constant.
func c15ConstString(rel, name string) string {
	f, err := c15ParseFile(rel)
	if err != nil {
		return "EXTRACTION FAILED: " + err.Error()
	}
	for _, d := range f.Decls {
		gd, ok := d.(*ast.GenDecl)
		if !ok || (gd.Tok != token.CONST && gd.Tok != token.VAR) {
			continue
		}
		for _, s := range gd.Specs {
			vs, ok := s.(*ast.ValueSpec)
			if !ok {
				continue
			}
			for i, n := range vs.Names {
				if n.Name == name && i < len(vs.Values) {
					return types.ExprString(vs.Values[i])
				}
			}
		}
	}
	return "NOT FOUND: " + name
}

func c15DumpSkel() string {
	var sb strings.Builder
	for _, s := range c15SkelSpecs {
		sb.WriteString(SkelDef(s.lean, s.file, s.recv, s.fn, SkelOpts{Verbs: s.verbs, DropRecv: true, Returns: true, Idents: c15SkelIdents}))
		sb.WriteString("\n")
	}

	// linter composition
	lf, err := c15ParseFile(c15FLint)
	used := map[string]bool{}
	for _, p := range c15PTypes {
		up := strings.ToUpper(p[:1]) + p[1:]
		var a, b []string
		var c [][]string
		if err != nil {
			a = []string{"EXTRACTION FAILED: " + err.Error()}
		} else {
			a, b, c = c15LinterShape(lf, "New"+up+"Linter")
		}
		for _, x := range b {
			used[x] = true
		}
		for _, d := range c {
			for _, x := range d {
				used[x] = true
			}
		}
		fmt.Fprintf(&sb, "/-- New%sLinter (lint.go): the checks passed to PackageLinterFns -/\ndef c15Lint%sPkg : List String := %s\n", up, up, leanStrList(a))
		fmt.Fprintf(&sb, "/-- New%sLinter: the checks run on every meta object (first ObjectLinterFns) -/\ndef c15Lint%sMeta : List String := %s\n", up, up, leanStrList(b))
		fmt.Fprintf(&sb, "/-- New%sLinter: the checks run on every object (second ObjectLinterFns), each a disjunction (parser.Or) -/\ndef c15Lint%sObj : List (List String) := %s\n\n", up, up, leanStrListList(c))
	}

	// acceptance table of every check a linter names
	ms, _ := xpkg.BuildMetaScheme()
	os, _ := xpkg.BuildObjectScheme()
	metaKinds := c15SchemeKinds(ms, false)
	objKinds := c15SchemeKinds(os, false)
	names := []string{}
	for n := range used {
		names = append(names, n)
	}
	for n := range c15CheckFns {
		if !used[n] {
			names = append(names, n)
		}
	}
	sort.Strings(names)
	sb.WriteString("/-- per check function of lint.go: the scheme kinds on a fresh object of which the real function returns nil -/\n")
	sb.WriteString("def c15CheckAccepts : List (String × List String) := [\n")
	for i, n := range names {
		acc := []string{"UNKNOWN CHECK"}
		if fn, ok := c15CheckFns[n]; ok {
			acc = c15CheckAccepts(fn, ms, os, metaKinds, objKinds)
		}
		sep := ","
		if i == len(names)-1 {
			sep = ""
		}
		fmt.Fprintf(&sb, "  (%s, %s)%s\n", leanStr(n), leanStrList(acc), sep)
	}
	sb.WriteString("]\n\n")

	// conversion hubs
	hubs := []string{}
	for _, f := range []string{c15FRec, c15FLint, c15FSch, c15FBuild} {
		for _, h := range c15HubArgs(f) {
			hubs = append(hubs, filepath.Base(f)+" "+h)
		}
	}
	sb.WriteString("/-- every TryConvert / TryConvertToPkg call site of reconciler.go, lint.go, scheme.go, build.go with its hub arguments as source text -/\n")
	sb.WriteString("def c15HubArgs : List String := " + leanStrList(hubs) + "\n\n")

	// constants
	ml := c15ConstString(c15FImg, "maxLayers")
	fmt.Fprintf(&sb, "def c15MaxLayers : String := %s\n", leanStr(ml))
	mln, err := strconv.Atoi(ml)
	if err != nil {
		mln = 0 // not an integer literal any more: no image passes the model's limit, the correspondence shows it
	}
	fmt.Fprintf(&sb, "def c15MaxLayersN : Nat := %d\n", mln)
	fmt.Fprintf(&sb, "def c15LayerAnnotation : String := %s\n", leanStr(c15ConstString(c15FImg, "layerAnnotation")))
	fmt.Fprintf(&sb, "def c15BaseAnnotationValue : String := %s\n", leanStr(c15ConstString(c15FImg, "baseAnnotationValue")))
	fmt.Fprintf(&sb, "def c15CacheContentExt : String := %s\n", leanStr(c15ConstString(c15FCache, "cacheContentExt")))
	fmt.Fprintf(&sb, "def c15StreamFile : String := %s\n", leanStr(xpkg.StreamFile))
	return sb.String()
}

func init() {
	RegisterDump("C15Skel", c15DumpSkel)
}

//go:build verif

package main

// C19 scenario generators, registration and table dump.

import (
	"context"
	"fmt"
	"sort"
	"strings"

	metav1 "k8s.io/apimachinery/pkg/apis/meta/v1"
	"k8s.io/apimachinery/pkg/apis/meta/v1/unstructured"

	"github.com/crossplane/crossplane-runtime/pkg/resource/unstructured/composed"

	"github.com/crossplane/crossplane/apis/apiextensions/v1beta1"
	usagectrl "github.com/crossplane/crossplane/internal/controller/apiextensions/usage"
	usagehook "github.com/crossplane/crossplane/internal/usage"
)

type c19ResID struct{ AV, Kind, Name string }

// versions of the same group/kind a request or a Usage may use
func c19Versions(av string) []string {
	switch c19Group(av) {
	case "ex.org":
		return []string{"ex.org/v1", "ex.org/v1beta1", "ex.org/v2"}
	case "other.io":
		return []string{"other.io/v1", "other.io/v1alpha1"}
	}
	return []string{av}
}

var c19Outcomes = []string{"ok", "fail", "conflict", "crashBefore", "crashAfter"}

// served versions of the Usage kind a Composition's template may name ("" = v1beta1)
var c19UsageVersions = []string{"", "", v1beta1.Group + "/v1beta1", v1beta1.Group + "/v1alpha1"}

type c19GenState struct {
	lag     bool // this scenario has informer-cache lag
	r       *Rng
	steps   []c19Step
	xrs     []string
	res     []c19ResID
	usages  []string
	flying  map[string]bool
	feat    map[string]bool
	nextRes int
}

func (g *c19GenState) add(s c19Step) { g.steps = append(g.steps, s) }

func (g *c19GenState) labels() map[string]string {
	l := map[string]string{}
	if g.r.Chance(3, 5) {
		l["app"] = Pick(g.r, []string{"db", "web"})
	}
	if g.r.Chance(1, 5) {
		l["tier"] = "a"
	}
	return l
}

func (g *c19GenState) ctrl() string {
	if len(g.xrs) > 0 && g.r.Chance(2, 5) {
		return Pick(g.r, g.xrs)
	}
	return ""
}

func (g *c19GenState) newRes() {
	kinds := []c19ResID{{"ex.org/v1", "Thing", ""}, {"ex.org/v1", "Thing", ""}, {"ex.org/v1", "Thing", ""}, {"ex.org/v1", "Other", ""}, {"other.io/v1", "Thing", ""}, {"v1", "Node", ""}}
	id := Pick(g.r, kinds)
	id.Name = Pick(g.r, []string{"r0", "r1", "r2", "r0"})
	if g.r.Chance(1, 80) {
		id.Name = "" // malformed: rejected by the API server
	}
	g.add(c19Step{Op: "cr", AV: id.AV, Kind: id.Kind, Name: id.Name, Labels: g.labels(), InUse: g.r.Chance(1, 10), Ctrl: g.ctrl()})
	for _, x := range g.res {
		if x == id {
			return
		}
	}
	g.res = append(g.res, id)
}

func (g *c19GenState) pickRes() c19ResID {
	if len(g.res) == 0 || g.r.Chance(1, 12) {
		return c19ResID{"ex.org/v1", "Thing", Pick(g.r, []string{"r0", "r1", "ghost"})}
	}
	return Pick(g.r, g.res)
}

func (g *c19GenState) rspec(target c19ResID, allowMalformed bool) *c19RSpec {
	av := target.AV
	if g.r.Chance(2, 5) {
		av = Pick(g.r, c19Versions(target.AV))
		if av != target.AV {
			g.feat["ver"] = true
		}
	}
	if allowMalformed && g.r.Chance(1, 40) {
		av = "a/b/c"
		g.feat["badav"] = true
	}
	rs := &c19RSpec{AV: av, Kind: target.Kind}
	if g.r.Chance(3, 5) {
		rs.Name = target.Name
		if g.r.Chance(1, 6) {
			// a reference AND a selector: the reference wins
			rs.Sel = &c19Sel{Labels: g.labels()}
		}
		return rs
	}
	g.feat["sel"] = true
	rs.Sel = &c19Sel{Labels: g.labels(), MC: g.r.Chance(1, 3)}
	if rs.Sel.MC {
		g.feat["mc"] = true
	}
	if g.r.Chance(1, 15) {
		rs.Sel = nil // neither reference nor selector
	}
	return rs
}

func (g *c19GenState) newUsage() {
	if len(g.usages) >= 4 {
		return
	}
	name := fmt.Sprintf("u%d", len(g.usages))
	if g.r.Chance(1, 10) && len(g.usages) > 0 {
		name = Pick(g.r, g.usages) // re-create under an old name
	}
	st := c19Step{Op: "cu", Name: name, Of: g.rspec(g.pickRes(), true), Composed: g.r.Chance(3, 10), Ctrl: g.ctrl()}
	// malformed stream: no spec.of at all, empty object name
	if g.r.Chance(1, 60) {
		st.Of = nil
	}
	if g.r.Chance(1, 80) {
		st.Name = ""
		g.add(st)
		return
	}
	if g.r.Chance(3, 5) {
		st.By = g.rspec(g.pickRes(), false)
		g.feat["by"] = true
	} else {
		st.Reason = "because"
	}
	g.add(st)
	found := false
	for _, u := range g.usages {
		if u == name {
			found = true
		}
	}
	if !found {
		g.usages = append(g.usages, name)
	}
}

func (g *c19GenState) pickUsage() string {
	if len(g.usages) == 0 || g.r.Chance(1, 25) {
		return "u9"
	}
	return Pick(g.r, g.usages)
}

func (g *c19GenState) deleteRes() {
	t := g.pickRes()
	if len(g.xrs) > 0 && g.r.Chance(1, 5) {
		t = c19ResID{c19XRAV, c19XRKind, Pick(g.r, g.xrs)}
	}
	av := t.AV
	if g.r.Chance(1, 2) {
		av = Pick(g.r, c19Versions(t.AV))
		if av != t.AV {
			g.feat["ver"] = true
		}
	}
	st := c19Step{Op: "dr", AV: av, Kind: t.Kind, Name: t.Name, Policy: Pick(g.r, []string{"", "", "Background", "Foreground", "Orphan"})}
	if g.r.Chance(1, 8) {
		st.WO = []string{Pick(g.r, []string{"ok", "ok", "fail", "forbidden", "timeout", "transport", "deadline", "notFound", "noKindMatch", "noResourceMatch", "tooManyRequests", "unavailable"}), Pick(g.r, []string{"ok", "fail", "conflict", "notFound", "forbidden", "invalid", "timeout"})}
		g.feat["hookfault"] = true
	}
	if g.lag && g.r.Chance(1, 3) {
		st.V = Pick(g.r, []int{1, 2, 3, 5, 8, 13})
	}
	g.add(st)
}

func (g *c19GenState) outcome() string {
	if g.r.Chance(7, 10) {
		return "ok"
	}
	g.feat["fault"] = true
	return Pick(g.r, c19Outcomes[1:])
}

// stepOf: one API call of the reconcile of u: outcome, error class of a failure, cache lag.
func (g *c19GenState) stepOf(u string) c19Step {
	st := c19Step{Op: "step", U: u, O: g.outcome()}
	if st.O == "fail" && g.r.Chance(3, 4) {
		st.E = Pick(g.r, c19ErrClasses)
	}
	if g.lag && g.r.Chance(1, 3) {
		st.V = Pick(g.r, []int{1, 2, 3, 5, 8, 13, 99})
	}
	return st
}

// touchRes: another writer edits the labels of a resource.
func (g *c19GenState) touchRes() {
	t := g.pickRes()
	g.add(c19Step{Op: "er", AV: t.AV, Kind: t.Kind, Name: t.Name, Labels: map[string]string{Pick(g.r, []string{"rev", "app", "tier"}): Pick(g.r, []string{"1", "2", "db", "a"})}})
}

func c19GenRandom(r *Rng) c19Scn {
	g := &c19GenState{r: r, flying: map[string]bool{}, feat: map[string]bool{}}
	maxc := Pick(r, []int{1, 1, 1, 1, 2, 2, 2, 2, 3, 3})
	g.lag = r.Chance(1, 4)
	for i, n := 0, Pick(r, []int{0, 0, 1, 2}); i < n; i++ {
		x := fmt.Sprintf("x%d", i)
		g.add(c19Step{Op: "cr", AV: c19XRAV, Kind: c19XRKind, Name: x})
		g.xrs = append(g.xrs, x)
	}
	for i, n := 0, r.Range(1, 3); i < n; i++ {
		g.newRes()
	}
	if r.Chance(4, 5) {
		g.newUsage()
	}
	for i, n := 0, r.Range(5, 28); i < n; i++ {
		w := r.Intn(100)
		switch {
		case w < 14:
			g.newUsage()
		case w < 34:
			g.add(c19Step{Op: "run", U: g.pickUsage()})
		case w < 42:
			g.add(c19Step{Op: "start", U: g.pickUsage()})
			g.feat["sched"] = true
		case w < 66:
			u := g.pickUsage()
			if maxc > 1 || r.Chance(1, 2) {
				g.add(c19Step{Op: "start", U: u})
			}
			for j, m := 0, r.Range(1, 5); j < m; j++ {
				g.add(g.stepOf(u))
				if r.Chance(1, 8) {
					g.touchRes() // another writer between two calls of the reconcile
				}
			}
			g.feat["sched"] = true
		case w < 74:
			g.add(c19Step{Op: "du", Name: g.pickUsage()})
		case w < 88:
			g.deleteRes()
		case w < 90:
			switch {
			case len(g.xrs) > 0 && r.Chance(3, 4):
				g.add(c19Step{Op: "xa", Name: g.pickUsage(), Ctrl: Pick(r, g.xrs), AV: Pick(r, c19UsageVersions)})
			case len(g.xrs) > 0:
				// the XR is deleted and created again under the same name (new uid)
				x := Pick(r, g.xrs)
				g.add(c19Step{Op: "dr", AV: c19XRAV, Kind: c19XRKind, Name: x})
				g.add(c19Step{Op: "cr", AV: c19XRAV, Kind: c19XRKind, Name: x})
			default:
				g.touchRes()
			}
		case w < 94:
			if r.Bool() {
				g.add(c19Step{Op: "gc", Kind: v1beta1.UsageKind, Name: g.pickUsage()})
			} else {
				t := g.pickRes()
				g.add(c19Step{Op: "gc", AV: t.AV, Kind: t.Kind, Name: t.Name})
			}
		default:
			if r.Bool() {
				g.newRes()
			} else {
				g.touchRes()
			}
		}
	}
	if r.Chance(1, 3) {
		for _, u := range g.usages {
			g.add(c19Step{Op: "run", U: u})
		}
		g.deleteRes()
	}
	return c19Scn{MaxC: maxc, Steps: g.steps}
}

// c19GenMerge: two (or three) Usages over one used resource, the first being
// deleted while the others are created and reconciled; the schedule is a random
// merge of the reconciles' API calls and the user's operations.
func c19GenMerge(r *Rng) c19Scn {
	used := c19ResID{"ex.org/v1", "Thing", "r0"}
	ofA := &c19RSpec{AV: Pick(r, c19Versions(used.AV)), Kind: used.Kind, Name: used.Name}
	ofB := &c19RSpec{AV: Pick(r, c19Versions(used.AV)), Kind: used.Kind, Name: used.Name}
	steps := []c19Step{
		{Op: "cr", AV: used.AV, Kind: used.Kind, Name: used.Name, Labels: map[string]string{"app": "db"}},
		{Op: "cu", Name: "u0", Of: ofA, Reason: "a"},
		{Op: "run", U: "u0"},
	}
	if r.Bool() {
		ofB.Name = ""
		ofB.Sel = &c19Sel{Labels: map[string]string{"app": "db"}}
	}
	third := r.Chance(1, 3)
	if third {
		steps = append(steps, c19Step{Op: "cu", Name: "u2", Of: &c19RSpec{AV: used.AV, Kind: used.Kind, Name: used.Name}, Reason: "c"})
		if r.Bool() {
			steps = append(steps, c19Step{Op: "run", U: "u2"})
		}
	}
	steps = append(steps, c19Step{Op: "du", Name: "u0"})
	// event streams
	a := []c19Step{{Op: "start", U: "u0"}}
	for i := 0; i < 6; i++ {
		a = append(a, c19Step{Op: "step", U: "u0", O: "ok"})
	}
	b := []c19Step{{Op: "cu", Name: "u1", Of: ofB, Reason: "b"}, {Op: "start", U: "u1"}}
	for i := 0; i < 8; i++ {
		b = append(b, c19Step{Op: "step", U: "u1", O: "ok"})
	}
	var c []c19Step
	if third && r.Bool() {
		c = append(c, c19Step{Op: "du", Name: "u2"}, c19Step{Op: "start", U: "u2"})
		for i := 0; i < 6; i++ {
			c = append(c, c19Step{Op: "step", U: "u2", O: "ok"})
		}
	}
	streams := [][]c19Step{a, b, c}
	// biased merge: with some probability run a burst of one stream
	for {
		var alive []int
		for i, s := range streams {
			if len(s) > 0 {
				alive = append(alive, i)
			}
		}
		if len(alive) == 0 {
			break
		}
		i := Pick(r, alive)
		n := 1
		if r.Chance(1, 2) {
			n = r.Range(1, 9)
		}
		for ; n > 0 && len(streams[i]) > 0; n-- {
			steps = append(steps, streams[i][0])
			streams[i] = streams[i][1:]
		}
		if r.Chance(1, 10) {
			// somebody else touches the used resource (its resourceVersion moves) or asks for its deletion
			if r.Bool() {
				steps = append(steps, c19Step{Op: "er", AV: used.AV, Kind: used.Kind, Name: used.Name, Labels: map[string]string{"rev": fmt.Sprint(r.Intn(3))}})
			} else {
				steps = append(steps, c19Step{Op: "dr", AV: used.AV, Kind: used.Kind, Name: used.Name, Policy: Pick(r, []string{"", "Orphan"})})
			}
		}
	}
	steps = append(steps, c19Step{Op: "dr", AV: Pick(r, c19Versions(used.AV)), Kind: used.Kind, Name: used.Name, Policy: Pick(r, []string{"", "Foreground"})})
	steps = append(steps, c19Step{Op: "run", U: "u1"}, c19Step{Op: "dr", AV: used.AV, Kind: used.Kind, Name: used.Name})
	return c19Scn{MaxC: Pick(r, []int{1, 2, 3, 3}), Steps: steps}
}

// c19GenTwoKeys: several workers on DIFFERENT used resources (what marker_while_ready_key_serial
// covers): Usage u0 of r0 is ready and deleted; Usage u1 of another resource (another name, kind
// or group; by reference or by selector) is created; the deletion reconcile of u0 and the
// reconcile of u1 are merged at random, call by call, some calls failing, with other writers'
// edits and delete requests in between; then u1 is deleted and a Usage u2 of r0 created and both
// reconciled, again merged. No two in-flight reconciles ever hold Usages of the same resource, so
// nothing - not even the known two-worker race D16 - may be reported.
func c19GenTwoKeys(r *Rng) c19Scn {
	r0 := c19ResID{"ex.org/v1", "Thing", "r0"}
	r1 := Pick(r, []c19ResID{{"ex.org/v1", "Thing", "r1"}, {"ex.org/v1", "Thing", "r0.x"}, {"ex.org/v1", "Other", "r0"}, {"other.io/v1", "Thing", "r0"}})
	of0 := &c19RSpec{AV: Pick(r, c19Versions(r0.AV)), Kind: r0.Kind, Name: r0.Name}
	of1 := &c19RSpec{AV: Pick(r, c19Versions(r1.AV)), Kind: r1.Kind, Name: r1.Name}
	if r.Chance(1, 3) {
		of1.Name = ""
		of1.Sel = &c19Sel{Labels: map[string]string{"app": "web"}}
	}
	steps := []c19Step{
		{Op: "cr", AV: r0.AV, Kind: r0.Kind, Name: r0.Name, Labels: map[string]string{"app": "db"}},
		{Op: "cr", AV: r1.AV, Kind: r1.Kind, Name: r1.Name, Labels: map[string]string{"app": "web"}, InUse: r.Chance(1, 4)},
		{Op: "cu", Name: "u0", Of: of0, Reason: "a"},
		{Op: "run", U: "u0"},
		{Op: "du", Name: "u0"},
	}
	outcome := func() string {
		if r.Chance(1, 8) {
			return Pick(r, []string{"fail", "conflict", "crashAfter"})
		}
		return "ok"
	}
	reconcile := func(u string, n int) []c19Step {
		out := []c19Step{{Op: "start", U: u}}
		for i := 0; i < n; i++ {
			out = append(out, c19Step{Op: "step", U: u, O: outcome()})
		}
		return append(out, c19Step{Op: "run", U: u})
	}
	merge := func(streams ...[]c19Step) {
		for {
			var alive []int
			for i, s := range streams {
				if len(s) > 0 {
					alive = append(alive, i)
				}
			}
			if len(alive) == 0 {
				return
			}
			i := Pick(r, alive)
			n := 1
			if r.Chance(1, 3) {
				n = r.Range(1, 5)
			}
			for ; n > 0 && len(streams[i]) > 0; n-- {
				steps = append(steps, streams[i][0])
				streams[i] = streams[i][1:]
			}
			if r.Chance(1, 10) {
				x := Pick(r, []c19ResID{r0, r1})
				if r.Bool() {
					steps = append(steps, c19Step{Op: "er", AV: x.AV, Kind: x.Kind, Name: x.Name, Labels: map[string]string{"rev": fmt.Sprint(r.Intn(3))}})
				} else {
					steps = append(steps, c19Step{Op: "dr", AV: Pick(r, c19Versions(x.AV)), Kind: x.Kind, Name: x.Name, Policy: Pick(r, []string{"", "Orphan"})})
				}
			}
		}
	}
	merge(reconcile("u0", 6), append([]c19Step{{Op: "cu", Name: "u1", Of: of1, Reason: "b"}}, reconcile("u1", 8)...))
	steps = append(steps, c19Step{Op: "dr", AV: r1.AV, Kind: r1.Kind, Name: r1.Name}, c19Step{Op: "dr", AV: r0.AV, Kind: r0.Kind, Name: r0.Name})
	// second round, roles swapped: u1 (of r1) is deleted while u2 (of r0) appears
	steps = append(steps, c19Step{Op: "cr", AV: r0.AV, Kind: r0.Kind, Name: r0.Name, Labels: map[string]string{"app": "db"}}, c19Step{Op: "du", Name: "u1"})
	merge(reconcile("u1", 6), append([]c19Step{{Op: "cu", Name: "u2", Of: of0, Reason: "c"}}, reconcile("u2", 8)...))
	steps = append(steps, c19Step{Op: "dr", AV: r0.AV, Kind: r0.Kind, Name: r0.Name, Policy: "Foreground"}, c19Step{Op: "dr", AV: r1.AV, Kind: r1.Kind, Name: r1.Name})
	return c19Scn{MaxC: Pick(r, []int{2, 2, 3}), Steps: steps}
}

// c19GenFaultSweep: one reconcile (add path or delete path) with a fault at call k.
func c19GenFaultSweep(r *Rng) c19Scn {
	used := c19ResID{"ex.org/v1", "Thing", "r0"}
	using := c19ResID{"ex.org/v1", "Other", "r1"}
	steps := []c19Step{
		{Op: "cr", AV: c19XRAV, Kind: c19XRKind, Name: "x0"},
		{Op: "cr", AV: used.AV, Kind: used.Kind, Name: used.Name, Labels: map[string]string{"app": "db"}, Ctrl: Pick(r, []string{"", "x0"})},
		{Op: "cr", AV: using.AV, Kind: using.Kind, Name: using.Name, Labels: map[string]string{"app": "web"}, Ctrl: Pick(r, []string{"", "x0"})},
	}
	of := &c19RSpec{AV: Pick(r, c19Versions(used.AV)), Kind: used.Kind, Name: used.Name}
	if r.Bool() {
		of.Name = ""
		of.Sel = &c19Sel{Labels: map[string]string{"app": "db"}, MC: r.Chance(1, 3)}
	}
	var by *c19RSpec
	if r.Chance(2, 3) {
		by = &c19RSpec{AV: using.AV, Kind: using.Kind, Name: using.Name}
		if r.Bool() {
			by.Name = ""
			by.Sel = &c19Sel{Labels: map[string]string{"app": "web"}, MC: r.Chance(1, 3)}
		}
	}
	cu := c19Step{Op: "cu", Name: "u0", Of: of, By: by, Composed: r.Bool(), Ctrl: Pick(r, []string{"", "x0"})}
	if by == nil {
		cu.Reason = "why"
	}
	steps = append(steps, cu)
	delPath := r.Bool()
	if delPath {
		steps = append(steps, c19Step{Op: "run", U: "u0"}, c19Step{Op: "dr", AV: used.AV, Kind: used.Kind, Name: used.Name, Policy: "Orphan"}, c19Step{Op: "du", Name: "u0"})
		if r.Bool() {
			steps = append(steps, c19Step{Op: "dr", AV: using.AV, Kind: using.Kind, Name: using.Name})
		}
	}
	k := r.Intn(10)
	o := Pick(r, c19Outcomes[1:])
	steps = append(steps, c19Step{Op: "start", U: "u0"})
	for i := 0; i < 11; i++ {
		st := c19Step{Op: "step", U: "u0", O: "ok"}
		if i == k {
			st.O = o
			if o == "fail" {
				st.E = Pick(r, append([]string{""}, c19ErrClasses...))
			}
		}
		if i == k+1 && r.Chance(1, 4) {
			// a real conflict instead of an injected one: another writer moves the resourceVersion
			// of the used resource between the reconcile's read and its write
			steps = append(steps, c19Step{Op: "er", AV: used.AV, Kind: used.Kind, Name: used.Name, Labels: map[string]string{"rev": "1"}})
		}
		steps = append(steps, st)
	}
	steps = append(steps, c19Step{Op: "dr", AV: Pick(r, c19Versions(used.AV)), Kind: used.Kind, Name: used.Name, Policy: Pick(r, []string{"", "Background"})})
	steps = append(steps, c19Step{Op: "run", U: "u0"}, c19Step{Op: "xa", Name: "u0", Ctrl: "x0", AV: Pick(r, c19UsageVersions)}, c19Step{Op: "dr", AV: used.AV, Kind: used.Kind, Name: used.Name})
	if r.Bool() {
		steps = append(steps, c19Step{Op: "dr", AV: using.AV, Kind: using.Kind, Name: using.Name}, c19Step{Op: "gc", Kind: v1beta1.UsageKind, Name: "u0"}, c19Step{Op: "run", U: "u0"}, c19Step{Op: "dr", AV: used.AV, Kind: used.Kind, Name: used.Name})
	}
	return c19Scn{MaxC: 1, Steps: steps}
}

// c19OwnerParts: a Usage of used by using; the using resource is replaced (deleted and
// re-created under the same name: new uid) or the Usage is seeded with an owner reference that
// has the using resource's name and another uid. variant:
//
//	0 plain:    Usage by a plain resource, reconciled (ready, owned by uid 1), then the user is replaced
//	1 composed: the same with an XR controller reference as FIRST owner of the Usage
//	2 seeded:   spec.by is the XR the Usage was created under (its controller reference carries the
//	            right apiVersion/kind/name); the XR is replaced before the Usage is ever reconciled
func c19OwnerParts(variant int, byAV string, bySel bool, usedAV string) (prefix []c19Step, replace []c19Step, used, using c19ResID) {
	used = c19ResID{"ex.org/v1", "Thing", "r0"}
	using = c19ResID{"ex.org/v1", "Other", "r1"}
	if variant == 2 {
		using = c19ResID{c19XRAV, c19XRKind, "x0"}
	}
	prefix = []c19Step{{Op: "cr", AV: c19XRAV, Kind: c19XRKind, Name: "x0", Labels: map[string]string{"app": "web"}}}
	prefix = append(prefix, c19Step{Op: "cr", AV: used.AV, Kind: used.Kind, Name: used.Name, Labels: map[string]string{"app": "db"}})
	crUsing := c19Step{Op: "cr", AV: using.AV, Kind: using.Kind, Name: using.Name, Labels: map[string]string{"app": "web"}}
	if variant != 2 {
		prefix = append(prefix, crUsing)
	}
	by := &c19RSpec{AV: byAV, Kind: using.Kind, Name: using.Name}
	if bySel && variant != 2 {
		by = &c19RSpec{AV: byAV, Kind: using.Kind, Sel: &c19Sel{Labels: map[string]string{"app": "web"}}}
	}
	cu := c19Step{Op: "cu", Name: "u0", Of: &c19RSpec{AV: usedAV, Kind: used.Kind, Name: used.Name}, By: by}
	switch variant {
	case 1:
		cu.Composed, cu.Ctrl = true, "x0"
	case 2:
		cu.Ctrl = "x0"
	}
	prefix = append(prefix, cu)
	if variant != 2 {
		prefix = append(prefix, c19Step{Op: "run", U: "u0"})
	}
	replace = []c19Step{{Op: "dr", AV: using.AV, Kind: using.Kind, Name: using.Name}, crUsing}
	return prefix, replace, used, using
}

// c19GenOwner: ownership is by uid. The using resource is replaced while the Usage is ready
// (before the garbage collector looks at the Usage), at a random point before or during the
// next reconcile of the Usage; then GC steps, reconciles and delete requests for the used
// resource in random order; finally the user is deleted for good and the used resource released.
func c19GenOwner(r *Rng) c19Scn {
	variant := Pick(r, []int{0, 0, 1, 1, 2})
	byAV := "ex.org/v1"
	if r.Chance(1, 4) {
		byAV = Pick(r, c19Versions("ex.org/v1"))
	}
	prefix, replace, used, _ := c19OwnerParts(variant, byAV, r.Chance(1, 4), Pick(r, c19Versions("ex.org/v1")))
	steps := append([]c19Step{}, prefix...)
	gcU := c19Step{Op: "gc", Kind: v1beta1.UsageKind, Name: "u0"}
	drUsed := func() c19Step {
		return c19Step{Op: "dr", AV: Pick(r, c19Versions(used.AV)), Kind: used.Kind, Name: used.Name, Policy: Pick(r, []string{"", "Foreground", "Orphan"})}
	}
	xaAV := Pick(r, c19UsageVersions)
	if variant == 1 && r.Bool() {
		steps = append(steps, c19Step{Op: "xa", Name: "u0", Ctrl: "x0", AV: xaAV})
	}
	switch r.Intn(4) {
	case 0, 1:
		// replaced between two reconciles
		steps = append(steps, replace...)
		if r.Chance(1, 3) {
			steps = append(steps, c19Step{Op: "start", U: "u0"})
			for i, n := 0, r.Range(1, 4); i < n; i++ {
				steps = append(steps, c19Step{Op: "step", U: "u0", O: "ok"})
			}
		}
		steps = append(steps, c19Step{Op: "run", U: "u0"})
	case 2:
		// replaced in the middle of a reconcile (possibly between its GET of the user and its write)
		k := r.Intn(9)
		steps = append(steps, c19Step{Op: "start", U: "u0"})
		for i := 0; i < k; i++ {
			steps = append(steps, c19Step{Op: "step", U: "u0", O: "ok"})
		}
		if r.Bool() {
			steps = append(steps, replace...)
		} else {
			steps = append(steps, replace[0], c19Step{Op: "step", U: "u0", O: "ok"}, replace[1])
		}
		steps = append(steps, c19Step{Op: "run", U: "u0"})
		if r.Bool() {
			steps = append(steps, c19Step{Op: "run", U: "u0"})
		}
	default:
		// the garbage collector is faster than the controller: the Usage is collected (rightly)
		steps = append(steps, replace...)
		steps = append(steps, gcU, c19Step{Op: "run", U: "u0"})
	}
	// now: GC, polls, delete requests, composer in random order
	tail := []c19Step{gcU, drUsed(), {Op: "run", U: "u0"}}
	if r.Bool() {
		tail = append(tail, gcU, drUsed())
	}
	if variant == 1 {
		tail = append(tail, c19Step{Op: "xa", Name: "u0", Ctrl: "x0", AV: xaAV})
	}
	for _, i := range r.Perm(len(tail)) {
		steps = append(steps, tail[i])
	}
	steps = append(steps, gcU, c19Step{Op: "run", U: "u0"}, drUsed())
	// the user goes away for good: the used resource is released
	steps = append(steps, replace[0], gcU, c19Step{Op: "run", U: "u0"}, drUsed())
	return c19Scn{MaxC: Pick(r, []int{1, 1, 2}), Steps: steps}
}

// c19GenTeardown: a composed Usage (label crossplane.io/composite; with or without the XR's
// controller reference as first owner) of r0 by r1 whose using resource r1 was replaced under the
// same name 0-2 times, each replacement followed by a poll - so that the Usage carries SEVERAL
// owner references with r1's apiVersion/kind/name and differing uids, the stale ones first:
// [XR, r1(old uid), r1(new uid)] - is deleted (as when its XR is deleted) while r1 still exists.
// The deletion branch must WAIT for r1, whatever the owner references say: reconciles (whole, or
// call by call with faults), GC visits, composer re-applies, delete requests for the used
// resource and further replacements of r1 in random order; only when r1 is gone for good does the
// reconcile release the used resource.
func c19GenTeardown(r *Rng) c19Scn {
	variant := Pick(r, []int{0, 1, 1})
	byAV := "ex.org/v1"
	if r.Chance(1, 4) {
		byAV = Pick(r, c19Versions("ex.org/v1"))
	}
	prefix, replace, used, _ := c19OwnerParts(variant, byAV, r.Chance(1, 4), Pick(r, c19Versions("ex.org/v1")))
	steps := append([]c19Step{}, prefix...)
	for i := range steps {
		if steps[i].Op == "cu" {
			steps[i].Composed = true
		}
	}
	gcU := c19Step{Op: "gc", Kind: v1beta1.UsageKind, Name: "u0"}
	run := c19Step{Op: "run", U: "u0"}
	drUsed := func() c19Step {
		return c19Step{Op: "dr", AV: Pick(r, c19Versions(used.AV)), Kind: used.Kind, Name: used.Name, Policy: Pick(r, []string{"", "Foreground", "Orphan"})}
	}
	xa := c19Step{Op: "xa", Name: "u0", Ctrl: "x0", AV: Pick(r, c19UsageVersions)}
	for i, n := 0, r.Intn(3); i < n; i++ {
		steps = append(steps, replace...)
		steps = append(steps, run)
		if variant == 1 && r.Bool() {
			steps = append(steps, xa)
		}
		if r.Chance(1, 3) {
			steps = append(steps, gcU) // prunes nothing: the GC model (and simstore's) keeps dangling references of an owned object
		}
	}
	// the Usage is deleted (its XR is being deleted) while its using resource exists
	steps = append(steps, c19Step{Op: "du", Name: "u0"})
	mid := []c19Step{run, run, drUsed(), gcU}
	if variant == 1 {
		mid = append(mid, xa)
	}
	if r.Bool() {
		// the using resource is replaced once more, now under the deleting Usage
		mid = append(mid, replace...)
	}
	if r.Bool() {
		// a deletion reconcile call by call, one call failing
		k := r.Intn(3)
		mid = append(mid, c19Step{Op: "start", U: "u0"})
		for i := 0; i < 3; i++ {
			o := "ok"
			if i == k {
				o = Pick(r, []string{"ok", "fail", "conflict", "crashAfter"})
			}
			mid = append(mid, c19Step{Op: "step", U: "u0", O: o})
		}
	}
	for _, i := range r.Perm(len(mid)) {
		steps = append(steps, mid[i])
	}
	steps = append(steps, run, drUsed())
	// the using resource goes away for good: the used resource is released
	steps = append(steps, replace[0], run, run, drUsed())
	return c19Scn{MaxC: Pick(r, []int{1, 1, 2}), Steps: steps}
}

// c19GenTeardownSel: a composed Usage that names its using resource by spec.by.resourceSelector,
// holds the finalizer from creation (templated) and is deleted BEFORE the selector was ever
// resolved and persisted (no reconcile yet, or only reconciles whose selector List failed / found
// nothing), while the using resource exists. The deletion reconciles' selector List fails with an
// API error class (timeout, 429, NoKindMatch, ... ) at random: the Usage must neither lose the
// finalizer nor the used resource its label until the using resource is gone.
func c19GenTeardownSel(r *Rng) c19Scn {
	used := c19ResID{"ex.org/v1", "Thing", "r0"}
	using := c19ResID{"ex.org/v1", "Other", "r1"}
	classes := []string{"", "timeout", "tooManyRequests", "unavailable", "noKindMatch", "noResourceMatch", "deadline", "forbidden", "transport"}
	crUsing := c19Step{Op: "cr", AV: using.AV, Kind: using.Kind, Name: using.Name, Labels: map[string]string{"app": "web"}}
	steps := []c19Step{
		{Op: "cr", AV: used.AV, Kind: used.Kind, Name: used.Name, Labels: map[string]string{"app": "db"}, InUse: r.Bool()},
	}
	late := r.Chance(1, 3) // the using resource appears only after the first (failing) reconcile
	if !late {
		steps = append(steps, crUsing)
	}
	steps = append(steps, c19Step{Op: "cu", Name: "u0", Composed: true, Fin: true,
		Of: &c19RSpec{AV: Pick(r, c19Versions(used.AV)), Kind: used.Kind, Name: used.Name},
		By: &c19RSpec{AV: using.AV, Kind: using.Kind, Sel: &c19Sel{Labels: map[string]string{"app": "web"}}}})
	failing := func() []c19Step {
		// Get the Usage, then the selector List fails with a class
		return []c19Step{{Op: "start", U: "u0"}, {Op: "step", U: "u0", O: "ok"}, {Op: "step", U: "u0", O: "fail", E: Pick(r, classes)}, {Op: "run", U: "u0"}}
	}
	if r.Bool() {
		steps = append(steps, failing()...) // a first reconcile that resolves nothing
	}
	if late {
		steps = append(steps, crUsing)
	}
	steps = append(steps, c19Step{Op: "du", Name: "u0"})
	drUsed := func() c19Step {
		return c19Step{Op: "dr", AV: Pick(r, c19Versions(used.AV)), Kind: used.Kind, Name: used.Name, Policy: Pick(r, []string{"", "Foreground"})}
	}
	for i, n := 0, r.Range(1, 3); i < n; i++ {
		steps = append(steps, failing()...)
		if r.Bool() {
			steps = append(steps, drUsed())
		}
	}
	steps = append(steps, c19Step{Op: "run", U: "u0"}, drUsed())
	// the using resource goes away: the next reconciles release the used resource
	steps = append(steps, c19Step{Op: "dr", AV: using.AV, Kind: using.Kind, Name: using.Name}, c19Step{Op: "run", U: "u0"}, c19Step{Op: "run", U: "u0"}, drUsed())
	return c19Scn{MaxC: 1, Steps: steps}
}

// c19OwnerExhaustive: for each variant, the replacement of the using resource at every position
// of the following reconcile's call sequence (as one step or split around one call), followed by
// GC, a poll, GC and a delete request for the used resource.
func c19OwnerExhaustive(emit func(c19Scn, string)) {
	for variant := 0; variant < 3; variant++ {
		for _, bySel := range []bool{false, true} {
			if bySel && variant == 2 {
				continue
			}
			for k := 0; k <= 9; k++ {
				for _, split := range []bool{false, true} {
					for _, gcFirst := range []bool{false, true} {
						prefix, replace, used, _ := c19OwnerParts(variant, "ex.org/v1", bySel, "ex.org/v1beta1")
						steps := append([]c19Step{}, prefix...)
						if gcFirst {
							steps = append(steps, c19Step{Op: "gc", Kind: v1beta1.UsageKind, Name: "u0"})
						}
						steps = append(steps, c19Step{Op: "start", U: "u0"})
						for i := 0; i < k; i++ {
							steps = append(steps, c19Step{Op: "step", U: "u0", O: "ok"})
						}
						if split {
							steps = append(steps, replace[0], c19Step{Op: "step", U: "u0", O: "ok"}, replace[1])
						} else {
							steps = append(steps, replace...)
						}
						steps = append(steps,
							c19Step{Op: "run", U: "u0"},
							c19Step{Op: "gc", Kind: v1beta1.UsageKind, Name: "u0"},
							c19Step{Op: "run", U: "u0"},
							c19Step{Op: "gc", Kind: v1beta1.UsageKind, Name: "u0"},
							c19Step{Op: "run", U: "u0"},
							c19Step{Op: "dr", AV: "ex.org/v2", Kind: used.Kind, Name: used.Name, Policy: "Foreground"},
							replace[0],
							c19Step{Op: "gc", Kind: v1beta1.UsageKind, Name: "u0"},
							c19Step{Op: "run", U: "u0"},
							c19Step{Op: "dr", AV: used.AV, Kind: used.Kind, Name: used.Name})
						emit(c19Scn{MaxC: 1, Steps: steps}, "xown")
					}
				}
			}
		}
	}
}

// c19GenClasses: error classes. A Usage of r0 (by reference or selector, with or without a using
// resource, plain or composed) is reconciled five times; attempt i fails at a random call with
// error class c_i (five different classes: NotFound, AlreadyExists, Invalid, Forbidden, Timeout,
// ServiceUnavailable, a Temporary() transport error, a context deadline, Conflict, internal),
// then a clean reconcile; the same for the deletion of the Usage; delete requests for r0 whose
// webhook calls fail with a class in between. A classed failure must never let the reconcile
// report Ready without the label, remove the label, or let the webhook allow the delete.
func c19GenClasses(r *Rng) c19Scn {
	used := c19ResID{"ex.org/v1", "Thing", "r0"}
	using := c19ResID{"ex.org/v1", "Other", "r1"}
	steps := []c19Step{
		{Op: "cr", AV: c19XRAV, Kind: c19XRKind, Name: "x0"},
		{Op: "cr", AV: used.AV, Kind: used.Kind, Name: used.Name, Labels: map[string]string{"app": "db"}},
		{Op: "cr", AV: using.AV, Kind: using.Kind, Name: using.Name, Labels: map[string]string{"app": "web"}},
	}
	of := &c19RSpec{AV: Pick(r, c19Versions(used.AV)), Kind: used.Kind, Name: used.Name}
	if r.Chance(1, 3) {
		of.Name, of.Sel = "", &c19Sel{Labels: map[string]string{"app": "db"}}
	}
	cu := c19Step{Op: "cu", Name: "u0", Of: of, Composed: r.Bool(), Ctrl: Pick(r, []string{"", "x0"})}
	if r.Chance(2, 3) {
		cu.By = &c19RSpec{AV: using.AV, Kind: using.Kind, Name: using.Name}
		if r.Chance(1, 3) {
			cu.By.Name, cu.By.Sel = "", &c19Sel{Labels: map[string]string{"app": "web"}}
		}
	} else {
		cu.Reason = "why"
	}
	steps = append(steps, cu)
	classes := append([]string{"", "conflict"}, c19ErrClasses...)
	drHook := func() c19Step {
		st := c19Step{Op: "dr", AV: Pick(r, c19Versions(used.AV)), Kind: used.Kind, Name: used.Name, Policy: Pick(r, []string{"", "Orphan"})}
		if r.Chance(2, 3) {
			st.WO = []string{Pick(r, append([]string{"ok", "ok", "fail"}, c19ErrClasses...)), Pick(r, append([]string{"ok", "fail", "conflict"}, c19ErrClasses...))}
		}
		return st
	}
	attempts := func() {
		perm := r.Perm(len(classes))
		for i := 0; i < 5; i++ {
			steps = append(steps, c19Step{Op: "start", U: "u0"})
			for j, k := 0, r.Intn(9); j < k; j++ {
				steps = append(steps, c19Step{Op: "step", U: "u0", O: "ok"})
			}
			st := c19Step{Op: "step", U: "u0", O: "fail", E: classes[perm[i]]}
			if i == 0 {
				// the first attempt is the one in which every write happens for the first time
				st.E = Pick(r, []string{"forbidden", "timeout", "notFound", "invalid", "transport"})
			}
			if st.E == "conflict" {
				st.O, st.E = "conflict", ""
			}
			steps = append(steps, st)
			// let the reconcile return if the failure did not end it (NotFound in the deletion branch)
			steps = append(steps, c19Step{Op: "run", U: "u0"})
			if r.Chance(1, 3) {
				steps = append(steps, drHook())
			}
		}
		steps = append(steps, c19Step{Op: "run", U: "u0"}, drHook())
	}
	attempts()
	steps = append(steps, c19Step{Op: "du", Name: "u0"})
	if r.Bool() {
		steps = append(steps, c19Step{Op: "dr", AV: using.AV, Kind: using.Kind, Name: using.Name})
	}
	attempts()
	steps = append(steps, c19Step{Op: "dr", AV: used.AV, Kind: used.Kind, Name: used.Name})
	return c19Scn{MaxC: 1, Steps: steps}
}

// c19GenLag: the informer cache lags behind the store. Two Usages u0, u1 over one resource r0
// (each by reference or by selector), u0 reconciled and then deleted by its user while u1 is
// created and reconciled; every cached read of the reconciles (Get of the Usage, List of the
// Usages of r0) and of the webhook is answered from a view of the Usage collection that lags a
// random number of events behind and then either stands still or catches up; a Usage missing
// from the cache when its reconcile starts; delete requests for r0 throughout.
func c19GenLag(r *Rng) c19Scn {
	used := c19ResID{"ex.org/v1", "Thing", "r0"}
	of := func() *c19RSpec {
		rs := &c19RSpec{AV: Pick(r, c19Versions(used.AV)), Kind: used.Kind, Name: used.Name}
		if r.Bool() {
			rs.Name, rs.Sel = "", &c19Sel{Labels: map[string]string{"app": "db"}}
		}
		return rs
	}
	steps := []c19Step{{Op: "cr", AV: used.AV, Kind: used.Kind, Name: used.Name, Labels: map[string]string{"app": "db"}, InUse: r.Chance(1, 4)}}
	lagged := func(u string, n int) []c19Step {
		// the cache is v events behind at the reconcile's first read and then stands still
		// (v = 99: no newer view than the one already served) or catches up at some call
		out := []c19Step{{Op: "start", U: u}}
		v := Pick(r, []int{0, 1, 2, 3, 4, 5, 6, 8, 10, 14, 99})
		catchUp := r.Intn(n + 3)
		for i := 0; i < n; i++ {
			st := c19Step{Op: "step", U: u, O: "ok", V: v}
			if i > 0 && v > 0 {
				st.V = 99
			}
			if i >= catchUp {
				st.V = 0
			}
			out = append(out, st)
		}
		return out
	}
	dr := func() c19Step {
		st := c19Step{Op: "dr", AV: Pick(r, c19Versions(used.AV)), Kind: used.Kind, Name: used.Name, Policy: Pick(r, []string{"", "Foreground"})}
		if r.Chance(2, 3) {
			st.V = Pick(r, []int{1, 2, 3, 4, 6, 9, 99})
		}
		return st
	}
	switch r.Intn(4) {
	case 0:
		// one Usage; the webhook's cache lags behind its reconcile
		steps = append(steps, c19Step{Op: "cu", Name: "u1", Of: of(), Reason: "b"})
		if r.Bool() {
			steps = append(steps, c19Step{Op: "run", U: "u1"})
		} else {
			steps = append(steps, lagged("u1", 9)...)
		}
		steps = append(steps, dr(), c19Step{Op: "run", U: "u1"}, dr())
	case 1:
		// a Usage missing from the cache / served in an older version when its reconcile starts
		steps = append(steps, c19Step{Op: "cu", Name: "u0", Of: of(), Reason: "a"})
		steps = append(steps, lagged("u0", 9)...)
		steps = append(steps, c19Step{Op: "run", U: "u0"}, dr(), c19Step{Op: "du", Name: "u0"})
		steps = append(steps, lagged("u0", 7)...)
		steps = append(steps, c19Step{Op: "run", U: "u0"}, dr())
	default:
		// u0 deleted while u1 appears: the deleting reconcile's count comes from the cache
		steps = append(steps, c19Step{Op: "cu", Name: "u0", Of: of(), Reason: "a"}, c19Step{Op: "run", U: "u0"})
		cu1 := c19Step{Op: "cu", Name: "u1", Of: of(), Reason: "b"}
		du0 := c19Step{Op: "du", Name: "u0"}
		if r.Bool() {
			steps = append(steps, cu1, du0)
		} else {
			steps = append(steps, du0, cu1)
		}
		if r.Chance(2, 3) {
			steps = append(steps, c19Step{Op: "run", U: "u1"})
		} else {
			steps = append(steps, lagged("u1", 9)...)
		}
		if r.Chance(1, 3) {
			steps = append(steps, dr())
		}
		steps = append(steps, lagged("u0", 7)...)
		steps = append(steps, dr(), c19Step{Op: "run", U: "u0"}, c19Step{Op: "run", U: "u1"}, dr())
	}
	return c19Scn{MaxC: 1, Steps: steps}
}

// c19GenIdentity: look-alike identities and several candidates. The used resource r1 lives among
// resources whose group, kind or name differs from its own only by a suffix, a prefix, case or a
// dot (all carrying a left-over in-use label, so that the webhook is consulted for each); the
// Usage names r1 by reference (any version) or by a selector whose labels have look-alikes too;
// with matchControllerRef the first listed candidates have no or another controller - also an XR
// of the right name that was deleted and created again (same name, new uid). Every look-alike
// must stay deletable, r1 must not; after the Usage is gone only r1 loses the label.
func c19GenIdentity(r *Rng) c19Scn {
	base := c19ResID{"ex.org/v1", "Thing", "r1"}
	alikes := []c19ResID{
		{"ex.org/v1", "Thing", "r10"}, {"ex.org/v1", "Thing", "r"}, {"ex.org/v1", "Thing", "r1.x"},
		{"ex.org/v1", "Things", "r1"}, {"ex.org/v1", "thing", "r1"}, {"ex.org/v1", "Thin", "r1"},
		{"ex.org.io/v1", "Thing", "r1"}, {"x.ex.org/v1", "Thing", "r1"}, {"other.io/v1", "Thing", "r1"},
		{"org/v1", "Thing", "r1"}, {"v1", "Thing", "r1"},
	}
	steps := []c19Step{
		{Op: "cr", AV: c19XRAV, Kind: c19XRKind, Name: "x0"},
		{Op: "cr", AV: c19XRAV, Kind: c19XRKind, Name: "x1"},
	}
	mc := r.Chance(1, 2)
	bySel := r.Chance(1, 2)
	var picked []c19ResID
	for _, i := range r.Perm(len(alikes))[:r.Range(2, 4)] {
		picked = append(picked, alikes[i])
	}
	lbl := func(same bool) map[string]string {
		if same {
			return map[string]string{"app": "db", "tier": "a"}
		}
		return Pick(r, []map[string]string{{"app": "db2", "tier": "a"}, {"app": "db"}, {"apps": "db", "tier": "a"}, {"app": "d", "tier": "a"}, {"app": "db", "tier": "a"}})
	}
	// candidates that sort before r1 and must be skipped: another controller, none, or the old
	// incarnation of the right controller
	early := []c19Step{
		{Op: "cr", AV: base.AV, Kind: base.Kind, Name: "r0", Labels: lbl(true), Ctrl: "x1", InUse: r.Bool()},
		{Op: "cr", AV: base.AV, Kind: base.Kind, Name: "r01", Labels: lbl(true), InUse: r.Bool()},
	}
	reborn := mc && r.Bool()
	if reborn {
		early = append(early, c19Step{Op: "cr", AV: base.AV, Kind: base.Kind, Name: "r00", Labels: lbl(true), Ctrl: "x0", InUse: r.Bool()},
			c19Step{Op: "dr", AV: c19XRAV, Kind: c19XRKind, Name: "x0"}, c19Step{Op: "cr", AV: c19XRAV, Kind: c19XRKind, Name: "x0"})
	}
	if mc {
		steps = append(steps, early...)
	}
	if r.Bool() {
		// an earlier incarnation of r1 (left-over label, no Usage) is deleted through the same
		// long-lived webhook handler: its answer then says nothing about the r1 created next
		steps = append(steps, c19Step{Op: "cr", AV: base.AV, Kind: base.Kind, Name: base.Name, Labels: lbl(true), InUse: true},
			c19Step{Op: "dr", AV: Pick(r, c19Versions(base.AV)), Kind: base.Kind, Name: base.Name})
	}
	steps = append(steps, c19Step{Op: "cr", AV: base.AV, Kind: base.Kind, Name: base.Name, Labels: lbl(true), Ctrl: "x0", InUse: r.Bool()})
	for _, a := range picked {
		steps = append(steps, c19Step{Op: "cr", AV: a.AV, Kind: a.Kind, Name: a.Name, Labels: lbl(a.Kind != base.Kind || c19Group(a.AV) != c19Group(base.AV)), Ctrl: Pick(r, []string{"", "x0", "x1"}), InUse: true})
	}
	using := c19ResID{"ex.org/v1", "Other", "b1"}
	steps = append(steps,
		c19Step{Op: "cr", AV: using.AV, Kind: using.Kind, Name: using.Name, Labels: map[string]string{"app": "web"}, Ctrl: "x0"},
		c19Step{Op: "cr", AV: using.AV, Kind: using.Kind, Name: "b10", Labels: map[string]string{"app": "web2"}, Ctrl: "x0"},
		c19Step{Op: "cr", AV: using.AV, Kind: "Others", Name: using.Name, Labels: map[string]string{"app": "web"}, Ctrl: "x0"})
	of := &c19RSpec{AV: Pick(r, c19Versions(base.AV)), Kind: base.Kind, Name: base.Name}
	if mc || r.Chance(1, 3) {
		of = &c19RSpec{AV: of.AV, Kind: base.Kind, Sel: &c19Sel{Labels: map[string]string{"app": "db", "tier": "a"}, MC: mc}}
	}
	by := &c19RSpec{AV: using.AV, Kind: using.Kind, Name: using.Name}
	if bySel {
		by = &c19RSpec{AV: using.AV, Kind: using.Kind, Sel: &c19Sel{Labels: map[string]string{"app": "web"}, MC: r.Bool()}}
	}
	steps = append(steps, c19Step{Op: "cu", Name: "u0", Of: of, By: by, Ctrl: "x0", Composed: r.Bool()}, c19Step{Op: "run", U: "u0"})
	if r.Bool() {
		steps = append(steps, c19Step{Op: "cu", Name: "u1", Of: &c19RSpec{AV: base.AV, Kind: base.Kind, Name: base.Name}, Reason: "second"}, c19Step{Op: "run", U: "u1"})
	}
	drs := []c19Step{{Op: "dr", AV: Pick(r, c19Versions(base.AV)), Kind: base.Kind, Name: base.Name, Policy: Pick(r, []string{"", "Orphan"})}}
	for _, a := range picked {
		drs = append(drs, c19Step{Op: "dr", AV: a.AV, Kind: a.Kind, Name: a.Name})
	}
	if mc {
		drs = append(drs, c19Step{Op: "dr", AV: base.AV, Kind: base.Kind, Name: "r0"}, c19Step{Op: "dr", AV: base.AV, Kind: base.Kind, Name: "r01"})
	}
	drs = append(drs, c19Step{Op: "dr", AV: using.AV, Kind: using.Kind, Name: "b10"}, c19Step{Op: "dr", AV: using.AV, Kind: "Others", Name: using.Name})
	for _, i := range r.Perm(len(drs)) {
		steps = append(steps, drs[i])
	}
	// the user goes: the Usage is collected, the used resource released - and only it
	steps = append(steps, c19Step{Op: "dr", AV: using.AV, Kind: using.Kind, Name: using.Name},
		c19Step{Op: "gc", Kind: v1beta1.UsageKind, Name: "u0"}, c19Step{Op: "run", U: "u0"}, c19Step{Op: "du", Name: "u1"}, c19Step{Op: "run", U: "u1"},
		c19Step{Op: "dr", AV: base.AV, Kind: base.Kind, Name: base.Name})
	return c19Scn{MaxC: 1, Steps: steps}
}

// c19WorldExhaustive (thorough): (1) xcls: every error class at every call position of one
// add-path and one delete-path reconcile (by reference / by selector), followed by a clean
// reconcile and delete requests whose webhook List fails with that class; (2) xlag: the cache-lag
// scenarios (u0 deleted while u1 appears; one Usage and the webhook) for every combination of
// by-reference / by-selector Usages, both orders of the user's operations, every lag at the
// deleting reconcile's first read, the cache standing still or catching up at each later call.
func c19WorldExhaustive(emit func(c19Scn, string)) {
	used := c19ResID{"ex.org/v1", "Thing", "r0"}
	using := c19ResID{"ex.org/v1", "Other", "r1"}
	classes := append([]string{""}, c19ErrClasses...)
	for _, sel := range []bool{false, true} {
		for _, del := range []bool{false, true} {
			for k := 0; k < 10; k++ {
				for _, cls := range classes {
					of := &c19RSpec{AV: "ex.org/v1beta1", Kind: used.Kind, Name: used.Name}
					by := &c19RSpec{AV: using.AV, Kind: using.Kind, Name: using.Name}
					if sel {
						of = &c19RSpec{AV: "ex.org/v1beta1", Kind: used.Kind, Sel: &c19Sel{Labels: map[string]string{"app": "db"}}}
						by = &c19RSpec{AV: using.AV, Kind: using.Kind, Sel: &c19Sel{Labels: map[string]string{"app": "web"}}}
					}
					steps := []c19Step{
						{Op: "cr", AV: used.AV, Kind: used.Kind, Name: used.Name, Labels: map[string]string{"app": "db"}},
						{Op: "cr", AV: using.AV, Kind: using.Kind, Name: using.Name, Labels: map[string]string{"app": "web"}},
						{Op: "cu", Name: "u0", Of: of, By: by, Composed: true},
					}
					if del {
						steps = append(steps, c19Step{Op: "run", U: "u0"}, c19Step{Op: "du", Name: "u0"})
						if k%2 == 0 {
							steps = append(steps, c19Step{Op: "dr", AV: using.AV, Kind: using.Kind, Name: using.Name})
						}
					}
					steps = append(steps, c19Step{Op: "start", U: "u0"})
					for i := 0; i < 11; i++ {
						st := c19Step{Op: "step", U: "u0", O: "ok"}
						if i == k {
							st.O, st.E = "fail", cls
						}
						steps = append(steps, st)
					}
					steps = append(steps,
						c19Step{Op: "dr", AV: "ex.org/v2", Kind: used.Kind, Name: used.Name, Policy: "Background", WO: []string{map[bool]string{true: "fail", false: cls}[cls == ""], "ok"}},
						c19Step{Op: "run", U: "u0"},
						c19Step{Op: "dr", AV: used.AV, Kind: used.Kind, Name: used.Name, WO: []string{"ok", map[bool]string{true: "fail", false: cls}[cls == ""]}},
						c19Step{Op: "dr", AV: used.AV, Kind: used.Kind, Name: used.Name})
					emit(c19Scn{MaxC: 1, Steps: steps}, "xcls")
				}
			}
		}
	}
	ofOf := func(sel bool, av string) *c19RSpec {
		if sel {
			return &c19RSpec{AV: av, Kind: used.Kind, Sel: &c19Sel{Labels: map[string]string{"app": "db"}}}
		}
		return &c19RSpec{AV: av, Kind: used.Kind, Name: used.Name}
	}
	for _, sel0 := range []bool{false, true} {
		for _, sel1 := range []bool{false, true} {
			for _, duFirst := range []bool{false, true} {
				for v := 0; v <= 24; v++ {
					for catchUp := 1; catchUp <= 6; catchUp++ {
						steps := []c19Step{
							{Op: "cr", AV: used.AV, Kind: used.Kind, Name: used.Name, Labels: map[string]string{"app": "db"}},
							{Op: "cu", Name: "u0", Of: ofOf(sel0, "ex.org/v1"), Reason: "a"},
							{Op: "run", U: "u0"},
						}
						cu1, du0 := c19Step{Op: "cu", Name: "u1", Of: ofOf(sel1, "ex.org/v1beta1"), Reason: "b"}, c19Step{Op: "du", Name: "u0"}
						if duFirst {
							steps = append(steps, du0, cu1)
						} else {
							steps = append(steps, cu1, du0)
						}
						steps = append(steps, c19Step{Op: "run", U: "u1"}, c19Step{Op: "start", U: "u0"})
						for i := 0; i < 6; i++ {
							st := c19Step{Op: "step", U: "u0", O: "ok", V: 99}
							if i == 0 {
								st.V = v
							}
							if i >= catchUp {
								st.V = 0
							}
							steps = append(steps, st)
						}
						steps = append(steps,
							c19Step{Op: "dr", AV: "ex.org/v2", Kind: used.Kind, Name: used.Name, V: v % 5},
							c19Step{Op: "run", U: "u0"}, c19Step{Op: "run", U: "u1"},
							c19Step{Op: "dr", AV: used.AV, Kind: used.Kind, Name: used.Name})
						emit(c19Scn{MaxC: 1, Steps: steps}, "xlag")
					}
				}
			}
		}
		for v := 0; v <= 14; v++ {
			steps := []c19Step{
				{Op: "cr", AV: used.AV, Kind: used.Kind, Name: used.Name, Labels: map[string]string{"app": "db"}, InUse: v%2 == 0},
				{Op: "cu", Name: "u1", Of: ofOf(sel0, "ex.org/v2"), Reason: "b"},
				{Op: "run", U: "u1"},
				{Op: "dr", AV: "ex.org/v1beta1", Kind: used.Kind, Name: used.Name, Policy: "Foreground", V: v},
				{Op: "run", U: "u1"},
				{Op: "dr", AV: used.AV, Kind: used.Kind, Name: used.Name},
			}
			emit(c19Scn{MaxC: 1, Steps: steps}, "xlag")
		}
	}
}

// c19AllMerges enumerates every interleaving of two event streams.
func c19AllMerges(a, b []c19Step, emit func([]c19Step)) {
	var rec func(i, j int, acc []c19Step)
	rec = func(i, j int, acc []c19Step) {
		if i == len(a) && j == len(b) {
			emit(append([]c19Step{}, acc...))
			return
		}
		if i < len(a) {
			rec(i+1, j, append(acc, a[i]))
		}
		if j < len(b) {
			rec(i, j+1, append(acc, b[j]))
		}
	}
	rec(0, 0, nil)
}

// c19Exhaustive: (1) every interleaving, at API-call granularity, of the reconcile of a
// deleted Usage with the creation + reconcile of a second Usage of the same resource
// (by reference, other API version), for 1 and 2 workers; (2) every fault position and
// outcome of one add-path and one delete-path reconcile.
func c19Exhaustive(emit func(c19Scn, string)) {
	used := c19ResID{"ex.org/v1", "Thing", "r0"}
	prefix := []c19Step{
		{Op: "cr", AV: used.AV, Kind: used.Kind, Name: used.Name, Labels: map[string]string{"app": "db"}},
		{Op: "cu", Name: "u0", Of: &c19RSpec{AV: used.AV, Kind: used.Kind, Name: used.Name}, Reason: "a"},
		{Op: "run", U: "u0"},
		{Op: "du", Name: "u0"},
	}
	a := []c19Step{{Op: "start", U: "u0"}}
	for i := 0; i < 5; i++ {
		a = append(a, c19Step{Op: "step", U: "u0", O: "ok"})
	}
	b := []c19Step{{Op: "cu", Name: "u1", Of: &c19RSpec{AV: "ex.org/v1beta1", Kind: used.Kind, Name: used.Name}, Reason: "b"}, {Op: "start", U: "u1"}}
	for i := 0; i < 6; i++ {
		b = append(b, c19Step{Op: "step", U: "u1", O: "ok"})
	}
	suffix := []c19Step{
		{Op: "dr", AV: "ex.org/v2", Kind: used.Kind, Name: used.Name, Policy: "Foreground"},
		{Op: "run", U: "u1"}, {Op: "run", U: "u0"},
		{Op: "dr", AV: used.AV, Kind: used.Kind, Name: used.Name},
	}
	for _, maxc := range []int{1, 2} {
		c19AllMerges(a, b, func(m []c19Step) {
			steps := append(append(append([]c19Step{}, prefix...), m...), suffix...)
			emit(c19Scn{MaxC: maxc, Steps: steps}, "xmrg")
		})
	}
	// x2ks: the same two reconciles with u1 naming ANOTHER resource (the look-alike r0.x): all
	// 3003 interleavings with two workers; nothing may be reported (marker_while_ready_key_serial)
	other := c19ResID{"ex.org/v1", "Thing", "r0.x"}
	b2 := append([]c19Step{}, b...)
	b2[0] = c19Step{Op: "cu", Name: "u1", Of: &c19RSpec{AV: "ex.org/v1beta1", Kind: other.Kind, Name: other.Name}, Reason: "b"}
	prefix2 := append([]c19Step{{Op: "cr", AV: other.AV, Kind: other.Kind, Name: other.Name, Labels: map[string]string{"app": "db"}, InUse: true}}, prefix...)
	suffix2 := append(append([]c19Step{}, suffix...), c19Step{Op: "dr", AV: other.AV, Kind: other.Kind, Name: other.Name})
	c19AllMerges(a, b2, func(m []c19Step) {
		steps := append(append(append([]c19Step{}, prefix2...), m...), suffix2...)
		emit(c19Scn{MaxC: 2, Steps: steps}, "x2ks")
	})
	using := c19ResID{"ex.org/v1", "Other", "r1"}
	for _, sel := range []bool{false, true} {
		for _, del := range []bool{false, true} {
			for k := 0; k < 10; k++ {
				for _, o := range c19Outcomes[1:] {
					of := &c19RSpec{AV: "ex.org/v1beta1", Kind: used.Kind, Name: used.Name}
					by := &c19RSpec{AV: using.AV, Kind: using.Kind, Name: using.Name}
					if sel {
						of = &c19RSpec{AV: "ex.org/v1beta1", Kind: used.Kind, Sel: &c19Sel{Labels: map[string]string{"app": "db"}}}
						by = &c19RSpec{AV: using.AV, Kind: using.Kind, Sel: &c19Sel{Labels: map[string]string{"app": "web"}}}
					}
					steps := []c19Step{
						{Op: "cr", AV: used.AV, Kind: used.Kind, Name: used.Name, Labels: map[string]string{"app": "db"}},
						{Op: "cr", AV: using.AV, Kind: using.Kind, Name: using.Name, Labels: map[string]string{"app": "web"}},
						{Op: "cu", Name: "u0", Of: of, By: by, Composed: true},
					}
					if del {
						steps = append(steps, c19Step{Op: "run", U: "u0"}, c19Step{Op: "du", Name: "u0"}, c19Step{Op: "dr", AV: using.AV, Kind: using.Kind, Name: using.Name})
					}
					steps = append(steps, c19Step{Op: "start", U: "u0"})
					for i := 0; i < 11; i++ {
						oc := "ok"
						if i == k {
							oc = o
						}
						steps = append(steps, c19Step{Op: "step", U: "u0", O: oc})
					}
					steps = append(steps,
						c19Step{Op: "dr", AV: "ex.org/v2", Kind: used.Kind, Name: used.Name, Policy: "Background"},
						c19Step{Op: "run", U: "u0"},
						c19Step{Op: "dr", AV: used.AV, Kind: used.Kind, Name: used.Name})
					emit(c19Scn{MaxC: 1, Steps: steps}, "xflt")
				}
			}
		}
	}
}

// c19RandReq: the shape of a delete's admission request as the API server builds it.
func c19RandReq(r *Rng) *c19Req {
	rq := &c19Req{}
	if r.Chance(1, 2) {
		rq.Coll = true // deletecollection / DeleteAllOf: request.name is empty
	}
	if r.Chance(1, 4) {
		rq.NS = Pick(r, []string{"default", "crossplane-system"})
	}
	if r.Chance(1, 3) {
		rq.RKV = Pick(r, []string{"v1", "v1beta1", "v2", "v1alpha1"})
	}
	if r.Chance(1, 8) {
		rq.Dry = true
	}
	if r.Chance(1, 8) {
		rq.Sub = Pick(r, []string{"status", "scale"})
	}
	if r.Chance(1, 12) {
		rq.Op = Pick(r, []string{"UPDATE", "CREATE", "CONNECT"})
	}
	if r.Chance(1, 3) {
		rq.Grace = Pick(r, []int{1, 2, 31})
	}
	rq.Pre = r.Chance(1, 4)
	return rq
}

// c19VaryRequests gives two delete requests in five a request shape of their own.
func c19VaryRequests(r *Rng, s *c19Scn) {
	for i := range s.Steps {
		if s.Steps[i].Op == "dr" && s.Steps[i].Rq == nil && r.Chance(2, 5) {
			s.Steps[i].Rq = c19RandReq(r)
		}
	}
}

func c19Class(scn c19Scn, obs c19Obs, fam string) string {
	f := map[string]bool{}
	ofs := map[string]int{}
	created, bys := map[string]int{}, map[string]bool{}
	for _, s := range scn.Steps {
		if s.Op == "cu" && s.By != nil && s.By.Name != "" {
			bys[c19ResKey(c19Group(s.By.AV), s.By.Kind, s.By.Name)] = true
		}
	}
	for _, s := range scn.Steps {
		switch s.Op {
		case "cr":
			if s.Name == "" {
				f["bad"] = true
			}
			k := c19ResKey(c19Group(s.AV), s.Kind, s.Name)
			created[k]++
			if created[k] > 1 && bys[k] {
				f["repl"] = true // a resource some Usage names as its user is created again (new uid)
			}
		case "cu":
			if s.Of == nil || s.Name == "" || strings.Count(s.Of.AV, "/") > 1 || (s.Of.Name == "" && s.Of.Sel == nil) {
				f["bad"] = true
			}
			if s.Of != nil {
				if s.Of.Name == "" {
					f["sel"] = true
					if s.Of.Sel != nil && s.Of.Sel.MC {
						f["mc"] = true
					}
				}
				ofs[s.Of.Kind+"/"+s.Of.Name]++
				if !strings.HasSuffix(s.Of.AV, "/v1") && s.Of.AV != "v1" {
					f["ver"] = true
				}
			}
			if s.By != nil {
				f["by"] = true
			}
		case "dr":
			if !strings.HasSuffix(s.AV, "/v1") && s.AV != "v1" {
				f["ver"] = true
			}
			if s.Policy != "" {
				f["pol"] = true
			}
			if len(s.WO) > 0 {
				f["hkf"] = true
			}
			if s.V > 0 {
				f["hlag"] = true // the webhook's List lags behind
			}
			if s.Rq != nil {
				f["rq"] = true // the admission request has a shape of its own
				if s.Rq.Coll {
					f["coll"] = true // collection delete: request.name empty
				}
				if s.Rq.Dry {
					f["dry"] = true
				}
				if s.Rq.Op != "" {
					f["rop"] = true
				}
			}
		case "step":
			if s.O != "ok" {
				f["flt"] = true
			}
			if s.E != "" {
				f["ecl"] = true // an injected failure carries an error class
			}
			if s.V > 0 {
				f["lag"] = true // a cached read of a reconcile lags behind
			}
		case "er":
			f["er"] = true
		case "gc":
			f["gc"] = true
		case "xa":
			f["xa"] = true
			if s.AV != "" && s.AV != v1beta1.SchemeGroupVersion.String() {
				f["xav"] = true // composed Usage templated in another served version
			}
		}
	}
	for _, n := range ofs {
		if n > 1 {
			f["shr"] = true
		}
	}
	nontrivial := false
	for _, r := range obs.Steps {
		switch {
		case strings.HasPrefix(r, "denied"):
			f["den"] = true
			nontrivial = true
		case strings.HasPrefix(r, "allowed+hook"):
			f["alwh"] = true
			nontrivial = true
		case strings.HasPrefix(r, "allowed"):
			f["alw"] = true
		case strings.HasPrefix(r, "errored"):
			f["errd"] = true
		}
		if strings.Contains(r, "/status -> ok") {
			f["rdy"] = true
			nontrivial = true
		}
		if strings.Contains(r, "done:wait") {
			f["wait"] = true
		}
		if r == "gc:ok" {
			f["gcd"] = true // the garbage collector deleted a Usage
		}
		if r == "gc:owned" {
			f["gco"] = true
		}
		if strings.Contains(r, "conflict") {
			f["cfl"] = true
		}
	}
	keys := []string{}
	for k := range f {
		keys = append(keys, k)
	}
	sort.Strings(keys)
	cls := fmt.Sprintf("%s/c%d/%s", fam, scn.MaxC, strings.Join(keys, "+"))
	if !nontrivial {
		return "trivial/" + cls
	}
	return cls
}

func init() {
	Register("C19", func(c *Ctx) {
		for _, raw := range c.Corpus {
			var s c19Scn
			if err := jsonUnmarshalStrict(raw, &s); err == nil && len(s.Steps) > 0 {
				obs, mons := c19Run(s)
				c.Emit(s, obs, mons, c19Class(s, obs, "corpus"))
			}
		}
		if c.Tier == "thorough" {
			// exhaustive small scopes, split over the shards (shard index = seed mod 1000)
			shard, idx := int(c.Seed%1000), 0
			c19Exhaustive(func(s c19Scn, fam string) {
				if idx%8 == shard%8 {
					obs, mons := c19Run(s)
					c.Emit(s, obs, mons, c19Class(s, obs, fam))
				}
				idx++
			})
			c19OwnerExhaustive(func(s c19Scn, fam string) {
				if idx%8 == shard%8 {
					obs, mons := c19Run(s)
					c.Emit(s, obs, mons, c19Class(s, obs, fam))
				}
				idx++
			})
			c19WorldExhaustive(func(s c19Scn, fam string) {
				if idx%8 == shard%8 {
					obs, mons := c19Run(s)
					c.Emit(s, obs, mons, c19Class(s, obs, fam))
				}
				idx++
			})
		}
		for i := 0; i < c.N; i++ {
			r := c.Rng.Fork()
			var s c19Scn
			fam := "rnd"
			switch w := r.Intn(22); {
			case w >= 20:
				s, fam = c19GenTwoKeys(r), "2ks"
			case w >= 18:
				if r.Chance(1, 3) {
					s, fam = c19GenTeardownSel(r), "tds"
				} else {
					s, fam = c19GenTeardown(r), "tdn"
				}
			case w < 5:
				s = c19GenRandom(r)
			case w < 8:
				s, fam = c19GenMerge(r), "mrg"
			case w < 10:
				s, fam = c19GenFaultSweep(r), "flt"
			case w < 12:
				s, fam = c19GenOwner(r), "own"
			case w < 14:
				s, fam = c19GenLag(r), "lag"
			case w < 16:
				s, fam = c19GenIdentity(r), "idn"
			default:
				s, fam = c19GenClasses(r), "cls"
			}
			c19VaryRequests(r, &s)
			obs, mons := c19Run(s)
			c.Emit(s, obs, mons, c19Class(s, obs, fam))
		}
	})
	RegisterDump("C19", func() string {
		var sb strings.Builder
		// (1) the index key, evaluated by the repo's own functions on a probe universe:
		//     webhook side = IndexValueForObject(object), controller side = the
		//     IndexerFunc registered by SetupWebhookWithManager applied to a Usage.
		st0 := NewStore(nil)
		w := c19NewWire(st0, st0)
		avs := []string{"ex.org/v1", "ex.org/v1beta1", "ex.org/v2", "other.io/v1", "other.io/v1alpha1", "v1", "", "/", "a/b/c", "apps/v1", "ex.org.io/v1", "x.ex.org/v1", "EX.org/v1"}
		kinds := []string{"Thing", "Things", "thing"}
		names := []string{"r1", "a.b", "r10"}
		sb.WriteString("/-- (apiVersion, kind, name, IndexValueForObject of such an object, index values of a Usage whose spec.of is that reference) -/\n")
		sb.WriteString("def c19IndexProbe : List (String × String × String × String × List String) := [\n")
		first := true
		for _, av := range avs {
			for _, k := range kinds {
				for _, n := range names {
					o := &unstructured.Unstructured{}
					o.SetAPIVersion(av)
					o.SetKind(k)
					o.SetName(n)
					obj := usagehook.IndexValueForObject(o)
					var us []string
					if w.idx.fn != nil {
						us = w.idx.fn(&v1beta1.Usage{Spec: v1beta1.UsageSpec{Of: v1beta1.Resource{APIVersion: av, Kind: k, ResourceRef: &v1beta1.ResourceRef{Name: n}}}})
					}
					if !first {
						sb.WriteString(",\n")
					}
					first = false
					sb.WriteString(fmt.Sprintf("  (%s, %s, %s, %s, %s)", leanStr(av), leanStr(k), leanStr(n), leanStr(obj), leanStrList(us)))
				}
			}
		}
		sb.WriteString("]\n")
		var unres []string
		if w.idx.fn != nil {
			unres = w.idx.fn(&v1beta1.Usage{Spec: v1beta1.UsageSpec{Of: v1beta1.Resource{APIVersion: "ex.org/v1", Kind: "Thing", ResourceSelector: &v1beta1.ResourceSelector{MatchLabels: map[string]string{"a": "b"}}}}})
		}
		sb.WriteString("/-- index values of a Usage whose spec.of has only a selector (not yet resolved) -/\n")
		sb.WriteString("def c19IndexUnresolved : List String := " + leanStrList(unres) + "\n")
		sb.WriteString("def c19IndexField : String := " + leanStr(w.idx.field) + "\n")
		sb.WriteString("def c19InUseIndexKey : String := " + leanStr(usagehook.InUseIndexKey) + "\n")
		// (2) the webhook configuration
		cfg := c19LoadHookCfg()
		sel := []string{}
		for k, v := range cfg.SelMap {
			sel = append(sel, "("+leanStr(k)+", "+leanStr(v)+")")
		}
		sort.Strings(sel)
		sb.WriteString("/-- objectSelector.matchLabels of cluster/webhookconfigurations/usage.yaml -/\n")
		sb.WriteString("def c19HookSelector : List (String × String) := [" + strings.Join(sel, ", ") + "]\n")
		sb.WriteString("def c19HookOperations : List String := " + leanStrList(cfg.Ops) + "\n")
		sb.WriteString("def c19HookGroups : List String := " + leanStrList(cfg.Groups) + "\n")
		sb.WriteString(fmt.Sprintf("def c19HookFailClosed : Bool := %v\n", cfg.Fail && cfg.Err == ""))
		sb.WriteString(fmt.Sprintf("/-- a handler is registered at the path the configuration points to -/\ndef c19HookPathServed : Bool := %v\n", w.handler != nil))
		// (2b) which current objects the composer's RespectOwnerRefs option recognises as a Usage:
		//      (apiVersion, kind, the option replaced the desired owner references by the current ones)
		sb.WriteString("/-- (apiVersion, kind of the current composed object, RespectOwnerRefs kept its owner references) -/\n")
		sb.WriteString("def c19ComposerRespects : List (String × String × Bool) := [")
		for i, p := range [][2]string{{v1beta1.Group + "/v1beta1", v1beta1.UsageKind}, {v1beta1.Group + "/v1alpha1", v1beta1.UsageKind},
			{"other.io/v1beta1", v1beta1.UsageKind}, {v1beta1.Group + "/v1beta1", "Usages"}, {v1beta1.Group + "/v1beta1", "usage"}, {"ex.org/v1", "Thing"}} {
			if i > 0 {
				sb.WriteString(", ")
			}
			sb.WriteString(fmt.Sprintf("(%s, %s, %v)", leanStr(p[0]), leanStr(p[1]), c19ComposerRespects(p[0], p[1])))
		}
		sb.WriteString("]\n")
		// (3) constants of the controller
		sb.WriteString("def c19InUseLabelKey : String := " + leanStr(usagectrl.VerifInUseLabelKey) + "\n")
		sb.WriteString("def c19Finalizer : String := " + leanStr(usagectrl.VerifFinalizer) + "\n")
		sb.WriteString("def c19AttemptAnnotation : String := " + leanStr(usagehook.AnnotationKeyDeletionAttempt) + "\n")
		return sb.String()
	})
}

// c19ComposerRespects runs the real RespectOwnerRefs option on a current object of the given
// apiVersion/kind carrying an owner reference and a desired object carrying another one.
func c19ComposerRespects(av, kind string) bool {
	cur, des := composed.New(), composed.New()
	cur.SetAPIVersion(av)
	cur.SetKind(kind)
	cur.SetName("u")
	cur.SetOwnerReferences([]metav1.OwnerReference{{APIVersion: "ex.org/v1", Kind: "Other", Name: "b", UID: "1"}})
	des.SetAPIVersion(av)
	des.SetKind(kind)
	des.SetName("u")
	des.SetOwnerReferences([]metav1.OwnerReference{{APIVersion: c19XRAV, Kind: c19XRKind, Name: "x", UID: "2"}})
	if err := usagectrl.RespectOwnerRefs()(context.Background(), cur, des); err != nil {
		return false
	}
	refs := des.GetOwnerReferences()
	return len(refs) == 1 && refs[0].UID == "1"
}

//go:build verif

package main

// C19 scenario generators, registration and table dump.

import (
	"fmt"
	"sort"
	"strings"

	"k8s.io/apimachinery/pkg/apis/meta/v1/unstructured"

	"github.com/crossplane/crossplane/apis/apiextensions/v1beta1"
	usagectrl "github.com/crossplane/crossplane/internal/controller/apiextensions/usage"
	usagehook "github.com/crossplane/crossplane/internal/usage"
)

type c19ResID struct{ AV, Kind, Name string }

// versions of the same group/kind a request or a Usage may use
func c19Versions(av string) []string {
	switch c19Group(av) {
	case "ex.org":
		return []string{"ex.org/v1", "ex.org/v1beta1", "ex.org/v2"}
	case "other.io":
		return []string{"other.io/v1", "other.io/v1alpha1"}
	}
	return []string{av}
}

var c19Outcomes = []string{"ok", "fail", "conflict", "crashBefore", "crashAfter"}

type c19GenState struct {
	r       *Rng
	steps   []c19Step
	xrs     []string
	res     []c19ResID
	usages  []string
	flying  map[string]bool
	feat    map[string]bool
	nextRes int
}

func (g *c19GenState) add(s c19Step) { g.steps = append(g.steps, s) }

func (g *c19GenState) labels() map[string]string {
	l := map[string]string{}
	if g.r.Chance(3, 5) {
		l["app"] = Pick(g.r, []string{"db", "web"})
	}
	if g.r.Chance(1, 5) {
		l["tier"] = "a"
	}
	return l
}

func (g *c19GenState) ctrl() string {
	if len(g.xrs) > 0 && g.r.Chance(2, 5) {
		return Pick(g.r, g.xrs)
	}
	return ""
}

func (g *c19GenState) newRes() {
	kinds := []c19ResID{{"ex.org/v1", "Thing", ""}, {"ex.org/v1", "Thing", ""}, {"ex.org/v1", "Thing", ""}, {"ex.org/v1", "Other", ""}, {"other.io/v1", "Thing", ""}, {"v1", "Node", ""}}
	id := Pick(g.r, kinds)
	id.Name = Pick(g.r, []string{"r0", "r1", "r2", "r0"})
	if g.r.Chance(1, 80) {
		id.Name = "" // malformed: rejected by the API server
	}
	g.add(c19Step{Op: "cr", AV: id.AV, Kind: id.Kind, Name: id.Name, Labels: g.labels(), InUse: g.r.Chance(1, 10), Ctrl: g.ctrl()})
	for _, x := range g.res {
		if x == id {
			return
		}
	}
	g.res = append(g.res, id)
}

func (g *c19GenState) pickRes() c19ResID {
	if len(g.res) == 0 || g.r.Chance(1, 12) {
		return c19ResID{"ex.org/v1", "Thing", Pick(g.r, []string{"r0", "r1", "ghost"})}
	}
	return Pick(g.r, g.res)
}

func (g *c19GenState) rspec(target c19ResID, allowMalformed bool) *c19RSpec {
	av := target.AV
	if g.r.Chance(2, 5) {
		av = Pick(g.r, c19Versions(target.AV))
		if av != target.AV {
			g.feat["ver"] = true
		}
	}
	if allowMalformed && g.r.Chance(1, 40) {
		av = "a/b/c"
		g.feat["badav"] = true
	}
	rs := &c19RSpec{AV: av, Kind: target.Kind}
	if g.r.Chance(3, 5) {
		rs.Name = target.Name
		if g.r.Chance(1, 6) {
			// a reference AND a selector: the reference wins
			rs.Sel = &c19Sel{Labels: g.labels()}
		}
		return rs
	}
	g.feat["sel"] = true
	rs.Sel = &c19Sel{Labels: g.labels(), MC: g.r.Chance(1, 3)}
	if rs.Sel.MC {
		g.feat["mc"] = true
	}
	if g.r.Chance(1, 15) {
		rs.Sel = nil // neither reference nor selector
	}
	return rs
}

func (g *c19GenState) newUsage() {
	if len(g.usages) >= 4 {
		return
	}
	name := fmt.Sprintf("u%d", len(g.usages))
	if g.r.Chance(1, 10) && len(g.usages) > 0 {
		name = Pick(g.r, g.usages) // re-create under an old name
	}
	st := c19Step{Op: "cu", Name: name, Of: g.rspec(g.pickRes(), true), Composed: g.r.Chance(3, 10), Ctrl: g.ctrl()}
	// malformed stream: no spec.of at all, empty object name
	if g.r.Chance(1, 60) {
		st.Of = nil
	}
	if g.r.Chance(1, 80) {
		st.Name = ""
		g.add(st)
		return
	}
	if g.r.Chance(3, 5) {
		st.By = g.rspec(g.pickRes(), false)
		g.feat["by"] = true
	} else {
		st.Reason = "because"
	}
	g.add(st)
	found := false
	for _, u := range g.usages {
		if u == name {
			found = true
		}
	}
	if !found {
		g.usages = append(g.usages, name)
	}
}

func (g *c19GenState) pickUsage() string {
	if len(g.usages) == 0 || g.r.Chance(1, 25) {
		return "u9"
	}
	return Pick(g.r, g.usages)
}

func (g *c19GenState) deleteRes() {
	t := g.pickRes()
	if len(g.xrs) > 0 && g.r.Chance(1, 5) {
		t = c19ResID{c19XRAV, c19XRKind, Pick(g.r, g.xrs)}
	}
	av := t.AV
	if g.r.Chance(1, 2) {
		av = Pick(g.r, c19Versions(t.AV))
		if av != t.AV {
			g.feat["ver"] = true
		}
	}
	st := c19Step{Op: "dr", AV: av, Kind: t.Kind, Name: t.Name, Policy: Pick(g.r, []string{"", "", "Background", "Foreground", "Orphan"})}
	if g.r.Chance(1, 8) {
		st.WO = []string{Pick(g.r, []string{"ok", "fail"}), Pick(g.r, []string{"ok", "fail", "conflict"})}
		g.feat["hookfault"] = true
	}
	g.add(st)
}

func (g *c19GenState) outcome() string {
	if g.r.Chance(7, 10) {
		return "ok"
	}
	g.feat["fault"] = true
	return Pick(g.r, c19Outcomes[1:])
}

func c19GenRandom(r *Rng) c19Scn {
	g := &c19GenState{r: r, flying: map[string]bool{}, feat: map[string]bool{}}
	maxc := Pick(r, []int{1, 1, 1, 1, 2, 2, 2, 2, 3, 3})
	for i, n := 0, Pick(r, []int{0, 0, 1, 2}); i < n; i++ {
		x := fmt.Sprintf("x%d", i)
		g.add(c19Step{Op: "cr", AV: c19XRAV, Kind: c19XRKind, Name: x})
		g.xrs = append(g.xrs, x)
	}
	for i, n := 0, r.Range(1, 3); i < n; i++ {
		g.newRes()
	}
	if r.Chance(4, 5) {
		g.newUsage()
	}
	for i, n := 0, r.Range(5, 28); i < n; i++ {
		w := r.Intn(100)
		switch {
		case w < 14:
			g.newUsage()
		case w < 34:
			g.add(c19Step{Op: "run", U: g.pickUsage()})
		case w < 42:
			g.add(c19Step{Op: "start", U: g.pickUsage()})
			g.feat["sched"] = true
		case w < 66:
			u := g.pickUsage()
			if maxc > 1 || r.Chance(1, 2) {
				g.add(c19Step{Op: "start", U: u})
			}
			for j, m := 0, r.Range(1, 5); j < m; j++ {
				g.add(c19Step{Op: "step", U: u, O: g.outcome()})
			}
			g.feat["sched"] = true
		case w < 74:
			g.add(c19Step{Op: "du", Name: g.pickUsage()})
		case w < 88:
			g.deleteRes()
		case w < 90:
			if len(g.xrs) > 0 {
				g.add(c19Step{Op: "xa", Name: g.pickUsage(), Ctrl: Pick(r, g.xrs)})
			} else {
				g.deleteRes()
			}
		case w < 94:
			if r.Bool() {
				g.add(c19Step{Op: "gc", Kind: v1beta1.UsageKind, Name: g.pickUsage()})
			} else {
				t := g.pickRes()
				g.add(c19Step{Op: "gc", AV: t.AV, Kind: t.Kind, Name: t.Name})
			}
		default:
			g.newRes()
		}
	}
	if r.Chance(1, 3) {
		for _, u := range g.usages {
			g.add(c19Step{Op: "run", U: u})
		}
		g.deleteRes()
	}
	return c19Scn{MaxC: maxc, Steps: g.steps}
}

// c19GenMerge: two (or three) Usages over one used resource, the first being
// deleted while the others are created and reconciled; the schedule is a random
// merge of the reconciles' API calls and the user's operations.
func c19GenMerge(r *Rng) c19Scn {
	used := c19ResID{"ex.org/v1", "Thing", "r0"}
	ofA := &c19RSpec{AV: Pick(r, c19Versions(used.AV)), Kind: used.Kind, Name: used.Name}
	ofB := &c19RSpec{AV: Pick(r, c19Versions(used.AV)), Kind: used.Kind, Name: used.Name}
	steps := []c19Step{
		{Op: "cr", AV: used.AV, Kind: used.Kind, Name: used.Name, Labels: map[string]string{"app": "db"}},
		{Op: "cu", Name: "u0", Of: ofA, Reason: "a"},
		{Op: "run", U: "u0"},
	}
	if r.Bool() {
		ofB.Name = ""
		ofB.Sel = &c19Sel{Labels: map[string]string{"app": "db"}}
	}
	third := r.Chance(1, 3)
	if third {
		steps = append(steps, c19Step{Op: "cu", Name: "u2", Of: &c19RSpec{AV: used.AV, Kind: used.Kind, Name: used.Name}, Reason: "c"})
		if r.Bool() {
			steps = append(steps, c19Step{Op: "run", U: "u2"})
		}
	}
	steps = append(steps, c19Step{Op: "du", Name: "u0"})
	// event streams
	a := []c19Step{{Op: "start", U: "u0"}}
	for i := 0; i < 6; i++ {
		a = append(a, c19Step{Op: "step", U: "u0", O: "ok"})
	}
	b := []c19Step{{Op: "cu", Name: "u1", Of: ofB, Reason: "b"}, {Op: "start", U: "u1"}}
	for i := 0; i < 8; i++ {
		b = append(b, c19Step{Op: "step", U: "u1", O: "ok"})
	}
	var c []c19Step
	if third && r.Bool() {
		c = append(c, c19Step{Op: "du", Name: "u2"}, c19Step{Op: "start", U: "u2"})
		for i := 0; i < 6; i++ {
			c = append(c, c19Step{Op: "step", U: "u2", O: "ok"})
		}
	}
	streams := [][]c19Step{a, b, c}
	// biased merge: with some probability run a burst of one stream
	for {
		var alive []int
		for i, s := range streams {
			if len(s) > 0 {
				alive = append(alive, i)
			}
		}
		if len(alive) == 0 {
			break
		}
		i := Pick(r, alive)
		n := 1
		if r.Chance(1, 2) {
			n = r.Range(1, 9)
		}
		for ; n > 0 && len(streams[i]) > 0; n-- {
			steps = append(steps, streams[i][0])
			streams[i] = streams[i][1:]
		}
	}
	steps = append(steps, c19Step{Op: "dr", AV: Pick(r, c19Versions(used.AV)), Kind: used.Kind, Name: used.Name, Policy: Pick(r, []string{"", "Foreground"})})
	steps = append(steps, c19Step{Op: "run", U: "u1"}, c19Step{Op: "dr", AV: used.AV, Kind: used.Kind, Name: used.Name})
	return c19Scn{MaxC: Pick(r, []int{1, 2, 3, 3}), Steps: steps}
}

// c19GenFaultSweep: one reconcile (add path or delete path) with a fault at call k.
func c19GenFaultSweep(r *Rng) c19Scn {
	used := c19ResID{"ex.org/v1", "Thing", "r0"}
	using := c19ResID{"ex.org/v1", "Other", "r1"}
	steps := []c19Step{
		{Op: "cr", AV: c19XRAV, Kind: c19XRKind, Name: "x0"},
		{Op: "cr", AV: used.AV, Kind: used.Kind, Name: used.Name, Labels: map[string]string{"app": "db"}, Ctrl: Pick(r, []string{"", "x0"})},
		{Op: "cr", AV: using.AV, Kind: using.Kind, Name: using.Name, Labels: map[string]string{"app": "web"}, Ctrl: Pick(r, []string{"", "x0"})},
	}
	of := &c19RSpec{AV: Pick(r, c19Versions(used.AV)), Kind: used.Kind, Name: used.Name}
	if r.Bool() {
		of.Name = ""
		of.Sel = &c19Sel{Labels: map[string]string{"app": "db"}, MC: r.Chance(1, 3)}
	}
	var by *c19RSpec
	if r.Chance(2, 3) {
		by = &c19RSpec{AV: using.AV, Kind: using.Kind, Name: using.Name}
		if r.Bool() {
			by.Name = ""
			by.Sel = &c19Sel{Labels: map[string]string{"app": "web"}, MC: r.Chance(1, 3)}
		}
	}
	cu := c19Step{Op: "cu", Name: "u0", Of: of, By: by, Composed: r.Bool(), Ctrl: Pick(r, []string{"", "x0"})}
	if by == nil {
		cu.Reason = "why"
	}
	steps = append(steps, cu)
	delPath := r.Bool()
	if delPath {
		steps = append(steps, c19Step{Op: "run", U: "u0"}, c19Step{Op: "dr", AV: used.AV, Kind: used.Kind, Name: used.Name, Policy: "Orphan"}, c19Step{Op: "du", Name: "u0"})
		if r.Bool() {
			steps = append(steps, c19Step{Op: "dr", AV: using.AV, Kind: using.Kind, Name: using.Name})
		}
	}
	k := r.Intn(10)
	o := Pick(r, c19Outcomes[1:])
	steps = append(steps, c19Step{Op: "start", U: "u0"})
	for i := 0; i < 11; i++ {
		oc := "ok"
		if i == k {
			oc = o
		}
		steps = append(steps, c19Step{Op: "step", U: "u0", O: oc})
	}
	steps = append(steps, c19Step{Op: "dr", AV: Pick(r, c19Versions(used.AV)), Kind: used.Kind, Name: used.Name, Policy: Pick(r, []string{"", "Background"})})
	steps = append(steps, c19Step{Op: "run", U: "u0"}, c19Step{Op: "xa", Name: "u0", Ctrl: "x0"}, c19Step{Op: "dr", AV: used.AV, Kind: used.Kind, Name: used.Name})
	if r.Bool() {
		steps = append(steps, c19Step{Op: "dr", AV: using.AV, Kind: using.Kind, Name: using.Name}, c19Step{Op: "gc", Kind: v1beta1.UsageKind, Name: "u0"}, c19Step{Op: "run", U: "u0"}, c19Step{Op: "dr", AV: used.AV, Kind: used.Kind, Name: used.Name})
	}
	return c19Scn{MaxC: 1, Steps: steps}
}

// c19OwnerParts: a Usage of used by using; the using resource is replaced (deleted and
// re-created under the same name: new uid) or the Usage is seeded with an owner reference that
// has the using resource's name and another uid. variant:
//
//	0 plain:    Usage by a plain resource, reconciled (ready, owned by uid 1), then the user is replaced
//	1 composed: the same with an XR controller reference as FIRST owner of the Usage
//	2 seeded:   spec.by is the XR the Usage was created under (its controller reference carries the
//	            right apiVersion/kind/name); the XR is replaced before the Usage is ever reconciled
func c19OwnerParts(variant int, byAV string, bySel bool, usedAV string) (prefix []c19Step, replace []c19Step, used, using c19ResID) {
	used = c19ResID{"ex.org/v1", "Thing", "r0"}
	using = c19ResID{"ex.org/v1", "Other", "r1"}
	if variant == 2 {
		using = c19ResID{c19XRAV, c19XRKind, "x0"}
	}
	prefix = []c19Step{{Op: "cr", AV: c19XRAV, Kind: c19XRKind, Name: "x0", Labels: map[string]string{"app": "web"}}}
	prefix = append(prefix, c19Step{Op: "cr", AV: used.AV, Kind: used.Kind, Name: used.Name, Labels: map[string]string{"app": "db"}})
	crUsing := c19Step{Op: "cr", AV: using.AV, Kind: using.Kind, Name: using.Name, Labels: map[string]string{"app": "web"}}
	if variant != 2 {
		prefix = append(prefix, crUsing)
	}
	by := &c19RSpec{AV: byAV, Kind: using.Kind, Name: using.Name}
	if bySel && variant != 2 {
		by = &c19RSpec{AV: byAV, Kind: using.Kind, Sel: &c19Sel{Labels: map[string]string{"app": "web"}}}
	}
	cu := c19Step{Op: "cu", Name: "u0", Of: &c19RSpec{AV: usedAV, Kind: used.Kind, Name: used.Name}, By: by}
	switch variant {
	case 1:
		cu.Composed, cu.Ctrl = true, "x0"
	case 2:
		cu.Ctrl = "x0"
	}
	prefix = append(prefix, cu)
	if variant != 2 {
		prefix = append(prefix, c19Step{Op: "run", U: "u0"})
	}
	replace = []c19Step{{Op: "dr", AV: using.AV, Kind: using.Kind, Name: using.Name}, crUsing}
	return prefix, replace, used, using
}

// c19GenOwner: ownership is by uid. The using resource is replaced while the Usage is ready
// (before the garbage collector looks at the Usage), at a random point before or during the
// next reconcile of the Usage; then GC steps, reconciles and delete requests for the used
// resource in random order; finally the user is deleted for good and the used resource released.
func c19GenOwner(r *Rng) c19Scn {
	variant := Pick(r, []int{0, 0, 1, 1, 2})
	byAV := "ex.org/v1"
	if r.Chance(1, 4) {
		byAV = Pick(r, c19Versions("ex.org/v1"))
	}
	prefix, replace, used, _ := c19OwnerParts(variant, byAV, r.Chance(1, 4), Pick(r, c19Versions("ex.org/v1")))
	steps := append([]c19Step{}, prefix...)
	gcU := c19Step{Op: "gc", Kind: v1beta1.UsageKind, Name: "u0"}
	drUsed := func() c19Step {
		return c19Step{Op: "dr", AV: Pick(r, c19Versions(used.AV)), Kind: used.Kind, Name: used.Name, Policy: Pick(r, []string{"", "Foreground", "Orphan"})}
	}
	if variant == 1 && r.Bool() {
		steps = append(steps, c19Step{Op: "xa", Name: "u0", Ctrl: "x0"})
	}
	switch r.Intn(4) {
	case 0, 1:
		// replaced between two reconciles
		steps = append(steps, replace...)
		if r.Chance(1, 3) {
			steps = append(steps, c19Step{Op: "start", U: "u0"})
			for i, n := 0, r.Range(1, 4); i < n; i++ {
				steps = append(steps, c19Step{Op: "step", U: "u0", O: "ok"})
			}
		}
		steps = append(steps, c19Step{Op: "run", U: "u0"})
	case 2:
		// replaced in the middle of a reconcile (possibly between its GET of the user and its write)
		k := r.Intn(9)
		steps = append(steps, c19Step{Op: "start", U: "u0"})
		for i := 0; i < k; i++ {
			steps = append(steps, c19Step{Op: "step", U: "u0", O: "ok"})
		}
		if r.Bool() {
			steps = append(steps, replace...)
		} else {
			steps = append(steps, replace[0], c19Step{Op: "step", U: "u0", O: "ok"}, replace[1])
		}
		steps = append(steps, c19Step{Op: "run", U: "u0"})
		if r.Bool() {
			steps = append(steps, c19Step{Op: "run", U: "u0"})
		}
	default:
		// the garbage collector is faster than the controller: the Usage is collected (rightly)
		steps = append(steps, replace...)
		steps = append(steps, gcU, c19Step{Op: "run", U: "u0"})
	}
	// now: GC, polls, delete requests, composer in random order
	tail := []c19Step{gcU, drUsed(), {Op: "run", U: "u0"}}
	if r.Bool() {
		tail = append(tail, gcU, drUsed())
	}
	if variant == 1 {
		tail = append(tail, c19Step{Op: "xa", Name: "u0", Ctrl: "x0"})
	}
	for _, i := range r.Perm(len(tail)) {
		steps = append(steps, tail[i])
	}
	steps = append(steps, gcU, c19Step{Op: "run", U: "u0"}, drUsed())
	// the user goes away for good: the used resource is released
	steps = append(steps, replace[0], gcU, c19Step{Op: "run", U: "u0"}, drUsed())
	return c19Scn{MaxC: Pick(r, []int{1, 1, 2}), Steps: steps}
}

// c19OwnerExhaustive: for each variant, the replacement of the using resource at every position
// of the following reconcile's call sequence (as one step or split around one call), followed by
// GC, a poll, GC and a delete request for the used resource.
func c19OwnerExhaustive(emit func(c19Scn, string)) {
	for variant := 0; variant < 3; variant++ {
		for _, bySel := range []bool{false, true} {
			if bySel && variant == 2 {
				continue
			}
			for k := 0; k <= 9; k++ {
				for _, split := range []bool{false, true} {
					for _, gcFirst := range []bool{false, true} {
						prefix, replace, used, _ := c19OwnerParts(variant, "ex.org/v1", bySel, "ex.org/v1beta1")
						steps := append([]c19Step{}, prefix...)
						if gcFirst {
							steps = append(steps, c19Step{Op: "gc", Kind: v1beta1.UsageKind, Name: "u0"})
						}
						steps = append(steps, c19Step{Op: "start", U: "u0"})
						for i := 0; i < k; i++ {
							steps = append(steps, c19Step{Op: "step", U: "u0", O: "ok"})
						}
						if split {
							steps = append(steps, replace[0], c19Step{Op: "step", U: "u0", O: "ok"}, replace[1])
						} else {
							steps = append(steps, replace...)
						}
						steps = append(steps,
							c19Step{Op: "run", U: "u0"},
							c19Step{Op: "gc", Kind: v1beta1.UsageKind, Name: "u0"},
							c19Step{Op: "run", U: "u0"},
							c19Step{Op: "gc", Kind: v1beta1.UsageKind, Name: "u0"},
							c19Step{Op: "run", U: "u0"},
							c19Step{Op: "dr", AV: "ex.org/v2", Kind: used.Kind, Name: used.Name, Policy: "Foreground"},
							replace[0],
							c19Step{Op: "gc", Kind: v1beta1.UsageKind, Name: "u0"},
							c19Step{Op: "run", U: "u0"},
							c19Step{Op: "dr", AV: used.AV, Kind: used.Kind, Name: used.Name})
						emit(c19Scn{MaxC: 1, Steps: steps}, "xown")
					}
				}
			}
		}
	}
}

// c19AllMerges enumerates every interleaving of two event streams.
func c19AllMerges(a, b []c19Step, emit func([]c19Step)) {
	var rec func(i, j int, acc []c19Step)
	rec = func(i, j int, acc []c19Step) {
		if i == len(a) && j == len(b) {
			emit(append([]c19Step{}, acc...))
			return
		}
		if i < len(a) {
			rec(i+1, j, append(acc, a[i]))
		}
		if j < len(b) {
			rec(i, j+1, append(acc, b[j]))
		}
	}
	rec(0, 0, nil)
}

// c19Exhaustive: (1) every interleaving, at API-call granularity, of the reconcile of a
// deleted Usage with the creation + reconcile of a second Usage of the same resource
// (by reference, other API version), for 1 and 2 workers; (2) every fault position and
// outcome of one add-path and one delete-path reconcile.
func c19Exhaustive(emit func(c19Scn, string)) {
	used := c19ResID{"ex.org/v1", "Thing", "r0"}
	prefix := []c19Step{
		{Op: "cr", AV: used.AV, Kind: used.Kind, Name: used.Name, Labels: map[string]string{"app": "db"}},
		{Op: "cu", Name: "u0", Of: &c19RSpec{AV: used.AV, Kind: used.Kind, Name: used.Name}, Reason: "a"},
		{Op: "run", U: "u0"},
		{Op: "du", Name: "u0"},
	}
	a := []c19Step{{Op: "start", U: "u0"}}
	for i := 0; i < 5; i++ {
		a = append(a, c19Step{Op: "step", U: "u0", O: "ok"})
	}
	b := []c19Step{{Op: "cu", Name: "u1", Of: &c19RSpec{AV: "ex.org/v1beta1", Kind: used.Kind, Name: used.Name}, Reason: "b"}, {Op: "start", U: "u1"}}
	for i := 0; i < 6; i++ {
		b = append(b, c19Step{Op: "step", U: "u1", O: "ok"})
	}
	suffix := []c19Step{
		{Op: "dr", AV: "ex.org/v2", Kind: used.Kind, Name: used.Name, Policy: "Foreground"},
		{Op: "run", U: "u1"}, {Op: "run", U: "u0"},
		{Op: "dr", AV: used.AV, Kind: used.Kind, Name: used.Name},
	}
	for _, maxc := range []int{1, 2} {
		c19AllMerges(a, b, func(m []c19Step) {
			steps := append(append(append([]c19Step{}, prefix...), m...), suffix...)
			emit(c19Scn{MaxC: maxc, Steps: steps}, "xmrg")
		})
	}
	using := c19ResID{"ex.org/v1", "Other", "r1"}
	for _, sel := range []bool{false, true} {
		for _, del := range []bool{false, true} {
			for k := 0; k < 10; k++ {
				for _, o := range c19Outcomes[1:] {
					of := &c19RSpec{AV: "ex.org/v1beta1", Kind: used.Kind, Name: used.Name}
					by := &c19RSpec{AV: using.AV, Kind: using.Kind, Name: using.Name}
					if sel {
						of = &c19RSpec{AV: "ex.org/v1beta1", Kind: used.Kind, Sel: &c19Sel{Labels: map[string]string{"app": "db"}}}
						by = &c19RSpec{AV: using.AV, Kind: using.Kind, Sel: &c19Sel{Labels: map[string]string{"app": "web"}}}
					}
					steps := []c19Step{
						{Op: "cr", AV: used.AV, Kind: used.Kind, Name: used.Name, Labels: map[string]string{"app": "db"}},
						{Op: "cr", AV: using.AV, Kind: using.Kind, Name: using.Name, Labels: map[string]string{"app": "web"}},
						{Op: "cu", Name: "u0", Of: of, By: by, Composed: true},
					}
					if del {
						steps = append(steps, c19Step{Op: "run", U: "u0"}, c19Step{Op: "du", Name: "u0"}, c19Step{Op: "dr", AV: using.AV, Kind: using.Kind, Name: using.Name})
					}
					steps = append(steps, c19Step{Op: "start", U: "u0"})
					for i := 0; i < 11; i++ {
						oc := "ok"
						if i == k {
							oc = o
						}
						steps = append(steps, c19Step{Op: "step", U: "u0", O: oc})
					}
					steps = append(steps,
						c19Step{Op: "dr", AV: "ex.org/v2", Kind: used.Kind, Name: used.Name, Policy: "Background"},
						c19Step{Op: "run", U: "u0"},
						c19Step{Op: "dr", AV: used.AV, Kind: used.Kind, Name: used.Name})
					emit(c19Scn{MaxC: 1, Steps: steps}, "xflt")
				}
			}
		}
	}
}

func c19Class(scn c19Scn, obs c19Obs, fam string) string {
	f := map[string]bool{}
	ofs := map[string]int{}
	created, bys := map[string]int{}, map[string]bool{}
	for _, s := range scn.Steps {
		if s.Op == "cu" && s.By != nil && s.By.Name != "" {
			bys[c19ResKey(c19Group(s.By.AV), s.By.Kind, s.By.Name)] = true
		}
	}
	for _, s := range scn.Steps {
		switch s.Op {
		case "cr":
			if s.Name == "" {
				f["bad"] = true
			}
			k := c19ResKey(c19Group(s.AV), s.Kind, s.Name)
			created[k]++
			if created[k] > 1 && bys[k] {
				f["repl"] = true // a resource some Usage names as its user is created again (new uid)
			}
		case "cu":
			if s.Of == nil || s.Name == "" || strings.Count(s.Of.AV, "/") > 1 || (s.Of.Name == "" && s.Of.Sel == nil) {
				f["bad"] = true
			}
			if s.Of != nil {
				if s.Of.Name == "" {
					f["sel"] = true
					if s.Of.Sel != nil && s.Of.Sel.MC {
						f["mc"] = true
					}
				}
				ofs[s.Of.Kind+"/"+s.Of.Name]++
				if !strings.HasSuffix(s.Of.AV, "/v1") && s.Of.AV != "v1" {
					f["ver"] = true
				}
			}
			if s.By != nil {
				f["by"] = true
			}
		case "dr":
			if !strings.HasSuffix(s.AV, "/v1") && s.AV != "v1" {
				f["ver"] = true
			}
			if s.Policy != "" {
				f["pol"] = true
			}
			if len(s.WO) > 0 {
				f["hkf"] = true
			}
		case "step":
			if s.O != "ok" {
				f["flt"] = true
			}
		case "gc":
			f["gc"] = true
		case "xa":
			f["xa"] = true
		}
	}
	for _, n := range ofs {
		if n > 1 {
			f["shr"] = true
		}
	}
	nontrivial := false
	for _, r := range obs.Steps {
		switch {
		case strings.HasPrefix(r, "denied"):
			f["den"] = true
			nontrivial = true
		case strings.HasPrefix(r, "allowed+hook"):
			f["alwh"] = true
			nontrivial = true
		case strings.HasPrefix(r, "allowed"):
			f["alw"] = true
		case strings.HasPrefix(r, "errored"):
			f["errd"] = true
		}
		if strings.Contains(r, "/status -> ok") {
			f["rdy"] = true
			nontrivial = true
		}
		if strings.Contains(r, "done:wait") {
			f["wait"] = true
		}
		if r == "gc:ok" {
			f["gcd"] = true // the garbage collector deleted a Usage
		}
		if r == "gc:owned" {
			f["gco"] = true
		}
		if strings.Contains(r, "conflict") {
			f["cfl"] = true
		}
	}
	keys := []string{}
	for k := range f {
		keys = append(keys, k)
	}
	sort.Strings(keys)
	cls := fmt.Sprintf("%s/c%d/%s", fam, scn.MaxC, strings.Join(keys, "+"))
	if !nontrivial {
		return "trivial/" + cls
	}
	return cls
}

func init() {
	Register("C19", func(c *Ctx) {
		for _, raw := range c.Corpus {
			var s c19Scn
			if err := jsonUnmarshalStrict(raw, &s); err == nil && len(s.Steps) > 0 {
				obs, mons := c19Run(s)
				c.Emit(s, obs, mons, c19Class(s, obs, "corpus"))
			}
		}
		if c.Tier == "thorough" {
			// exhaustive small scopes, split over the shards (shard index = seed mod 1000)
			shard, idx := int(c.Seed%1000), 0
			c19Exhaustive(func(s c19Scn, fam string) {
				if idx%8 == shard%8 {
					obs, mons := c19Run(s)
					c.Emit(s, obs, mons, c19Class(s, obs, fam))
				}
				idx++
			})
			c19OwnerExhaustive(func(s c19Scn, fam string) {
				if idx%8 == shard%8 {
					obs, mons := c19Run(s)
					c.Emit(s, obs, mons, c19Class(s, obs, fam))
				}
				idx++
			})
		}
		for i := 0; i < c.N; i++ {
			r := c.Rng.Fork()
			var s c19Scn
			fam := "rnd"
			switch w := r.Intn(12); {
			case w < 5:
				s = c19GenRandom(r)
			case w < 8:
				s, fam = c19GenMerge(r), "mrg"
			case w < 10:
				s, fam = c19GenFaultSweep(r), "flt"
			default:
				s, fam = c19GenOwner(r), "own"
			}
			obs, mons := c19Run(s)
			c.Emit(s, obs, mons, c19Class(s, obs, fam))
		}
	})
	RegisterDump("C19", func() string {
		var sb strings.Builder
		// (1) the index key, evaluated by the repo's own functions on a probe universe:
		//     webhook side = IndexValueForObject(object), controller side = the
		//     IndexerFunc registered by SetupWebhookWithManager applied to a Usage.
		w := c19NewWire(NewStore(nil))
		avs := []string{"ex.org/v1", "ex.org/v1beta1", "ex.org/v2", "other.io/v1", "other.io/v1alpha1", "v1", "", "/", "a/b/c", "apps/v1"}
		kinds := []string{"Thing", "Other"}
		names := []string{"r0", "a.b"}
		sb.WriteString("/-- (apiVersion, kind, name, IndexValueForObject of such an object, index values of a Usage whose spec.of is that reference) -/\n")
		sb.WriteString("def c19IndexProbe : List (String × String × String × String × List String) := [\n")
		first := true
		for _, av := range avs {
			for _, k := range kinds {
				for _, n := range names {
					o := &unstructured.Unstructured{}
					o.SetAPIVersion(av)
					o.SetKind(k)
					o.SetName(n)
					obj := usagehook.IndexValueForObject(o)
					var us []string
					if w.idx.fn != nil {
						us = w.idx.fn(&v1beta1.Usage{Spec: v1beta1.UsageSpec{Of: v1beta1.Resource{APIVersion: av, Kind: k, ResourceRef: &v1beta1.ResourceRef{Name: n}}}})
					}
					if !first {
						sb.WriteString(",\n")
					}
					first = false
					sb.WriteString(fmt.Sprintf("  (%s, %s, %s, %s, %s)", leanStr(av), leanStr(k), leanStr(n), leanStr(obj), leanStrList(us)))
				}
			}
		}
		sb.WriteString("]\n")
		var unres []string
		if w.idx.fn != nil {
			unres = w.idx.fn(&v1beta1.Usage{Spec: v1beta1.UsageSpec{Of: v1beta1.Resource{APIVersion: "ex.org/v1", Kind: "Thing", ResourceSelector: &v1beta1.ResourceSelector{MatchLabels: map[string]string{"a": "b"}}}}})
		}
		sb.WriteString("/-- index values of a Usage whose spec.of has only a selector (not yet resolved) -/\n")
		sb.WriteString("def c19IndexUnresolved : List String := " + leanStrList(unres) + "\n")
		sb.WriteString("def c19IndexField : String := " + leanStr(w.idx.field) + "\n")
		sb.WriteString("def c19InUseIndexKey : String := " + leanStr(usagehook.InUseIndexKey) + "\n")
		// (2) the webhook configuration
		cfg := c19LoadHookCfg()
		sel := []string{}
		for k, v := range cfg.SelMap {
			sel = append(sel, "("+leanStr(k)+", "+leanStr(v)+")")
		}
		sort.Strings(sel)
		sb.WriteString("/-- objectSelector.matchLabels of cluster/webhookconfigurations/usage.yaml -/\n")
		sb.WriteString("def c19HookSelector : List (String × String) := [" + strings.Join(sel, ", ") + "]\n")
		sb.WriteString("def c19HookOperations : List String := " + leanStrList(cfg.Ops) + "\n")
		sb.WriteString("def c19HookGroups : List String := " + leanStrList(cfg.Groups) + "\n")
		sb.WriteString(fmt.Sprintf("def c19HookFailClosed : Bool := %v\n", cfg.Fail && cfg.Err == ""))
		sb.WriteString(fmt.Sprintf("/-- a handler is registered at the path the configuration points to -/\ndef c19HookPathServed : Bool := %v\n", w.handler != nil))
		// (3) constants of the controller
		sb.WriteString("def c19InUseLabelKey : String := " + leanStr(usagectrl.VerifInUseLabelKey) + "\n")
		sb.WriteString("def c19Finalizer : String := " + leanStr(usagectrl.VerifFinalizer) + "\n")
		sb.WriteString("def c19AttemptAnnotation : String := " + leanStr(usagehook.AnnotationKeyDeletionAttempt) + "\n")
		return sb.String()
	})
}

//go:build verif

package main

// C20: initialisation is idempotent and never duplicates or clobbers existing
// state. Drives the REAL initializer steps and initializer.New(...).Init over
// simstore from generated cluster states (empty / partial / full, secrets with
// keys missing), all package reference forms, repeated runs and runs aborted by
// st.Plan at any API call and then repeated.
//
// Files: c20.go (scenario types, init.go mirror, runner, monitors, driver),
// c20_world.go (abstract store <-> simstore objects, TLS material registry,
// certificate generator parameter), c20_gen.go (scenario generator),
// c20_dump.go (tables regenerated from the source tree), c20_peer.go (other
// writers on every object, error classes, their generator), c20_real.go (the
// real cluster/ directories).

import (
	"context"
	"crypto/x509"
	"encoding/json"
	"encoding/pem"
	"fmt"
	"reflect"
	"sort"
	"strings"

	"github.com/google/go-containerregistry/pkg/name"
	"github.com/spf13/afero"
	admv1 "k8s.io/api/admissionregistration/v1"
	corev1 "k8s.io/api/core/v1"
	extv1 "k8s.io/apiextensions-apiserver/pkg/apis/apiextensions/v1"
	"k8s.io/apimachinery/pkg/apis/meta/v1/unstructured"
	"k8s.io/apimachinery/pkg/runtime"
	"k8s.io/apimachinery/pkg/types"

	"github.com/crossplane/crossplane-runtime/pkg/logging"

	"github.com/crossplane/crossplane/internal/initializer"
	"github.com/crossplane/crossplane/internal/xpkg"
)

// ---------------------------------------------------------------- scenario types (shared with lean/Xp/Drv/C20.lean)

// c20Blob is the abstract value of one secret key / caBundle: nil = empty,
// "c" = certificate (key pair kp, signed by key pair by, DNS names, CA flag),
// "k" = RSA private key of key pair kp, "j" = bytes that are neither.
type c20Blob struct {
	T   string   `json:"t"`
	KP  int      `json:"kp"`
	By  int      `json:"by"`
	DNS []string `json:"dns"`
	CA  bool     `json:"ca"`
	N   int      `json:"n"`
}

func (b *c20Blob) MarshalJSON() ([]byte, error) {
	switch b.T {
	case "c":
		dns := b.DNS
		if dns == nil {
			dns = []string{}
		}
		return json.Marshal(map[string]any{"t": "c", "kp": b.KP, "by": b.By, "dns": dns, "ca": b.CA})
	case "k":
		return json.Marshal(map[string]any{"t": "k", "kp": b.KP})
	}
	return json.Marshal(map[string]any{"t": "j", "n": b.N})
}

type c20Secret struct {
	Name   string   `json:"name"`
	Crt    *c20Blob `json:"crt"`
	Key    *c20Blob `json:"key"`
	CA     *c20Blob `json:"ca"`
	Others int      `json:"others"`
	Meta   int      `json:"meta"`
}

// c20Ref is what go-containerregistry makes of an image reference.
type c20Ref struct {
	Reg  string `json:"reg"`
	Repo string `json:"repo"`
	ID   string `json:"id"`
	Dig  bool   `json:"dig"`
	Str  string `json:"str"` // ref.String(): what is written to spec.package
	Src  string `json:"src"` // xpkg.ParsePackageSourceFromReference(ref): the key of the installer's index
}

type c20Pkg struct {
	Kind  string  `json:"kind"` // P C F
	Name  string  `json:"name"`
	Raw   string  `json:"raw"`
	Ref   *c20Ref `json:"ref"`
	Extra int     `json:"extra"`
}

type c20Ver struct {
	N string `json:"n"`
	S bool   `json:"s"`
}

type c20Crd struct {
	Name     string   `json:"name"`
	Content  int      `json:"content"`
	Versions []c20Ver `json:"versions"`
	Conv     bool     `json:"conv"`
	Bundle   *c20Blob `json:"bundle"`
	Stored   []string `json:"stored"`
	Extra    int      `json:"extra"`
}

type c20Svc struct {
	Name string `json:"name"`
	NS   string `json:"ns"`
	Port int    `json:"port"`
}

type c20Hook struct {
	Name   string   `json:"name"`
	Bundle *c20Blob `json:"bundle"`
	Svc    c20Svc   `json:"svc"`
}

type c20Whc struct {
	Kind  string    `json:"kind"` // V M
	Name  string    `json:"name"`
	Hooks []c20Hook `json:"hooks"`
	Extra int       `json:"extra"`
}

type c20Cr struct {
	Crd     string `json:"crd"`
	Name    string `json:"name"`
	Payload int    `json:"payload"`
}

type c20SC struct {
	Scope string `json:"scope"`
	Extra int    `json:"extra"`
}

type c20Store struct {
	Secrets []c20Secret `json:"secrets"`
	Pkgs    []c20Pkg    `json:"pkgs"`
	Crds    []c20Crd    `json:"crds"`
	Whcs    []c20Whc    `json:"whcs"`
	Crs     []c20Cr     `json:"crs"`
	Lock    *int        `json:"lock"`
	SC      *c20SC      `json:"sc"`
	DRC     *int        `json:"drc"`
}

type c20TLSRef struct {
	Name string   `json:"name"`
	DNS  []string `json:"dns"`
}

type c20CrdFile struct {
	Name     string   `json:"name"`
	Content  int      `json:"content"`
	Versions []c20Ver `json:"versions"`
	Conv     bool     `json:"conv"`
	// YAML shape only: 0 webhook+clientConfig, 2 webhook without clientConfig. (1 = no webhook key at all is
	// not generated: the step then sends conversionReviewVersions: null, which a real API server rejects and
	// simstore would store verbatim.)
	WH int `json:"wh"`
}

type c20WhcFile struct {
	Kind  string   `json:"kind"`
	Name  string   `json:"name"`
	Hooks []string `json:"hooks"`
}

type c20FileObj struct {
	T   string      `json:"t"` // crd whc other
	Crd *c20CrdFile `json:"crd"`
	Whc *c20WhcFile `json:"whc"`
}

type c20Dir struct {
	ParseErr bool         `json:"parseErr"`
	Objs     []c20FileObj `json:"objs"`
}

type c20Img struct {
	Img string  `json:"img"`
	Ref *c20Ref `json:"ref"`
}

type c20Step struct {
	T      string     `json:"t"` // tls crds whcs mig lock install sc drc
	CA     string     `json:"ca"`
	Server *c20TLSRef `json:"server"`
	Client *c20TLSRef `json:"client"`
	TLSRef *string    `json:"tlsRef"`
	Dir    *c20Dir    `json:"dir"`
	Svc    *c20Svc    `json:"svc"`
	Crd    string     `json:"crd"`
	Old    string     `json:"old"`
	P      []c20Img   `json:"p"`
	C      []c20Img   `json:"c"`
	F      []c20Img   `json:"f"`
	NS     string     `json:"ns"`
}

// c20Cfg are the fields of core.initCommand.
type c20Cfg struct {
	NS      string   `json:"ns"`
	SA      string   `json:"sa"`
	Webhook bool     `json:"webhook"`
	SvcName string   `json:"svcName"`
	SvcNS   string   `json:"svcNs"`
	SvcPort int      `json:"svcPort"`
	CA      string   `json:"ca"`
	Server  string   `json:"server"`
	Client  string   `json:"client"`
	ESS     string   `json:"ess"`
	P       []c20Img `json:"p"`
	C       []c20Img `json:"c"`
	F       []c20Img `json:"f"`
	CrdDir  c20Dir   `json:"crdDir"`
	WhcDir  c20Dir   `json:"whcDir"`
}

// c20Run is one run of the initializer: a single fault at call K (K<0: none).
// Nonce is the id the next generated key pair gets (an observation, filled in
// by the harness: generated ids are allocated in generation order).
type c20Run struct {
	K     int    `json:"k"`
	O     string `json:"o"`
	Nonce int    `json:"nonce"`
	// Cls refines O == "fail": the class of the error the call is answered with ("" = a generic
	// InternalError): notFound alreadyExists conflictErr forbidden invalid unauthorized tooMany
	// serverTimeout timeout (a transport error that is Temporary()) deadline (context deadline).
	// The model distinguishes notFound / alreadyExists / conflictErr / everything else.
	Cls string `json:"cls"`
	// At (optional): the fault hits the first call of the run whose log line is At ("create:SC:default"), wherever
	// that call comes in this run; the harness then fills in K (-1: no such call). The model only sees K.
	At string `json:"at"`
	// stop (generator only, never serialised): the process dies before call number stop-1 (0 = no stop)
	stop int
}

// c20Peer is interference by a concurrent peer initialiser (a second pod running
// the same init: core / rbac-manager init containers, replicas, rolling update):
// right before API call number Before of run number Run the peer has written
// these secrets (whole objects: an existing secret of that name is replaced and
// gets a new resourceVersion, a missing one is created).
type c20Peer struct {
	Run     int         `json:"run"`
	Before  int         `json:"before"`
	Secrets []c20Secret `json:"secrets"`
	// Ops: what the other writer did to objects other than (or besides) secrets, applied after Secrets.
	Ops []c20Op `json:"ops"`
	// Who: "init" (or empty) = a concurrent initialiser (it obeys every rely of the theorems and never
	// breaks a later run); "user" = any other client (a user, another controller, the garbage collector).
	Who string `json:"who"`
}

// c20Op is one out-of-band change of the cluster by another writer. T: putPkg delPkg putCrd delCrd
// putWhc delWhc putCr delCr lock sc drc delSecret. put* replaces the whole abstract object (created when
// absent); lock / sc / drc set the singleton (N / SC nil = delete it).
type c20Op struct {
	T    string  `json:"t"`
	Pkg  *c20Pkg `json:"pkg"`
	Crd  *c20Crd `json:"crd"`
	Whc  *c20Whc `json:"whc"`
	Cr   *c20Cr  `json:"cr"`
	SC   *c20SC  `json:"sc"`
	N    *int    `json:"n"`
	Kind string  `json:"kind"`
	Name string  `json:"name"`
}

type c20Scn struct {
	Kind  string    `json:"kind"` // init | steps
	NS    string    `json:"ns"`   // namespace of the secrets
	Cfg   *c20Cfg   `json:"cfg"`
	Steps []c20Step `json:"steps"`
	Store c20Store  `json:"store"`
	Runs  []c20Run  `json:"runs"`
	Peer  []c20Peer `json:"peer"`  // writes of a concurrent peer initialiser between our API calls
	Real  bool      `json:"real"`  // use initializer.NewCertGenerator (RSA key generation) instead of the pooled-key generator
	Fresh int       `json:"fresh"` // first id available for generated key pairs
	// Reuse: the step objects are built ONCE for the scenario and Init is called on the same objects in every
	// run (state a step keeps in its struct leaks into the next run; the model stays per run).
	Reuse bool `json:"reuse"`
	// Decoy: look-alike objects the initialiser must neither read nor touch (same secret names in another
	// namespace). Harness only: the model does not know them.
	Decoy bool `json:"decoy"`
}

type c20RunObs struct {
	Res    string   `json:"res"` // ok err crash
	Done   int      `json:"done"`
	Writes int      `json:"writes"`
	Log    []string `json:"log"`
	Store  c20Store `json:"store"`
}

type c20ImgObs struct {
	Img  string `json:"img"`
	OK   bool   `json:"ok"`
	Name string `json:"name"` // xpkg.ToDNSLabel(repository)
	Src  string `json:"src"`  // xpkg.ParsePackageSourceFromReference(ref) (model: parseSource over ref.String())
}

type c20Obs struct {
	Imgs []c20ImgObs `json:"imgs"`
	Runs []c20RunObs `json:"runs"`
}

// ---------------------------------------------------------------- the steps

type c20Logger struct{ done *int }

func (l c20Logger) Info(msg string, _ ...any) {
	if msg == "Step has been completed" {
		*l.done++
	}
}
func (l c20Logger) Debug(string, ...any)             {}
func (l c20Logger) WithValues(...any) logging.Logger { return l }

// c20StepsOfCfg mirrors cmd/crossplane/core/init.go (initCommand.Run) in terms
// of abstract steps. The Lean model carries the same mirror (initSteps) and the
// statement list of the Go function is regenerated into Xp/Gen/C20Init.lean on
// every run, where a theorem compares it with the transcript the two mirrors
// were written from: an edit of init.go breaks that obligation.
func c20StepsOfCfg(c *c20Cfg) []c20Step {
	var steps []c20Step
	tls := c20Step{T: "tls", CA: c.CA, Client: &c20TLSRef{Name: c.Client, DNS: []string{fmt.Sprintf("%s.%s", c.SA, c.NS)}}}
	if c.Webhook {
		tls.Server = &c20TLSRef{Name: c.Server, DNS: initializer.DNSNamesForService(c.SvcName, c.SvcNS)}
	}
	steps = append(steps, tls)
	if c.Webhook {
		ref := c.Server
		steps = append(steps,
			c20Step{T: "crds", TLSRef: &ref, Dir: &c.CrdDir},
			c20Step{T: "whcs", TLSRef: &ref, Svc: &c20Svc{Name: c.SvcName, NS: c.SvcNS, Port: c.SvcPort}, Dir: &c.WhcDir})
	} else {
		steps = append(steps, c20Step{T: "crds", Dir: &c.CrdDir})
	}
	for _, m := range c20Migrators() {
		steps = append(steps, c20Step{T: "mig", Crd: m[0], Old: m[1]})
	}
	if c.ESS != "" {
		steps = append(steps, c20Step{T: "tls", CA: c.CA, Server: &c20TLSRef{Name: c.ESS, DNS: []string{fmt.Sprintf("*.%s", c.NS)}}})
	}
	steps = append(steps, c20Step{T: "lock"}, c20Step{T: "install", P: c.P, C: c.C, F: c.F}, c20Step{T: "sc", NS: c.NS}, c20Step{T: "drc"})
	return steps
}

// c20Migrators: the (crd, old version) pairs of init.go, in order.
func c20Migrators() [][2]string {
	return [][2]string{
		{"compositionrevisions.apiextensions.crossplane.io", "v1alpha1"},
		{"environmentconfigs.apiextensions.crossplane.io", "v1beta1"},
		{"usages.apiextensions.crossplane.io", "v1beta1"},
		{"functions.pkg.crossplane.io", "v1beta1"},
		{"functionrevisions.pkg.crossplane.io", "v1beta1"},
		{"locks.pkg.crossplane.io", "v1alpha1"},
	}
}

func c20Imgs(xs []c20Img) []string {
	out := make([]string, len(xs))
	for i, x := range xs {
		out[i] = x.Img
	}
	return out
}

// c20RealSteps builds the real initializer steps for the abstract step list.
func c20RealSteps(w *c20World, ns string, steps []c20Step) []initializer.Step {
	var out []initializer.Step
	for i, s := range steps {
		switch s.T {
		case "tls":
			opts := []initializer.TLSCertificateGeneratorOption{}
			if s.Client != nil {
				opts = append(opts, initializer.TLSCertificateGeneratorWithClientSecretName(s.Client.Name, s.Client.DNS))
			}
			if s.Server != nil {
				opts = append(opts, initializer.TLSCertificateGeneratorWithServerSecretName(s.Server.Name, s.Server.DNS))
			}
			g := initializer.NewTLSCertificateGenerator(ns, s.CA, opts...)
			initializer.VerifSetCertGenerator(g, w.crypto)
			out = append(out, g)
		case "crds":
			fs := afero.NewMemMapFs()
			c20WriteDir(fs, "/crds", s.Dir, i)
			opts := []initializer.CoreCRDsOption{initializer.WithFs(fs)}
			if s.TLSRef != nil {
				opts = append(opts, initializer.WithWebhookTLSSecretRef(types.NamespacedName{Name: *s.TLSRef, Namespace: ns}))
			}
			out = append(out, initializer.NewCoreCRDs("/crds", w.scheme, opts...))
		case "whcs":
			fs := afero.NewMemMapFs()
			c20WriteDir(fs, "/webhookconfigurations", s.Dir, i)
			port := int32(s.Svc.Port)
			ref := ""
			if s.TLSRef != nil {
				ref = *s.TLSRef
			}
			out = append(out, initializer.NewWebhookConfigurations("/webhookconfigurations", w.scheme,
				types.NamespacedName{Name: ref, Namespace: ns},
				admv1.ServiceReference{Name: s.Svc.Name, Namespace: s.Svc.NS, Port: &port},
				initializer.WithWebhookConfigurationsFs(fs)))
		case "mig":
			out = append(out, initializer.NewCoreCRDsMigrator(s.Crd, s.Old))
		case "lock":
			out = append(out, initializer.NewLockObject())
		case "install":
			out = append(out, initializer.NewPackageInstaller(c20Imgs(s.P), c20Imgs(s.C), c20Imgs(s.F)))
		case "sc":
			out = append(out, initializer.NewStoreConfigObject(s.NS))
		case "drc":
			out = append(out, initializer.StepFunc(initializer.DefaultDeploymentRuntimeConfig))
		}
	}
	return out
}

// ---------------------------------------------------------------- reference parsing (the oracle shipped to the model)

func c20Parse(img string) *c20Ref {
	ref, err := name.ParseReference(img, name.WithDefaultRegistry(""))
	if err != nil {
		return nil
	}
	_, dig := ref.(name.Digest)
	return &c20Ref{Reg: ref.Context().RegistryStr(), Repo: ref.Context().RepositoryStr(), ID: ref.Identifier(), Dig: dig,
		Str: ref.String(), Src: xpkg.ParsePackageSourceFromReference(ref)}
}

func c20ImgObsOf(img string) c20ImgObs {
	ref, err := name.ParseReference(img, name.WithDefaultRegistry(""))
	if err != nil {
		return c20ImgObs{Img: img}
	}
	return c20ImgObs{Img: img, OK: true, Name: xpkg.ToDNSLabel(ref.Context().RepositoryStr()), Src: xpkg.ParsePackageSourceFromReference(ref)}
}

// ---------------------------------------------------------------- runner

func c20OutcomeOf(o string) Outcome {
	switch o {
	case "fail":
		return Fail
	case "conflict":
		return Conflict
	case "crashBefore":
		return CrashBefore
	case "crashAfter":
		return CrashAfter
	}
	return OK
}

// c20PlanAt: the plan of a run whose fault is addressed by log line; *hit is set to the index of the call it hit.
func c20PlanAt(r c20Run, hit *int) func(CallInfo) Outcome {
	*hit = -1
	return func(ci CallInfo) Outcome {
		if *hit < 0 && c20LogLine(ci) == r.At {
			*hit = ci.Index
			return c20OutcomeOf(r.O)
		}
		return OK
	}
}

func c20PlanOf(r c20Run) func(CallInfo) Outcome {
	if r.stop > 0 {
		inner := c20PlanOf(c20Run{K: r.K, O: r.O})
		if r.At != "" {
			hit := -1
			inner = c20PlanAt(r, &hit)
		}
		return func(ci CallInfo) Outcome {
			if ci.Index == r.stop-1 {
				return CrashBefore
			}
			if inner != nil {
				return inner(ci)
			}
			return OK
		}
	}
	if r.K < 0 {
		return nil
	}
	o := OK
	switch r.O {
	case "fail":
		o = Fail
	case "conflict":
		o = Conflict
	case "crashBefore":
		o = CrashBefore
	case "crashAfter":
		o = CrashAfter
	}
	return func(ci CallInfo) Outcome {
		if ci.Index == r.K {
			return o
		}
		return OK
	}
}

var c20Short = map[string]string{
	"Secret":                                                      "S",
	"Provider.pkg.crossplane.io":                                  "P",
	"Configuration.pkg.crossplane.io":                             "C",
	"Function.pkg.crossplane.io":                                  "F",
	"Lock.pkg.crossplane.io":                                      "L",
	"DeploymentRuntimeConfig.pkg.crossplane.io":                   "DRC",
	"StoreConfig.secrets.crossplane.io":                           "SC",
	"CustomResourceDefinition.apiextensions.k8s.io":               "CRD",
	"ValidatingWebhookConfiguration.admissionregistration.k8s.io": "V",
	"MutatingWebhookConfiguration.admissionregistration.k8s.io":   "M",
}

func c20LogLine(ci CallInfo) string {
	k, ok := c20Short[ci.GK]
	if !ok {
		k = "CR"
	}
	v := ci.Verb
	if ci.Sub != "" {
		v += "/" + ci.Sub
	}
	return v + ":" + k + ":" + ci.Name
}

// c20Result of one run of the real initializer.
type c20Result struct {
	obs       c20RunObs
	genN      int // certificates generated during the run
	calls     int
	before    map[string]string
	after     map[string]string
	atHit     int             // the call index a fault addressed by log line hit (-1: none)
	rewritten string          // the error class served instead of an impossible one
	view      *c20PkgView     // packages as listed by the installer / as written by us
	touched   map[string]bool // objects another writer changed during the run
}

func (w *c20World) stepsOf(s *c20Scn) []c20Step {
	if s.Kind == "init" && s.Cfg != nil {
		return c20StepsOfCfg(s.Cfg)
	}
	return s.Steps
}

// runOnce runs initializer.New(...).Init once under the run's plan (run number idx of the scenario:
// the peer writes of that run are applied in simstore's before-the-call window).
func (w *c20World) runOnce(s *c20Scn, idx int, r c20Run, mons *[]Mon) c20Result {
	st := w.st
	st.Revive()
	st.Plan = c20PlanOf(r)
	atHit := -1
	if r.At != "" && r.stop == 0 {
		st.Plan = c20PlanAt(r, &atHit)
	}
	st.Log = nil
	done := 0
	gen0 := w.crypto.calls
	w.touched = nil
	res := c20Result{before: c20Snap(st)}
	res.view = w.watch(s, idx, mons)
	var steps []initializer.Step
	if s.Reuse {
		// long-lived step objects: built once, Init called on the same objects in every run
		if w.steps == nil {
			w.steps = c20RealSteps(w, s.NS, w.stepsOf(s))
		}
		steps = w.steps
	} else {
		steps = c20RealSteps(w, s.NS, w.stepsOf(s))
	}
	cl := &c20Client{Store: st, pre: w.peerAt}
	if (r.K >= 0 || r.At != "") && r.O == "fail" {
		cl.cls = r.Cls
	}
	var err error
	if p := Guard(func() {
		err = initializer.New(cl, c20Logger{&done}, steps...).Init(context.Background())
	}); p != "" {
		*mons = append(*mons, Mon{Sig: "C20:panic", Why: p})
		err = fmt.Errorf("panic")
	}
	st.After = nil
	st.Before = nil
	o := c20RunObs{Done: done, Log: []string{}}
	switch {
	case st.Crashed():
		o.Res = "crash"
		o.Done = 0 // the model has no result for a crashed run
	case err != nil:
		o.Res = "err"
	default:
		o.Res = "ok"
	}
	for _, ci := range st.Log {
		if ci.Err == "crashed" && ci.Outcome == "" {
			continue // issued after the simulated process died
		}
		o.Log = append(o.Log, c20LogLine(ci))
		if ci.Changed {
			o.Writes++
		}
	}
	res.calls = len(o.Log)
	st.Revive()
	o.Store = w.canon(s)
	res.obs = o
	res.genN = w.crypto.calls - gen0
	res.after = c20Snap(st)
	res.rewritten = cl.rewritten
	res.touched = w.touched
	res.atHit = atHit
	return res
}

// c20Snap: byte snapshot of the store without volatile metadata.
func c20Snap(st *Store) map[string]string {
	out := map[string]string{}
	for _, u := range st.All() {
		o := u.DeepCopy()
		md, _ := o.Object["metadata"].(map[string]any)
		delete(md, "managedFields")
		b, _ := json.Marshal(o.Object)
		out[u.GroupVersionKind().GroupKind().String()+"/"+u.GetNamespace()+"/"+u.GetName()] = string(b)
	}
	return out
}

// ---------------------------------------------------------------- monitors evaluated on the real run

func c20SecretMaterial(sec *corev1.Secret) (material, complete bool) {
	c, k, a := len(sec.Data[corev1.TLSCertKey]) != 0, len(sec.Data[corev1.TLSPrivateKeyKey]) != 0, len(sec.Data[initializer.SecretKeyCACert]) != 0
	return c || k || a, c && k
}

// leafDNS returns, for every TLS secret a step of the scenario may issue, the DNS names and usage.
type c20Leaf struct {
	dns    []string
	server bool
}

func c20Leaves(steps []c20Step) (cas map[string]bool, leaves map[string][]c20Leaf) {
	cas, leaves = map[string]bool{}, map[string][]c20Leaf{}
	for _, s := range steps {
		if s.T != "tls" || (s.Server == nil && s.Client == nil) {
			continue
		}
		cas[s.CA] = true
		if s.Server != nil {
			leaves[s.Server.Name] = append(leaves[s.Server.Name], c20Leaf{s.Server.DNS, true})
		}
		if s.Client != nil {
			leaves[s.Client.Name] = append(leaves[s.Client.Name], c20Leaf{s.Client.DNS, false})
		}
	}
	return
}

// c20PkgView: the packages as the installer's List calls of a run saw them (the first List of each kind; the
// "already installed" of the property is judged against THAT, whatever another writer does afterwards) and as
// our own applied writes left them.
type c20PkgView struct {
	listed map[string]map[string]c20Pkg
	ours   map[string]map[string]c20Pkg
}

// stores: (before, after) with the packages of every listed kind replaced by (as listed, as listed + our writes).
// Without another writer that is (start of run, end of run).
func (v *c20PkgView) stores(before, after c20Store) (c20Store, c20Store) {
	if v == nil || len(v.listed) == 0 {
		return before, after
	}
	b, a := before, after
	b.Pkgs, a.Pkgs = []c20Pkg{}, []c20Pkg{}
	for _, kind := range []string{"P", "C", "F"} {
		l, ok := v.listed[kind]
		if !ok {
			for _, p := range before.Pkgs {
				if p.Kind == kind {
					b.Pkgs = append(b.Pkgs, p)
				}
			}
			for _, p := range after.Pkgs {
				if p.Kind == kind {
					a.Pkgs = append(a.Pkgs, p)
				}
			}
			continue
		}
		names := []string{}
		for n := range l {
			names = append(names, n)
		}
		for n := range v.ours[kind] {
			if _, ok := l[n]; !ok {
				names = append(names, n)
			}
		}
		sort.Strings(names)
		for _, n := range names {
			if p, ok := l[n]; ok {
				b.Pkgs = append(b.Pkgs, p)
			}
			if p, ok := v.ours[kind][n]; ok {
				a.Pkgs = append(a.Pkgs, p)
			} else {
				a.Pkgs = append(a.Pkgs, l[n])
			}
		}
	}
	return b, a
}

var c20KindOfGK = map[string]string{"Provider.pkg.crossplane.io": "P", "Configuration.pkg.crossplane.io": "C", "Function.pkg.crossplane.io": "F"}

func (w *c20World) pkgsOfKind(kind string) map[string]c20Pkg {
	out := map[string]c20Pkg{}
	for _, u := range w.st.OfKind(c20PkgGK[kind]) {
		raw, _, _ := unstructured.NestedString(u.Object, "spec", "package")
		out[u.GetName()] = c20Pkg{Kind: kind, Name: u.GetName(), Raw: raw, Ref: c20Parse(raw), Extra: w.pkgExtraOf(kind, u)}
	}
	return out
}

// c20DefaultsSnap: the default objects (Lock, default StoreConfig, default DeploymentRuntimeConfig) as stored.
func c20DefaultsSnap(st *Store) map[string]string {
	out := map[string]string{}
	for k, v := range c20Snap(st) {
		if strings.HasPrefix(k, "StoreConfig.") || strings.HasPrefix(k, "DeploymentRuntimeConfig.") || strings.HasPrefix(k, "Lock.") {
			out[k] = c20StripRV(v)
		}
	}
	return out
}

// c20ForeignOf: the fields of a package / CRD / webhook configuration that the initializer does not declare.
func c20ForeignOf(u *unstructured.Unstructured) map[string]string {
	if _, isPkg := c20KindOfGK[u.GroupVersionKind().GroupKind().String()]; isPkg {
		return c20PkgForeign(u)
	}
	out := map[string]string{}
	if l := u.GetLabels(); len(l) > 0 {
		out["metadata.labels"] = mustJSON(l)
	}
	if a := u.GetAnnotations(); len(a) > 0 {
		out["metadata.annotations"] = mustJSON(a)
	}
	return out
}

// c20ForeignDiff: the names of the undeclared fields that were set and are not what they were (sorted; empty: all
// kept). A field that was not set and is set now is not reported: a real API server would have defaulted it.
func c20ForeignDiff(pre, now map[string]string) []string {
	out := []string{}
	for k, v := range pre {
		if now[k] != v {
			out = append(out, k)
		}
	}
	sort.Strings(out)
	return out
}

// c20BundleRefs: the webhook TLS secret of the CRD / webhook-configuration steps ("" unless there is exactly one),
// and per object key ("CRD/name", "V/name", "M/name") whether EVERY declaration of it asks for the bundle.
func c20BundleRefs(steps []c20Step) (string, map[string]bool) {
	refs := map[string]bool{}
	decl := map[string]bool{}
	for _, st := range steps {
		if (st.T != "crds" && st.T != "whcs") || st.Dir == nil {
			continue
		}
		if st.TLSRef != nil {
			refs[*st.TLSRef] = true
		}
		for _, o := range st.Dir.Objs {
			switch {
			case st.T == "crds" && o.T == "crd":
				k := "CRD/" + o.Crd.Name
				want := o.Crd.Conv && st.TLSRef != nil
				if v, ok := decl[k]; ok {
					decl[k] = v && want
				} else {
					decl[k] = want
				}
			case st.T == "whcs" && o.T == "whc":
				k := o.Whc.Kind + "/" + c20WhcName(o.Whc)
				want := len(o.Whc.Hooks) > 0 && st.TLSRef != nil
				if v, ok := decl[k]; ok {
					decl[k] = v && want
				} else {
					decl[k] = want
				}
			}
		}
	}
	ref := ""
	if len(refs) == 1 {
		for r := range refs {
			ref = r
		}
	}
	return ref, decl
}

// c20LeavesOf: c20Leaves, with the DNS names of the webhook server certificate of an `init` scenario computed
// independently of initializer.DNSNamesForService (which is what the steps handed to the real code were built with).
func c20LeavesOf(s *c20Scn, steps []c20Step) (map[string]bool, map[string][]c20Leaf) {
	cas, leaves := c20Leaves(steps)
	if s.Kind == "init" && s.Cfg != nil && s.Cfg.Webhook && s.Cfg.Server != s.Cfg.Client && s.Cfg.Server != s.Cfg.ESS {
		c := s.Cfg
		leaves[c.Server] = []c20Leaf{{[]string{c.SvcName, c.SvcName + "." + c.SvcNS, c.SvcName + "." + c.SvcNS + ".svc"}, true}}
	}
	return cas, leaves
}

// watch installs the per-call monitors: existing CA / certificates / default objects / foreign fields are never
// rewritten (judged against the object as stored AT THE MOMENT of our write, after whatever another writer
// did), every newly issued certificate verifies (real x509.Verify: supporting evidence at test level, crypto is
// not modelled), and a CRD / webhook configuration we write carries tls.crt of the webhook TLS secret as it is
// stored at that moment. It also lets the other writers of the scenario act in the before-the-call window.
func (w *c20World) watch(s *c20Scn, idx int, mons *[]Mon) *c20PkgView {
	st := w.st
	steps := w.stepsOf(s)
	cas, leaves := c20LeavesOf(s, steps)
	bundleRef, bundleDecl := c20BundleRefs(steps)
	view := &c20PkgView{listed: map[string]map[string]c20Pkg{}, ours: map[string]map[string]c20Pkg{}}
	// the objects as stored at the moment of our write (after whatever the peer did before that call)
	atWrite := map[int]*corev1.Secret{}
	preDefaults := map[int]map[string]string{}
	preForeign := map[int]map[string]string{}
	w.peerAt = func(call int) {
		for i := range s.Peer {
			if s.Peer[i].Run == idx && s.Peer[i].Before == call {
				w.applyPeer(s, &s.Peer[i], steps)
			}
		}
	}
	st.Before = func(ci CallInfo) {
		w.peerAt(ci.Index)
		if kind, ok := c20KindOfGK[ci.GK]; ok && ci.Verb == "list" {
			if _, seen := view.listed[kind]; !seen {
				view.listed[kind] = w.pkgsOfKind(kind)
			}
		}
		if !ci.IsWrite() {
			return
		}
		switch ci.GK {
		case "Secret":
			if u := st.Peek(c20GKSecret, ci.NS, ci.Name); u != nil {
				sec := &corev1.Secret{}
				_ = runtime.DefaultUnstructuredConverter.FromUnstructured(u.Object, sec)
				atWrite[ci.Index] = sec
			}
		case "StoreConfig.secrets.crossplane.io", "DeploymentRuntimeConfig.pkg.crossplane.io", "Lock.pkg.crossplane.io":
			preDefaults[ci.Index] = c20DefaultsSnap(st)
		default:
			if k, ok := c20Short[ci.GK]; ok && k != "S" {
				for _, u := range st.All() {
					if u.GroupVersionKind().GroupKind().String() == ci.GK && u.GetName() == ci.Name {
						preForeign[ci.Index] = c20ForeignOf(u)
					}
				}
			}
		}
	}
	seen := map[string]bool{}
	add := func(sig, why string) {
		if !seen[sig+why] {
			seen[sig+why] = true
			*mons = append(*mons, Mon{Sig: sig, Why: why})
		}
	}
	st.After = func(ci CallInfo) {
		if !ci.IsWrite() || !ci.Applied {
			return
		}
		switch ci.GK {
		case "Secret":
			u := st.Peek(c20GKSecret, ci.NS, ci.Name)
			old := atWrite[ci.Index]
			if u == nil {
				if old != nil {
					mat, complete := c20SecretMaterial(old)
					if cas[ci.Name] && complete {
						add("C20:ca-regenerated", "a CA secret ("+ci.Name+") that was complete at the moment of the call was deleted")
					} else if !cas[ci.Name] && mat {
						add("C20:cert-regenerated", "TLS secret "+ci.Name+" held certificate material at the moment of the call and was deleted")
					}
				}
				return
			}
			sec := &corev1.Secret{}
			_ = runtime.DefaultUnstructuredConverter.FromUnstructured(u.Object, sec)
			if ci.NS != s.NS {
				add("C20:foreign-object-touched", "a secret ("+ci.NS+"/"+ci.Name+") outside the configured namespace was written")
				return
			}
			if old != nil && !reflect.DeepEqual(old.Data, sec.Data) {
				mat, complete := c20SecretMaterial(old)
				if cas[ci.Name] && complete {
					add("C20:ca-regenerated", "a CA secret ("+ci.Name+") that was complete at the moment of the write was rewritten")
				} else if !cas[ci.Name] && mat {
					add("C20:cert-regenerated", "TLS secret "+ci.Name+" held certificate material at the moment of the write and was rewritten")
				}
			}
			if ls, ok := leaves[ci.Name]; ok && !cas[ci.Name] && ci.Changed {
				w.verifyLeaf(st, ci.NS, sec, steps, ls, add)
				w.issued[ci.Name] = "this run"
			}
			if cas[ci.Name] && ci.Changed {
				w.verifyCA(sec, add)
			}
		case "StoreConfig.secrets.crossplane.io", "DeploymentRuntimeConfig.pkg.crossplane.io", "Lock.pkg.crossplane.io":
			now := c20DefaultsSnap(st)
			for k, b := range preDefaults[ci.Index] {
				if v, ok := now[k]; !ok || b != v {
					add("C20:default-clobbered", "default object "+k+", which existed at the moment of the call, was modified")
				}
			}
		default:
			k, ok := c20Short[ci.GK]
			if !ok {
				return
			}
			var cur *unstructured.Unstructured
			for _, u := range st.All() {
				if u.GroupVersionKind().GroupKind().String() == ci.GK && u.GetName() == ci.Name {
					cur = u
				}
			}
			if pre, had := preForeign[ci.Index]; had {
				var changed []string
				if cur == nil {
					changed = []string{"the object (deleted)"}
				} else {
					changed = c20ForeignDiff(pre, c20ForeignOf(cur))
				}
				if kind, isPkg := c20KindOfGK[ci.GK]; isPkg && len(changed) > 0 {
					add("C20:package-clobbered", "fields of "+kind+"/"+ci.Name+" that the installer does not declare (as stored at the moment of the call) were changed: "+strings.Join(changed, ", "))
				} else if len(changed) > 0 {
					add("C20:foreign-field-clobbered", "fields of "+k+"/"+ci.Name+" that the initializer does not declare (as stored at the moment of the call) were changed: "+strings.Join(changed, ", "))
				}
			}
			if cur == nil {
				return
			}
			if kind, isPkg := c20KindOfGK[ci.GK]; isPkg {
				if view.ours[kind] == nil {
					view.ours[kind] = map[string]c20Pkg{}
				}
				view.ours[kind][ci.Name] = w.pkgsOfKind(kind)[ci.Name]
				return
			}
			// the CA bundle we have just written is tls.crt of the webhook TLS secret as stored right now
			if bundleRef == "" || !bundleDecl[k+"/"+ci.Name] || ci.Sub != "" {
				return
			}
			var crt []byte
			if su := st.Peek(c20GKSecret, s.NS, bundleRef); su != nil {
				sec := &corev1.Secret{}
				_ = runtime.DefaultUnstructuredConverter.FromUnstructured(su.Object, sec)
				crt = sec.Data[corev1.TLSCertKey]
			}
			for _, b := range c20BundlesOf(cur) {
				if len(crt) == 0 || string(b) != string(crt) {
					add("C20:ca-bundle-missing", k+"/"+ci.Name+" was written with a CA bundle that is not tls.crt of the webhook TLS secret as stored at that moment")
				}
			}
		}
	}
	return view
}

// c20BundlesOf: every caBundle a stored CRD / webhook configuration carries ([nil] for a CRD without one).
func c20BundlesOf(u *unstructured.Unstructured) [][]byte {
	out := [][]byte{}
	switch u.GetKind() {
	case "CustomResourceDefinition":
		crd := &extv1.CustomResourceDefinition{}
		c20From(u, crd)
		var b []byte
		if c := crd.Spec.Conversion; c != nil && c.Webhook != nil && c.Webhook.ClientConfig != nil {
			b = c.Webhook.ClientConfig.CABundle
		}
		out = append(out, b)
	case "ValidatingWebhookConfiguration":
		o := &admv1.ValidatingWebhookConfiguration{}
		c20From(u, o)
		for _, h := range o.Webhooks {
			out = append(out, h.ClientConfig.CABundle)
		}
	case "MutatingWebhookConfiguration":
		o := &admv1.MutatingWebhookConfiguration{}
		c20From(u, o)
		for _, h := range o.Webhooks {
			out = append(out, h.ClientConfig.CABundle)
		}
	}
	return out
}

// c20Content: snapshot without resourceVersion / generation (content equality).
func c20Content(m map[string]string) map[string]string {
	out := map[string]string{}
	for k, v := range m {
		out[k] = c20StripRV(v)
	}
	return out
}

func c20StripRV(s string) string {
	var m map[string]any
	_ = json.Unmarshal([]byte(s), &m)
	if md, ok := m["metadata"].(map[string]any); ok {
		delete(md, "resourceVersion")
		delete(md, "generation")
	}
	b, _ := json.Marshal(m)
	return string(b)
}

func c20ParseCertPEM(b []byte) *x509.Certificate {
	blk, _ := pem.Decode(b)
	if blk == nil {
		return nil
	}
	c, err := x509.ParseCertificate(blk.Bytes)
	if err != nil {
		return nil
	}
	return c
}

func (w *c20World) verifyCA(sec *corev1.Secret, add func(sig, why string)) {
	c := c20ParseCertPEM(sec.Data[corev1.TLSCertKey])
	if c == nil || !c.IsCA {
		add("C20:ca-invalid", "generated CA certificate does not parse or is not a CA")
		return
	}
	if _, err := initializer.VerifParseSigner(sec.Data[corev1.TLSPrivateKeyKey], sec.Data[corev1.TLSCertKey]); err != nil {
		add("C20:ca-invalid", "generated CA secret cannot be loaded again: "+err.Error())
	}
}

// verifyLeaf: x509.Verify of a just-written leaf secret against the CA secret stored at that instant.
func (w *c20World) verifyLeaf(st *Store, ns string, sec *corev1.Secret, steps []c20Step, ls []c20Leaf, add func(sig, why string)) {
	leaf := c20ParseCertPEM(sec.Data[corev1.TLSCertKey])
	if leaf == nil {
		add("C20:cert-not-chained", "issued tls.crt of "+sec.Name+" does not parse")
		return
	}
	var caName string
	for _, s := range steps {
		if s.T == "tls" {
			caName = s.CA
		}
	}
	cu := st.Peek(c20GKSecret, ns, caName)
	if cu == nil {
		add("C20:cert-not-chained", "certificate issued for "+sec.Name+" but no CA secret is stored")
		return
	}
	ca := &corev1.Secret{}
	_ = runtime.DefaultUnstructuredConverter.FromUnstructured(cu.Object, ca)
	if string(sec.Data[initializer.SecretKeyCACert]) != string(ca.Data[corev1.TLSCertKey]) {
		add("C20:cert-not-chained", "ca.crt of "+sec.Name+" is not the stored CA certificate")
	}
	pool := x509.NewCertPool()
	if !pool.AppendCertsFromPEM(ca.Data[corev1.TLSCertKey]) {
		add("C20:cert-not-chained", "stored CA certificate does not parse")
		return
	}
	// the leaf must verify for the configuration of at least one step that writes this secret
	var lastErr string
	for _, l := range ls {
		usage := x509.ExtKeyUsageClientAuth
		if l.server {
			usage = x509.ExtKeyUsageServerAuth
		}
		ok := true
		if _, err := leaf.Verify(x509.VerifyOptions{Roots: pool, KeyUsages: []x509.ExtKeyUsage{usage}}); err != nil {
			ok, lastErr = false, "x509.Verify: "+err.Error()
		}
		for _, d := range l.dns {
			host := strings.Replace(d, "*", "anyhost", 1)
			if err := leaf.VerifyHostname(host); err != nil {
				ok = false
				add("C20:dns-not-covered", "certificate issued for "+sec.Name+" does not cover a configured DNS name")
			}
		}
		if ok {
			return
		}
	}
	if lastErr != "" {
		add("C20:cert-not-chained", "certificate issued for "+sec.Name+" does not verify against the stored CA ("+lastErr+")")
	}
}

type c20RegRepo struct{ kind, name string }

// c20WrittenName is the monitor's own notion of "the image repository, for any
// registry host": the reference as written with "@digest" and ":tag" cut off -
// the doc comment of xpkg.ParsePackageSourceFromReference ("the identifier (tag
// or digest) stripped and no other changes"), implemented independently.
func c20WrittenName(img string) string {
	s, _, _ := strings.Cut(img, "@")
	if i := strings.LastIndex(s, ":"); i > strings.LastIndex(s, "/") {
		s = s[:i]
	}
	return s
}

func c20PkgIndex(st c20Store) map[c20RegRepo][]c20Pkg {
	idx := map[c20RegRepo][]c20Pkg{}
	for _, p := range st.Pkgs {
		if r := c20Parse(p.Raw); r != nil {
			k := c20RegRepo{p.Kind, c20WrittenName(p.Raw)}
			idx[k] = append(idx[k], p)
		}
	}
	return idx
}

func c20Names(ps []c20Pkg) []string {
	out := []string{}
	for _, p := range ps {
		out = append(out, p.Name)
	}
	return out
}

// c20PostMonitors: end-of-run monitors.
func (w *c20World) postMonitors(s *c20Scn, before c20Store, res c20Result, mons *[]Mon) {
	steps := w.stepsOf(s)
	after := res.obs.Store
	add := func(sig, why string) { *mons = append(*mons, Mon{Sig: sig, Why: why}) }
	// packages: at every outcome, an image whose (registry host, repository) was installed is never installed under a second name.
	// "Was installed" = as the installer's List saw it; "now" = that plus our own writes (another writer's packages are not ours).
	pb, pa := res.view.stores(before, after)
	otherWriter := len(res.touched) > 0
	bi, ai := c20PkgIndex(pb), c20PkgIndex(pa)
	installs := 0
	for _, st := range steps {
		if st.T == "install" {
			installs++
		}
	}
	for _, st := range steps {
		if st.T != "install" {
			continue
		}
		for _, ki := range []struct {
			kind string
			imgs []c20Img
		}{{"P", st.P}, {"C", st.C}, {"F", st.F}} {
			kind := ki.kind
			for i, im := range ki.imgs {
				r := c20Parse(im.Img)
				if r == nil {
					continue
				}
				k := c20RegRepo{kind, c20WrittenName(im.Img)}
				// the index of an installed package and the lookup of a requested image agree on the "source"?
				sameSrc := func(r *c20Ref) bool {
					for _, b := range bi[k] {
						if br := c20Parse(b.Raw); br != nil && br.Src == r.Src {
							return true
						}
					}
					return false
				}
				if len(bi[k]) > 0 && len(ai[k]) > len(bi[k]) {
					// D9 shape: every requested image of this name had its source in the index, yet one was installed
					// again. Otherwise: the repo's "source" strings differ for one image name as written (D14 shape).
					sig := "C20:duplicate-package"
					for _, other := range ki.imgs {
						if or := c20Parse(other.Img); or != nil && c20WrittenName(other.Img) == k.name && !sameSrc(or) {
							sig = "C20:duplicate-package-source-parse"
						}
					}
					add(sig, fmt.Sprintf("image %q: its registry/repository was already installed as %v, now installed as %v", im.Img, c20Names(bi[k]), c20Names(ai[k])))
				}
				// updated in place (only judged when no other requested image competes for the same object)
				contested := false
				for j, other := range ki.imgs {
					if or := c20Parse(other.Img); j != i && or != nil {
						if or.Repo == r.Repo || xpkg.ToDNSLabel(or.Repo) == xpkg.ToDNSLabel(r.Repo) {
							contested = true
						}
						for _, b := range bi[k] {
							if b.Name == xpkg.ToDNSLabel(or.Repo) {
								contested = true
							}
						}
					}
				}
				if len(bi[k]) > 0 && res.obs.Res == "ok" && !contested && installs == 1 {
					found := false
					for _, p := range pa.Pkgs {
						for _, b := range bi[k] {
							if p.Kind == kind && p.Name == b.Name && p.Raw == r.Str {
								found = true
							}
						}
					}
					if !found && sameSrc(r) {
						add("C20:package-not-updated-in-place", fmt.Sprintf("image %q was not applied to the object that had it installed", im.Img))
					} else if !found {
						add("C20:duplicate-package-source-parse", fmt.Sprintf("image %q was not applied to the object that had it installed (their \"source\" strings differ)", im.Img))
					}
				}
			}
		}
	}
	// foreign fields of existing packages / CRDs / webhook configurations survive (at rest; the per-write monitors of
	// `watch` judge the same at the moment of every write, which is what counts when another writer is around)
	if !otherWriter {
		for _, p := range before.Pkgs {
			for _, q := range after.Pkgs {
				if p.Kind == q.Kind && p.Name == q.Name && p.Extra != q.Extra && p.Extra != 0 {
					add("C20:package-clobbered", "fields of "+p.Name+" that the installer does not declare were changed")
				}
			}
		}
		// ... per field, on the stored bytes
		for k, bv := range res.before {
			av, ok := res.after[k]
			if !ok || !(strings.HasPrefix(k, "Provider.") || strings.HasPrefix(k, "Configuration.") || strings.HasPrefix(k, "Function.")) {
				continue
			}
			bu, au := &unstructured.Unstructured{}, &unstructured.Unstructured{}
			if json.Unmarshal([]byte(bv), &bu.Object) != nil || json.Unmarshal([]byte(av), &au.Object) != nil {
				continue
			}
			if ch := c20ForeignDiff(c20PkgForeign(bu), c20PkgForeign(au)); len(ch) > 0 {
				add("C20:package-clobbered", "after the run these fields of "+k+", which the installer does not declare, are not what they were: "+strings.Join(ch, ", "))
			}
		}
		for _, p := range before.Crds {
			for _, q := range after.Crds {
				if p.Name == q.Name && p.Extra != q.Extra {
					add("C20:foreign-field-clobbered", "labels of CRD "+p.Name+" were changed")
				}
			}
		}
		for _, p := range before.Whcs {
			for _, q := range after.Whcs {
				if p.Kind == q.Kind && p.Name == q.Name && p.Extra != q.Extra {
					add("C20:foreign-field-clobbered", "labels of webhook configuration "+p.Name+" were changed")
				}
			}
		}
		if !reflect.DeepEqual(before.Crs, after.Crs) {
			add("C20:foreign-field-clobbered", "custom resources were changed")
		}
	}
	if res.obs.Res != "ok" {
		return
	}
	// CA bundle: after a completed run every declared webhook-conversion CRD and webhook configuration carries tls.crt of the TLS secret
	for i, st := range steps {
		if (st.T != "crds" && st.T != "whcs") || st.TLSRef == nil {
			continue
		}
		// a later TLS step could change the secret: compare with the final store (the property says "end up carrying the current bundle")
		_ = i
		var bundle *c20Blob
		for _, sec := range after.Secrets {
			if sec.Name == *st.TLSRef {
				bundle = sec.Crt
			}
		}
		if res.touched["S/"+*st.TLSRef] {
			continue // another writer changed the webhook TLS secret during this run: judged at the moment of our writes
		}
		if bundle == nil {
			add("C20:ca-bundle-missing", "run completed but the webhook TLS secret has no tls.crt")
			continue
		}
		for _, o := range st.Dir.Objs {
			switch {
			case st.T == "crds" && o.T == "crd" && res.touched["CRD/"+o.Crd.Name]:
			case st.T == "whcs" && o.T == "whc" && res.touched[o.Whc.Kind+"/"+c20WhcName(o.Whc)]:
			case st.T == "crds" && o.T == "crd" && o.Crd.Conv:
				ok := false
				for _, c := range after.Crds {
					if c.Name == o.Crd.Name && reflect.DeepEqual(c.Bundle, bundle) {
						ok = true
					}
				}
				if !ok {
					add("C20:ca-bundle-missing", "CRD "+o.Crd.Name+" does not carry the current CA bundle")
				}
			case st.T == "whcs" && o.T == "whc" && len(o.Whc.Hooks) > 0:
				nm := c20WhcName(o.Whc)
				ok := false
				for _, c := range after.Whcs {
					if c.Kind == o.Whc.Kind && c.Name == nm {
						ok = true
						for _, h := range c.Hooks {
							// per entry: the current bundle AND the configured service
							if !reflect.DeepEqual(h.Bundle, bundle) {
								ok = false
								add("C20:ca-bundle-missing", "webhook "+h.Name+" of configuration "+nm+" does not carry the current CA bundle")
							} else if st.Svc != nil && h.Svc != *st.Svc {
								add("C20:ca-bundle-missing", "webhook "+h.Name+" of configuration "+nm+" does not point to the configured service")
							}
						}
					}
				}
				if !ok {
					add("C20:ca-bundle-missing", "webhook configuration "+nm+" does not carry the current CA bundle")
				}
			}
		}
	}
	// the stored webhook list is the manifest's: what a run against a fresh cluster produces (entries left by another
	// version or a third party are gone, the order is the manifest's). Expected = the last declaration, over all
	// webhook-configuration steps in order, of that configuration that declares webhooks (a declaration without
	// webhooks leaves the list alone).
	want := map[string][]string{}
	for _, st := range steps {
		if st.T != "whcs" || st.Dir == nil {
			continue
		}
		for _, o := range st.Dir.Objs {
			if o.T == "whc" && len(o.Whc.Hooks) > 0 {
				want[o.Whc.Kind+"/"+c20WhcName(o.Whc)] = o.Whc.Hooks
			}
		}
	}
	for _, c := range after.Whcs {
		wh, ok := want[c.Kind+"/"+c.Name]
		if !ok || res.touched[c.Kind+"/"+c.Name] {
			continue
		}
		got := []string{}
		for _, h := range c.Hooks {
			got = append(got, h.Name)
		}
		if !reflect.DeepEqual(got, wh) {
			add("C20:webhook-entries-differ-from-manifest", fmt.Sprintf("webhook configuration %s/%s holds the entries %v after a completed run, the manifest declares %v", c.Kind, c.Name, got, wh))
		}
	}
}

func c20WhcName(f *c20WhcFile) string {
	if f.Kind == "M" || f.Name == "validating-webhook-configuration" {
		return "crossplane"
	}
	return f.Name
}

// ---------------------------------------------------------------- one scenario

func c20RunScn(s *c20Scn) (c20Obs, []Mon) {
	var mons []Mon
	w := c20NewWorld(s)
	obs := c20Obs{Imgs: []c20ImgObs{}, Runs: []c20RunObs{}}
	for _, st := range w.stepsOf(s) {
		if st.T == "install" {
			for _, l := range [][]c20Img{st.P, st.C, st.F} {
				for _, im := range l {
					obs.Imgs = append(obs.Imgs, c20ImgObsOf(im.Img))
				}
			}
		}
	}
	for _, p := range s.Store.Pkgs {
		obs.Imgs = append(obs.Imgs, c20ImgObsOf(p.Raw))
	}
	// would a fault-free run from the very first state complete? (used by the crash-then-rerun monitor)
	baseline := ""
	{
		s2 := *s
		w2 := c20NewWorld(&s2)
		var junk []Mon
		baseline = w2.runOnce(&s2, -1, c20Run{K: -1}, &junk).obs.Res // idx -1: without the peer
	}
	prev := c20Result{}
	aborted := false
	userActed := false // a writer that is not an initialiser has acted: a later run may fail for reasons of its own
	for i := range s.Runs {
		s.Runs[i].Nonce = w.crypto.next
		before := w.canon(s)
		res := w.runOnce(s, i, s.Runs[i], &mons)
		if s.Runs[i].At != "" {
			s.Runs[i].K = res.atHit
		}
		if res.rewritten != "" {
			s.Runs[i].Cls = res.rewritten
		}
		w.postMonitors(s, before, res, &mons)
		w.chainMonitor(s, &mons)
		w.restMonitor(s, before, res, &mons)
		for _, p := range s.Peer {
			if p.Run == i && p.Before < res.calls && p.Who == "user" {
				userActed = true
			}
		}
		// "fault free" for the idempotence / re-run monitors: no injected fault AND no other writer acting during the run
		faultFree := (s.Runs[i].K < 0 || s.Runs[i].K >= res.calls) && !c20HasPeer(s, i, res.calls)
		// the reference run was not lied to (a NotFound / AlreadyExists the server made up lets a run "complete" without its work)
		// ... and no writer other than an initialiser working on the TLS secrets acted during it (what a concurrent
		// initialiser writes to a protected secret stays; a package version or a CRD it wrote is ours to overwrite)
		prevHonest := i > 0 && (!c20Lie(s.Runs[i-1]) || s.Runs[i-1].K >= prev.calls) && !c20HasOps(s, i-1, prev.calls)
		if i > 0 && prev.obs.Res == "ok" && res.obs.Res == "ok" && faultFree && prevHonest {
			// Two declarations that resolve to one object (two requested images with one object name, two files
			// with one name) overwrite each other on every run: then only the content is compared, and for
			// packages (whose name resolution depends on the sources stored at the start of the run) nothing.
			contested, pkgContested := c20Contested(res.obs.Log)
			_, prevPkgContested := c20Contested(prev.obs.Log)
			a, b := c20Content(prev.after), c20Content(res.after)
			if pkgContested || prevPkgContested {
				for _, m := range []map[string]string{a, b} {
					for k := range m {
						if strings.HasPrefix(k, "Provider.") || strings.HasPrefix(k, "Configuration.") || strings.HasPrefix(k, "Function.") {
							delete(m, k)
						}
					}
				}
			}
			if !reflect.DeepEqual(a, b) {
				why := "a second complete run changed the store:"
				for k, v := range b {
					if a[k] != v {
						why += fmt.Sprintf(" %s: %s -> %s;", k, a[k], v)
					}
				}
				mons = append(mons, Mon{Sig: "C20:not-idempotent", Why: why})
			}
			if res.obs.Writes != 0 && !contested {
				mons = append(mons, Mon{Sig: "C20:not-idempotent", Why: fmt.Sprintf("a second complete run performed %d changing writes", res.obs.Writes)})
			}
			if res.genN != 0 {
				mons = append(mons, Mon{Sig: "C20:not-idempotent", Why: "a second complete run generated certificates"})
			}
		}
		if i > 0 && prev.obs.Res == "ok" && faultFree && prevHonest && res.obs.Res != "ok" {
			mons = append(mons, Mon{Sig: "C20:not-idempotent", Why: "a run after a completed run failed"})
		}
		if aborted && faultFree && baseline == "ok" && !userActed && res.obs.Res != "ok" {
			mons = append(mons, Mon{Sig: "C20:rerun-failed", Why: "a fault-free run after an aborted run failed although initialisation of the original cluster succeeds"})
		}
		if res.obs.Res != "ok" {
			aborted = true
		}
		obs.Runs = append(obs.Runs, res.obs)
		prev = res
	}
	if s.Decoy && !reflect.DeepEqual(w.decoys, c20DecoySnap(w.st)) {
		mons = append(mons, Mon{Sig: "C20:foreign-object-touched", Why: "a secret of the same name in ANOTHER namespace was modified"})
	}
	return obs, mons
}

// restMonitor (end of every run, at rest): every TLS secret that was protected when the run started (a complete
// CA secret; a certificate secret holding any of tls.crt / tls.key / ca.crt) and that no other writer touched
// during the run holds byte for byte the same data - however the run got there (update, patch, delete + create).
func (w *c20World) restMonitor(s *c20Scn, before c20Store, res c20Result, mons *[]Mon) {
	cas, _ := c20Leaves(w.stepsOf(s))
	data := func(snap map[string]string, name string) (string, bool) {
		v, ok := snap["Secret/"+s.NS+"/"+name]
		if !ok {
			return "", false
		}
		var m map[string]any
		_ = json.Unmarshal([]byte(v), &m)
		b, _ := json.Marshal(m["data"])
		return string(b), true
	}
	for _, x := range before.Secrets {
		if !c20Protected(cas, x) || res.touched["S/"+x.Name] || strings.Contains(x.Name, "/") {
			continue
		}
		b, _ := data(res.before, x.Name)
		a, ok := data(res.after, x.Name)
		if ok && a == b {
			continue
		}
		if cas[x.Name] {
			*mons = append(*mons, Mon{Sig: "C20:ca-regenerated", Why: "CA secret " + x.Name + " was complete when the run started and holds other data (or is gone) when it ended"})
		} else {
			*mons = append(*mons, Mon{Sig: "C20:cert-regenerated", Why: "TLS secret " + x.Name + " held certificate material when the run started and holds other data (or is gone) when it ended"})
		}
	}
}

// c20HasOps: another writer changed something other than the content of a secret during run i.
func c20HasOps(s *c20Scn, i, calls int) bool {
	for _, p := range s.Peer {
		if p.Run == i && p.Before < calls && len(p.Ops) > 0 {
			return true
		}
	}
	return false
}

// c20HasPeer: a peer write of run i falls before one of the calls the run issued.
func c20HasPeer(s *c20Scn, i, calls int) bool {
	for _, p := range s.Peer {
		if p.Run == i && p.Before < calls && len(p.Secrets)+len(p.Ops) > 0 {
			return true
		}
	}
	return false
}

// chainMonitor (end of every run): every leaf certificate that was issued during the scenario - by one of
// our runs, or by the peer while a complete CA was stored and the certificate verified against it - still
// verifies (real x509) against the CA certificate that is stored NOW. An initialiser that regenerates or
// overwrites an existing CA leaves such certificates behind, chained to an authority that no longer exists.
func (w *c20World) chainMonitor(s *c20Scn, mons *[]Mon) {
	st := w.st
	steps := w.stepsOf(s)
	_, leaves := c20Leaves(steps)
	names := []string{}
	for n := range w.issued {
		names = append(names, n)
	}
	sort.Strings(names)
	for _, n := range names {
		u := st.Peek(c20GKSecret, s.NS, n)
		if u == nil {
			continue
		}
		sec := &corev1.Secret{}
		_ = runtime.DefaultUnstructuredConverter.FromUnstructured(u.Object, sec)
		if why := w.leafChains(st, s.NS, sec, c20CAOf(steps, n), leaves[n]); why != "" {
			*mons = append(*mons, Mon{Sig: "C20:leaf-does-not-chain", Why: "TLS secret " + n + " (issued by " + w.issued[n] + ") at the end of the run: " + why})
		}
	}
}

// c20CAOf: the CA secret of the TLS step that configures leaf secret `name`.
func c20CAOf(steps []c20Step, name string) string {
	ca := ""
	for _, s := range steps {
		if s.T != "tls" {
			continue
		}
		if ca == "" {
			ca = s.CA
		}
		if (s.Server != nil && s.Server.Name == name) || (s.Client != nil && s.Client.Name == name) {
			return s.CA
		}
	}
	return ca
}

// leafChains: "" if tls.crt of `sec` verifies (x509, for one of its configured usages) against tls.crt of the
// stored CA secret and ca.crt of `sec` is that certificate; otherwise why not.
func (w *c20World) leafChains(st *Store, ns string, sec *corev1.Secret, caName string, ls []c20Leaf) string {
	leaf := c20ParseCertPEM(sec.Data[corev1.TLSCertKey])
	if leaf == nil {
		return "tls.crt does not parse"
	}
	cu := st.Peek(c20GKSecret, ns, caName)
	if cu == nil {
		return "no CA secret " + caName + " is stored"
	}
	ca := &corev1.Secret{}
	_ = runtime.DefaultUnstructuredConverter.FromUnstructured(cu.Object, ca)
	pool := x509.NewCertPool()
	if !pool.AppendCertsFromPEM(ca.Data[corev1.TLSCertKey]) {
		return "tls.crt of the stored CA secret does not parse"
	}
	if string(sec.Data[initializer.SecretKeyCACert]) != string(ca.Data[corev1.TLSCertKey]) {
		return "its ca.crt is not the certificate stored in " + caName
	}
	usages := []x509.ExtKeyUsage{}
	for _, l := range ls {
		if l.server {
			usages = append(usages, x509.ExtKeyUsageServerAuth)
		} else {
			usages = append(usages, x509.ExtKeyUsageClientAuth)
		}
	}
	if len(usages) == 0 {
		usages = []x509.ExtKeyUsage{x509.ExtKeyUsageAny}
	}
	if _, err := leaf.Verify(x509.VerifyOptions{Roots: pool, KeyUsages: usages}); err != nil {
		return "does not chain to the CA stored in " + caName + " (x509.Verify: " + err.Error() + ")"
	}
	return ""
}

// c20Contested: some object is written twice in one run (any kind / a package kind).
func c20Contested(log []string) (any, pkg bool) {
	seen := map[string]bool{}
	for _, l := range log {
		p := strings.SplitN(l, ":", 2)
		if len(p) != 2 || (p[0] != "patch" && p[0] != "create") {
			continue
		}
		if seen[p[1]] {
			any = true
			if strings.HasPrefix(p[1], "P:") || strings.HasPrefix(p[1], "C:") || strings.HasPrefix(p[1], "F:") {
				pkg = true
			}
		}
		seen[p[1]] = true
	}
	return
}

func c20Cls(s *c20Scn, o c20Obs) string {
	parts := []string{s.Kind}
	if s.Kind == "steps" {
		seen, ts := map[string]bool{}, []string{}
		for _, st := range s.Steps {
			if !seen[st.T] {
				seen[st.T] = true
				ts = append(ts, st.T)
			}
		}
		sort.Strings(ts)
		parts = append(parts, strings.Join(ts, "+"))
	}
	rs := []string{}
	for i, r := range s.Runs {
		x := "nofault"
		if r.K >= 0 {
			x = r.O
			if r.O == "fail" && r.Cls != "" {
				x += "." + r.Cls
			}
		}
		if i < len(o.Runs) {
			x += ">" + o.Runs[i].Res
		}
		rs = append(rs, x)
	}
	parts = append(parts, strings.Join(rs, ","))
	for _, p := range s.Peer {
		// which of our calls the peer got in front of
		at := "none"
		if p.Run < len(o.Runs) && p.Before < len(o.Runs[p.Run].Log) {
			l := strings.SplitN(o.Runs[p.Run].Log[p.Before], ":", 3)
			at = l[0] + ":" + l[1]
		}
		who := "peer"
		if p.Who != "" {
			who = p.Who
		}
		if len(p.Ops) > 0 {
			parts = append(parts, fmt.Sprintf("%s@%s(%d+%dops)", who, at, len(p.Secrets), len(p.Ops)))
		} else {
			parts = append(parts, fmt.Sprintf("%s@%s(%d)", who, at, len(p.Secrets)))
		}
	}
	if s.Reuse {
		parts = append(parts, "reuse")
	}
	if s.Decoy {
		parts = append(parts, "decoy")
	}
	n := len(s.Store.Secrets) + len(s.Store.Pkgs) + len(s.Store.Crds) + len(s.Store.Whcs)
	switch {
	case n == 0:
		parts = append(parts, "cluster=empty")
	case n < 4:
		parts = append(parts, "cluster=partial")
	default:
		parts = append(parts, "cluster=full")
	}
	// state of the TLS secrets the steps will look at
	cas, leaves := c20Leaves((&c20World{}).stepsOf(s))
	ca, leaf := "none", "none"
	for _, sec := range s.Store.Secrets {
		switch {
		case cas[sec.Name]:
			switch {
			case sec.Crt != nil && sec.Key != nil && sec.Crt.T == "c" && sec.Key.T == "k" && sec.Crt.KP == sec.Key.KP:
				ca = "complete"
			case sec.Crt != nil && sec.Key != nil && sec.Crt.T == "c" && sec.Key.T == "k":
				ca = "mismatched"
			case sec.Crt != nil && sec.Key != nil:
				ca = "junk"
			default:
				ca = "keysMissing"
			}
		case len(leaves[sec.Name]) > 0:
			switch {
			case sec.Crt != nil && sec.Key != nil && sec.CA != nil:
				leaf = "complete"
			case sec.Crt != nil || sec.Key != nil || sec.CA != nil:
				leaf = "keysMissing"
			case leaf == "none":
				leaf = "noKeys"
			}
		}
	}
	if len(cas) > 0 {
		parts = append(parts, "ca="+ca, "leaf="+leaf)
	}
	forms := map[string]bool{}
	custom := false
	for _, im := range o.Imgs {
		if !im.OK {
			forms["bad"] = true
			continue
		}
		r := c20Parse(im.Img)
		f := "nohost"
		if r.Reg != "" {
			f = "host"
		}
		switch {
		case r.Dig && strings.Contains(c20WrittenName(im.Img), ":") && strings.LastIndex(im.Img[:strings.Index(im.Img, "@")], ":") > strings.LastIndex(im.Img, "/"):
			f += ":tag@digest"
		case r.Dig:
			f += "@digest"
		case strings.LastIndex(im.Img, ":") > strings.LastIndex(im.Img, "/"):
			f += ":tag"
		}
		forms[f] = true
	}
	for _, p := range s.Store.Pkgs {
		if p.Name != c20DefaultName(p.Raw) {
			custom = true
		}
	}
	if len(o.Imgs) > 0 {
		fs := []string{}
		for f := range forms {
			fs = append(fs, f)
		}
		sort.Strings(fs)
		parts = append(parts, "refs="+strings.Join(fs, "|"))
		if custom {
			parts = append(parts, "customName")
		}
	}
	return strings.Join(parts, "/")
}

func init() {
	Register("C20", func(c *Ctx) {
		for _, raw := range c.Corpus {
			var s c20Scn
			if err := jsonUnmarshalStrict(raw, &s); err == nil {
				c20Normalize(&s)
				obs, mons := c20RunScn(&s)
				c.Emit(&s, obs, mons, "corpus/"+c20Cls(&s, obs))
			}
		}
		if len(c.Corpus) > 0 {
			// supporting run over the real cluster/ directories of the tree under test (no model counterpart)
			if obs, mons, ok := c20RealDirs(); ok {
				c.Emit(map[string]any{"kind": "realdirs"}, obs, mons, "trivial/realdirs")
			}
		}
		for i := 0; i < c.N; i++ {
			r := c.Rng.Fork()
			s := c20Gen(r, c.Tier)
			c20Normalize(s)
			if c.Tier == "thorough" && i%40 == 0 {
				// every fault position x every outcome, each followed by a fault-free run
				n := c20CountCalls(s)
				for k := 0; k < n; k++ {
					for _, o := range []string{"fail", "fail.notFound", "fail.alreadyExists", "fail.forbidden", "fail.timeout", "conflict", "crashBefore", "crashAfter"} {
						s2 := c20CloneScn(s)
						oc := strings.SplitN(o, ".", 2)
						f := c20Run{K: k, O: oc[0]}
						if len(oc) == 2 {
							f.Cls = oc[1]
						}
						s2.Runs = []c20Run{f, {K: -1}}
						// What another writer wrote was computed from the cluster as it is right before call `before` of ITS run
						// under that run's own plan. It is replayed here only where the cluster is the same at that call: a
						// writer of run 0, run 0 not lied to originally, and this fault not a made-up NotFound / AlreadyExists
						// (after which the run goes on, on another path) at an earlier call. Elsewhere the same bytes could
						// rewrite a secret that is protected by now - which no writer of the scenarios does.
						keep := []c20Peer{}
						for _, p := range s2.Peer {
							if p.Run == 0 && !c20LieCls(s.Runs[0]) && !(c20LieCls(f) && k < p.Before) {
								keep = append(keep, p)
							}
						}
						s2.Peer = keep
						obs, mons := c20RunScn(s2)
						c.Emit(s2, obs, mons, "exhaustive/"+c20Cls(s2, obs))
					}
				}
				continue
			}
			obs, mons := c20RunScn(s)
			c.Emit(s, obs, mons, c20Cls(s, obs))
		}
	})
}

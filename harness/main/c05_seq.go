//go:build verif

package main

// C05, family "seq": ONE long-lived composite.Reconciler (as built once per process by the
// definition controller) with a scripted Composer, driven through a SEQUENCE of reconciles of
// several XRs whose names are related by string prefixes. Every reconcile may fail in any phase
// with any API error class (plain or wrapped), lose its final status update, read a stale XR or
// be overtaken by a concurrent writer. The Lean model stays per call; the correspondence and the
// isolation monitor expose state carried from one call to the next.

import (
	"context"
	"errors"
	"fmt"
	"sort"

	corev1 "k8s.io/api/core/v1"
	kerrors "k8s.io/apimachinery/pkg/api/errors"
	metav1 "k8s.io/apimachinery/pkg/apis/meta/v1"
	"k8s.io/apimachinery/pkg/apis/meta/v1/unstructured"
	"k8s.io/apimachinery/pkg/runtime"
	"k8s.io/apimachinery/pkg/runtime/schema"
	"k8s.io/apimachinery/pkg/types"
	"sigs.k8s.io/controller-runtime/pkg/client"
	"sigs.k8s.io/controller-runtime/pkg/client/apiutil"
	"sigs.k8s.io/controller-runtime/pkg/reconcile"

	xpv1 "github.com/crossplane/crossplane-runtime/apis/common/v1"
	xperrors "github.com/crossplane/crossplane-runtime/pkg/errors"
	"github.com/crossplane/crossplane-runtime/pkg/reconciler/managed"
	"github.com/crossplane/crossplane-runtime/pkg/resource"
	ucomposite "github.com/crossplane/crossplane-runtime/pkg/resource/unstructured/composite"

	v1 "github.com/crossplane/crossplane/apis/apiextensions/v1"
	"github.com/crossplane/crossplane/internal/controller/apiextensions/composite"
)

// ---------------------------------------------------------------- API error classes

// c05ErrClasses are the error classes injected wherever the code branches (or could be tempted
// to branch) on the class of an error.
var c05ErrClasses = []string{"generic", "invalid", "conflict", "notFound", "alreadyExists", "forbidden", "temporary", "deadline"}

// c05TempErr is a transport error that is Temporary() and Timeout() (net.Error).
type c05TempErr struct{}

func (c05TempErr) Error() string   { return "dial tcp: i/o timeout" }
func (c05TempErr) Temporary() bool { return true }
func (c05TempErr) Timeout() bool   { return true }

func c05MkErr(class string, wrap bool) error {
	var err error
	gr := schema.GroupResource{Group: "example.org", Resource: "things"}
	switch class {
	case "", "none":
		return nil
	case "generic":
		err = errors.New("boom")
	case "invalid":
		err = kerrors.NewInvalid(schema.GroupKind{Group: "example.org", Kind: "Thing"}, "x", nil)
	case "conflict":
		err = kerrors.NewConflict(gr, "x", errors.New("the object has been modified"))
	case "notFound":
		err = kerrors.NewNotFound(gr, "x")
	case "alreadyExists":
		err = kerrors.NewAlreadyExists(gr, "x")
	case "forbidden":
		err = kerrors.NewForbidden(gr, "x", errors.New("rbac"))
	case "temporary":
		err = c05TempErr{}
	case "deadline":
		err = context.DeadlineExceeded
	default:
		err = errors.New("boom: " + class)
	}
	if wrap {
		// the real composers, syncers and applicators wrap every API error
		err = xperrors.Wrap(xperrors.Wrap(err, "cannot apply composed resource"), "cannot compose resources")
	}
	return err
}

// ---------------------------------------------------------------- classed fault injection

// c05Call identifies one API call for fault injection.
type c05Call struct {
	Verb, Kind, NS, Name, Sub string
}

// c05Client is the client handed to the real controllers: the simstore, except that `Inject`
// may answer a call with an error of any class (the call is then not issued), and `Seen` is told
// the content of every object a call returned.
type c05Client struct {
	*Store
	Inject func(c c05Call) error
	Seen   func(c c05Call, obj client.Object)
	// StrictRV: like the API server does for custom resources (customResourceStrategy.
	// AllowUnconditionalUpdate is false), refuse an Update - of the object or of its status - that
	// carries no resourceVersion ("metadata.resourceVersion: must be specified for an update").
	// simstore accepts such an update unconditionally.
	StrictRV bool
}

func (c *c05Client) call(verb string, obj client.Object, key *client.ObjectKey, sub string) c05Call {
	gvk, _ := apiutil.GVKForObject(obj, c.Store.Scheme())
	cl := c05Call{Verb: verb, Kind: gvk.Kind, Sub: sub}
	if key != nil {
		cl.NS, cl.Name = key.Namespace, key.Name
	} else {
		cl.NS, cl.Name = obj.GetNamespace(), obj.GetName()
	}
	return cl
}

func (c *c05Client) do(cl c05Call, obj client.Object, f func() error) error {
	if c.StrictRV && cl.Verb == "update" && obj.GetResourceVersion() == "" {
		return kerrors.NewInvalid(schema.GroupKind{Group: "example.org", Kind: cl.Kind}, cl.Name, nil)
	}
	if c.Inject != nil {
		if err := c.Inject(cl); err != nil {
			return err
		}
	}
	err := f()
	if err == nil && c.Seen != nil {
		c.Seen(cl, obj)
	}
	return err
}

func (c *c05Client) Get(ctx context.Context, key client.ObjectKey, obj client.Object, opts ...client.GetOption) error {
	return c.do(c.call("get", obj, &key, ""), obj, func() error { return c.Store.Get(ctx, key, obj, opts...) })
}

func (c *c05Client) Create(ctx context.Context, obj client.Object, opts ...client.CreateOption) error {
	return c.do(c.call("create", obj, nil, ""), obj, func() error { return c.Store.Create(ctx, obj, opts...) })
}

func (c *c05Client) Update(ctx context.Context, obj client.Object, opts ...client.UpdateOption) error {
	return c.do(c.call("update", obj, nil, ""), obj, func() error { return c.Store.Update(ctx, obj, opts...) })
}

func (c *c05Client) Patch(ctx context.Context, obj client.Object, p client.Patch, opts ...client.PatchOption) error {
	return c.do(c.call("patch", obj, nil, ""), obj, func() error { return c.Store.Patch(ctx, obj, p, opts...) })
}

func (c *c05Client) Delete(ctx context.Context, obj client.Object, opts ...client.DeleteOption) error {
	return c.do(c.call("delete", obj, nil, ""), obj, func() error { return c.Store.Delete(ctx, obj, opts...) })
}

type c05SubWriter struct {
	c   *c05Client
	in  client.SubResourceWriter
	sub string
}

func (w c05SubWriter) Create(ctx context.Context, obj client.Object, sr client.Object, opts ...client.SubResourceCreateOption) error {
	return w.in.Create(ctx, obj, sr, opts...)
}

func (w c05SubWriter) Update(ctx context.Context, obj client.Object, opts ...client.SubResourceUpdateOption) error {
	return w.c.do(w.c.call("update", obj, nil, w.sub), obj, func() error { return w.in.Update(ctx, obj, opts...) })
}

func (w c05SubWriter) Patch(ctx context.Context, obj client.Object, p client.Patch, opts ...client.SubResourcePatchOption) error {
	return w.c.do(w.c.call("patch", obj, nil, w.sub), obj, func() error { return w.in.Patch(ctx, obj, p, opts...) })
}

func (c *c05Client) Status() client.SubResourceWriter {
	return c05SubWriter{c: c, in: c.Store.Status(), sub: "status"}
}

// ---------------------------------------------------------------- scenario

type c05XR struct {
	Name string    `json:"name"`
	Fin  bool      `json:"fin"` // already carries the composite finalizer
	Old  []c05Cond `json:"old"`
}

type c05Step struct {
	XR       int       `json:"xr"`
	Paused   bool      `json:"paused"`
	Composed []c05Res  `json:"composed"`
	Explicit string    `json:"explicit"`
	FnConds  []c05Cond `json:"fnConds"`
	// Phase in which the reconcile fails ("" = nowhere) and the class of the error
	Phase string `json:"phase"` // get finalizer select fetch validate configure compose publish
	Err   string `json:"err"`
	Wrap  bool   `json:"wrap"`
	// Lost: class of the error answering the FINAL status update ("" = it is applied)
	Lost string `json:"lost"`
	// Disturb: "stale" = the informer cache serves the previous version of the XR to this
	// reconcile; "touch" = another client edits the XR between the read and the status update
	Disturb string `json:"disturb"`
}

type c05SeqScn struct {
	Kind  string    `json:"kind"` // "seq"
	XRs   []c05XR   `json:"xrs"`
	Steps []c05Step `json:"steps"`
}

type c05StepObs struct {
	Conds      []c05OCond `json:"conds"`
	ClaimTypes []string   `json:"claimTypes"`
	Wrote      bool       `json:"wrote"`
}

type c05SeqObs struct {
	Steps []c05StepObs `json:"steps"`
}

var c05XRNames = []string{"xr", "xr-a", "xr-ab", "x", "xr-a-b"}

const c05Finalizer = "composite.apiextensions.crossplane.io"

func c05GenConds(r *Rng, max int, reasons []string) []c05Cond {
	statuses := []string{"True", "False", "Unknown"}
	types_ := c05CondUniverse()
	out := []c05Cond{}
	seen := map[string]bool{}
	// not in name order, several custom ones
	for i, n := 0, r.Intn(max+1); i < n; i++ {
		t := Pick(r, types_)
		if seen[t] {
			continue
		}
		seen[t] = true
		out = append(out, c05Cond{Type: t, Status: Pick(r, statuses), Reason: Pick(r, reasons)})
	}
	return out
}

func c05GenComposed(r *Rng) []c05Res {
	out := []c05Res{}
	n := r.Intn(6)
	// later entries may lack what earlier ones have: one bad apple anywhere in the list
	bad := -1
	if n > 0 && r.Chance(1, 2) {
		bad = r.Intn(n)
	}
	for i := 0; i < n; i++ {
		c := c05Res{Name: fmt.Sprintf("r%d", (i*3+1)%5), Synced: r.Chance(5, 6), Ready: r.Chance(4, 5)}
		switch r.Intn(8) {
		case 0:
			c.Name = "" // anonymous template
		case 1:
			c.Name = "r1" // duplicate name
		}
		if i == bad {
			if r.Bool() {
				c.Ready = false
			} else {
				c.Synced = false
			}
		} else if bad >= 0 && r.Chance(2, 3) {
			c.Ready, c.Synced = true, true
		}
		out = append(out, c)
	}
	return out
}

func c05GenFnConds(r *Rng) []c05Cond {
	statuses := []string{"True", "False", "Unknown"}
	out := []c05Cond{}
	for i, n := 0, r.Intn(6); i < n; i++ {
		// duplicates of one type are allowed (the last one wins)
		out = append(out, c05Cond{Type: Pick(r, c05CondUniverse()), Status: Pick(r, statuses), Reason: Pick(r, []string{"Fn", "Forged"}), Claim: r.Bool()})
	}
	return out
}

func c05GenSeq(r *Rng) c05SeqScn {
	s := c05SeqScn{Kind: "seq"}
	names := r.Perm(len(c05XRNames))
	for i, n := 0, r.Range(1, 3); i < n; i++ {
		s.XRs = append(s.XRs, c05XR{Name: c05XRNames[names[i]], Fin: r.Chance(3, 4),
			Old: c05GenConds(r, 5, []string{"Old", "Available", "Creating", "ReconcileSuccess"})})
	}
	for i, n := 0, r.Range(2, 6); i < n; i++ {
		st := c05Step{XR: r.Intn(len(s.XRs)), Composed: c05GenComposed(r), Explicit: Pick(r, []string{"unset", "unset", "true", "false"}), FnConds: c05GenFnConds(r)}
		switch r.Intn(20) {
		case 0:
			st.Paused = true
		case 1, 2, 3, 4, 5, 6, 7:
			st.Phase = Pick(r, []string{"get", "finalizer", "select", "fetch", "validate", "configure", "compose", "compose", "compose", "publish"})
			st.Err = Pick(r, c05ErrClasses)
			st.Wrap = r.Bool()
		}
		if r.Chance(1, 10) {
			st.Lost = Pick(r, c05ErrClasses)
		}
		if r.Chance(1, 10) {
			st.Disturb = Pick(r, []string{"stale", "touch"})
		}
		s.Steps = append(s.Steps, st)
	}
	return s
}

// ---------------------------------------------------------------- the long-lived reconciler

type c05SeqWorld struct {
	st  *Store
	cl  *c05Client
	rec *composite.Reconciler
	cur *c05Step
	// the step's Reconcile has read the XR (cache lag applies to that read only)
	read bool
}

func c05ScriptedComposer(cur func() *c05Step) composite.Composer {
	return composite.ComposerFn(func(_ context.Context, _ *ucomposite.Unstructured, _ composite.CompositionRequest) (composite.CompositionResult, error) {
		s := cur()
		res := composite.CompositionResult{}
		for _, c := range s.Composed {
			res.Composed = append(res.Composed, composite.ComposedResource{ResourceName: composite.ResourceName(c.Name), Synced: c.Synced, Ready: c.Ready})
		}
		switch s.Explicit {
		case "true":
			t := true
			res.Composite.Ready = &t
		case "false":
			f := false
			res.Composite.Ready = &f
		}
		for _, c := range s.FnConds {
			tgt := composite.CompositionTargetComposite
			if c.Claim {
				tgt = composite.CompositionTargetCompositeAndClaim
			}
			res.Conditions = append(res.Conditions, composite.TargetedCondition{
				Condition: xpv1.Condition{Type: xpv1.ConditionType(c.Type), Status: corev1.ConditionStatus(c.Status), Reason: xpv1.ConditionReason(c.Reason), LastTransitionTime: metav1.Unix(2, 0)},
				Target:    tgt,
			})
		}
		if s.Phase == "compose" {
			return res, c05MkErr(s.Err, s.Wrap)
		}
		return res, nil
	})
}

func c05NewSeqWorld(s c05SeqScn) *c05SeqWorld {
	st := NewStore(runtime.NewScheme())
	st.KeepHistory = true
	w := &c05SeqWorld{st: st}
	w.cl = &c05Client{Store: st}
	for _, x := range s.XRs {
		xr := ucomposite.New(ucomposite.WithGroupVersionKind(c05XRGVK))
		xr.SetName(x.Name)
		xr.SetCompositionReference(&corev1.ObjectReference{Name: "comp"})
		if x.Fin {
			xr.SetFinalizers([]string{c05Finalizer})
		}
		for _, c := range x.Old {
			xr.SetConditions(xpv1.Condition{Type: xpv1.ConditionType(c.Type), Status: corev1.ConditionStatus(c.Status), Reason: xpv1.ConditionReason(c.Reason), LastTransitionTime: metav1.Unix(1, 0)})
		}
		st.Seed(xr)
	}
	phaseErr := func(p string) error {
		if w.cur != nil && w.cur.Phase == p {
			return c05MkErr(w.cur.Err, w.cur.Wrap)
		}
		return nil
	}
	// built ONCE, like the definition controller does when it starts the XR controller
	w.rec = composite.NewReconciler(w.cl, w.cl, resource.CompositeKind(c05XRGVK),
		composite.WithComposer(c05ScriptedComposer(func() *c05Step { return w.cur })),
		composite.WithCompositionSelector(composite.CompositionSelectorFn(func(context.Context, resource.Composite) error { return phaseErr("select") })),
		composite.WithCompositionRevisionFetcher(composite.CompositionRevisionFetcherFn(func(context.Context, resource.Composite) (*v1.CompositionRevision, error) {
			return &v1.CompositionRevision{}, phaseErr("fetch")
		})),
		composite.WithCompositionRevisionValidator(composite.CompositionRevisionValidatorFn(func(*v1.CompositionRevision) error { return phaseErr("validate") })),
		composite.WithConfigurator(composite.ConfiguratorFn(func(context.Context, resource.Composite, *v1.CompositionRevision) error { return phaseErr("configure") })),
		composite.WithConnectionPublishers(managed.ConnectionPublisherFns{
			PublishConnectionFn: func(context.Context, resource.ConnectionSecretOwner, managed.ConnectionDetails) (bool, error) {
				return false, phaseErr("publish")
			},
			UnpublishConnectionFn: func(context.Context, resource.ConnectionSecretOwner, managed.ConnectionDetails) error { return nil },
		}),
	)
	return w
}

func c05Touch(st *Store, gk schema.GroupKind, ns, name, key string) {
	st.Mutate(gk, ns, name, func(u *unstructured.Unstructured) {
		a := u.GetAnnotations()
		if a == nil {
			a = map[string]string{}
		}
		a[key] = a[key] + "x"
		u.SetAnnotations(a)
	})
}

// c05CleanSuccess: the reconcile goes through the success path and its status update is applied.
func (s *c05Step) cleanSuccess() bool {
	return !s.Paused && s.Phase == "" && s.Lost == "" && s.Disturb == ""
}

func c05RunSeq(s c05SeqScn) (c05SeqObs, []Mon) {
	w := c05NewSeqWorld(s)
	st := w.st
	gk := c05XRGVK.GroupKind()
	obs := c05SeqObs{Steps: []c05StepObs{}}
	var mons []Mon
	seen := map[string]bool{}
	mon := func(sig, why string) {
		if !seen[sig] {
			seen[sig] = true
			mons = append(mons, Mon{Sig: sig, Why: why})
		}
	}
	for i := range s.Steps {
		step := &s.Steps[i]
		if step.XR < 0 || step.XR >= len(s.XRs) {
			continue
		}
		name := s.XRs[step.XR].Name
		// environment before the reconcile: pause annotation, a newer version for the lagging cache
		st.Mutate(gk, "", name, func(u *unstructured.Unstructured) {
			a := u.GetAnnotations()
			if a == nil {
				a = map[string]string{}
			}
			if step.Paused {
				a["crossplane.io/paused"] = "true"
			} else {
				delete(a, "crossplane.io/paused")
			}
			if len(a) == 0 {
				a = nil
			}
			u.SetAnnotations(a)
			if step.Phase == "finalizer" {
				// the XR does not carry the finalizer (yet / any more): AddFinalizer issues an Update
				u.SetFinalizers(nil)
			}
		})
		if step.Disturb == "stale" {
			c05Touch(st, gk, "", name, "example.org/edited")
		}
		before := map[string]map[string]c05OCond{}
		for _, x := range s.XRs {
			before[x.Name], _, _ = c05XRState(w.st, x.Name)
		}
		w.cur, w.read = step, false
		st.Log = nil
		st.Lag = func(k objKey, versions int) int {
			if step.Disturb == "stale" && k.GK == gk && k.Name == name && !w.read && versions >= 2 {
				w.read = true
				return 1
			}
			return 0
		}
		statusCalls := 0
		w.cl.Inject = func(c c05Call) error {
			if c.Kind != c05XRGVK.Kind {
				return nil
			}
			switch {
			case c.Verb == "get" && step.Phase == "get":
				return c05MkErr(step.Err, step.Wrap)
			case c.Verb == "update" && c.Sub == "" && step.Phase == "finalizer":
				return c05MkErr(step.Err, step.Wrap)
			case c.Verb == "update" && c.Sub == "status":
				statusCalls++
				if step.Disturb == "touch" {
					// another client (a user, another replica) edits the XR before our write arrives
					c05Touch(st, gk, "", name, "example.org/edited")
				}
				if step.Lost != "" {
					return c05MkErr(step.Lost, step.Wrap)
				}
			}
			return nil
		}
		if p := Guard(func() {
			_, _ = w.rec.Reconcile(context.Background(), reconcile.Request{NamespacedName: types.NamespacedName{Name: name}})
		}); p != "" {
			mon("C05:panic", p)
		}
		w.cl.Inject, st.Lag = nil, nil
		after, list, ct := c05XRState(w.st, name)
		so := c05StepObs{Conds: list, ClaimTypes: ct}
		for _, l := range st.Log {
			if l.Verb == "update" && l.Sub == "status" && l.Applied {
				so.Wrote = true
			}
		}
		obs.Steps = append(obs.Steps, so)

		// ---- direct monitors: the property evaluated on the real run, model-free
		allReady, allSynced := true, true
		for _, c := range step.Composed {
			allReady = allReady && c.Ready
			allSynced = allSynced && c.Synced
		}
		old := before[name]
		fnLast := map[string]c05Cond{}
		for _, c := range step.FnConds {
			fnLast[c.Type] = c
		}
		if step.cleanSuccess() {
			mayReady := step.Explicit == "true" || (step.Explicit == "unset" && allReady)
			if after["Ready"].Status == "True" && !mayReady {
				mon("C05:ready-overstated", fmt.Sprintf("step %d: Ready=True although not explicitly ready and some resource unready (or explicitly unready)", i))
			}
			if after["Synced"].Status == "True" && !allSynced {
				mon("C05:synced-overstated", fmt.Sprintf("step %d: Synced=True although some resource unsynced", i))
			}
		} else {
			if after["Ready"].Status == "True" && old["Ready"].Status != "True" {
				mon("C05:ready-set-on-error", fmt.Sprintf("step %d: a reconcile that did not complete (phase %q err %q paused %v lost %q disturb %q) set Ready=True", i, step.Phase, step.Err, step.Paused, step.Lost, step.Disturb))
			}
			if after["Synced"].Status == "True" && old["Synced"].Status != "True" {
				mon("C05:synced-set-on-error", fmt.Sprintf("step %d: a reconcile that did not complete (phase %q err %q paused %v lost %q disturb %q) set Synced=True", i, step.Phase, step.Err, step.Paused, step.Lost, step.Disturb))
			}
		}
		// a reconcile that does not complete but stores a status stores Synced=False (ReconcileError /
		// ReconcilePaused): a stale Synced=True must not survive it
		if !step.cleanSuccess() && so.Wrote && after["Synced"].Status != "False" {
			mon("C05:synced-not-false-after-failure", fmt.Sprintf("step %d: a reconcile that did not complete (phase %q err %q paused %v) stored a status whose Synced is %q", i, step.Phase, step.Err, step.Paused, after["Synced"].Status))
		}
		// functions cannot forge: every function condition carries reason Fn/Forged, which the
		// system conditions never carry
		for _, t := range []string{"Ready", "Synced"} {
			if r := after[t].Reason; r == "Fn" || r == "Forged" {
				mon("C05:system-condition-forged", fmt.Sprintf("step %d: %s carries the function-supplied reason %q", i, t, r))
			}
		}
		for _, t := range ct {
			if xpv1.IsSystemConditionType(xpv1.ConditionType(t)) {
				mon("C05:system-type-in-claim-condition-types", fmt.Sprintf("step %d: status.claimConditionTypes lists the system type %q", i, t))
			}
		}
		fatal := !step.Paused && step.Phase == "compose" && step.Err != "conflict" && step.Lost == "" && step.Disturb == ""
		if fatal {
			for t, c := range old {
				if xpv1.IsSystemConditionType(xpv1.ConditionType(t)) {
					continue
				}
				if f, ok := fnLast[t]; ok {
					if after[t].Status != f.Status {
						mon("C05:reasserted-custom-not-function-value", fmt.Sprintf("step %d: custom condition %q re-asserted as %s by the function is %s after the fatal error", i, t, f.Status, after[t].Status))
					}
					continue
				}
				_ = c
				if after[t].Status != "Unknown" {
					mon("C05:custom-not-unknown-on-fatal", fmt.Sprintf("step %d: custom condition %q not re-asserted but %s, not Unknown", i, t, after[t].Status))
				}
			}
		}
		// a reconcile of one XR never touches the conditions of another (long-lived reconciler)
		for _, x := range s.XRs {
			if x.Name == name {
				continue
			}
			now, _, _ := c05XRState(w.st, x.Name)
			if fmt.Sprint(now) != fmt.Sprint(before[x.Name]) {
				mon("C05:other-xr-changed", fmt.Sprintf("step %d: reconciling %q changed the conditions of %q", i, name, x.Name))
			}
		}
	}
	return obs, mons
}

func c05SeqCls(s c05SeqScn) string {
	errs, lost, dist, paused := 0, 0, 0, 0
	phases := map[string]bool{}
	for _, st := range s.Steps {
		if st.Phase != "" {
			errs++
			phases[st.Phase+"="+st.Err] = true
		}
		if st.Lost != "" {
			lost++
		}
		if st.Disturb != "" {
			dist++
		}
		if st.Paused {
			paused++
		}
	}
	ps := []string{}
	for p := range phases {
		ps = append(ps, p)
	}
	sort.Strings(ps)
	first := "-"
	if len(ps) > 0 {
		first = ps[0]
	}
	return fmt.Sprintf("seq/xrs=%d/steps=%d/errs=%d/lost=%d/disturb=%d/paused=%d/%s", len(s.XRs), len(s.Steps), errs, lost, dist, paused, first)
}

// c05Exhaustive (thorough tier, first shard only): the full product the property names, one
// reconcile each - explicit XR readiness x every (synced, ready) assignment of 0..3 desired resources
// x {completes, paused, fails in every phase with every error class, loses its status update},
// against an XR that is neither ready nor synced and functions that try to forge both.
func c05Exhaustive(c *Ctx) {
	old := []c05Cond{{Type: "Ready", Status: "False", Reason: "Creating"}, {Type: "Custom", Status: "True", Reason: "Old"},
		{Type: "Synced", Status: "False", Reason: "ReconcileError"}, {Type: "ready", Status: "True", Reason: "Old"}}
	fn := []c05Cond{{Type: "Ready", Status: "True", Reason: "Forged", Claim: true}, {Type: "Synced", Status: "True", Reason: "Forged"},
		{Type: "NetworkOK", Status: "True", Reason: "Fn", Claim: true}, {Type: "ready", Status: "False", Reason: "Fn"}}
	type fault struct {
		phase, err, lost string
		paused           bool
	}
	faults := []fault{{}, {paused: true}}
	for _, cls := range c05ErrClasses {
		faults = append(faults, fault{lost: cls})
		for _, ph := range []string{"get", "finalizer", "select", "fetch", "validate", "configure", "compose", "publish"} {
			faults = append(faults, fault{phase: ph, err: cls})
		}
	}
	for _, explicit := range []string{"unset", "true", "false"} {
		for n := 0; n <= 3; n++ {
			for bits := 0; bits < 1<<(2*n); bits++ {
				comp := []c05Res{}
				for k := 0; k < n; k++ {
					comp = append(comp, c05Res{Name: fmt.Sprintf("r%d", k), Synced: bits>>(2*k)&1 == 1, Ready: bits>>(2*k+1)&1 == 1})
				}
				for _, f := range faults {
					s := c05SeqScn{Kind: "seq", XRs: []c05XR{{Name: "xr", Fin: f.phase != "finalizer", Old: old}},
						Steps: []c05Step{{XR: 0, Paused: f.paused, Composed: comp, Explicit: explicit, FnConds: fn, Phase: f.phase, Err: f.err, Wrap: bits%2 == 1, Lost: f.lost}}}
					obs, mons := c05RunSeq(s)
					c.Emit(s, obs, mons, fmt.Sprintf("exhaustive/explicit=%s/n=%d/phase=%s/err=%s/lost=%v/paused=%v", explicit, n, f.phase, f.err, f.lost != "", f.paused))
				}
			}
		}
	}
}

//go:build verif

package main

// C20 tables regenerated from the source tree on every run:
//   * the statement list of cmd/crossplane/core/init.go (initCommand.Run) between
//     the declaration of `steps` and the call of Init, with guards – the Lean
//     model's `initSteps` and the harness's c20StepsOfCfg were written from that
//     transcript, and a theorem compares the transcript with the regenerated list;
//   * DNSNamesForService on a probe, the TLS secret key names.

import (
	"bytes"
	"go/ast"
	"go/parser"
	"go/printer"
	"go/token"
	"os"
	"path/filepath"
	"strings"

	corev1 "k8s.io/api/core/v1"

	"github.com/crossplane/crossplane/internal/initializer"
)

func c20RepoDir() string {
	if d := os.Getenv("VERIF_REPO"); d != "" {
		return d
	}
	return "/repo"
}

func c20Print(fset *token.FileSet, n ast.Node) string {
	var b bytes.Buffer
	_ = printer.Fprint(&b, fset, n)
	return strings.Join(strings.Fields(b.String()), " ")
}

// c20InitSkeleton returns (guard, statement) pairs.
func c20InitSkeleton() ([][2]string, error) {
	fset := token.NewFileSet()
	f, err := parser.ParseFile(fset, filepath.Join(c20RepoDir(), "cmd", "crossplane", "core", "init.go"), nil, 0)
	if err != nil {
		return nil, err
	}
	var out [][2]string
	var walk func(guard string, stmts []ast.Stmt)
	walk = func(guard string, stmts []ast.Stmt) {
		for _, st := range stmts {
			switch s := st.(type) {
			case *ast.IfStmt:
				cond := c20Print(fset, s.Cond)
				if s.Init != nil {
					cond = c20Print(fset, s.Init) + "; " + cond
				}
				g := cond
				if guard != "" {
					g = guard + " && " + cond
				}
				walk(g, s.Body.List)
				if s.Else != nil {
					ng := "!(" + cond + ")"
					if guard != "" {
						ng = guard + " && " + ng
					}
					if blk, ok := s.Else.(*ast.BlockStmt); ok {
						walk(ng, blk.List)
					} else {
						walk(ng, []ast.Stmt{s.Else})
					}
				}
			default:
				out = append(out, [2]string{guard, c20Print(fset, st)})
			}
		}
	}
	for _, d := range f.Decls {
		fd, ok := d.(*ast.FuncDecl)
		if !ok || fd.Name.Name != "Run" || fd.Recv == nil {
			continue
		}
		// keep the part from `var steps` on
		start := 0
		for i, st := range fd.Body.List {
			if strings.HasPrefix(c20Print(fset, st), "var steps") {
				start = i
			}
		}
		walk("", fd.Body.List[start:])
	}
	return out, nil
}

func init() {
	RegisterDump("C20Init", func() string {
		var b strings.Builder
		sk, err := c20InitSkeleton()
		b.WriteString("/-- statements of core.initCommand.Run from `var steps` on, as (guard, statement) -/\n")
		b.WriteString("def c20InitSkeleton : List (String × String) := [\n")
		if err != nil {
			sk = [][2]string{{"error", err.Error()}}
		}
		for i, p := range sk {
			b.WriteString("  (" + leanStr(p[0]) + ", " + leanStr(p[1]) + ")")
			if i+1 < len(sk) {
				b.WriteString(",")
			}
			b.WriteString("\n")
		}
		b.WriteString("]\n\n")
		b.WriteString("/-- initializer.DNSNamesForService \"svc\" \"ns\" -/\n")
		b.WriteString("def c20DnsProbe : List String := " + leanStrList(initializer.DNSNamesForService("svc", "ns")) + "\n")
		b.WriteString("def c20KeyNames : List String := " + leanStrList([]string{corev1.TLSCertKey, corev1.TLSPrivateKeyKey, initializer.SecretKeyCACert}) + "\n")
		return b.String()
	})
}

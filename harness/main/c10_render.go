//go:build verif

package main

type c10RenderScn struct{}

func c10GenRenderScn(r *Rng) *c10Scn { return c10GenPatchScn(r) }

func c10RunRender(s *c10Scn) (any, []Mon, string) { return map[string]any{}, nil, "trivial/render-stub" }

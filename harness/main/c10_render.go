//go:build verif

package main

// C10 "render" scenarios: the real RenderFromJSON followed by the real
// RenderComposedResourceMetadata on generated bases (every shape of metadata,
// kinds, invalid JSON) and composite resources.

import (
	"fmt"
	"reflect"
	"strings"

	corev1 "k8s.io/api/core/v1"
	"k8s.io/apimachinery/pkg/apis/meta/v1/unstructured"
	kjson "k8s.io/apimachinery/pkg/util/json"

	ucomposed "github.com/crossplane/crossplane-runtime/pkg/resource/unstructured/composed"
	ucomposite "github.com/crossplane/crossplane-runtime/pkg/resource/unstructured/composite"

	"github.com/crossplane/crossplane/internal/controller/apiextensions/composite"
)

type c10RenderScn struct {
	RefKind       string `json:"refKind"`
	RefAPIVersion string `json:"refApiVersion"`
	RefName       string `json:"refName"`
	RefNamespace  string `json:"refNamespace"`
	BaseSrc       string `json:"baseSrc"`
	Base          any    `json:"base"` // the template as the k8s JSON decoder reads it into a map (null: not an object)
	XR            any    `json:"xr"`
	TplName       string `json:"tplName"`
}

// c10DecodeBase decodes template bytes the way Unstructured.UnmarshalJSON does (ints stay int64).
func c10DecodeBase(src string) any {
	m := map[string]any{}
	if err := kjson.Unmarshal([]byte(src), &m); err != nil || m == nil {
		return nil
	}
	return c10Enc(m)
}

func c10RenderErrClass(err error) string {
	if err == nil {
		return ""
	}
	msg := err.Error()
	switch {
	case strings.Contains(msg, "cannot change the kind"):
		return "kindChanged"
	case strings.Contains(msg, "cannot unmarshal JSON data"):
		return "unmarshal"
	case strings.Contains(msg, "cannot find top-level composite resource name label"):
		return "namePrefixLabel"
	case strings.Contains(msg, "cannot set controller reference"):
		return "controllerRef"
	}
	return "other:" + msg
}

func c10RunRender(s *c10Scn) (any, []Mon, string) {
	rs := s.Render
	xrC, _ := c10Dec(rs.XR).(map[string]any)
	if xrC == nil {
		xrC = map[string]any{}
	}
	rs.XR = c10Enc(xrC)
	rs.Base = c10DecodeBase(rs.BaseSrc)
	var mons []Mon
	run := func() (string, string, map[string]any, map[string]any) {
		xr := &ucomposite.Unstructured{Unstructured: unstructured.Unstructured{Object: c10CopyMap(xrC)}}
		ref := corev1.ObjectReference{APIVersion: rs.RefAPIVersion, Kind: rs.RefKind, Name: rs.RefName, Namespace: rs.RefNamespace}
		var r *ucomposed.Unstructured
		var err1, err2 error
		pn := Guard(func() {
			r = ucomposed.New(ucomposed.FromReference(ref))
			err1 = composite.RenderFromJSON(r, []byte(rs.BaseSrc))
			if err1 == nil {
				err2 = composite.RenderComposedResourceMetadata(r, xr, composite.ResourceName(rs.TplName))
			}
		})
		if pn != "" {
			return "panic:" + pn, "", nil, xr.Object
		}
		var content map[string]any
		if r != nil {
			content = r.Object
		}
		return c10RenderErrClass(err1), c10RenderErrClass(err2), content, xr.Object
	}
	je, me, cd, xrA := run()
	if strings.HasPrefix(je, "panic:") {
		mons = append(mons, Mon{Sig: "C10:panic", Why: "render panicked: " + c10Short(je)})
		je = "panic"
	}
	if strings.HasPrefix(je, "other:") || strings.HasPrefix(me, "other:") {
		mons = append(mons, Mon{Sig: "C10:unclassified-error", Why: je + " " + me})
	}
	if !reflect.DeepEqual(xrA, xrC) {
		mons = append(mons, Mon{Sig: "C10:source-modified", Why: "RenderComposedResourceMetadata modified the composite resource"})
	}
	je2, me2, cd2, _ := run()
	if strings.HasPrefix(je2, "panic:") {
		je2 = "panic"
	}
	if je2 != je || me2 != me || !reflect.DeepEqual(cd, cd2) {
		mons = append(mons, Mon{Sig: "C10:nondeterministic", Why: "two renders of the same template differ"})
	}
	obs := map[string]any{"jsonErr": je, "metaErr": me}
	if je != "" {
		obs["cd"] = nil
	} else {
		obs["cd"] = c10Enc(cd)
	}
	return obs, mons, fmt.Sprintf("render/ref=%v/%s/%s", rs.RefName != "", c10Or(je, "ok"), c10Or(me, "ok"))
}

func c10GenMetaVariant(r *Rng, xrUID string) any {
	switch r.Intn(24) {
	case 0:
		return "not-a-map"
	case 1:
		return nil
	case 2:
		return []any{"x"}
	}
	md := map[string]any{}
	if r.Chance(1, 3) {
		md["name"] = Pick(r, []string{"from-template", "cd-1"})
	}
	if r.Chance(1, 4) {
		md["namespace"] = "tpl-ns"
	}
	if r.Chance(1, 2) {
		l := map[string]any{"app": "x"}
		if r.Chance(1, 4) {
			l["crossplane.io/composite"] = "stale"
		}
		if r.Chance(1, 6) {
			l["num"] = int64(5) // not a string: GetLabels gives up
		}
		md["labels"] = l
	} else if r.Chance(1, 8) {
		md["labels"] = Pick(r, []any{"str", nil, []any{}})
	}
	if r.Chance(1, 2) {
		a := map[string]any{"crossplane.io/external-name": "ext"}
		if r.Chance(1, 4) {
			a["crossplane.io/composition-resource-name"] = "old-name"
		}
		if r.Chance(1, 6) {
			a["flag"] = true
		}
		md["annotations"] = a
	}
	if r.Chance(1, 3) {
		refs := []any{}
		for i, n := 0, r.Range(1, 2); i < n; i++ {
			o := map[string]any{"apiVersion": "example.org/v1", "kind": "Owner", "name": fmt.Sprintf("o%d", i), "uid": Pick(r, []string{"uid-other", xrUID, "uid-3"})}
			if r.Chance(1, 2) {
				o["controller"] = r.Chance(2, 3)
			}
			if r.Chance(1, 3) {
				o["blockOwnerDeletion"] = r.Bool()
			}
			refs = append(refs, o)
		}
		if r.Chance(1, 8) {
			refs = append(refs, "not-a-map")
		}
		md["ownerReferences"] = refs
	} else if r.Chance(1, 10) {
		md["ownerReferences"] = "str"
	}
	return md
}

func c10GenBase(r *Rng, xrUID string) string {
	switch r.Intn(30) {
	case 0:
		return Pick(r, []string{"{bad", "", "[1,2]", "\"str\"", "5", "null", "{\"kind\":5}", "{\"kind\":\"\"}"})
	}
	m := map[string]any{"apiVersion": "example.org/v1", "spec": c10GenObj(r, 2)}
	switch r.Intn(15) {
	case 0:
	case 1:
		m["kind"] = "Other"
	default:
		m["kind"] = "Thing"
	}
	if r.Chance(3, 4) {
		m["metadata"] = c10GenMetaVariant(r, xrUID)
	}
	return mustJSON(c10PlainJSON(m))
}

// c10PlainJSON keeps a generated value as is (floats print as JSON numbers).
func c10PlainJSON(v any) any { return v }

func c10GenRenderXR(r *Rng) map[string]any {
	xr := map[string]any{"apiVersion": "example.org/v1", "kind": "XThing", "spec": c10GenObj(r, 1)}
	md := map[string]any{"name": "my-xr"}
	if r.Chance(7, 8) {
		md["uid"] = "uid-xr"
	}
	switch r.Intn(10) {
	case 0:
	case 1:
		md["labels"] = map[string]any{"other": "x"}
	case 2:
		md["labels"] = map[string]any{"crossplane.io/composite": "my-xr", "bad": int64(3)}
	case 3:
		md["labels"] = map[string]any{"crossplane.io/composite": ""}
	default:
		l := map[string]any{"crossplane.io/composite": Pick(r, []string{"my-xr", "claim-abc"})}
		if r.Bool() {
			l["crossplane.io/claim-name"] = "claim"
			l["crossplane.io/claim-namespace"] = "team-a"
		}
		md["labels"] = l
	}
	xr["metadata"] = md
	return xr
}

func c10GenRenderScn(r *Rng) *c10Scn {
	xr := c10GenRenderXR(r)
	rs := &c10RenderScn{XR: c10Enc(xr), TplName: Pick(r, []string{"", "bucket", "db"})}
	if r.Chance(1, 2) {
		rs.RefAPIVersion, rs.RefKind, rs.RefName = "example.org/v1", Pick(r, []string{"Thing", "Thing", "Thing", "Other"}), "cd-1"
		if r.Chance(1, 4) {
			rs.RefNamespace = "ns"
		}
		if r.Chance(1, 8) {
			rs.RefName = ""
		}
		if r.Chance(1, 10) {
			rs.RefAPIVersion = "example.org/v1beta1"
		}
	}
	rs.BaseSrc = c10GenBase(r, "uid-xr")
	return &c10Scn{Kind: "render", Render: rs}
}

//go:build verif

package main

// C07 world: the ONE client the long-lived syncers (and the managed-fields upgrader)
// of a scenario hold. It
//   - records every write of the sync in progress (request body as sent),
//   - counts the API calls of the sync and, before the K-th call, lets third parties
//     write (a user editing the claim, the XR controller / another replica / a user
//     writing, deleting or creating the XR),
//   - fails the K-th call with an API error of a chosen class (nothing reaches the store),
//   - answers the Get inside the client-side Apply from the informer cache as the
//     reconciler saw it (stale version / miss) instead of the live store,
//   - records, for every call, the TRUE stored claim and XR immediately before and after
//     (the per-call monitors in this file judge every write against those).
// The reconciler's own two cached reads (claim, XR) are served by runOp from per-pair
// snapshots (c07Pair.snaps).

import (
	"context"
	"encoding/json"
	"errors"
	"fmt"
	"net"
	"sort"
	"strings"

	kerrors "k8s.io/apimachinery/pkg/api/errors"
	"k8s.io/apimachinery/pkg/apis/meta/v1/unstructured"
	"k8s.io/apimachinery/pkg/runtime"
	"k8s.io/apimachinery/pkg/runtime/schema"
	"k8s.io/apimachinery/pkg/types"
	"k8s.io/apimachinery/pkg/util/validation/field"
	"sigs.k8s.io/controller-runtime/pkg/client"

	"github.com/crossplane/crossplane/internal/controller/apiextensions/claim"
)

// the field manager the reconciler hands to the upgrader and the server-side syncer applies with
const claimFieldOwnerXR = claim.FieldOwnerXR

// c07Act: a third party's write before API call K of a sync.
//   editClaim  a user edits the claim (delta)        xrCtl     somebody edits the XR (delta)
//   deleteXR   the XR is deleted                     createXR  somebody creates the XR the sync is about to create
type c07Act struct {
	K   int    `json:"k"`
	Act string `json:"act"`

	SetSpec   map[string]any    `json:"setSpec,omitempty"`
	DelSpec   []string          `json:"delSpec,omitempty"`
	SetStatus map[string]any    `json:"setStatus,omitempty"`
	DelStatus []string          `json:"delStatus,omitempty"`
	SetLabels map[string]string `json:"setLabels,omitempty"`
	DelLabels []string          `json:"delLabels,omitempty"`
	SetAnn    map[string]string `json:"setAnn,omitempty"`
	DelAnn    []string          `json:"delAnn,omitempty"`

	XR *c07Obj `json:"xr,omitempty"` // createXR (its name is replaced by the sync's target name)
}

func (a c07Act) delta() c07Op {
	return c07Op{SetSpec: a.SetSpec, DelSpec: a.DelSpec, SetStatus: a.SetStatus, DelStatus: a.DelStatus,
		SetLabels: a.SetLabels, DelLabels: a.DelLabels, SetAnn: a.SetAnn, DelAnn: a.DelAnn}
}

// c07Inj: API call K fails with an error of this class.
type c07Inj struct {
	K     int    `json:"k"`
	Class string `json:"class"`
}

// ---------------------------------------------------------------- error classes

var c07ErrClasses = []string{"notFound", "alreadyExists", "conflict", "invalid", "forbidden", "timeout", "internal",
	"unavailable", "tooManyRequests", "transport", "deadline"}

type c07TransportErr struct{}

func (c07TransportErr) Error() string   { return "read tcp 10.0.0.7:41234->10.96.0.1:443: read: connection reset by peer" }
func (c07TransportErr) Timeout() bool   { return false }
func (c07TransportErr) Temporary() bool { return true }

var _ net.Error = c07TransportErr{}

func c07ErrOf(class string, gk schema.GroupKind, name string) error {
	gr := schema.GroupResource{Group: gk.Group, Resource: strings.ToLower(gk.Kind) + "s"}
	switch class {
	case "notFound":
		return kerrors.NewNotFound(gr, name)
	case "alreadyExists":
		return kerrors.NewAlreadyExists(gr, name)
	case "conflict":
		return kerrors.NewConflict(gr, name, errors.New("the object has been modified; please apply your changes to the latest version and try again"))
	case "invalid":
		return kerrors.NewInvalid(gk, name, field.ErrorList{field.Invalid(field.NewPath("spec"), "x", "injected")})
	case "forbidden":
		return kerrors.NewForbidden(gr, name, errors.New("RBAC: denied"))
	case "timeout":
		return kerrors.NewTimeoutError("request did not complete within the allotted time", 1)
	case "internal":
		return kerrors.NewInternalError(errors.New("etcdserver: leader changed"))
	case "unavailable":
		return kerrors.NewServiceUnavailable("the server is currently unable to handle the request")
	case "tooManyRequests":
		return kerrors.NewTooManyRequestsError("too many requests")
	case "transport":
		return c07TransportErr{}
	case "deadline":
		return fmt.Errorf("Put %q: %w", "https://10.96.0.1:443/apis/example.org/v1/namespaces/team-a/things/"+name, context.DeadlineExceeded)
	}
	return fmt.Errorf("c07: unknown error class %q", class)
}

// c07APIClass maps an error (as an API call produced it, or as Sync returned it after
// wrapping) back to its class; "" = not an API error this harness knows.
func c07APIClass(err error) string {
	var ne net.Error
	switch {
	case err == nil:
		return ""
	case errors.Is(err, context.DeadlineExceeded):
		return "deadline"
	case kerrors.IsNotFound(err):
		return "notFound"
	case kerrors.IsAlreadyExists(err):
		return "alreadyExists"
	case kerrors.IsConflict(err):
		return "conflict"
	case kerrors.IsInvalid(err):
		return "invalid"
	case kerrors.IsForbidden(err):
		return "forbidden"
	case kerrors.IsTimeout(err):
		return "timeout"
	case kerrors.IsServiceUnavailable(err):
		return "unavailable"
	case kerrors.IsTooManyRequests(err):
		return "tooManyRequests"
	case kerrors.IsInternalError(err):
		return "internal"
	case kerrors.IsBadRequest(err):
		return "badRequest"
	case errors.As(err, &ne) && ne.Temporary(): //nolint:staticcheck // the class the audit names
		return "transport"
	}
	return ""
}

// ---------------------------------------------------------------- the client

// c07Call is one API call of a sync as the world saw it.
type c07Call struct {
	K        int
	Verb     string // get create update status apply patch jsonpatch delete
	Kind     string // claim | xr
	Name     string
	Err      string // API error class the call returned ("" = ok)
	Injected bool
	Body     c07Obj // request body (writes)
	BodyRV   string // metadata.resourceVersion the request carried
	// the true store immediately before (after the third-party writes scheduled before
	// this call) and immediately after the call
	PreClaim, PostClaim c07Obj
	PreClaimRV          string
	PreXR, PostXR       *c07Obj
}

func (c c07Call) isWrite() bool { return c.Verb != "get" }

// c07World is the world of ONE sync (or upgrade).
type c07World struct {
	st       *Store
	ns       string
	claim    string
	xrName   string // the XR the third parties act on (the stored claim's resourceRef, else the name to be generated)
	acts     map[int][]c07Act
	inj      map[int]string
	getCache bool
	cacheXR  *unstructured.Unstructured // the XR in the informer cache (nil: not there)
	k        int
	calls    []c07Call
}

func c07NewWorld(st *Store, ns, claimName, xrName string, op c07Op) *c07World {
	w := &c07World{st: st, ns: ns, claim: claimName, xrName: xrName, acts: map[int][]c07Act{}, inj: map[int]string{}, getCache: op.GetCache}
	for _, a := range op.Acts {
		w.acts[a.K] = append(w.acts[a.K], a)
	}
	for _, i := range op.Inj {
		if _, dup := w.inj[i.K]; !dup {
			w.inj[i.K] = i.Class
		}
	}
	return w
}

func (w *c07World) quiet() bool { return len(w.acts) == 0 && len(w.inj) == 0 }

func (w *c07World) peekClaim() (c07Obj, string) {
	u := w.st.Peek(c07ClaimGVK.GroupKind(), w.ns, w.claim)
	if u == nil {
		return c07Obj{}, ""
	}
	return c07Proj(u.Object), u.GetResourceVersion()
}

func (w *c07World) peekXR(name string) *c07Obj {
	u := w.st.Peek(c07XRGVK.GroupKind(), "", name)
	if u == nil {
		return nil
	}
	o := c07Proj(u.Object)
	return &o
}

func (w *c07World) apply(a c07Act) {
	switch a.Act {
	case "editClaim":
		w.st.Mutate(c07ClaimGVK.GroupKind(), w.ns, w.claim, func(u *unstructured.Unstructured) { c07ApplyDelta(u, a.delta()) })
	case "xrCtl":
		w.st.Mutate(c07XRGVK.GroupKind(), "", w.xrName, func(u *unstructured.Unstructured) { c07ApplyDelta(u, a.delta()) })
	case "deleteXR":
		w.st.Remove(c07XRGVK.GroupKind(), "", w.xrName)
	case "createXR":
		if a.XR != nil && w.xrName != "" && w.st.Peek(c07XRGVK.GroupKind(), "", w.xrName) == nil {
			x := *a.XR
			x.Name = w.xrName
			w.st.Seed(c07ToU(x, c07XRGVK, ""))
		}
	}
}

// enter starts API call number k: third-party writes, the true pre-state, the injected failure.
func (w *c07World) enter(verb string, obj client.Object, body *c07Obj) (*c07Call, error) {
	k := w.k
	w.k++
	for _, a := range w.acts[k] {
		w.apply(a)
	}
	c := c07Call{K: k, Verb: verb, Kind: c07Kind(obj), Name: obj.GetName(), BodyRV: obj.GetResourceVersion()}
	if body != nil {
		c.Body = *body
	}
	c.PreClaim, c.PreClaimRV = w.peekClaim()
	if c.Kind == "xr" {
		c.PreXR = w.peekXR(c.Name)
	}
	var err error
	if cls := w.inj[k]; cls != "" {
		c.Injected = true
		gk := c07XRGVK.GroupKind()
		if c.Kind == "claim" {
			gk = c07ClaimGVK.GroupKind()
		}
		err = c07ErrOf(cls, gk, c.Name)
	}
	w.calls = append(w.calls, c)
	return &w.calls[len(w.calls)-1], err
}

func (w *c07World) leave(c *c07Call, err error) error {
	c.Err = c07APIClass(err)
	if err != nil && c.Err == "" {
		c.Err = "other"
	}
	c.PostClaim, _ = w.peekClaim()
	if c.Kind == "xr" {
		c.PostXR = w.peekXR(c.Name)
	}
	return err
}

// c07Rec is the ONE client the long-lived syncers of a scenario hold.
type c07Rec struct {
	*Store
	writes []c07Write
	w      *c07World // the sync (or upgrade) in progress
}

func c07Kind(obj client.Object) string {
	if obj.GetObjectKind().GroupVersionKind().Kind == c07ClaimGVK.Kind {
		return "claim"
	}
	return "xr"
}

func c07Body(obj runtime.Object) c07Obj {
	b, err := json.Marshal(obj)
	if err != nil {
		panic(err)
	}
	return c07BodyJSON(b)
}

func c07BodyJSON(b []byte) c07Obj {
	var m map[string]any
	d := json.NewDecoder(strings.NewReader(string(b)))
	d.UseNumber()
	if err := d.Decode(&m); err != nil {
		panic(err)
	}
	return c07Proj(convertNumbers(m).(map[string]any))
}

func (r *c07Rec) Get(ctx context.Context, key client.ObjectKey, obj client.Object, opts ...client.GetOption) error {
	if r.w == nil {
		return r.Store.Get(ctx, key, obj, opts...)
	}
	probe := obj.DeepCopyObject().(client.Object)
	probe.SetName(key.Name)
	c, err := r.w.enter("get", probe, nil)
	if err != nil {
		return r.w.leave(c, err)
	}
	if c.Kind == "xr" && r.w.getCache {
		// answered by the informer cache as the reconciler saw it
		if r.w.cacheXR == nil || r.w.cacheXR.GetName() != key.Name {
			return r.w.leave(c, kerrors.NewNotFound(schema.GroupResource{Group: c07Group, Resource: "xthings"}, key.Name))
		}
		u, ok := obj.(interface{ SetUnstructuredContent(map[string]any) })
		if !ok {
			return r.w.leave(c, fmt.Errorf("c07: cannot serve %T from the cache", obj))
		}
		u.SetUnstructuredContent(deepCopyMap(r.w.cacheXR.Object))
		return r.w.leave(c, nil)
	}
	return r.w.leave(c, r.Store.Get(ctx, key, obj, opts...))
}

func (r *c07Rec) Create(ctx context.Context, obj client.Object, opts ...client.CreateOption) error {
	body := c07Body(obj)
	r.writes = append(r.writes, c07Write{T: c07Kind(obj) + ".create", Body: body})
	if r.w == nil {
		return r.Store.Create(ctx, obj, opts...)
	}
	c, err := r.w.enter("create", obj, &body)
	if err != nil {
		return r.w.leave(c, err)
	}
	return r.w.leave(c, r.Store.Create(ctx, obj, opts...))
}

func (r *c07Rec) Update(ctx context.Context, obj client.Object, opts ...client.UpdateOption) error {
	body := c07Body(obj)
	r.writes = append(r.writes, c07Write{T: c07Kind(obj) + ".update", Body: body})
	if r.w == nil {
		return r.Store.Update(ctx, obj, opts...)
	}
	c, err := r.w.enter("update", obj, &body)
	if err != nil {
		return r.w.leave(c, err)
	}
	return r.w.leave(c, r.Store.Update(ctx, obj, opts...))
}

func (r *c07Rec) Patch(ctx context.Context, obj client.Object, patch client.Patch, opts ...client.PatchOption) error {
	data, err := patch.Data(obj)
	if err != nil {
		return err
	}
	t := "patch"
	switch patch.Type() {
	case types.ApplyPatchType:
		t = "apply"
	case types.JSONPatchType:
		t = "jsonpatch"
	}
	body := c07Obj{Name: obj.GetName(), Labels: map[string]string{}}
	bodyRV := ""
	if t != "jsonpatch" {
		body = c07BodyJSON(data)
		var m struct {
			Metadata struct {
				ResourceVersion string `json:"resourceVersion"`
			} `json:"metadata"`
		}
		_ = json.Unmarshal(data, &m)
		bodyRV = m.Metadata.ResourceVersion
	}
	r.writes = append(r.writes, c07Write{T: c07Kind(obj) + "." + t, Body: body})
	if r.w == nil {
		return r.Store.Patch(ctx, obj, patch, opts...)
	}
	c, ierr := r.w.enter(t, obj, &body)
	c.BodyRV = bodyRV
	if ierr != nil {
		return r.w.leave(c, ierr)
	}
	return r.w.leave(c, r.Store.Patch(ctx, obj, patch, opts...))
}

func (r *c07Rec) Delete(ctx context.Context, obj client.Object, opts ...client.DeleteOption) error {
	body := c07Body(obj)
	r.writes = append(r.writes, c07Write{T: c07Kind(obj) + ".delete", Body: body})
	if r.w == nil {
		return r.Store.Delete(ctx, obj, opts...)
	}
	c, err := r.w.enter("delete", obj, &body)
	if err != nil {
		return r.w.leave(c, err)
	}
	return r.w.leave(c, r.Store.Delete(ctx, obj, opts...))
}

type c07SubRec struct {
	client.SubResourceWriter
	rec *c07Rec
}

func (s c07SubRec) Update(ctx context.Context, obj client.Object, opts ...client.SubResourceUpdateOption) error {
	body := c07Body(obj)
	s.rec.writes = append(s.rec.writes, c07Write{T: c07Kind(obj) + ".status", Body: body})
	if s.rec.w == nil {
		return s.SubResourceWriter.Update(ctx, obj, opts...)
	}
	c, err := s.rec.w.enter("status", obj, &body)
	if err != nil {
		return s.rec.w.leave(c, err)
	}
	return s.rec.w.leave(c, s.SubResourceWriter.Update(ctx, obj, opts...))
}

func (r *c07Rec) Status() client.SubResourceWriter {
	return c07SubRec{SubResourceWriter: r.Store.Status(), rec: r}
}

// ---------------------------------------------------------------- per-call monitors

// c07View is what the reconciler's cached reads handed to Sync.
type c07View struct {
	Claim   c07Obj
	ClaimRV string
	XR      *c07Obj
	Stale   bool // some read was not the live object
}

// c07WorldMon judges every API call of one sync against the TRUE store around it. It
// holds in every world (third-party writes, stale or missing cached reads, failing
// calls), and in the quiet one.
func c07WorldMon(op c07Op, view c07View, w *c07World, syncErr error) []Mon {
	var mons []Mon
	add := func(sig, why string) { mons = append(mons, Mon{Sig: sig, Why: op.Syncer + ": " + why}) }

	// ---- (d) a failing call ends the sync with an error of that class, and nothing is written afterwards.
	// The one class the code may act on: NotFound from the Get inside the client-side Apply (-> Create).
	failed := -1
	for i, c := range w.calls {
		if failed >= 0 {
			if c.isWrite() {
				add("C07:write-after-failed-call", fmt.Sprintf("call %d (%s %s) failed with %s but the sync went on to %s %s", w.calls[failed].K, w.calls[failed].Verb, w.calls[failed].Kind, w.calls[failed].Err, c.Verb, c.Kind))
			}
			continue
		}
		if c.Err != "" && !(c.Verb == "get" && c.Err == "notFound") {
			failed = i
		}
	}
	if failed >= 0 {
		fc := w.calls[failed]
		got := c07APIClass(syncErr)
		switch {
		case syncErr == nil:
			add("C07:api-error-swallowed", fmt.Sprintf("call %d (%s %s) failed with %s but Sync returned nil", fc.K, fc.Verb, fc.Kind, fc.Err))
		case fc.Err != "other" && got != fc.Err:
			add("C07:api-error-class-changed", fmt.Sprintf("call %d (%s %s) failed with %s but Sync returned an error of class %q (%v)", fc.K, fc.Verb, fc.Kind, fc.Err, got, syncErr))
		}
	}

	// ---- (b) writes that took effect
	known := view.Claim // the claim as the syncer knows it: as read, then as each of its own writes left it
	for _, c := range w.calls {
		if !c.isWrite() || c.Err != "" {
			continue
		}
		switch c.Kind {
		case "claim":
			// A claim write takes effect only on the version the syncer read (or wrote
			// last): what a user changed in between is never overwritten.
			if mustJSON(c.PreClaim) != mustJSON(known) {
				for _, d := range c07ClaimDiff(known, c.PreClaim) {
					if !c07SameAt(c.PreClaim, c.PostClaim, d) {
						add("C07:concurrent-claim-edit-lost", fmt.Sprintf("call %d (%s claim) took effect on a claim version the syncer had not read and overwrote %s, which was changed after the read", c.K, c.Verb, d))
					}
				}
			}
			if c.BodyRV == "" {
				add("C07:unconditional-claim-write", fmt.Sprintf("call %d (%s claim) carried no resourceVersion", c.K, c.Verb))
			}
			// a claim that references an XR stays bound to it (whatever the cache served)
			if was, now := c07XRNameOf(c.PreClaim), c07XRNameOf(c.PostClaim); was != "" && now != was {
				add("C07:resourceref-rebound", fmt.Sprintf("call %d (%s claim): the claim referenced the XR %s and now references %q", c.K, c.Verb, was, now))
			}
			known = c.PostClaim
		case "xr":
			if c.PreXR == nil || c.PostXR == nil {
				continue
			}
			pre, post := c07Map(c.PreXR.Spec), c07Map(c.PostXR.Spec)
			// whatever the XR looked like when the write arrived, what its side owns survives
			for _, k := range []string{"resourceRefs", "writeConnectionSecretToRef", "publishConnectionDetailsTo"} {
				if c07Has(pre, k) != c07Has(post, k) || !c07Eq(pre[k], post[k]) {
					add("C07:xr-owned-field-changed", fmt.Sprintf("call %d (%s xr): spec.%s of the stored XR changed", c.K, c.Verb, k))
				}
			}
			if !c07Eq(c.PreXR.Status, c.PostXR.Status) {
				add("C07:xr-owned-field-changed", fmt.Sprintf("call %d (%s xr): the status of the stored XR changed", c.K, c.Verb))
			}
			if en := c07Ann(c.PreXR, c07ExtName); en != "" && c07Ann(c.PostXR, c07ExtName) != en {
				// what a syncer that only knows the served versions asserts: the served XR's
				// external name, else the claim's own
				explained := c07Ann(view.XR, c07ExtName)
				if explained == "" {
					explained = view.Claim.Annotations[c07ExtName]
				}
				if c07Ann(view.XR, c07ExtName) == en || c07Ann(c.PostXR, c07ExtName) != explained {
					add("C07:external-name-changed", fmt.Sprintf("call %d (%s xr): the XR's existing external name %s was replaced by %s", c.K, c.Verb, en, c07Ann(c.PostXR, c07ExtName)))
				} else {
					// the syncer never saw that external name (stale or missing cached read of
					// the XR, or it was set after the read) and wrote what the versions it was
					// served dictate: the unconditional write replaced it (recorded finding D27)
					add(c07SigStaleExt, fmt.Sprintf("call %d (%s xr): the stored XR's external name %s, which the version of the XR served to the reconciler (%s) did not carry, was replaced by %q", c.K, c.Verb, en, c07ViewKind(op, view), c07Ann(c.PostXR, c07ExtName)))
				}
			}
		}
	}
	return mons
}

const c07SigStaleExt = "C07:external-name-overwritten-after-stale-xr-read"

func c07ViewKind(op c07Op, view c07View) string {
	switch {
	case op.MissXr || view.XR == nil:
		return "missing from the cache"
	case op.LagXr > 0:
		return fmt.Sprintf("%d operations old", op.LagXr)
	}
	return "read before a third party's write"
}

// c07ClaimDiff names what differs between two versions of a claim: "spec.<k>", "label <k>",
// "annotation <k>" (status is written through the status subresource and judged apart).
func c07ClaimDiff(a, b c07Obj) []string {
	var out []string
	as, bs := c07Map(a.Spec), c07Map(b.Spec)
	for _, k := range c07UnionKeys(as, bs) {
		if c07Has(as, k) != c07Has(bs, k) || !c07Eq(as[k], bs[k]) {
			out = append(out, "spec."+k)
		}
	}
	for _, k := range c07UnionStr(a.Labels, b.Labels) {
		av, ao := a.Labels[k]
		bv, bo := b.Labels[k]
		if ao != bo || av != bv {
			out = append(out, "label "+k)
		}
	}
	for _, k := range c07UnionStr(a.Annotations, b.Annotations) {
		av, ao := a.Annotations[k]
		bv, bo := b.Annotations[k]
		if ao != bo || av != bv {
			out = append(out, "annotation "+k)
		}
	}
	return out
}

func c07SameAt(a, b c07Obj, what string) bool {
	switch {
	case strings.HasPrefix(what, "spec."):
		k := strings.TrimPrefix(what, "spec.")
		as, bs := c07Map(a.Spec), c07Map(b.Spec)
		return c07Has(as, k) == c07Has(bs, k) && c07Eq(as[k], bs[k])
	case strings.HasPrefix(what, "label "):
		k := strings.TrimPrefix(what, "label ")
		av, ao := a.Labels[k]
		bv, bo := b.Labels[k]
		return ao == bo && av == bv
	case strings.HasPrefix(what, "annotation "):
		k := strings.TrimPrefix(what, "annotation ")
		av, ao := a.Annotations[k]
		bv, bo := b.Annotations[k]
		return ao == bo && av == bv
	}
	return true
}

func c07UnionKeys(a, b map[string]any) []string {
	m := map[string]bool{}
	for k := range a {
		m[k] = true
	}
	for k := range b {
		m[k] = true
	}
	return c07SortedKeys(m)
}

func c07UnionStr(a, b map[string]string) []string {
	m := map[string]bool{}
	for k := range a {
		m[k] = true
	}
	for k := range b {
		m[k] = true
	}
	ks := c07SortedKeys(m)
	sort.Strings(ks)
	return ks
}

// ---------------------------------------------------------------- the managed-fields upgrader

const c07BFA = "before-first-apply"

func c07Managers(u *unstructured.Unstructured) []string {
	out := []string{}
	if u == nil {
		return out
	}
	for _, e := range u.GetManagedFields() {
		out = append(out, e.Manager)
	}
	return out
}

// upgrade runs the long-lived PatchingManagedFieldsUpgrader on the XR as read, under the
// operation's failure injection, and judges it against its three cases (stated here from
// the managers present, independently of the code):
//   claim manager present, before-first-apply absent  -> nothing to do, no API call
//   both present                                      -> exactly the before-first-apply entry is removed
//   otherwise                                         -> all managers are cleared
// A NotFound answer is not an error (the XR is gone); every other class is returned.
func (p *c07Proc) upgrade(pr *c07Pair, op c07Op, xr client.Object) ([]Mon, c07ProbeObs) {
	var mons []Mon
	add := func(sig, why string) { mons = append(mons, Mon{Sig: sig, Why: "upgrade: " + why}) }
	in := c07Managers(&unstructured.Unstructured{Object: xr.(interface{ UnstructuredContent() map[string]any }).UnstructuredContent()})
	hasSSA, hasBFA := false, false
	for _, m := range in {
		hasSSA = hasSSA || m == claimFieldOwnerXR
		hasBFA = hasBFA || m == c07BFA
	}
	w := c07NewWorld(p.st, pr.ns, pr.name, xr.GetName(), op)
	p.rec.w = w
	p.rec.writes = nil
	var uerr error
	if pn := Guard(func() { uerr = p.upg.Upgrade(context.Background(), xr, claimFieldOwnerXR) }); pn != "" {
		add("C07:panic", pn)
	}
	p.rec.w = nil
	p.rec.writes = nil
	after := c07Managers(p.st.Peek(c07XRGVK.GroupKind(), "", xr.GetName()))
	want := in
	wantCalls := 1
	switch {
	case hasSSA && !hasBFA:
		wantCalls = 0
	case hasSSA && hasBFA:
		want = []string{}
		last := -1
		for i, m := range in {
			if m == c07BFA {
				last = i
			}
		}
		for i, m := range in {
			if i != last {
				want = append(want, m)
			}
		}
	default:
		want = []string{}
	}
	if w.k != wantCalls {
		add("C07:upgrade-wrong-calls", fmt.Sprintf("managers %v: %d API calls, expected %d", in, w.k, wantCalls))
	}
	injected := ""
	if wantCalls == 1 {
		injected = w.inj[0]
	}
	switch {
	case injected == "" || injected == "notFound":
		if uerr != nil {
			add("C07:upgrade-error", uerr.Error())
		}
	case uerr == nil:
		add("C07:api-error-swallowed", "the managed-fields patch failed with "+injected+" but Upgrade returned nil")
	case c07APIClass(uerr) != injected:
		add("C07:api-error-class-changed", fmt.Sprintf("the managed-fields patch failed with %s but Upgrade returned an error of class %q (%v)", injected, c07APIClass(uerr), uerr))
	}
	if injected != "" {
		want = in // nothing reached the store
	}
	if mustJSON(after) != mustJSON(want) {
		add("C07:upgrade-wrong-managers", fmt.Sprintf("managers %v became %v, expected %v", in, after, want))
	}
	return mons, c07ProbeObs{Managers: after, Calls: w.k, Err: c07ErrClass(uerr)}
}

// upgradeProbe: the upgrader against an object whose managedFields list the given
// managers in the given order (several managers, before-first-apply at any position).
// The probe object lives only for this operation.
func (p *c07Proc) upgradeProbe(pr *c07Pair, op c07Op) []Mon {
	name := "probe-" + pr.name
	probe := c07Obj{Name: name, Labels: map[string]string{}, Spec: map[string]any{"region": "probe"}}
	p.st.Seed(c07ToU(probe, c07XRGVK, ""))
	defer p.st.Remove(c07XRGVK.GroupKind(), "", name)
	p.st.Mutate(c07XRGVK.GroupKind(), "", name, func(u *unstructured.Unstructured) {
		mf := []any{}
		for _, m := range op.Mf {
			o := "Update"
			if strings.HasPrefix(m, "apiextensions.crossplane.io/") {
				o = "Apply"
			}
			mf = append(mf, map[string]any{"manager": m, "operation": o, "apiVersion": c07XRGVK.GroupVersion().String(), "fieldsType": "FieldsV1", "fieldsV1": map[string]any{}})
		}
		if len(mf) > 0 {
			mdOf(u.Object)["managedFields"] = mf
		}
	})
	xr := &unstructured.Unstructured{}
	xr.SetGroupVersionKind(c07XRGVK)
	if err := p.st.Get(context.Background(), types.NamespacedName{Name: name}, xr); err != nil {
		return []Mon{{Sig: "C07:harness", Why: "cannot read the probe object: " + err.Error()}}
	}
	before := c07Proj(p.st.Peek(c07XRGVK.GroupKind(), "", name).Object)
	mons, po := p.upgrade(pr, op, xr)
	pr.probes = append(pr.probes, po)
	if u := p.st.Peek(c07XRGVK.GroupKind(), "", name); u == nil || mustJSON(c07Proj(u.Object)) != mustJSON(before) {
		mons = append(mons, Mon{Sig: "C07:upgrade-changed-xr", Why: "managed fields upgrade changed the data of the probe object"})
	}
	return mons
}

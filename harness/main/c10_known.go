//go:build verif

package main

// C10, clause "transforms agree with their documented meaning": a reference evaluation, written
// against the API documentation of the transforms (apis/apiextensions/v1/composition_transforms.go)
// with the standard library only, for the families whose meaning is crisp: map, match
// (literal = exact, case sensitive; regexp; first match wins; fallback value / input), string
// TrimPrefix / TrimSuffix / Convert ToUpper, ToLower / Regexp group extraction, math Multiply on
// integers, convert between string / int64 / float64 / bool in the default format (where the
// documentation REJECTS an input - a string that is not a decimal integer, say - the real
// transform must fail too). Judged only when the documentation determines a RESULT (well-formed configuration,
// input of the documented type): the real transform must then succeed with that result; which
// error a transform without a documented result reports is the model's business. The real answer is a function of (transform, input) alone - so this monitor also sees
// state that a long-lived process carries from one call to the next (memo tables keyed too coarsely).

import (
	"encoding/json"
	"fmt"
	"reflect"
	"regexp"
	"strconv"
	"strings"
)

func c10RawValue(r c10Raw) (any, bool) {
	switch r.K {
	case "nil", "empty":
		return nil, true
	}
	var v any
	if err := json.Unmarshal([]byte(r.Src), &v); err != nil {
		return nil, false
	}
	return v, true
}

// c10KnownAnswer: (documented result, true) or (_, false) when the documentation does not determine one.
func c10KnownAnswer(t c10Xf, in any) (any, bool) {
	switch t.Type {
	case "map":
		s, ok := in.(string)
		if !ok || t.Map == nil {
			return nil, false
		}
		var found *c10Raw
		for i := range t.Map.Pairs {
			if t.Map.Pairs[i].K == s {
				found = &t.Map.Pairs[i].V
			}
		}
		if found == nil || found.K == "nil" || found.K == "empty" {
			return nil, false
		}
		return c10RawValue(*found)
	case "match":
		s, ok := in.(string)
		if !ok || t.Match == nil {
			return nil, false
		}
		for _, p := range t.Match.Patterns {
			var hit bool
			switch p.Type {
			case "literal":
				if p.Literal == nil {
					return nil, false
				}
				hit = *p.Literal == s
			case "regexp":
				if p.Regexp == nil {
					return nil, false
				}
				re, err := regexp.Compile(*p.Regexp)
				if err != nil {
					return nil, false
				}
				hit = re.MatchString(s)
			default:
				return nil, false
			}
			if hit {
				return c10RawValue(p.Result)
			}
		}
		switch t.Match.FallbackTo {
		case "Input":
			// (a value that is set at all - even to zero bytes - together with Input is rejected)
			if t.Match.FallbackValue.K == "nil" {
				return in, true
			}
			return nil, false
		case "", "Value":
			return c10RawValue(t.Match.FallbackValue)
		}
		return nil, false
	case "string":
		s, ok := in.(string)
		if !ok || t.String == nil {
			return nil, false
		}
		switch t.String.Type {
		case "TrimPrefix":
			if t.String.Trim != nil {
				return strings.TrimPrefix(s, *t.String.Trim), true
			}
		case "TrimSuffix":
			if t.String.Trim != nil {
				return strings.TrimSuffix(s, *t.String.Trim), true
			}
		case "Convert":
			if t.String.Convert != nil {
				switch *t.String.Convert {
				case "ToUpper":
					return strings.ToUpper(s), true
				case "ToLower":
					return strings.ToLower(s), true
				}
			}
		case "Regexp":
			if t.String.Regexp != nil {
				re, err := regexp.Compile(t.String.Regexp.Match)
				if err != nil {
					return nil, false
				}
				g := int64(0)
				if t.String.Regexp.Group != nil {
					g = *t.String.Regexp.Group
				}
				groups := re.FindStringSubmatch(s)
				if g < 0 || g >= int64(len(groups)) {
					return nil, false
				}
				return groups[g], true
			}
		}
	case "convert":
		return c10KnownConvert(t, in)
	case "math":
		i, ok := in.(int64)
		if !ok || t.Math == nil {
			return nil, false
		}
		switch t.Math.Type {
		case "ClampMin":
			// "ClampMin makes sure that the value is not smaller than the given value" - on
			// integers, compared as integers: the input if it is within the bound, else the bound
			if t.Math.ClampMin == nil {
				return nil, false
			}
			if i < *t.Math.ClampMin {
				return *t.Math.ClampMin, true
			}
			return i, true
		case "ClampMax":
			if t.Math.ClampMax == nil {
				return nil, false
			}
			if i > *t.Math.ClampMax {
				return *t.Math.ClampMax, true
			}
			return i, true
		case "", "Multiply":
			if t.Math.Multiply == nil {
				return nil, false
			}
			return i * *t.Math.Multiply, true
		}
		return nil, false
	}
	return nil, false
}

// c10KnownConvert: the default (format none) conversions between string, int64, float64 and bool
// as the API documents them: strings are parsed with strconv.ParseInt(s, 10, 64) - DECIMAL, no
// base prefix, no underscores, no surrounding whitespace -, strconv.ParseFloat(s, 64),
// strconv.ParseBool; numbers and booleans are printed with FormatInt(i, 10), FormatFloat(f, 'f',
// -1, 64), FormatBool; a number is true iff it is 1; true is 1.
func c10KnownConvert(t c10Xf, in any) (any, bool) {
	v, fails, ok := c10ConvertRef(t, in)
	if !ok || fails {
		return nil, false
	}
	return v, true
}

// c10ConvertRef: (result, the documentation makes it an error, the documentation decides).
func c10ConvertRef(t c10Xf, in any) (any, bool, bool) {
	if t.Type != "convert" || t.Convert == nil || (t.Convert.Format != nil && *t.Convert.Format != "none") {
		return nil, false, false
	}
	to := t.Convert.ToType
	if to == "int" {
		to = "int64"
	}
	switch x := in.(type) {
	case string:
		switch to {
		case "string":
			return x, false, true
		case "int64":
			i, err := strconv.ParseInt(x, 10, 64)
			return i, err != nil, true
		case "float64":
			f, err := strconv.ParseFloat(x, 64)
			return f, err != nil, true
		case "bool":
			b, err := strconv.ParseBool(x)
			return b, err != nil, true
		}
	case int64:
		switch to {
		case "int64":
			return x, false, true
		case "string":
			return strconv.FormatInt(x, 10), false, true
		case "float64":
			return float64(x), false, true
		case "bool":
			return x == 1, false, true
		}
	case float64:
		switch to {
		case "float64":
			return x, false, true
		case "string":
			return strconv.FormatFloat(x, 'f', -1, 64), false, true
		case "bool":
			return x == 1, false, true
		}
	case bool:
		switch to {
		case "bool":
			return x, false, true
		case "string":
			return strconv.FormatBool(x), false, true
		case "int64":
			if x {
				return int64(1), false, true
			}
			return int64(0), false, true
		case "float64":
			if x {
				return float64(1), false, true
			}
			return float64(0), false, true
		}
	}
	return nil, false, false
}

func c10KnownMonitor(t c10Xf, in, out any, failed string, mons *[]Mon) {
	if mons == nil {
		return
	}
	if _, fails, decided := c10ConvertRef(t, in); decided && fails {
		if failed == "" {
			*mons = append(*mons, Mon{Sig: "C10:transform-contradicts-documentation", Why: c10Short(fmt.Sprintf("transform %s of %s gave %s, the documented conversion rejects the input", mustJSON(t), mustJSON(c10Enc(in)), mustJSON(c10Enc(out))))})
		}
		return
	}
	want, ok := c10KnownAnswer(t, in)
	if !ok {
		return
	}
	if failed != "" {
		*mons = append(*mons, Mon{Sig: "C10:transform-contradicts-documentation", Why: c10Short(fmt.Sprintf("transform %s of %s failed (%s), the documented result is %s", mustJSON(t), mustJSON(c10Enc(in)), failed, mustJSON(c10Enc(want))))})
		return
	}
	if !reflect.DeepEqual(c10Enc(want), c10Enc(out)) {
		*mons = append(*mons, Mon{Sig: "C10:transform-contradicts-documentation", Why: c10Short(fmt.Sprintf("transform %s of %s gave %s, the documented result is %s", mustJSON(t), mustJSON(c10Enc(in)), mustJSON(c10Enc(out)), mustJSON(c10Enc(want))))})
	}
}

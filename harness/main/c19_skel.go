//go:build verif

package main

// C19 regenerated call skeletons (tie "a"): for every Go function the C19 model mirrors, the
// ordered list of the calls the model cares about, extracted with go/ast (skel.go) from the
// CURRENT tree on every check run and written to lean/Xp/Gen/C19Skel.lean.
// lean/Xp/Model/C19Skel.lean declares, next to the model step that mirrors each call, the
// skeleton the model was written against; lean/Xp/Props/C19.lean states `skeleton_* :
// Xp.Gen.c19Skel… = …` (by decide). Inserting, removing or reordering one of these calls in one
// of these functions breaks an obligation before any scenario is run.

import "strings"

func c19Chains(chains ...string) func(string) bool {
	m := map[string]bool{}
	for _, c := range chains {
		m[c] = true
	}
	return func(ch string) bool { return m[ch] }
}

func init() {
	RegisterDump("C19Skel", func() string {
		var sb strings.Builder
		const (
			rec  = "internal/controller/apiextensions/usage/reconciler.go"
			sel  = "internal/controller/apiextensions/usage/selector.go"
			hook = "internal/usage/handler.go"
			pt   = "internal/controller/apiextensions/composite/composition_pt.go"
		)
		// Reconciler.Reconcile: the client verbs, the helpers that wrap them (finalizer, selector
		// resolver), the in-memory edits each write carries, and the error predicates that decide
		// between "requeue", "already gone" and "return the error".
		sb.WriteString(SkelDef("c19SkelReconcile", rec, "Reconciler", "Reconcile", SkelOpts{
			Verbs:    SkelVerbs("AddFinalizer", "RemoveFinalizer", "resolveSelectors"),
			DropRecv: true,
			Match: c19Chains("schema.ParseGroupVersion", "meta.WasDeleted", "meta.RemoveLabels", "meta.AddLabels",
				"meta.AddAnnotations", "meta.AddOwnerReference", "usage.IndexValueForObject", "kerrors.IsConflict",
				"xpresource.IgnoreNotFound", "used.OwnedBy", "cmp.Equal", "u.Status.SetConditions"),
			Idents: map[string]bool{"detailsAnnotation": true},
		}))
		sb.WriteString(SkelDef("c19SkelResolveSelectors", sel, "apiSelectorResolver", "resolveSelectors", SkelOpts{
			Verbs: SkelVerbs("resolveSelector"), DropRecv: true,
		}))
		sb.WriteString(SkelDef("c19SkelResolveSelector", sel, "apiSelectorResolver", "resolveSelector", SkelOpts{
			Verbs: SkelVerbs(), DropRecv: true,
			Match:  c19Chains("client.MatchingLabels", "meta.HaveSameController", "composed.FromReferenceToList"),
			Idents: map[string]bool{"controllersMustMatch": true},
		}))
		sb.WriteString(SkelDef("c19SkelControllersMustMatch", sel, "", "controllersMustMatch", SkelOpts{Verbs: map[string]bool{}, Returns: true}))
		sb.WriteString(SkelDef("c19SkelDetailsAnnotation", rec, "", "detailsAnnotation", SkelOpts{
			Verbs: map[string]bool{}, Returns: true, Match: c19Chains("fmt.Sprintf"),
		}))
		sb.WriteString(SkelDef("c19SkelRespectOwnerRefs", rec, "", "RespectOwnerRefs", SkelOpts{
			Verbs: map[string]bool{"GroupKind": true, "GetOwnerReferences": true, "SetOwnerReferences": true}, Returns: true,
		}))
		// the controller's wiring: ONE source of reconcile requests, the Usage itself (no watch on
		// used or using resources: they are polled), the production wrappers around the Reconciler
		sb.WriteString(SkelDef("c19SkelSetup", rec, "", "Setup", SkelOpts{
			Verbs:  map[string]bool{"Named": true, "For": true, "Owns": true, "Watches": true, "WatchesRawSource": true, "WithOptions": true, "Complete": true, "ForControllerRuntime": true},
			Match:  c19Chains("ctrl.NewControllerManagedBy", "ratelimiter.NewReconciler", "errors.WithSilentRequeueOnConflict"),
			Idents: map[string]bool{"NewReconciler": true, "WithPollInterval": true},
		}))
		// the webhook
		sb.WriteString(SkelDef("c19SkelHandle", hook, "Handler", "Handle", SkelOpts{
			Verbs: map[string]bool{"UnmarshalJSON": true, "Unmarshal": true, "validateNoUsages": true, "Errored": true}, DropRecv: true,
		}))
		sb.WriteString(SkelDef("c19SkelValidateNoUsages", hook, "Handler", "validateNoUsages", SkelOpts{
			Verbs: SkelVerbs("AddAnnotations", "MergeFrom", "Errored", "Allowed"), DropRecv: true,
			Match:  c19Chains("u.GetAnnotations"),
			Idents: map[string]bool{"IndexValueForObject": true, "inUseMessage": true},
		}))
		sb.WriteString(SkelDef("c19SkelInUseMessage", hook, "", "inUseMessage", SkelOpts{
			Verbs: map[string]bool{}, Returns: true, Match: c19Chains("fmt.Sprintf"),
		}))
		sb.WriteString(SkelDef("c19SkelIndexValueForObject", hook, "", "IndexValueForObject", SkelOpts{
			Verbs:  map[string]bool{"GetAPIVersion": true, "GetKind": true, "GetName": true, "GetNamespace": true},
			Idents: map[string]bool{"indexValue": true},
		}))
		sb.WriteString(SkelDef("c19SkelIndexValue", hook, "", "indexValue", SkelOpts{
			Verbs: map[string]bool{}, Match: c19Chains("schema.ParseGroupVersion", "fmt.Sprintf"),
		}))
		sb.WriteString(SkelDef("c19SkelSetupWebhook", hook, "", "SetupWebhookWithManager", SkelOpts{
			Verbs:  map[string]bool{"GetFieldIndexer": true, "IndexField": true, "Register": true, "GetWebhookServer": true},
			Match:  c19Chains("xpunstructured.NewClient", "mgr.GetClient"),
			Idents: map[string]bool{"indexValue": true, "NewHandler": true},
		}))
		// the XR composer: a composed resource (a composed Usage among them) is applied with the
		// controllability check and the option that keeps the Usage controller's owner reference
		sb.WriteString(SkelDef("c19SkelComposerApply", pt, "PTComposer", "Compose", SkelOpts{
			Verbs: map[string]bool{"Apply": true}, DropRecv: true,
			Match: c19Chains("resource.MustBeControllableBy", "usage.RespectOwnerRefs"),
		}))
		return sb.String()
	})
}

//go:build verif

package main

// C10: Patch & Transform rendering is total, deterministic and never applies a
// half-rendered resource.
//
// Scenario kinds
//   patch   – one real composite.Apply(patch, xr, cd, only...) on generated objects
//   resolve – real composite.Resolve / ResolveTransforms on a generated input
//   render  – real RenderFromJSON + RenderComposedResourceMetadata        (c10_render.go)
//   compose – real PTComposer.Compose over simstore                       (c10_compose.go)
//   cseq    – one long-lived PTComposer over a sequence of reconciles, with a world that
//             interferes around every Apply                               (c10_world.go)
//
// What is sent to the Lean model: the abstract scenario (objects with int64 and
// float64 kept apart, parsed field paths, decoded extv1.JSON values) plus
// oracle tables for library behaviour the model does not compute (regexp, fmt,
// floats, quantity, hashing, base64, case mapping, encoding/json, mergo). Every
// oracle entry is keyed by the operation's input and is computed by calling
// the library directly, not the Crossplane function under test.

import (
	"bytes"
	"encoding/json"
	"fmt"
	"math"
	"reflect"
	"sort"
	"strconv"
	"strings"

	extv1 "k8s.io/apiextensions-apiserver/pkg/apis/apiextensions/v1"
	"k8s.io/apimachinery/pkg/apis/meta/v1/unstructured"
	"k8s.io/apimachinery/pkg/runtime"

	xpv1 "github.com/crossplane/crossplane-runtime/apis/common/v1"
	"github.com/crossplane/crossplane-runtime/pkg/fieldpath"
	ucomposed "github.com/crossplane/crossplane-runtime/pkg/resource/unstructured/composed"
	ucomposite "github.com/crossplane/crossplane-runtime/pkg/resource/unstructured/composite"

	v1 "github.com/crossplane/crossplane/apis/apiextensions/v1"
	"github.com/crossplane/crossplane/internal/controller/apiextensions/composite"
	"github.com/crossplane/crossplane/internal/xcrd"
)

// ---------------------------------------------------------------- scenario types

type c10Seg struct {
	F *string `json:"f,omitempty"`
	I *uint64 `json:"i,omitempty"`
}

// c10Path is a field path: the raw string and what fieldpath.Parse makes of it (null = parse error).
type c10Path struct {
	Raw  string   `json:"raw"`
	Segs []c10Seg `json:"segs"`
}

// c10Raw is an extv1.JSON: K = nil|empty|bad|val; V = the value encoding/json decodes (numbers are floats).
type c10Raw struct {
	K   string `json:"k"`
	Src string `json:"src"`
	V   any    `json:"v"`
}

type c10Math struct {
	Type     string `json:"type"`
	Multiply *int64 `json:"multiply"`
	ClampMin *int64 `json:"clampMin"`
	ClampMax *int64 `json:"clampMax"`
}

type c10Pattern struct {
	Type    string  `json:"type"`
	Literal *string `json:"literal"`
	Regexp  *string `json:"regexp"`
	Result  c10Raw  `json:"result"`
}

type c10Match struct {
	Patterns      []c10Pattern `json:"patterns"`
	FallbackValue c10Raw       `json:"fallbackValue"`
	FallbackTo    string       `json:"fallbackTo"`
}

type c10Regexp struct {
	Match string `json:"match"`
	Group *int64 `json:"group"`
}

type c10String struct {
	Type    string     `json:"type"`
	Fmt     *string    `json:"fmt"`
	Convert *string    `json:"convert"`
	Trim    *string    `json:"trim"`
	Regexp  *c10Regexp `json:"regexp"`
	Join    *string    `json:"join"`
}

type c10Convert struct {
	ToType string  `json:"toType"`
	Format *string `json:"format"`
}

type c10MapPair struct {
	K string `json:"k"`
	V c10Raw `json:"v"`
}

type c10Map struct {
	Pairs []c10MapPair `json:"pairs"`
}

type c10Xf struct {
	Type    string         `json:"type"`
	Math    *c10Math       `json:"math"`
	Map     *c10Map        `json:"map"`
	Match   *c10Match      `json:"match"`
	String  *c10String     `json:"string"`
	Convert *c10Convert    `json:"convert"`
	Orc     map[string]any `json:"orc"`
}

type c10MO struct {
	Keep   *bool `json:"keep"`
	Append *bool `json:"append"`
}

type c10Policy struct {
	From *string `json:"from"`
	MO   *c10MO  `json:"mo"`
}

type c10Combine struct {
	Vars     []c10Path      `json:"vars"`
	Strategy string         `json:"strategy"`
	Fmt      *string        `json:"fmt"`
	Orc      map[string]any `json:"orc"`
}

type c10Patch struct {
	Type     string           `json:"type"`
	From     *c10Path         `json:"from"`
	To       *c10Path         `json:"to"`
	Combine  *c10Combine      `json:"combine"`
	Xfs      []c10Xf          `json:"xfs"`
	Policy   *c10Policy       `json:"policy"`
	// the patch set a patch of type PatchSet refers to (cseq scenarios; c10_world.go)
	Set      *string          `json:"set,omitempty"`
	MergeOrc []map[string]any `json:"mergeOrc"`
	// compose scenarios: mergo verdicts for the apply option this patch contributes (c10_compose.go)
	ApplyOrc []map[string]any `json:"applyOrc,omitempty"`
	// set by c10FillPatchOracles: the value the patch is to write (source read, transforms done)
	out any
}

type c10WarmCall struct {
	Input any     `json:"input"`
	Xfs   []c10Xf `json:"xfs"`
}

type c10Scn struct {
	Kind string `json:"kind"`
	// OOD is set by the harness when the real run leaves the model's domain
	OOD string `json:"ood,omitempty"`
	// patch
	XR    any       `json:"xr,omitempty"`
	CD    any       `json:"cd,omitempty"`
	Only  []string  `json:"only,omitempty"`
	Patch *c10Patch `json:"patch,omitempty"`
	// resolve
	Input any     `json:"input,omitempty"`
	Xfs   []c10Xf `json:"xfs,omitempty"`
	// resolve: related calls made BEFORE the one under test in the same process (same input with
	// other transforms of the same types, or the same transforms on another input). The model is per
	// call and ignores them; state a process carries from one call to the next shows up.
	Warm []c10WarmCall `json:"warm,omitempty"`
	// render / compose: see the respective files
	Render  *c10RenderScn  `json:"render,omitempty"`
	Compose *c10ComposeScn `json:"compose,omitempty"`
	// cseq: a sequence of reconciles by one long-lived composer (c10_world.go)
	Seq *c10SeqScn `json:"seq,omitempty"`
}

// ---------------------------------------------------------------- value encoding

func c10FloatRepr(f float64) string {
	switch {
	case math.IsNaN(f):
		return "NaN"
	case math.IsInf(f, 1):
		return "+Inf"
	case math.IsInf(f, -1):
		return "-Inf"
	}
	b, err := json.Marshal(f)
	if err != nil {
		return "NaN"
	}
	return string(b)
}

// c10Enc turns a value as found in unstructured content into the scenario
// encoding: int64 stays a JSON number, float64 becomes {"$f": text}.
func c10Enc(v any) any {
	switch x := v.(type) {
	case nil:
		return nil
	case bool:
		return x
	case string:
		return x
	case int64:
		return x
	case int:
		return int64(x)
	case int32:
		return int64(x)
	case float64:
		return map[string]any{"$f": c10FloatRepr(x)}
	case []any:
		out := make([]any, len(x))
		for i := range x {
			out[i] = c10Enc(x[i])
		}
		return out
	case map[string]any:
		out := make(map[string]any, len(x))
		for k, e := range x {
			out[k] = c10Enc(e)
		}
		return out
	case map[string]string:
		out := make(map[string]any, len(x))
		for k, e := range x {
			out[k] = e
		}
		return out
	default:
		return map[string]any{"$unknown": fmt.Sprintf("%T", v)}
	}
}

// c10Dec is the inverse of c10Enc on values decoded with json.Decoder.UseNumber.
func c10Dec(v any) any {
	switch x := v.(type) {
	case nil, bool, string:
		return x
	case json.Number:
		if i, err := strconv.ParseInt(string(x), 10, 64); err == nil {
			return i
		}
		f, _ := strconv.ParseFloat(string(x), 64)
		return f
	case int64:
		return x
	case float64:
		return x
	case []any:
		out := make([]any, len(x))
		for i := range x {
			out[i] = c10Dec(x[i])
		}
		return out
	case map[string]any:
		if r, ok := x["$f"]; ok && len(x) == 1 {
			s, _ := r.(string)
			switch s {
			case "NaN":
				return math.NaN()
			case "+Inf":
				return math.Inf(1)
			case "-Inf":
				return math.Inf(-1)
			}
			f, _ := strconv.ParseFloat(s, 64)
			return f
		}
		out := make(map[string]any, len(x))
		for k, e := range x {
			out[k] = c10Dec(e)
		}
		return out
	}
	return v
}

func c10Copy(v any) any { return runtime.DeepCopyJSONValue(v) }

func c10CopyMap(v any) map[string]any {
	m, _ := v.(map[string]any)
	if m == nil {
		return map[string]any{}
	}
	return runtime.DeepCopyJSON(m)
}

// c10DecodeStd decodes JSON text the way encoding/json does into `any` (all numbers float64).
func c10DecodeStd(b []byte) (any, error) {
	var v any
	err := json.Unmarshal(b, &v)
	return v, err
}

// ---------------------------------------------------------------- preparation (parsed paths, raws)

func c10ParsePath(p *c10Path) {
	if p == nil {
		return
	}
	segs, err := fieldpath.Parse(p.Raw)
	if err != nil {
		p.Segs = nil
		return
	}
	p.Segs = make([]c10Seg, 0, len(segs))
	for _, s := range segs {
		if s.Type == fieldpath.SegmentIndex {
			i := uint64(s.Index)
			p.Segs = append(p.Segs, c10Seg{I: &i})
		} else {
			f := s.Field
			p.Segs = append(p.Segs, c10Seg{F: &f})
		}
	}
}

func c10FillRaw(r *c10Raw) {
	r.V = nil
	switch r.K {
	case "nil", "empty":
		r.Src = ""
		return
	}
	v, err := c10DecodeStd([]byte(r.Src))
	if err != nil {
		r.K = "bad"
		return
	}
	r.K = "val"
	r.V = c10Enc(v)
}

func (r c10Raw) real() extv1.JSON {
	switch r.K {
	case "nil":
		return extv1.JSON{}
	case "empty":
		return extv1.JSON{Raw: []byte{}}
	}
	return extv1.JSON{Raw: []byte(r.Src)}
}

func c10PrepXf(t *c10Xf) {
	if t.Map != nil {
		for i := range t.Map.Pairs {
			c10FillRaw(&t.Map.Pairs[i].V)
		}
	}
	if t.Match != nil {
		for i := range t.Match.Patterns {
			c10FillRaw(&t.Match.Patterns[i].Result)
		}
		c10FillRaw(&t.Match.FallbackValue)
	}
	t.Orc = map[string]any{}
}

func c10PrepPatch(p *c10Patch) {
	c10ParsePath(p.From)
	c10ParsePath(p.To)
	if p.Combine != nil {
		for i := range p.Combine.Vars {
			c10ParsePath(&p.Combine.Vars[i])
		}
		p.Combine.Orc = map[string]any{}
	}
	for i := range p.Xfs {
		c10PrepXf(&p.Xfs[i])
	}
	p.MergeOrc = []map[string]any{}
}

// ---------------------------------------------------------------- building the real API objects

func c10RealXf(t c10Xf) v1.Transform {
	out := v1.Transform{Type: v1.TransformType(t.Type)}
	if t.Math != nil {
		out.Math = &v1.MathTransform{Type: v1.MathTransformType(t.Math.Type), Multiply: t.Math.Multiply, ClampMin: t.Math.ClampMin, ClampMax: t.Math.ClampMax}
	}
	if t.Map != nil {
		m := &v1.MapTransform{Pairs: map[string]extv1.JSON{}}
		for _, p := range t.Map.Pairs {
			m.Pairs[p.K] = p.V.real()
		}
		out.Map = m
	}
	if t.Match != nil {
		m := &v1.MatchTransform{FallbackValue: t.Match.FallbackValue.real(), FallbackTo: v1.MatchFallbackTo(t.Match.FallbackTo)}
		for _, p := range t.Match.Patterns {
			m.Patterns = append(m.Patterns, v1.MatchTransformPattern{Type: v1.MatchTransformPatternType(p.Type), Literal: p.Literal, Regexp: p.Regexp, Result: p.Result.real()})
		}
		out.Match = m
	}
	if t.String != nil {
		s := &v1.StringTransform{Type: v1.StringTransformType(t.String.Type), Format: t.String.Fmt, Trim: t.String.Trim}
		if t.String.Convert != nil {
			c := v1.StringConversionType(*t.String.Convert)
			s.Convert = &c
		}
		if t.String.Regexp != nil {
			r := &v1.StringTransformRegexp{Match: t.String.Regexp.Match}
			if t.String.Regexp.Group != nil {
				g := int(*t.String.Regexp.Group)
				r.Group = &g
			}
			s.Regexp = r
		}
		if t.String.Join != nil {
			s.Join = &v1.StringTransformJoin{Separator: *t.String.Join}
		}
		out.String = s
	}
	if t.Convert != nil {
		c := &v1.ConvertTransform{ToType: v1.TransformIOType(t.Convert.ToType)}
		if t.Convert.Format != nil {
			f := v1.ConvertTransformFormat(*t.Convert.Format)
			c.Format = &f
		}
		out.Convert = c
	}
	return out
}

func c10RealPatch(p c10Patch) v1.Patch {
	out := v1.Patch{Type: v1.PatchType(p.Type)}
	if p.From != nil {
		s := p.From.Raw
		out.FromFieldPath = &s
	}
	if p.To != nil {
		s := p.To.Raw
		out.ToFieldPath = &s
	}
	if p.Set != nil {
		s := *p.Set
		out.PatchSetName = &s
	}
	if p.Combine != nil {
		c := &v1.Combine{Strategy: v1.CombineStrategy(p.Combine.Strategy), Variables: []v1.CombineVariable{}}
		for _, v := range p.Combine.Vars {
			c.Variables = append(c.Variables, v1.CombineVariable{FromFieldPath: v.Raw})
		}
		if p.Combine.Fmt != nil {
			c.String = &v1.StringCombine{Format: *p.Combine.Fmt}
		}
		out.Combine = c
	}
	for _, t := range p.Xfs {
		out.Transforms = append(out.Transforms, c10RealXf(t))
	}
	if p.Policy != nil {
		pol := &v1.PatchPolicy{}
		if p.Policy.From != nil {
			f := v1.FromFieldPathPolicy(*p.Policy.From)
			pol.FromFieldPath = &f
		}
		if p.Policy.MO != nil {
			pol.MergeOptions = &xpv1.MergeOptions{KeepMapValues: p.Policy.MO.Keep, AppendSlice: p.Policy.MO.Append}
		}
		out.Policy = pol
	}
	return out
}

func c10RealMO(p *c10Policy) *xpv1.MergeOptions {
	if p == nil || p.MO == nil {
		return nil
	}
	return &xpv1.MergeOptions{KeepMapValues: p.MO.Keep, AppendSlice: p.MO.Append}
}

// ---------------------------------------------------------------- error classes

var c10ErrTable = []struct{ sub, cls string }{
	{"greater than max allowed index", "maxIndex"},
	{"cannot parse path", "parse"},
	{"unexpected wildcard usage", "wildUsage"},
	{"cannot expand ToFieldPath", "expand"},
	{"Object 'Kind' is missing", "kindMissing"},
	{"failed to merge values", "merge"},
	{"is required by type", "required"},
	{"is unsupported", "patchType"},
	{"combine patch types require at least one variable", "combineVars"},
	{"combine strategy", "combineStrategy"},
	{"given combine strategy", "combineCfg"},
	{"must specify a value if a", "mathCfg"},
	{"unknown math transform type", "mathCfg"},
	{"is not supported for math transform type", "mathCfg"},
	{"is not supported for string transform type", "strType"},
	{"is not supported for map transform", "mapType"},
	{"is not supported for string convert", "strConvType"},
	{"is not supported with format", "convPair"},
	{"transform type", "xfType"},
	{"input is required to be a number for math transformer", "mathInput"},
	{"is not found in map", "mapKey"},
	{"is not supported for map transform", "mapType"},
	{"is not valid JSON", "mapJSON"},
	{"cannot parse result of pattern", "matchJSON"},
	{"cannot parse fallback value", "matchJSON"},
	{"unsupported input type", "matchInput"},
	{"unsupported pattern type", "matchPatternType"},
	{"cannot set both a fallback value", "matchFallbackBoth"},
	{"cannot compile regexp", "regexpCompile"},
	{"could not compile regexp", "regexpCompile"},
	{"is not supported for string transform type", "strType"},
	{"is not set", "strCfg"},
	{"is not supported for string convert", "strConvType"},
	{"cannot join non-array values", "joinInput"},
	{"had no matches for group", "noMatch"},
	{"string is not valid base64", "b64"},
	{"cannot marshal to JSON", "marshal"},
	{"cannot marshal value to JSON", "marshal"},
	{"invalid format", "convCfg"},
	{"invalid type", "convCfg"},
	{"invalid input type", "convInput"},
	{"is not supported with format", "convPair"},
	{"cannot convert value", "convParse"},
	{"not an array", "notArray"},
	{"not an object", "notObject"},
}

// c10ErrClass maps a real error to the model's error enum (by the message constants of the source).
func c10ErrClass(err error) string {
	if err == nil {
		return ""
	}
	if fieldpath.IsNotFound(err) {
		return "notFound"
	}
	msg := err.Error()
	// "given combine strategy"/"given transform type" must win over the shorter needles
	if strings.Contains(msg, "given combine strategy") {
		return "combineCfg"
	}
	if strings.Contains(msg, "given transform type") {
		return "xfCfg"
	}
	for _, e := range c10ErrTable {
		if strings.Contains(msg, e.sub) {
			return e.cls
		}
	}
	return "other:" + msg
}

// ---------------------------------------------------------------- running: patch

func c10Lookup(content map[string]any, raw string) (any, error) {
	return fieldpath.Pave(c10CopyMap(content)).GetValue(raw)
}

// c10FillPatchOracles computes the oracle tables of a patch for the given objects.
// The result tells whether source and transforms succeeded, i.e. whether the real patch reaches
// the phase that writes the destination.
func c10FillPatchOracles(p *c10Patch, xr, cd map[string]any, mons *[]Mon) bool {
	p.out = nil
	typ := p.Type
	if typ == "" {
		typ = "FromCompositeFieldPath"
	}
	var src, dst map[string]any
	switch typ {
	case "FromCompositeFieldPath", "CombineFromComposite":
		src, dst = xr, cd
	case "ToCompositeFieldPath", "CombineToComposite":
		src, dst = cd, xr
	default:
		return false
	}
	var cur any
	toPath := p.To
	switch typ {
	case "FromCompositeFieldPath", "ToCompositeFieldPath":
		if p.From == nil {
			return false
		}
		if toPath == nil {
			toPath = p.From
		}
		in, err := c10Lookup(src, p.From.Raw)
		if err != nil {
			return false
		}
		cur = in
	default:
		if p.Combine == nil || p.To == nil || len(p.Combine.Vars) == 0 {
			return false
		}
		vars := make([]any, 0, len(p.Combine.Vars))
		for _, v := range p.Combine.Vars {
			x, err := c10Lookup(src, v.Raw)
			if err != nil {
				return false
			}
			vars = append(vars, x)
		}
		p.Combine.Orc["in"] = c10Enc(vars)
		if p.Combine.Fmt != nil {
			p.Combine.Orc["out"] = fmt.Sprintf(*p.Combine.Fmt, vars...)
		}
		if p.Combine.Strategy != "string" || p.Combine.Fmt == nil {
			return false
		}
		cur = fmt.Sprintf(*p.Combine.Fmt, vars...)
	}
	out, ok := c10FillChainOracles(p.Xfs, cur, mons)
	if !ok {
		return false
	}
	p.out = out
	mo := c10RealMO(p.Policy)
	if typ == "CombineFromComposite" || typ == "CombineToComposite" {
		mo = nil
	}
	if mo == nil {
		return true
	}
	// merge oracle: one entry per destination that holds a non-nil value
	paths := []string{toPath.Raw}
	if strings.Contains(toPath.Raw, "[*]") && (typ == "FromCompositeFieldPath" || typ == "ToCompositeFieldPath") {
		var ex []string
		var err error
		if pn := Guard(func() { ex, err = fieldpath.Pave(c10CopyMap(dst)).ExpandWildcards(toPath.Raw) }); pn != "" || err != nil {
			return true
		}
		paths = ex
	}
	for _, path := range paths {
		d, err := c10Lookup(dst, path)
		if err != nil || d == nil || out == nil {
			continue
		}
		e := map[string]any{"dst": c10Enc(d), "src": c10Enc(out)}
		scratch := fieldpath.Pave(map[string]any{"x": c10Copy(d)})
		var merr error
		pn := Guard(func() { merr = scratch.MergeValue("x", c10Copy(out), mo) })
		if pn == "" && merr == nil {
			if r, gerr := scratch.GetValue("x"); gerr == nil {
				e["out"] = c10Enc(r)
			}
		}
		p.MergeOrc = append(p.MergeOrc, e)
	}
	return true
}

// c10FillChainOracles runs the chain step by step with the real Resolve to learn every step's
// input, and attaches the library verdicts for that input to each step.
func c10FillChainOracles(xfs []c10Xf, input any, mons *[]Mon) (any, bool) {
	cur := input
	for i := range xfs {
		xfs[i].Orc = c10StepOracle(xfs[i], cur)
		var out any
		var err error
		rt := c10RealXf(xfs[i])
		if pn := Guard(func() { out, err = composite.Resolve(rt, c10Copy(cur)) }); pn != "" || err != nil {
			if pn == "" {
				c10KnownMonitor(xfs[i], cur, nil, c10ErrClass(err), mons)
			}
			return nil, false
		}
		c10ClampMonitor(xfs[i], cur, out, mons)
		c10KnownMonitor(xfs[i], cur, out, "", mons)
		// a typed nil map / slice (json.Unmarshal of the text "null" into a map or slice) has no
		// counterpart among the model's values: the scenario is outside the model's domain
		if m, ok := out.(map[string]any); ok && m == nil {
			c10OOD = "typed-nil-map"
		}
		if l, ok := out.([]any); ok && l == nil {
			c10OOD = "typed-nil-slice"
		}
		cur = out
	}
	return cur, true
}

func c10AsFloat(v any) (float64, bool) {
	switch x := v.(type) {
	case int64:
		return float64(x), true
	case float64:
		return x, true
	}
	return 0, false
}

// c10ClampMonitor: the documented meaning of the clamp transforms, evaluated on the real
// result: "ClampMin makes sure that the value is not smaller than the given value", "ClampMax
// makes sure that the value is not bigger than the given value"; a value within the bound is
// returned unchanged.
func c10ClampMonitor(t c10Xf, in, out any, mons *[]Mon) {
	if mons == nil || t.Type != "math" || t.Math == nil {
		return
	}
	if oi, isInt := out.(int64); isInt {
		// integers are compared as integers: float64 cannot tell neighbours beyond 2^53 apart
		switch t.Math.Type {
		case "ClampMin":
			if t.Math.ClampMin != nil && oi < *t.Math.ClampMin {
				*mons = append(*mons, Mon{Sig: "C10:clamp-exceeds-bound", Why: fmt.Sprintf("ClampMin %d of %v gave %v", *t.Math.ClampMin, in, out)})
			}
		case "ClampMax":
			if t.Math.ClampMax != nil && oi > *t.Math.ClampMax {
				*mons = append(*mons, Mon{Sig: "C10:clamp-exceeds-bound", Why: fmt.Sprintf("ClampMax %d of %v gave %v", *t.Math.ClampMax, in, out)})
			}
		}
		return
	}
	o, ok := c10AsFloat(out)
	if !ok {
		return
	}
	switch t.Math.Type {
	case "ClampMin":
		if t.Math.ClampMin != nil && o < float64(*t.Math.ClampMin) {
			*mons = append(*mons, Mon{Sig: "C10:clamp-exceeds-bound", Why: fmt.Sprintf("ClampMin %d of %v gave %v", *t.Math.ClampMin, in, out)})
		}
	case "ClampMax":
		if t.Math.ClampMax != nil && o > float64(*t.Math.ClampMax) {
			*mons = append(*mons, Mon{Sig: "C10:clamp-exceeds-bound", Why: fmt.Sprintf("ClampMax %d of %v gave %v", *t.Math.ClampMax, in, out)})
		}
	}
}

func c10Objects(xrC, cdC map[string]any) (*ucomposite.Unstructured, *ucomposed.Unstructured) {
	xr := &ucomposite.Unstructured{Unstructured: unstructured.Unstructured{Object: c10CopyMap(xrC)}}
	cd := &ucomposed.Unstructured{Unstructured: unstructured.Unstructured{Object: c10CopyMap(cdC)}}
	return xr, cd
}

func c10PatchTypes(only []string) []v1.PatchType {
	out := make([]v1.PatchType, 0, len(only))
	for _, o := range only {
		out = append(out, v1.PatchType(o))
	}
	return out
}

func c10SourceIsXR(p *c10Patch) (isXR bool, known bool) {
	switch p.Type {
	case "", "FromCompositeFieldPath", "CombineFromComposite":
		return true, true
	case "ToCompositeFieldPath", "CombineToComposite":
		return false, true
	}
	return false, false
}

func c10RunPatch(s *c10Scn) (map[string]any, []Mon, string) {
	xrC, _ := c10Dec(s.XR).(map[string]any)
	cdC, _ := c10Dec(s.CD).(map[string]any)
	if xrC == nil {
		xrC = map[string]any{}
	}
	if cdC == nil {
		cdC = map[string]any{}
	}
	s.XR, s.CD = c10Enc(xrC), c10Enc(cdC)
	var mons []Mon
	c10PrepPatch(s.Patch)
	reachedDest := c10FillPatchOracles(s.Patch, xrC, cdC, &mons)
	rp := c10RealPatch(*s.Patch)
	only := c10PatchTypes(s.Only)

	run := func() (string, map[string]any, map[string]any) {
		xr, cd := c10Objects(xrC, cdC)
		var err error
		if pn := Guard(func() { err = composite.Apply(rp, xr, cd, only...) }); pn != "" {
			return "panic:" + pn, xr.Object, cd.Object
		}
		ec := c10ErrClass(err)
		// which key of a map a wildcard expansion trips over first depends on Go map order, so
		// the class of an error raised while writing a wildcard destination is not compared
		if ec != "" && reachedDest && c10WildDest(s.Patch) && !strings.HasPrefix(ec, "other:") {
			ec = "destErr"
		}
		return ec, xr.Object, cd.Object
	}
	ec, xrA, cdA := run()
	if strings.HasPrefix(ec, "panic:") {
		mons = append(mons, Mon{Sig: "C10:panic", Why: "Apply panicked: " + c10Short(ec)})
		ec = "panic"
	}
	if strings.HasPrefix(ec, "other:") {
		mons = append(mons, Mon{Sig: "C10:unclassified-error", Why: ec})
	}
	// monitor: the source object of the patch is never modified
	if isXR, known := c10SourceIsXR(s.Patch); known {
		if isXR && !reflect.DeepEqual(xrA, xrC) {
			mons = append(mons, Mon{Sig: "C10:source-modified", Why: "the composite resource was modified by a patch that reads from it"})
		}
		if !isXR && !reflect.DeepEqual(cdA, cdC) {
			mons = append(mons, Mon{Sig: "C10:source-modified", Why: "the composed resource was modified by a patch that reads from it"})
		}
	}
	// monitor: an optional patch whose source is missing is a no-op, a required one an error
	c10PolicyMonitor(s.Patch, s.Only, xrC, cdC, ec, xrA, cdA, &mons)
	// monitor: only a patch whose SOURCE is missing may be a no-op – a patch that is not filtered
	// out, whose source path(s) resolve and whose transforms succeed either fails or writes its
	// destination
	if isXR, known := c10SourceIsXR(s.Patch); known && c10PassesOnly(s.Patch, s.Only) {
		before, after := cdC, cdA
		if !isXR {
			before, after = xrC, xrA
		}
		if c10PresentSourceSkipped(s.Patch, reachedDest, s.Patch.out, ec, before, after) {
			mons = append(mons, Mon{Sig: "C10:present-source-skipped", Why: "the source path(s) of the patch resolve and the transforms succeed, the patch reported success, yet the destination was not written"})
		}
	}
	// monitor: determinism – a second run on fresh copies gives the same result
	ec2, xrB, cdB := run()
	if strings.HasPrefix(ec2, "panic:") {
		ec2 = "panic"
	}
	// after an error of a wildcard patch or of a patch with merge options the destination is left
	// in a state that depends on Go map order (see below): only the error is compared then
	wildErr := ec != "" && c10Unstable(s.Patch)
	if ec2 != ec || (!wildErr && (!reflect.DeepEqual(xrA, xrB) || !reflect.DeepEqual(cdA, cdB))) {
		mons = append(mons, Mon{Sig: "C10:nondeterministic", Why: "two runs of the same patch on equal objects differ"})
	}
	obs := map[string]any{"err": ec, "xr": c10Enc(xrA), "cd": c10Enc(cdA)}
	// after an error of a wildcard patch or of a patch with merge options the destination is
	// left in a state that depends on Go map order / mergo internals: not compared
	if ec != "" && c10Unstable(s.Patch) {
		if isXR, known := c10SourceIsXR(s.Patch); known {
			if isXR {
				obs["cd"] = nil
			} else {
				obs["xr"] = nil
			}
		}
	}
	pol := "nil"
	if s.Patch.Policy != nil && s.Patch.Policy.From != nil {
		pol = *s.Patch.Policy.From
	}
	mo := ""
	if s.Patch.Policy != nil && s.Patch.Policy.MO != nil {
		mo = "/mo"
	}
	wild := ""
	if s.Patch.To != nil && strings.Contains(s.Patch.To.Raw, "[*]") {
		wild = "/wild"
	}
	res := ec
	if res == "" {
		res = "ok"
		if reflect.DeepEqual(xrA, xrC) && reflect.DeepEqual(cdA, cdC) {
			res = "noop"
		}
	}
	cls := fmt.Sprintf("patch/%s/%s%s%s/x%d/%s", c10Or(s.Patch.Type, "default"), pol, mo, wild, len(s.Patch.Xfs), res)
	return obs, mons, cls
}

// c10PassesOnly: the patch is not dropped by the `only` filter (which compares the raw type).
func c10PassesOnly(p *c10Patch, only []string) bool {
	if len(only) == 0 {
		return true
	}
	for _, o := range only {
		if o == p.Type {
			return true
		}
	}
	return false
}

// c10WildDest: a from/to-field-path patch whose destination path has a wildcard.
func c10WildDest(p *c10Patch) bool {
	switch p.Type {
	case "", "FromCompositeFieldPath", "ToCompositeFieldPath":
	default:
		return false
	}
	tp := p.To
	if tp == nil {
		tp = p.From
	}
	return tp != nil && strings.Contains(tp.Raw, "[*]")
}

func c10Unstable(p *c10Patch) bool {
	if p.Policy != nil && p.Policy.MO != nil {
		return true
	}
	tp := p.To
	if tp == nil {
		tp = p.From
	}
	return tp != nil && strings.Contains(tp.Raw, "[*]")
}

func c10Or(s, d string) string {
	if s == "" {
		return d
	}
	return s
}

func c10Short(s string) string {
	if i := strings.Index(s, "\n"); i > 0 {
		s = s[:i]
	}
	if len(s) > 300 {
		s = s[:300]
	}
	return s
}

// c10PolicyMonitor evaluates the optional/required clause directly on the real run.
func c10PolicyMonitor(p *c10Patch, only []string, xrC, cdC map[string]any, ec string, xrA, cdA map[string]any, mons *[]Mon) {
	if len(only) > 0 {
		in := false
		for _, o := range only {
			in = in || o == p.Type
		}
		if !in {
			return
		}
	}
	isXR, known := c10SourceIsXR(p)
	if !known {
		return
	}
	src := cdC
	if isXR {
		src = xrC
	}
	var paths []string
	switch p.Type {
	case "", "FromCompositeFieldPath", "ToCompositeFieldPath":
		if p.From == nil {
			return
		}
		paths = []string{p.From.Raw}
	default:
		if p.Combine == nil || p.To == nil || len(p.Combine.Vars) == 0 {
			return
		}
		for _, v := range p.Combine.Vars {
			paths = append(paths, v.Raw)
		}
	}
	// the first path that cannot be read decides
	missing := false
	for _, raw := range paths {
		_, err := c10Lookup(src, raw)
		if err == nil {
			continue
		}
		if fieldpath.IsNotFound(err) {
			missing = true
		}
		break
	}
	if !missing {
		return
	}
	optional := p.Policy == nil || p.Policy.From == nil || *p.Policy.From == "Optional"
	if optional {
		if ec != "" || !reflect.DeepEqual(xrA, xrC) || !reflect.DeepEqual(cdA, cdC) {
			*mons = append(*mons, Mon{Sig: "C10:optional-missing-not-noop", Why: "an optional patch whose source path is missing returned " + ec + " or changed an object"})
		}
	} else if ec == "" {
		*mons = append(*mons, Mon{Sig: "C10:required-missing-no-error", Why: "a required patch whose source path is missing returned no error"})
	}
}

// ---------------------------------------------------------------- running: resolve

func c10RunResolve(s *c10Scn) (map[string]any, []Mon, string) {
	in := c10Dec(s.Input)
	s.Input = c10Enc(in)
	for i := range s.Xfs {
		c10PrepXf(&s.Xfs[i])
	}
	var mons []Mon
	for i := range s.Warm {
		w := &s.Warm[i]
		win := c10Dec(w.Input)
		w.Input = c10Enc(win)
		for j := range w.Xfs {
			c10PrepXf(&w.Xfs[j])
		}
		ood := c10OOD
		c10FillChainOracles(w.Xfs, win, &mons)
		c10OOD = ood
	}
	c10FillChainOracles(s.Xfs, in, &mons)
	run := func() (string, any) {
		var out any
		var err error
		cur := c10Copy(in)
		pn := Guard(func() {
			if len(s.Xfs) == 1 {
				out, err = composite.Resolve(c10RealXf(s.Xfs[0]), cur)
				return
			}
			p := v1.Patch{}
			for _, t := range s.Xfs {
				p.Transforms = append(p.Transforms, c10RealXf(t))
			}
			out, err = composite.ResolveTransforms(p, cur)
		})
		if pn != "" {
			return "panic:" + pn, nil
		}
		if err != nil {
			return c10ErrClass(err), nil
		}
		return "", out
	}
	ec, out := run()
	if strings.HasPrefix(ec, "panic:") {
		mons = append(mons, Mon{Sig: "C10:panic", Why: "Resolve panicked: " + c10Short(ec)})
		ec = "panic"
	}
	if strings.HasPrefix(ec, "other:") {
		mons = append(mons, Mon{Sig: "C10:unclassified-error", Why: ec})
	}
	ec2, out2 := run()
	if strings.HasPrefix(ec2, "panic:") {
		ec2 = "panic"
	}
	if ec2 != ec || !reflect.DeepEqual(c10Enc(out), c10Enc(out2)) {
		mons = append(mons, Mon{Sig: "C10:nondeterministic", Why: "two runs of the same transform chain differ"})
	}
	c10RoundTripMonitor(s.Xfs, in, ec, out, &mons)
	obs := map[string]any{"err": ec, "out": c10Enc(out)}
	names := []string{}
	for _, t := range s.Xfs {
		n := c10Or(t.Type, "none")
		switch {
		case t.String != nil && t.Type == "string":
			n += ":" + c10Or(t.String.Type, "none")
		case t.Convert != nil && t.Type == "convert":
			n += ":" + c10Or(t.Convert.ToType, "none")
		case t.Math != nil && t.Type == "math":
			n += ":" + c10Or(t.Math.Type, "default")
		}
		names = append(names, n)
	}
	warm := ""
	if len(s.Warm) > 0 {
		warm = "warm/"
	}
	big := ""
	if i, ok := in.(int64); ok && (i >= 1<<53 || i <= -(1<<53)) {
		big = ">=2^53"
	}
	return obs, mons, fmt.Sprintf("resolve/%s%s/in=%s%s/%s", warm, strings.Join(names, ","), c10TypeName(in), big, c10Or(ec, "ok"))
}

func c10TypeName(v any) string {
	switch v.(type) {
	case nil:
		return "null"
	case bool:
		return "bool"
	case int64:
		return "int"
	case float64:
		return "float"
	case string:
		return "string"
	case []any:
		return "array"
	case map[string]any:
		return "object"
	}
	return "other"
}

// c10RoundTripMonitor: convert round trips evaluated on the real code. For a chain
// [convert A->B, convert B->A] that succeeds, the value must come back for
// int64->string->int64, bool->string->bool, bool->int64->bool.
func c10RoundTripMonitor(xfs []c10Xf, in any, ec string, out any, mons *[]Mon) {
	if len(xfs) != 2 || ec != "" {
		return
	}
	for _, t := range xfs {
		if t.Type != "convert" || t.Convert == nil || (t.Convert.Format != nil && *t.Convert.Format != "none") {
			return
		}
	}
	norm := func(s string) string {
		if s == "int" {
			return "int64"
		}
		return s
	}
	a, b := norm(xfs[0].Convert.ToType), norm(xfs[1].Convert.ToType)
	src := ""
	switch in.(type) {
	case int64:
		src = "int64"
	case bool:
		src = "bool"
	default:
		return
	}
	if b != src {
		return
	}
	ok := (src == "int64" && a == "string") || (src == "bool" && (a == "string" || a == "int64"))
	if ok && !reflect.DeepEqual(in, out) {
		*mons = append(*mons, Mon{Sig: "C10:convert-roundtrip", Why: fmt.Sprintf("%v -> %s -> %s gave %v", in, a, b, out)})
	}
}

// ---------------------------------------------------------------- dispatch

func c10DecodeScn(raw []byte) (*c10Scn, error) {
	d := json.NewDecoder(bytes.NewReader(raw))
	d.UseNumber()
	var s c10Scn
	if err := d.Decode(&s); err != nil {
		return nil, err
	}
	return &s, nil
}

// c10OOD is set while a scenario runs when it leaves the model's stated domain (the model then
// skips it; the monitors on the real run still count).
var c10OOD string

func c10Run(s *c10Scn) (any, []Mon, string) {
	c10OOD = ""
	obs, mons, cls := c10RunKind(s)
	s.OOD = c10OOD
	if c10OOD != "" {
		cls = "ood/" + c10OOD + "/" + cls
	}
	return obs, mons, cls
}

func c10RunKind(s *c10Scn) (any, []Mon, string) {
	switch s.Kind {
	case "patch":
		if s.Patch == nil {
			return map[string]any{}, nil, "trivial/bad-scenario"
		}
		return c10RunPatch(s)
	case "resolve":
		return c10RunResolve(s)
	case "render":
		if s.Render == nil {
			return map[string]any{}, nil, "trivial/bad-scenario"
		}
		return c10RunRender(s)
	case "compose":
		if s.Compose == nil {
			return map[string]any{}, nil, "trivial/bad-scenario"
		}
		return c10RunCompose(s)
	case "cseq":
		if s.Seq == nil || len(s.Seq.Steps) == 0 {
			return map[string]any{}, nil, "trivial/bad-scenario"
		}
		return c10RunSeq(s)
	}
	return map[string]any{}, nil, "trivial/unknown-kind"
}

func init() {
	Register("C10", func(c *Ctx) {
		for _, raw := range c.Corpus {
			s, err := c10DecodeScn(raw)
			if err != nil {
				continue
			}
			obs, mons, cls := c10Run(s)
			c.Emit(s, obs, mons, "corpus/"+cls)
		}
		for i := 0; i < c.N; i++ {
			s := c10Gen(c.Rng, c.Tier)
			// every scenario goes through its JSON form, exactly like a replayed one
			raw, err := json.Marshal(s)
			if err != nil {
				panic(err)
			}
			s2, err := c10DecodeScn(raw)
			if err != nil {
				panic(err)
			}
			obs, mons, cls := c10Run(s2)
			c.Emit(s2, obs, mons, cls)
		}
	})
	RegisterDump("C10Tables", func() string {
		keys := composite.VerifC10ConversionKeys()
		items := make([]string, 0, len(keys))
		for _, k := range keys {
			items = append(items, fmt.Sprintf("(%s, %s, %s)", leanStr(k[0]), leanStr(k[1]), leanStr(k[2])))
		}
		sort.Strings(items)
		return "/-- key set (from, to, format) of the `conversions` table in composition_transforms.go -/\n" +
			"def c10Conversions : List (String × String × String) := [\n  " + strings.Join(items, ",\n  ") + "]\n" +
			"def c10LabelNamePrefix : String := " + leanStr(xcrd.LabelKeyNamePrefixForComposed) + "\n" +
			"def c10LabelClaimName : String := " + leanStr(xcrd.LabelKeyClaimName) + "\n" +
			"def c10LabelClaimNamespace : String := " + leanStr(xcrd.LabelKeyClaimNamespace) + "\n" +
			"def c10AnnotationResourceName : String := " + leanStr(composite.AnnotationKeyCompositionResourceName) + "\n"
	})
}
